//go:build verif

package ssa

import "github.com/xgo-dev/llvm"

// LLVM 14 (the only LLVM in the verification sandbox) needs opaque pointers
// switched on explicitly to parse the IR llgo's plan9asm front end emits.
func init() {
	llvm.ParseCommandLineOptions([]string{"llgo", "-opaque-pointers"}, "")
}
