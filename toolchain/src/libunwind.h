#ifndef VERIF_LIBUNWIND_H
#define VERIF_LIBUNWIND_H
#include <stddef.h>
typedef unsigned long unw_word_t;
typedef struct { unsigned long opaque[128]; } unw_context_t;
typedef struct { unsigned long opaque[128]; } unw_cursor_t;
#define UNW_REG_IP (-1)
#define UNW_REG_SP (-2)
int unw_getcontext(unw_context_t *);
int unw_init_local(unw_cursor_t *, unw_context_t *);
int unw_step(unw_cursor_t *);
int unw_get_reg(unw_cursor_t *, int, unw_word_t *);
int unw_get_proc_name(unw_cursor_t *, char *, size_t, unw_word_t *);
#endif
