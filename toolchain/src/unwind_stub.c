#include "libunwind.h"
int unw_getcontext(unw_context_t *c) { return 0; }
int unw_init_local(unw_cursor_t *c, unw_context_t *u) { return 0; }
int unw_step(unw_cursor_t *c) { return 0; }
int unw_get_reg(unw_cursor_t *c, int r, unw_word_t *v) { *v = 0; return 0; }
int unw_get_proc_name(unw_cursor_t *c, char *b, size_t n, unw_word_t *o) { if (n) b[0] = 0; return 0; }
