#ifndef VERIF_UV_H
#define VERIF_UV_H
/* Minimal stand-in for libuv's header: libuv is absent from the verification
   sandbox.  Only what runtime/internal/clite/libuv/_wrap/libuv.c needs. */
#include <stdint.h>
#include <stddef.h>
typedef struct uv_loop_s { void *data; char pad[1024]; } uv_loop_t;
typedef struct uv_async_s uv_async_t;
typedef struct uv_timer_s uv_timer_t;
typedef struct uv_signal_s uv_signal_t;
typedef void (*uv_async_cb)(uv_async_t *);
typedef void (*uv_timer_cb)(uv_timer_t *);
typedef void (*uv_signal_cb)(uv_signal_t *, int);
struct uv_async_s { void *data; uv_loop_t *loop; uv_async_cb cb; char pad[256]; };
struct uv_timer_s { void *data; uv_loop_t *loop; uv_timer_cb cb; char pad[256]; };
struct uv_signal_s { void *data; uv_loop_t *loop; uv_signal_cb cb; int signum; char pad[256]; };
typedef struct { int fd; } uv__io_t;
typedef struct uv_tcp_s { void *data; uv_loop_t *loop; uv__io_t io_watcher; char pad[512]; } uv_tcp_t;
int uv_async_init(uv_loop_t *, uv_async_t *, uv_async_cb);
int uv_timer_start(uv_timer_t *, uv_timer_cb, uint64_t, uint64_t);
int uv_signal_start(uv_signal_t *, uv_signal_cb, int);
int uv_signal_start_oneshot(uv_signal_t *, uv_signal_cb, int);
#endif
