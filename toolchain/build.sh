#!/bin/sh
# Builds the shims llgo needs in this sandbox (LLVM 14 only, no lld/libuv/libunwind): toolchain/out
set -e
cd "$(dirname "$0")"
O=$PWD/out
rm -rf "$O"; mkdir -p "$O/bin" "$O/include" "$O/lib/pkgconfig"
L=/usr/lib/llvm-14/bin
cat > "$O/bin/llvm-config" <<EOF
#!/bin/sh
case "\$1" in --bindir) echo "$O/bin";; *) exec $L/llvm-config "\$@";; esac
EOF
for c in clang clang++; do
cat > "$O/bin/$c" <<EOF
#!/bin/sh
exec $L/$c -mllvm -opaque-pointers -Wno-unused-command-line-argument "\$@"
EOF
done
cat > "$O/bin/ld.lld" <<'EOF'
#!/bin/sh
# GNU ld in place of lld: drop the flags only lld understands
n=$#; i=0; skip=0
for a in "$@"; do
  i=$((i+1))
  if [ $skip = 1 ]; then skip=0; continue; fi
  case "$a" in
    --error-limit=*|--lto-O*|--icf=*|--stack-first|--lto-*|-plugin-opt=*) ;;
    -mllvm) skip=1 ;;
    *) set -- "$@" "$a" ;;
  esac
done
shift $n
exec /usr/bin/ld "$@"
EOF
chmod +x "$O"/bin/*
for t in llvm-link llvm-nm llvm-ar llvm-objcopy llvm-objdump llvm-readelf llvm-as llvm-dis opt llc llvm-symbolizer wasm-ld; do
  [ -e $L/$t ] && ln -sf $L/$t "$O/bin/$t"
done
cp src/libunwind.h src/uv.h "$O/include/"
cc -shared -fPIC -O1 -o "$O/lib/libunwind.so" src/unwind_stub.c -I src
# libuv stub: every uv_* symbol the Go wrappers name, each returning 0
{ echo '#include <stddef.h>'
  grep -rhoE 'C\.uv_[a-z0-9_]+' /repo/runtime/internal/clite/libuv/*.go /repo/runtime/internal/clite/libuv/_wrap/*.c 2>/dev/null | sed 's/^C\.//' | sort -u > "$O/uvsyms.txt"
  for s in uv_async_init uv_timer_start uv_signal_start uv_signal_start_oneshot; do echo $s; done >> "$O/uvsyms.txt"
  sort -u "$O/uvsyms.txt" | while read s; do echo "long $s(void) { return 0; }"; done
} > "$O/uv_stub.c"
cc -shared -fPIC -O1 -o "$O/lib/libuv.so" "$O/uv_stub.c"
ln -sf /usr/lib/x86_64-linux-gnu/libgc.so.1 "$O/lib/libgc.so"
cat > "$O/lib/pkgconfig/bdw-gc.pc" <<EOF
Name: bdw-gc
Description: system libgc
Version: 8.2
Libs: -L$O/lib -lgc
Cflags:
EOF
cat > "$O/lib/pkgconfig/libuv.pc" <<EOF
Name: libuv
Description: stub
Version: 1.0
Libs: -L$O/lib -luv
Cflags: -I$O/include
EOF
cat > "$O/lib/pkgconfig/libunwind.pc" <<EOF
Name: libunwind
Description: stub
Version: 1.0
Libs: -L$O/lib -lunwind
Cflags: -I$O/include
EOF
printf '{"Replace": {"/repo/ssa/z_verif_opaque.go": "%s/src/z_verif_opaque.go"}}\n' "$PWD" > "$O/overlay.json"
echo toolchain-ok
