// verifgen: prints the LLVM IR the working tree's cl+ssa emit for one package
// directory (no linking).  Placed under /repo/chore/verifgen by -overlay.
package main

import (
	"flag"
	"fmt"
	"os"

	"github.com/goplus/llgo/internal/build"
)

func main() {
	goos := flag.String("goos", "", "target GOOS")
	goarch := flag.String("goarch", "", "target GOARCH")
	abi := flag.Int("abi", 0, "ABI mode")
	flag.Parse()
	conf := &build.Config{Mode: build.ModeGen, AbiMode: build.AbiMode(*abi), GenLL: false}
	if *goos != "" {
		conf.Goos = *goos
	}
	if *goarch != "" {
		conf.Goarch = *goarch
	}
	pkgs, err := build.Do(flag.Args(), conf)
	if err != nil {
		fmt.Fprintln(os.Stderr, "verifgen:", err)
		os.Exit(1)
	}
	for _, p := range pkgs {
		if p.LPkg != nil {
			fmt.Println(p.LPkg.String())
		}
	}
}
