"""End-to-end vehicle (E): build llgo from /repo's working tree with the LLVM-14
shims, compile and run Go programs with it, and with the reference toolchain."""
import json, os, shutil, subprocess, hashlib
import vlib
from vlib import sh, goenv, ROOT, REPO

TC = os.path.join(ROOT, "toolchain", "out")


def tc_env(cache_home, extra=None):
    e = goenv()
    e["PATH"] = TC + "/bin:" + e["PATH"]
    e.update({
        "LLVM_CONFIG": TC + "/bin/llvm-config",
        "CPATH": TC + "/include", "LIBRARY_PATH": TC + "/lib", "LD_LIBRARY_PATH": TC + "/lib",
        "PKG_CONFIG_PATH": TC + "/lib/pkgconfig", "LLGO_ROOT": REPO,
        "XDG_CACHE_HOME": cache_home,
        "GOCACHE": os.environ.get("GOCACHE") or subprocess.run(["go", "env", "GOCACHE"], env=goenv(), stdout=subprocess.PIPE, text=True).stdout.strip(),
        "HOME": os.environ.get("HOME", "/root"),
        "CGO_CPPFLAGS": "-I/usr/lib/llvm-14/include -D_GNU_SOURCE -D__STDC_CONSTANT_MACROS -D__STDC_FORMAT_MACROS -D__STDC_LIMIT_MACROS",
        "CGO_LDFLAGS": "-L/usr/lib/llvm-14/lib -lLLVM-14",
    })
    if extra:
        e.update(extra)
    return e


class LLGo:
    """llgo built from the working tree; private llgo cache per instance."""

    def __init__(self, ck, tools=("llgo",)):
        self.ck = ck
        self.bindir = os.path.join(ck.work, "bin")
        self.cache = os.path.join(ck.work, "xdgcache")
        os.makedirs(self.bindir, exist_ok=True)
        os.makedirs(self.cache, exist_ok=True)
        if not os.path.isdir(TC):
            sh([os.path.join(ROOT, "toolchain", "build.sh")])
        self.ov = os.path.join(ck.work, "tc_overlay.json")
        json.dump({"Replace": {os.path.join(REPO, "ssa", "z_verif_opaque.go"):
                               os.path.join(ROOT, "toolchain", "src", "z_verif_opaque.go")}}, open(self.ov, "w"))
        self.ok = True
        self.buildlog = ""
        for t in tools:
            rc, out = sh(["go", "build", "-tags", "llvm14,verif", "-overlay", self.ov,
                          "-o", os.path.join(self.bindir, t), "./cmd/" + t if t == "llgo" else "./chore/" + t],
                         cwd=REPO, env=tc_env(self.cache), timeout=1500)
            if rc != 0:
                self.ok = False
                self.buildlog += out
        self.llgo = os.path.join(self.bindir, "llgo")

    def env(self, extra=None):
        return tc_env(self.cache, extra)

    def overlay_build(self, pkgmain_dir_in_repo, files, out_name, tags="llvm14,verif"):
        """build a helper main package placed (by overlay) inside /repo so that it
        can import internal packages; files: {name: source path}"""
        ov = json.load(open(self.ov))
        for n, src in files.items():
            ov["Replace"][os.path.join(REPO, pkgmain_dir_in_repo, n)] = src
        ovp = os.path.join(self.ck.work, "ov_%s.json" % out_name)
        json.dump(ov, open(ovp, "w"))
        outp = os.path.join(self.bindir, out_name)
        rc, out = sh(["go", "build", "-tags", tags, "-overlay", ovp, "-o", outp, "./" + pkgmain_dir_in_repo],
                     cwd=REPO, env=tc_env(self.cache), timeout=1500)
        return rc, out, outp

    def build(self, progdir, out, opt="-O0", extra_args=(), env=None, timeout=2400):
        cmd = [self.llgo, "build"]
        if opt:
            cmd.append(opt)
        cmd += list(extra_args) + ["-o", out, "."]
        return sh(cmd, cwd=progdir, env=self.env(env), timeout=timeout)

    def run_bin(self, binp, args=(), timeout=120, cwd=None, stdin=None):
        return run_capped([binp] + list(args), self.env(), timeout, cwd, stdin)


def run_capped(cmd, env, timeout, cwd=None, stdin=None, cap=32 << 20):
    """run a program with its output going to files; kill it on timeout or when it has printed more
    than `cap` bytes (a miscompiled program may loop printing forever).  Returns (rc, stdout, stderr)."""
    import tempfile, time as _t
    d = tempfile.mkdtemp(prefix="run.", dir=os.environ.get("VERIF_WORK", "/var/tmp"))
    so, se = os.path.join(d, "out"), os.path.join(d, "err")
    try:
        with open(so, "wb") as fo, open(se, "wb") as fe:
            p = subprocess.Popen(cmd, cwd=cwd, env=env, stdin=subprocess.PIPE if stdin is not None else subprocess.DEVNULL,
                                 stdout=fo, stderr=fe)
            if stdin is not None:
                try:
                    p.stdin.write(stdin.encode() if isinstance(stdin, str) else stdin)
                    p.stdin.close()
                except OSError:
                    pass
            t0 = _t.time()
            note = ""
            while p.poll() is None:
                _t.sleep(0.05)
                if _t.time() - t0 > timeout:
                    p.kill()
                    note = "[timeout]"
                    break
                if os.path.getsize(so) + os.path.getsize(se) > cap:
                    p.kill()
                    note = "[output limit exceeded]"
                    break
            p.wait()
            rc = 124 if note else p.returncode
        out = open(so, "rb").read(cap).decode("utf-8", "replace")
        err = open(se, "rb").read(cap).decode("utf-8", "replace") + note
        return rc, out, err
    finally:
        shutil.rmtree(d, ignore_errors=True)


def go_build(progdir, out, env=None, timeout=600, tags=None):
    cmd = ["go", "build", "-o", out]
    if tags:
        cmd += ["-tags", tags]
    cmd += ["."]
    return sh(cmd, cwd=progdir, env=goenv(env), timeout=timeout)


def run_plain(binp, args=(), timeout=120, cwd=None, stdin=None, env=None):
    return run_capped([binp] + list(args), env, timeout, cwd, stdin)


def write_module(d, files, modname="verifprog"):
    os.makedirs(d, exist_ok=True)
    open(os.path.join(d, "go.mod"), "w").write("module %s\n\ngo 1.24\n" % modname)
    for n, src in files.items():
        p = os.path.join(d, n)
        os.makedirs(os.path.dirname(p), exist_ok=True)
        open(p, "w").write(src)
