"""T2 translator: LLVM IR text (as printed by the working tree's cl+ssa through
lib/verifgen) -> Coq terms of Lib/LLIR.v.  Purely syntactic: it parses and
prints, it does not interpret.  Anything outside the straight-line scalar
fragment is reported as untranslatable (None)."""
import re

BIN = {"add": "Add", "sub": "Sub", "mul": "Mul", "sdiv": "SDiv", "udiv": "UDiv", "srem": "SRem",
       "urem": "URem", "and": "And", "or": "Or", "xor": "Xor", "shl": "Shl", "lshr": "LShr", "ashr": "AShr"}
PRED = {"eq": "Peq", "ne": "Pne", "slt": "Pslt", "sle": "Psle", "sgt": "Psgt", "sge": "Psge",
        "ult": "Pult", "ule": "Pule", "ugt": "Pugt", "uge": "Puge"}
CAST = {"trunc": "Trunc", "zext": "ZExt", "sext": "SExt"}
ASSERT = {"AssertDivideByZero": "DivZero", "AssertNegativeShift": "NegShift",
          "AssertIndexRange": "IndexRange", "AssertRuntimeError": "OtherAssert",
          "AssertNilDeref": "NilDeref", "AssertSliceRange": "SliceRange"}


def _bin(op, flags, w, a, b):
    """binary instruction; nsw / nuw / exact change the semantics (poison) and are kept: IBinF"""
    fl = (1 if " nsw" in flags else 0) | (2 if " nuw" in flags else 0) | (4 if " exact" in flags else 0)
    if fl:
        return "IBinF %s %d%%N %d (%s) (%s)" % (op, fl, w, a, b)
    return "IBin %s %d (%s) (%s)" % (op, w, a, b)


def split_functions(ir):
    """{name: (params_text, [body lines])} for every `define`"""
    fns = {}
    cur = None
    for line in ir.splitlines():
        m = re.match(r'define\s+.*?@"?([^"(]+)"?\((.*)\)\s*(#\d+\s*)?\{', line)
        if m:
            cur = (m.group(1), m.group(2), [])
            continue
        if cur is not None:
            if line.startswith("}"):
                fns[cur[0]] = (cur[1], cur[2])
                cur = None
            else:
                cur[2].append(line)
    return fns


def _op(tok):
    tok = tok.strip()
    if tok.startswith("%"):
        return "Val %d" % int(tok[1:]) if tok[1:].isdigit() else None
    if tok in ("true", "false"):
        return "Cst %d" % (1 if tok == "true" else 0)
    if re.fullmatch(r"-?\d+", tok):
        z = int(tok)
        return "Cst (%d)" % z
    return None


def _w(ty):
    m = re.fullmatch(r"i(\d+)", ty.strip())
    return int(m.group(1)) if m else None


def collapse_bypass_div(lines):
    """LLVM's BypassSlowDivision (CodeGenPrepare) rewrites a 64-bit div/rem into
    `if ((a|b) >> 32 == 0) 32-bit udiv/urem else 64-bit op` with a phi.  This
    normalisation drops the fast path again and keeps the original instruction
    (documented in DESIGN.md trusted base: the rewrite is LLVM's, not llgo's)."""
    ls = [l for l in lines if l.strip()]
    for i in range(len(ls) - 3):
        m1 = re.fullmatch(r"\s*%(\d+) = or i64 (%\d+), (%\d+)", ls[i])
        if not m1:
            continue
        a = int(m1.group(1))
        m2 = re.fullmatch(r"\s*%%%d = and i64 %%%d, -4294967296" % (a + 1, a), ls[i + 1])
        m3 = re.fullmatch(r"\s*%%%d = icmp eq i64 %%%d, 0" % (a + 2, a + 1), ls[i + 2])
        m4 = re.fullmatch(r"\s*br i1 %%%d, label %%(\d+), label %%(\d+)" % (a + 2), ls[i + 3])
        if not (m2 and m3 and m4):
            continue
        rest = ls[i + 4:]
        slow = None
        phi_at = None
        for j, l in enumerate(rest):
            ms = re.fullmatch(r"\s*%(\d+) = (sdiv|udiv|srem|urem) i64 (%\d+), (%\d+)", l)
            if ms and (ms.group(3), ms.group(4)) == (m1.group(2), m1.group(3)):
                slow = ms
            mp = re.match(r"\s*%(\d+) = phi i64 ", l)
            if mp:
                phi_at = (j, int(mp.group(1)))
                break
        if slow is None or phi_at is None:
            continue
        j, pn = phi_at
        shift = pn - a

        def ren(mm):
            n = int(mm.group(1))
            return "%%%d" % (n - shift if n >= pn else n)
        tail = [re.sub(r"%(\d+)\b", ren, l) for l in rest[j + 1:]]
        return ls[:i] + ["  %%%d = %s i64 %s, %s" % (a, slow.group(2), m1.group(2), m1.group(3))] + tail
    return lines


def translate(params, lines):
    lines = collapse_bypass_div(lines)
    """straight-line scalar function -> Coq term string, or (None, reason)"""
    ptys = [p.strip().split()[0] for p in params.split(",")] if params.strip() else []
    if any(_w(t) is None for t in ptys):
        return None, "non-integer parameter"
    body = []
    blocks = 0
    ret = None
    nextn = [len(ptys)]

    def numbered(m):
        ok = int(m.group(1)) == nextn[0]
        nextn[0] += 1
        return ok
    for ln in lines:
        s = ln.split(";")[0].strip() if not ln.strip().startswith("call") else ln.strip()
        if not s:
            continue
        if re.fullmatch(r"[\w.$]+:", s):
            blocks += 1
            if blocks > 1:
                return None, "more than one block"
            continue
        m = re.fullmatch(r"ret (i\d+) (\S+)", s)
        if m:
            o = _op(m.group(2))
            if o is None:
                return None, "ret operand " + s
            ret = (o, _w(m.group(1)))
            continue
        m = re.fullmatch(r'call void @"[^"]*\.(Assert\w+)"\(i1 (\S+)\)', s)
        if m and m.group(1) in ASSERT:
            o = _op(m.group(2))
            if o is None:
                return None, "assert operand"
            body.append("IAssert %s (%s)" % (ASSERT[m.group(1)], o))
            continue
        m = re.fullmatch(r"%(\d+) = (\w+)((?: nsw| nuw| exact)*) (i\d+) (\S+), (\S+)", s)
        if m and m.group(2) in BIN:
            if not numbered(m):
                return None, "value numbering " + s
            a, b = _op(m.group(5)), _op(m.group(6))
            if a is None or b is None:
                return None, "operand " + s
            body.append(_bin(BIN[m.group(2)], m.group(3), _w(m.group(4)), a, b))
            continue
        m = re.fullmatch(r"%(\d+) = icmp (\w+) (i\d+) (\S+), (\S+)", s)
        if m and m.group(2) in PRED:
            if not numbered(m):
                return None, "value numbering " + s
            a, b = _op(m.group(4)), _op(m.group(5))
            if a is None or b is None:
                return None, "operand " + s
            body.append("ICmp %s %d (%s) (%s)" % (PRED[m.group(2)], _w(m.group(3)), a, b))
            continue
        m = re.fullmatch(r"%(\d+) = select i1 (\S+), (i\d+) (\S+), (i\d+) (\S+)", s)
        if m:
            if not numbered(m):
                return None, "value numbering " + s
            c, a, b = _op(m.group(2)), _op(m.group(4)), _op(m.group(6))
            if None in (c, a, b):
                return None, "operand " + s
            body.append("ISelect %d (%s) (%s) (%s)" % (_w(m.group(3)), c, a, b))
            continue
        m = re.fullmatch(r"%(\d+) = (trunc|zext|sext) (i\d+) (\S+) to (i\d+)", s)
        if m:
            if not numbered(m):
                return None, "value numbering " + s
            a = _op(m.group(4))
            if a is None:
                return None, "operand " + s
            body.append("ICast %s %d %d (%s)" % (CAST[m.group(2)], _w(m.group(3)), _w(m.group(5)), a))
            continue
        return None, "untranslatable: " + s
    if ret is None:
        return None, "no ret"
    return "{| nparams := %d; body := [%s]; ret := %s; retw := %d |}" % (
        len(ptys), "; ".join(body), ret[0], ret[1]), None


AGG_FIELDS = {"Slice": 3, "String": 2}


def translate_check_prefix(params, lines):
    """Bounds-check prefix of a function: aggregate parameters (Slice {ptr,len,cap},
    String {ptr,len}) are flattened into consecutive environment slots, pointer
    parameters take one slot, `extractvalue` of a parameter maps to its slot, and
    translation stops at the first memory instruction (getelementptr/load/store/
    alloca/call of a non-assert) provided no Assert call follows it.  Returns
    (term, slots, None) or (None, None, reason); slots describes the environment:
    list of ("int", width) / ("ptr",) / ("field", param, index)."""
    plist = []
    depth = 0
    cur = ""
    for ch in params:
        if ch == "," and depth == 0:
            plist.append(cur.strip())
            cur = ""
        else:
            if ch in "({[<":
                depth += 1
            if ch in ")}]>":
                depth -= 1
            cur += ch
    if cur.strip():
        plist.append(cur.strip())
    slots = []
    vmap = {}
    aggs = {}
    for pi, p in enumerate(plist):
        m = re.match(r'(i\d+|ptr|%"[^"]*\.(Slice|String)")\s+%(\d+)', p)
        if not m:
            return None, None, "parameter " + p
        n = int(m.group(3))
        if m.group(1).startswith("i"):
            vmap[n] = len(slots)
            slots.append(("int", int(m.group(1)[1:])))
        elif m.group(1) == "ptr":
            vmap[n] = len(slots)
            slots.append(("ptr",))
        else:
            aggs[n] = (len(slots), AGG_FIELDS[m.group(2)])
            for k in range(AGG_FIELDS[m.group(2)]):
                slots.append(("field", pi, k))
    nenv = [len(slots)]

    def op(tok):
        tok = tok.strip()
        if tok.startswith("%"):
            if not tok[1:].isdigit() or int(tok[1:]) not in vmap:
                return None
            return "Val %d" % vmap[int(tok[1:])]
        return _op(tok)

    def define(n):
        vmap[n] = nenv[0]
        nenv[0] += 1
    body = []
    stopped = False
    seen_block = False
    for ln in lines:
        s = ln.strip()
        if not s.startswith("call"):
            s = s.split(";")[0].strip()
        if not s:
            continue
        if re.fullmatch(r"[\w.$]+:", s):
            if seen_block:
                stopped = True
            seen_block = True
            continue
        is_assert = re.fullmatch(r'call void @"[^"]*\.(Assert\w+)"\(i1 (\S+)\)', s)
        if stopped:
            if is_assert:
                return None, None, "assert after a memory instruction"
            continue
        if is_assert and is_assert.group(1) in ASSERT:
            o = op(is_assert.group(2))
            if o is None:
                return None, None, "assert operand"
            body.append("IAssert %s (%s)" % (ASSERT[is_assert.group(1)], o))
            continue
        m = re.fullmatch(r'%(\d+) = extractvalue %"[^"]*" %(\d+), (\d+)', s)
        if m and int(m.group(2)) in aggs:
            base, nf = aggs[int(m.group(2))]
            if int(m.group(3)) >= nf:
                return None, None, "extractvalue index"
            vmap[int(m.group(1))] = base + int(m.group(3))
            continue
        m = re.fullmatch(r"%(\d+) = (\w+)((?: nsw| nuw| exact)*) (i\d+) (\S+), (\S+)", s)
        if m and m.group(2) in BIN:
            a, b = op(m.group(5)), op(m.group(6))
            if a is None or b is None:
                return None, None, "operand " + s
            define(int(m.group(1)))
            body.append(_bin(BIN[m.group(2)], m.group(3), _w(m.group(4)), a, b))
            continue
        m = re.fullmatch(r"%(\d+) = icmp (\w+) (i\d+) (\S+), (\S+)", s)
        if m and m.group(2) in PRED:
            a, b = op(m.group(4)), op(m.group(5))
            if a is None or b is None:
                return None, None, "operand " + s
            define(int(m.group(1)))
            body.append("ICmp %s %d (%s) (%s)" % (PRED[m.group(2)], _w(m.group(3)), a, b))
            continue
        m = re.fullmatch(r"%(\d+) = select i1 (\S+), (i\d+) (\S+), (i\d+) (\S+)", s)
        if m:
            c, a, b = op(m.group(2)), op(m.group(4)), op(m.group(6))
            if None in (c, a, b):
                return None, None, "operand " + s
            define(int(m.group(1)))
            body.append("ISelect %d (%s) (%s) (%s)" % (_w(m.group(3)), c, a, b))
            continue
        m = re.fullmatch(r"%(\d+) = (trunc|zext|sext) (i\d+) (\S+) to (i\d+)", s)
        if m:
            a = op(m.group(4))
            if a is None:
                return None, None, "operand " + s
            define(int(m.group(1)))
            body.append("ICast %s %d %d (%s)" % (CAST[m.group(2)], _w(m.group(3)), _w(m.group(5)), a))
            continue
        stopped = True
    return "{| nparams := %d; body := [%s]; ret := Cst 0; retw := 1 |}" % (len(slots), "; ".join(body)), slots, None


def translate_call_operand(params, lines, callee, argidx):
    """The straight-line integer computation that produces operand `argidx` of the first call whose
    callee name contains `callee` (e.g. MakeSlice): the function's integer parameters are the
    environment, the body is cut after the instruction defining the operand (later instructions
    cannot influence it; no assert may precede the call).  Returns (term, None) or (None, reason)."""
    cut = None
    for i, ln in enumerate(lines):
        if "call" in ln and callee in ln:
            cut = i
            break
    if cut is None:
        return None, "no call to " + callee
    m = re.search(r"\((.*)\)\s*$", lines[cut].strip())
    if not m:
        return None, "call syntax"
    args = [a.strip() for a in m.group(1).split(",")]
    if argidx >= len(args):
        return None, "operand index"
    am = re.fullmatch(r"(i\d+) (\S+)", args[argidx])
    if not am:
        return None, "operand " + args[argidx]
    term, why = translate(params, [l for l in lines[:cut] if l.strip()] + ["  ret %s %s" % (am.group(1), am.group(2))])
    if term is None:
        return None, why
    # cut the body after the definition of the returned value
    mret = re.search(r"ret := Val (\d+)", term)
    mnp = re.search(r"nparams := (\d+)", term)
    if mret and mnp:
        keep = int(mret.group(1)) - int(mnp.group(1)) + 1
        mb = re.search(r"body := \[(.*)\]; ret", term)
        instrs = [x for x in mb.group(1).split("; ") if x] if mb.group(1) else []
        if any(x.startswith("IAssert") for x in instrs):
            return None, "assert before the call"
        term = term[:mb.start(1)] + "; ".join(instrs[:max(keep, 0)]) + term[mb.end(1):]
    return term, None
