"""Shared driver code for the /verif checks.

A check is a python module props/<ID>/check.py with `run(ck)`; `ck` is a
Check object.  The flow every check follows is described in DESIGN.md 2.1:
Coq build + Print Assumptions, correspondence against /repo, property oracle
on the implementation, violations / known findings, evidence.
"""
import atexit, json, os, re, shutil, subprocess, sys, tempfile, time, random, hashlib

ROOT = os.path.dirname(os.path.dirname(os.path.abspath(__file__)))
REPO = os.environ.get("VERIF_REPO", "/repo")
COQ = os.path.join(ROOT, "coq")
GO124 = "/root/go/pkg/mod/golang.org/toolchain@v0.0.1-go1.24.0.linux-amd64/bin"

# axioms of the Coq standard library that a Props.v file may depend on (named in
# DESIGN.md section 7); everything else must be "Closed under the global context"
STDLIB_AXIOMS = {
    "ClassicalDedekindReals.sig_forall_dec", "ClassicalDedekindReals.sig_not_dec",
    "FunctionalExtensionality.functional_extensionality_dep",
    "functional_extensionality_dep", "sig_forall_dec", "sig_not_dec",
    "Classical_Prop.classic", "classic", "ProofIrrelevance.proof_irrelevance",
    "proof_irrelevance", "JMeq.JMeq_eq", "JMeq_eq", "Eqdep.Eq_rect_eq.eq_rect_eq",
    "eq_rect_eq",
}


def coq_order(d):
    """compilation order of the .v files of one theories/ sub-directory"""
    fs = [f for f in os.listdir(d) if f.endswith(".v")]
    op = os.path.join(d, "ORDER")
    if os.path.exists(op):
        listed = [l.strip() for l in open(op) if l.strip() and not l.startswith("#")]
        return [f for f in listed if f in fs] + sorted(f for f in fs if f not in listed)
    last = [f for f in ("Proofs.v", "Props.v") if f in fs]
    first = [f for f in ("Model.v",) if f in fs]
    mid = sorted(f for f in fs if f not in last and f not in first)
    return first + mid + last


def sh(cmd, cwd=None, env=None, timeout=None, input=None):
    """run a command, return (rc, combined output)"""
    try:
        p = subprocess.run(cmd, cwd=cwd, env=env, timeout=timeout, input=input,
                           stdout=subprocess.PIPE, stderr=subprocess.STDOUT,
                           shell=isinstance(cmd, str), text=True, errors="replace")
        return p.returncode, p.stdout
    except subprocess.TimeoutExpired as e:
        out = e.stdout or ""
        if isinstance(out, bytes):
            out = out.decode("utf-8", "replace")
        return 124, out + "\n[timeout after %ss]" % timeout


def goenv(extra=None):
    e = dict(os.environ)
    e["PATH"] = GO124 + ":" + e.get("PATH", "")
    e.update({"GOTOOLCHAIN": "local", "GOFLAGS": "-mod=mod", "GOPROXY": "off",
              "GONOSUMDB": "*", "GONOSUMCHECK": "1", "GOWORK": "off"})
    e.pop("GOSUMDB", None)
    if extra:
        e.update(extra)
    return e


class Check:
    def __init__(self, pid, tier, seed):
        self.pid, self.tier, self.seed = pid, tier, seed
        self.t0 = time.time()
        base = os.environ.get("VERIF_WORK", "/var/tmp")
        os.makedirs(base, exist_ok=True)
        self.work = tempfile.mkdtemp(prefix="verif.%s." % pid, dir=base)
        atexit.register(lambda: shutil.rmtree(self.work, ignore_errors=True))
        # llgo, clang and go leave temporary objects behind: keep them inside the work directory, which is removed at exit
        tmpd = os.path.join(self.work, "tmp")
        os.makedirs(tmpd, exist_ok=True)
        os.environ["TMPDIR"] = tmpd
        self.violations = []      # dicts: key, what, replay, found
        self.known_hits = []      # (key, what)
        self.obligations = []     # (name, ok, detail)
        self.broken = []          # names of theorems / correspondences that no longer check
        self.cov = {"evaluations": 0, "distinct_nontrivial": 0, "samples": [],
                    "rule": "", "distribution": {}}
        self.assumptions = []
        self.trusted = []
        self.checker_cmd = ""
        self.rng = random.Random(seed)
        self.known = self._load_known()
        self.logs = []
        # stale replay files of an earlier run with the same tier/seed would mislead a reader
        rd = os.path.join(ROOT, "replay", pid)
        if os.path.isdir(rd):
            for f in os.listdir(rd):
                if f.startswith("%s_%d_" % (tier, seed)):
                    try:
                        os.remove(os.path.join(rd, f))
                    except OSError:
                        pass

    # ---------- known findings ----------
    def _load_known(self):
        k = {}
        p = os.path.join(ROOT, "known_findings.txt")
        if os.path.exists(p):
            for line in open(p):
                line = line.strip()
                m = re.match(r"finding:\s+property=(\S+)\s+key=(\S+)\s+(.*)", line)
                if m and m.group(1) == self.pid:
                    k[m.group(2)] = m.group(3)
        return k

    def phase(self, name):
        """timing mark, printed and kept in evidence"""
        now = time.time()
        self.cov.setdefault("phases_s", {})[name] = round(now - self.t0, 1)
        print("[%s] +%.1fs %s" % (self.pid, now - self.t0, name), flush=True)

    def log(self, *a):
        msg = " ".join(str(x) for x in a)
        self.logs.append(msg)
        print("[%s] %s" % (self.pid, msg), flush=True)

    # ---------- Coq ----------
    def coq_build(self, subdir=None, timeout=1500):
        """(re)build the Coq files of theories/Lib and theories/<subdir> that are stale,
        in dependency order (Lib/*, then Model.v, other files, Proofs.v, Props.v, or the
        order listed in theories/<subdir>/ORDER).  Full .vo builds with coqc; a lock
        serialises concurrent checks.  Returns (ok, log); a failure names the file and
        line that no longer checks in self.broken."""
        import fcntl
        subdirs = [] if not subdir else ([subdir] if isinstance(subdir, str) else list(subdir))
        self.checker_cmd = "coqc -Q /verif/coq/theories LLGoV <Lib/*.v, %s/*.v in dependency order> (full .vo); then Print Assumptions on every Theorem of Props.v" % ",".join(subdirs)
        lock = open(os.path.join(COQ, ".lock"), "w")
        fcntl.flock(lock, fcntl.LOCK_EX)
        log = ""
        try:
            newest_dep = 0.0
            for sd in ["Lib"] + subdirs:
                d = os.path.join(COQ, "theories", sd)
                files = coq_order(d)
                dir_newest = newest_dep
                for f in files:
                    v = os.path.join(d, f)
                    vo = v[:-2] + ".vo"
                    stale = (not os.path.exists(vo)) or os.path.getmtime(vo) < os.path.getmtime(v) \
                        or os.path.getmtime(vo) < dir_newest
                    if stale:
                        rc, out = sh(["coqc", "-Q", os.path.join(COQ, "theories"), "LLGoV", v], cwd=COQ, timeout=timeout)
                        log += out
                        if rc != 0:
                            m = re.findall(r'File "([^"]+)", line (\d+)', out)
                            where = "%s:%s" % (os.path.relpath(m[-1][0], COQ), m[-1][1]) if m else os.path.relpath(v, COQ)
                            self.broken.append("coq-build:" + where)
                            self.log("coq build FAILED at", where)
                            self.log(out[-1500:])
                            return False, log
                    dir_newest = max(dir_newest, os.path.getmtime(vo))
                # later directories in the list may depend on earlier ones (e.g. C03 on C02, C19 on C12)
                newest_dep = max(newest_dep, dir_newest)
            return True, log
        finally:
            fcntl.flock(lock, fcntl.LOCK_UN)
            lock.close()

    def coq_props(self, module, vfile, whitelist=()):
        """Print Assumptions for every Theorem in Props.v; fill self.obligations."""
        src = open(os.path.join(COQ, vfile)).read()
        names = re.findall(r"^\s*Theorem\s+([A-Za-z0-9_']+)", src, re.M)
        if re.search(r"\b(Admitted|admit|Axiom|Parameter|Conjecture)\b", re.sub(r"\(\*.*?\*\)", "", src, flags=re.S)):
            self.broken.append("forbidden keyword in " + vfile)
        body = "Require Import %s.\n" % module
        for n in names:
            body += 'Print Assumptions %s.\nCheck %s.\n' % (n, n)
        rc, out = self.coq_run(body, "assum_%s" % self.pid)
        if rc != 0:
            for n in names:
                self.obligations.append((n, False, "Props module does not load"))
            self.broken.append("props-load:" + module)
            self.log(out[-800:])
            return
        # split output per theorem: each Print Assumptions yields either
        # "Closed under the global context" or "Axioms:\n name : type ..."
        chunks = re.split(r"(?=Closed under the global context|Axioms:)", out)
        chunks = [c for c in chunks if c.startswith("Closed") or c.startswith("Axioms:")]
        allowed = set(STDLIB_AXIOMS) | set(whitelist)
        for i, n in enumerate(names):
            if i >= len(chunks):
                self.obligations.append((n, False, "no Print Assumptions output"))
                continue
            c = chunks[i]
            if c.startswith("Closed"):
                self.obligations.append((n, True, "closed"))
            else:
                ax = re.findall(r"^([A-Za-z_][A-Za-z0-9_.']*)\s*:", c, re.M)
                ax = [a for a in ax if a != n]
                bad = [a for a in ax if a not in allowed]
                self.obligations.append((n, not bad, "axioms: " + ", ".join(ax)))
                if bad:
                    self.broken.append("axiom:%s:%s" % (n, ",".join(bad)))

    def coq_run(self, text, name, timeout=900):
        """compile a scratch .v file against the project; returns (rc, output)"""
        d = os.path.join(self.work, "coqrun")
        os.makedirs(d, exist_ok=True)
        p = os.path.join(d, name + ".v")
        open(p, "w").write(text)
        return sh(["coqc", "-Q", os.path.join(COQ, "theories"), "LLGoV",
                   "-Q", os.path.join(COQ, "gen"), "LLGoVGen", p], cwd=d, timeout=timeout)

    def coq_mismatches(self, header, cases_terms, model_expr, eqb_expr, name, shard=400):
        """Evaluate the model on the harness' cases inside Coq (vm_compute) and
        return the list of case indexes where model and implementation differ.
        cases_terms: list of Coq terms "(input, observed)"."""
        bad = []
        procs = []
        d = os.path.join(self.work, "coqrun")
        os.makedirs(d, exist_ok=True)
        for si in range(0, len(cases_terms), shard):
            part = cases_terms[si:si + shard]
            text = header + "\nDefinition cases := [\n" + ";\n".join(part) + "\n].\n" + \
                "Definition M := Eval vm_compute in mismatches (%s) (%s) cases.\nPrint M.\n" % (eqb_expr, model_expr)
            p = os.path.join(d, "%s_%d.v" % (name, si))
            open(p, "w").write(text)
            procs.append((si, p, subprocess.Popen(
                ["coqc", "-Q", os.path.join(COQ, "theories"), "LLGoV",
                 "-Q", os.path.join(COQ, "gen"), "LLGoVGen", p],
                cwd=d, stdout=subprocess.PIPE, stderr=subprocess.STDOUT, text=True)))
            if len(procs) >= 16:
                bad += self._reap(procs)
                procs = []
        bad += self._reap(procs)
        return sorted(bad)

    def _reap(self, procs):
        bad = []
        for si, p, pr in procs:
            out, _ = pr.communicate(timeout=1800)
            m = re.search(r"M\s*=\s*\[(.*?)\]\s*:", out, re.S)
            if pr.returncode != 0 or not m:
                self.broken.append("model-eval:" + os.path.basename(p))
                self.log("model evaluation failed:", out[-600:])
                continue
            for x in re.findall(r"\d+", m.group(1)):
                bad.append(si + int(x))
        return bad

    # ---------- Go ----------
    def go_test_overlay(self, pkg, files, run="TestVerif", env=None, tags=None,
                        timeout=1200, extra_overlay=None):
        """run an injected test file inside a /repo package without touching the tree.
        files: {name_in_pkg: source_path}"""
        ov = {"Replace": {}}
        for name, src in files.items():
            ov["Replace"][os.path.join(REPO, pkg, name)] = src
        if extra_overlay:
            ov["Replace"].update(extra_overlay)
        ovp = os.path.join(self.work, "overlay_%s.json" % re.sub(r"\W", "_", pkg))
        json.dump(ov, open(ovp, "w"))
        cmd = ["go", "test", "-vet=off", "-count=1", "-overlay", ovp, "-run", run,
               "-timeout", "%ds" % timeout]
        if tags:
            cmd += ["-tags", tags]
        cmd += ["./" + pkg]
        e = goenv(env)
        e.setdefault("VERIF_SEED", str(self.seed))
        e.setdefault("VERIF_TIER", self.tier)
        return sh(cmd, cwd=REPO, env=e, timeout=timeout + 60)

    # ---------- verdicts ----------
    def violation(self, key, what, replay, found=True):
        """record a property violation.  key identifies the specific failing input
        class; if known_findings.txt lists it, it is reported as KNOWN-FINDING."""
        if key in self.known:
            if key not in [k for k, _ in self.known_hits]:
                self.known_hits.append((key, what))
            return
        for v in self.violations:
            if v["key"] == key:      # one VIOLATION line per key; keep a few examples
                v["count"] = v.get("count", 1) + 1
                if v["count"] <= 5:
                    v["replay"] = {"first": v["replay"], "more": [replay]} if "more" not in (v["replay"] if isinstance(v["replay"], dict) else {}) \
                        else {"first": v["replay"]["first"], "more": v["replay"]["more"] + [replay]}
                return
        self.violations.append({"key": key, "what": what, "replay": replay, "found": found})

    def correspondence_broken(self, name, detail):
        self.broken.append("correspondence:" + name)
        self.log("correspondence", name, "differs:", str(detail)[:600])
        self._last_corr = (name, detail)

    def add_cov(self, evaluations=0, nontrivial=0, samples=None, **dist):
        self.cov["evaluations"] += evaluations
        self.cov["distinct_nontrivial"] += nontrivial
        if samples:
            self.cov["samples"] += samples[:3]
        for k, v in dist.items():
            self.cov["distribution"][k] = v

    def finish(self, level="proof", extra_cov=None):
        os.makedirs(os.path.join(ROOT, "replay", self.pid), exist_ok=True)
        os.makedirs(os.path.join(ROOT, "evidence"), exist_ok=True)
        lines = []
        # a broken proof / correspondence with no concrete failing input is still a violation
        if self.broken and not any(v["found"] for v in self.violations):
            self.violations.append({"key": "unchecked", "found": False,
                                    "what": "no longer shown to hold: " + "; ".join(self.broken),
                                    "replay": {"broken": self.broken,
                                               "detail": getattr(self, "_last_corr", None)}})
        for i, v in enumerate(self.violations):
            rp = os.path.join(ROOT, "replay", self.pid, "%s_%d_%d.json" % (self.tier, self.seed, i))
            json.dump({"property": self.pid, "seed": self.seed, "tier": self.tier, "key": v["key"],
                       "what": v["what"], "replay": v["replay"], "broken": self.broken},
                      open(rp, "w"), indent=1, default=str)
            lines.append("VIOLATION property=%s replay=%s%s" %
                         (self.pid, rp, "" if v["found"] else " no-failing-input-found"))
        for k, w in self.known_hits:
            print("KNOWN-FINDING: property=%s %s (%s)" % (self.pid, k, w), flush=True)
        nob = len(self.obligations)
        ndis = sum(1 for _, ok, _ in self.obligations if ok)
        cov = dict(self.cov)
        cov.update({"obligations": nob, "discharged": ndis,
                    "checker_cmd": self.checker_cmd, "trusted_base": self.trusted,
                    "theorems": [{"name": n, "ok": ok, "assumptions": d} for n, ok, d in self.obligations],
                    "broken": self.broken,
                    "known_findings_reproduced": [k for k, _ in self.known_hits]})
        if not cov["samples"]:
            cov["samples"] = ["(no case recorded)"]
        if extra_cov:
            cov.update(extra_cov)
        ev = {"property_id": self.pid, "tier": self.tier, "seed": self.seed, "level": level,
              "coverage": cov, "assumptions": self.assumptions,
              "wall_s": round(time.time() - self.t0, 2), "violations": len(self.violations)}
        json.dump(ev, open(os.path.join(ROOT, "evidence", self.pid + ".json"), "w"), indent=1, default=str)
        for l in lines:
            print(l, flush=True)
        self.log("done: obligations %d/%d, evaluations %d, violations %d, known %d, %.1fs" %
                 (ndis, nob, cov["evaluations"], len(self.violations), len(self.known_hits),
                  time.time() - self.t0))
        return 1 if self.violations else 0


# ---------- encoding helpers for cases.v ----------
def coq_bytes(b):
    if isinstance(b, str):
        b = b.encode("utf-8", "surrogatepass")
    return "[" + ";".join(str(x) for x in b) + "]%N"


def coq_runes(s):
    return "[" + ";".join(str(ord(c)) for c in s) + "]%N"


def coq_list(items):
    return "[" + "; ".join(items) + "]"


def coq_opt(x):
    return "None" if x is None else "(Some %s)" % x
