(* C10 - second model: several channels and select.  Executable, no proofs.
   Select / TrySelect / trySelect / trySelectDir / prepareSelect / endSelect / selectOp of
   z_chan.go (after the F5 repair: a select whose send case finds the channel closed
   unregisters itself and panics), next to the plain operations of C10/Model.v, on a
   list of channels.  The per-channel record [chan], the ring buffer helpers and the
   specification [spec_step] are those of C10/Model.v.

   Granularity as in Model.v: a channel's critical section is one atomic step.  That now
   includes notifyOps: inside the section every registered select's private flag is
   set and the select is woken if it sleeps on its private condition variable (the nested
   mutex is a leaf lock that is never held at a yield point; the harness scheduler runs
   it without yielding, vsched.NestedAtomic).  selectOp.wait is a step of its own.
   selectSendFirst compares channel addresses; the harness allocates the channels in one
   array, so the address order is the index order. *)
From LLGoV Require Import Lib.Common C10.Model.

Inductive scase := CSend (k : nat) (v : N) | CRecv (k : nat).
Inductive xop := XPlain (k : nat) (o : op) | XSelect (cs : list scase) | XTrySelect (cs : list scase).

Inductive xres :=
| XR (r : res)                                  (* plain operation *)
| XSel (isel : nat) (recvOK : bool) (v : N)     (* a select committed case isel *)
| XDefault                                      (* TrySelect found no case ready *)
| XPanic.                                       (* select: send case on a closed channel *)

Record xchan := mkX { xc : chan; xsops : list nat }.   (* sops: thread ids of the registered selects *)

(* where a thread is parked: on a channel's condition variable or on its own select's *)
Inductive where_parked := OnChan (k : nat) | OnSel.

Inductive xpc :=
| XStart
| XSendW | XRecvW | XBcast (r : option res) | XRecv2 | XRecv2W   (* plain operation, as Model.pc *)
| SPrep (i : nat)                        (* Select: at the Lock of prepareSelect for case i *)
| STry (j : nat)                         (* at the Lock of the j-th probe *)
| STryB (j : nat) (r : option (bool * N)) (* probe j succeeded: at Broadcast; r = Some (recvOK, value) or None = second phase follows *)
| STry2 (j : nat) | STry2W (j : nat)     (* second phase of an unbuffered chanTryRecv *)
| SWait | SWaitW                         (* selectOp.wait: at its Lock / in its Wait *)
| SEnd (i : nat) (r : xres)              (* at the Lock of endSelect for case i; r = what Select returns *)
| TTry (i : nat) | TTryB (i : nat) (r : option (bool * N)) | TTry2 (i : nat) | TTry2W (i : nat).   (* TrySelect *)

Record xthread := mkXT {
  xprog : list xop; xtpc : xpc; xpark : option where_parked;
  xslots : list N;        (* receive buffers of the current call: one per case (plain: one) *)
  xsem : bool;            (* selectOp.sem of the current Select *)
  xout : list xres }.

Record xstate := mkXS { xchs : list xchan; xths : list xthread; xlog : list (nat * nat * event) }.

(* ---------- helpers ---------- *)
Definition ncases (o : xop) : nat :=
  match o with XPlain _ _ => 1 | XSelect cs | XTrySelect cs => length cs end.
Definition fresh_slots (p : list xop) : list N :=
  match p with [] => [] | o :: _ => repeat 0%N (ncases o) end.

Definition xfin (th : xthread) (rest : list xop) (r : xres) : xthread :=
  mkXT rest XStart None (fresh_slots rest) false (xout th ++ [r]).
Definition xgoto (th : xthread) (p : xpc) : xthread :=
  mkXT (xprog th) p None (xslots th) (xsem th) (xout th).
Definition xparkat (th : xthread) (p : xpc) (w : where_parked) : xthread :=
  mkXT (xprog th) p (Some w) (xslots th) (xsem th) (xout th).
Definition xset_slot (th : xthread) (i : nat) (v : N) : xthread :=
  mkXT (xprog th) (xtpc th) (xpark th) (upd (xslots th) i v) (xsem th) (xout th).
Definition xset_sem (th : xthread) (b : bool) : xthread :=
  mkXT (xprog th) (xtpc th) (xpark th) (xslots th) b (xout th).
Definition xunpark (th : xthread) : xthread :=
  mkXT (xprog th) (xtpc th) None (xslots th) (xsem th) (xout th).
Definition slot_of (th : xthread) (i : nat) : N := nth i (xslots th) 0%N.

Definition set_selsends c n := mkChan (buf c) (dptr c) (getp c) (len c) (cap c) (sends c) n (closed c).

(* p.data = the receive buffer of (thread t, case i) *)
Definition code (t i : nat) : nat := 8 * t + i.

(* effect of one critical section on channel k *)
Record xeff := mkXE {
  f_ch : chan; f_th : xthread;
  f_deliver : option (nat * N);    (* Memcpy(p.data, v) *)
  f_notify : bool;                 (* notifyOps(p) ran *)
  f_ev : option event }.

Definition xnoop (c : chan) (th : xthread) : xeff := mkXE c th None false None.

(* ---------- plain operations (ChanSend, ChanRecv, ChanTrySend, ChanTryRecv, ChanClose) ---------- *)
Definition xsend_sec (c : chan) (th : xthread) (rest : list xop) (k : nat) (v : N) : xeff :=
  if cap c =? 0 then
    if negb (getp c =? chanHasRecv) && negb (closed c) then
      let s1 := S (sends c) in
      (* sends++; if sends == 1 || sends-1 == selsends { notifyOps }; Wait *)
      mkXE (set_sends c s1) (xparkat th XSendW (OnChan k)) None ((s1 =? 1) || (pred s1 =? selsends c)) None
    else if closed c then mkXE c (xfin th rest (XR RPanic)) None false (Some ESendClosed)
    else mkXE (set_getp c 0) (xgoto th (XBcast (Some (RSend true)))) (deliver_of c v) true (Some (ESend v))
  else
    if (len c =? cap c) && negb (closed c) then mkXE c (xparkat th XSendW (OnChan k)) None false None
    else if closed c then mkXE c (xfin th rest (XR RPanic)) None false (Some ESendClosed)
    else mkXE (put c v) (xgoto th (XBcast (Some (RSend true)))) None true (Some (ESend v)).

Definition xrecv_sec (c : chan) (th : xthread) (rest : list xop) (k t : nat) : xeff :=
  if cap c =? 0 then
    if (getp c =? chanHasRecv) && negb (closed c) then mkXE c (xparkat th XRecvW (OnChan k)) None false None
    else if closed c then mkXE c (xfin th rest (XR (RRecv false (slot_of th 0)))) None false (Some ERecvClosed)
    else mkXE (arm c (code t 0)) (xgoto th (XBcast None)) None true None
  else
    if len c =? 0 then
      if closed c then mkXE c (xfin th rest (XR (RRecv false (slot_of th 0)))) None false (Some ERecvClosed)
      else mkXE c (xparkat th XRecvW (OnChan k)) None false None
    else mkXE (take c) (xgoto (xset_slot th 0 (front c)) (XBcast (Some (RRecv true (front c)))))
              None true (Some (ERecv (front c))).

Definition xrecv2_sec (c : chan) (th : xthread) (rest : list xop) (k : nat) (try : bool) : xeff :=
  if (getp c =? chanHasRecv) && negb (closed c) then mkXE c (xparkat th XRecv2W (OnChan k)) None false None
  else mkXE c (xfin th rest (XR (if try then RTryRecv (negb (closed c)) (negb (closed c)) (slot_of th 0)
                                 else RRecv (negb (closed c)) (slot_of th 0))))
            None false (Some (if closed c then ERecvClosed else ERecv (slot_of th 0))).

(* ---------- the probes shared by plain try-operations, TrySelect and Select ---------- *)
Inductive pstat :=
| PFail                       (* not ready *)
| PClosedSend                 (* chanTrySend: closed *)
| PDone (recvOK : bool) (v : N)   (* committed (tryOK): Broadcast follows unless nothing changed (closed receive) *)
| PArmed.                     (* unbuffered receive: flag set, Broadcast and second phase follow *)

(* chanTrySend: (new channel, delivery, status) *)
Definition probe_send (c : chan) (v : N) : chan * option (nat * N) * pstat :=
  if closed c then (c, None, PClosedSend)
  else if cap c =? 0 then
    if negb (getp c =? chanHasRecv) then (c, None, PFail)
    else (set_getp c 0, deliver_of c v, PDone false 0%N)
  else
    if len c =? cap c then (c, None, PFail)
    else (put c v, None, PDone false 0%N).

(* chanTryRecv(p, v, eltSize, accept) first phase; who = code of the receive buffer *)
Definition probe_recv (c : chan) (accept : bool) (who : nat) : chan * pstat * bool (* tryOK of a failure *) :=
  if cap c =? 0 then
    if (sends c =? 0) || (getp c =? chanHasRecv) || closed c then (c, PFail, closed c)
    else if negb accept && (sends c =? selsends c) then (c, PFail, false)
    else (arm c who, PArmed, false)
  else
    if len c =? 0 then (c, PFail, closed c)
    else (take c, PDone true (front c), true).

Definition xtrysend_sec (c : chan) (th : xthread) (rest : list xop) (v : N) : xeff :=
  let '(c', d, st) := probe_send c v in
  match st with
  | PClosedSend => mkXE c (xfin th rest (XR RPanic)) None false (Some ESendClosed)
  | PFail => mkXE c (xfin th rest (XR (RTrySend false))) None false (Some ETrySendFail)
  | _ => mkXE c' (xgoto th (XBcast (Some (RTrySend true)))) d true (Some (ESend v))
  end.

Definition xtryrecv_sec (c : chan) (th : xthread) (rest : list xop) (t : nat) : xeff :=
  let '(c', st, tok) := probe_recv c true (code t 0) in
  match st with
  | PArmed => mkXE c' (xgoto th (XBcast None)) None true None
  | PDone _ v => mkXE c' (xgoto (xset_slot th 0 v) (XBcast (Some (RTryRecv true true v)))) None true (Some (ERecv v))
  | _ => mkXE c (xfin th rest (XR (RTryRecv false tok (slot_of th 0)))) None false
              (Some (if tok then ERecvClosed else ETryRecvEmpty))
  end.

Definition xis_try (o : op) : bool := match o with OTryRecv => true | _ => false end.

Definition xplain_section (c : chan) (th : xthread) (t k : nat) (o : op) (rest : list xop) : xeff :=
  match xtpc th with
  | XStart =>
      match o with
      | OSend v => xsend_sec c th rest k v
      | OTrySend v => xtrysend_sec c th rest v
      | ORecv => xrecv_sec c th rest k t
      | OTryRecv => xtryrecv_sec c th rest t
      | OClose =>
          if closed c then mkXE c (xfin th rest (XR RPanic)) None false (Some ECloseClosed)
          else mkXE (set_closed c) (xgoto th (XBcast (Some RClose))) None true (Some EClose)
      end
  | XSendW =>
      match o with
      | OSend v => xsend_sec (if cap c =? 0 then set_sends c (pred (sends c)) else c) th rest k v
      | _ => xnoop c th
      end
  | XRecvW => match o with ORecv => xrecv_sec c th rest k t | _ => xnoop c th end
  | XRecv2 | XRecv2W =>
      match o with
      | ORecv | OTryRecv => xrecv2_sec c th rest k (xis_try o)
      | _ => xnoop c th
      end
  | _ => xnoop c th
  end.

(* ---------- select ---------- *)
Definition case_chan (cs : scase) : nat := match cs with CSend k _ | CRecv k => k end.
Definition case_send (cs : scase) : bool := match cs with CSend _ _ => true | CRecv _ => false end.

Fixpoint idx_where {A} (f : A -> bool) (i : nat) (l : list A) : list nat :=
  match l with [] => [] | x :: l' => (if f x then [i] else []) ++ idx_where f (S i) l' end.

Definition min_chan (f : scase -> bool) (cs : list scase) : option nat :=
  fold_right (fun c acc => if f c then match acc with Some m => Some (Nat.min m (case_chan c)) | None => Some (case_chan c) end else acc)
             None cs.

(* selectSendFirst: the smallest send-channel address is below the smallest receive-channel address *)
Definition send_first (cs : list scase) : bool :=
  match min_chan case_send cs, min_chan (fun c => negb (case_send c)) cs with
  | None, _ => false
  | Some _, None => true
  | Some a, Some b => a <? b
  end.

Definition is_send_chan (cs : list scase) (k : nat) : bool :=
  existsb (fun c => case_send c && (case_chan c =? k)) cs.

(* the probes of one trySelect in order: (case index, acceptSelectSend for a receive) *)
Definition probe_order (cs : list scase) : list (nat * bool) :=
  let snd_ := idx_where case_send 0 cs in
  let rcv := idx_where (fun c => negb (case_send c)) 0 cs in
  if send_first cs then map (fun i => (i, false)) snd_ ++ map (fun i => (i, false)) rcv
  else map (fun i => (i, negb (is_send_chan cs (case_chan (nth i cs (CRecv 0)))))) rcv ++ map (fun i => (i, true)) snd_.

Fixpoint remove1 (t : nat) (l : list nat) : list nat :=
  match l with [] => [] | x :: l' => if x =? t then l' else x :: remove1 t l' end.

(* what a step does besides changing its own thread and one channel *)
Record xstep := mkStep {
  st_k : nat;                       (* the channel it works on (ignored when st_ch = None) *)
  st_ch : option xchan;             (* its new value *)
  st_th : xthread;
  st_deliver : option (nat * N);
  st_notify : bool;                 (* notifyOps on that channel (old sops + what st_ch registers) *)
  st_bcast : option nat;            (* Broadcast on this channel's condition variable *)
  st_ev : option event }.

Definition of_eff (k : nat) (sops : list nat) (e : xeff) : xstep :=
  mkStep k (Some (mkX (f_ch e) sops)) (f_th e) (f_deliver e) (f_notify e) None (f_ev e).

Definition pure_step (th : xthread) : xstep := mkStep 0 None th None false None None.

(* after the last probe failed / a probe committed *)
Definition sel_result (i : nat) (r : bool * N) : xres := XSel i (fst r) (snd r).

Definition select_step (chs : list xchan) (th : xthread) (t : nat) (cs : list scase) (rest : list xop) : xstep :=
  let order := probe_order cs in
  let chan_of i := case_chan (nth i cs (CRecv 0)) in
  let X k := nth k chs (mkX (init_chan 0) []) in
  match xtpc th with
  | XStart | SPrep _ =>
      let i := match xtpc th with SPrep i => i | _ => 0 end in
      let cse := nth i cs (CRecv 0) in
      let k := case_chan cse in
      let c := xc (X k) in
      let reg := (cap c =? 0) && case_send cse in
      let c' := if reg then set_selsends (set_sends c (S (sends c))) (S (selsends c)) else c in
      let th' := xgoto th (if S i <? length cs then SPrep (S i) else STry 0) in
      mkStep k (Some (mkX c' (xsops (X k) ++ [t]))) th' None reg None None
  | STry j =>
      match nth_error order j with
      | None => pure_step (xgoto th SWait)       (* unreachable: the last failing probe goes to SWait itself *)
      | Some (i, accept) =>
          let k := chan_of i in
          let c := xc (X k) in
          let next := if S j <? length order then STry (S j) else SWait in
          match nth i cs (CRecv 0) with
          | CSend _ v =>
              let '(c', d, st) := probe_send c v in
              match st with
              | PClosedSend => mkStep k None (xgoto th (SEnd 0 XPanic)) None false None None
              | PFail => mkStep k None (xgoto th next) None false None None
              | _ => mkStep k (Some (mkX c' (xsops (X k)))) (xgoto th (STryB j (Some (false, 0%N)))) d true None (Some (ESend v))
              end
          | CRecv _ =>
              let '(c', st, tok) := probe_recv c accept (code t i) in
              match st with
              | PArmed => mkStep k (Some (mkX c' (xsops (X k)))) (xgoto th (STryB j None)) None true None None
              | PDone _ v => mkStep k (Some (mkX c' (xsops (X k)))) (xgoto (xset_slot th i v) (STryB j (Some (true, v)))) None true None (Some (ERecv v))
              | _ => if tok then mkStep k None (xgoto th (SEnd 0 (XSel i false (slot_of th i)))) None false None (Some ERecvClosed)
                     else mkStep k None (xgoto th next) None false None None
              end
          end
      end
  | STryB j r =>
      let i := fst (nth j order (0, false)) in
      mkStep (chan_of i) None (xgoto th (match r with Some r' => SEnd 0 (sel_result i r') | None => STry2 j end))
             None false (Some (chan_of i)) None
  | STry2 j | STry2W j =>
      let i := fst (nth j order (0, false)) in
      let k := chan_of i in
      let c := xc (X k) in
      let next := if S j <? length order then STry (S j) else SWait in
      if (getp c =? chanHasRecv) && negb (closed c) then mkStep k None (xparkat th (STry2W j) (OnChan k)) None false None None
      else if closed c then mkStep k None (xgoto th next) None false None None     (* recvOK = tryOK = !close: not taken *)
      else mkStep k None (xgoto th (SEnd 0 (XSel i true (slot_of th i)))) None false None (Some (ERecv (slot_of th i)))
  | SWait =>
      if xsem th then pure_step (xgoto (xset_sem th false) (STry 0))
      else pure_step (xparkat th SWaitW OnSel)
  | SWaitW => pure_step (xgoto (xset_sem th false) (STry 0))
  | SEnd i r =>
      let cse := nth i cs (CRecv 0) in
      let k := case_chan cse in
      let c := xc (X k) in
      let reg := (cap c =? 0) && case_send cse in
      let c' := if reg then set_selsends (set_sends c (pred (sends c))) (pred (selsends c)) else c in
      let th' := if S i <? length cs then xgoto th (SEnd (S i) r) else xfin th rest r in
      mkStep k (Some (mkX c' (remove1 t (xsops (X k))))) th' None false None None
  | _ => pure_step th
  end.

Definition tryselect_step (chs : list xchan) (th : xthread) (t : nat) (cs : list scase) (rest : list xop) : xstep :=
  let X k := nth k chs (mkX (init_chan 0) []) in
  let next i := if S i <? length cs then xgoto th (TTry (S i)) else xfin th rest XDefault in
  match xtpc th with
  | XStart | TTry _ =>
      let i := match xtpc th with TTry i => i | _ => 0 end in
      let cse := nth i cs (CRecv 0) in
      let k := case_chan cse in
      let c := xc (X k) in
      match cse with
      | CSend _ v =>
          let '(c', d, st) := probe_send c v in
          match st with
          | PClosedSend => mkStep k None (xfin th rest XPanic) None false None (Some ESendClosed)
          | PFail => mkStep k None (next i) None false None None
          | _ => mkStep k (Some (mkX c' (xsops (X k)))) (xgoto th (TTryB i (Some (false, 0%N)))) d true None (Some (ESend v))
          end
      | CRecv _ =>
          let '(c', st, tok) := probe_recv c true (code t i) in
          match st with
          | PArmed => mkStep k (Some (mkX c' (xsops (X k)))) (xgoto th (TTryB i None)) None true None None
          | PDone _ v => mkStep k (Some (mkX c' (xsops (X k)))) (xgoto (xset_slot th i v) (TTryB i (Some (true, v)))) None true None (Some (ERecv v))
          | _ => if tok then mkStep k None (xfin th rest (XSel i false (slot_of th i))) None false None (Some ERecvClosed)
                 else mkStep k None (next i) None false None None
          end
      end
  | TTryB i r =>
      let k := case_chan (nth i cs (CRecv 0)) in
      mkStep k None (match r with Some r' => xfin th rest (sel_result i r') | None => xgoto th (TTry2 i) end)
             None false (Some k) None
  | TTry2 i | TTry2W i =>
      let k := case_chan (nth i cs (CRecv 0)) in
      let c := xc (X k) in
      if (getp c =? chanHasRecv) && negb (closed c) then mkStep k None (xparkat th (TTry2W i) (OnChan k)) None false None None
      else if closed c then mkStep k None (next i) None false None None
      else mkStep k None (xfin th rest (XSel i true (slot_of th i))) None false None (Some (ERecv (slot_of th i)))
  | _ => pure_step th
  end.

Definition plain_step (chs : list xchan) (th : xthread) (t k : nat) (o : op) (rest : list xop) : xstep :=
  let X := nth k chs (mkX (init_chan 0) []) in
  match xtpc th with
  | XBcast r =>
      mkStep k None (match r with Some r' => xfin th rest (XR r') | None => xgoto th XRecv2 end) None false (Some k) None
  | _ => of_eff k (xsops X) (xplain_section (xc X) th t k o rest)
  end.

(* ---------- applying a step ---------- *)
Definition xdeliver (l : list xthread) (d : option (nat * N)) : list xthread :=
  match d with
  | Some (w, v) =>
      let t := Nat.div w 8 in
      match nth_error l t with Some th => upd l t (xset_slot th (Nat.modulo w 8) v) | None => l end
  | None => l
  end.

(* sop.notify(): sem = true; Signal its private condition variable *)
Definition notify1 (th : xthread) : xthread :=
  mkXT (xprog th) (xtpc th) (match xpark th with Some OnSel => None | p => p end)
       (xslots th) true (xout th).

Fixpoint notify_all (sops : list nat) (l : list xthread) : list xthread :=
  match sops with
  | [] => l
  | t :: r => notify_all r (match nth_error l t with Some th => upd l t (notify1 th) | None => l end)
  end.

Definition wake_chan (k : nat) (th : xthread) : xthread :=
  match xpark th with
  | Some (OnChan k') => if k' =? k then xunpark th else th
  | _ => th
  end.

Definition apply_step (s : xstate) (t : nat) (x : xstep) : xstate :=
  let chs' := match st_ch x with Some c => upd (xchs s) (st_k x) c | None => xchs s end in
  let l1 := upd (xdeliver (xths s) (st_deliver x)) t (st_th x) in
  let l2 := if st_notify x then notify_all (xsops (nth (st_k x) chs' (mkX (init_chan 0) []))) l1 else l1 in
  let l3 := match st_bcast x with Some k => map (wake_chan k) l2 | None => l2 end in
  mkXS chs' l3 (match st_ev x with Some e => xlog s ++ [(t, st_k x, e)] | None => xlog s end).

Definition xstep_of (s : xstate) (t : nat) (th : xthread) (o : xop) (rest : list xop) : xstep :=
  match o with
  | XPlain k po => plain_step (xchs s) th t k po rest
  | XSelect cs => select_step (xchs s) th t cs rest
  | XTrySelect cs => tryselect_step (xchs s) th t cs rest
  end.

Definition x_step (s : xstate) (t : nat) : option xstate :=
  match nth_error (xths s) t with
  | None => None
  | Some th =>
      match xprog th with
      | [] => None
      | o :: rest =>
          match xpark th with
          | Some _ => Some (mkXS (xchs s) (upd (xths s) t (xunpark th)) (xlog s))     (* spurious wake-up *)
          | None => Some (apply_step s t (xstep_of s t th o rest))
          end
      end
  end.

Fixpoint x_run (sc : schedule) (s : xstate) : xstate :=
  match sc with
  | [] => s
  | t :: sc' => match x_step s t with Some s' => x_run sc' s' | None => x_run sc' s end
  end.

Definition x_init (caps : list nat) (progs : list (list xop)) : xstate :=
  mkXS (map (fun n => mkX (init_chan n) []) caps)
       (map (fun p => mkXT p XStart None (fresh_slots p) false []) progs) [].

(* ---------- observables ---------- *)
Definition x_enabled (th : xthread) : bool :=
  match xprog th with [] => false | _ => match xpark th with None => true | _ => false end end.
Definition x_parked (th : xthread) : bool :=
  match xprog th with [] => false | _ => match xpark th with None => false | _ => true end end.

Fixpoint xmask (f : xthread -> bool) (l : list xthread) : N :=
  match l with [] => 0%N | th :: l' => ((if f th then 1 else 0) + 2 * xmask f l')%N end.

Definition x_obs1 (s : xstate) : N * N := (xmask x_enabled (xths s), xmask x_parked (xths s)).

Fixpoint x_trace (sc : schedule) (s : xstate) : list (N * N) * xstate :=
  match sc with
  | [] => ([x_obs1 s], s)
  | t :: sc' =>
      match x_step s t with
      | Some s' => let (l, sf) := x_trace sc' s' in (x_obs1 s :: l, sf)
      | None => ([x_obs1 s], s)
      end
  end.

Definition xchan_obs (x : xchan) : nat * nat * nat * nat * bool * nat :=
  (getp (xc x), len (xc x), sends (xc x), selsends (xc x), closed (xc x), length (xsops x)).

Definition x_pending (th : xthread) : list N := match xprog th with [] => [] | _ => xslots th end.

Definition xobservation : Type :=
  list (N * N) * list (list xres) * list (list N) * list (nat * nat * nat * nat * bool * nat).

Definition x_observe (x : list nat * list (list xop) * schedule) : xobservation :=
  let '(caps, progs, sc) := x in
  let (tr, sf) := x_trace sc (x_init caps progs) in
  (tr, map xout (xths sf), map x_pending (xths sf), map xchan_obs (xchs sf)).

Definition xres_eqb (a b : xres) : bool :=
  match a, b with
  | XR x, XR y => res_eqb x y
  | XSel i x v, XSel j y w => Nat.eqb i j && Bool.eqb x y && N.eqb v w
  | XDefault, XDefault => true
  | XPanic, XPanic => true
  | _, _ => false
  end.

Definition xchan_obs_eqb (a b : nat * nat * nat * nat * bool * nat) : bool :=
  let '(g1, l1, s1, ss1, c1, n1) := a in
  let '(g2, l2, s2, ss2, c2, n2) := b in
  Nat.eqb g1 g2 && Nat.eqb l1 l2 && Nat.eqb s1 s2 && Nat.eqb ss1 ss2 && Bool.eqb c1 c2 && Nat.eqb n1 n2.

Definition xobs_eqb (a b : xobservation) : bool :=
  let '(t1, r1, p1, f1) := a in
  let '(t2, r2, p2, f2) := b in
  list_eqb (prod_eqb N.eqb N.eqb) t1 t2 && list_eqb (list_eqb xres_eqb) r1 r2
  && list_eqb (list_eqb N.eqb) p1 p2 && list_eqb xchan_obs_eqb f1 f2.
