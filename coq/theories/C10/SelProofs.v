(* C10 - proofs about the select model (C10/SelModel.v): control-state frame lemmas, every call commits at
   most once (all schedules), and the witnesses of the recorded select defects. *)
From LLGoV Require Import Lib.Common C10.Model C10.Proofs C10.SelModel.

(* ---------- control state (results, program counter) is changed only by the stepping thread ---------- *)
Definition ctl_eq (a b : xthread) : Prop := xout b = xout a /\ xtpc b = xtpc a /\ xprog b = xprog a.

Lemma ctl_refl a : ctl_eq a a. Proof. repeat split. Qed.
Lemma ctl_trans a b c : ctl_eq a b -> ctl_eq b c -> ctl_eq a c.
Proof. intros (A1 & A2 & A3) (B1 & B2 & B3). repeat split; congruence. Qed.

Definition ctl_pres (f : list xthread -> list xthread) : Prop :=
  forall l i b, nth_error (f l) i = Some b -> exists a, nth_error l i = Some a /\ ctl_eq a b.

Lemma upd_ctl_pres i0 (g : xthread -> xthread) l :
  (forall a, ctl_eq a (g a)) ->
  forall i b, nth_error (match nth_error l i0 with Some th => upd l i0 (g th) | None => l end) i = Some b ->
  exists a, nth_error l i = Some a /\ ctl_eq a b.
Proof.
  intros Hg i b. destruct (nth_error l i0) as [th|] eqn:E.
  - destruct (Nat.eq_dec i0 i) as [->|N].
    + rewrite nth_error_upd_same by (eapply nth_error_lt; eauto). intros [= <-]. eauto.
    + rewrite nth_error_upd_other by auto. intros H. exists b. split; auto. apply ctl_refl.
  - intros H. exists b. split; auto. apply ctl_refl.
Qed.

Lemma xdeliver_pres d : ctl_pres (fun l => xdeliver l d).
Proof.
  intros l i b. unfold xdeliver. destruct d as [[w v]|].
  - apply upd_ctl_pres. intros a. repeat split.
  - intros H. exists b. split; auto. apply ctl_refl.
Qed.

Lemma notify_all_pres sops : ctl_pres (notify_all sops).
Proof.
  induction sops as [|t r IH]; intros l i b; cbn.
  - intros H. exists b. split; auto. apply ctl_refl.
  - intros H. apply IH in H as (a & H & R).
    apply (upd_ctl_pres t notify1) in H as (a0 & H0 & R0).
    + exists a0. split; auto. eapply ctl_trans; eauto.
    + intros x. repeat split.
Qed.

Lemma wake_pres k : ctl_pres (map (wake_chan k)).
Proof.
  intros l i b. rewrite nth_error_map. destruct (nth_error l i) as [a|]; cbn; [|discriminate].
  intros [= <-]. exists a. split; auto. unfold wake_chan.
  destruct (xpark a) as [[k'|]|]; try apply ctl_refl. destruct (k' =? k); repeat split.
Qed.

Lemma xdeliver_length l d : length (xdeliver l d) = length l.
Proof. unfold xdeliver. destruct d as [[w v]|]; auto. destruct (nth_error l (Nat.div w 8)); auto. apply upd_length. Qed.

(* threads after a step: the stepping one is the step's new thread, the others keep their control state *)
Lemma apply_step_threads s t x th i b :
  nth_error (xths s) t = Some th ->
  nth_error (xths (apply_step s t x)) i = Some b ->
  (i = t /\ ctl_eq (st_th x) b) \/ (i <> t /\ exists a, nth_error (xths s) i = Some a /\ ctl_eq a b).
Proof.
  intros Et H. unfold apply_step in H. cbn [xths] in H.
  set (l1 := upd (xdeliver (xths s) (st_deliver x)) t (st_th x)) in *.
  assert (H1 : exists a, nth_error l1 i = Some a /\ ctl_eq a b).
  { destruct (st_bcast x) as [k|].
    - apply wake_pres in H as (a & H & R).
      destruct (st_notify x).
      + apply notify_all_pres in H as (a0 & H0 & R0). exists a0. split; auto. eapply ctl_trans; eauto.
      + eauto.
    - destruct (st_notify x).
      + apply notify_all_pres in H as (a0 & H0 & R0). eauto.
      + exists b. split; auto. apply ctl_refl. }
  destruct H1 as (a & H1 & R). unfold l1 in H1.
  destruct (Nat.eq_dec i t) as [->|N].
  - left. split; auto. rewrite nth_error_upd_same in H1. { injection H1 as <-. exact R. }
    rewrite xdeliver_length. eapply nth_error_lt; eauto.
  - right. split; auto. rewrite nth_error_upd_other in H1 by auto.
    apply xdeliver_pres in H1 as (a0 & H0 & R0). exists a0. split; auto. eapply ctl_trans; eauto.
Qed.

(* ---------- every call commits at most once ---------- *)
Definition is_commit (e : event) : bool := match e with ESend _ | ERecv _ => true | _ => false end.

Definition commits (t : nat) (l : list (nat * nat * event)) : nat :=
  length (filter (fun x => Nat.eqb (fst (fst x)) t && is_commit (snd x)) l).

(* the call has committed and is on its way out (Broadcast, endSelect) *)
Definition inflight (p : xpc) : nat :=
  match p with
  | XBcast (Some _) | STryB _ (Some _) | SEnd _ _ | TTryB _ (Some _) => 1
  | _ => 0
  end.

Definition ev_commit (e : option event) : nat :=
  match e with Some x => if is_commit x then 1 else 0 | None => 0 end.

Ltac crush :=
  repeat first
    [ match goal with H : xtpc ?t = _ |- context [xtpc ?t] => rewrite H end
    | match goal with |- context [match ?x with _ => _ end] => destruct x eqn:? end
    | progress cbn [st_th st_ev f_th f_ev of_eff xnoop pure_step xfin xgoto xparkat xset_slot xset_sem xtpc xout ev_commit is_commit inflight] ];
  cbn; rewrite ?app_length; cbn; try lia.

Lemma step_commit s t th o rest :
  ev_commit (st_ev (xstep_of s t th o rest)) + length (xout th) + inflight (xtpc th)
  <= length (xout (st_th (xstep_of s t th o rest))) + inflight (xtpc (st_th (xstep_of s t th o rest))).
Proof.
  unfold xstep_of. destruct o as [k po|cs|cs].
  - unfold plain_step, of_eff, xplain_section, xsend_sec, xrecv_sec, xrecv2_sec, xtrysend_sec, xtryrecv_sec,
      probe_send, probe_recv, xnoop. crush.
  - unfold select_step, pure_step, probe_send, probe_recv, sel_result. crush.
  - unfold tryselect_step, pure_step, probe_send, probe_recv, sel_result. crush.
Qed.

Definition cinv (s : xstate) : Prop :=
  forall t th, nth_error (xths s) t = Some th ->
    commits t (xlog s) <= length (xout th) + inflight (xtpc th).

Lemma commits_snoc_other i t k e l : i <> t -> commits i (l ++ [(t, k, e)]) = commits i l.
Proof.
  intros N. unfold commits. rewrite filter_app, app_length. cbn.
  destruct (Nat.eqb_spec t i); [congruence|]. cbn. lia.
Qed.

Lemma commits_snoc_self t k e l : commits t (l ++ [(t, k, e)]) = commits t l + ev_commit (Some e).
Proof.
  unfold commits. rewrite filter_app, app_length. cbn. rewrite Nat.eqb_refl. cbn.
  destruct (is_commit e); cbn; lia.
Qed.

Lemma cinv_step s t s' : cinv s -> x_step s t = Some s' -> cinv s'.
Proof.
  intros HI H. unfold x_step in H.
  destruct (nth_error (xths s) t) as [th|] eqn:Et; [|discriminate].
  destruct (xprog th) as [|o rest] eqn:Ep; [discriminate|].
  destruct (xpark th) as [w|] eqn:Epk; injection H as <-.
  - (* spurious wake-up *)
    intros i b Hi. cbn [xths xlog] in *.
    destruct (Nat.eq_dec t i) as [->|N].
    + rewrite nth_error_upd_same in Hi by (eapply nth_error_lt; eauto). injection Hi as <-.
      exact (HI _ _ Et).
    + rewrite nth_error_upd_other in Hi by auto. auto.
  - set (x := xstep_of s t th o rest).
    intros i b Hi.
    assert (Hlog : xlog (apply_step s t x) = match st_ev x with Some e => xlog s ++ [(t, st_k x, e)] | None => xlog s end)
      by reflexivity.
    destruct (apply_step_threads s t x th i b Et Hi) as [(-> & R)|(N & a & Ha & R)].
    + destruct R as (R1 & R2 & _). rewrite R1, R2, Hlog.
      pose proof (step_commit s t th o rest) as SC. fold x in SC.
      pose proof (HI _ _ Et) as H0.
      destruct (st_ev x) as [e|].
      * rewrite commits_snoc_self. cbn [ev_commit] in *. lia.
      * cbn [ev_commit] in SC. lia.
    + destruct R as (R1 & R2 & _). rewrite R1, R2, Hlog.
      pose proof (HI _ _ Ha) as H0.
      destruct (st_ev x); [rewrite commits_snoc_other by auto|]; exact H0.
Qed.

Lemma cinv_run sc : forall s, cinv s -> cinv (x_run sc s).
Proof.
  induction sc as [|t sc IH]; intros s H; cbn; auto.
  destruct (x_step s t) eqn:E; auto. apply IH. eapply cinv_step; eauto.
Qed.

Lemma cinv_init caps progs : cinv (x_init caps progs).
Proof. intros t th H. cbn. lia. Qed.

Lemma calls_commit_at_most_once caps progs sc t th :
  nth_error (xths (x_run sc (x_init caps progs))) t = Some th ->
  commits t (xlog (x_run sc (x_init caps progs))) <= length (xout th) + inflight (xtpc th).
Proof. apply (cinv_run sc _ (cinv_init caps progs)). Qed.

(* ---------- witnesses of the select defects (replayed on the real code by props/C10/check.py) ---------- *)
Definition xw_default_not_atomic : list nat * list (list xop) * schedule :=
  ([1]%nat, [[XTrySelect [CRecv 0; CSend 0 12]]; [XPlain 0 (OSend 13)]], [0;1;1;0]%nat).
Definition xw_mirrored_selects : list nat * list (list xop) * schedule :=
  ([0]%nat, [[XSelect [CRecv 0; CSend 0 11]]; [XSelect [CSend 0 12; CRecv 0]]],
   [0;0;0;0;0;0;0;0;1;0;0;0;0;1;1;1;1;1;1;1]%nat).
Definition xw_tryselect_blocks : list nat * list (list xop) * schedule :=
  ([0;0]%nat, [[XSelect [CSend 1 11; CSend 0 12]; XPlain 1 (OSend 13)]; [XTrySelect [CRecv 0; CSend 0 14]]; [XPlain 0 ORecv]],
   [0;2;2;0;0;0;2;0;1;1;0;0;0;1]%nat).
Definition xw_select_stuck_pair : list nat * list (list xop) * schedule :=
  ([0;0]%nat, [[XSelect [CRecv 0; CRecv 1]]; [XPlain 1 ORecv]; [XSelect [CSend 1 11; CRecv 0]; XPlain 0 (OSend 12)]],
   [0;1;2;2;1;0;2;0;0;2;1;0;0;2;0;2;0;2;0;2]%nat).

Definition xfinal (w : list nat * list (list xop) * schedule) : xstate :=
  let '(caps, progs, sc) := w in x_run sc (x_init caps progs).
Definition xquiescent (s : xstate) : Prop := forall th, In th (xths s) -> x_enabled th = false.

(* the channel has capacity 1: at every instant it is not full (send case ready) or not
   empty (receive case ready); the select with default still reports "no case ready" *)
Lemma w_default :
  let s := xfinal xw_default_not_atomic in
  map xout (xths s) = [[XDefault]; [XR (RSend true)]] /\ map xchan_obs (xchs s) = [(0, 1, 0, 0, false, 0)]%nat.
Proof. vm_compute. auto. Qed.

Lemma w_mirrored :
  let s := xfinal xw_mirrored_selects in
  xquiescent s /\ map xtpc (xths s) = [SWaitW; SWaitW] /\ map xout (xths s) = [[]; []].
Proof. vm_compute. repeat split. intros th [<-|[<-|[]]]; reflexivity. Qed.

Lemma w_tryselect_blocks :
  let s := xfinal xw_tryselect_blocks in
  xquiescent s /\
  exists th, nth_error (xths s) 1 = Some th /\ xprog th = [XTrySelect [CRecv 0; CSend 0 14]] /\
             xtpc th = TTry2W 0 /\ xpark th = Some (OnChan 0) /\ xslots th = [0%N; 0%N].
Proof. vm_compute. repeat split. - intros th [<-|[<-|[<-|[]]]]; reflexivity. - eexists; repeat split. Qed.

Lemma w_stuck_pair :
  let s := xfinal xw_select_stuck_pair in
  xquiescent s /\
  (exists th, nth_error (xths s) 0 = Some th /\ xprog th = [XSelect [CRecv 0; CRecv 1]] /\ xtpc th = STry2W 1) /\
  (exists th, nth_error (xths s) 2 = Some th /\ xprog th = [XPlain 0 (OSend 12)] /\ xtpc th = XSendW).
Proof. vm_compute. repeat split. - intros th [<-|[<-|[<-|[]]]]; reflexivity. - eexists; repeat split. - eexists; repeat split. Qed.

(* the same facts in the form Props.v states them (closed by vm_compute here, so that Props.v needs no conversion) *)
Lemma w_default_ex :
  exists caps progs sc, let s := x_run sc (x_init caps progs) in
    progs = [[XTrySelect [CRecv 0; CSend 0 12%N]]; [XPlain 0 (OSend 13%N)]] /\ caps = [1]%nat /\
    map xout (xths s) = [[XDefault]; [XR (RSend true)]] /\
    map xchan_obs (xchs s) = [(0, 1, 0, 0, false, 0)]%nat.
Proof.
  exists [1]%nat, [[XTrySelect [CRecv 0; CSend 0 12%N]]; [XPlain 0 (OSend 13%N)]], [0;1;1;0]%nat.
  vm_compute. repeat split.
Qed.

Lemma w_mirrored_ex :
  exists caps progs sc, let s := x_run sc (x_init caps progs) in
    progs = [[XSelect [CRecv 0; CSend 0 11%N]]; [XSelect [CSend 0 12%N; CRecv 0]]] /\
    (forall th, In th (xths s) -> x_enabled th = false) /\
    map xtpc (xths s) = [SWaitW; SWaitW] /\ map xout (xths s) = [[]; []].
Proof.
  exists [0]%nat, [[XSelect [CRecv 0; CSend 0 11%N]]; [XSelect [CSend 0 12%N; CRecv 0]]],
    [0;0;0;0;0;0;0;0;1;0;0;0;0;1;1;1;1;1;1;1]%nat.
  vm_compute. repeat split. intros th [<-|[<-|[]]]; reflexivity.
Qed.

Lemma w_stuck_pair_ex :
  exists caps progs sc, let s := x_run sc (x_init caps progs) in
    (forall th, In th (xths s) -> x_enabled th = false) /\
    (exists th, nth_error (xths s) 0 = Some th /\ xprog th = [XSelect [CRecv 0; CRecv 1]] /\ xtpc th = STry2W 1) /\
    (exists th, nth_error (xths s) 2 = Some th /\ xprog th = [XPlain 0 (OSend 12%N)] /\ xtpc th = XSendW).
Proof.
  exists [0;0]%nat, [[XSelect [CRecv 0; CRecv 1]]; [XPlain 1 ORecv]; [XSelect [CSend 1 11%N; CRecv 0]; XPlain 0 (OSend 12%N)]],
    [0;1;2;2;1;0;2;0;0;2;1;0;0;2;0;2;0;2;0;2]%nat.
  vm_compute. repeat split. - intros th [<-|[<-|[<-|[]]]]; reflexivity. - eexists; repeat split. - eexists; repeat split.
Qed.

Lemma w_tryselect_blocks_ex :
  exists caps progs sc, let s := x_run sc (x_init caps progs) in
    (forall th, In th (xths s) -> x_enabled th = false) /\
    exists th, nth_error (xths s) 1 = Some th /\ xprog th = [XTrySelect [CRecv 0; CSend 0 14%N]] /\
               xtpc th = TTry2W 0 /\ xpark th = Some (OnChan 0) /\ xslots th = [0%N; 0%N].
Proof.
  exists [0;0]%nat, [[XSelect [CSend 1 11%N; CSend 0 12%N]; XPlain 1 (OSend 13%N)]; [XTrySelect [CRecv 0; CSend 0 14%N]]; [XPlain 0 ORecv]],
    [0;2;2;0;0;0;2;0;1;1;0;0;0;1]%nat.
  vm_compute. repeat split. - intros th [<-|[<-|[<-|[]]]]; reflexivity. - eexists; repeat split.
Qed.


(* two selects, one sends on channel 1, the other receives on it but also has a send case on
   channel 0 (lower address): the receiver probes its sends first and then refuses
   select-senders; both sleep for ever *)
Definition xw_sendfirst_refuses : list nat * list (list xop) * schedule :=
  ([0;0]%nat, [[XSelect [CRecv 1; CSend 0 12]]; [XSelect [CSend 1 15; CSend 1 16]]],
   [0;0;0;0;0;0;0;0;1;0;0;0;0;1;0;0;0;0;1;1;1;1;1;1]%nat).

Lemma w_sendfirst_ex :
  exists caps progs sc, let s := x_run sc (x_init caps progs) in
    progs = [[XSelect [CRecv 1; CSend 0 12%N]]; [XSelect [CSend 1 15%N; CSend 1 16%N]]] /\ caps = [0;0]%nat /\
    (forall th, In th (xths s) -> x_enabled th = false) /\
    map xtpc (xths s) = [SWaitW; SWaitW] /\ map xout (xths s) = [[]; []].
Proof.
  exists [0;0]%nat, [[XSelect [CRecv 1; CSend 0 12%N]]; [XSelect [CSend 1 15%N; CSend 1 16%N]]],
    [0;0;0;0;0;0;0;0;1;0;0;0;0;1;0;0;0;0;1;1;1;1;1;1]%nat.
  vm_compute. repeat split. intros th [<-|[<-|[]]]; reflexivity.
Qed.
