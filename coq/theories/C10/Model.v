(* C10 - executable model of runtime/internal/runtime/z_chan.go (ChanSend, ChanRecv,
   ChanTrySend, ChanTryRecv, ChanClose on ONE channel, no select registered) as an
   interleaving semantics.  No proofs here.

   Granularity.  Every access to the channel fields happens between mutex.Lock (or
   the return of cond.Wait) and mutex.Unlock (or the call of cond.Wait); such a
   critical section is one atomic step.  cond.Broadcast is called after Unlock and is
   a step of its own.  cond.Wait releases the mutex and parks the thread in the same
   step as the section that called it (pthread_cond_wait).  A parked thread becomes
   runnable by a Broadcast, or by a spurious wake-up: [step] applied to a parked
   thread.  Because every step starts with the mutex free and ends with it free, the
   mutex itself carries no state.  With no select in flight p.sops is empty, so
   notifyOps is a no-op and is omitted; selsends stays 0.
   Send on / close of a closed channel panics after releasing the mutex (result RPanic):
   the model describes z_chan.go with props/C10/fixes/apply/01-chan-panic-on-closed.diff.

   Indices and counters are [nat] (they are bounded by the capacity and the number of
   threads); values are [N].  sends is a uint16 in the source: the model assumes fewer
   than 2^16 threads. *)
From LLGoV Require Import Lib.Common.

Inductive op := OSend (v : N) | ORecv | OTrySend (v : N) | OTryRecv | OClose.

Inductive res :=
| RSend (ok : bool)                      (* ChanSend's result *)
| RRecv (ok : bool) (v : N)              (* ChanRecv's recvOK, and the receive buffer *)
| RTrySend (ok : bool)
| RTryRecv (rok tok : bool) (v : N)
| RClose
| RPanic.                                (* the call panicked (send on / close of a closed channel) *)

(* the fields of type Chan; data is split into the ring buffer (cap > 0) and the
   pointer to a receiver's buffer (cap = 0; a thread id, the buffer is that thread's
   [slot]) *)
Record chan := mkChan {
  buf : list N; dptr : option nat; getp : nat; len : nat; cap : nat;
  sends : nat; selsends : nat; closed : bool }.

Definition chanHasRecv := 1%nat.

Inductive pc :=
| PStart                   (* at the Lock that opens the operation *)
| PSendW                   (* in the Wait of ChanSend's loop *)
| PRecvW                   (* in the Wait of ChanRecv's first loop *)
| PBcast (r : option res)  (* after Unlock, before Broadcast; r = what the operation
                              returns after it, None = go on with the second phase *)
| PRecv2                   (* unbuffered receive, at the second Lock *)
| PRecv2W.                 (* in the Wait of the second loop *)

Record thread := mkTh {
  prog : list op; tpc : pc; parked : bool; slot : N; out : list res }.

(* what becomes visible at the level of Go's semantics *)
Inductive event :=
| ESend (v : N) | ERecv (v : N) | ERecvClosed | EClose
| ESendClosed            (* a send (blocking or not) found the channel closed and panicked *)
| ECloseClosed           (* close of a closed channel panicked *)
| ETrySendFail | ETryRecvEmpty.

(* the log records which thread caused each event *)
Record state := mkSt { ch : chan; ths : list thread; log : list (nat * event) }.

(* ---- small helpers ---- *)
Fixpoint upd {A} (l : list A) (i : nat) (x : A) : list A :=
  match l, i with
  | [], _ => []
  | _ :: t, O => x :: t
  | h :: t, S i' => h :: upd t i' x
  end.

Definition set_getp c g := mkChan (buf c) (dptr c) g (len c) (cap c) (sends c) (selsends c) (closed c).
Definition set_sends c n := mkChan (buf c) (dptr c) (getp c) (len c) (cap c) n (selsends c) (closed c).
Definition set_closed c := mkChan (buf c) (dptr c) (getp c) (len c) (cap c) (sends c) (selsends c) true.
Definition arm c t := mkChan (buf c) (Some t) chanHasRecv (len c) (cap c) (sends c) (selsends c) (closed c).
(* off := (getp + len) % n; data[off] = v; len++ *)
Definition put c v :=
  mkChan (upd (buf c) ((getp c + len c) mod cap c) v) (dptr c) (getp c) (S (len c)) (cap c)
         (sends c) (selsends c) (closed c).
(* v = data[getp]; getp = (getp+1) % n; len-- *)
Definition front c := nth (getp c) (buf c) 0%N.
Definition take c :=
  mkChan (buf c) (dptr c) ((getp c + 1) mod cap c) (pred (len c)) (cap c)
         (sends c) (selsends c) (closed c).

Definition fin (th : thread) (rest : list op) (r : res) : thread :=
  mkTh rest PStart false 0%N (out th ++ [r]).
Definition goto (th : thread) (p : pc) : thread := mkTh (prog th) p false (slot th) (out th).
Definition park (th : thread) (p : pc) : thread := mkTh (prog th) p true (slot th) (out th).
Definition set_slot (th : thread) (v : N) : thread := mkTh (prog th) (tpc th) (parked th) v (out th).
Definition unpark (th : thread) : thread := mkTh (prog th) (tpc th) false (slot th) (out th).

(* effect of one critical section *)
Record eff := mkEff {
  e_ch : chan; e_th : thread;
  e_deliver : option (nat * N);   (* Memcpy(p.data, v): write into another thread's buffer *)
  e_bcast : bool; e_ev : option event }.

Definition deliver_of (c : chan) (v : N) : option (nat * N) :=
  match dptr c with Some t => Some (t, v) | None => None end.

(* ChanSend from the loop head on *)
Definition send_sec (c : chan) (th : thread) (rest : list op) (v : N) : eff :=
  if cap c =? 0 then
    if negb (getp c =? chanHasRecv) && negb (closed c) then
      mkEff (set_sends c (S (sends c))) (park th PSendW) None false None
    else if closed c then mkEff c (fin th rest RPanic) None false (Some ESendClosed)
    else mkEff (set_getp c 0) (goto th (PBcast (Some (RSend true)))) (deliver_of c v) false (Some (ESend v))
  else
    (* for p.len == n && !p.close { Wait }: a parked sender notices close *)
    if (len c =? cap c) && negb (closed c) then mkEff c (park th PSendW) None false None
    else if closed c then mkEff c (fin th rest RPanic) None false (Some ESendClosed)
    else mkEff (put c v) (goto th (PBcast (Some (RSend true)))) None false (Some (ESend v)).

Definition trysend_sec (c : chan) (th : thread) (rest : list op) (v : N) : eff :=
  if closed c then mkEff c (fin th rest RPanic) None false (Some ESendClosed)
  else if cap c =? 0 then
    if negb (getp c =? chanHasRecv) then
      mkEff c (fin th rest (RTrySend false)) None false (Some ETrySendFail)
    else mkEff (set_getp c 0) (goto th (PBcast (Some (RTrySend true)))) (deliver_of c v) false (Some (ESend v))
  else
    if len c =? cap c then
      mkEff c (fin th rest (RTrySend false)) None false (Some ETrySendFail)
    else mkEff (put c v) (goto th (PBcast (Some (RTrySend true)))) None false (Some (ESend v)).

(* ChanRecv from the first loop head on; t = own thread id *)
Definition recv_sec (c : chan) (th : thread) (rest : list op) (t : nat) : eff :=
  if cap c =? 0 then
    if (getp c =? chanHasRecv) && negb (closed c) then mkEff c (park th PRecvW) None false None
    else if closed c then mkEff c (fin th rest (RRecv false (slot th))) None false (Some ERecvClosed)
    else mkEff (arm c t) (goto th (PBcast None)) None false None
  else
    if len c =? 0 then
      if closed c then mkEff c (fin th rest (RRecv false (slot th))) None false (Some ERecvClosed)
      else mkEff c (park th PRecvW) None false None
    else mkEff (take c) (goto (set_slot th (front c)) (PBcast (Some (RRecv true (front c)))))
               None false (Some (ERecv (front c))).

Definition tryrecv_sec (c : chan) (th : thread) (rest : list op) (t : nat) : eff :=
  if cap c =? 0 then
    if (sends c =? 0) || (getp c =? chanHasRecv) || closed c then
      mkEff c (fin th rest (RTryRecv false (closed c) (slot th))) None false
            (Some (if closed c then ERecvClosed else ETryRecvEmpty))
    else mkEff (arm c t) (goto th (PBcast None)) None false None
  else
    if len c =? 0 then
      mkEff c (fin th rest (RTryRecv false (closed c) (slot th))) None false
            (Some (if closed c then ERecvClosed else ETryRecvEmpty))
    else mkEff (take c) (goto (set_slot th (front c)) (PBcast (Some (RTryRecv true true (front c)))))
               None false (Some (ERecv (front c))).

(* second phase of an unbuffered receive: wait until the flag is cleared *)
Definition recv2_sec (c : chan) (th : thread) (rest : list op) (try : bool) : eff :=
  if (getp c =? chanHasRecv) && negb (closed c) then mkEff c (park th PRecv2W) None false None
  else mkEff c (fin th rest (if try then RTryRecv (negb (closed c)) (negb (closed c)) (slot th)
                             else RRecv (negb (closed c)) (slot th)))
             None false (Some (if closed c then ERecvClosed else ERecv (slot th))).

Definition noop (c : chan) (th : thread) : eff := mkEff c th None false None.

Definition is_try (o : op) : bool := match o with OTryRecv => true | _ => false end.

(* one step of a runnable thread whose current operation is o *)
Definition section (c : chan) (th : thread) (t : nat) (o : op) (rest : list op) : eff :=
  match tpc th with
  | PBcast r =>
      mkEff c (match r with Some r' => fin th rest r' | None => goto th PRecv2 end) None true None
  | PStart =>
      match o with
      | OSend v => send_sec c th rest v
      | OTrySend v => trysend_sec c th rest v
      | ORecv => recv_sec c th rest t
      | OTryRecv => tryrecv_sec c th rest t
      | OClose =>
          if closed c then mkEff c (fin th rest RPanic) None false (Some ECloseClosed)
          else mkEff (set_closed c) (goto th (PBcast (Some RClose))) None false (Some EClose)
      end
  | PSendW =>
      match o with
      | OSend v => send_sec (if cap c =? 0 then set_sends c (pred (sends c)) else c) th rest v
      | _ => noop c th
      end
  | PRecvW => match o with ORecv => recv_sec c th rest t | _ => noop c th end
  | PRecv2 | PRecv2W =>
      match o with
      | ORecv | OTryRecv => recv2_sec c th rest (is_try o)
      | _ => noop c th
      end
  end.

Definition deliver (l : list thread) (d : option (nat * N)) : list thread :=
  match d with
  | Some (t, v) => match nth_error l t with Some th => upd l t (set_slot th v) | None => l end
  | None => l
  end.

Definition apply_eff (s : state) (t : nat) (e : eff) : state :=
  let l1 := upd (deliver (ths s) (e_deliver e)) t (e_th e) in
  mkSt (e_ch e) (if e_bcast e then map unpark l1 else l1)
       (match e_ev e with Some x => log s ++ [(t, x)] | None => log s end).

(* step s t: thread t takes one step.  None: no such thread, or it has finished. *)
Definition step (s : state) (t : nat) : option state :=
  match nth_error (ths s) t with
  | None => None
  | Some th =>
      match prog th with
      | [] => None
      | o :: rest =>
          if parked th then Some (mkSt (ch s) (upd (ths s) t (unpark th)) (log s))   (* spurious wake-up *)
          else Some (apply_eff s t (section (ch s) th t o rest))
      end
  end.

Definition schedule := list nat.

Fixpoint run (sc : schedule) (s : state) : state :=
  match sc with
  | [] => s
  | t :: sc' => match step s t with Some s' => run sc' s' | None => run sc' s end
  end.

Definition init_chan (n : nat) : chan := mkChan (repeat 0%N n) None 0 0 n 0 0 false.
Definition init_thread (p : list op) : thread := mkTh p PStart false 0%N [].
Definition init (n : nat) (progs : list (list op)) : state :=
  mkSt (init_chan n) (map init_thread progs) [].

(* ---- observables compared with the real code ---- *)
Definition enabled (th : thread) : bool :=
  match prog th with [] => false | _ => negb (parked th) end.
Definition is_parked (th : thread) : bool :=
  match prog th with [] => false | _ => parked th end.

Fixpoint mask (f : thread -> bool) (l : list thread) : N :=
  match l with
  | [] => 0%N
  | th :: l' => ((if f th then 1 else 0) + 2 * mask f l')%N
  end.

Definition obs1 (s : state) : N * N := (mask enabled (ths s), mask is_parked (ths s)).

(* masks before the first step and after every step; stops at an impossible step *)
Fixpoint trace (sc : schedule) (s : state) : list (N * N) * state :=
  match sc with
  | [] => ([obs1 s], s)
  | t :: sc' =>
      match step s t with
      | Some s' => let (l, sf) := trace sc' s' in (obs1 s :: l, sf)
      | None => ([obs1 s], s)
      end
  end.

Definition chan_obs (c : chan) : nat * nat * nat * nat * bool :=
  (getp c, len c, sends c, selsends c, closed c).

Definition pending_slot (th : thread) : N := match prog th with [] => 0%N | _ => slot th end.

Definition observation : Type :=
  list (N * N) * list (list res) * list N * (nat * nat * nat * nat * bool).

Definition observe (x : nat * list (list op) * schedule) : observation :=
  let '(n, progs, sc) := x in
  let (tr, sf) := trace sc (init n progs) in
  (tr, map out (ths sf), map pending_slot (ths sf), chan_obs (ch sf)).

Definition res_eqb (a b : res) : bool :=
  match a, b with
  | RSend x, RSend y => Bool.eqb x y
  | RRecv x v, RRecv y w => Bool.eqb x y && N.eqb v w
  | RTrySend x, RTrySend y => Bool.eqb x y
  | RTryRecv x1 x2 v, RTryRecv y1 y2 w => Bool.eqb x1 y1 && Bool.eqb x2 y2 && N.eqb v w
  | RClose, RClose => true
  | RPanic, RPanic => true
  | _, _ => false
  end.

Definition obs_eqb (a b : observation) : bool :=
  let '(t1, r1, p1, (g1, l1, s1, ss1, c1)) := a in
  let '(t2, r2, p2, (g2, l2, s2, ss2, c2)) := b in
  list_eqb (prod_eqb N.eqb N.eqb) t1 t2 && list_eqb (list_eqb res_eqb) r1 r2
  && list_eqb N.eqb p1 p2
  && Nat.eqb g1 g2 && Nat.eqb l1 l2 && Nat.eqb s1 s2 && Nat.eqb ss1 ss2 && Bool.eqb c1 c2.

(* ---- Go's semantics of one channel (the specification) ---- *)
Record spec := mkSpec { sq : list N; sclosed : bool }.

(* what Go allows for a channel of capacity n > 0.  A send that finds the channel
   closed panics (ESendClosed, only when closed); so does close of a closed channel
   (ECloseClosed); a non-blocking send fails only on a full OPEN channel. *)
Definition spec_step (n : nat) (a : spec) (e : event) : option spec :=
  match e with
  | ESend v => if negb (sclosed a) && (length (sq a) <? n) then Some (mkSpec (sq a ++ [v]) false) else None
  | ERecv v => match sq a with
               | x :: q => if N.eqb x v then Some (mkSpec q (sclosed a)) else None
               | [] => None
               end
  | ERecvClosed => match sq a with [] => if sclosed a then Some a else None | _ => None end
  | EClose => if sclosed a then None else Some (mkSpec (sq a) true)
  | ECloseClosed => if sclosed a then Some a else None
  | ESendClosed => if sclosed a then Some a else None
  | ETrySendFail => if negb (sclosed a) && (length (sq a) =? n) then Some a else None
  | ETryRecvEmpty => match sq a with [] => if sclosed a then None else Some a | _ => None end
  end.

Fixpoint spec_run (n : nat) (a : spec) (l : list event) : option spec :=
  match l with
  | [] => Some a
  | e :: l' => match spec_step n a e with Some a' => spec_run n a' l' | None => None end
  end.

(* contents of the ring buffer, oldest first *)
Definition contents (c : chan) : list N :=
  map (fun i => nth ((getp c + i) mod cap c) (buf c) 0%N) (seq 0 (len c)).

Definition abs (s : state) : spec := mkSpec (contents (ch s)) (closed (ch s)).

Definition sent_of (l : list event) : list N :=
  flat_map (fun e => match e with ESend v => [v] | _ => [] end) l.
Definition rcvd_of (l : list event) : list N :=
  flat_map (fun e => match e with ERecv v => [v] | _ => [] end) l.
Definition events (s : state) : list event := map snd (log s).
(* the events caused by thread t, in order *)
Definition events_of (t : nat) (l : list (nat * event)) : list event :=
  map snd (filter (fun p => Nat.eqb (fst p) t) l).

(* values a thread has received / sent according to the results of its calls,
   including the result already fixed for the call that is about to Broadcast *)
Definition res_recv (r : res) : list N :=
  match r with RRecv true v => [v] | RTryRecv true _ v => [v] | _ => [] end.
Definition res_sent (o : op) (r : res) : list N :=
  match o, r with OSend v, RSend true => [v] | OTrySend v, RTrySend true => [v] | _, _ => [] end.
Definition pending_res (th : thread) : list res :=
  match tpc th with PBcast (Some r) => [r] | _ => [] end.
Definition received_by (th : thread) : list N := flat_map res_recv (out th ++ pending_res th).
