(* C10 - property theorems only.  Model: C10/Model.v, an interleaving semantics of
   ChanSend / ChanRecv / ChanTrySend / ChanTryRecv / ChanClose of z_chan.go on one
   channel: [run sc (init n progs)] is the state after the schedule sc (any list of
   thread ids; a step of a parked thread is a spurious wake-up) from n = capacity and
   any number of threads with any programs.  Every theorem quantifies over ALL
   schedules and all thread sets; nothing is proved by exploration.
   The buffered channel (n > 0) refines Go's channel (the executable specification
   [spec_step]), including the panics: a send that finds the channel closed panics
   (event ESendClosed, result RPanic), so does close of a closed channel (ECloseClosed)
   - finding F5 is repaired in the modelled code.
   For the unbuffered channel the exactly-once / liveness statements are false of the
   code: the *_refuted theorems give explicit schedules (replayed on the real z_chan.go by
   props/C10/check.py on every run). *)
From LLGoV Require Import Lib.Common C10.Model C10.Proofs C10.SelModel C10.SelProofs.

(* the sequence of Go-level events of every execution is one that Go's channel
   semantics allows, and the ring buffer holds exactly the specification's queue *)
Theorem buffered_refines_go_channel : forall n progs sc, 0 < n ->
  spec_run n (mkSpec [] false) (events (run sc (init n progs)))
  = Some (abs (run sc (init n progs))).
Proof. exact run_refines. Qed.
Print Assumptions buffered_refines_go_channel.

Theorem buffered_never_exceeds_cap : forall n progs sc, 0 < n ->
  len (ch (run sc (init n progs))) <= n /\
  length (contents (ch (run sc (init n progs)))) <= n.
Proof. exact run_cap. Qed.
Print Assumptions buffered_never_exceeds_cap.

(* FIFO, at most once, and exactly once up to what is still buffered: the values
   received so far, in the order of the receives, followed by the buffer contents,
   are the values sent so far in the order of the sends *)
Theorem buffered_fifo_exactly_once : forall n progs sc, 0 < n ->
  sent_of (events (run sc (init n progs))) =
  rcvd_of (events (run sc (init n progs))) ++ contents (ch (run sc (init n progs))).
Proof. exact run_fifo. Qed.
Print Assumptions buffered_fifo_exactly_once.

(* the receive events are what the calls return (any capacity): for every thread,
   the values its ChanRecv/ChanTryRecv calls returned with ok = true (including the
   result already fixed for a call that is about to Broadcast) are exactly its ERecv
   events, in order *)
Theorem recv_results_are_the_logged_receives : forall n progs sc t th,
  nth_error (ths (run sc (init n progs))) t = Some th ->
  received_by th = rcvd_of (events_of t (log (run sc (init n progs)))).
Proof. exact run_tie. Qed.
Print Assumptions recv_results_are_the_logged_receives.

(* close, then drain, then zero/ok=false: a receive reports "closed" only after a
   close and when everything sent before has been received; nothing is sent after close *)
Theorem close_drains_then_zero : forall n progs sc l1 l2, 0 < n ->
  events (run sc (init n progs)) = l1 ++ ERecvClosed :: l2 ->
  In EClose l1 /\ sent_of l1 = rcvd_of l1.
Proof. exact run_recv_closed. Qed.
Print Assumptions close_drains_then_zero.

Theorem nothing_sent_after_close : forall n progs sc l1 l2, 0 < n ->
  events (run sc (init n progs)) = l1 ++ EClose :: l2 -> sent_of l2 = [].
Proof. exact run_after_close. Qed.
Print Assumptions nothing_sent_after_close.

(* no lost wake-up: whenever no thread can run, every unfinished thread is parked
   where Go would block it too - a sender in front of a full buffer of an OPEN
   channel (a sender parked on a full buffer notices close: the former defect
   send_full_then_close is repaired), a receiver in front of an empty open channel. *)
Theorem buffered_no_lost_wakeup : forall n progs sc, 0 < n ->
  let s := run sc (init n progs) in
  (forall th, In th (ths s) -> enabled th = false) ->
  forall th, In th (ths s) -> prog th <> [] ->
    parked th = true /\
    ((tpc th = PSendW /\ len (ch s) = n /\ closed (ch s) = false) \/
     (tpc th = PRecvW /\ len (ch s) = 0 /\ closed (ch s) = false)).
Proof. exact quiescent_blocked_legit. Qed.
Print Assumptions buffered_no_lost_wakeup.

(* close wakes everybody: once the channel is closed, a state in which nobody can
   run has no unfinished thread at all (blocked receivers returned zero/ok=false,
   blocked senders panicked) *)
Theorem buffered_close_leaves_nobody_blocked : forall n progs sc, 0 < n ->
  let s := run sc (init n progs) in
  (forall th, In th (ths s) -> enabled th = false) -> closed (ch s) = true ->
  forall th, In th (ths s) -> prog th = [].
Proof.
  intros n progs sc Hn s Hq Hc th Hin.
  destruct (prog th) eqn:E; auto. exfalso.
  destruct (quiescent_blocked_legit n progs sc Hn Hq th Hin) as [_ [(_ & _ & H)|(_ & _ & H)]];
    try (rewrite E; discriminate); fold s in H; congruence.
Qed.
Print Assumptions buffered_close_leaves_nobody_blocked.

(* hence no blocked sender together with a blocked receiver *)
Theorem buffered_no_stuck_pair : forall n progs sc, 0 < n ->
  let s := run sc (init n progs) in
  (forall th, In th (ths s) -> enabled th = false) ->
  forall a b, In a (ths s) -> In b (ths s) -> prog a <> [] -> prog b <> [] ->
    tpc a = PSendW -> tpc b = PRecvW -> False.
Proof.
  intros n progs sc Hn s Hq a b Ha Hb Pa Pb Ta Tb.
  destruct (quiescent_blocked_legit n progs sc Hn Hq a Ha Pa) as [_ [[_ [H1 _]]|[H1 _]]]; [|congruence].
  destruct (quiescent_blocked_legit n progs sc Hn Hq b Hb Pb) as [_ [[H2 _]|[_ [H2 _]]]]; [congruence|].
  fold s in H1, H2. lia.
Qed.
Print Assumptions buffered_no_stuck_pair.

(* ChanTrySend (any capacity) and ChanTryRecv (buffered) never wait: in every
   reachable state the thread is runnable and finishes the call within two of its
   own steps, whatever the others do.  Partial: ChanTryRecv on an unbuffered channel
   does wait for the sender it chose (tryrecv_unbuffered_never_blocks_refuted). *)
Theorem try_ops_never_block_partial : forall n progs sc t th o rest,
  let s := run sc (init n progs) in
  nth_error (ths s) t = Some th -> prog th = o :: rest ->
  match o with OTrySend _ => True | OTryRecv => 0 < n | _ => False end ->
  parked th = false /\
  exists s1, step s t = Some s1 /\
    (done_op t rest s1 \/ exists s2, step s1 t = Some s2 /\ done_op t rest s2).
Proof. exact try_never_blocks. Qed.
Print Assumptions try_ops_never_block_partial.

Example nontrivial_run :
  let s := run [0;1;0;2;1;2;0;0;1;1;2;2]%nat (init 2 [[OSend 5; OSend 6]; [ORecv; OClose]; [OTryRecv; ORecv]]) in
  events s = [ESend 5%N; ERecv 5%N; ETryRecvEmpty; ESend 6%N; EClose; ERecv 6%N].
Proof. reflexivity. Qed.

(* ---- defects of the unchanged tree: explicit schedules ---- *)

(* F4: unbuffered, two receivers and one sender.  7 was sent (ChanSend returned
   true) and sits in receiver 0's buffer, nobody can run any more, receiver 0 is
   still parked inside ChanRecv and no call has returned 7. *)
Theorem recv_returns_after_delivery_refuted :
  exists n progs sc, let s := run sc (init n progs) in
    (forall th, In th (ths s) -> enabled th = false) /\ In (ESend 7%N) (events s) /\
    (exists th, nth_error (ths s) 0 = Some th /\ prog th = [ORecv] /\ parked th = true /\ slot th = 7%N) /\
    (forall th, In th (ths s) -> ~ In 7%N (received_by th)).
Proof. exists 0%nat, [[ORecv]; [ORecv]; [OSend 7%N]], [0;0;0;1;2;2;1;0;1;1;0]%nat. exact f4_recv_blocked. Qed.
Print Assumptions recv_returns_after_delivery_refuted.

(* F19: unbuffered; the sender's call returned true, then close; the receiver
   returns ok = false with the delivered 7 in its buffer: the value is lost *)
Theorem recv_ok_after_delivery_refuted :
  exists n progs sc, let s := run sc (init n progs) in
    (forall th, In th (ths s) -> prog th = []) /\ In (ESend 7%N) (events s) /\
    (exists th, nth_error (ths s) 0 = Some th /\ out th = [RRecv false 7%N]) /\
    (exists th, nth_error (ths s) 1 = Some th /\ out th = [RSend true; RClose]).
Proof. exists 0%nat, [[ORecv]; [OSend 7%N; OClose]], [0;0;0;1;1;1;0;1]%nat. exact f19_recv_reported_closed. Qed.
Print Assumptions recv_ok_after_delivery_refuted.

(* F5 repaired - send on a closed channel panics (any capacity, any state): a thread
   at the opening Lock of ChanSend, woken from ChanSend's Wait, or at the opening Lock
   of ChanTrySend finishes that call with a panic in its next step *)
Theorem send_on_closed_panics : forall s t th v rest,
  nth_error (ths s) t = Some th -> parked th = false -> closed (ch s) = true ->
  (prog th = OSend v :: rest /\ (tpc th = PStart \/ tpc th = PSendW)) \/
  (prog th = OTrySend v :: rest /\ tpc th = PStart) ->
  exists s' th', step s t = Some s' /\ nth_error (ths s') t = Some th' /\
                 prog th' = rest /\ out th' = out th ++ [RPanic].
Proof.
  intros s t th v rest Et Epk Ec H.
  destruct (send_closed_panics s t th v rest Et Epk Ec H) as (s' & th' & H1 & H2 & H3 & H4).
  rewrite Et in H4. exists s', th'. repeat split; assumption.
Qed.
Print Assumptions send_on_closed_panics.

Theorem close_of_closed_panics : forall s t th rest,
  nth_error (ths s) t = Some th -> parked th = false -> closed (ch s) = true ->
  prog th = OClose :: rest -> tpc th = PStart ->
  exists s' th', step s t = Some s' /\ nth_error (ths s') t = Some th' /\
                 prog th' = rest /\ out th' = out th ++ [RPanic].
Proof.
  intros s t th rest Et Epk Ec Ep Hp.
  destruct (close_closed_panics s t th rest Et Epk Ec Ep Hp) as (s' & th' & H1 & H2 & H3 & H4).
  rewrite Et in H4. exists s', th'. repeat split; assumption.
Qed.
Print Assumptions close_of_closed_panics.

Example panics_nontrivial :
  let s := run [0;0;0;0;1;1]%nat (init 1 [[OClose; OSend 5; OClose]; [OTrySend 6; ORecv]]) in
  map out (ths s) = [[RClose; RPanic; RPanic]; [RPanic; RRecv false 0]].
Proof. reflexivity. Qed.

(* the non-blocking receive (select with default) on an unbuffered channel: it
   took 7 from a blocked sender (whose call returned true), then a later receive
   re-armed the hand-off flag: the try-receive is parked for ever *)
Theorem tryrecv_unbuffered_never_blocks_refuted :
  exists n progs sc, let s := run sc (init n progs) in
    (forall th, In th (ths s) -> enabled th = false) /\
    (exists th, nth_error (ths s) 1 = Some th /\ prog th = [OTryRecv] /\ parked th = true /\ slot th = 7%N) /\
    (exists th, nth_error (ths s) 0 = Some th /\ out th = [RSend true]).
Proof. exists 0%nat, [[OSend 7%N; ORecv]; [OTryRecv]], [0;1;1;0;0;0;0;1;0]%nat. exact tryrecv_blocks. Qed.
Print Assumptions tryrecv_unbuffered_never_blocks_refuted.

(* ================================================================================= *)
(* select: model C10/SelModel.v - several channels, Select / TrySelect / selectOp      *)
(* registration next to the plain operations; [x_run sc (x_init caps progs)].         *)
(* ================================================================================= *)

(* every call - in particular every select - commits at most once, under every schedule,
   any number of threads and channels: the number of commit events (a value entering or
   leaving a channel: ESend / ERecv) a thread has caused never exceeds the number of its
   finished calls plus one if the current call has already committed and is on its way
   out (Broadcast, endSelect).  A select can therefore never take effect on two of its
   cases, and a committed case is logged as the same event as the plain operation. *)
Theorem select_commits_at_most_one_case : forall caps progs sc t th,
  nth_error (xths (x_run sc (x_init caps progs))) t = Some th ->
  commits t (xlog (x_run sc (x_init caps progs))) <= length (xout th) + inflight (xtpc th).
Proof. exact calls_commit_at_most_once. Qed.
Print Assumptions select_commits_at_most_one_case.

Example select_nontrivial :
  let s := x_run [0;0;1;1;0;0;0;0;1;1;1]%nat
             (x_init [0;1]%nat [[XSelect [CRecv 0; CSend 1 7]]; [XPlain 1 ORecv; XTrySelect [CRecv 1; CSend 0 9]]]) in
  map xout (xths s) = [[]; [XR (RRecv true 7)]] /\
  map snd (xlog s) = [ESend 7%N; ERecv 7%N] /\
  map xtpc (xths s) = [SEnd 1 (XSel 1 false 0); TTry 1].
Proof. vm_compute. auto. Qed.

(* "default only when no case was ready" is FALSE of TrySelect: the cases are probed one
   after the other in separate critical sections.  Capacity 1: at every instant the
   channel is not full (the send case is ready) or not empty (the receive case is ready),
   yet the select with default reports that nothing was ready. *)
Theorem select_default_only_if_none_ready_refuted :
  exists caps progs sc, let s := x_run sc (x_init caps progs) in
    progs = [[XTrySelect [CRecv 0; CSend 0 12%N]]; [XPlain 0 (OSend 13%N)]] /\ caps = [1]%nat /\
    map xout (xths s) = [[XDefault]; [XR (RSend true)]] /\
    map xchan_obs (xchs s) = [(0, 1, 0, 0, false, 0)]%nat.
Proof. exact w_default_ex. Qed.
Print Assumptions select_default_only_if_none_ready_refuted.

(* no stuck pair is FALSE with select on unbuffered channels.  (1) two selects that
   each offer a send and a receive on the same channel: both sleep on their private
   condition variable for ever (a select does not accept select-senders on a channel it
   also sends on, and nobody arms the hand-off flag) *)
Theorem select_no_stuck_pair_refuted :
  exists caps progs sc, let s := x_run sc (x_init caps progs) in
    progs = [[XSelect [CRecv 0; CSend 0 11%N]]; [XSelect [CSend 0 12%N; CRecv 0]]] /\
    (forall th, In th (xths s) -> x_enabled th = false) /\
    map xtpc (xths s) = [SWaitW; SWaitW] /\ map xout (xths s) = [[]; []].
Proof. exact w_mirrored_ex. Qed.
Print Assumptions select_no_stuck_pair_refuted.

(* (2) a blocking select armed the hand-off flag of channel 1 for a counted select-sender
   that then served somebody else: it waits inside chanTryRecv for ever and cannot take
   the value thread 2 wants to send on channel 0 *)
Theorem select_partner_both_blocked_refuted :
  exists caps progs sc, let s := x_run sc (x_init caps progs) in
    (forall th, In th (xths s) -> x_enabled th = false) /\
    (exists th, nth_error (xths s) 0 = Some th /\ xprog th = [XSelect [CRecv 0; CRecv 1]] /\ xtpc th = STry2W 1) /\
    (exists th, nth_error (xths s) 2 = Some th /\ xprog th = [XPlain 0 (OSend 12%N)] /\ xtpc th = XSendW).
Proof. exact w_stuck_pair_ex. Qed.
Print Assumptions select_partner_both_blocked_refuted.

(* a select with default can block for ever: it armed the hand-off flag for a registered
   select-sender, which then gave its value to another receiver *)
Theorem tryselect_never_blocks_refuted :
  exists caps progs sc, let s := x_run sc (x_init caps progs) in
    (forall th, In th (xths s) -> x_enabled th = false) /\
    exists th, nth_error (xths s) 1 = Some th /\ xprog th = [XTrySelect [CRecv 0; CSend 0 14%N]] /\
               xtpc th = TTry2W 0 /\ xpark th = Some (OnChan 0) /\ xslots th = [0%N; 0%N].
Proof. exact w_tryselect_blocks_ex. Qed.
Print Assumptions tryselect_never_blocks_refuted.

(* (3) a sending select and a receiving select on one unbuffered channel, where the receiver
   also has a send case on a channel with a lower address: it probes its sends first and
   then calls chanTryRecv with acceptSelectSend = false; nobody arms the hand-off *)
Theorem select_sendfirst_receiver_stuck_refuted :
  exists caps progs sc, let s := x_run sc (x_init caps progs) in
    progs = [[XSelect [CRecv 1; CSend 0 12%N]]; [XSelect [CSend 1 15%N; CSend 1 16%N]]] /\ caps = [0;0]%nat /\
    (forall th, In th (xths s) -> x_enabled th = false) /\
    map xtpc (xths s) = [SWaitW; SWaitW] /\ map xout (xths s) = [[]; []].
Proof. exact w_sendfirst_ex. Qed.
Print Assumptions select_sendfirst_receiver_stuck_refuted.
