From LLGoV Require Import C10.Model C10.Proofs.
