From LLGoV Require Import Lib.Common C10.Model.

Definition w_recv_blocked_after_delivery : nat * list (list op) * schedule :=
  (0%nat, [[ORecv]; [ORecv]; [OSend 7]], [0;0;0;1;2;2;1;0;1;1;0]%nat).
Definition w_recv_delivered_reported_closed : nat * list (list op) * schedule :=
  (0%nat, [[ORecv]; [OSend 7; OClose]], [0;0;0;1;1;1;0;1]%nat).
Definition w_send_full_then_close : nat * list (list op) * schedule :=
  (1%nat, [[OSend 5; OSend 6]; [OClose]], [0;0;0;1;1;0]%nat).
Definition w_send_closed_no_panic : nat * list (list op) * schedule :=
  (1%nat, [[OClose; OSend 5]], [0;0;0]%nat).
Definition w_close_closed_no_panic : nat * list (list op) * schedule :=
  (1%nat, [[OClose; OClose]], [0;0;0;0]%nat).
Definition w_tryrecv_blocks : nat * list (list op) * schedule :=
  (0%nat, [[OSend 7; ORecv]; [OTryRecv]], [0;1;1;0;0;0;0;1;0]%nat).
Eval vm_compute in observe w_recv_blocked_after_delivery.
Eval vm_compute in observe w_recv_delivered_reported_closed.
Eval vm_compute in observe w_send_full_then_close.
Eval vm_compute in observe w_send_closed_no_panic.
Eval vm_compute in observe w_close_closed_no_panic.
Eval vm_compute in observe w_tryrecv_blocks.
