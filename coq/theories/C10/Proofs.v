(* C10 - proofs about the model of z_chan.go (C10/Model.v): ring buffer arithmetic, refinement of
   Go's channel semantics by the buffered channel (invariant over all schedules), no lost wake-up,
   non-blocking operations, results vs. event log, and the witnesses of the recorded defects. *)
From LLGoV Require Import Lib.Common C10.Model.

(* ================= part 1 ================= *)

(* ---------- lists ---------- *)
Lemma upd_length {A} (l : list A) i x : length (upd l i x) = length l.
Proof. revert i; induction l; destruct i; cbn; auto. Qed.

Lemma nth_upd_same {A} (l : list A) i x d : i < length l -> nth i (upd l i x) d = x.
Proof. revert i; induction l; destruct i; cbn; intros; try lia; auto. apply IHl. lia. Qed.

Lemma nth_upd_other {A} (l : list A) i j x d : i <> j -> nth j (upd l i x) d = nth j l d.
Proof. revert i j; induction l; destruct i, j; cbn; intros; try congruence; auto. Qed.

Lemma nth_error_upd_same {A} (l : list A) i x : i < length l -> nth_error (upd l i x) i = Some x.
Proof. revert i; induction l; destruct i; cbn; intros; try lia; auto. apply IHl. lia. Qed.

Lemma nth_error_upd_other {A} (l : list A) i j x : i <> j -> nth_error (upd l i x) j = nth_error l j.
Proof. revert i j; induction l; destruct i, j; cbn; intros; try congruence; auto. Qed.

Lemma nth_error_lt {A} (l : list A) i x : nth_error l i = Some x -> i < length l.
Proof. intros H. apply nth_error_Some. congruence. Qed.

(* ---------- arithmetic of the ring buffer ---------- *)
Lemma mod_lt2 a c : 0 < c -> a < 2 * c -> a mod c = if a <? c then a else a - c.
Proof.
  intros Hc Ha. destruct (Nat.ltb_spec a c).
  - now apply Nat.mod_small.
  - symmetry. apply Nat.mod_unique with (q := 1); lia.
Qed.

Definition wf (c : chan) : Prop :=
  0 < cap c /\ length (buf c) = cap c /\ getp c < cap c /\ len c <= cap c.

Lemma contents_length c : length (contents c) = len c.
Proof. unfold contents. now rewrite map_length, seq_length. Qed.

Lemma contents_put c v : wf c -> len c < cap c -> contents (put c v) = contents c ++ [v].
Proof.
  intros (Hc & Hl & Hg & Hn) Hlt. unfold contents, put; cbn [getp len cap buf].
  rewrite seq_S, map_app. cbn [map]. f_equal.
  - apply map_ext_in. intros i Hi. apply in_seq in Hi.
    apply nth_upd_other.
    rewrite !mod_lt2 by lia.
    destruct (Nat.ltb_spec (getp c + len c) (cap c)), (Nat.ltb_spec (getp c + i) (cap c)). all: lia.
  - f_equal. cbn. apply nth_upd_same. rewrite Hl. apply Nat.mod_upper_bound. lia.
Qed.

Lemma contents_take c : wf c -> 0 < len c -> contents c = front c :: contents (take c).
Proof.
  intros (Hc & Hl & Hg & Hn) Hlt. unfold contents, take, front; cbn [getp len cap buf].
  destruct (len c) as [|k] eqn:E; [lia|]. cbn [pred].
  rewrite <- cons_seq. cbn [map]. f_equal.
  - f_equal. rewrite Nat.add_0_r. now apply Nat.mod_small.
  - rewrite <- seq_shift, map_map. apply map_ext_in. intros i Hi. apply in_seq in Hi.
    f_equal. rewrite (mod_lt2 (getp c + 1)), (mod_lt2 (getp c + S i)) by lia.
    destruct (Nat.ltb_spec (getp c + 1) (cap c)).
    + rewrite mod_lt2 by lia.
      repeat match goal with |- context [?a <? ?b] => destruct (Nat.ltb_spec a b) end; lia.
    + rewrite mod_lt2 by lia.
      repeat match goal with |- context [?a <? ?b] => destruct (Nat.ltb_spec a b) end; lia.
Qed.

Lemma wf_put c v : wf c -> len c < cap c -> wf (put c v).
Proof. intros (Hc & Hl & Hg & Hn) H. unfold wf, put; cbn. rewrite upd_length. lia. Qed.

Lemma wf_take c : wf c -> 0 < len c -> wf (take c).
Proof.
  intros (Hc & Hl & Hg & Hn) H. unfold wf, take; cbn. repeat split; try lia.
  apply Nat.mod_upper_bound. lia.
Qed.

(* ================= part 2 ================= *)

Definition absc (c : chan) : spec := mkSpec (contents c) (closed c).

(* program counters that a buffered channel never reaches *)
Definition pc_buf (p : pc) : Prop :=
  match p with PRecv2 | PRecv2W | PBcast None => False | _ => True end.

Definition sec_ok (c : chan) (th : thread) (e : eff) : Prop :=
  wf (e_ch e) /\ cap (e_ch e) = cap c /\ pc_buf (tpc (e_th e)) /\ e_deliver e = None /\
  match e_ev e with
  | Some ev => spec_step (cap c) (absc c) ev = Some (absc (e_ch e))
  | None => absc (e_ch e) = absc c
  end.

Lemma contents_nil c : len c = 0 -> contents c = [].
Proof. intros H. unfold contents. now rewrite H. Qed.

Lemma cap_nz c : wf c -> (cap c =? 0) = false.
Proof. intros (H & _). apply Nat.eqb_neq. lia. Qed.

Lemma spec_send_ok c v :
  wf c -> len c < cap c -> closed c = false ->
  spec_step (cap c) (absc c) (ESend v) = Some (absc (put c v)).
Proof.
  intros W H Ec. unfold spec_step, absc. cbn [sq sclosed]. rewrite Ec, contents_length.
  assert (len c <? cap c = true) as -> by (apply Nat.ltb_lt; lia). cbn [negb andb].
  rewrite contents_put by auto. unfold put; cbn [closed]. now rewrite Ec.
Qed.

Lemma spec_recv_ok c :
  wf c -> 0 < len c ->
  spec_step (cap c) (absc c) (ERecv (front c)) = Some (absc (take c)).
Proof.
  intros W H. unfold spec_step, absc. cbn [sq sclosed].
  rewrite (contents_take c) by auto. now rewrite N.eqb_refl.
Qed.

Lemma noop_ok c th : wf c -> pc_buf (tpc th) -> sec_ok c th (noop c th).
Proof. intros. unfold sec_ok, noop; cbn. repeat split; auto; apply H. Qed.

Lemma send_sec_ok c th rest v : wf c -> sec_ok c th (send_sec c th rest v).
Proof.
  intros W. pose proof (cap_nz c W) as Hz. pose proof W as (Hc & Hl & Hg & Hn).
  unfold send_sec. rewrite Hz.
  destruct (closed c) eqn:Ec.
  - rewrite andb_false_r. repeat split; auto. cbn. now rewrite Ec.
  - rewrite andb_true_r. destruct (Nat.eqb_spec (len c) (cap c)) as [E|E].
    { repeat split; auto. }
    pose proof (wf_put c v W ltac:(lia)) as W'.
    repeat split; auto; try apply W'. apply spec_send_ok; auto; lia.
Qed.

Lemma recv_sec_ok c th rest t : wf c -> sec_ok c th (recv_sec c th rest t).
Proof.
  intros W. pose proof (cap_nz c W) as Hz. pose proof W as (Hc & Hl & Hg & Hn).
  unfold recv_sec. rewrite Hz.
  destruct (Nat.eqb_spec (len c) 0) as [E|E].
  { destruct (closed c) eqn:Ec; repeat split; auto.
    cbn. rewrite contents_nil by auto. now rewrite Ec. }
  pose proof (wf_take c W ltac:(lia)) as W'.
  repeat split; auto; try apply W'. apply spec_recv_ok; auto; lia.
Qed.

Lemma section_ok c th t o rest :
  wf c -> pc_buf (tpc th) -> sec_ok c th (section c th t o rest).
Proof.
  intros W P. pose proof (cap_nz c W) as Hz. pose proof W as (Hc & Hl & Hg & Hn).
  unfold section.
  destruct (tpc th) as [| | |r| |] eqn:Epc; cbn in P; try contradiction.
  - (* PStart *)
    destruct o as [v| |v| |].
    + now apply send_sec_ok.
    + now apply recv_sec_ok.
    + unfold trysend_sec.
      destruct (closed c) eqn:Ec.
      { repeat split; auto. cbn. now rewrite Ec. }
      rewrite Hz.
      destruct (Nat.eqb_spec (len c) (cap c)) as [E|E].
      { repeat split; auto. cbn [e_ev e_ch e_th e_deliver spec_step absc sq sclosed].
        rewrite Ec, contents_length, E, Nat.eqb_refl. reflexivity. }
      pose proof (wf_put c v W ltac:(lia)) as W'.
      repeat split; auto; try apply W'. apply spec_send_ok; auto; lia.
    + unfold tryrecv_sec. rewrite Hz.
      destruct (Nat.eqb_spec (len c) 0) as [E|E].
      { destruct (closed c) eqn:Ec; repeat split; auto;
          cbn [e_ev e_ch e_th e_deliver spec_step absc sq sclosed];
          rewrite ?contents_nil by auto; rewrite ?Ec; auto. }
      pose proof (wf_take c W ltac:(lia)) as W'.
      repeat split; auto; try apply W'. apply spec_recv_ok; auto; lia.
    + destruct (closed c) eqn:Ec.
      { repeat split; auto. cbn. now rewrite Ec. }
      repeat split; auto. cbn [e_ev e_ch e_th e_deliver spec_step absc sq sclosed].
      rewrite Ec. unfold set_closed; cbn. reflexivity.
  - (* PSendW *)
    destruct o as [v| |v| |]; try (apply noop_ok; auto; rewrite Epc; exact I).
    rewrite Hz. now apply send_sec_ok.
  - (* PRecvW *)
    destruct o as [v| |v| |]; try (apply noop_ok; auto; rewrite Epc; exact I).
    now apply recv_sec_ok.
  - (* PBcast *)
    destruct r as [r|]; [|contradiction]. repeat split; auto.
Qed.

(* ================= part 3 ================= *)

Lemma Forall_upd {A} (P : A -> Prop) l i x : Forall P l -> P x -> Forall P (upd l i x).
Proof.
  intros H Hx. revert i. induction H; destruct i; cbn; auto.
Qed.

Lemma Forall_nth_error {A} (P : A -> Prop) l i x : Forall P l -> nth_error l i = Some x -> P x.
Proof. intros H E. rewrite Forall_forall in H. apply H. eapply nth_error_In; eauto. Qed.

Lemma spec_run_snoc n a l e :
  spec_run n a (l ++ [e]) = match spec_run n a l with Some a' => spec_step n a' e | None => None end.
Proof.
  revert a. induction l as [|x l IH]; intros a; cbn.
  - destruct (spec_step n a e); auto.
  - destruct (spec_step n a x); auto.
Qed.

(* what the steps of one thread look like *)
Lemma step_inv s t s' :
  step s t = Some s' ->
  exists th o rest, nth_error (ths s) t = Some th /\ prog th = o :: rest /\
    ((parked th = true /\ s' = mkSt (ch s) (upd (ths s) t (unpark th)) (log s)) \/
     (parked th = false /\ s' = apply_eff s t (section (ch s) th t o rest))).
Proof.
  unfold step. destruct (nth_error (ths s) t) as [th|] eqn:E; [|discriminate].
  destruct (prog th) as [|o rest] eqn:Ep; [discriminate|].
  destruct (parked th) eqn:Epk; intros [= <-]; exists th, o, rest; auto.
Qed.

Definition spec0 : spec := mkSpec [] false.

Definition inv (n : nat) (s : state) : Prop :=
  wf (ch s) /\ cap (ch s) = n /\ Forall (fun th => pc_buf (tpc th)) (ths s) /\
  spec_run n spec0 (events s) = Some (abs s).

Lemma inv_step n s t s' : inv n s -> step s t = Some s' -> inv n s'.
Proof.
  intros (W & Hc & HF & HS) H.
  apply step_inv in H as (th & o & rest & Et & Ep & [[Epk ->]|[Epk ->]]).
  - unfold inv; cbn [ch ths log]. refine (conj W (conj Hc (conj _ HS))).
    apply Forall_upd; auto. exact (Forall_nth_error _ _ _ _ HF Et).
  - pose proof (Forall_nth_error _ _ _ _ HF Et) as Hpc. cbn beta in Hpc.
    pose proof (section_ok (ch s) th t o rest W Hpc) as (W' & Hc' & Hpc' & Hd & Hev).
    set (e := section (ch s) th t o rest) in *.
    unfold inv, apply_eff. cbn [ch ths log]. refine (conj W' (conj _ (conj _ _))); try congruence.
    + rewrite Hd. cbn [deliver].
      assert (Forall (fun th0 => pc_buf (tpc th0)) (upd (ths s) t (e_th e))) as HF'
        by (apply Forall_upd; auto).
      destruct (e_bcast e); auto.
      rewrite Forall_map. revert HF'. apply Forall_impl. intros a. now destruct a.
    + unfold events, abs in *. cbn [log ch].
      destruct (e_ev e) as [ev|].
      * rewrite map_app. cbn [map snd]. rewrite spec_run_snoc, HS. rewrite <- Hc. exact Hev.
      * rewrite HS. f_equal. symmetry. exact Hev.
Qed.

Lemma inv_run n sc : forall s, inv n s -> inv n (run sc s).
Proof.
  induction sc as [|t sc IH]; intros s H; cbn; auto.
  destruct (step s t) eqn:E; auto. apply IH. eapply inv_step; eauto.
Qed.

Lemma inv_init n progs : 0 < n -> inv n (init n progs).
Proof.
  intros H. unfold inv, init, wf, init_chan, events, abs; cbn.
  rewrite repeat_length. repeat split; auto; try lia.
  apply Forall_forall. intros th Hin. apply in_map_iff in Hin as (p & <- & _). exact I.
Qed.

(* ---- facts about every event sequence Go accepts ---- *)
Lemma spec_fifo n l : forall a a', spec_run n a l = Some a' ->
  sq a ++ sent_of l = rcvd_of l ++ sq a'.
Proof.
  induction l as [|e l IH]; intros a a' H; cbn in H.
  - injection H as <-. cbn. now rewrite app_nil_r.
  - destruct (spec_step n a e) as [a1|] eqn:E; [|discriminate].
    specialize (IH _ _ H).
    destruct e; unfold spec_step in E; cbn [sent_of rcvd_of flat_map app].
    + destruct (negb (sclosed a) && (length (sq a) <? n)); [|discriminate].
      injection E as <-. cbn in IH. now rewrite <- app_assoc in IH.
    + destruct (sq a) as [|x q] eqn:Eq; [discriminate|]. destruct (N.eqb_spec x v); [|discriminate].
      injection E as <-. cbn in IH. subst x. cbn. f_equal. exact IH.
    + destruct (sq a) eqn:Eq; [|discriminate]. destruct (sclosed a); [|discriminate]. injection E as <-.
      cbn in *. now rewrite Eq in IH.
    + destruct (sclosed a); [discriminate|]. injection E as <-. exact IH.
    + destruct (sclosed a); [|discriminate]. injection E as <-. exact IH.
    + destruct (sclosed a); [|discriminate]. injection E as <-. exact IH.
    + destruct (negb (sclosed a) && (length (sq a) =? n)); [|discriminate]. injection E as <-. exact IH.
    + destruct (sq a) eqn:Eq; [|discriminate]. destruct (sclosed a); [discriminate|]. injection E as <-.
      cbn in *. now rewrite Eq in IH.
Qed.

Lemma spec_run_app n l1 l2 : forall a a', spec_run n a (l1 ++ l2) = Some a' ->
  exists a1, spec_run n a l1 = Some a1 /\ spec_run n a1 l2 = Some a'.
Proof.
  induction l1 as [|e l1 IH]; intros a a' H; cbn in *.
  - eauto.
  - destruct (spec_step n a e); [|discriminate]. auto.
Qed.

Lemma spec_len n l : forall a a', length (sq a) <= n -> spec_run n a l = Some a' -> length (sq a') <= n.
Proof.
  induction l as [|e l IH]; intros a a' Hl H; cbn in H.
  - now injection H as <-.
  - destruct (spec_step n a e) as [a1|] eqn:E; [|discriminate].
    apply (IH a1); auto.
    destruct e; unfold spec_step in E.
    + destruct (negb (sclosed a)); cbn [andb] in E; [|discriminate].
      destruct (Nat.ltb_spec (length (sq a)) n); [|discriminate].
      injection E as <-. cbn. rewrite app_length. cbn. lia.
    + destruct (sq a) as [|x q] eqn:Eq; [discriminate|]. destruct (N.eqb x v); [|discriminate].
      injection E as <-. cbn in *. lia.
    + assert (a1 = a) as -> by (destruct (sq a); try discriminate; destruct (sclosed a); try discriminate; congruence). auto.
    + destruct (sclosed a); [discriminate|]. injection E as <-. auto.
    + assert (a1 = a) as -> by (destruct (sclosed a); try discriminate; congruence). auto.
    + assert (a1 = a) as -> by (destruct (sclosed a); try discriminate; congruence). auto.
    + assert (a1 = a) as -> by (destruct (negb (sclosed a) && (length (sq a) =? n)); try discriminate; congruence). auto.
    + assert (a1 = a) as -> by (destruct (sq a); try discriminate; destruct (sclosed a); try discriminate; congruence). auto.
Qed.

(* once closed, always closed, and nothing is sent any more *)
Lemma spec_closed_stays n l : forall a a', sclosed a = true -> spec_run n a l = Some a' ->
  sclosed a' = true /\ sent_of l = [].
Proof.
  induction l as [|e l IH]; intros a a' Hc H; cbn in H.
  - injection H as <-. auto.
  - destruct (spec_step n a e) as [a1|] eqn:E; [|discriminate].
    assert (sclosed a1 = true /\ sent_of [e] = []) as [H1 H2].
    { destruct e; unfold spec_step in E; rewrite ?Hc in E; cbn [negb andb orb] in E; try discriminate.
      - destruct (sq a) as [|x q]; [discriminate|]. destruct (N.eqb x v); [|discriminate]. injection E as <-. auto.
      - destruct (sq a); [|discriminate]. injection E as <-. auto.
      - injection E as <-. auto.
      - injection E as <-. auto.
      - destruct (sq a); discriminate. }
    destruct (IH _ _ H1 H) as [H3 H4]. split; auto.
    change (e :: l) with ([e] ++ l). unfold sent_of in *. rewrite flat_map_app, H2, H4. auto.
Qed.

(* ================= part 4 ================= *)

(* ---------- how one step changes the thread list ---------- *)
Definition mu (b : bool) (th : thread) : thread := if b then unpark th else th.

Lemma ths_apply_eff s t e :
  ths (apply_eff s t e) = map (mu (e_bcast e)) (upd (deliver (ths s) (e_deliver e)) t (e_th e)).
Proof.
  unfold apply_eff; cbn [ths]. destruct (e_bcast e); cbn [mu]; auto.
  symmetry. erewrite map_ext; [apply map_id|]. auto.
Qed.

(* same program, program counter and results; possibly woken, possibly a value delivered *)
Definition same_ctl (a b : thread) : Prop :=
  prog b = prog a /\ tpc b = tpc a /\ out b = out a /\ (parked b = true -> parked a = true).

Lemma same_ctl_refl a : same_ctl a a.
Proof. repeat split; auto. Qed.

Lemma deliver_length l d : length (deliver l d) = length l.
Proof.
  destruct d as [[t v]|]; cbn; auto. destruct (nth_error l t); auto. apply upd_length.
Qed.

Lemma deliver_nth l d i th' :
  nth_error (deliver l d) i = Some th' -> exists th, nth_error l i = Some th /\ same_ctl th th'.
Proof.
  destruct d as [[t v]|]; cbn.
  - destruct (nth_error l t) as [tt|] eqn:E.
    + destruct (Nat.eq_dec t i) as [->|N].
      * rewrite nth_error_upd_same by (eapply nth_error_lt; eauto). intros [= <-].
        exists tt. split; auto. repeat split; auto.
      * rewrite nth_error_upd_other by auto. intros H. exists th'. split; auto. apply same_ctl_refl.
    + intros H. exists th'. split; auto. apply same_ctl_refl.
  - intros H. exists th'. split; auto. apply same_ctl_refl.
Qed.

Lemma mu_same b th : same_ctl th (mu b th).
Proof. destruct b; repeat split; auto. cbn. discriminate. Qed.

Lemma same_ctl_trans a b c : same_ctl a b -> same_ctl b c -> same_ctl a c.
Proof. intros (A1 & A2 & A3 & A4) (B1 & B2 & B3 & B4). repeat split; try congruence. auto. Qed.

(* threads other than the stepping one *)
Lemma frame_other s t e i th' :
  i <> t -> nth_error (ths (apply_eff s t e)) i = Some th' ->
  exists th, nth_error (ths s) i = Some th /\ same_ctl th th' /\ (e_bcast e = true -> parked th' = false).
Proof.
  intros N. rewrite ths_apply_eff, nth_error_map, nth_error_upd_other by auto.
  destruct (nth_error (deliver (ths s) (e_deliver e)) i) as [x|] eqn:E; [|cbn; discriminate].
  cbn. intros [= <-]. apply deliver_nth in E as (th & E1 & E2).
  exists th. split; auto. split.
  - eapply same_ctl_trans; eauto. apply mu_same.
  - intros ->. reflexivity.
Qed.

(* the stepping thread *)
Lemma frame_self s t e th :
  nth_error (ths s) t = Some th ->
  nth_error (ths (apply_eff s t e)) t = Some (mu (e_bcast e) (e_th e)).
Proof.
  intros H. rewrite ths_apply_eff, nth_error_map, nth_error_upd_same; auto.
  rewrite deliver_length. eapply nth_error_lt; eauto.
Qed.

(* ---------- classification of the critical sections of a buffered channel ---------- *)
Definition cls (c : chan) (th : thread) (rest : list op) (e : eff) : Prop :=
  (exists r, tpc th = PBcast (Some r) /\ e_ch e = c /\ e_bcast e = true /\ e_th e = fin th rest r) \/
  (e_bcast e = false /\ (forall r, tpc th <> PBcast r) /\
   ((e_ch e = c /\ ((e_th e = park th PSendW /\ len c = cap c /\ closed c = false) \/
                    (e_th e = park th PRecvW /\ len c = 0 /\ closed c = false))) \/
    (exists r th0, prog th0 = prog th /\ e_th e = goto th0 (PBcast (Some r))) \/
    (e_ch e = c /\ exists r, e_th e = fin th rest r) \/
    (e_ch e = c /\ e_th e = th))).

Ltac cls_auto :=
  cbn; first
   [ solve [left; auto 6]
   | solve [right; left; eexists _, _; split; [|reflexivity]; reflexivity]
   | solve [right; right; left; split; [reflexivity|eexists; reflexivity]]
   | solve [right; right; right; split; reflexivity] ].

Lemma section_cls c th t o rest :
  wf c -> pc_buf (tpc th) -> cls c th rest (section c th t o rest).
Proof.
  intros W P. pose proof (cap_nz c W) as Hz.
  unfold section.
  destruct (tpc th) as [| | |r| |] eqn:Epc; cbn in P; try contradiction.
  - right. split; [|split; [intros ?; rewrite ?Epc; discriminate|]].
    + destruct o; cbn; unfold send_sec, recv_sec, trysend_sec, tryrecv_sec; rewrite ?Hz;
        repeat match goal with |- context [if ?b then _ else _] => destruct b end; reflexivity.
    + destruct o as [v| |v| |]; unfold send_sec, recv_sec, trysend_sec, tryrecv_sec; rewrite ?Hz.
      * destruct (closed c) eqn:Ec; [rewrite andb_false_r; cls_auto|rewrite andb_true_r].
        destruct (Nat.eqb_spec (len c) (cap c)); [left; cbn; auto 6|cls_auto].
      * destruct (Nat.eqb_spec (len c) 0); [|cls_auto].
        destruct (closed c) eqn:Ec; cls_auto.
      * destruct (closed c); [cls_auto|]. destruct (len c =? cap c); cls_auto.
      * destruct (len c =? 0); cls_auto.
      * destruct (closed c); cls_auto.
  - right. split; [|split; [intros ?; rewrite ?Epc; discriminate|]].
    + destruct o; cbn; unfold send_sec; rewrite ?Hz;
        repeat match goal with |- context [if ?b then _ else _] => destruct b end; reflexivity.
    + destruct o as [v| |v| |]; try cls_auto. rewrite Hz. unfold send_sec; rewrite ?Hz.
      destruct (closed c) eqn:Ec; [rewrite andb_false_r; cls_auto|rewrite andb_true_r].
      destruct (Nat.eqb_spec (len c) (cap c)); [left; cbn; auto 6|cls_auto].
  - right. split; [|split; [intros ?; rewrite ?Epc; discriminate|]].
    + destruct o; cbn; unfold recv_sec; rewrite ?Hz;
        repeat match goal with |- context [if ?b then _ else _] => destruct b end; reflexivity.
    + destruct o as [v| |v| |]; try cls_auto. unfold recv_sec; rewrite ?Hz.
      destruct (Nat.eqb_spec (len c) 0); [|cls_auto].
      destruct (closed c) eqn:Ec; cls_auto.
  - destruct r as [r|]; [|contradiction]. left. exists r. cbn. auto.
Qed.

(* ================= part 5 ================= *)

(* ---------- no lost wake-up on a buffered channel ---------- *)
Definition waiting_ok (c : chan) (th : thread) : Prop :=
  parked th = true ->
  (tpc th = PSendW /\ len c = cap c /\ closed c = false) \/ (tpc th = PRecvW /\ len c = 0 /\ closed c = false).

Definition pending_bcast (l : list thread) : Prop :=
  exists i th r, nth_error l i = Some th /\ prog th <> [] /\ parked th = false /\ tpc th = PBcast r.

Definition nlw (s : state) : Prop :=
  pending_bcast (ths s) \/ Forall (waiting_ok (ch s)) (ths s).

Lemma nlw_step n s t s' : inv n s -> nlw s -> step s t = Some s' -> nlw s'.
Proof.
  intros (W & Hc & HF & HS) HN H.
  apply step_inv in H as (th & o & rest & Et & Ep & [[Epk ->]|[Epk ->]]).
  - (* spurious wake-up *)
    destruct HN as [(i & b & r & Ei & Eb1 & Eb2 & Eb3)|HW].
    + left. exists i, b, r. cbn [ths]. repeat split; auto.
      destruct (Nat.eq_dec t i) as [->|N]; [congruence|]. now rewrite nth_error_upd_other.
    + right. cbn [ths ch]. apply Forall_upd; auto. intros H. discriminate.
  - pose proof (Forall_nth_error _ _ _ _ HF Et) as Hpc. cbn beta in Hpc.
    pose proof (section_ok (ch s) th t o rest W Hpc) as (_ & _ & _ & Hd & _).
    pose proof (section_cls (ch s) th t o rest W Hpc) as HC.
    set (e := section (ch s) th t o rest) in *.
    assert (Hself := frame_self s t e th Et).
    destruct HC as [(r & Hr & Hch & Hb & Hth)|(Hb & Hnb & HC)].
    + (* Broadcast: nobody stays parked *)
      right. rewrite ths_apply_eff, Hb. rewrite Forall_map. apply Forall_forall.
      intros x _ Hx. discriminate.
    + assert (Hths : ths (apply_eff s t e) = upd (ths s) t (e_th e)).
      { rewrite ths_apply_eff, Hb, Hd. cbn [deliver]. erewrite map_ext; [apply map_id|]. auto. }
      assert (Hchs : ch (apply_eff s t e) = e_ch e) by reflexivity.
      assert (Hkeep : pending_bcast (ths s) -> pending_bcast (upd (ths s) t (e_th e))).
      { intros (i & b & r & Ei & Eb1 & Eb2 & Eb3).
        exists i, b, r. repeat split; auto.
        destruct (Nat.eq_dec t i) as [->|N]; [|now rewrite nth_error_upd_other].
        exfalso. apply (Hnb r). congruence. }
      unfold nlw. rewrite Hths, Hchs.
      destruct HC as [(Hch & HP)|[(r & th0 & Hp0 & Hth)|[(Hch & r & Hth)|(Hch & Hth)]]].
      * (* the thread parks: its condition holds now *)
        destruct HN as [HN|HW]; [left; auto|]. right. rewrite Hch.
        apply Forall_upd; auto. intros _.
        destruct HP as [(-> & HP)|(-> & HP)]; cbn; auto.
      * (* the channel changed: this thread is about to Broadcast *)
        left. exists t, (e_th e), (Some r). rewrite nth_error_upd_same by (eapply nth_error_lt; eauto).
        rewrite Hth. cbn. repeat split; auto. rewrite Hp0, Ep. discriminate.
      * destruct HN as [HN|HW]; [left; auto|]. right. rewrite Hch.
        apply Forall_upd; auto. rewrite Hth. intros H; discriminate.
      * destruct HN as [HN|HW]; [left; auto|]. right. rewrite Hch.
        apply Forall_upd; auto. rewrite Hth. intros H; congruence.
Qed.

(* ================= part 6 ================= *)

Lemma nlw_init n progs : nlw (init n progs).
Proof.
  right. apply Forall_forall. intros th H. apply in_map_iff in H as (p & <- & _).
  intros H. discriminate.
Qed.

Lemma inv_nlw_run n sc : forall s, inv n s -> nlw s -> inv n (run sc s) /\ nlw (run sc s).
Proof.
  induction sc as [|t sc IH]; intros s H1 H2; cbn; auto.
  destruct (step s t) eqn:E; auto. apply IH.
  - eapply inv_step; eauto.
  - eapply nlw_step; eauto.
Qed.

Lemma quiescent_blocked_legit n progs sc :
  0 < n -> let s := run sc (init n progs) in
  (forall th, In th (ths s) -> enabled th = false) ->
  forall th, In th (ths s) -> prog th <> [] ->
    parked th = true /\
    ((tpc th = PSendW /\ len (ch s) = n /\ closed (ch s) = false) \/
     (tpc th = PRecvW /\ len (ch s) = 0 /\ closed (ch s) = false)).
Proof.
  intros Hn s Hq th Hin Hp.
  destruct (inv_nlw_run n sc (init n progs) (inv_init n progs Hn) (nlw_init n progs)) as [HI HN].
  fold s in HI, HN. destruct HI as (_ & Hc & _).
  assert (parked th = true) as Hpk.
  { specialize (Hq th Hin). unfold enabled in Hq. destruct (prog th); [congruence|].
    now destruct (parked th). }
  split; auto.
  destruct HN as [(i & b & r & Ei & Eb1 & Eb2 & Eb3)|HW].
  - exfalso. apply nth_error_In in Ei. specialize (Hq b Ei). unfold enabled in Hq.
    destruct (prog b); [congruence|]. rewrite Eb2 in Hq. discriminate.
  - rewrite Forall_forall in HW. specialize (HW th Hin Hpk). rewrite <- Hc. exact HW.
Qed.

(* ---------- non-blocking operations ---------- *)
Definition is_tryop (n : nat) (o : op) : Prop :=
  match o with OTrySend _ => True | OTryRecv => 0 < n | _ => False end.

Definition try_ok (n : nat) (th : thread) : Prop :=
  match prog th with
  | o :: _ => is_tryop n o -> parked th = false /\ (tpc th = PStart \/ exists r, tpc th = PBcast (Some r))
  | [] => True
  end.

Lemma try_ok_same n a b : same_ctl a b -> try_ok n a -> try_ok n b.
Proof.
  intros (A1 & A2 & A3 & A4). unfold try_ok. rewrite A1, A2. destruct (prog a); auto.
  intros H Ht. destruct (H Ht) as [H1 H2]. split; auto.
  destruct (parked b) eqn:E; auto. specialize (A4 eq_refl). congruence.
Qed.

Lemma try_ok_fin n th rest r : try_ok n (fin th rest r).
Proof. unfold try_ok; cbn. destruct rest; auto. Qed.

(* the stepping thread keeps try_ok *)
Lemma try_ok_section n c th t o rest :
  cap c = n -> prog th = o :: rest -> parked th = false -> try_ok n th ->
  try_ok n (e_th (section c th t o rest)).
Proof.
  intros Hc Ep Epk H. unfold try_ok in H. rewrite Ep in H.
  unfold section.
  destruct o as [v| |v| |].
  1,2,5: (* not a try operation: whatever the thread becomes, its program is the same or it finished *)
    destruct (tpc th) as [| | |[r|]| |]; cbn;
    unfold send_sec, recv_sec, recv2_sec, noop;
    repeat match goal with |- context [if ?b then _ else _] => destruct b end; cbn;
    try apply try_ok_fin; unfold try_ok; cbn; rewrite ?Ep; cbn; intros [].
  - (* OTrySend *)
    destruct (H I) as [_ [Hp|(r & Hp)]]; rewrite Hp.
    + unfold trysend_sec.
      repeat match goal with |- context [if ?b then _ else _] => destruct b end; cbn;
        try apply try_ok_fin; unfold try_ok; cbn; rewrite Ep; eauto.
    + cbn. apply try_ok_fin.
  - (* OTryRecv *)
    destruct (Nat.eq_dec n 0) as [Hz|Hz].
    + (* unbuffered: no claim *)
      destruct (tpc th) as [| | |[r|]| |]; cbn;
      unfold tryrecv_sec, recv2_sec, noop;
      repeat match goal with |- context [if ?b then _ else _] => destruct b end; cbn;
      try apply try_ok_fin; unfold try_ok; cbn; rewrite ?Ep; cbn; lia.
    + destruct (H ltac:(cbn; lia)) as [_ [Hp|(r & Hp)]]; rewrite Hp.
      * unfold tryrecv_sec. assert ((cap c =? 0) = false) as -> by (apply Nat.eqb_neq; lia).
        repeat match goal with |- context [if ?b then _ else _] => destruct b end; cbn;
          try apply try_ok_fin; unfold try_ok; cbn; rewrite Ep; eauto.
      * cbn. apply try_ok_fin.
Qed.

Definition tinv (n : nat) (s : state) : Prop := cap (ch s) = n /\ Forall (try_ok n) (ths s).

Lemma cap_section c th t o rest : cap (e_ch (section c th t o rest)) = cap c.
Proof.
  unfold section. destruct (tpc th) as [| | |[r|]| |], o; cbn;
    unfold send_sec, recv_sec, trysend_sec, tryrecv_sec, recv2_sec, noop;
    repeat match goal with |- context [if ?b then _ else _] => destruct b end; reflexivity.
Qed.

Lemma tinv_step n s t s' : tinv n s -> step s t = Some s' -> tinv n s'.
Proof.
  intros (Hc & HF) H.
  apply step_inv in H as (th & o & rest & Et & Ep & [[Epk ->]|[Epk ->]]).
  - split; auto. cbn. apply Forall_upd; auto.
    pose proof (Forall_nth_error _ _ _ _ HF Et) as H0. eapply try_ok_same; eauto.
    repeat split; auto; cbn; discriminate.
  - split. { cbn. rewrite cap_section. auto. }
    apply Forall_forall. intros x Hx. apply In_nth_error in Hx as (i & Hi).
    destruct (Nat.eq_dec i t) as [->|N].
    + rewrite (frame_self s t _ th Et) in Hi. injection Hi as <-.
      eapply try_ok_same; [apply mu_same|].
      apply try_ok_section; auto. exact (Forall_nth_error _ _ _ _ HF Et).
    + apply frame_other in Hi as (th0 & E0 & Hs & _); auto.
      eapply try_ok_same; eauto. exact (Forall_nth_error _ _ _ _ HF E0).
Qed.

Lemma tinv_run n sc : forall s, tinv n s -> tinv n (run sc s).
Proof.
  induction sc as [|t sc IH]; intros s H; cbn; auto.
  destruct (step s t) eqn:E; auto. apply IH. eapply tinv_step; eauto.
Qed.

Lemma tinv_init n progs : tinv n (init n progs).
Proof.
  split; auto. apply Forall_forall. intros th H. apply in_map_iff in H as (p & <- & _).
  unfold try_ok; cbn. destruct p; auto.
Qed.

(* thread t has finished the operation in front of rest *)
Definition done_op (t : nat) (rest : list op) (s : state) : Prop :=
  exists th, nth_error (ths s) t = Some th /\ prog th = rest.

Lemma try_never_blocks n progs sc t th o rest :
  let s := run sc (init n progs) in
  nth_error (ths s) t = Some th -> prog th = o :: rest -> is_tryop n o ->
  parked th = false /\
  exists s1, step s t = Some s1 /\
    (done_op t rest s1 \/ exists s2, step s1 t = Some s2 /\ done_op t rest s2).
Proof.
  intros s Et Ep Ho.
  destruct (tinv_run n sc _ (tinv_init n progs)) as [Hc HF]. fold s in Hc, HF.
  pose proof (Forall_nth_error _ _ _ _ HF Et) as H0. unfold try_ok in H0. rewrite Ep in H0.
  destruct (H0 Ho) as [Hpk Hpc]. split; auto.
  unfold step at 1. rewrite Et, Ep, Hpk. eexists; split; [reflexivity|].
  set (e := section (ch s) th t o rest).
  assert (Hself := frame_self s t e th Et).
  destruct Hpc as [Hp|(r & Hp)].
  - (* at the opening Lock: either it fails at once or it still has to Broadcast *)
    assert (e_bcast e = false /\
            (prog (e_th e) = rest \/ (prog (e_th e) = o :: rest /\ parked (e_th e) = false /\
                                     exists r, tpc (e_th e) = PBcast (Some r)))) as (Hb & Hcase).
    { unfold e, section. rewrite Hp.
      destruct o as [v| |v| |]; try contradiction.
      - unfold trysend_sec.
        repeat match goal with |- context [if ?b then _ else _] => destruct b end; cbn; rewrite ?Ep; eauto 8.
      - cbn in Ho. unfold tryrecv_sec. assert ((cap (ch s) =? 0) = false) as -> by (apply Nat.eqb_neq; lia).
        repeat match goal with |- context [if ?b then _ else _] => destruct b end; cbn; rewrite ?Ep; eauto 8. }
    rewrite Hb in Hself. cbn [mu] in Hself.
    destruct Hcase as [Hd|(Hd1 & Hd2 & r & Hd3)].
    + left. exists (e_th e). auto.
    + right. unfold step. rewrite Hself, Hd1, Hd2. eexists; split; [reflexivity|].
      unfold section at 1. rewrite Hd3.
      eexists. split; [eapply frame_self; eauto|]. cbn. destruct (e_bcast _); reflexivity.
  - left. eexists. split; [exact Hself|]. unfold e, section. rewrite Hp. reflexivity.
Qed.

(* ================= part 7 ================= *)

(* ---------- results of the calls vs. the event log ---------- *)
Definition ev_recv (e : option event) : list N :=
  match e with Some (ERecv v) => [v] | _ => [] end.

Lemma received_section c th t o rest :
  received_by (e_th (section c th t o rest)) = received_by th ++ ev_recv (e_ev (section c th t o rest)).
Proof.
  unfold section, received_by, pending_res.
  destruct (tpc th) as [| | |[r|]| |] eqn:Epc, o; cbn;
    unfold send_sec, recv_sec, trysend_sec, tryrecv_sec, recv2_sec, noop;
    repeat match goal with |- context [if ?b then _ else _] => destruct b end;
    cbn; rewrite ?Epc; cbn; rewrite ?flat_map_app; cbn; rewrite ?app_nil_r; auto.
Qed.

Lemma received_same a b : same_ctl a b -> received_by b = received_by a.
Proof. intros (A1 & A2 & A3 & A4). unfold received_by, pending_res. now rewrite A2, A3. Qed.

Definition tie (s : state) : Prop :=
  forall t th, nth_error (ths s) t = Some th -> received_by th = rcvd_of (events_of t (log s)).

Lemma events_of_snoc_other i t x l : i <> t -> events_of i (l ++ [(t, x)]) = events_of i l.
Proof.
  intros N. unfold events_of. rewrite filter_app. cbn.
  destruct (Nat.eqb_spec t i); [congruence|]. now rewrite app_nil_r.
Qed.

Lemma events_of_snoc_self t x l : events_of t (l ++ [(t, x)]) = events_of t l ++ [x].
Proof.
  unfold events_of. rewrite filter_app. cbn. rewrite Nat.eqb_refl. now rewrite map_app.
Qed.

Lemma rcvd_of_snoc l x : rcvd_of (l ++ [x]) = rcvd_of l ++ ev_recv (Some x).
Proof. unfold rcvd_of. rewrite flat_map_app. cbn. destruct x; cbn; now rewrite ?app_nil_r. Qed.

Lemma tie_step s t s' : tie s -> step s t = Some s' -> tie s'.
Proof.
  intros HT H.
  apply step_inv in H as (th & o & rest & Et & Ep & [[Epk ->]|[Epk ->]]).
  - intros i x Hi. cbn [ths log] in *.
    destruct (Nat.eq_dec t i) as [->|N].
    + rewrite nth_error_upd_same in Hi by (eapply nth_error_lt; eauto). injection Hi as <-.
      rewrite <- (HT _ _ Et). apply received_same. repeat split; auto; cbn; discriminate.
    + rewrite nth_error_upd_other in Hi by auto. auto.
  - set (e := section (ch s) th t o rest). intros i x Hi.
    assert (Hlog : log (apply_eff s t e) = match e_ev e with Some ev => log s ++ [(t, ev)] | None => log s end)
      by reflexivity.
    destruct (Nat.eq_dec i t) as [->|N].
    + rewrite (frame_self s t e th Et) in Hi. injection Hi as <-.
      rewrite (received_same _ _ (mu_same _ _)). unfold e at 1. rewrite received_section. fold e.
      rewrite (HT _ _ Et), Hlog. destruct (e_ev e) as [ev|].
      * now rewrite events_of_snoc_self, rcvd_of_snoc.
      * cbn. now rewrite app_nil_r.
    + apply frame_other in Hi as (th0 & E0 & Hs & _); auto.
      rewrite (received_same _ _ Hs), (HT _ _ E0), Hlog.
      destruct (e_ev e); auto. now rewrite events_of_snoc_other.
Qed.

Lemma tie_run sc : forall s, tie s -> tie (run sc s).
Proof.
  induction sc as [|t sc IH]; intros s H; cbn; auto.
  destruct (step s t) eqn:E; auto. apply IH. eapply tie_step; eauto.
Qed.

Lemma tie_init n progs : tie (init n progs).
Proof.
  intros t th H. cbn in H. rewrite nth_error_map in H.
  destruct (nth_error progs t); cbn in H; [|discriminate]. injection H as <-. reflexivity.
Qed.

(* ================= part 8 ================= *)

Lemma spec_closed_needs_close n l : forall a a',
  spec_run n a l = Some a' -> sclosed a = false -> sclosed a' = true -> In EClose l.
Proof.
  induction l as [|e l IH]; intros a a' H Ha Ha'; cbn in H.
  - injection H as <-. congruence.
  - destruct (spec_step n a e) as [a1|] eqn:E; [|discriminate].
    destruct e; try (left; reflexivity); right; apply (IH a1 a'); auto; unfold spec_step in E.
    + destruct (negb (sclosed a) && (length (sq a) <? n)); [|discriminate]. now injection E as <-.
    + destruct (sq a) as [|x q]; [discriminate|]. destruct (N.eqb x v); [|discriminate]. now injection E as <-.
    + destruct (sq a); [|discriminate]. destruct (sclosed a) eqn:Ec; [|discriminate]. congruence.
    + destruct (sclosed a) eqn:Ec; [|discriminate]. congruence.
    + destruct (sclosed a) eqn:Ec; [|discriminate]. congruence.
    + destruct (negb (sclosed a) && (length (sq a) =? n)); [|discriminate]. congruence.
    + destruct (sq a); [|discriminate]. destruct (sclosed a) eqn:Ec; [discriminate|]. congruence.
Qed.

Lemma run_refines n progs sc : 0 < n ->
  spec_run n spec0 (events (run sc (init n progs))) = Some (abs (run sc (init n progs))).
Proof. intros H. apply (inv_run n sc _ (inv_init n progs H)). Qed.

Lemma run_cap n progs sc : 0 < n ->
  len (ch (run sc (init n progs))) <= n /\ length (contents (ch (run sc (init n progs)))) <= n.
Proof.
  intros H. destruct (inv_run n sc _ (inv_init n progs H)) as ((_ & _ & _ & Hl) & Hc & _).
  rewrite contents_length. lia.
Qed.

Lemma run_fifo n progs sc : 0 < n ->
  sent_of (events (run sc (init n progs))) =
  rcvd_of (events (run sc (init n progs))) ++ contents (ch (run sc (init n progs))).
Proof. intros H. apply (spec_fifo n _ spec0 _ (run_refines n progs sc H)). Qed.

Lemma run_recv_closed n progs sc l1 l2 : 0 < n ->
  events (run sc (init n progs)) = l1 ++ ERecvClosed :: l2 ->
  In EClose l1 /\ sent_of l1 = rcvd_of l1.
Proof.
  intros H E. pose proof (run_refines n progs sc H) as R. rewrite E in R.
  apply spec_run_app in R as (a1 & R1 & R2). cbn in R2.
  destruct (sq a1) eqn:Eq; [|discriminate]. destruct (sclosed a1) eqn:Ec; [|discriminate].
  split.
  - eapply spec_closed_needs_close; eauto.
  - pose proof (spec_fifo n _ _ _ R1) as F. rewrite Eq, app_nil_r in F. exact F.
Qed.

Lemma run_after_close n progs sc l1 l2 : 0 < n ->
  events (run sc (init n progs)) = l1 ++ EClose :: l2 -> sent_of l2 = [].
Proof.
  intros H E. pose proof (run_refines n progs sc H) as R. rewrite E in R.
  apply spec_run_app in R as (a1 & R1 & R2). cbn in R2.
  destruct (sclosed a1); [discriminate|].
  eapply spec_closed_stays in R2; [tauto|reflexivity].
Qed.

Lemma run_tie n progs sc t th :
  nth_error (ths (run sc (init n progs))) t = Some th ->
  received_by th = rcvd_of (events_of t (log (run sc (init n progs)))).
Proof. apply (tie_run sc _ (tie_init n progs)). Qed.

(* ---------- witnesses of the defects (replayed on the real code by props/C10/check.py) ---------- *)
Definition w_recv_blocked_after_delivery : nat * list (list op) * schedule :=
  (0%nat, [[ORecv]; [ORecv]; [OSend 7]], [0;0;0;1;2;2;1;0;1;1;0]%nat).
Definition w_recv_delivered_reported_closed : nat * list (list op) * schedule :=
  (0%nat, [[ORecv]; [OSend 7; OClose]], [0;0;0;1;1;1;0;1]%nat).
Definition w_tryrecv_blocks : nat * list (list op) * schedule :=
  (0%nat, [[OSend 7; ORecv]; [OTryRecv]], [0;1;1;0;0;0;0;1;0]%nat).

Definition final (w : nat * list (list op) * schedule) : state :=
  let '(n, progs, sc) := w in run sc (init n progs).

Definition quiescent (s : state) : Prop := forall th, In th (ths s) -> enabled th = false.
Definition all_done (s : state) : Prop := forall th, In th (ths s) -> prog th = [].

Lemma f4_recv_blocked :
  let s := final w_recv_blocked_after_delivery in
  quiescent s /\ In (ESend 7%N) (events s) /\
  (exists th, nth_error (ths s) 0 = Some th /\ prog th = [ORecv] /\ parked th = true /\ slot th = 7%N) /\
  (forall th, In th (ths s) -> ~ In 7%N (received_by th)).
Proof.
  vm_compute. repeat split.
  - intros th [<-|[<-|[<-|[]]]]; reflexivity.
  - auto.
  - eexists; repeat split.
  - intros th [<-|[<-|[<-|[]]]]; cbn; tauto.
Qed.

Lemma f19_recv_reported_closed :
  let s := final w_recv_delivered_reported_closed in
  all_done s /\ In (ESend 7%N) (events s) /\
  (exists th, nth_error (ths s) 0 = Some th /\ out th = [RRecv false 7%N]) /\
  (exists th, nth_error (ths s) 1 = Some th /\ out th = [RSend true; RClose]).
Proof.
  vm_compute. repeat split.
  - intros th [<-|[<-|[]]]; reflexivity.
  - auto.
  - eexists; repeat split.
  - eexists; repeat split.
Qed.

(* ---------- the repaired defects (F5, and the sender parked on a full buffer): one-step facts, any state ---------- *)
Definition finishes_with (s : state) (t : nat) (rest : list op) (r : res) : Prop :=
  exists s' th', step s t = Some s' /\ nth_error (ths s') t = Some th' /\
                 prog th' = rest /\ out th' = (match nth_error (ths s) t with Some th => out th | None => [] end) ++ [r].

(* a send (blocking: at its opening Lock or woken from its Wait; or non-blocking) that
   finds the channel closed panics; any capacity *)
Lemma send_closed_panics s t th v rest :
  nth_error (ths s) t = Some th -> parked th = false -> closed (ch s) = true ->
  (prog th = OSend v :: rest /\ (tpc th = PStart \/ tpc th = PSendW)) \/
  (prog th = OTrySend v :: rest /\ tpc th = PStart) ->
  finishes_with s t rest RPanic.
Proof.
  intros Et Epk Ec H. unfold finishes_with. rewrite Et.
  assert (Hfin : forall e, e_th e = fin th rest RPanic ->
            exists th', nth_error (ths (apply_eff s t e)) t = Some th' /\ prog th' = rest /\ out th' = out th ++ [RPanic]).
  { intros e He. eexists. split; [eapply frame_self; eauto|]. rewrite He. destruct (e_bcast e); cbn; auto. }
  assert (Hsend : forall c, closed c = true -> e_th (send_sec c th rest v) = fin th rest RPanic).
  { intros c Hc. unfold send_sec. rewrite Hc. cbn [negb]. rewrite !andb_false_r. now destruct (cap c =? 0). }
  destruct H as [(Ep & [Hp|Hp])|(Ep & Hp)]; unfold step; rewrite Et, Ep, Epk; unfold section; rewrite Hp.
  - eexists. destruct (Hfin _ (Hsend (ch s) Ec)) as (th' & H1 & H2 & H3). eauto.
  - eexists.
    assert (closed (if cap (ch s) =? 0 then set_sends (ch s) (pred (sends (ch s))) else ch s) = true) as Hc'
      by (destruct (cap (ch s) =? 0); cbn; auto).
    destruct (Hfin _ (Hsend _ Hc')) as (th' & H1 & H2 & H3). eauto.
  - eexists.
    assert (e_th (trysend_sec (ch s) th rest v) = fin th rest RPanic) as He
      by (unfold trysend_sec; now rewrite Ec).
    destruct (Hfin _ He) as (th' & H1 & H2 & H3). eauto.
Qed.

Lemma close_closed_panics s t th rest :
  nth_error (ths s) t = Some th -> parked th = false -> closed (ch s) = true ->
  prog th = OClose :: rest -> tpc th = PStart ->
  finishes_with s t rest RPanic.
Proof.
  intros Et Epk Ec Ep Hp. unfold finishes_with. rewrite Et.
  unfold step; rewrite Et, Ep, Epk; unfold section; rewrite Hp, Ec.
  eexists; eexists; split; [reflexivity|]; split; [eapply frame_self; eauto|]; cbn; auto.
Qed.

Lemma tryrecv_blocks :
  let s := final w_tryrecv_blocks in
  quiescent s /\
  (exists th, nth_error (ths s) 1 = Some th /\ prog th = [OTryRecv] /\ parked th = true /\ slot th = 7%N) /\
  (exists th, nth_error (ths s) 0 = Some th /\ out th = [RSend true]).
Proof.
  vm_compute. repeat split.
  - intros th [<-|[<-|[]]]; reflexivity.
  - eexists; repeat split.
  - eexists; repeat split.
Qed.
