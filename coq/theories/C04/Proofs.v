From LLGoV Require Import C04.Model.
From Coq Require Import Lia.
Local Open Scope nat_scope.

(* ------------------------------------------------------------------ *)
(* the loopDrainerGenerated flag is semantically irrelevant: draining   *)
(* twice in a row pops nothing the second time                          *)
(* ------------------------------------------------------------------ *)

Fixpoint take_loop (sh : shape) (st : list (nat * N)) : list (nat * N) :=
  match st with
  | [] => []
  | nd :: st' => if is_loop sh (fst nd) then nd :: take_loop sh st' else []
  end.
Fixpoint drop_loop (sh : shape) (st : list (nat * N)) : list (nat * N) :=
  match st with
  | [] => []
  | nd :: st' => if is_loop sh (fst nd) then drop_loop sh st' else st
  end.

Definition own (nd : nat * N) : call := (fst nd, Some nd).

Lemma drain_spec sh st : drain sh st = (map own (take_loop sh st), drop_loop sh st).
Proof.
  induction st as [|nd st IH]; cbn [drain take_loop drop_loop map]; [reflexivity|].
  destruct (is_loop sh (fst nd)); [|reflexivity]. rewrite IH. reflexivity.
Qed.

Lemma take_drop sh st : st = take_loop sh st ++ drop_loop sh st.
Proof.
  induction st as [|nd st IH]; cbn; [reflexivity|].
  destruct (is_loop sh (fst nd)); cbn; [now rewrite <- IH | reflexivity].
Qed.

Lemma take_loop_all sh st : Forall (fun nd => is_loop sh (fst nd) = true) (take_loop sh st).
Proof.
  induction st as [|nd st IH]; cbn; [constructor|].
  destruct (is_loop sh (fst nd)) eqn:E; constructor; auto.
Qed.

Lemma drop_loop_head sh st :
  match drop_loop sh st with [] => True | d :: _ => is_loop sh (fst d) = false end.
Proof.
  induction st as [|nd st IH]; cbn; [exact I|].
  destruct (is_loop sh (fst nd)) eqn:E; [exact IH | exact E].
Qed.

Lemma drop_loop_idem sh st : take_loop sh (drop_loop sh st) = [].
Proof.
  pose proof (drop_loop_head sh st) as H. destruct (drop_loop sh st) as [|d r]; [reflexivity|].
  cbn. now rewrite H.
Qed.

(* replay that drains at every loop statement *)
Fixpoint replay_s (sh : shape) (todo : list (nat * stmt)) (bs : list nat) (st : list (nat * N)) : list call :=
  match todo with
  | [] => []
  | (i, s) :: rest =>
    match sk s with
    | Always => let '(cs, st') := call_defer i s st in cs ++ replay_s sh rest bs st'
    | Cond => if existsb (Nat.eqb i) bs
              then let '(cs, st') := call_defer i s st in cs ++ replay_s sh rest bs st'
              else replay_s sh rest bs st
    | InLoop => let '(cs, st') := drain sh st in cs ++ replay_s sh rest bs st'
    end
  end.

Lemma replay_go_s sh todo : forall bs st,
  replay_go sh todo bs st false = replay_s sh todo bs st
  /\ (take_loop sh st = [] -> replay_go sh todo bs st true = replay_s sh todo bs st).
Proof.
  induction todo as [|[i s] rest IH]; intros bs st; [split; reflexivity|].
  cbn [replay_go replay_s]. destruct (sk s).
  - destruct (call_defer i s st) as [cs st']. split; intros; now rewrite (proj1 (IH bs st')).
  - destruct (existsb (Nat.eqb i) bs).
    + destruct (call_defer i s st) as [cs st']. split; intros; now rewrite (proj1 (IH bs st')).
    + split; intros; now rewrite (proj1 (IH bs st)).
  - rewrite drain_spec. split.
    + rewrite (proj2 (IH bs (drop_loop sh st))); [reflexivity | apply drop_loop_idem].
    + intros E. rewrite E. cbn [map app].
      rewrite (proj2 (IH bs st) E).
      assert (D : drop_loop sh st = st).
      { transitivity (take_loop sh st ++ drop_loop sh st); [now rewrite E | symmetry; apply take_drop]. }
      now rewrite D.
Qed.

(* ------------------------------------------------------------------ *)
(* consistency of a run with the compile order                          *)
(* ------------------------------------------------------------------ *)

(* a may be executed before b: its statement comes earlier in compile order,
   or both lie in one contiguous run of loop statements *)
Definition le_g (sh : shape) (a b : nat) : Prop :=
  a <= b \/ (b < a /\ forall k, b <= k <= a -> is_loop sh k = true).

Record consistent (sh : shape) (tr : list reg) : Prop := {
  c_valid : forall r, In r tr -> fst r < length sh;
  c_once : forall l1 a l2 b l3, tr = l1 ++ a :: l2 ++ b :: l3 -> fst a = fst b -> is_loop sh (fst a) = true;
  c_order : forall l1 a l2 b l3, tr = l1 ++ a :: l2 ++ b :: l3 -> le_g sh (fst a) (fst b);
  c_always : forall i s, nth_error sh i = Some s -> sk s = Always -> exists p, In (i, p) tr;
  c_nodes : (exists i, is_loop sh i = true) ->
            forall r s, In r tr -> nth_error sh (fst r) = Some s -> has_node s = true
}.

Definition node_of (sh : shape) (r : reg) : bool :=
  match nth_error sh (fst r) with Some s => has_node s | None => false end.

(* the stack after a run: executed statements with a node, most recent first *)
Lemma run_regs_stack sh tr : forall f,
  stack (fold_left (exec_reg sh) tr f) = filter (node_of sh) (rev tr) ++ stack f.
Proof.
  induction tr as [|r tr IH]; intros f; [reflexivity|].
  cbn [fold_left]. rewrite IH. cbn [rev]. rewrite filter_app. cbn [filter].
  unfold exec_reg, node_of. destruct (nth_error sh (fst r)) as [s|]; cbn [stack].
  - destruct (has_node s); cbn [app]; rewrite <- app_assoc; cbn; [destruct r|]; reflexivity.
  - now rewrite app_nil_r.
Qed.

Lemma run_regs_bits sh tr : forall f i,
  existsb (Nat.eqb i) (bits (fold_left (exec_reg sh) tr f)) = true <->
  (existsb (Nat.eqb i) (bits f) = true \/
   exists p s, In (i, p) tr /\ nth_error sh i = Some s /\ sk s = Cond).
Proof.
  induction tr as [|r tr IH]; intros f i.
  - cbn. split; [auto|]. intros [H|(p & s & [] & _)]. exact H.
  - cbn [fold_left]. rewrite IH. unfold exec_reg.
    destruct (nth_error sh (fst r)) as [s|] eqn:E.
    + cbn [bits]. destruct (sk s) eqn:K.
      * split.
        -- intros [H|(p & s' & Hin & Hn & Hk)]; [now left|]. right. exists p, s'. cbn. auto.
        -- intros [H|(p & s' & [Hin|Hin] & Hn & Hk)]; [now left| |right; exists p, s'; auto].
           subst r. cbn in E. congruence.
      * split.
        -- intros [H|(p & s' & Hin & Hn & Hk)].
           ++ cbn in H. apply Bool.orb_true_iff in H as [H|H]; [|now left].
              apply Nat.eqb_eq in H. subst i. right. exists (snd r), s. cbn.
              split; [left; now destruct r|]. auto.
           ++ right. exists p, s'. cbn. auto.
        -- intros [H|(p & s' & [Hin|Hin] & Hn & Hk)].
           ++ left. cbn. rewrite H. apply Bool.orb_true_r.
           ++ subst r. left. cbn. now rewrite Nat.eqb_refl.
           ++ right. exists p, s'. auto.
      * split.
        -- intros [H|(p & s' & Hin & Hn & Hk)]; [now left|]. right. exists p, s'. cbn. auto.
        -- intros [H|(p & s' & [Hin|Hin] & Hn & Hk)]; [now left| |right; exists p, s'; auto].
           subst r. cbn in E. congruence.
    + split.
      * intros [H|(p & s' & Hin & Hn & Hk)]; [now left|]. right. exists p, s'. cbn. auto.
      * intros [H|(p & s' & [Hin|Hin] & Hn & Hk)]; [now left| |right; exists p, s'; auto].
        subst r. cbn in E. congruence.
Qed.

(* the todo list, unfolded one statement at a time *)
Lemma indexed_app {A} (l1 l2 : list A) : forall n,
  indexed n (l1 ++ l2) = indexed n l1 ++ indexed (n + length l1) l2.
Proof.
  induction l1 as [|x l1 IH]; intros n; cbn; [now rewrite Nat.add_0_r|].
  rewrite IH. replace (n + S (length l1)) with (S n + length l1) by lia. reflexivity.
Qed.

Lemma todo_step (sh : shape) (k : nat) (s : stmt) :
  nth_error sh k = Some s ->
  rev (indexed 0 (firstn (S k) sh)) = (k, s) :: rev (indexed 0 (firstn k sh)).
Proof.
  intros H.
  assert (E : firstn (S k) sh = firstn k sh ++ [s]).
  { revert k H. induction sh as [|x sh IH]; intros [|k] H; cbn in *; try discriminate.
    - now inversion H.
    - now rewrite (IH k H). }
  rewrite E, indexed_app, rev_app_distr. cbn.
  assert (L : length (firstn k sh) = k).
  { apply firstn_length_le. assert (k < length sh) by (apply nth_error_Some; congruence). lia. }
  now rewrite L.
Qed.

(* ------------------------------------------------------------------ *)
(* main lemma: replaying the remaining statements on the remaining      *)
(* stack yields Go's order for the remaining executed statements        *)
(* ------------------------------------------------------------------ *)

Section Main.
Variable sh : shape.
Variable tr : list reg.
Hypothesis C : consistent sh tr.

Lemma rev_split m1 d m2 r m3 :
  rev tr = m1 ++ d :: m2 ++ r :: m3 -> tr = rev m3 ++ r :: rev m2 ++ d :: rev m1.
Proof.
  intros E. rewrite <- (rev_involutive tr), E.
  rewrite rev_app_distr. cbn [rev]. rewrite rev_app_distr. cbn [rev].
  repeat rewrite <- app_assoc. cbn [app]. reflexivity.
Qed.

Lemma rev_order m1 d m2 r m3 :
  rev tr = m1 ++ d :: m2 ++ r :: m3 -> le_g sh (fst r) (fst d).
Proof. intros E. apply (c_order sh tr C (rev m3) r (rev m2) d (rev m1)). now apply rev_split. Qed.

Lemma rev_once m1 d m2 r m3 :
  rev tr = m1 ++ d :: m2 ++ r :: m3 -> fst r = fst d -> is_loop sh (fst r) = true.
Proof. intros E. apply (c_once sh tr C (rev m3) r (rev m2) d (rev m1)). now apply rev_split. Qed.

Definition suffix_inv (k : nat) (st : list reg) : Prop :=
  exists post, rev tr = post ++ st
  /\ (forall r, In r st -> fst r < k)
  /\ (forall r, In r post -> fst r < k -> is_loop sh (fst r) = true).

Lemma is_loop_kind i s : nth_error sh i = Some s -> is_loop sh i = kind_eqb (sk s) InLoop.
Proof. intros H. unfold is_loop. now rewrite H. Qed.

(* a non-loop executed statement k whose registration is still pending sits on
   top of the pending list *)
Lemma pending_top k s p post st :
  nth_error sh k = Some s -> kind_eqb (sk s) InLoop = false ->
  rev tr = post ++ st -> (forall r, In r st -> fst r < S k) ->
  In (k, p) st -> exists l2, st = (k, p) :: l2 /\ (forall r, In r l2 -> fst r < k).
Proof.
  intros Hn Hk E Hlt Hin.
  assert (NL : is_loop sh k = false) by (now rewrite (is_loop_kind k s Hn)).
  apply in_split in Hin as (l1 & l2 & ->).
  destruct l1 as [|d l1].
  - exists l2. split; [reflexivity|]. intros r Hr.
    assert (fst r < S k) by (apply Hlt; right; exact Hr).
    destruct (Nat.eq_dec (fst r) k) as [Eq|]; [|lia].
    apply in_split in Hr as (a & b & ->).
    assert (L : is_loop sh (fst r) = true).
    { apply (rev_once post (k, p) a r b); [|exact Eq]. rewrite E. cbn. reflexivity. }
    rewrite Eq in L. congruence.
  - exfalso.
    assert (Hd : fst d < S k) by (apply Hlt; left; reflexivity).
    assert (O : le_g sh (fst (k, p)) (fst d)).
    { apply (rev_order post d l1 (k, p) l2). rewrite E. cbn. reflexivity. }
    cbn [fst] in O. destruct O as [O|[O1 O2]].
    + assert (Eq : fst d = k) by lia.
      assert (L : is_loop sh (fst (k, p)) = true).
      { apply (rev_once post d l1 (k, p) l2); [|cbn; lia]. rewrite E. cbn. reflexivity. }
      cbn in L. congruence.
    + rewrite (O2 k) in NL by lia. discriminate.
Qed.

Lemma in_rev_tr r st post : rev tr = post ++ st -> In r st -> In r tr.
Proof. intros E H. apply in_rev. rewrite E. apply in_or_app. now right. Qed.

Lemma spec_call_node r s : nth_error sh (fst r) = Some s -> has_node s = true -> spec_call sh r = own r.
Proof. intros H1 H2. unfold spec_call, own. now rewrite H1, H2. Qed.

Lemma replay_suffix : forall k st, k <= length sh -> suffix_inv k st ->
  replay_s sh (rev (indexed 0 (firstn k sh))) (bits (run_regs sh tr)) (filter (node_of sh) st)
  = map (spec_call sh) st.
Proof.
  induction k as [|k IH]; intros st Hk (post & E & Hlt & Hpost).
  - destruct st as [|r st]; [reflexivity|]. exfalso. specialize (Hlt r (or_introl eq_refl)). lia.
  - destruct (nth_error sh k) as [s|] eqn:Hn; [|apply nth_error_None in Hn; lia].
    rewrite (todo_step sh k s Hn). cbn [replay_s].
    (* common treatment of an executed non-loop statement *)
    assert (EXEC : forall p, kind_eqb (sk s) InLoop = false -> In (k, p) tr ->
              (let '(cs, st') := call_defer k s (filter (node_of sh) st) in
               cs ++ replay_s sh (rev (indexed 0 (firstn k sh))) (bits (run_regs sh tr)) st')
              = map (spec_call sh) st).
    { intros p NK Hin.
      assert (NL : is_loop sh k = false) by (now rewrite (is_loop_kind k s Hn)).
      assert (Hst : In (k, p) st).
      { assert (Hin' : In (k, p) (rev tr)) by (apply in_rev; rewrite rev_involutive; exact Hin).
        rewrite E in Hin'. apply in_app_or in Hin' as [Hin'|Hin']; [|exact Hin'].
        specialize (Hpost _ Hin'). cbn in Hpost. rewrite Hpost in NL by lia. discriminate. }
      destruct (pending_top k s p post st Hn NK E Hlt Hst) as (l2 & -> & Hl2).
      cbn [filter map]. unfold node_of at 1. cbn [fst]. rewrite Hn.
      unfold call_defer. unfold spec_call at 1. cbn [fst]. rewrite Hn.
      destruct (has_node s) eqn:HN; cbn [app].
      - f_equal. apply IH; [lia|]. exists (post ++ [(k, p)]). repeat split.
        + rewrite E, <- app_assoc. reflexivity.
        + exact Hl2.
        + intros r Hr Hr2. apply in_app_or in Hr as [Hr|[<-|[]]]; [apply Hpost; [exact Hr|lia]|cbn in Hr2; lia].
      - f_equal. apply IH; [lia|]. exists (post ++ [(k, p)]). repeat split.
        + rewrite E, <- app_assoc. reflexivity.
        + exact Hl2.
        + intros r Hr Hr2. apply in_app_or in Hr as [Hr|[<-|[]]]; [apply Hpost; [exact Hr|lia]|cbn in Hr2; lia]. }
    destruct (sk s) eqn:K.
    + (* Always *)
      destruct (c_always sh tr C k s Hn K) as [p Hp]. apply (EXEC p); [reflexivity|exact Hp].
    + (* Cond *)
      destruct (existsb (Nat.eqb k) (bits (run_regs sh tr))) eqn:B.
      * apply (run_regs_bits sh tr frame0 k) in B. destruct B as [B|(p & s' & Hp & _)]; [discriminate B|].
        apply (EXEC p); [reflexivity|exact Hp].
      * apply IH; [lia|]. exists post. repeat split; [exact E| |intros r Hr Hr2; apply Hpost; [exact Hr|lia]].
        intros r Hr. assert (fst r < S k) by (now apply Hlt).
        destruct (Nat.eq_dec (fst r) k) as [Eq|]; [|lia]. exfalso.
        assert (T : existsb (Nat.eqb k) (bits (run_regs sh tr)) = true).
        { apply (run_regs_bits sh tr frame0 k). right. exists (snd r), s. repeat split; [|exact Hn|exact K].
          rewrite <- Eq. destruct r. cbn. apply (in_rev_tr _ st post E Hr). }
        congruence.
    + (* InLoop *)
      assert (LK : is_loop sh k = true) by (rewrite (is_loop_kind k s Hn), K; reflexivity).
      assert (ALLN : forall l, (forall r, In r l -> In r tr) -> filter (node_of sh) l = l).
      { induction l as [|r l IHl]; intros Hl; [reflexivity|]. cbn [filter].
        assert (Hr : In r tr) by (apply Hl; left; reflexivity).
        pose proof (c_valid sh tr C r Hr) as V. apply nth_error_Some in V.
        destruct (nth_error sh (fst r)) as [s'|] eqn:Hs; [|congruence].
        unfold node_of at 1. rewrite Hs.
        rewrite (c_nodes sh tr C (ex_intro _ k LK) r s' Hr Hs).
        f_equal. apply IHl. intros r' Hr'. apply Hl. now right. }
      rewrite (ALLN st) by (intros r Hr; apply (in_rev_tr r st post E Hr)).
      rewrite drain_spec.
      rewrite (take_drop sh st) at 3. rewrite map_app. f_equal.
      * (* the drained calls are Go's calls for those registrations *)
        assert (SUB : forall r, In r (take_loop sh st) -> In r tr).
        { intros r Hr. apply (in_rev_tr r st post E). rewrite (take_drop sh st). apply in_or_app. now left. }
        induction (take_loop sh st) as [|r l IHl]; [reflexivity|]. cbn [map].
        assert (Hr : In r tr) by (apply SUB; left; reflexivity).
        pose proof (c_valid sh tr C r Hr) as V. apply nth_error_Some in V.
        destruct (nth_error sh (fst r)) as [s'|] eqn:Hs; [|congruence].
        rewrite (spec_call_node r s' Hs (c_nodes sh tr C (ex_intro _ k LK) r s' Hr Hs)).
        f_equal. apply IHl. intros r' Hr'. apply SUB. now right.
      * rewrite <- (ALLN (drop_loop sh st)) at 1.
        2:{ intros r Hr. apply (in_rev_tr r st post E). rewrite (take_drop sh st). apply in_or_app. now right. }
        apply IH; [lia|]. exists (post ++ take_loop sh st). repeat split.
        -- rewrite E, <- app_assoc, <- take_drop. reflexivity.
        -- intros r Hr.
           assert (Hr' : In r st) by (rewrite (take_drop sh st); apply in_or_app; now right).
           assert (fst r < S k) by (now apply Hlt).
           destruct (Nat.eq_dec (fst r) k) as [Eq|]; [|lia]. exfalso.
           pose proof (drop_loop_head sh st) as HD.
           destruct (drop_loop sh st) as [|d rest] eqn:DL; [destruct Hr|].
           destruct Hr as [<-|Hr]; [rewrite Eq in HD; congruence|].
           apply in_split in Hr as (a & b & ->).
           assert (Hd : fst d < S k).
           { apply Hlt. rewrite (take_drop sh st), DL. apply in_or_app. right. now left. }
           assert (O : le_g sh (fst r) (fst d)).
           { apply (rev_order (post ++ take_loop sh st) d a r b).
             rewrite E, (take_drop sh st) at 1. rewrite DL, <- app_assoc. reflexivity. }
           rewrite Eq in O. destruct O as [O|[O1 O2]].
           ++ assert (fst d = k) by lia. congruence.
           ++ rewrite (O2 (fst d)) in HD by lia. discriminate.
        -- intros r Hr Hr2. apply in_app_or in Hr as [Hr|Hr]; [apply Hpost; [exact Hr|lia]|].
           pose proof (take_loop_all sh st) as TA. rewrite Forall_forall in TA. now apply TA.
Qed.

Theorem machine_eq_spec : machine sh tr = spec sh tr.
Proof.
  unfold machine, replay, spec.
  rewrite (proj1 (replay_go_s sh _ _ _)).
  unfold run_regs at 2. rewrite run_regs_stack. cbn [stack frame0]. rewrite app_nil_r.
  rewrite <- (firstn_all sh) at 2.
  apply replay_suffix; [lia|]. exists []. repeat split.
  - intros r Hr. apply (c_valid sh tr C). now apply in_rev.
  - intros r [].
Qed.

End Main.

(* ------------------------------------------------------------------ *)
(* what goes wrong without each premise: concrete witnesses             *)
(* ------------------------------------------------------------------ *)

Definition S_ (k : kind) (n : bool) : stmt := {| sk := k; snode := n |}.

(* F3: an Always statement that was never reached is replayed anyway *)
Lemma always_unreached_refuted :
  machine [S_ Always false; S_ Always false] [(0, 1%N)] <> spec [S_ Always false; S_ Always false] [(0, 1%N)]
  /\ machine [S_ Always true; S_ Always true] [(0, 5%N)] <> spec [S_ Always true; S_ Always true] [(0, 5%N)].
Proof. split; vm_compute; congruence. Qed.

(* F18: a statement compiled earlier but executed later (exit block placed
   before the loop body by the block order) *)
Lemma compile_order_refuted :
  machine [S_ Cond true; S_ InLoop true] [(1, 10%N); (1, 11%N); (0, 7%N)]
  <> spec [S_ Cond true; S_ InLoop true] [(1, 10%N); (1, 11%N); (0, 7%N)].
Proof. vm_compute. congruence. Qed.

(* an argless conditional defer between two loops: the drain of the later loop
   statement (even when it never executed) takes the earlier loop's nodes *)
Lemma drain_crosses_argless_refuted :
  machine [S_ InLoop true; S_ Cond false; S_ InLoop true] [(0, 100%N); (1, 0%N)]
  <> spec [S_ InLoop true; S_ Cond false; S_ InLoop true] [(0, 100%N); (1, 0%N)].
Proof. vm_compute. congruence. Qed.

(* the premises are satisfiable by a run with an unconditional, a loop and a
   conditional defer *)
Lemma consistent_example :
  consistent [S_ Always true; S_ InLoop true; S_ Cond true] [(0, 1%N); (1, 5%N); (1, 6%N); (2, 9%N)].
Proof.
  constructor.
  - intros r H. cbn in H. cbn. repeat (destruct H as [<-|H]; [cbn; lia|]). destruct H.
  - intros l1 a l2 b l3 E Hab.
    destruct l1 as [|x1 l1]; cbn in E; inversion E; subst; clear E;
      repeat match goal with
      | H : _ :: _ = ?l ++ _ :: _ |- _ => destruct l; cbn in H; inversion H; subst; clear H
      | H : [] = ?l ++ _ :: _ |- _ => destruct l; discriminate H
      end; cbn in *; try reflexivity; try discriminate; try lia.
  - intros l1 a l2 b l3 E.
    destruct l1 as [|x1 l1]; cbn in E; inversion E; subst; clear E;
      repeat match goal with
      | H : _ :: _ = ?l ++ _ :: _ |- _ => destruct l; cbn in H; inversion H; subst; clear H
      | H : [] = ?l ++ _ :: _ |- _ => destruct l; discriminate H
      end; cbn; left; lia.
  - intros i s Hn Hk. destruct i as [|[|[|i]]]; cbn in Hn; inversion Hn; subst; cbn in Hk; try discriminate.
    + exists 1%N. now left.
    + destruct i; discriminate.
  - intros _ r s H Hn. cbn in H.
    repeat (destruct H as [<-|H]; [cbn in Hn; inversion Hn; reflexivity|]). destruct H.
Qed.

(* ------------------------------------------------------------------ *)
(* the shape the compiler actually uses (later Always statements guarded) *)
(* ------------------------------------------------------------------ *)

Lemma has_node_guard t : has_node (guard_stmt t) = has_node t.
Proof. unfold guard_stmt, has_node. destruct (sk t) eqn:E; cbn; rewrite ?E; reflexivity. Qed.

Lemma nth_effective sh i :
  nth_error (effective sh) i = option_map (fun t => match i with 0 => t | _ => guard_stmt t end) (nth_error sh i).
Proof.
  destruct sh as [|s r]; [destruct i; reflexivity|]. destruct i as [|i]; [reflexivity|].
  cbn. rewrite nth_error_map. destruct (nth_error r i); reflexivity.
Qed.

Lemma spec_effective sh tr : spec (effective sh) tr = spec sh tr.
Proof.
  unfold spec. apply map_ext. intros r. unfold spec_call. rewrite nth_effective.
  destruct (nth_error sh (fst r)) as [t|]; cbn [option_map]; [|reflexivity].
  destruct (fst r); [reflexivity|]. now rewrite has_node_guard.
Qed.

Theorem machine_eff_eq_spec sh tr : consistent (effective sh) tr -> machine_eff sh tr = spec sh tr.
Proof. intros C. unfold machine_eff. rewrite (machine_eq_spec _ _ C). apply spec_effective. Qed.

(* in the effective shape only statement 0 can be unconditional, so the
   "always executed" premise concerns the frame-creating statement alone *)
Lemma effective_always_only_first sh i s :
  nth_error (effective sh) i = Some s -> sk s = Always -> i = 0.
Proof.
  rewrite nth_effective. destruct (nth_error sh i) as [t|]; cbn; [|discriminate].
  destruct i; [reflexivity|]. intros E K. inversion E; subst. unfold guard_stmt in K.
  destruct (sk t) eqn:E2; cbn in K; congruence.
Qed.

(* F3 is gone in the effective shape: the run in which the second unconditional
   defer was never reached is handled as Go prescribes *)
Lemma always_unreached_fixed :
  machine_eff [S_ Always false; S_ Always false] [(0, 1%N)] = spec [S_ Always false; S_ Always false] [(0, 1%N)]
  /\ machine_eff [S_ Always true; S_ Always true] [(0, 5%N)] = spec [S_ Always true; S_ Always true] [(0, 5%N)].
Proof. split; reflexivity. Qed.

(* recover / re-panic outcomes follow from the call sequence *)
Lemma outcome_matches sh kinds tr cur :
  consistent (effective sh) tr -> machine_outcome sh kinds tr cur = spec_outcome sh kinds tr cur.
Proof. intros C. unfold machine_outcome, spec_outcome. now rewrite (machine_eff_eq_spec sh tr C). Qed.

(* after a recover no panic is in flight unless a later deferred call panics *)
Lemma outcome_recover_last kinds cs cur i :
  nth i kinds DPlain = DRecover ->
  (forall c, In c cs -> nth (fst c) kinds DPlain = DPlain) ->
  forall p, snd (outcome kinds ((i, p) :: cs) cur) = false.
Proof.
  intros Hi Hcs p. cbn [outcome fst]. rewrite Hi.
  assert (G : forall b, outcome kinds cs b = ([], b)).
  { induction cs as [|c r IH]; intros b; [reflexivity|]. cbn [outcome].
    rewrite (Hcs c (or_introl eq_refl)). apply IH. intros c' Hc'. apply Hcs. now right. }
  now rewrite G.
Qed.

(* frame creation point: when no frame exists no defer statement has run *)
Theorem machine_frame_eq_spec sh tr :
  (frame_created sh tr = true -> consistent (effective sh) tr) ->
  (frame_created sh tr = false -> tr = []) ->
  machine_frame sh tr = spec sh tr.
Proof.
  intros Hc Hn. unfold machine_frame.
  destruct (frame_created sh tr) eqn:E.
  - apply machine_eff_eq_spec. apply Hc. reflexivity.
  - rewrite (Hn eq_refl). reflexivity.
Qed.

Theorem machine_frame_outcome_eq_spec sh kinds tr cur :
  (frame_created sh tr = true -> consistent (effective sh) tr) ->
  (frame_created sh tr = false -> tr = []) ->
  machine_frame_outcome sh kinds tr cur = spec_outcome sh kinds tr cur.
Proof.
  intros Hc Hn. unfold machine_frame_outcome, spec_outcome.
  now rewrite (machine_frame_eq_spec sh tr Hc Hn).
Qed.
