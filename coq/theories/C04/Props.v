(* C04 - property theorems only. *)
From LLGoV Require Import C04.Model C04.Proofs.

(* Deferred calls run exactly once each, in last-in-first-out order and with
   the arguments evaluated at the defer statement: for EVERY shape (any mix of
   unconditional, conditional and loop defer statements, with or without
   arguments) and EVERY run consistent with the compile order, the frame machine
   that ssa/eh.go builds makes exactly the calls Go prescribes.  The premises
   of [consistent] are what cl/blocks must guarantee; each one is necessary
   (refutations below), and the unchanged tree violates three of them on
   reachable programs (known findings). *)
Theorem defers_lifo_exactly_once : forall sh tr,
  consistent sh tr -> machine sh tr = spec sh tr.
Proof. exact machine_eq_spec. Qed.
Print Assumptions defers_lifo_exactly_once.

Theorem premises_satisfiable :
  consistent [S_ Always true; S_ InLoop true; S_ Cond true] [(0, 1%N); (1, 5%N); (1, 6%N); (2, 9%N)]%nat.
Proof. exact consistent_example. Qed.
Print Assumptions premises_satisfiable.

(* the loopDrainerGenerated bookkeeping never changes the calls made *)
Theorem drain_flag_irrelevant : forall sh todo bs st,
  replay_go sh todo bs st false = replay_s sh todo bs st.
Proof. intros. apply (proj1 (replay_go_s sh todo bs st)). Qed.
Print Assumptions drain_flag_irrelevant.

(* the same for the shape the compiler really uses since the repair of finding
   F3 (every unconditional defer statement after the frame-creating one is
   guarded by a bit): the only unconditional statement left is statement 0 *)
Theorem defers_lifo_exactly_once_effective : forall sh tr,
  consistent (effective sh) tr -> machine_eff sh tr = spec sh tr.
Proof. exact machine_eff_eq_spec. Qed.
Print Assumptions defers_lifo_exactly_once_effective.

Theorem effective_unconditional_only_first : forall sh i s,
  nth_error (effective sh) i = Some s -> sk s = Always -> i = 0%nat.
Proof. exact effective_always_only_first. Qed.
Print Assumptions effective_unconditional_only_first.

Theorem always_defer_repaired :
  machine_eff [S_ Always false; S_ Always false] [(0, 1%N)]%nat = spec [S_ Always false; S_ Always false] [(0, 1%N)]%nat
  /\ machine_eff [S_ Always true; S_ Always true] [(0, 5%N)]%nat = spec [S_ Always true; S_ Always true] [(0, 5%N)]%nat.
Proof. exact always_unreached_fixed. Qed.
Print Assumptions always_defer_repaired.

(* F3 (before the repair): an unconditional ("always") defer statement that was never reached is
   replayed anyway, and with arguments it consumes a foreign node *)
Theorem always_defer_refuted :
  machine [S_ Always false; S_ Always false] [(0, 1%N)]%nat <> spec [S_ Always false; S_ Always false] [(0, 1%N)]%nat
  /\ machine [S_ Always true; S_ Always true] [(0, 5%N)]%nat <> spec [S_ Always true; S_ Always true] [(0, 5%N)]%nat.
Proof. exact always_unreached_refuted. Qed.
Print Assumptions always_defer_refuted.

(* F18: replay follows block compile order, not execution order *)
Theorem lifo_compile_order_refuted :
  machine [S_ Cond true; S_ InLoop true] [(1, 10%N); (1, 11%N); (0, 7%N)]%nat
  <> spec [S_ Cond true; S_ InLoop true] [(1, 10%N); (1, 11%N); (0, 7%N)]%nat.
Proof. exact compile_order_refuted. Qed.
Print Assumptions lifo_compile_order_refuted.

(* new finding: an argument-less conditional defer between two loop statements *)
Theorem loop_drain_crosses_argless_refuted :
  machine [S_ InLoop true; S_ Cond false; S_ InLoop true] [(0, 100%N); (1, 0%N)]%nat
  <> spec [S_ InLoop true; S_ Cond false; S_ InLoop true] [(0, 100%N); (1, 0%N)]%nat.
Proof. exact drain_crosses_argless_refuted. Qed.
Print Assumptions loop_drain_crosses_argless_refuted.

(* recover and re-panic: what each recover() reports and whether the function
   ends panicking are those of Go, for every shape, every consistent run and
   every assignment of behaviours (plain / recovers / panics again) to the
   deferred functions *)
Theorem recover_repanic_outcome_matches_go : forall sh kinds tr cur,
  consistent (effective sh) tr -> machine_outcome sh kinds tr cur = spec_outcome sh kinds tr cur.
Proof. exact outcome_matches. Qed.
Print Assumptions recover_repanic_outcome_matches_go.

(* a directly called recover() as the last non-plain deferred call lets the
   function return normally *)
Theorem recover_stops_the_panic : forall kinds cs cur i,
  nth i kinds DPlain = DRecover ->
  (forall c, In c cs -> nth (fst c) kinds DPlain = DPlain) ->
  forall p, snd (outcome kinds ((i, p) :: cs) cur) = false.
Proof. exact outcome_recover_last. Qed.
Print Assumptions recover_stops_the_panic.

(* The frame is created where an unconditional first defer statement stands
   (at function entry otherwise): with that taken into account the machine makes
   Go's calls, and leaves Go's panic state, also for runs that panic before the
   first defer statement - no frame, no deferred call. *)
Theorem defers_lifo_exactly_once_with_frame_creation : forall sh tr,
  (frame_created sh tr = true -> consistent (effective sh) tr) ->
  (frame_created sh tr = false -> tr = []) ->
  machine_frame sh tr = spec sh tr.
Proof. exact machine_frame_eq_spec. Qed.
Print Assumptions defers_lifo_exactly_once_with_frame_creation.

Theorem outcome_with_frame_creation : forall sh kinds tr cur,
  (frame_created sh tr = true -> consistent (effective sh) tr) ->
  (frame_created sh tr = false -> tr = []) ->
  machine_frame_outcome sh kinds tr cur = spec_outcome sh kinds tr cur.
Proof. exact machine_frame_outcome_eq_spec. Qed.
Print Assumptions outcome_with_frame_creation.

Example frame_creation_nontrivial :
  frame_created [S_ Always false] [] = false /\ machine_frame [S_ Always false] [] = []
  /\ machine_eff [S_ Always false] [] <> [].
Proof. repeat split; try reflexivity. cbv. discriminate. Qed.
