(* C04 - the per-function defer frame as ssa/eh.go builds it, and Go's rule.

   A function's defer statements are listed in COMPILE order (the order in which
   cl visits blocks, given by cl/blocks.Infos); statement i has a kind and may
   carry a node (arguments or closure; loop statements always do).  At run time
   executing statement i sets its bit (Cond) and pushes a node (id, payload).
   When the function returns or panics, endDefer's code replays the statements
   from the last to the first. *)
From LLGoV Require Export Lib.Common.
Local Open Scope N_scope.

Inductive kind := Always | Cond | InLoop.
Record stmt := { sk : kind; snode : bool }.        (* snode = false: no args, not a closure *)
Definition has_node (s : stmt) : bool :=
  match sk s with InLoop => true | _ => snode s end.

Definition shape := list stmt.
(* one executed defer statement: its index in the shape, and the payload
   (evaluated arguments) *)
Definition reg := (nat * N)%type.
(* one deferred call made during replay: which statement's function runs, and
   with the payload of which node (None: called directly, no node) *)
Definition call := (nat * option (nat * N))%type.

Record frame := { bits : list nat; stack : list (nat * N) }.
Definition frame0 := {| bits := []; stack := [] |}.

Definition kind_eqb (a b : kind) : bool :=
  match a, b with Always, Always | Cond, Cond | InLoop, InLoop => true | _, _ => false end.

Definition exec_reg (sh : shape) (f : frame) (r : reg) : frame :=
  match nth_error sh (fst r) with
  | None => f
  | Some s =>
    {| bits := match sk s with Cond => fst r :: bits f | _ => bits f end;
       stack := if has_node s then (fst r, snd r) :: stack f else stack f |}
  end.

Definition run_regs (sh : shape) (rs : list reg) : frame := fold_left (exec_reg sh) rs frame0.

Definition is_loop (sh : shape) (i : nat) : bool :=
  match nth_error sh i with Some s => kind_eqb (sk s) InLoop | None => false end.

(* callDefer: direct call when the statement has no node; otherwise pop the top
   node (whatever it is) if the list is not empty *)
Definition call_defer (i : nat) (s : stmt) (st : list (nat * N)) : list call * list (nat * N) :=
  if has_node s then
    match st with
    | [] => ([], [])
    | nd :: st' => ([(i, Some nd)], st')
    end
  else ([(i, None)], st).

(* the drain loop: pop while the top node belongs to ANY loop statement *)
Fixpoint drain (sh : shape) (st : list (nat * N)) : list call * list (nat * N) :=
  match st with
  | [] => ([], [])
  | nd :: st' =>
    if is_loop sh (fst nd)
    then let '(cs, r) := drain sh st' in ((fst nd, Some nd) :: cs, r)
    else ([], st)
  end.

(* replay statements n-1 .. 0; [rev_stmts] is the shape reversed with indexes;
   [gen] = loopDrainerGenerated *)
Fixpoint replay_go (sh : shape) (todo : list (nat * stmt)) (bs : list nat)
         (st : list (nat * N)) (gen : bool) : list call :=
  match todo with
  | [] => []
  | (i, s) :: rest =>
    match sk s with
    | Always =>
      let '(cs, st') := call_defer i s st in cs ++ replay_go sh rest bs st' false
    | Cond =>
      if existsb (Nat.eqb i) bs
      then let '(cs, st') := call_defer i s st in cs ++ replay_go sh rest bs st' false
      else replay_go sh rest bs st false
    | InLoop =>
      if gen then replay_go sh rest bs st true
      else let '(cs, st') := drain sh st in cs ++ replay_go sh rest bs st' true
    end
  end.

Fixpoint indexed {A} (n : nat) (l : list A) : list (nat * A) :=
  match l with [] => [] | x :: l' => (n, x) :: indexed (S n) l' end.

Definition replay (sh : shape) (f : frame) : list call :=
  replay_go sh (rev (indexed 0 sh)) (bits f) (stack f) false.

Definition machine (sh : shape) (rs : list reg) : list call := replay sh (run_regs sh rs).

(* ssa.Builder.Defer (after the fix of finding F3): only the statement that
   creates the frame may stay unconditional; every later Always statement is
   guarded by a bit like a conditional one *)
Definition guard_stmt (t : stmt) : stmt :=
  match sk t with Always => {| sk := Cond; snode := snode t |} | _ => t end.
Definition effective (sh : shape) : shape :=
  match sh with [] => [] | s :: r => s :: map guard_stmt r end.
Definition machine_eff (sh : shape) (rs : list reg) : list call := machine (effective sh) rs.

(* ssa.Builder.getDefer: when the first compiled defer statement is
   unconditional the frame (sigsetjmp) is set up where that statement stands,
   otherwise in an init block at function entry.  A panic raised before an
   unconditional first statement therefore finds no frame of this function and
   nothing is replayed. *)
Definition frame_created (sh : shape) (rs : list reg) : bool :=
  match sh with
  | s :: _ => match sk s with
              | Always => existsb (fun r => Nat.eqb (fst r) 0) rs
              | _ => true
              end
  | [] => false
  end.
Definition machine_frame (sh : shape) (rs : list reg) : list call :=
  if frame_created sh rs then machine_eff sh rs else [].

(* Go: deferred calls run in reverse order of execution of the defer
   statements, each with its own arguments *)
Definition spec_call (sh : shape) (r : reg) : call :=
  match nth_error sh (fst r) with
  | Some s => if has_node s then (fst r, Some r) else (fst r, None)
  | None => (fst r, None)
  end.
Definition spec (sh : shape) (rs : list reg) : list call := map (spec_call sh) (rev rs).

(* evaluation helper for the correspondence: compare on the observable part
   (function index and payload) *)
Definition call_eqb (a b : call) : bool :=
  Nat.eqb (fst a) (fst b) &&
  option_eqb (fun x y => Nat.eqb (fst x) (fst y) && N.eqb (snd x) (snd y)) (snd a) (snd b).
Definition obs (c : call) : nat * option N := (fst c, option_map snd (snd c)).
(* what a deferred call prints in the test programs: the statement index and
   payload stored IN THE NODE it was given (its own, unless a foreign node was
   popped), or its own index when it is called without a node *)
Definition printed (c : call) : nat * option N :=
  match snd c with Some nd => (fst nd, Some (snd nd)) | None => (fst c, None) end.

(* ---------- what the deferred calls do to the panic state ---------- *)
(* a deferred function is plain, calls recover() (directly), or panics again *)
Inductive dkind := DPlain | DRecover | DPanic.

(* [cur] = a panic is in flight.  Returns what each recover() reported, and
   whether the function ends panicking (Go: a panic raised while deferred calls
   run replaces the current one and the remaining deferred calls still run;
   recover stops the panic and the function returns normally) *)
Fixpoint outcome (kinds : list dkind) (cs : list call) (cur : bool) : list bool * bool :=
  match cs with
  | [] => ([], cur)
  | c :: r =>
    match nth (fst c) kinds DPlain with
    | DPlain => outcome kinds r cur
    | DRecover => let '(l, f) := outcome kinds r false in (cur :: l, f)
    | DPanic => outcome kinds r true
    end
  end.

Definition machine_outcome (sh : shape) (kinds : list dkind) (rs : list reg) (cur : bool) : list bool * bool :=
  outcome kinds (machine_eff sh rs) cur.
Definition machine_frame_outcome (sh : shape) (kinds : list dkind) (rs : list reg) (cur : bool) : list bool * bool :=
  outcome kinds (machine_frame sh rs) cur.
Definition spec_outcome (sh : shape) (kinds : list dkind) (rs : list reg) (cur : bool) : list bool * bool :=
  outcome kinds (spec sh rs) cur.
