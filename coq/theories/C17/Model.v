(* C17 - executable models only (no proofs here: the model must still run when
   a proof breaks).  Strings are lists of N: code points for the shell parser
   (it works on []rune), bytes for the pkg-config splitter and tag parser. *)
From LLGoV Require Export Lib.Common.
Local Open Scope N_scope.

(* ---------- internal/shellparse.Parse ---------- *)

Definition DQ := 34.  Definition SQ := 39.  Definition BS := 92.  Definition SP := 32.

(* unicode.IsSpace: White_Space property (Latin-1 fast path + table) *)
Definition is_space (r : N) : bool :=
  ((9 <=? r) && (r <=? 13)) || (r =? 32) || (r =? 133) || (r =? 160)
  || (r =? 5760) || ((8192 <=? r) && (r <=? 8202))
  || (r =? 8232) || (r =? 8233) || (r =? 8239) || (r =? 8287) || (r =? 12288).

Definition is_quote (r : N) : bool := (r =? DQ) || (r =? SQ).

(* state of the loop in Parse: args, current, inQuotes, quoteChar, hasContent *)
Fixpoint sh_go (rs : list N) (args : list str) (cur : str)
         (inq : bool) (qc : N) (has : bool) : option (list str) :=
  match rs with
  | [] => if inq then None
          else Some (if has then args ++ [cur] else args)
  | r :: rest =>
    if negb inq && is_quote r then sh_go rest args cur true r true
    else if inq && (r =? qc) then sh_go rest args cur false 0 has
    else if negb inq && is_space r then
      if has then sh_go rest (args ++ [cur]) [] inq qc false
      else sh_go rest args cur inq qc has
    else if inq && (r =? BS) then
      match rest with
      | [] => sh_go rest args (cur ++ [r]) inq qc true      (* i+1 = len: default case *)
      | next :: rest' =>
        if qc =? DQ then
          if (next =? qc) || (next =? BS)
          then sh_go rest' args (cur ++ [next]) inq qc has
          else sh_go rest args (cur ++ [r]) inq qc has
        else sh_go rest args (cur ++ [r]) inq qc has
      end
    else sh_go rest args (cur ++ [r]) inq qc true
  end.

Definition sh_parse (rs : list N) : option (list str) := sh_go rs [] [] false 0 false.

(* the three documented ways of writing one argument *)
Inductive style := Bare | Single | Double.

Fixpoint esc_dq (a : str) : str :=
  match a with
  | [] => []
  | c :: a' => if (c =? DQ) || (c =? BS) then BS :: c :: esc_dq a' else c :: esc_dq a'
  end.

Definition quote (s : style) (a : str) : str :=
  match s with
  | Bare => a
  | Single => SQ :: a ++ [SQ]
  | Double => DQ :: esc_dq a ++ [DQ]
  end.

(* when a style may be used for an argument *)
Definition style_ok (s : style) (a : str) : bool :=
  match s with
  | Bare => negb (match a with [] => true | _ => false end)
            && forallb (fun c => negb (is_space c) && negb (is_quote c)) a
  | Single => forallb (fun c => negb (c =? SQ)) a
  | Double => true
  end.

Fixpoint join_sp (ws : list str) : str :=
  match ws with
  | [] => []
  | [w] => w
  | w :: ws' => w ++ SP :: join_sp ws'
  end.

Fixpoint quote_all (qs : list (style * str)) : list str :=
  match qs with
  | [] => []
  | (s, a) :: qs' => quote s a :: quote_all qs'
  end.

(* independent quote tracker used to state "malformed input is reported" *)
Fixpoint open_quote (rs : list N) (inq : bool) (qc : N) : bool :=
  match rs with
  | [] => inq
  | r :: rest =>
    if negb inq then (if is_quote r then open_quote rest true r else open_quote rest false qc)
    else if r =? qc then open_quote rest false 0
    else if (r =? BS) && (qc =? DQ) then
      match rest with
      | next :: rest' => if (next =? DQ) || (next =? BS) then open_quote rest' true qc
                         else open_quote rest true qc
      | [] => true
      end
    else open_quote rest true qc
  end.

(* ---------- xtool/safesplit.SplitPkgConfigFlags (bytes) ---------- *)

Definition TAB := 9.  Definition DASH := 45.
Definition is_blank (b : N) : bool := (b =? SP) || (b =? TAB).

Fixpoint skip_blanks (s : str) : str :=
  match s with
  | b :: s' => if is_blank b then skip_blanks s' else s
  | [] => []
  end.

(* strings.TrimSpace on a byte string.  Leading side: every part starts with
   '-', so only the trailing side can matter; trailing Unicode spaces that are
   multi-byte (U+0085, U+00A0, U+1680, U+2000-200A, U+2028/9, U+202F, U+205F,
   U+3000) are handled on the reversed byte list. *)
Definition ascii_space (b : N) : bool := ((9 <=? b) && (b <=? 13)) || (b =? 32).

Fixpoint trim_rev (fuel : nat) (r : str) : str :=   (* r = reversed string *)
  match fuel with
  | O => r
  | S fuel' =>
    match r with
    | b :: r1 =>
      if ascii_space b then trim_rev fuel' r1
      else match r with
      | b0 :: 194 :: r2 =>                         (* C2 85 / C2 A0 *)
          if (b0 =? 133) || (b0 =? 160) then trim_rev fuel' r2 else r
      | b0 :: b1 :: 226 :: r3 =>                   (* E2 80 80..8A, A8, A9, AF; E2 81 9F *)
          if ((b1 =? 128) && (((128 <=? b0) && (b0 <=? 138)) || (b0 =? 168) || (b0 =? 169) || (b0 =? 175)))
             || ((b1 =? 129) && (b0 =? 159))
          then trim_rev fuel' r3 else r
      | b0 :: b1 :: 225 :: r3 =>                   (* E1 9A 80 *)
          if (b1 =? 154) && (b0 =? 128) then trim_rev fuel' r3 else r
      | b0 :: b1 :: 227 :: r3 =>                   (* E3 80 80 *)
          if (b1 =? 128) && (b0 =? 128) then trim_rev fuel' r3 else r
      | _ => r
      end
    | [] => []
    end
  end.

Fixpoint trim_left (s : str) : str :=
  match s with
  | b :: s' => if ascii_space b then trim_left s' else s
  | [] => []
  end.

(* TrimSpace restricted to what can occur here: parts start with '-' so the
   left side only trims when the part is degenerate ("-" followed by spaces);
   invalid UTF-8 on the left is not modelled (parts always start with '-'). *)
Definition trim_space (s : str) : str :=
  rev (trim_rev (length s) (rev s)).

(* The two nested loops of SplitPkgConfigFlags as one pass over the bytes.
   Modes: MDash = at the top of the outer loop (the byte is consumed as "-"
   whatever it is), MFlag = the flag character, MSkip = blanks after the flag
   character, MContent pend = content loop, [pend] = a run of unescaped blanks
   has been seen and not yet emitted (the code looks ahead over the run to
   decide between "new flag" and "one space"). *)
Inductive pmode := MDash | MFlag | MSkip | MContent (pend : bool).

Definition pc_flush (res : list str) (cur : str) : list str :=
  match cur with [] => res | _ => res ++ [trim_space cur] end.

Fixpoint pc_go (s : str) (m : pmode) (res : list str) (cur : str) : list str :=
  match s with
  | [] => pc_flush res (match m with MContent true => cur ++ [SP] | _ => cur end)
  | b :: s' =>
    let content (pend : bool) :=
      let cur1 := if pend then cur ++ [SP] else cur in
      if b =? BS then
        match s' with
        | b2 :: s'' => if is_blank b2 then pc_go s'' (MContent false) res (cur1 ++ [b2])
                       else pc_go s' (MContent false) res (cur1 ++ [b])
        | [] => pc_go s' (MContent false) res (cur1 ++ [b])
        end
      else pc_go s' (MContent false) res (cur1 ++ [b]) in
    match m with
    | MDash => pc_go s' MFlag (pc_flush res cur) [DASH]
    | MFlag => pc_go s' MSkip res (cur ++ [b])
    | MSkip =>
      if is_blank b then pc_go s' MSkip res cur
      else if b =? DASH then pc_go s' MFlag (pc_flush res cur) [DASH]
      else content false
    | MContent pend =>
      if is_blank b then pc_go s' (MContent true) res cur
      else if pend && (b =? DASH) then pc_go s' MFlag (pc_flush res cur) [DASH]
      else content pend
    end
  end.

Definition pc_split (s : str) : list str := pc_go (skip_blanks s) MDash [] [].

(* rendering a flag "-c content" so that blanks in content survive *)
Fixpoint esc_blank (a : str) : str :=
  match a with
  | [] => []
  | c :: a' => if is_blank c then BS :: c :: esc_blank a' else c :: esc_blank a'
  end.

Definition pc_render (f : N * str) : str := DASH :: fst f :: esc_blank (snd f).
Definition pc_value (f : N * str) : str := DASH :: fst f :: snd f.

(* ---------- internal/buildtags.parseBuildTags (bytes) ---------- *)

Definition COMMA := 44.
Definition tag_sep (b : N) : bool := (b =? COMMA) || (b =? SP).

(* strings.FieldsFunc *)
Fixpoint fields_go (s : str) (cur : str) (acc : list str) : list str :=
  match s with
  | [] => match cur with [] => acc | _ => acc ++ [cur] end
  | b :: s' =>
    if tag_sep b then fields_go s' [] (match cur with [] => acc | _ => acc ++ [cur] end)
    else fields_go s' (cur ++ [b]) acc
  end.
Definition fields (s : str) : list str := fields_go s [] [].

Definition TAGS_FLAG : str := [45; 116; 97; 103; 115].          (* "-tags"  *)
Definition TAGS_EQ : str := [45; 116; 97; 103; 115; 61].        (* "-tags=" *)

Fixpoint strip_prefix (p s : str) : option str :=
  match p, s with
  | [], _ => Some s
  | a :: p', b :: s' => if a =? b then strip_prefix p' s' else None
  | _, [] => None
  end.

Fixpoint collect_tags (flags : list str) : list str :=
  match flags with
  | [] => []
  | f :: rest =>
    if str_eqb f TAGS_FLAG then
      match rest with
      | v :: rest' => fields v ++ collect_tags rest'
      | [] => match strip_prefix TAGS_EQ f with Some v => fields v | None => [] end
      end
    else match strip_prefix TAGS_EQ f with
         | Some v => fields v ++ collect_tags rest
         | None => collect_tags rest
         end
  end.

Definition mem_str (x : str) (l : list str) : bool := existsb (str_eqb x) l.

Fixpoint dedup (l : list str) (seen : list str) : list str :=
  match l with
  | [] => []
  | x :: l' => if mem_str x seen then dedup l' seen else x :: dedup l' (x :: seen)
  end.

Definition parse_tags (flags : list str) : list str := dedup (collect_tags flags) [].

(* ---------- internal/env.ExpandEnvWithDefault, single key (bytes) ---------- *)
(* strings.ReplaceAll for a non-empty pattern, left to right, non-overlapping *)
Fixpoint replace_all (fuel : nat) (pat rep s : str) : str :=
  match fuel with
  | O => s
  | S fuel' =>
    match s with
    | [] => []
    | b :: s' =>
      match strip_prefix pat s with
      | Some r => match pat with [] => s | _ => rep ++ replace_all fuel' pat rep r end
      | None => b :: replace_all fuel' pat rep s'
      end
    end
  end.

Definition LB := 123. Definition RB := 125.
Definition brace (k : str) : str := LB :: k ++ [RB].

(* the "{}" default pass, then named keys in the order [envs] is enumerated *)
Definition expand_default (tmpl dflt : str) (envs : list (str * str)) : str :=
  match tmpl with
  | [] => []
  | _ =>
    let r := replace_all (S (length tmpl)) [LB; RB] dflt tmpl in
    fold_left (fun acc kv =>
                 match fst kv with
                 | [] => acc
                 | k => replace_all (S (length acc)) (brace k) (snd kv) acc
                 end) envs r
  end.

(* ---------- internal/clang mergeCompilerFlags / mergeLinkerFlags ---------- *)
Definition merge_compiler (env_cc env_c : str) (cfg_cc cfg_c : list str) : list str :=
  pc_split env_cc ++ pc_split env_c ++ cfg_cc ++ cfg_c.
Definition merge_linker (env_cc env_ld : str) (cfg_ld : list str) : list str :=
  pc_split env_cc ++ pc_split env_ld ++ cfg_ld.

(* ---------- internal/build addGlobalStringWith: -X importpath.name=value ---------- *)
Definition EQ := 61.  Definition DOT := 46.

Fixpoint index_of (c : N) (s : str) : option nat :=
  match s with
  | [] => None
  | b :: s' => if b =? c then Some O else option_map S (index_of c s')
  end.

Fixpoint last_index_of (c : N) (s : str) : option nat :=
  match s with
  | [] => None
  | b :: s' => match last_index_of c s' with
               | Some n => Some (S n)
               | None => if b =? c then Some O else None
               end
  end.

(* (pkg, name, value), or None where the code panics with errXflags *)
Definition xflag_split (arg : str) : option (str * str * str) :=
  match index_of EQ arg with
  | None => None
  | Some eq =>
    match last_index_of DOT (firstn (S eq) arg) with
    | None => None
    | Some dot => Some (firstn dot arg, firstn (eq - S dot)%nat (skipn (S dot) arg), skipn (S eq) arg)
    end
  end.
