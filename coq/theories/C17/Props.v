(* C17 - property theorems only.  Each is closed by [exact <lemma>] and followed
   by Print Assumptions (the driver re-prints them on every run). *)
From LLGoV Require Import C17.Model C17.Proofs.
Local Open Scope N_scope.

(* Any list of arguments, each written in any admissible style (bare, single-
   or double-quoted with ' and \ escaped), joined by spaces, is split back into
   exactly the original list: whatever spaces, quotes, backslashes or non-ASCII
   code points the arguments contain. *)
Theorem parse_quote_roundtrip : forall qs : list (style * str),
  all_ok qs = true -> sh_parse (join_sp (quote_all qs)) = Some (map snd qs).
Proof. exact sh_parse_roundtrip. Qed.
Print Assumptions parse_quote_roundtrip.

(* every argument has an admissible style: double quotes always work *)
Theorem double_quote_always_ok : forall a, style_ok Double a = true.
Proof. reflexivity. Qed.
Print Assumptions double_quote_always_ok.

Example roundtrip_nontrivial :
  all_ok [(Double, [32; 34; 92; 39; 19990]); (Single, [34; 92; 32]); (Bare, [45; 120; 92]); (Double, [])] = true
  /\ sh_parse (join_sp (quote_all [(Double, [32; 34; 92; 39; 19990]); (Single, [34; 92; 32]); (Bare, [45; 120; 92]); (Double, [])]))
     = Some [[32; 34; 92; 39; 19990]; [34; 92; 32]; [45; 120; 92]; []].
Proof. split; reflexivity. Qed.

(* malformed input is reported: Parse fails exactly when the line ends inside
   an open quote *)
Theorem parse_error_iff_unterminated : forall rs,
  sh_parse rs = None <-> open_quote rs false 0 = true.
Proof. exact sh_parse_none_iff. Qed.
Print Assumptions parse_error_iff_unterminated.

(* pkg-config style: flags rendered as '-c' followed by the content with blanks
   escaped by '\' and joined by spaces are split back exactly.  The guard
   [wf_flag] is what the splitter's documented format requires: the flag
   character is not a blank, the content does not start with '-', does not end
   in '\' (there is no escape for a backslash) and the flag does not end in
   white space (the final TrimSpace removes it: finding F11, witnessed below). *)
Theorem split_render_roundtrip : forall fs : list (N * str),
  forallb wf_flag fs = true ->
  pc_split (join_sp (map pc_render fs)) = map pc_value fs.
Proof. exact pc_split_roundtrip. Qed.
Print Assumptions split_render_roundtrip.

Example split_nontrivial :
  forallb wf_flag [(73, [47; 97; 32; 98; 92; 32; 45; 99]); (108, []); (76, [32; 195; 169])] = true.
Proof. reflexivity. Qed.

Theorem trailing_space_refuted :
  exists f, pc_split (pc_render f) <> [pc_value f]
            /\ wf_flag (fst f, removelast (snd f)) = true.
Proof. exact pc_trailing_space_lost. Qed.
Print Assumptions trailing_space_refuted.

(* build tags: the tag list has no duplicates and holds exactly the tags named
   by -tags flags; no tag is empty or contains a separator *)
Theorem tags_nodup : forall flags, NoDup (parse_tags flags).
Proof. exact parse_tags_nodup. Qed.
Print Assumptions tags_nodup.

Theorem tags_mem_iff : forall flags x, In x (parse_tags flags) <-> In x (collect_tags flags).
Proof. exact parse_tags_mem. Qed.
Print Assumptions tags_mem_iff.

Theorem tags_wellformed : forall s,
  Forall (fun t => t <> [] /\ forallb (fun b => negb (tag_sep b)) t = true) (fields s).
Proof. exact fields_ok. Qed.
Print Assumptions tags_wellformed.

(* {key} expansion: a template of brace-free literal bytes and references to
   key k becomes the literals with the value in place of every reference
   (partial: one key; with several keys the order of a Go map enumeration can
   matter when values contain braces) *)
Theorem brace_expand_single_key_partial : forall k v t fuel,
  k <> [] -> forallb seg_ok t = true -> (fuel > length (render_t k t))%nat ->
  replace_all fuel (brace k) v (render_t k t) = subst_t v t.
Proof. exact replace_all_render. Qed.
Print Assumptions brace_expand_single_key_partial.

(* -X importpath.name=value: package path free of '=', variable name free of
   '.' and '=': the three parts come back for ANY value (the value may contain
   '=' and '.') *)
Theorem xflag_split_roundtrip : forall pkg name value,
  forallb (fun x => negb (x =? EQ)) pkg = true ->
  forallb (fun x => negb (x =? EQ)) name = true ->
  forallb (fun x => negb (x =? DOT)) name = true ->
  xflag_split (pkg ++ DOT :: name ++ EQ :: value) = Some (pkg, name, value).
Proof. exact xflag_split_join. Qed.
Print Assumptions xflag_split_roundtrip.

(* compiler flags: flags rendered into CCFLAGS / CFLAGS come back one by one,
   followed by the configured lists, in this order *)
Theorem merge_compiler_flags_roundtrip : forall fs1 fs2 cfg_cc cfg_c,
  forallb wf_flag fs1 = true -> forallb wf_flag fs2 = true ->
  merge_compiler (join_sp (map pc_render fs1)) (join_sp (map pc_render fs2)) cfg_cc cfg_c
  = map pc_value fs1 ++ map pc_value fs2 ++ cfg_cc ++ cfg_c.
Proof. exact merge_compiler_roundtrip. Qed.
Print Assumptions merge_compiler_flags_roundtrip.
