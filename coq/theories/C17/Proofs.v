From LLGoV Require Import C17.Model.
Local Open Scope N_scope.

(* ------------------------------------------------------------------ *)
(* shellparse: quote -> Parse round trip                               *)
(* ------------------------------------------------------------------ *)

Lemma sh_parse_nil : sh_parse [] = Some [].
Proof. reflexivity. Qed.

Lemma app_assoc1 {A} (l : list A) x m : (l ++ [x]) ++ m = l ++ x :: m.
Proof. now rewrite <- app_assoc. Qed.

(* body of a double-quoted word *)
Lemma sh_go_dq_body a : forall rest args cur,
  sh_go (esc_dq a ++ DQ :: rest) args cur true DQ true
  = sh_go rest args (cur ++ a) false 0 true.
Proof.
  induction a as [|c a IH]; intros rest args cur.
  - cbn [esc_dq app]. rewrite app_nil_r. reflexivity.
  - cbn [esc_dq]. destruct ((c =? DQ) || (c =? BS)) eqn:E.
    + cbn [app sh_go negb andb]. change (BS =? DQ) with false. change (BS =? BS) with true.
      cbn [andb]. change (DQ =? DQ) with true. cbv iota. rewrite E.
      rewrite IH, app_assoc1. reflexivity.
    + apply orb_false_iff in E as [E1 E2].
      cbn [app sh_go negb andb]. rewrite E1, E2. cbn [andb].
      rewrite IH, app_assoc1. reflexivity.
Qed.

(* body of a single-quoted word *)
Lemma sh_go_sq_body a : forall rest args cur,
  forallb (fun c => negb (c =? SQ)) a = true ->
  sh_go (a ++ SQ :: rest) args cur true SQ true
  = sh_go rest args (cur ++ a) false 0 true.
Proof.
  induction a as [|c a IH]; intros rest args cur Hok.
  - cbn [app]. rewrite app_nil_r. reflexivity.
  - cbn [forallb] in Hok. apply andb_true_iff in Hok as [Hc Ha].
    apply negb_true_iff in Hc.
    cbn [app sh_go negb andb]. rewrite Hc. cbn [andb].
    destruct (c =? BS) eqn:EB.
    + destruct (a ++ SQ :: rest) as [|nx rs] eqn:EL.
      { destruct a; discriminate EL. }
      change (SQ =? DQ) with false. cbv iota.
      rewrite <- EL, IH, app_assoc1 by exact Ha. reflexivity.
    + rewrite IH, app_assoc1 by exact Ha. reflexivity.
Qed.

(* a bare word *)
Lemma sh_go_bare_body a : forall rest args cur qc has,
  forallb (fun c => negb (is_space c) && negb (is_quote c)) a = true ->
  sh_go (a ++ rest) args cur false qc has
  = sh_go rest args (cur ++ a) false qc (match a with [] => has | _ => true end).
Proof.
  induction a as [|c a IH]; intros rest args cur qc has Hok.
  - cbn [app]. rewrite app_nil_r. reflexivity.
  - cbn [forallb] in Hok. apply andb_true_iff in Hok as [Hc Ha].
    apply andb_true_iff in Hc as [Hs Hq].
    apply negb_true_iff in Hs. apply negb_true_iff in Hq.
    cbn [app sh_go negb andb]. rewrite Hq, Hs. cbn [andb].
    rewrite IH, app_assoc1 by exact Ha. destruct a; reflexivity.
Qed.

(* outside quotes the remembered quote character is irrelevant *)
Lemma sh_go_qc_irrel rs : forall args cur q1 q2 has,
  sh_go rs args cur false q1 has = sh_go rs args cur false q2 has.
Proof.
  induction rs as [|r rs IH]; intros args cur q1 q2 has; [reflexivity|].
  cbn [sh_go negb andb]. destruct (is_quote r); [reflexivity|].
  destruct (is_space r).
  - destruct has; apply IH.
  - apply IH.
Qed.

(* one quoted word, starting a fresh argument *)
Lemma sh_go_word s a : forall rest args qc,
  style_ok s a = true ->
  exists qc', sh_go (quote s a ++ rest) args [] false qc false
            = sh_go rest args a false qc' true.
Proof.
  intros rest args qc Hok. destruct s; cbn [quote style_ok] in *.
  - (* Bare *) exists qc. apply andb_true_iff in Hok as [Hne Hall].
    rewrite sh_go_bare_body by exact Hall. cbn [app].
    destruct a; [discriminate Hne | reflexivity].
  - (* Single *) exists 0. cbn [app sh_go negb andb]. change (is_quote SQ) with true. cbv iota.
    rewrite <- app_assoc. cbn [app]. rewrite sh_go_sq_body by exact Hok. reflexivity.
  - (* Double *) exists 0. cbn [app sh_go negb andb]. change (is_quote DQ) with true. cbv iota.
    rewrite <- app_assoc. cbn [app]. rewrite sh_go_dq_body. reflexivity.
Qed.

Definition all_ok (qs : list (style * str)) : bool :=
  forallb (fun q => style_ok (fst q) (snd q)) qs.

Lemma join_sp_cons w ws : ws <> [] -> join_sp (w :: ws) = w ++ SP :: join_sp ws.
Proof. destruct ws; [congruence | reflexivity]. Qed.

Lemma sh_go_roundtrip qs : forall args qc,
  all_ok qs = true ->
  sh_go (join_sp (quote_all qs)) args [] false qc false = Some (args ++ map snd qs).
Proof.
  induction qs as [|[s a] qs IH]; intros args qc Hok.
  - cbn. now rewrite app_nil_r.
  - cbn [all_ok forallb fst snd] in Hok. apply andb_true_iff in Hok as [Hw Hrest].
    cbn [quote_all map snd].
    destruct qs as [|q2 qs'].
    + cbn [quote_all join_sp].
      destruct (sh_go_word s a [] args qc Hw) as [qc' E].
      rewrite app_nil_r in E. rewrite E. reflexivity.
    + rewrite join_sp_cons by (destruct q2; discriminate).
      destruct (sh_go_word s a (SP :: join_sp (quote_all (q2 :: qs'))) args qc Hw) as [qc' E].
      rewrite E. cbn [sh_go negb andb]. change (is_quote SP) with false.
      change (is_space SP) with true. cbv iota.
      rewrite (IH (args ++ [a]) qc' Hrest). rewrite <- app_assoc. reflexivity.
Qed.

Lemma sh_parse_roundtrip qs :
  all_ok qs = true -> sh_parse (join_sp (quote_all qs)) = Some (map snd qs).
Proof. intros H. unfold sh_parse. now rewrite sh_go_roundtrip. Qed.

(* malformed input is reported: the result is None exactly when the scan ends
   inside an open quote, as tracked by the independent [open_quote] *)
Lemma sh_go_none_iff n : forall rs, (length rs <= n)%nat -> forall args cur inq qc has,
  sh_go rs args cur inq qc has = None <-> open_quote rs inq qc = true.
Proof.
  induction n as [|n IH]; intros rs Hl args cur inq qc has.
  - destruct rs; [|cbn in Hl; lia]. cbn. destruct inq, has; split; intro HH; (discriminate HH || reflexivity).
  - destruct rs as [|r rs]; [cbn; destruct inq, has; split; intro HH; (discriminate HH || reflexivity)|].
    cbn [length] in Hl. assert (Hl' : (length rs <= n)%nat) by lia.
    cbn [sh_go open_quote]. destruct inq; cbn [negb andb].
    + destruct (r =? qc); [apply IH; exact Hl'|].
      destruct (r =? BS) eqn:EB; cbn [andb].
      * destruct (qc =? DQ) eqn:EQ.
        -- apply N.eqb_eq in EQ. subst qc.
           destruct rs as [|nx rs'].
           { cbn. split; intro HH; reflexivity. }
           change (DQ =? DQ) with true. cbv iota.
           destruct ((nx =? DQ) || (nx =? BS)); apply IH; cbn [length] in *; lia.
        -- destruct rs as [|nx rs'].
           { cbn. split; intro HH; reflexivity. }
           apply IH; exact Hl'.
      * apply IH; exact Hl'.
    + destruct (is_quote r); [apply IH; exact Hl'|].
      destruct (is_space r); [destruct has|]; apply IH; exact Hl'.
Qed.

Lemma sh_parse_none_iff rs : sh_parse rs = None <-> open_quote rs false 0 = true.
Proof. unfold sh_parse. apply (sh_go_none_iff (length rs)). lia. Qed.

(* ------------------------------------------------------------------ *)
(* safesplit: render -> SplitPkgConfigFlags round trip                  *)
(* ------------------------------------------------------------------ *)

Fixpoint no_trailing_bs (a : str) : bool :=
  match a with
  | [] => true
  | [c] => negb (c =? BS)
  | _ :: a' => no_trailing_bs a'
  end.

Definition head_not_blank (s : str) : bool :=
  match s with b :: _ => negb (is_blank b) | [] => true end.

Definition wf_flag (f : N * str) : bool :=
  negb (is_blank (fst f))
  && match snd f with d :: _ => negb (d =? DASH) | [] => true end
  && no_trailing_bs (snd f)
  && str_eqb (trim_space (pc_value f)) (pc_value f).

Lemma is_blank_BS : is_blank BS = false.  Proof. reflexivity. Qed.

Lemma esc_head a rest :
  (a = [] -> head_not_blank rest = true) -> head_not_blank (esc_blank a ++ rest) = true.
Proof.
  destruct a as [|c a]; intros H; [apply H; reflexivity|].
  cbn [esc_blank]. destruct (is_blank c) eqn:E; cbn [app head_not_blank].
  - reflexivity.
  - now rewrite E.
Qed.

Lemma pc_bs_content s res cur :
  head_not_blank s = true ->
  pc_go (BS :: s) (MContent false) res cur = pc_go s (MContent false) res (cur ++ [BS]).
Proof.
  intros H. destruct s as [|b2 s2]; [reflexivity|].
  cbn [head_not_blank] in H. apply negb_true_iff in H.
  cbn [pc_go]. rewrite is_blank_BS. cbn [andb]. change (BS =? BS) with true. cbv iota.
  now rewrite H.
Qed.

Lemma pc_bs_skip s res cur :
  head_not_blank s = true ->
  pc_go (BS :: s) MSkip res cur = pc_go s (MContent false) res (cur ++ [BS]).
Proof.
  intros H. destruct s as [|b2 s2]; [reflexivity|].
  cbn [head_not_blank] in H. apply negb_true_iff in H.
  cbn [pc_go]. rewrite is_blank_BS. change (BS =? DASH) with false.
  change (BS =? BS) with true. cbv iota. now rewrite H.
Qed.

(* content bytes after the first, in content mode with nothing pending *)
Lemma pc_go_content a : forall rest res cur,
  no_trailing_bs a = true \/ head_not_blank rest = true ->
  pc_go (esc_blank a ++ rest) (MContent false) res cur
  = pc_go rest (MContent false) res (cur ++ a).
Proof.
  induction a as [|c a IH]; intros rest res cur H.
  - cbn [esc_blank app]. now rewrite app_nil_r.
  - assert (H' : no_trailing_bs a = true \/ head_not_blank rest = true).
    { destruct H as [H|H]; [|now right]. destruct a; [now left|]. left. exact H. }
    cbn [esc_blank]. destruct (is_blank c) eqn:EC.
    + cbn [app pc_go]. rewrite is_blank_BS. cbn [andb]. change (BS =? BS) with true.
      cbv iota. rewrite EC. rewrite IH, app_assoc1 by exact H'. reflexivity.
    + destruct (c =? BS) eqn:EB.
      * apply N.eqb_eq in EB. subst c. cbn [app].
        rewrite pc_bs_content.
        -- rewrite IH, app_assoc1 by exact H'. reflexivity.
        -- apply esc_head. intros ->. destruct H as [H|H]; [|exact H]. discriminate H.
      * cbn [app pc_go]. rewrite EC. cbn [andb]. rewrite EB.
        rewrite IH, app_assoc1 by exact H'. reflexivity.
Qed.

(* everything after the flag character, from MSkip *)
Lemma pc_go_after_flag a : forall rest res cur,
  match a with d :: _ => negb (d =? DASH) | [] => true end = true ->
  no_trailing_bs a = true \/ head_not_blank rest = true ->
  a <> [] ->
  pc_go (esc_blank a ++ rest) MSkip res cur
  = pc_go rest (MContent false) res (cur ++ a).
Proof.
  intros rest res cur Hd H Hne. destruct a as [|c a]; [congruence|].
  assert (H' : no_trailing_bs a = true \/ head_not_blank rest = true).
  { destruct H as [H|H]; [|now right]. destruct a; [now left|]. left. exact H. }
  apply negb_true_iff in Hd.
  cbn [esc_blank]. destruct (is_blank c) eqn:EC.
  - cbn [app pc_go]. rewrite is_blank_BS. change (BS =? DASH) with false.
    change (BS =? BS) with true. cbv iota. rewrite EC.
    rewrite pc_go_content, app_assoc1 by exact H'. reflexivity.
  - destruct (c =? BS) eqn:EB.
    + apply N.eqb_eq in EB. subst c. cbn [app].
      rewrite pc_bs_skip.
      * rewrite pc_go_content, app_assoc1 by exact H'. reflexivity.
      * apply esc_head. intros ->. destruct H as [H|H]; [|exact H]. discriminate H.
    + cbn [app pc_go]. rewrite EC, Hd, EB.
      rewrite pc_go_content, app_assoc1 by exact H'. reflexivity.
Qed.

(* what follows a rendered flag: nothing, or " " and the next rendered flag *)
Fixpoint sep_rest (fs : list (N * str)) : str :=
  match fs with
  | [] => []
  | f :: fs' => SP :: pc_render f ++ sep_rest fs'
  end.

Lemma join_render f fs : join_sp (map pc_render (f :: fs)) = pc_render f ++ sep_rest fs.
Proof.
  revert f; induction fs as [|g fs IH]; intros f.
  - cbn. now rewrite app_nil_r.
  - change (map pc_render (f :: g :: fs)) with (pc_render f :: map pc_render (g :: fs)).
    rewrite join_sp_cons by discriminate. rewrite IH. reflexivity.
Qed.

Lemma pc_flush_stable res f :
  str_eqb (trim_space (pc_value f)) (pc_value f) = true ->
  pc_flush res (pc_value f) = res ++ [pc_value f].
Proof.
  intros H. apply str_eqb_eq in H. unfold pc_flush.
  destruct (pc_value f) eqn:E; [discriminate E|]. now rewrite H.
Qed.

(* from just after the flag character of flag (c, a): the flags come out in order *)
Lemma pc_go_flags fs : forall c a res,
  wf_flag (c, a) = true -> forallb wf_flag fs = true ->
  pc_go (esc_blank a ++ sep_rest fs) MSkip res [DASH; c]
  = res ++ pc_value (c, a) :: map pc_value fs.
Proof.
  induction fs as [|[c2 a2] fs IH]; intros c a res Hw Hfs.
  - unfold wf_flag in Hw. cbn [fst snd] in Hw.
    apply andb_true_iff in Hw as [Hw Htrim]. apply andb_true_iff in Hw as [Hw Hbs].
    apply andb_true_iff in Hw as [Hc Hd].
    cbn [sep_rest map]. rewrite app_nil_r.
    destruct a as [|d a'].
    + cbn [esc_blank pc_go]. change ([DASH; c]) with (pc_value (c, [])).
      now rewrite pc_flush_stable.
    + replace (esc_blank (d :: a')) with (esc_blank (d :: a') ++ []) by apply app_nil_r.
      rewrite pc_go_after_flag; [|exact Hd|left; exact Hbs|discriminate].
      cbn [pc_go app]. change (DASH :: c :: d :: a') with (pc_value (c, d :: a')).
      now rewrite pc_flush_stable.
  - cbn [forallb] in Hfs. apply andb_true_iff in Hfs as [Hw2 Hfs].
    pose proof Hw as Hw0.
    unfold wf_flag in Hw. cbn [fst snd] in Hw.
    apply andb_true_iff in Hw as [Hw Htrim]. apply andb_true_iff in Hw as [Hw Hbs].
    apply andb_true_iff in Hw as [Hc Hd].
    cbn [sep_rest map].
    unfold pc_render at 1. cbn [fst snd].
    destruct a as [|d a'].
    + cbn [esc_blank app pc_go]. change (is_blank SP) with true. cbv iota.
      change (is_blank DASH) with false. change (DASH =? DASH) with true. cbv iota.
      change ([DASH; c]) with (pc_value (c, [])).
      rewrite pc_flush_stable by exact Htrim.
      rewrite IH by assumption. rewrite <- app_assoc. reflexivity.
    + rewrite pc_go_after_flag; [|exact Hd|left; exact Hbs|discriminate].
      cbn [pc_go app]. change (is_blank SP) with true. cbv iota.
      change (is_blank DASH) with false. cbn [andb]. change (DASH =? DASH) with true. cbv iota.
      change (DASH :: c :: d :: a') with (pc_value (c, d :: a')).
      rewrite pc_flush_stable by exact Htrim.
      rewrite IH by assumption. rewrite <- app_assoc. reflexivity.
Qed.

Lemma pc_split_roundtrip fs :
  forallb wf_flag fs = true ->
  pc_split (join_sp (map pc_render fs)) = map pc_value fs.
Proof.
  intros H. destruct fs as [|[c a] fs]; [reflexivity|].
  cbn [forallb] in H. apply andb_true_iff in H as [Hw Hfs].
  rewrite join_render. unfold pc_split, pc_render. cbn [fst snd app skip_blanks].
  change (is_blank DASH) with false. cbv iota. cbn [pc_go pc_flush app].
  rewrite pc_go_flags by assumption. reflexivity.
Qed.

(* the trailing-space loss (finding F11): an escaped blank at the very end of
   the last flag is trimmed away *)
Lemma pc_trailing_space_lost :
  exists f, pc_split (pc_render f) <> [pc_value f]
            /\ wf_flag (fst f, removelast (snd f)) = true.
Proof. exists (73, [97; 32]). split; [vm_compute; congruence | reflexivity]. Qed.

(* ------------------------------------------------------------------ *)
(* buildtags                                                            *)
(* ------------------------------------------------------------------ *)

Lemma mem_str_In x l : mem_str x l = true <-> In x l.
Proof.
  unfold mem_str. rewrite existsb_exists. split.
  - intros [y [Hy E]]. apply str_eqb_eq in E. now subst.
  - intros H. exists x. split; [exact H|]. apply list_eqb_refl. apply N.eqb_refl.
Qed.

Lemma dedup_spec l : forall seen,
  NoDup (dedup l seen)
  /\ (forall x, In x (dedup l seen) <-> In x l /\ ~ In x seen).
Proof.
  induction l as [|y l IH]; intros seen.
  - cbn. split; [constructor|]. intros x; tauto.
  - cbn [dedup]. destruct (mem_str y seen) eqn:E.
    + apply mem_str_In in E. destruct (IH seen) as [ND Hin]. split; [exact ND|].
      intros x. rewrite Hin. cbn. split.
      * intros [H1 H2]; tauto.
      * intros [[->|H1] H2]; [contradiction|tauto].
    + assert (Hn : ~ In y seen) by (intros H; apply mem_str_In in H; congruence).
      destruct (IH (y :: seen)) as [ND Hin]. split.
      * constructor; [|exact ND]. rewrite Hin. cbn. tauto.
      * intros x. cbn [In]. rewrite Hin. cbn [In]. split.
        -- intros [->|[H1 H2]]; [tauto|]. split; [tauto|]. tauto.
        -- intros [[->|H1] H2]; [tauto|].
           destruct (list_eq_dec N.eq_dec y x) as [->|Hne]; [tauto|]. right. tauto.
Qed.

Lemma parse_tags_nodup flags : NoDup (parse_tags flags).
Proof. apply dedup_spec. Qed.

Lemma parse_tags_mem flags x : In x (parse_tags flags) <-> In x (collect_tags flags).
Proof. unfold parse_tags. rewrite (proj2 (dedup_spec _ [])). cbn. tauto. Qed.

(* fields never yields an empty tag or a tag containing a separator *)
Lemma fields_go_ok s : forall cur acc,
  Forall (fun t => t <> [] /\ forallb (fun b => negb (tag_sep b)) t = true) acc ->
  forallb (fun b => negb (tag_sep b)) cur = true ->
  Forall (fun t => t <> [] /\ forallb (fun b => negb (tag_sep b)) t = true) (fields_go s cur acc).
Proof.
  induction s as [|b s IH]; intros cur acc Ha Hc.
  - cbn. destruct cur; [exact Ha|]. apply Forall_app. split; [exact Ha|].
    constructor; [|constructor]. split; [discriminate|exact Hc].
  - cbn [fields_go]. destruct (tag_sep b) eqn:E.
    + apply IH; [|reflexivity]. destruct cur; [exact Ha|].
      apply Forall_app. split; [exact Ha|]. constructor; [|constructor].
      split; [discriminate|exact Hc].
    + apply IH; [exact Ha|]. rewrite forallb_app, Hc. cbn. now rewrite E.
Qed.

Lemma fields_ok s :
  Forall (fun t => t <> [] /\ forallb (fun b => negb (tag_sep b)) t = true) (fields s).
Proof. apply fields_go_ok; [constructor|reflexivity]. Qed.

(* ------------------------------------------------------------------ *)
(* {key} expansion                                                      *)
(* ------------------------------------------------------------------ *)

(* a template made of literal bytes free of braces and references to one key
   expands to the literals with the value in place of each reference *)
Inductive seg := Lit (b : N) | Ref.

Definition seg_ok (s : seg) : bool :=
  match s with Lit b => negb (b =? LB) && negb (b =? RB) | Ref => true end.

Fixpoint render_t (k : str) (t : list seg) : str :=
  match t with
  | [] => []
  | Lit b :: t' => b :: render_t k t'
  | Ref :: t' => brace k ++ render_t k t'
  end.

Fixpoint subst_t (v : str) (t : list seg) : str :=
  match t with
  | [] => []
  | Lit b :: t' => b :: subst_t v t'
  | Ref :: t' => v ++ subst_t v t'
  end.

Lemma strip_prefix_app p s : strip_prefix p (p ++ s) = Some s.
Proof. induction p as [|a p IH]; cbn; [reflexivity|]. now rewrite N.eqb_refl. Qed.

Lemma replace_all_render k v t : forall fuel,
  k <> [] -> forallb seg_ok t = true ->
  (fuel > length (render_t k t))%nat ->
  replace_all fuel (brace k) v (render_t k t) = subst_t v t.
Proof.
  induction t as [|sg t IH]; intros fuel Hk Hok Hf.
  - destruct fuel; reflexivity.
  - cbn [forallb] in Hok. apply andb_true_iff in Hok as [Hs Hok].
    destruct fuel as [|fuel]; [lia|].
    destruct sg as [b|].
    + cbn [render_t subst_t replace_all]. cbn [render_t length] in Hf.
      cbn [seg_ok] in Hs. apply andb_true_iff in Hs as [H1 H2].
      apply negb_true_iff in H1.
      unfold brace at 1. cbn [strip_prefix]. rewrite N.eqb_sym, H1.
      rewrite IH by (auto; lia). reflexivity.
    + cbn [render_t subst_t]. cbn [render_t] in Hf.
      assert (Hlen : (length (brace k ++ render_t k t) > length (render_t k t))%nat).
      { rewrite app_length. unfold brace. cbn [length]. lia. }
      remember (brace k ++ render_t k t) as s eqn:Es.
      destruct s as [|b s']; [unfold brace in Es; discriminate Es|].
      cbn [replace_all]. rewrite Es, strip_prefix_app.
      unfold brace at 1. rewrite IH; [reflexivity|auto|auto|]. lia.
Qed.

(* ------------------------------------------------------------------ *)
(* -X importpath.name=value                                             *)
(* ------------------------------------------------------------------ *)

Lemma index_of_app_notin c a b :
  forallb (fun x => negb (x =? c)) a = true ->
  index_of c (a ++ c :: b) = Some (length a).
Proof.
  induction a as [|x a IH]; intros H; cbn [app index_of length].
  - now rewrite N.eqb_refl.
  - cbn [forallb] in H. apply andb_true_iff in H as [H1 H2]. apply negb_true_iff in H1.
    rewrite H1, (IH H2). reflexivity.
Qed.

Lemma last_index_of_none c a :
  forallb (fun x => negb (x =? c)) a = true -> last_index_of c a = None.
Proof.
  induction a as [|x a IH]; intros H; cbn; [reflexivity|].
  cbn [forallb] in H. apply andb_true_iff in H as [H1 H2]. apply negb_true_iff in H1.
  now rewrite (IH H2), H1.
Qed.

Lemma last_index_of_app c a b :
  forallb (fun x => negb (x =? c)) b = true ->
  last_index_of c (a ++ c :: b) = Some (length a).
Proof.
  intros Hb. induction a as [|x a IH]; cbn [app last_index_of length].
  - rewrite (last_index_of_none c b Hb), N.eqb_refl. reflexivity.
  - now rewrite IH.
Qed.

Lemma firstn_app_exact {A} (a b : list A) : firstn (length a) (a ++ b) = a.
Proof. rewrite firstn_app, Nat.sub_diag, firstn_all. cbn. apply app_nil_r. Qed.

Lemma skipn_app_exact {A} (a b : list A) : skipn (length a) (a ++ b) = b.
Proof. rewrite skipn_app, Nat.sub_diag, skipn_all. reflexivity. Qed.

(* package path free of "=", variable name free of "." and "=": any value comes back *)
Lemma xflag_split_join pkg name value :
  forallb (fun x => negb (x =? EQ)) pkg = true ->
  forallb (fun x => negb (x =? EQ)) name = true ->
  forallb (fun x => negb (x =? DOT)) name = true ->
  xflag_split (pkg ++ DOT :: name ++ EQ :: value) = Some (pkg, name, value).
Proof.
  intros Hp Hn Hd. unfold xflag_split.
  assert (E1 : pkg ++ DOT :: name ++ EQ :: value = (pkg ++ DOT :: name) ++ EQ :: value).
  { rewrite <- app_assoc. reflexivity. }
  rewrite E1 at 1. rewrite index_of_app_notin.
  2:{ rewrite forallb_app, Hp. cbn [forallb]. rewrite Hn. reflexivity. }
  assert (E2 : firstn (S (length (pkg ++ DOT :: name))) (pkg ++ DOT :: name ++ EQ :: value)
               = pkg ++ DOT :: (name ++ [EQ])).
  { rewrite E1. replace (S (length (pkg ++ DOT :: name))) with (length ((pkg ++ DOT :: name) ++ [EQ]))
      by (rewrite app_length; cbn; lia).
    replace ((pkg ++ DOT :: name) ++ EQ :: value) with (((pkg ++ DOT :: name) ++ [EQ]) ++ value)
      by (rewrite <- !app_assoc; reflexivity).
    rewrite firstn_app_exact. rewrite <- !app_assoc. reflexivity. }
  rewrite E2. rewrite last_index_of_app.
  2:{ rewrite forallb_app, Hd. reflexivity. }
  f_equal. f_equal; [f_equal|].
  - apply firstn_app_exact.
  - replace (S (length pkg)) with (length (pkg ++ [DOT])) by (rewrite app_length; cbn; lia).
    replace (pkg ++ DOT :: name ++ EQ :: value) with ((pkg ++ [DOT]) ++ name ++ EQ :: value)
      by (rewrite <- app_assoc; reflexivity).
    rewrite skipn_app_exact.
    replace (length (pkg ++ DOT :: name) - length (pkg ++ [DOT]))%nat with (length name)
      by (rewrite !app_length; cbn; lia).
    apply firstn_app_exact.
  - rewrite E1. replace (S (length (pkg ++ DOT :: name))) with (length ((pkg ++ DOT :: name) ++ [EQ]))
      by (rewrite app_length; cbn; lia).
    replace ((pkg ++ DOT :: name) ++ EQ :: value) with (((pkg ++ DOT :: name) ++ [EQ]) ++ value)
      by (rewrite <- !app_assoc; reflexivity).
    apply skipn_app_exact.
Qed.

(* merged compiler flags: what was rendered into the environment variables
   comes back flag by flag, followed by the configured lists, in order *)
Lemma merge_compiler_roundtrip fs1 fs2 cfg_cc cfg_c :
  forallb wf_flag fs1 = true -> forallb wf_flag fs2 = true ->
  merge_compiler (join_sp (map pc_render fs1)) (join_sp (map pc_render fs2)) cfg_cc cfg_c
  = map pc_value fs1 ++ map pc_value fs2 ++ cfg_cc ++ cfg_c.
Proof. intros H1 H2. unfold merge_compiler. now rewrite !pc_split_roundtrip. Qed.
