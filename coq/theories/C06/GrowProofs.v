(* C06 - proofs about the layer-2 model (Grow.v): starting a growth and evacuating a
   bucket change no lookup result and keep the structural invariant GI (every live key
   stored exactly once, in the bucket its hash selects under the current growth state);
   the model refines the association-list specification for every history. *)
From LLGoV Require Import C06.Simple C06.Proofs C06.Grow.
From Coq Require Import Lia.
Local Open Scope N_scope.

Section GrowProofs.
Variables (K V : Type) (eqb : K -> K -> bool) (hash : K -> N) (upd : bool).
Hypothesis eqb_sym : forall a b, eqb a b = eqb b a.
Hypothesis eqb_trans : forall a b c, eqb a b = true -> eqb b c = true -> eqb a c = true.
Hypothesis hash_eqb : forall a b, eqb a b = true -> hash a = hash b.

Notation cell := (Simple.cell K V).
Notation chain := (list (Simple.cell K V)).
Notation cfind := (cfind K V eqb hash).
Notation cok := (cok K V hash).
Notation cuniq := (cuniq K V eqb).
Notation ceqb := (ceqb K V eqb).
Notation gidx := (gidx K hash).
Notation useY := (useY K hash).
Notation cellY := (cellY K V hash).
Notation is_full := (is_full K V).
Notation pad := (pad K V).
Notation gmap := (gmap K V).
Notation gB := (gB K V).
Notation cur := (cur K V).
Notation old := (old K V).
Notation same := (same K V).
Notation nev := (nev K V).
Notation gcnt := (gcnt K V).
Notation oldB := (oldB K V).
Notation growing := (growing K V).
Notation with_cur := (with_cur K V).
Notation mkG := (mkG K V).
Notation glookup := (glookup K V eqb hash).
Notation evacuate := (evacuate K V hash).
Notation advance := (advance K V).
Notation growWork := (growWork K V hash).
Notation hashGrow := (hashGrow K V).
Notation gset := (gset K V eqb hash upd).
Notation gdel := (gdel K V eqb hash).
Notation gclear := (gclear K V).
Notation afind := (afind K V eqb).
Notation aset := (aset K V eqb).
Notation adel := (adel K V eqb).

Definition p2 (b : N) : nat := N.to_nat (2 ^ b).

(* ---------- arithmetic of bucket indexes ---------- *)
Lemma p2_pos b : (0 < p2 b)%nat.
Proof. unfold p2. assert (2 ^ b <> 0) by (apply N.pow_nonzero; discriminate). lia. Qed.
Lemma p2_succ b : p2 (b + 1) = (2 * p2 b)%nat.
Proof. unfold p2. rewrite N.add_1_r, N.pow_succ_r', N2Nat.inj_mul. change (N.to_nat 2) with 2%nat. lia. Qed.
Lemma gidx_lt b k : (gidx b k < p2 b)%nat.
Proof.
  unfold Grow.gidx, Simple.idx, p2.
  assert (hash k mod 2 ^ b < 2 ^ b) by (apply N.mod_lt; apply N.pow_nonzero; discriminate). lia.
Qed.
Lemma gidx_split b k : gidx (b + 1) k = (gidx b k + if useY b k then p2 b else 0)%nat.
Proof.
  unfold Grow.gidx, Simple.idx, Grow.useY, p2.
  assert (P : 2 ^ b <> 0) by (apply N.pow_nonzero; discriminate).
  rewrite N.add_1_r, N.pow_succ_r', (N.mul_comm 2), N.mod_mul_r by (auto; discriminate).
  assert (H2 : (hash k / 2 ^ b) mod 2 < 2) by (apply N.mod_lt; discriminate).
  remember ((hash k / 2 ^ b) mod 2) as x eqn:Hx. clear Hx.
  remember (hash k mod 2 ^ b) as y eqn:Hy. clear Hy.
  remember (2 ^ b) as z eqn:Hz. clear Hz P.
  destruct (x =? 0) eqn:E; simpl.
  - apply N.eqb_eq in E. subst x. rewrite N.mul_0_r, N.add_0_r. lia.
  - apply N.eqb_neq in E. assert (H1 : x = 1) by lia. subst x. rewrite N.mul_1_r, N2Nat.inj_add. reflexivity.
Qed.
Lemma gidx_eqb b a c : eqb a c = true -> gidx b a = gidx b c.
Proof. intros H. unfold Grow.gidx, Simple.idx. now rewrite (hash_eqb _ _ H). Qed.
Lemma useY_eqb b a c : eqb a c = true -> useY b a = useY b c.
Proof. intros H. unfold Grow.useY. now rewrite (hash_eqb _ _ H). Qed.

(* ---------- lists ---------- *)
Lemma set_nth_length {A} i (x : A) l : length (set_nth i x l) = length l.
Proof. apply upd_nth_length. Qed.
Lemma nth_set_same {A} i (x : A) l d : (i < length l)%nat -> nth i (set_nth i x l) d = x.
Proof. intros. unfold set_nth. now rewrite nth_upd_same. Qed.
Lemma nth_set_other {A} i j (x : A) l d : i <> j -> nth j (set_nth i x l) d = nth j l d.
Proof. intros. unfold set_nth. now rewrite nth_upd_other. Qed.
Lemma nth_some_lt {A} j (l : list (option A)) c : nth j l None = Some c -> (j < length l)%nat.
Proof.
  intros H. destruct (Nat.lt_ge_cases j (length l)); auto. rewrite nth_overflow in H by auto. discriminate.
Qed.
Lemma nth_repeat_nil' {A} i n : nth i (repeat (@nil A) n) [] = [].
Proof. revert i; induction n; destruct i; simpl; auto. Qed.

(* ---------- chains: filtering and padding ---------- *)
Lemma cfind_app_empty k l n : cfind k (l ++ repeat Empty n) = cfind k l.
Proof.
  induction l as [|x l IH]; simpl.
  - induction n; simpl; auto.
  - now rewrite IH.
Qed.
Lemma cfind_pad k l : cfind k (pad l) = cfind k l.
Proof. apply cfind_app_empty. Qed.

Lemma cfind_filter k (p : cell -> bool) c :
  (forall x, In x c -> cmatch K V eqb hash k x = true -> p x = true) ->
  cfind k (filter p c) = cfind k c.
Proof.
  induction c as [|x c IH]; simpl; auto. intros H.
  destruct (p x) eqn:Ep; simpl.
  - rewrite IH; auto.
  - destruct (cmatch K V eqb hash k x) eqn:Em.
    + rewrite (H x) in Ep; auto. discriminate.
    + apply IH. auto.
Qed.

Lemma Forall_filter {A} (P : A -> Prop) p l : Forall P l -> Forall P (filter p l).
Proof. induction 1; simpl; auto. destruct (p x); auto. Qed.

Lemma cuniq_filter (p : cell -> bool) c : cuniq c -> cuniq (filter p c).
Proof.
  induction c as [|x c IH]; simpl; auto. intros [H1 H2].
  destruct (p x); simpl; auto. split; auto.
  intros y Hy. apply filter_In in Hy. apply H1. tauto.
Qed.

Lemma cne_empty_r x : cne K V eqb x Empty.
Proof. destruct x; simpl; auto. Qed.

Lemma cuniq_app_empty l n : cuniq l -> cuniq (l ++ repeat Empty n).
Proof.
  induction l as [|x l IH]; simpl.
  - intros _. apply cuniq_repeat.
  - intros [H1 H2]. split; auto. intros y Hy. apply in_app_or in Hy. destruct Hy as [Hy|Hy]; auto.
    apply repeat_spec in Hy. subst. apply cne_empty_r.
Qed.

Lemma cok_app_empty b i l n : Forall (cok b i) l -> Forall (cok b i) (l ++ repeat Empty n).
Proof. intros. apply Forall_app. split; auto. apply cok_repeat. Qed.

Definition chain_ok (b : N) (i : nat) (c : chain) : Prop := Forall (cok b i) c /\ cuniq c.

Lemma chain_ok_nil b i : chain_ok b i [].
Proof. split; simpl; auto. Qed.

Lemma chain_ok_pad_filter b b' i i' (p : cell -> bool) c :
  chain_ok b i c ->
  (forall x, In x c -> p x = true -> cok b i x -> cok b' i' x) ->
  chain_ok b' i' (pad (filter p c)).
Proof.
  intros [F U] H. split.
  - apply cok_app_empty. apply Forall_forall. intros x Hx. apply filter_In in Hx. destruct Hx as [Hx Hp].
    apply H; auto. rewrite Forall_forall in F. auto.
  - apply cuniq_app_empty. now apply cuniq_filter.
Qed.

(* ---------- the invariant ---------- *)
(* GI m:
   1. the current array has 2^B chains; chain i holds only cells whose key hashes to i under
      B (and whose tophash is the key's), pairwise different keys;
   2. while growing the old array has 2^oldB entries, B = oldB (same-size) or oldB + 1;
   3. an old bucket j that is not evacuated holds only keys hashing to j under oldB, pairwise
      different, and its destination chain(s) j (and j + 2^oldB) of the current array are
      still empty;
   4. every old bucket below nevacuate is evacuated. *)
Definition GI (m : gmap) : Prop :=
  length (cur m) = p2 (gB m) /\
  (forall i, (i < length (cur m))%nat -> chain_ok (gB m) i (nth i (cur m) [])) /\
  (old m = [] \/ (length (old m) = p2 (oldB m) /\ (same m = false -> 1 <= gB m))) /\
  (forall j c, nth j (old m) None = Some c ->
      chain_ok (oldB m) j c /\ nth j (cur m) [] = [] /\
      (same m = false -> nth (j + p2 (oldB m)) (cur m) [] = [])) /\
  (forall j, N.of_nat j < nev m -> nth j (old m) None = None).

(* lookup without the count == 0 shortcut *)
Definition graw (m : gmap) (k : K) : option V :=
  match nth (gidx (oldB m) k) (old m) None with
  | Some c => cfind k c
  | None => cfind k (nth (gidx (gB m) k) (cur m) [])
  end.

Lemma glookup_graw m k : glookup m k = if gcnt m =? 0 then None else graw m k.
Proof. reflexivity. Qed.

Lemma gB_oldB m : GI m -> old m <> [] -> gB m = if same m then oldB m else oldB m + 1.
Proof.
  intros (_ & _ & [H|[_ H]] & _) Hn; [contradiction|]. unfold Grow.oldB in *.
  destruct (same m); auto. specialize (H eq_refl). lia.
Qed.

(* index under B from the index under oldB *)
Lemma gidx_cur m k : GI m -> old m <> [] ->
  gidx (gB m) k = (gidx (oldB m) k + if same m then 0 else if useY (oldB m) k then p2 (oldB m) else 0)%nat.
Proof.
  intros HG Hn. rewrite (gB_oldB m HG Hn). destruct (same m); [lia|]. apply gidx_split.
Qed.

Lemma cur_len m : GI m -> old m <> [] ->
  length (cur m) = if same m then p2 (oldB m) else (2 * p2 (oldB m))%nat.
Proof.
  intros HG Hn. assert (H := gB_oldB m HG Hn). destruct HG as (L & _). rewrite L, H.
  destruct (same m); auto. apply p2_succ.
Qed.

Lemma nth_default_none {A} j (o : list (option A)) d : nth j o (Some d) = None -> nth j o None = None.
Proof. revert j. induction o as [|x o IH]; destruct j; simpl; auto; discriminate. Qed.

(* ---------- advanceEvacuationMark ---------- *)
Lemma adv_loop_spec fuel (o : list (option chain)) n stop :
  n <= adv_loop K V fuel o n stop /\
  forall j, n <= N.of_nat j -> N.of_nat j < adv_loop K V fuel o n stop -> nth j o None = None.
Proof.
  revert n. induction fuel as [|f IH]; intros n; simpl.
  - split; [lia|]. intros; lia.
  - destruct ((n <? stop) && is_none (nth (N.to_nat n) o (Some []))) eqn:E.
    + apply andb_true_iff in E as [E1 E2]. destruct (IH (n + 1)) as [H1 H2]. split; [lia|].
      intros j Hj1 Hj2. destruct (N.eq_dec (N.of_nat j) n) as [Hje|Hne].
      * subst n. rewrite Nat2N.id in E2. destruct (nth j o (Some [])) eqn:En; [discriminate|].
        eapply nth_default_none; eauto.
      * apply H2; lia.
    + split; [lia|]. intros; lia.
Qed.

Lemma advance_ok m : GI m -> old m <> [] -> nth (N.to_nat (nev m)) (old m) None = None ->
  GI (advance m) /\ (forall k, graw (advance m) k = graw m k) /\
  gcnt (advance m) = gcnt m /\ gB (advance m) = gB m /\
  (old (advance m) = [] \/ (old (advance m) = old m /\ same (advance m) = same m)).
Proof.
  intros HG Hn Hnev. unfold Grow.advance.
  set (n2 := adv_loop K V (N.to_nat 1024) (old m) (nev m + 1) (N.min (nev m + 1 + 1024) (2 ^ oldB m))).
  destruct (adv_loop_spec (N.to_nat 1024) (old m) (nev m + 1) (N.min (nev m + 1 + 1024) (2 ^ oldB m))) as [A1 A2].
  fold n2 in A1, A2.
  assert (Hall : forall j, N.of_nat j < n2 -> nth j (old m) None = None).
  { intros j Hj. destruct HG as (_ & _ & _ & _ & G5).
    destruct (N.lt_ge_cases (N.of_nat j) (nev m)); [auto|].
    destruct (N.eq_dec (N.of_nat j) (nev m)) as [E|E].
    - rewrite <- E, Nat2N.id in Hnev. exact Hnev.
    - apply A2; lia. }
  destruct (n2 =? 2 ^ oldB m) eqn:Ed.
  - (* growing is all done *)
    apply N.eqb_eq in Ed.
    assert (Hnone : forall j, nth j (old m) None = None).
    { intros j. destruct (Nat.lt_ge_cases j (length (old m))) as [Hl|Hl]; [|now apply nth_overflow].
      apply Hall. destruct HG as (_ & _ & [H|[H _]] & _); [contradiction|].
      rewrite Ed. unfold p2 in H. lia. }
    split; [|split; [|simpl; auto]].
    + destruct HG as (G1 & G2 & G3 & G4 & G5). unfold GI; simpl.
      split; [exact G1|]. split; [exact G2|]. split; [left; reflexivity|].
      split; [intros j c Hj; destruct j; discriminate|]. intros j _. destruct j; reflexivity.
    + intros k. unfold graw; simpl. rewrite Hnone. now destruct (gidx (oldB (mkG (gB m) (cur m) [] false n2 (gcnt m))) k).
  - split; [|split; [|simpl; auto]].
    + destruct HG as (G1 & G2 & G3 & G4 & G5). unfold GI; simpl.
      split; [exact G1|]. split; [exact G2|]. split; [exact G3|]. split; [exact G4|].
      intros j Hj. apply Hall. exact Hj.
    + intros k. reflexivity.
Qed.

(* ---------- evacuate ---------- *)
Lemma cok_X b j x : cok b j x -> cellY b x = false -> cok (b + 1) j x.
Proof.
  destruct x as [|t k v]; simpl; auto. intros [Ht Hi] Hy. split; auto.
  change (idx K hash (b + 1) k) with (gidx (b + 1) k). rewrite gidx_split, Hy.
  change (gidx b k) with (idx K hash b k). lia.
Qed.
Lemma cok_Y b j x : cok b j x -> cellY b x = true -> cok (b + 1) (j + p2 b) x.
Proof.
  destruct x as [|t k v]; simpl; auto. intros [Ht Hi] Hy. split; auto.
  change (idx K hash (b + 1) k) with (gidx (b + 1) k). rewrite gidx_split, Hy.
  change (gidx b k) with (idx K hash b k). lia.
Qed.

Lemma cmatch_full k x : cmatch K V eqb hash k x = true -> is_full x = true.
Proof. destruct x; simpl; auto. Qed.

Lemma cmatch_cellY b j k x : cok b j x -> cmatch K V eqb hash k x = true -> cellY b x = useY b k.
Proof.
  intros Hc Hm. rewrite (cmatch_ok K V eqb hash b hash_eqb j k x Hc) in Hm.
  destruct x as [|t kx v]; simpl in *; [discriminate|]. symmetry. now apply useY_eqb.
Qed.

(* the state after the cells of old bucket j have been moved (before advanceEvacuationMark) *)
Lemma evac_moved m j c cur1 :
  GI m -> old m <> [] -> nth j (old m) None = Some c ->
  length cur1 = length (cur m) ->
  (forall i, i <> j -> (same m = false -> i <> (j + p2 (oldB m))%nat) -> nth i cur1 [] = nth i (cur m) []) ->
  (forall k, gidx (oldB m) k = j -> cfind k (nth (gidx (gB m) k) cur1 []) = cfind k c) ->
  (forall i, (i < length (cur m))%nat -> chain_ok (gB m) i (nth i cur1 [])) ->
  let m0 := mkG (gB m) cur1 (set_nth j None (old m)) (same m) (nev m) (gcnt m) in
  GI m0 /\ (forall k, graw m0 k = graw m k) /\ nth j (old m0) None = None /\ old m0 <> [].
Proof.
  intros HG Hn Ej P3 P1 P2 P4 m0.
  assert (Hj := nth_some_lt _ _ _ Ej).
  assert (Hlen := cur_len m HG Hn). assert (HgB := gB_oldB m HG Hn).
  destruct HG as (G1 & G2 & G3 & G4 & G5).
  assert (Hlo : length (old m) = p2 (oldB m)) by (destruct G3 as [?|[? _]]; [contradiction|auto]).
  split; [|split; [|split]].
  - unfold GI, m0; simpl. split; [congruence|]. split; [intros i Hi; apply P4; congruence|].
    split; [right; split; [now rewrite set_nth_length|destruct G3 as [?|[_ ?]]; [contradiction|auto]]|].
    split.
    + intros j' c' Hj'. destruct (Nat.eq_dec j j') as [<-|Hne].
      * rewrite nth_set_same in Hj' by auto. discriminate.
      * rewrite nth_set_other in Hj' by auto. destruct (G4 j' c' Hj') as (C1 & C2 & C3).
        assert (Hj'l := nth_some_lt _ _ _ Hj').
        split; [exact C1|]. split.
        -- rewrite P1; [exact C2|auto|intros _; lia].
        -- intros Hs. change (nth (j' + p2 (oldB m)) cur1 [] = []).
           rewrite P1; [exact (C3 Hs)|lia|intros _; lia].
    + intros j' Hj'. destruct (Nat.eq_dec j j') as [<-|Hne].
      * now rewrite nth_set_same.
      * rewrite nth_set_other by auto. auto.
  - intros k. unfold graw, m0, Grow.oldB; simpl. fold (oldB m).
    destruct (Nat.eq_dec j (gidx (oldB m) k)) as [E|Hne].
    + rewrite <- E, nth_set_same, Ej by auto. apply P2. auto.
    + rewrite nth_set_other by auto. destruct (nth (gidx (oldB m) k) (old m) None) eqn:Ek; auto.
      rewrite P1; auto.
      * assert (A := gidx_cur m k (conj G1 (conj G2 (conj G3 (conj G4 G5)))) Hn).
        assert (B := gidx_lt (oldB m) k). destruct (same m); [lia|]. destruct (useY (oldB m) k); lia.
      * intros Hs. assert (A := gidx_cur m k (conj G1 (conj G2 (conj G3 (conj G4 G5)))) Hn).
        assert (B := gidx_lt (oldB m) k). rewrite Hs in A. destruct (useY (oldB m) k); lia.
  - unfold m0; simpl. now rewrite nth_set_same.
  - unfold m0; simpl. intros E. apply (f_equal (@length _)) in E. rewrite set_nth_length in E. simpl in E. lia.
Qed.

Lemma chain_ok_pad b i l : chain_ok b i l -> chain_ok b i (pad l).
Proof. intros [F U]. split; [now apply cok_app_empty|now apply cuniq_app_empty]. Qed.

Lemma chain_ok_filter b b' i i' (p : cell -> bool) c :
  chain_ok b i c -> (forall x, In x c -> p x = true -> cok b i x -> cok b' i' x) ->
  chain_ok b' i' (filter p c).
Proof.
  intros [F U] H. split; [|now apply cuniq_filter].
  apply Forall_forall. intros x Hx. apply filter_In in Hx. destruct Hx as [Hx Hp].
  apply H; auto. rewrite Forall_forall in F. auto.
Qed.

Lemma maybe_advance m j : GI m -> old m <> [] -> nth j (old m) None = None ->
  let m' := if N.of_nat j =? nev m then advance m else m in
  GI m' /\ (forall k, graw m' k = graw m k) /\ gcnt m' = gcnt m /\ gB m' = gB m /\
  (old m' = [] \/ (old m' = old m /\ same m' = same m)).
Proof.
  intros HG Hn Hj. destruct (N.of_nat j =? nev m) eqn:E; simpl.
  - apply N.eqb_eq in E. apply advance_ok; auto. now rewrite <- E, Nat2N.id.
  - split; [auto|]. split; [auto|]. split; [auto|]. split; [auto|]. right; auto.
Qed.

Lemma evacuate_ok m j : GI m -> old m <> [] ->
  GI (evacuate m j) /\ (forall k, graw (evacuate m j) k = graw m k) /\
  gcnt (evacuate m j) = gcnt m /\ gB (evacuate m j) = gB m /\
  (old (evacuate m j) = [] \/
   (same (evacuate m j) = same m /\ length (old (evacuate m j)) = length (old m) /\
    nth j (old (evacuate m j)) None = None /\
    forall j', nth j' (old m) None = None -> nth j' (old (evacuate m j)) None = None)).
Proof.
  intros HG Hn. unfold Grow.evacuate.
  destruct (nth j (old m) None) as [c|] eqn:Ej.
  2:{ destruct (maybe_advance m j HG Hn Ej) as (A & B & C & D & [E|[E1 E2]]).
      - split; [exact A|]. split; [exact B|]. split; [exact C|]. split; [exact D|]. now left.
      - split; [exact A|]. split; [exact B|]. split; [exact C|]. split; [exact D|]. right. rewrite E1, E2. auto. }
  assert (Hj := nth_some_lt _ _ _ Ej).
  assert (Hlen := cur_len m HG Hn). assert (HgB := gB_oldB m HG Hn).
  assert (G4 : chain_ok (oldB m) j c /\ nth j (cur m) [] = [] /\
               (same m = false -> nth (j + p2 (oldB m)) (cur m) [] = [])) by (apply HG; auto).
  assert (G2 : forall i, (i < length (cur m))%nat -> chain_ok (gB m) i (nth i (cur m) [])) by apply HG.
  assert (Hlo : length (old m) = p2 (oldB m)).
  { destruct HG as (_ & _ & [?|[? _]] & _); [contradiction|auto]. }
  destruct G4 as (Cok & _ & _).
  assert (Hfull : chain_ok (oldB m) j (filter is_full c)) by (apply (chain_ok_filter (oldB m) (oldB m) j j); auto).
  match goal with |- context [mkG (gB m) ?c1 _ _ _ _] => set (cur1 := c1) end.
  assert (M : let m0 := mkG (gB m) cur1 (set_nth j None (old m)) (same m) (nev m) (gcnt m) in
              GI m0 /\ (forall k, graw m0 k = graw m k) /\ nth j (old m0) None = None /\ old m0 <> []).
  { apply (evac_moved m j c cur1 HG Hn Ej); unfold cur1; clear cur1; fold (p2 (oldB m));
    destruct (same m) eqn:Es.
    - apply set_nth_length.
    - now rewrite !set_nth_length.
    - intros i Hi _. apply nth_set_other. congruence.
    - intros i Hi Hi2. specialize (Hi2 eq_refl). rewrite nth_set_other by (intro Q; apply Hi2; symmetry; exact Q).
      rewrite nth_set_other by (intro Q; apply Hi; symmetry; exact Q). reflexivity.
    - intros k Hk. assert (A := gidx_cur m k HG Hn). rewrite Es in A. rewrite A, Hk, Nat.add_0_r.
      rewrite nth_set_same by lia. rewrite cfind_pad. apply cfind_filter. intros x _. apply cmatch_full.
    - intros k Hk. assert (A := gidx_cur m k HG Hn). rewrite Es in A. rewrite A, Hk.
      destruct Cok as [Fc _]. rewrite Forall_forall in Fc.
      destruct (useY (oldB m) k) eqn:Ey.
      + rewrite nth_set_same by (rewrite set_nth_length; lia). rewrite cfind_pad.
        rewrite cfind_filter.
        * apply cfind_filter. intros x _. apply cmatch_full.
        * intros x Hx Hm. apply filter_In in Hx. rewrite (cmatch_cellY (oldB m) j k x); auto. apply Fc. tauto.
      + rewrite Nat.add_0_r. rewrite nth_set_other by (assert (Q := p2_pos (oldB m)); lia).
        rewrite nth_set_same by lia. rewrite cfind_pad.
        rewrite cfind_filter.
        * apply cfind_filter. intros x _. apply cmatch_full.
        * intros x Hx Hm. apply filter_In in Hx. rewrite (cmatch_cellY (oldB m) j k x), Ey; auto. apply Fc. tauto.
    - intros i Hi. destruct (Nat.eq_dec j i) as [<-|Hne].
      + rewrite nth_set_same by auto. apply chain_ok_pad. rewrite HgB. exact Hfull.
      + rewrite nth_set_other by auto. auto.
    - intros i Hi. rewrite HgB.
      destruct (Nat.eq_dec (j + p2 (oldB m))%nat i) as [<-|Hne1].
      + rewrite nth_set_same by (rewrite set_nth_length; lia). apply chain_ok_pad.
        apply (chain_ok_filter (oldB m) (oldB m + 1) j (j + p2 (oldB m))); auto.
        intros x _ Hy Hc. now apply cok_Y.
      + rewrite nth_set_other by auto. destruct (Nat.eq_dec j i) as [<-|Hne].
        * rewrite nth_set_same by lia. apply chain_ok_pad.
          apply (chain_ok_filter (oldB m) (oldB m + 1) j j); auto.
          intros x _ Hy Hc. apply cok_X; auto. now destruct (cellY (oldB m) x).
        * rewrite nth_set_other by auto. rewrite <- HgB. auto. }
  cbv zeta in M. destruct M as (M1 & M2 & M3 & M4).
  match goal with |- context [if N.of_nat j =? nev ?mm then _ else _] => set (m0 := mm) in * end.
  destruct (maybe_advance m0 j M1 M4 M3) as (A & B & C & D & E).
  split; [exact A|]. split; [intros k; rewrite B; apply M2|]. split; [exact C|]. split; [exact D|].
  destruct E as [E|[E1 E2]]; [now left|right].
  rewrite E1, E2. unfold m0; simpl. split; auto. split; [apply set_nth_length|]. split; [now apply nth_set_same|].
  intros j' Hj'. destruct (Nat.eq_dec j j') as [<-|Hne]; [now apply nth_set_same|now rewrite nth_set_other].
Qed.

(* ---------- growWork ---------- *)
Lemma growWork_ok m k : GI m -> old m <> [] ->
  GI (growWork m k) /\ (forall k', graw (growWork m k) k' = graw m k') /\
  gcnt (growWork m k) = gcnt m /\
  nth (gidx (oldB (growWork m k)) k) (old (growWork m k)) None = None.
Proof.
  intros HG Hn. unfold Grow.growWork.
  destruct (evacuate_ok m (gidx (oldB m) k) HG Hn) as (A & B & C & D & E).
  set (m1 := evacuate m (gidx (oldB m) k)) in *.
  destruct E as [E|(E1 & E2 & E3 & E4)].
  - unfold Grow.growing. rewrite E. split; auto. split; auto. split; auto.
    rewrite E. now destruct (gidx (oldB m1) k).
  - assert (Hn1 : old m1 <> []).
    { intros Q. rewrite Q in E2. simpl in E2. destruct (old m); [contradiction|discriminate]. }
    assert (Ho : oldB m1 = oldB m) by (unfold Grow.oldB; now rewrite E1, D).
    unfold Grow.growing. destruct (old m1) eqn:Eo; [contradiction|]. rewrite <- Eo in *.
    destruct (evacuate_ok m1 (N.to_nat (nev m1)) A Hn1) as (A' & B' & C' & D' & E').
    set (m2 := evacuate m1 (N.to_nat (nev m1))) in *.
    split; auto. split; [intros k'; now rewrite B', B|]. split; [congruence|].
    destruct E' as [E'|(F1 & F2 & F3 & F4)].
    + rewrite E'. now destruct (gidx (oldB m2) k).
    + assert (Ho2 : oldB m2 = oldB m) by (unfold Grow.oldB; rewrite F1, D', E1, D; reflexivity).
      rewrite Ho2. apply F4. exact E3.
Qed.

(* ---------- hashGrow ---------- *)
Lemma nth_map_some {A} j (l : list A) d : (j < length l)%nat -> nth j (map Some l) None = Some (nth j l d).
Proof. revert j. induction l as [|x l IH]; destruct j; simpl; intros; try lia; auto. apply IH. lia. Qed.
Lemma nth_map_some_inv {A} j (l : list A) c d : nth j (map Some l) None = Some c -> (j < length l)%nat /\ c = nth j l d.
Proof.
  intros H. assert (Hl : (j < length l)%nat).
  { apply nth_some_lt in H. now rewrite map_length in H. }
  split; auto. rewrite (nth_map_some j l d Hl) in H. congruence.
Qed.

Lemma hashGrow_ok m : GI m -> old m = [] ->
  GI (hashGrow m) /\ (forall k, graw (hashGrow m) k = graw m k) /\ gcnt (hashGrow m) = gcnt m.
Proof.
  intros (G1 & G2 & G3 & G4 & G5) Ho. unfold Grow.hashGrow.
  set (bigger := over (gcnt m + 1) (gB m)).
  set (b' := if bigger then gB m + 1 else gB m).
  assert (HoB : oldB (mkG b' (repeat [] (N.to_nat (2 ^ b'))) (map Some (cur m)) (negb bigger) 0 (gcnt m)) = gB m).
  { unfold Grow.oldB, b'; simpl. destruct bigger; simpl; lia. }
  split; [|split; [|reflexivity]].
  - unfold GI. rewrite HoB. simpl.
    split; [apply repeat_length|].
    split; [intros i _; fold (p2 b'); rewrite nth_repeat_nil'; apply chain_ok_nil|].
    split; [right; split; [rewrite map_length; exact G1|unfold b'; destruct bigger; simpl; [lia|discriminate]]|].
    split.
    + intros j c Hj. destruct (nth_map_some_inv j (cur m) c [] Hj) as [Hl ->].
      split; [apply G2; auto|]. split; [apply nth_repeat_nil'|intros _; apply nth_repeat_nil'].
    + intros j Hj. lia.
  - intros k. unfold graw. rewrite HoB. simpl. rewrite Ho.
    rewrite (nth_map_some (gidx (gB m) k) (cur m) []) by (rewrite G1; apply gidx_lt).
    now destruct (gidx (oldB m) k).
Qed.

(* ---------- changing the chain of a key whose old bucket is evacuated ---------- *)
Definition kdone (m : gmap) (k : K) : Prop := nth (gidx (oldB m) k) (old m) None = None.

Lemma gidx_cur_inj m k k' : GI m -> gidx (gB m) k' = gidx (gB m) k -> gidx (oldB m) k' = gidx (oldB m) k \/ old m = [].
Proof.
  intros HG E. destruct (old m) eqn:Eo; auto. left.
  assert (Hn : old m <> []) by congruence.
  assert (A := gidx_cur m k HG Hn). assert (A' := gidx_cur m k' HG Hn).
  assert (L := gidx_lt (oldB m) k). assert (L' := gidx_lt (oldB m) k').
  destruct (same m); [lia|]. destruct (useY (oldB m) k), (useY (oldB m) k'); lia.
Qed.

Lemma graw_done m k : kdone m k -> graw m k = cfind k (nth (gidx (gB m) k) (cur m) []).
Proof. intros H. unfold graw. now rewrite H. Qed.

Lemma kdone_same_chain m k k' : GI m -> kdone m k -> gidx (gB m) k' = gidx (gB m) k -> kdone m k'.
Proof.
  intros HG Hd E. unfold kdone in *. destruct (gidx_cur_inj m k k' HG E) as [H|H].
  - now rewrite H.
  - rewrite H. now destruct (gidx (oldB m) k').
Qed.

Lemma graw_with_cur m k f n k' : GI m -> kdone m k ->
  graw (with_cur m (upd_nth (gidx (gB m) k) f (cur m)) n) k' =
  if Nat.eq_dec (gidx (gB m) k') (gidx (gB m) k) then cfind k' (f (nth (gidx (gB m) k) (cur m) []))
  else graw m k'.
Proof.
  intros HG Hd. unfold graw, Grow.with_cur, Grow.oldB; simpl. fold (oldB m).
  destruct (Nat.eq_dec (gidx (gB m) k') (gidx (gB m) k)) as [E|Hne].
  - rewrite (kdone_same_chain m k k' HG Hd E). rewrite E.
    rewrite nth_upd_same; auto. destruct HG as (G1 & _). rewrite G1. apply gidx_lt.
  - destruct (nth (gidx (oldB m) k') (old m) None); auto.
    rewrite nth_upd_other; auto.
Qed.

Lemma GI_with_cur m k f n : GI m -> kdone m k ->
  chain_ok (gB m) (gidx (gB m) k) (f (nth (gidx (gB m) k) (cur m) [])) ->
  GI (with_cur m (upd_nth (gidx (gB m) k) f (cur m)) n).
Proof.
  intros HG Hd Hc. assert (HG' := HG). destruct HG as (G1 & G2 & G3 & G4 & G5).
  unfold GI, Grow.with_cur, Grow.oldB; simpl. fold (oldB m).
  split; [now rewrite upd_nth_length|]. split.
  - intros i Hi. rewrite upd_nth_length in Hi. destruct (Nat.eq_dec (gidx (gB m) k) i) as [<-|Hne].
    + rewrite nth_upd_same; auto.
    + rewrite nth_upd_other; auto.
  - split; [exact G3|]. split; [|exact G5].
    intros j c Hj. destruct (G4 j c Hj) as (C1 & C2 & C3). split; [exact C1|].
    assert (Hn : old m <> []) by (intros Q; rewrite Q in Hj; destruct j; discriminate).
    assert (A := gidx_cur m k HG' Hn). assert (L := gidx_lt (oldB m) k).
    assert (Lj := nth_some_lt _ _ _ Hj).
    assert (Hlo : length (old m) = p2 (oldB m)) by (destruct G3 as [?|[? _]]; [contradiction|auto]).
    assert (Hjk : j <> gidx (oldB m) k) by (intros Q; subst j; unfold kdone in Hd; congruence).
    split.
    + rewrite nth_upd_other; auto. destruct (same m); [lia|]. destruct (useY (oldB m) k); lia.
    + intros Hs. rewrite nth_upd_other; auto. rewrite Hs in A. destruct (useY (oldB m) k); lia.
Qed.

(* the state in which an assignment or deletion of k works: growWork done if growing *)
Lemma prep_ok m k : GI m ->
  let m1 := if growing m then growWork m k else m in
  GI m1 /\ (forall k', graw m1 k' = graw m k') /\ gcnt m1 = gcnt m /\ kdone m1 k.
Proof.
  intros HG. unfold Grow.growing. destruct (old m) eqn:Eo.
  - simpl. split; [exact HG|]. split; [reflexivity|]. split; [reflexivity|].
    unfold kdone. rewrite Eo. now destruct (gidx (oldB m) k).
  - apply growWork_ok; auto. congruence.
Qed.

Lemma idx_ne_eqb b k k' : gidx b k' <> gidx b k -> eqb k' k = false.
Proof. intros H. destruct (eqb k' k) eqn:E; auto. exfalso. apply H. now apply gidx_eqb. Qed.

(* ---------- mapassign ---------- *)
Lemma gset_ok tries : forall m k v, GI m ->
  GI (gset tries m k v) /\
  (forall k', graw (gset tries m k v) k' = if eqb k' k then Some v else graw m k') /\
  gcnt (gset tries m k v) = gcnt m + match graw m k with Some _ => 0 | None => 1 end.
Proof.
  assert (INS : forall m1 k v, GI m1 -> kdone m1 k -> cfind k (nth (gidx (gB m1) k) (cur m1) []) = None ->
    let m' := with_cur m1 (upd_nth (gidx (gB m1) k) (cput K V hash k v) (cur m1)) (gcnt m1 + 1) in
    GI m' /\ (forall k', graw m' k' = if eqb k' k then Some v else graw m1 k')).
  { intros m1 k v HG Hd Hf. assert (Hc : chain_ok (gB m1) (gidx (gB m1) k) (nth (gidx (gB m1) k) (cur m1) [])).
    { destruct HG as (G1 & G2 & _). apply G2. rewrite G1. apply gidx_lt. }
    destruct Hc as [F U]. split.
    - apply GI_with_cur; auto. split.
      + apply cok_cput; auto.
      + apply (cuniq_cput K V eqb hash (gB m1) eqb_sym hash_eqb (gidx (gB m1) k)); auto.
    - intros k'. rewrite graw_with_cur by auto.
      destruct (Nat.eq_dec (gidx (gB m1) k') (gidx (gB m1) k)) as [E|Hne].
      + rewrite (cfind_cput K V eqb hash (gB m1) eqb_sym eqb_trans hash_eqb (gidx (gB m1) k)) by auto.
        rewrite (graw_done m1 k') by (eapply kdone_same_chain; eauto). now rewrite E.
      + now rewrite (idx_ne_eqb _ _ _ Hne). }
  induction tries as [|t IH]; intros m k v HG; cbn [Grow.gset];
    destruct (prep_ok m k HG) as (A & B & C & D);
    set (m1 := if growing m then growWork m k else m) in *;
    rewrite <- (B k), (graw_done m1 k D);
    (destruct (cfind k (nth (gidx (gB m1) k) (cur m1) [])) as [w|] eqn:Hf).
  1,3: (* update *)
    assert (Hc : chain_ok (gB m1) (gidx (gB m1) k) (nth (gidx (gB m1) k) (cur m1) []))
      by (destruct A as (G1 & G2 & _); apply G2; rewrite G1; apply gidx_lt);
    destruct Hc as [F U]; split; [|split; [|simpl; lia]];
    [ apply GI_with_cur; auto; split;
      [ apply cok_cupd; auto
      | apply (cuniq_cupd K V eqb hash upd (gB m1) eqb_sym eqb_trans hash_eqb (gidx (gB m1) k)); auto ]
    | intros k'; rewrite graw_with_cur by auto;
      destruct (Nat.eq_dec (gidx (gB m1) k') (gidx (gB m1) k)) as [E|Hne];
      [ rewrite (cfind_cupd K V eqb hash upd (gB m1) eqb_sym eqb_trans hash_eqb (gidx (gB m1) k)) by auto;
        rewrite Hf, <- (B k'), (graw_done m1 k') by (eapply kdone_same_chain; eauto); now rewrite E
      | rewrite (idx_ne_eqb _ _ _ Hne); apply B ] ].
  - (* no tries left: insert *)
    destruct (INS m1 k v A D Hf) as [I1 I2]. split; [exact I1|]. split; [|simpl; lia].
    intros k'. rewrite I2, B. reflexivity.
  - destruct (negb (growing m1) && (over (gcnt m1 + 1) (gB m1) || tooMany (novf K V (cur m1)) (gB m1))) eqn:Eg.
    + (* start a growth, then again *)
      apply andb_true_iff in Eg as [Eg _]. unfold Grow.growing in Eg.
      assert (Ho : old m1 = []) by (destruct (old m1); [auto|discriminate]).
      destruct (hashGrow_ok m1 A Ho) as (H1 & H2 & H3).
      destruct (IH (hashGrow m1) k v H1) as (J1 & J2 & J3).
      split; [exact J1|]. split.
      * intros k'. rewrite J2, H2, B. reflexivity.
      * rewrite J3, H2, H3, (graw_done m1 k D), Hf. lia.
    + destruct (INS m1 k v A D Hf) as [I1 I2]. split; [exact I1|]. split; [|simpl; lia].
      intros k'. rewrite I2, B. reflexivity.
Qed.

(* ---------- mapdelete ---------- *)
Lemma graw_congr m k k' : GI m -> eqb k' k = true -> graw m k' = graw m k.
Proof.
  intros (G1 & G2 & G3 & G4 & G5) E. unfold graw.
  rewrite (gidx_eqb (oldB m) k' k E), (gidx_eqb (gB m) k' k E).
  destruct (nth (gidx (oldB m) k) (old m) None) as [c|] eqn:Ec.
  - destruct (G4 _ _ Ec) as ([F _] & _).
    apply (cfind_congr K V eqb hash (oldB m) eqb_sym eqb_trans hash_eqb (gidx (oldB m) k)); auto.
  - assert (Hl : (gidx (gB m) k < length (cur m))%nat) by (rewrite G1; apply gidx_lt).
    destruct (G2 _ Hl) as [F _].
    apply (cfind_congr K V eqb hash (gB m) eqb_sym eqb_trans hash_eqb (gidx (gB m) k)); auto.
Qed.

Lemma gdel_ok m k : GI m -> gcnt m <> 0 ->
  GI (gdel m k) /\
  (forall k', graw (gdel m k) k' = if eqb k' k then None else graw m k') /\
  gcnt (gdel m k) = gcnt m - match graw m k with Some _ => 1 | None => 0 end.
Proof.
  intros HG Hc. unfold Grow.gdel. apply N.eqb_neq in Hc. rewrite Hc.
  destruct (prep_ok m k HG) as (A & B & C & D).
  set (m1 := if growing m then growWork m k else m) in *.
  rewrite <- (B k), (graw_done m1 k D).
  destruct (cfind k (nth (gidx (gB m1) k) (cur m1) [])) as [w|] eqn:Hf.
  - assert (Hch : chain_ok (gB m1) (gidx (gB m1) k) (nth (gidx (gB m1) k) (cur m1) []))
      by (destruct A as (G1 & G2 & _); apply G2; rewrite G1; apply gidx_lt).
    destruct Hch as [F U]. split; [|split; [|simpl; lia]].
    + apply GI_with_cur; auto. split; [now apply cok_cdel|now apply cuniq_cdel].
    + intros k'. rewrite graw_with_cur by auto.
      destruct (Nat.eq_dec (gidx (gB m1) k') (gidx (gB m1) k)) as [E|Hne].
      * rewrite (cfind_cdel K V eqb hash (gB m1) eqb_sym eqb_trans hash_eqb (gidx (gB m1) k)) by auto.
        rewrite <- (B k'), (graw_done m1 k') by (eapply kdone_same_chain; eauto). now rewrite E.
      * rewrite (idx_ne_eqb _ _ _ Hne). apply B.
  - split; [exact A|]. split; [|lia].
    intros k'. destruct (eqb k' k) eqn:E; [|apply B].
    rewrite (graw_congr m1 k k' A E), (graw_done m1 k D). exact Hf.
Qed.

(* ---------- fresh and cleared maps ---------- *)
Lemma fresh_ok b : GI (mkG b (repeat [] (N.to_nat (2 ^ b))) [] false 0 0) /\
  forall k, graw (mkG b (repeat [] (N.to_nat (2 ^ b))) [] false 0 0) k = None.
Proof.
  split.
  - unfold GI; simpl. split; [apply repeat_length|].
    split; [intros i _; rewrite nth_repeat_nil'; apply chain_ok_nil|].
    split; [now left|]. split; [intros j c Hj; destruct j; discriminate|intros j _; now destruct j].
  - intros k. unfold graw; simpl.
    destruct (gidx (oldB (mkG b (repeat [] (N.to_nat (2 ^ b))) [] false 0 0)) k); now rewrite nth_repeat_nil'.
Qed.

(* ---------- refinement ---------- *)
Notation kuniq := (kuniq K eqb).

Definition R (m : gmap) (l : list (K * V)) : Prop :=
  GI m /\ (forall k, graw m k = afind k l) /\ gcnt m = N.of_nat (length l) /\ kuniq (map fst l).

Lemma R_fresh b : R (gempty K V b) [].
Proof.
  destruct (fresh_ok b) as [A B]. split; [exact A|]. split; [exact B|]. split; simpl; auto.
Qed.

Lemma R_lookup m l k : R m l -> glookup m k = afind k l.
Proof.
  intros (HG & HL & HC & HU). rewrite glookup_graw. destruct (gcnt m =? 0) eqn:E; [|apply HL].
  apply N.eqb_eq in E. rewrite E in HC. destruct l; [reflexivity|simpl in HC; lia].
Qed.

Lemma R_step m l o : R m l ->
  R (fst (gstep K V eqb hash upd m o)) (fst (astep K V eqb l o)) /\
  snd (gstep K V eqb hash upd m o) = snd (astep K V eqb l o).
Proof.
  intros HR. assert (HR' := HR). destruct HR as (HG & HL & HC & HU).
  destruct o as [k v|k|k| |]; cbn [Grow.gstep Simple.astep fst snd].
  - (* set *) split; auto. destruct (gset_ok 4 m k v HG) as (A & B & C).
    split; [exact A|]. split; [|split].
    + intros k'. rewrite B, (afind_aset K V eqb eqb_sym eqb_trans), HL. reflexivity.
    + rewrite C, HL, length_aset. destruct (afind k l); rewrite HC; lia.
    + now apply kuniq_aset.
  - (* get *) split; [exact HR'|]. f_equal. now apply R_lookup.
  - (* delete *) split; auto. destruct (gcnt m =? 0) eqn:Ec.
    + apply N.eqb_eq in Ec. unfold Grow.gdel. rewrite Ec. simpl.
      rewrite Ec in HC. destruct l; [exact HR'|simpl in HC; lia].
    + apply N.eqb_neq in Ec. destruct (gdel_ok m k HG Ec) as (A & B & C).
      split; [exact A|]. split; [|split].
      * intros k'. rewrite B, (afind_adel K V eqb eqb_sym eqb_trans), HL. reflexivity.
      * rewrite C, HL, (length_adel K V eqb eqb_sym eqb_trans) by auto.
        destruct (afind k l) eqn:Hf; rewrite HC; [|lia].
        assert (length l <> 0)%nat; [|lia]. destruct l; [discriminate|simpl; lia].
      * now apply kuniq_adel.
  - (* clear *) split; auto. unfold Grow.gclear. destruct (gcnt m =? 0) eqn:Ec.
    + apply N.eqb_eq in Ec. rewrite Ec in HC. destruct l; [exact HR'|simpl in HC; lia].
    + destruct (fresh_ok (gB m)) as [A B]. split; [exact A|]. split; [exact B|]. split; simpl; auto.
  - (* len *) split; [exact HR'|]. now rewrite HC.
Qed.

Theorem grun_refines : forall ops m l, R m l ->
  grun K V eqb hash upd m ops = arun K V eqb l ops.
Proof.
  induction ops as [|o ops IH]; simpl; auto. intros m l HR.
  destruct (R_step m l o HR) as [HR' Hres].
  destruct (gstep K V eqb hash upd m o) as [m1 r1], (astep K V eqb l o) as [l1 r2]; simpl in *.
  subst. f_equal. now apply IH.
Qed.

Definition gfinal (b : N) (ops : list (sop K V)) : gmap :=
  fold_left (fun m o => fst (gstep K V eqb hash upd m o)) ops (gempty K V b).
Definition afinal' (ops : list (sop K V)) : list (K * V) :=
  fold_left (fun l o => fst (astep K V eqb l o)) ops [].

Lemma R_gfinal b ops : R (gfinal b ops) (afinal' ops).
Proof.
  unfold gfinal, afinal'. generalize (R_fresh b). generalize (gempty K V b), (@nil (K * V)).
  induction ops as [|o ops IH]; simpl; auto. intros m l HR. apply IH. now destruct (R_step m l o HR).
Qed.

(* ---------- the statements used by Props.v ---------- *)
Lemma glookup_of_graw m m' : gcnt m' = gcnt m -> (forall k, graw m' k = graw m k) ->
  forall k, glookup m' k = glookup m k.
Proof. intros C H k. now rewrite !glookup_graw, C, H. Qed.

Lemma grow_preserves m : GI m -> old m = [] ->
  GI (hashGrow m) /\ forall k, glookup (hashGrow m) k = glookup m k.
Proof.
  intros HG Ho. destruct (hashGrow_ok m HG Ho) as (A & B & C). split; auto. now apply glookup_of_graw.
Qed.

Lemma evacuate_preserves m j : GI m -> old m <> [] ->
  GI (evacuate m j) /\ forall k, glookup (evacuate m j) k = glookup m k.
Proof.
  intros HG Hn. destruct (evacuate_ok m j HG Hn) as (A & B & C & _). split; auto. now apply glookup_of_graw.
Qed.

Lemma growWork_preserves m k : GI m -> old m <> [] ->
  GI (growWork m k) /\ forall k', glookup (growWork m k) k' = glookup m k'.
Proof.
  intros HG Hn. destruct (growWork_ok m k HG Hn) as (A & B & C & _). split; auto. now apply glookup_of_graw.
Qed.

Lemma reachable_GI b ops : GI (gfinal b ops).
Proof. now destruct (R_gfinal b ops). Qed.

End GrowProofs.
