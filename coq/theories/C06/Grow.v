(* C06 - layer 2: the bucket model of Simple.v extended with growth as map.go does
   it: hashGrow (doubling or same-size) keeps the old bucket array next to a new,
   empty one; evacuate moves ONE old bucket into its X / Y halves (same index for a
   same-size growth); growWork evacuates the bucket an assignment or deletion is
   about to use plus the bucket at nevacuate; lookups consult the old bucket while
   it is not evacuated; advanceEvacuationMark drops the old array when every bucket
   is evacuated.  Still abstract in the hash (Section variable), no pointers: a bucket
   chain is a list of cells, an evacuated old bucket is None.
   Executable; no proofs here (GrowProofs.v). *)
From LLGoV Require Export C06.Simple.
Local Open Scope N_scope.

Section Grow.
Variables (K V : Type) (eqb : K -> K -> bool) (hash : K -> N).
Variable upd : bool.

Notation cell := (Simple.cell K V).
Notation chain := (list (Simple.cell K V)).

Definition is_full (x : cell) : bool := match x with Full _ _ _ => true | Empty => false end.

(* evacuate: hash & newbit != 0, newbit = 2^b *)
Definition useY (b : N) (k : K) : bool := negb ((hash k / 2 ^ b) mod 2 =? 0).
Definition cellY (b : N) (x : cell) : bool := match x with Full _ k _ => useY b k | Empty => false end.

(* a destination chain: the moved cells in order, the rest of the last bucket empty *)
Definition pad (l : chain) : chain := l ++ repeat Empty ((8 - length l mod 8) mod 8)%nat.

Record gmap := mkG {
  gB : N;                           (* log2 of the number of buckets *)
  cur : list chain;                 (* h.buckets *)
  old : list (option chain);        (* h.oldbuckets: [] when not growing; None = evacuated *)
  same : bool;                      (* flag sameSizeGrow *)
  nev : N;                          (* h.nevacuate *)
  gcnt : N }.                       (* h.count *)

Definition growing (m : gmap) : bool := match old m with [] => false | _ => true end.
Definition oldB (m : gmap) : N := if same m then gB m else gB m - 1.
Definition gidx (b : N) (k : K) : nat := idx K hash b k.
Definition set_nth {A} (i : nat) (x : A) (l : list A) : list A := upd_nth i (fun _ => x) l.

Definition gempty (b : N) : gmap := mkG b (repeat [] (N.to_nat (2 ^ b))) [] false 0 0.

(* mapaccess: the old bucket while it is not evacuated, else the current one *)
Definition glookup (m : gmap) (k : K) : option V :=
  if gcnt m =? 0 then None else
  match nth (gidx (oldB m) k) (old m) None with
  | Some c => cfind K V eqb hash k c
  | None => cfind K V eqb hash k (nth (gidx (gB m) k) (cur m) [])
  end.

(* advanceEvacuationMark *)
Definition is_none {A} (o : option A) : bool := match o with None => true | Some _ => false end.
Fixpoint adv_loop (fuel : nat) (o : list (option chain)) (n stop : N) : N :=
  match fuel with
  | O => n
  | S f => if (n <? stop) && is_none (nth (N.to_nat n) o (Some [])) then adv_loop f o (n + 1) stop else n
  end.

Definition advance (m : gmap) : gmap :=
  let newbit := 2 ^ oldB m in
  let n1 := nev m + 1 in
  let stop := N.min (n1 + 1024) newbit in
  let n2 := adv_loop (N.to_nat 1024) (old m) n1 stop in
  if n2 =? newbit then mkG (gB m) (cur m) [] false n2 (gcnt m)      (* growing is all done *)
  else mkG (gB m) (cur m) (old m) (same m) n2 (gcnt m).

(* evacuate(t, h, oldbucket) *)
Definition evacuate (m : gmap) (j : nat) : gmap :=
  let m0 :=
    match nth j (old m) None with
    | None => m
    | Some c =>
      let f := filter is_full c in
      let nb := N.to_nat (2 ^ oldB m) in
      let cur1 :=
        if same m then set_nth j (pad f) (cur m)
        else set_nth (j + nb) (pad (filter (cellY (oldB m)) f))
                     (set_nth j (pad (filter (fun x => negb (cellY (oldB m) x)) f)) (cur m)) in
      mkG (gB m) cur1 (set_nth j None (old m)) (same m) (nev m) (gcnt m)
    end in
  if N.of_nat j =? nev m0 then advance m0 else m0.

Definition growWork (m : gmap) (k : K) : gmap :=
  let m1 := evacuate m (gidx (oldB m) k) in
  if growing m1 then evacuate m1 (N.to_nat (nev m1)) else m1.

Definition over (c b : N) : bool := (8 <? c) && (12 * (2 ^ b / 2) <? c).
(* number of overflow buckets of the current array (h.noverflow, exact for B < 16) *)
Definition novf (t : list chain) : N :=
  fold_right (fun c acc => acc + N.of_nat (Nat.pred (length c / 8))) 0 t.
Definition tooMany (n b : N) : bool := 2 ^ N.min b 15 <=? n.

Definition hashGrow (m : gmap) : gmap :=
  let bigger := over (gcnt m + 1) (gB m) in
  let b' := if bigger then gB m + 1 else gB m in
  mkG b' (repeat [] (N.to_nat (2 ^ b'))) (map Some (cur m)) (negb bigger) 0 (gcnt m).

Definition with_cur (m : gmap) (t : list chain) (c : N) : gmap :=
  mkG (gB m) t (old m) (same m) (nev m) c.

(* mapassign; [tries] bounds the goto again *)
Fixpoint gset (tries : nat) (m : gmap) (k : K) (v : V) : gmap :=
  let m1 := if growing m then growWork m k else m in
  let i := gidx (gB m1) k in
  let ins := with_cur m1 (upd_nth i (cput K V hash k v) (cur m1)) (gcnt m1 + 1) in
  match cfind K V eqb hash k (nth i (cur m1) []) with
  | Some _ => with_cur m1 (upd_nth i (cupd K V eqb hash upd k v) (cur m1)) (gcnt m1)
  | None =>
    match tries with
    | S t =>
      if negb (growing m1) && (over (gcnt m1 + 1) (gB m1) || tooMany (novf (cur m1)) (gB m1))
      then gset t (hashGrow m1) k v
      else ins
    | O => ins
    end
  end.

Definition gdel (m : gmap) (k : K) : gmap :=
  if gcnt m =? 0 then m else
  let m1 := if growing m then growWork m k else m in
  let i := gidx (gB m1) k in
  match cfind K V eqb hash k (nth i (cur m1) []) with
  | Some _ => with_cur m1 (upd_nth i (cdel K V eqb hash k) (cur m1)) (gcnt m1 - 1)
  | None => m1
  end.

Definition gclear (m : gmap) : gmap :=
  if gcnt m =? 0 then m else mkG (gB m) (repeat [] (N.to_nat (2 ^ gB m))) [] false 0 0.

(* a range loop over a quiescent, non-growing map *)
Definition giter (m : gmap) : list (K * V) := flat_map (live K V) (cur m).

Definition gstep (m : gmap) (o : sop K V) : gmap * sres V :=
  match o with
  | SSet _ _ k v => (gset 4 m k v, RUnit V)
  | SGet _ _ k => (m, RGet V (glookup m k))
  | SDel _ _ k => (gdel m k, RUnit V)
  | SClear _ _ => (gclear m, RUnit V)
  | SLen _ _ => (m, RLen V (gcnt m))
  end.

Fixpoint grun (m : gmap) (ops : list (sop K V)) : list (sres V) :=
  match ops with [] => [] | o :: ops' => let (m1, r) := gstep m o in r :: grun m1 ops' end.

End Grow.
