(* C06 - the layer-1 model (Simple.v) instantiated with the key equality of the
   correspondence harness, replaying the same histories as Model.run_history and
   producing the API-level projection (Model.run_history_obs format). *)
From LLGoV Require Import C06.Model C06.Simple.
Local Open Scope N_scope.

Definition sB : N := 6.
Definition shash (k : N) : N := canon k.
Definition S_lookup := slookup N N keq shash sB.

Definition simple_step (u : bool) (m : smap N N) (o : op) : smap N N * list N :=
  let c m := [cnt N N m] in
  match o with
  | OSet k v => let m1 := sset N N keq shash u sB m k v in (m1, c m1)
  | OGet k => (m, match S_lookup m k with Some v => [1; v] | None => [0; 0] end ++ c m)
  | OGet1 k => (m, match S_lookup m k with Some v => [v] | None => [0] end ++ c m)
  | ODel k => let m1 := sdel N N keq shash sB m k in (m1, c m1)
  | OClear => let m1 := sclear N N sB m in (m1, c m1)
  | OLen => (m, cnt N N m :: c m)
  | OIterNew _ | OIterNext _ => (m, c m)
  | ODrain => (m, flat_pairs (sort_pairs (siter N N m)) ++ c m)
  end.

Fixpoint simple_run (u : bool) (m : smap N N) (ops : list op) : list (list N) :=
  match ops with
  | [] => []
  | o :: ops' => let (m1, r) := simple_step u m o in r :: simple_run u m1 ops'
  end.

(* input: configuration, operations, whether the layer-1 model is compared too
   (not for nil maps and not for the witnesses of recorded findings) *)
Definition run_both (x : config * list op * bool) : list (list N) * (list op * bool * list (list N)) :=
  let '(c, ops, chk) := x in
  (run_history (c, ops), (ops, chk, if chk then simple_run (c_upd c) (empty_map N N sB) ops else [])).

(* used by the correspondence driver: input and expected trace in, list of failure
   codes out (1 = heap-level model differs, 2 = layer-1 model differs); expected []. *)
Definition check_both (xe : (config * list op * bool) * list (list N)) : list N :=
  let (x, expected) := xe in
  let '(full, (ops, chk, simple)) := run_both x in
  (if trace_eqb full expected then [] else [1]) ++
  (if negb chk || trace_eqb simple (map_obs ops expected) then [] else [2]).
Definition codes_eqb : list N -> list N -> bool := list_eqb N.eqb.

(* the two halves separately, to classify a mismatch *)
Definition simple_only (x : config * list op * bool) : list (list N) :=
  let '(c, ops, chk) := x in simple_run (c_upd c) (empty_map N N sB) ops.
Definition run_history3 (x : config * list op * bool) : list (list N) := run_history (fst x).
Definition run_history_obs3 (x : config * list op * bool) : list (list N) := run_history_obs (fst x).

(* ---------- the association-list specification replaying the same histories ---------- *)
Definition spec_step (l : list (N * N)) (o : op) : list (N * N) * list N :=
  let c (l : list (N * N)) := [N.of_nat (length l)] in
  match o with
  | OSet k v => let l1 := aset N N keq k v l in (l1, c l1)
  | OGet k => (l, match afind N N keq k l with Some v => [1; v] | None => [0; 0] end ++ c l)
  | OGet1 k => (l, match afind N N keq k l with Some v => [v] | None => [0] end ++ c l)
  | ODel k => let l1 := adel N N keq k l in (l1, c l1)
  | OClear => ([], c [])
  | OLen => (l, N.of_nat (length l) :: c l)
  | OIterNew _ | OIterNext _ => (l, c l)
  | ODrain => (l, flat_pairs (sort_pairs l) ++ c l)
  end.
Fixpoint spec_run (l : list (N * N)) (ops : list op) : list (list N) :=
  match ops with
  | [] => []
  | o :: ops' => let (l1, r) := spec_step l o in r :: spec_run l1 ops'
  end.

(* every entry produced by an iterator step is in the map at that moment *)
Definition pair_in (k v : N) (l : list (N * N)) : bool :=
  existsb (fun kv => (fst kv =? k) && (snd kv =? v)) l.
Fixpoint yields_present (l : list (N * N)) (ops : list op) (tr : list (list N)) : bool :=
  match ops, tr with
  | o :: ops', x :: tr' =>
    let l1 := fst (spec_step l o) in
    match o, x with
    | OIterNext _, 1 :: k :: v :: _ => pair_in k v l1 && yields_present l1 ops' tr'
    | _, _ => yields_present l1 ops' tr'
    end
  | _, _ => true
  end.

(* ---------- witnesses of the two recorded findings (same histories as the harness) ---------- *)
Definition wkey (nanflag low i : N) : N := K 7 nanflag i low.
Fixpoint sets (nanflag : N) (ks : list (N * N)) (v : N) : list op :=
  match ks with [] => [] | (low, i) :: r => OSet (wkey nanflag low i) v :: sets nanflag r (v + 1) end.
Definition upto (n : N) : list N := map N.of_nat (seq 0 (N.to_nat n)).

(* [fixed] = memclr* clear memory (the repaired stubs.go); false = the original empty stubs *)
Definition witness_clear (fixed : bool) : config * list op :=
  (mkC false 0 true false 12345 fixed false false,
   sets 0 (map (fun i => (1, i)) (upto 20) ++ map (fun i => (16 + i, 100 + i)) (upto 40)) 1
   ++ [OClear]
   ++ sets 0 (map (fun i => (2, 200 + i)) (upto 9) ++ map (fun i => (1, 300 + i)) (upto 9)
              ++ map (fun i => (32 + i, 400 + i)) (upto 90)) 61
   ++ map (fun i => OGet (wkey 0 2 (200 + i))) (upto 9) ++ [OLen]).

Definition witness_nan : config * list op :=
  (mkC false 0 false false 4242 true false false,
   map (fun i => OSet (wkey 2 i i) (100 + i)) (upto 4)
   ++ [OIterNew 0; OIterNext 0]
   ++ map (fun i => OSet (wkey 0 (10 + i) (10 + i)) (10 + i)) (upto 6)
   ++ [OClear; OSet (wkey 0 50 50) 50]
   ++ [OIterNext 0; OIterNext 0; OIterNext 0; OIterNext 0; OIterNext 0; OIterNext 0]).
