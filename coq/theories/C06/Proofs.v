(* C06 - proofs.  Part 1: the layer-1 bucket model (Simple.v) refines the
   association-list specification for every history, for any hash function and any
   partial equivalence used as key equality (NaN-like keys allowed).
   Part 2: facts about the heap-level model (Model.v). *)
From LLGoV Require Import C06.Model C06.Simple C06.SimpleRun.
From Coq Require Import Lia.
Local Open Scope N_scope.

Section SimpleProofs.
Variables (K V : Type) (eqb : K -> K -> bool) (hash : K -> N) (upd : bool) (B : N).
Hypothesis eqb_sym : forall a b, eqb a b = eqb b a.
Hypothesis eqb_trans : forall a b c, eqb a b = true -> eqb b c = true -> eqb a c = true.
Hypothesis hash_eqb : forall a b, eqb a b = true -> hash a = hash b.

Notation cell := (cell K V).
Notation top := (top K hash).
Notation cmatch := (cmatch K V eqb hash).
Notation cfind := (cfind K V eqb hash).
Notation cupd := (cupd K V eqb hash upd).
Notation cput := (cput K V hash).
Notation cdel := (cdel K V eqb hash).
Notation live := (live K V).
Notation idx := (idx K hash B).
Notation slookup := (slookup K V eqb hash B).
Notation sset := (sset K V eqb hash upd B).
Notation sdel := (sdel K V eqb hash B).
Notation afind := (afind K V eqb).
Notation aset := (aset K V eqb).
Notation adel := (adel K V eqb).

(* ---------- partial equivalence ---------- *)
Lemma eqb_congr_l a b c : eqb a b = true -> eqb a c = eqb b c.
Proof.
  intros H. destruct (eqb a c) eqn:E1, (eqb b c) eqn:E2; auto.
  - rewrite eqb_sym in H. rewrite (eqb_trans _ _ _ H E1) in E2. discriminate.
  - rewrite (eqb_trans _ _ _ H E2) in E1. discriminate.
Qed.
Lemma eqb_congr_r a b c : eqb a b = true -> eqb c a = eqb c b.
Proof. intros H. rewrite (eqb_sym c a), (eqb_sym c b). now apply eqb_congr_l. Qed.
Lemma top_eqb a b : eqb a b = true -> top a = top b.
Proof. intros H. unfold Simple.top. now rewrite (hash_eqb _ _ H). Qed.
Lemma idx_eqb a b : eqb a b = true -> idx a = idx b.
Proof. intros H. unfold Simple.idx. now rewrite (hash_eqb _ _ H). Qed.

(* ---------- cells ---------- *)
Definition cok (i : nat) (x : cell) : Prop :=
  match x with Full t k _ => t = top k /\ idx k = i | Empty => True end.
Definition ceqb (k : K) (x : cell) : bool :=
  match x with Full _ k' _ => eqb k k' | Empty => false end.
Definition cne (x y : cell) : Prop :=
  match x, y with Full _ a _, Full _ b _ => eqb a b = false | _, _ => True end.
Fixpoint cuniq (c : list cell) : Prop :=
  match c with [] => True | x :: c' => (forall y, In y c' -> cne x y) /\ cuniq c' end.

Lemma cmatch_ok i k x : cok i x -> cmatch k x = ceqb k x.
Proof.
  destruct x as [|t k' v]; simpl; auto. intros [Ht _]. subst t.
  destruct (eqb k k') eqn:E; [|apply andb_false_r].
  rewrite (top_eqb _ _ E). now rewrite N.eqb_refl.
Qed.

Lemma ceqb_congr k k' x : eqb k' k = true -> ceqb k' x = ceqb k x.
Proof. destruct x; simpl; auto. apply eqb_congr_l. Qed.

Lemma cfind_congr i k k' c : Forall (cok i) c -> eqb k' k = true -> cfind k' c = cfind k c.
Proof.
  intros F E. induction F as [|x c Hx F IH]; simpl; auto.
  rewrite !(cmatch_ok i) by auto. rewrite (ceqb_congr k k' x E). now rewrite IH.
Qed.

(* a key that is not found matches no cell *)
Lemma cfind_none i k c : Forall (cok i) c -> cfind k c = None -> Forall (fun x => ceqb k x = false) c.
Proof.
  intros F. induction F as [|x c Hx F IH]; simpl; intros H; constructor.
  - rewrite (cmatch_ok i) in H by auto. destruct (ceqb k x) eqn:E; auto.
    destruct x; simpl in *; discriminate.
  - apply IH. rewrite (cmatch_ok i) in H by auto. destruct (ceqb k x) eqn:E; auto.
    destruct x; simpl in *; discriminate.
Qed.

(* Lemma A: overwrite *)
Lemma cfind_cupd i k v k' c : Forall (cok i) c ->
  cfind k' (cupd k v c) = match cfind k c with
                          | Some _ => if eqb k' k then Some v else cfind k' c
                          | None => cfind k' c end.
Proof.
  intros F. induction F as [|x c Hx F IH]; simpl; auto.
  rewrite (cmatch_ok i k x Hx). destruct (ceqb k x) eqn:Ek.
  - destruct x as [|t kx vx]; simpl in *; [discriminate|]. destruct Hx as [-> Hi].
    assert (E1 : eqb k' kx = eqb k' k) by (symmetry; apply eqb_congr_r; exact Ek).
    assert (E2 : eqb k' (if upd then k else kx) = eqb k' k) by (destruct upd; auto).
    rewrite E1, E2. destruct (eqb k' k) eqn:E.
    + rewrite <- (top_eqb _ _ Ek), (top_eqb _ _ E), N.eqb_refl. reflexivity.
    + now rewrite !andb_false_r.
  - simpl. rewrite (cmatch_ok i k' x Hx). rewrite IH.
    destruct (ceqb k' x) eqn:Ek'; auto.
    destruct (cfind k c); auto. destruct (eqb k' k) eqn:E; auto.
    rewrite (ceqb_congr k k' x E) in Ek'. congruence.
Qed.

Lemma cok_cupd i k v c : idx k = i -> Forall (cok i) c -> Forall (cok i) (cupd k v c).
Proof.
  intros Hi F. induction F as [|x c Hx F IH]; simpl; auto.
  rewrite (cmatch_ok i k x Hx). destruct (ceqb k x) eqn:Ek; constructor; auto.
  destruct x as [|t kx vx]; simpl in *; auto. destruct Hx as [-> Hx]. destruct upd; auto.
  split; auto. symmetry. now apply top_eqb.
Qed.

(* Lemma B: insertion of an absent key *)
Lemma cfind_cput i k v k' c : Forall (cok i) c -> cfind k c = None ->
  cfind k' (cput k v c) = if eqb k' k then Some v else cfind k' c.
Proof.
  intros F. induction F as [|x c Hx F IH]; simpl; intros Hn.
  - destruct (eqb k' k) eqn:E; [|now rewrite andb_false_r].
    rewrite (top_eqb _ _ E), N.eqb_refl. reflexivity.
  - rewrite (cmatch_ok i k x Hx) in Hn.
    destruct x as [|t kx vx]; simpl in *.
    + destruct (eqb k' k) eqn:E; [|now rewrite andb_false_r].
      rewrite (top_eqb _ _ E), N.eqb_refl. reflexivity.
    + destruct (eqb k kx) eqn:Ek; [discriminate|]. destruct Hx as [-> Hi].
      rewrite (IH Hn). destruct (eqb k' kx) eqn:Ek'; simpl.
      * replace (eqb k' k) with false; auto.
        symmetry. rewrite (eqb_congr_l _ _ k Ek'). rewrite eqb_sym. exact Ek.
      * now rewrite andb_false_r.
Qed.

Lemma cok_repeat i n : Forall (cok i) (repeat (@Empty K V) n).
Proof. induction n; simpl; constructor; simpl; auto. Qed.

Lemma cok_cput i k v c : idx k = i -> Forall (cok i) c -> Forall (cok i) (cput k v c).
Proof.
  intros Hi F. induction F as [|x c Hx F IH]; simpl.
  - constructor; [simpl; auto|apply (cok_repeat i 7)].
  - destruct x; constructor; simpl; auto.
Qed.

(* uniqueness inside a chain *)
Lemma eqb_refl_of a b : eqb a b = true -> eqb a a = true /\ eqb b b = true.
Proof.
  intros H. split.
  - apply (eqb_trans a b a); auto. now rewrite eqb_sym.
  - apply (eqb_trans b a b); auto. now rewrite eqb_sym.
Qed.

Lemma cne_congr_r x t1 k1 v1 t2 k2 v2 :
  eqb k1 k2 = true -> cne x (Full t1 k1 v1) -> cne x (Full t2 k2 v2).
Proof. destruct x; simpl; auto. intros E H. now rewrite <- (eqb_congr_r _ _ k E). Qed.
Lemma cne_congr_l y t1 k1 v1 t2 k2 v2 :
  eqb k1 k2 = true -> cne (Full t1 k1 v1) y -> cne (Full t2 k2 v2) y.
Proof. destruct y; simpl; auto. intros E H. now rewrite <- (eqb_congr_l _ _ k E). Qed.

Lemma In_cupd i k v x c y : Forall (cok i) c -> (forall y0, In y0 c -> cne x y0) ->
  In y (cupd k v c) -> cne x y.
Proof.
  intros F. induction F as [|z c Hz F IH]; simpl; [tauto|]. intros H1.
  rewrite (cmatch_ok i k z Hz). destruct (ceqb k z) eqn:Ez; simpl.
  - intros [<-|Hy]; [|apply H1; auto].
    destruct z as [|t kz vz]; simpl in *; [discriminate|].
    apply (cne_congr_r x t kz vz); [|apply H1; auto].
    destruct upd; [now rewrite eqb_sym|]. now destruct (eqb_refl_of _ _ Ez).
  - intros [<-|Hy]; [apply H1; auto|]. apply IH; auto.
Qed.

Lemma cuniq_cupd i k v c : Forall (cok i) c -> cuniq c -> cuniq (cupd k v c).
Proof.
  intros F. induction F as [|x c Hx F IH]; simpl; auto. intros [H1 H2].
  rewrite (cmatch_ok i k x Hx). destruct (ceqb k x) eqn:Ek; simpl.
  - split; auto. intros y Hy. specialize (H1 y Hy).
    destruct x as [|t kx vx]; simpl in Ek; [discriminate|].
    apply (cne_congr_l y t kx vx); auto.
    destruct upd; [now rewrite eqb_sym|]. now destruct (eqb_refl_of _ _ Ek).
  - split; auto. intros y Hy. apply (In_cupd i k v x c y); auto.
Qed.

Lemma In_cput k v c y : In y (cput k v c) -> y = Full (top k) k v \/ y = Empty \/ In y c.
Proof.
  induction c as [|z c IH]; cbn [Simple.cput In].
  - intros [<-|Hy]; auto. apply repeat_spec in Hy. auto.
  - destruct z; cbn [In]; intros [<-|Hy]; auto. destruct (IH Hy) as [?|[?|?]]; auto.
Qed.

Lemma cuniq_repeat n : cuniq (repeat (@Empty K V) n).
Proof. induction n; simpl; auto. Qed.

Lemma cuniq_cput i k v c : Forall (cok i) c -> cfind k c = None -> cuniq c -> cuniq (cput k v c).
Proof.
  intros F. induction F as [|x c Hx F IH]; cbn [Simple.cput Simple.cfind cuniq]; intros Hn Hu.
  - split; auto.
    + intros y Hy. apply repeat_spec in Hy. subst. simpl. auto.
    + apply cuniq_repeat.
  - destruct Hu as [H1 H2]. rewrite (cmatch_ok i k x Hx) in Hn.
    destruct x as [|t kx vx]; simpl in *.
    + split; auto. intros y Hy. destruct y as [|ty ky vy]; auto.
      assert (Fn := cfind_none i k c F Hn). rewrite Forall_forall in Fn. apply (Fn _ Hy).
    + destruct (eqb k kx) eqn:Ek; [discriminate|]. split; auto.
      intros y Hy. destruct (In_cput _ _ _ _ Hy) as [->|[->|Hy']]; auto.
      * rewrite eqb_sym. exact Ek.
      * apply H1; auto.
Qed.

Lemma In_cdel k c y : In y (cdel k c) -> y = Empty \/ In y c.
Proof.
  induction c as [|z c IH]; simpl; [tauto|].
  destruct (cmatch k z); simpl; intros [<-|Hy]; auto. destruct (IH Hy); auto.
Qed.

Lemma cuniq_cdel k c : cuniq c -> cuniq (cdel k c).
Proof.
  induction c as [|x c IH]; simpl; auto. intros [H1 H2].
  destruct (cmatch k x); simpl; split; auto.
  intros y Hy. destruct (In_cdel _ _ _ Hy) as [->|Hy']; auto. destruct x; simpl; auto.
Qed.

Lemma cok_cdel i k c : Forall (cok i) c -> Forall (cok i) (cdel k c).
Proof.
  intros F. induction F as [|x c Hx F IH]; simpl; auto.
  destruct (cmatch k x); constructor; simpl; auto.
Qed.

Lemma cfind_none_intro i k c : Forall (cok i) c -> (forall y, In y c -> ceqb k y = false) -> cfind k c = None.
Proof.
  intros F. induction F as [|x c Hx F IH]; simpl; auto. intros H.
  rewrite (cmatch_ok i k x Hx), (H x) by auto. apply IH. intros; apply H; auto.
Qed.

(* Lemma C: deletion *)
Lemma cfind_cdel i k k' c : Forall (cok i) c -> cuniq c ->
  cfind k' (cdel k c) = if eqb k' k then None else cfind k' c.
Proof.
  intros F. induction F as [|x c Hx F IH]; simpl; intros Hu.
  - now destruct (eqb k' k).
  - destruct Hu as [H1 H2]. rewrite (cmatch_ok i k x Hx), (cmatch_ok i k' x Hx).
    destruct (ceqb k x) eqn:Ek; simpl.
    + destruct x as [|t kx vx]; simpl in *; [discriminate|].
      assert (E1 : eqb k' kx = eqb k' k) by (symmetry; apply eqb_congr_r; exact Ek).
      rewrite E1. destruct (eqb k' k) eqn:E; auto.
      apply (cfind_none_intro i); auto. intros y Hy. specialize (H1 y Hy).
      destruct y as [|ty ky vy]; simpl in *; auto.
      destruct (eqb k' ky) eqn:Ey; auto.
      rewrite <- H1. symmetry. apply (eqb_trans kx k' ky); auto.
      rewrite eqb_sym. exact E1.
    + rewrite (cmatch_ok i k' x Hx), (IH H2).
      destruct (ceqb k' x) eqn:Ek'; auto.
      destruct (eqb k' k) eqn:E; auto.
      rewrite (ceqb_congr k k' x E) in Ek'. congruence.
Qed.

(* ---------- the table ---------- *)
Lemma upd_nth_length {A} i (f : A -> A) l : length (upd_nth i f l) = length l.
Proof. revert i; induction l; destruct i; simpl; auto. Qed.
Lemma nth_upd_same {A} i (f : A -> A) l d : (i < length l)%nat -> nth i (upd_nth i f l) d = f (nth i l d).
Proof. revert i; induction l; destruct i; simpl; intros; auto; try lia. apply IHl. lia. Qed.
Lemma nth_upd_other {A} i j (f : A -> A) l d : i <> j -> nth j (upd_nth i f l) d = nth j l d.
Proof. revert i j; induction l; destruct i, j; simpl; intros; auto; try congruence. Qed.

Definition TI (t : list (list cell)) : Prop :=
  length t = N.to_nat (2 ^ B) /\
  forall i, (i < length t)%nat -> Forall (cok i) (nth i t []) /\ cuniq (nth i t []).

Lemma idx_lt t k : TI t -> (idx k < length t)%nat.
Proof.
  intros [L _]. rewrite L. unfold Simple.idx.
  assert (hash k mod 2 ^ B < 2 ^ B) by (apply N.mod_lt; apply N.pow_nonzero; discriminate). lia.
Qed.

Lemma TI_upd t k f : TI t ->
  (Forall (cok (idx k)) (f (nth (idx k) t [])) /\ cuniq (f (nth (idx k) t []))) ->
  TI (upd_nth (idx k) f t).
Proof.
  intros [L H] Hf. split; [now rewrite upd_nth_length|].
  intros i Hi. rewrite upd_nth_length in Hi.
  destruct (Nat.eq_dec (idx k) i) as [<-|Hne].
  - rewrite nth_upd_same by auto. auto.
  - rewrite nth_upd_other by auto. auto.
Qed.

Lemma nth_repeat_nil {A} i n : nth i (repeat (@nil A) n) [] = [].
Proof. revert i; induction n; destruct i; simpl; auto. Qed.

Lemma TI_empty : TI (tbl K V (empty_map K V B)).
Proof.
  simpl. split; [apply repeat_length|]. intros i _.
  rewrite nth_repeat_nil. simpl; auto.
Qed.

Lemma TI_chain t k : TI t -> Forall (cok (idx k)) (nth (idx k) t []) /\ cuniq (nth (idx k) t []).
Proof. intros HT. destruct HT as [L H]. apply H. apply idx_lt. split; auto. Qed.

(* the finite-map equations of the bucket model *)
Lemma sset_lookup m k v k' : TI (tbl K V m) ->
  slookup (sset m k v) k' = if eqb k' k then Some v else slookup m k'.
Proof.
  intros HT. destruct (TI_chain _ k HT) as [F U].
  unfold Simple.sset. destruct (slookup m k) eqn:Hs; unfold Simple.slookup in *; simpl;
    (destruct (Nat.eq_dec (idx k) (idx k')) as [E|NE];
     [rewrite <- E; rewrite nth_upd_same by (apply idx_lt; auto)
     |rewrite nth_upd_other by auto; destruct (eqb k' k) eqn:Ee; auto; apply idx_eqb in Ee; congruence]).
  - rewrite (cfind_cupd (idx k)) by auto. now rewrite Hs.
  - now rewrite (cfind_cput (idx k)) by auto.
Qed.

Lemma sset_TI m k v : TI (tbl K V m) -> TI (tbl K V (sset m k v)).
Proof.
  intros HT. destruct (TI_chain _ k HT) as [F U].
  unfold Simple.sset. destruct (slookup m k) eqn:Hs; simpl; apply TI_upd; auto.
  - split; [apply cok_cupd|apply (cuniq_cupd (idx k))]; auto.
  - split; [apply cok_cput|apply (cuniq_cput (idx k))]; auto.
Qed.

Lemma sdel_lookup m k k' : TI (tbl K V m) ->
  slookup (sdel m k) k' = if eqb k' k then None else slookup m k'.
Proof.
  intros HT. destruct (TI_chain _ k HT) as [F U].
  unfold Simple.sdel. destruct (slookup m k) eqn:Hs; unfold Simple.slookup in *; simpl.
  - destruct (Nat.eq_dec (idx k) (idx k')) as [E|NE].
    + rewrite <- E. rewrite nth_upd_same by (apply idx_lt; auto). now apply (cfind_cdel (idx k)).
    + rewrite nth_upd_other by auto. destruct (eqb k' k) eqn:Ee; auto. apply idx_eqb in Ee; congruence.
  - destruct (eqb k' k) eqn:Ee; auto.
    rewrite <- (idx_eqb _ _ Ee) in Hs. rewrite (idx_eqb _ _ Ee).
    destruct (TI_chain _ k HT) as [F' _]. rewrite (cfind_congr (idx k) k k') by auto.
    now rewrite (idx_eqb _ _ Ee) in Hs.
Qed.

Lemma sdel_TI m k : TI (tbl K V m) -> TI (tbl K V (sdel m k)).
Proof.
  intros HT. destruct (TI_chain _ k HT) as [F U].
  unfold Simple.sdel. destruct (slookup m k) eqn:Hs; simpl; auto. apply TI_upd; auto.
  split; [apply cok_cdel|apply cuniq_cdel]; auto.
Qed.

(* ---------- the specification side ---------- *)
Fixpoint kuniq (ks : list K) : Prop :=
  match ks with [] => True | a :: r => (forall b, In b r -> eqb a b = false) /\ kuniq r end.

Lemma afind_congr k k' l : eqb k' k = true -> afind k' l = afind k l.
Proof.
  intros E. unfold Simple.afind. induction l as [|kv l IH]; simpl; auto.
  rewrite (eqb_congr_l _ _ (fst kv) E). destruct (eqb k (fst kv)); auto.
Qed.

Lemma afind_app k l1 l2 : afind k (l1 ++ l2) = match afind k l1 with Some v => Some v | None => afind k l2 end.
Proof.
  unfold Simple.afind. induction l1 as [|kv l IH]; simpl; auto. destruct (eqb k (fst kv)); auto.
Qed.

Lemma afind_map_other k v k' l : eqb k' k = false ->
  afind k' (map (fun kv : K * V => if eqb k (fst kv) then (fst kv, v) else kv) l) = afind k' l.
Proof.
  intros E. unfold Simple.afind. induction l as [|kv l IH]; simpl; auto.
  destruct (eqb k (fst kv)) eqn:Ek; simpl.
  - rewrite <- (eqb_congr_r _ _ k' Ek), E. exact IH.
  - destruct (eqb k' (fst kv)); auto.
Qed.

Lemma afind_map_same k v k' l w : eqb k' k = true -> afind k l = Some w ->
  afind k' (map (fun kv : K * V => if eqb k (fst kv) then (fst kv, v) else kv) l) = Some v.
Proof.
  intros E. unfold Simple.afind. induction l as [|kv l IH]; simpl; [discriminate|].
  destruct (eqb k (fst kv)) eqn:Ek; simpl.
  - intros _. rewrite <- (eqb_congr_r _ _ k' Ek), E. reflexivity.
  - rewrite (eqb_congr_l _ _ (fst kv) E), Ek. exact IH.
Qed.

Lemma afind_aset k v k' l : afind k' (aset k v l) = if eqb k' k then Some v else afind k' l.
Proof.
  unfold Simple.aset. destruct (afind k l) eqn:Hf.
  - destruct (eqb k' k) eqn:E.
    + eapply afind_map_same; eauto.
    + now apply afind_map_other.
  - rewrite afind_app. destruct (eqb k' k) eqn:E.
    + rewrite (afind_congr k k' l E), Hf. unfold Simple.afind; simpl. now rewrite E.
    + unfold Simple.afind at 2; simpl. rewrite E. now destruct (afind k' l).
Qed.

Lemma afind_adel k k' l : afind k' (adel k l) = if eqb k' k then None else afind k' l.
Proof.
  unfold Simple.afind, Simple.adel. induction l as [|kv l IH]; simpl.
  - now destruct (eqb k' k).
  - destruct (eqb k (fst kv)) eqn:Ek; simpl.
    + rewrite IH. rewrite <- (eqb_congr_r _ _ k' Ek). now destruct (eqb k' k).
    + destruct (eqb k' (fst kv)) eqn:Ek'; [|exact IH].
      replace (eqb k' k) with false; auto. symmetry.
      rewrite (eqb_congr_l _ _ k Ek'). rewrite eqb_sym. exact Ek.
Qed.

Lemma afind_none k l : afind k l = None -> forall kv, In kv l -> eqb k (fst kv) = false.
Proof.
  unfold Simple.afind. induction l as [|a l IH]; simpl; [tauto|].
  destruct (eqb k (fst a)) eqn:E; [discriminate|]. intros H kv [<-|Hin]; auto.
Qed.

Lemma length_aset k v l : length (aset k v l) = (length l + match afind k l with Some _ => 0 | None => 1 end)%nat.
Proof. unfold Simple.aset. destruct (afind k l); [rewrite map_length|rewrite app_length; simpl]; lia. Qed.

Lemma keys_aset_upd k v l : map fst (map (fun kv : K * V => if eqb k (fst kv) then (fst kv, v) else kv) l) = map fst l.
Proof. induction l as [|kv l IH]; simpl; auto. rewrite IH. now destruct (eqb k (fst kv)). Qed.

Lemma kuniq_app ks a : kuniq ks -> (forall b, In b ks -> eqb b a = false) -> kuniq (ks ++ [a]).
Proof.
  induction ks as [|x ks IH]; simpl; [tauto|]. intros [H1 H2] H. split.
  - intros b Hb. apply in_app_or in Hb. destruct Hb as [Hb|[<-|[]]]; auto.
  - apply IH; auto.
Qed.

Lemma kuniq_aset k v l : kuniq (map fst l) -> kuniq (map fst (aset k v l)).
Proof.
  intros H. unfold Simple.aset. destruct (afind k l) eqn:Hf.
  - now rewrite keys_aset_upd.
  - rewrite map_app. simpl. apply kuniq_app; auto.
    intros b Hb. apply in_map_iff in Hb. destruct Hb as (kv & <- & Hin).
    rewrite eqb_sym. apply (afind_none k l Hf kv Hin).
Qed.

Lemma kuniq_adel k l : kuniq (map fst l) -> kuniq (map fst (adel k l)).
Proof.
  unfold Simple.adel. induction l as [|kv l IH]; simpl; auto. intros [H1 H2].
  destruct (eqb k (fst kv)); simpl; auto. split; auto.
  intros b Hb. apply H1. apply in_map_iff in Hb. destruct Hb as (x & <- & Hx).
  apply filter_In in Hx. apply in_map. tauto.
Qed.

Lemma filter_all {A} (f : A -> bool) l : (forall x, In x l -> f x = true) -> filter f l = l.
Proof.
  induction l as [|a l IH]; simpl; auto. intros H. rewrite (H a) by auto. f_equal. apply IH. auto.
Qed.

Lemma length_adel k l : kuniq (map fst l) ->
  length (adel k l) = (length l - match afind k l with Some _ => 1 | None => 0 end)%nat.
Proof.
  unfold Simple.adel, Simple.afind. induction l as [|kv l IH]; simpl; auto. intros [H1 H2].
  destruct (eqb k (fst kv)) eqn:Ek; simpl.
  - (* no later entry matches k *)
    replace (filter (fun kv0 : K * V => negb (eqb k (fst kv0))) l) with l; [lia|].
    symmetry. apply filter_all. intros x Hx.
    specialize (H1 (fst x) (in_map fst _ _ Hx)).
    rewrite (eqb_congr_l _ _ (fst x) Ek). now rewrite H1.
  - rewrite (IH H2). destruct (find (fun kv0 : K * V => eqb k (fst kv0)) l) eqn:Hf; [|lia].
    destruct l; simpl in *; [discriminate|lia].
Qed.

(* ---------- refinement ---------- *)
Definition R (m : smap K V) (l : list (K * V)) : Prop :=
  TI (tbl K V m) /\ (forall k, slookup m k = afind k l) /\
  cnt K V m = N.of_nat (length l) /\ kuniq (map fst l).

Lemma R_empty : R (empty_map K V B) [].
Proof.
  split; [apply TI_empty|]. split; [|split; simpl; auto].
  intros k. unfold Simple.slookup. destruct TI_empty as [_ H].
  simpl. now rewrite nth_repeat_nil.
Qed.

Lemma R_step m l o : R m l ->
  R (fst (sstep K V eqb hash upd B m o)) (fst (astep K V eqb l o)) /\
  snd (sstep K V eqb hash upd B m o) = snd (astep K V eqb l o).
Proof.
  intros (HT & HL & HC & HU). destruct o as [k v|k|k| |]; simpl.
  - (* set *) split; auto. split; [now apply sset_TI|]. split; [|split].
    + intros k'. rewrite sset_lookup, afind_aset by auto. now rewrite HL.
    + rewrite length_aset. unfold Simple.sset. rewrite (HL k).
      destruct (afind k l); simpl; rewrite HC; lia.
    + now apply kuniq_aset.
  - (* get *) split; [exact (conj HT (conj HL (conj HC HU)))|]. now rewrite HL.
  - (* delete *) split; auto. split; [now apply sdel_TI|]. split; [|split].
    + intros k'. rewrite sdel_lookup, afind_adel by auto. now rewrite HL.
    + rewrite length_adel by auto. unfold Simple.sdel. rewrite (HL k).
      destruct (afind k l) eqn:Hf; simpl; rewrite HC; [|lia].
      assert (length l <> 0)%nat; [|lia].
      destruct l; [discriminate|simpl; lia].
    + now apply kuniq_adel.
  - (* clear *) split; auto. apply R_empty.
  - (* len *) split; [exact (conj HT (conj HL (conj HC HU)))|]. now rewrite HC.
Qed.

Theorem srun_refines : forall ops m l, R m l ->
  srun K V eqb hash upd B m ops = arun K V eqb l ops.
Proof.
  induction ops as [|o ops IH]; simpl; auto. intros m l HR.
  destruct (R_step m l o HR) as [HR' Hres].
  destruct (sstep K V eqb hash upd B m o) as [m1 r1], (astep K V eqb l o) as [l1 r2]; simpl in *.
  subst. f_equal. now apply IH.
Qed.

(* state reached by a history *)
Definition sfinal (ops : list (sop K V)) : smap K V :=
  fold_left (fun m o => fst (sstep K V eqb hash upd B m o)) ops (empty_map K V B).
Definition afinal (ops : list (sop K V)) : list (K * V) :=
  fold_left (fun l o => fst (astep K V eqb l o)) ops [].

Lemma R_final ops : R (sfinal ops) (afinal ops).
Proof.
  unfold sfinal, afinal. generalize R_empty. generalize (empty_map K V B), (@nil (K * V)).
  induction ops as [|o ops IH]; simpl; auto. intros m l HR. apply IH. now destruct (R_step m l o HR).
Qed.

(* a key that is not equal to itself is never found, so storing it always adds an entry *)
Lemma nan_not_found m k : TI (tbl K V m) -> eqb k k = false -> slookup m k = None.
Proof.
  intros HT Hn. destruct (TI_chain _ k HT) as [F _]. unfold Simple.slookup.
  apply (cfind_none_intro (idx k)); auto. intros y _. destruct y as [|t ky vy]; simpl; auto.
  destruct (eqb k ky) eqn:E; auto. destruct (eqb_refl_of _ _ E). congruence.
Qed.

Lemma nan_adds m k v : TI (tbl K V m) -> eqb k k = false -> cnt K V (sset m k v) = cnt K V m + 1.
Proof. intros HT Hn. unfold Simple.sset. now rewrite (nan_not_found m k HT Hn). Qed.

(* quiescent range loop of the layer-1 model: what is yielded is what lookups return *)
Lemma cfind_in i k c v : Forall (cok i) c -> cfind k c = Some v ->
  exists k', In (k', v) (live c) /\ eqb k k' = true.
Proof.
  intros F. induction F as [|x c Hx F IH]; simpl; [discriminate|].
  rewrite (cmatch_ok i k x Hx). destruct x as [|t kx vx]; simpl.
  - apply IH.
  - destruct (eqb k kx) eqn:E.
    + intros [= <-]. exists kx. auto.
    + intros H. destruct (IH H) as (k' & Hin & Ek). exists k'. auto.
Qed.

Lemma in_cfind i k v c : Forall (cok i) c -> cuniq c -> In (k, v) (live c) -> eqb k k = true ->
  cfind k c = Some v.
Proof.
  intros F. induction F as [|x c Hx F IH]; simpl; [tauto|]. intros [H1 H2].
  rewrite (cmatch_ok i k x Hx). destruct x as [|t kx vx]; simpl.
  - apply IH; auto.
  - intros [[= -> ->]|Hin] Hr.
    + now rewrite Hr.
    + destruct (eqb k kx) eqn:E; [|apply IH; auto].
      exfalso. assert (Hc : exists t', In (Full t' k v) c).
      { clear - Hin. induction c as [|z c IHc]; simpl in *; [tauto|].
        destruct z as [|tz kz vz]; simpl in *.
        - destruct (IHc Hin) as (t' & ?). eauto.
        - destruct Hin as [[= -> ->]|Hin]; [eauto|]. destruct (IHc Hin) as (t' & ?). eauto. }
      destruct Hc as (t' & Hc). specialize (H1 _ Hc). simpl in H1.
      rewrite eqb_sym in H1. congruence.
Qed.

Lemma in_siter t k v : In (k, v) (flat_map live t) -> exists i, (i < length t)%nat /\ In (k, v) (live (nth i t [])).
Proof.
  induction t as [|c t IH]; simpl; [tauto|]. intros H. apply in_app_or in H. destruct H as [H|H].
  - exists 0%nat. split; [lia|auto].
  - destruct (IH H) as (i & Hi & Hin). exists (S i). split; [lia|auto].
Qed.

Lemma live_cok i k v c : Forall (cok i) c -> In (k, v) (live c) -> idx k = i.
Proof.
  intros F. induction F as [|x c Hx F IH]; simpl; [tauto|].
  destruct x as [|t kx vx]; simpl; auto. intros [[= -> ->]|H]; auto. now destruct Hx.
Qed.

Lemma siter_sound m k v : TI (tbl K V m) -> In (k, v) (siter K V m) -> eqb k k = true -> slookup m k = Some v.
Proof.
  intros HT Hin Hr. unfold Simple.siter in Hin. destruct (in_siter _ _ _ Hin) as (i & Hi & Hl).
  destruct HT as [L H]. destruct (H i Hi) as [F U].
  assert (idx k = i) by (eapply live_cok; eauto). subst i.
  unfold Simple.slookup. eapply in_cfind; eauto.
Qed.

Lemma siter_complete m k v : TI (tbl K V m) -> slookup m k = Some v ->
  exists k', In (k', v) (siter K V m) /\ eqb k k' = true.
Proof.
  intros HT Hs. destruct (TI_chain _ k HT) as [F U]. unfold Simple.slookup in Hs.
  destruct (cfind_in _ _ _ _ F Hs) as (k' & Hin & E). exists k'. split; auto.
  unfold Simple.siter. apply in_flat_map. exists (nth (idx k) (tbl K V m) []). split; auto.
  apply nth_In. apply idx_lt; auto.
Qed.

End SimpleProofs.

(* ================= Part 2: the heap-level model ================= *)

Lemma nil_read (T : mtype) fuel m its k :
  step T fuel (mkW m None its) (OGet k) = Ok ([0; 0], mkW m None its) /\
  step T fuel (mkW m None its) (OGet1 k) = Ok ([0], mkW m None its) /\
  step T fuel (mkW m None its) OLen = Ok ([0], mkW m None its) /\
  step T fuel (mkW m None its) (ODel k) = Ok ([], mkW m None its) /\
  step T fuel (mkW m None its) OClear = Ok ([], mkW m None its).
Proof. repeat split; reflexivity. Qed.

Lemma nil_write (T : mtype) fuel m its k v :
  step T fuel (mkW m None its) (OSet k v) = Ok ([PANIC], mkW m None its).
Proof. reflexivity. Qed.

Lemma nil_range (T : mtype) fuel m its :
  exists w, step T fuel (mkW m None its) ODrain = Ok ([], w) /\ wh w = None.
Proof. eexists. split; reflexivity. Qed.

Lemma trace_eqb_refl : forall a, trace_eqb a a = true.
Proof. apply list_eqb_refl. apply list_eqb_refl. apply N.eqb_refl. Qed.

(* with the original empty memclr stubs the clear witness loses a key ... *)
Lemma clear_refuted_witness :
  trace_eqb (run_history_obs (witness_clear false)) (spec_run [] (snd (witness_clear false))) = false.
Proof. vm_compute. reflexivity. Qed.

(* ... with memclr implemented the same history gives the results of the specification *)
Lemma clear_fixed_witness :
  trace_eqb (run_history_obs (witness_clear true)) (spec_run [] (snd (witness_clear true))) = true.
Proof. vm_compute. reflexivity. Qed.

Lemma nan_clear_witness :
  yields_present [] (snd witness_nan) (run_history witness_nan) = false.
Proof. vm_compute. reflexivity. Qed.

Lemma neq_of_trace_eqb a b : trace_eqb a b = false -> a <> b.
Proof. intros H E. subst b. rewrite trace_eqb_refl in H. discriminate. Qed.

Lemma clear_refuted : exists x : config * list op,
  c_nil (fst x) = false /\ c_memclr (fst x) = false /\ run_history_obs x <> spec_run [] (snd x).
Proof.
  exists (witness_clear false). split; [reflexivity|]. split; [reflexivity|].
  apply neq_of_trace_eqb. exact clear_refuted_witness.
Qed.

Lemma trace_eqb_eq a b : trace_eqb a b = true -> a = b.
Proof. apply list_eqb_eq. intros x y. apply list_eqb_eq. intros u v. apply N.eqb_eq. Qed.

Lemma clear_fixed : run_history_obs (witness_clear true) = spec_run [] (snd (witness_clear true)).
Proof. apply trace_eqb_eq. exact clear_fixed_witness. Qed.

Lemma nan_clear_refuted : exists x : config * list op,
  yields_present [] (snd x) (run_history x) = false.
Proof. exists witness_nan. exact nan_clear_witness. Qed.

(* the key equality of the correspondence harness is a partial equivalence respected by its hash *)
Lemma is_nan_canon a : is_nan a = N.testbit (canon a) 55.
Proof. unfold is_nan, canon. rewrite N.clearbit_neq; auto. discriminate. Qed.
Lemma keq_sym a b : keq a b = keq b a.
Proof.
  unfold keq. destruct (canon a =? canon b) eqn:E.
  - apply N.eqb_eq in E. rewrite (is_nan_canon a), (is_nan_canon b), E. now rewrite N.eqb_refl.
  - rewrite N.eqb_sym, E. now rewrite !andb_false_r.
Qed.
Lemma keq_trans a b c : keq a b = true -> keq b c = true -> keq a c = true.
Proof.
  unfold keq. intros H1 H2. apply andb_true_iff in H1 as [N1 E1], H2 as [N2 E2].
  apply N.eqb_eq in E1, E2. rewrite N1. simpl. apply N.eqb_eq. congruence.
Qed.
Lemma shash_keq a b : keq a b = true -> shash a = shash b.
Proof. unfold keq, shash. intros H. apply andb_true_iff in H as [_ E]. now apply N.eqb_eq in E. Qed.
