(* C06 - the layer-2 model (Grow.v) instantiated with the key equality of the
   correspondence harness, replaying the histories of Model.run_history and producing
   the API-level projection (Model.run_history_obs format). *)
From LLGoV Require Import C06.Model C06.Simple C06.SimpleRun C06.Grow.
From Coq Require Import FMapPositive.
Local Open Scope N_scope.

Definition G_lookup := glookup N N keq shash.

Definition grow_step (u : bool) (m : gmap N N) (o : op) : gmap N N * list N :=
  let c m := [gcnt N N m] in
  match o with
  | OSet k v => let m1 := gset N N keq shash u 4 m k v in (m1, c m1)
  | OGet k => (m, match G_lookup m k with Some v => [1; v] | None => [0; 0] end ++ c m)
  | OGet1 k => (m, match G_lookup m k with Some v => [v] | None => [0] end ++ c m)
  | ODel k => let m1 := gdel N N keq shash m k in (m1, c m1)
  | OClear => let m1 := gclear N N m in (m1, c m1)
  | OLen => (m, gcnt N N m :: c m)
  | OIterNew _ | OIterNext _ => (m, c m)
  | ODrain =>
    (* a range loop: old buckets not yet evacuated hold entries too *)
    (m, flat_pairs (sort_pairs (giter N N m ++
          flat_map (fun oc => match oc with Some ch => live N N ch | None => [] end) (old N N m))) ++ c m)
  end.

Fixpoint grow_run (u : bool) (m : gmap N N) (ops : list op) : list (list N) :=
  match ops with
  | [] => []
  | o :: ops' => let (m1, r) := grow_step u m o in r :: grow_run u m1 ops'
  end.

(* makemap: the B that holds the hint *)
Fixpoint hintB (fuel : nat) (hint b : N) : N :=
  match fuel with O => b | S f => if overLoadFactor hint b then hintB f hint (b + 1) else b end.

Definition grow_only (x : config * list op * bool) : list (list N) :=
  let '(c, ops, chk) := x in grow_run (c_upd c) (gempty N N (hintB 64 (c_hint c) 0)) ops.

(* growth statistics of a replay: (max B, steps spent growing, steps in a same-size growth) *)
Fixpoint grow_stats (u : bool) (m : gmap N N) (ops : list op) (mb g s : N) : N * N * N :=
  match ops with
  | [] => (mb, g, s)
  | o :: ops' =>
    let m1 := fst (grow_step u m o) in
    grow_stats u m1 ops' (N.max mb (gB N N m1)) (if growing N N m1 then g + 1 else g)
               (if growing N N m1 && same N N m1 then s + 1 else s)
  end.

(* all three models at once: failure codes 1 = heap-level model, 2 = layer 1, 3 = layer 2 *)
Definition check_all (xe : (config * list op * bool) * list (list N)) : list N :=
  let (x, expected) := xe in
  let '(c, ops, chk) := x in
  check_both xe ++
  (if negb chk || trace_eqb (grow_only x) (map_obs ops expected) then [] else [3]).

(* ---------- comparison by trace hash ----------
   The case files only carry the operations and two hashes of the observed trace (exact
   trace, API-level projection): parsing the numerals of whole traces dominated the run
   time.  On a mismatch the driver re-runs the history with the full trace. *)
Definition HM : N := 2305843009213693951.          (* 2^61 - 1 *)
Definition hrow (h : N) (row : list N) : N :=
  fold_left (fun a x => (a * 1000003 + x + 1) mod HM) row ((h * 1000003 + 7) mod HM).
Definition trace_hash (t : list (list N)) : N := fold_left hrow t 1.

Definition check_all_h (xe : (config * list op * bool) * (N * N)) : list N :=
  let '(x, (hfull, hobs)) := xe in
  let '(c, ops, chk) := x in
  (if trace_hash (run_history (c, ops)) =? hfull then [] else [1]) ++
  (if negb chk || (trace_hash (simple_only x) =? hobs) then [] else [2]) ++
  (if negb chk || (trace_hash (grow_only x) =? hobs) then [] else [3]).

(* growth statistics of the layer-2 replay of one history: max B, steps growing, steps in a
   same-size growth *)
Definition grow_stats_of (x : config * list op * bool) : N * N * N :=
  let '(c, ops, chk) := x in grow_stats (c_upd c) (gempty N N (hintB 64 (c_hint c) 0)) ops 0 0 0.

(* ---------- compact case encoding ----------
   A history is written as a flat key table (t f u l per key, see Model.K) and a flat list
   of small numbers: 0 keyindex value = set, 1 i = get, 2 i = get1, 3 i = delete, 4 = clear,
   5 = len, 6 s = new iterator, 7 s = iterator step, 8 = range loop.  (Constructor
   applications and big numerals are what Coq spends its time on when reading the cases.) *)
Fixpoint decode_keys (l : list N) (i : N) (acc : PositiveMap.t N) : PositiveMap.t N :=
  match l with
  | t :: f :: u :: lo :: r => decode_keys r (i + 1) (PositiveMap.add (N.succ_pos i) (K t f u lo) acc)
  | _ => acc
  end.

Fixpoint decode_ops (ks : PositiveMap.t N) (l : list N) : list op :=
  let key i := match PositiveMap.find (N.succ_pos i) ks with Some k => k | None => 0 end in
  match l with
  | [] => []
  | c :: r =>
    if c =? 4 then OClear :: decode_ops ks r
    else if c =? 5 then OLen :: decode_ops ks r
    else if c =? 8 then ODrain :: decode_ops ks r
    else match r with
    | [] => []
    | a :: r1 =>
      if c =? 1 then OGet (key a) :: decode_ops ks r1
      else if c =? 2 then OGet1 (key a) :: decode_ops ks r1
      else if c =? 3 then ODel (key a) :: decode_ops ks r1
      else if c =? 6 then OIterNew a :: decode_ops ks r1
      else if c =? 7 then OIterNext a :: decode_ops ks r1
      else match r1 with
      | [] => []
      | b :: r2 => OSet (key a) b :: decode_ops ks r2
      end
    end
  end.

Definition check_flat (xe : (config * list N * list N * bool) * (N * N)) : list N :=
  let '((c, kf, of, chk), hh) := xe in
  check_all_h ((c, decode_ops (decode_keys kf 0 (PositiveMap.empty N)) of, chk), hh).
