(* C06 - the layer-2 model (Grow.v) instantiated with the key equality of the
   correspondence harness, replaying the histories of Model.run_history and producing
   the API-level projection (Model.run_history_obs format). *)
From LLGoV Require Import C06.Model C06.Simple C06.SimpleRun C06.Grow.
Local Open Scope N_scope.

Definition G_lookup := glookup N N keq shash.

Definition grow_step (u : bool) (m : gmap N N) (o : op) : gmap N N * list N :=
  let c m := [gcnt N N m] in
  match o with
  | OSet k v => let m1 := gset N N keq shash u 4 m k v in (m1, c m1)
  | OGet k => (m, match G_lookup m k with Some v => [1; v] | None => [0; 0] end ++ c m)
  | OGet1 k => (m, match G_lookup m k with Some v => [v] | None => [0] end ++ c m)
  | ODel k => let m1 := gdel N N keq shash m k in (m1, c m1)
  | OClear => let m1 := gclear N N m in (m1, c m1)
  | OLen => (m, gcnt N N m :: c m)
  | OIterNew _ | OIterNext _ => (m, c m)
  | ODrain =>
    (* a range loop: old buckets not yet evacuated hold entries too *)
    (m, flat_pairs (sort_pairs (giter N N m ++
          flat_map (fun oc => match oc with Some ch => live N N ch | None => [] end) (old N N m))) ++ c m)
  end.

Fixpoint grow_run (u : bool) (m : gmap N N) (ops : list op) : list (list N) :=
  match ops with
  | [] => []
  | o :: ops' => let (m1, r) := grow_step u m o in r :: grow_run u m1 ops'
  end.

(* makemap: the B that holds the hint *)
Fixpoint hintB (fuel : nat) (hint b : N) : N :=
  match fuel with O => b | S f => if overLoadFactor hint b then hintB f hint (b + 1) else b end.

Definition grow_only (x : config * list op * bool) : list (list N) :=
  let '(c, ops, chk) := x in grow_run (c_upd c) (gempty N N (hintB 64 (c_hint c) 0)) ops.

(* growth statistics of a replay: (max B, steps spent growing, steps in a same-size growth) *)
Fixpoint grow_stats (u : bool) (m : gmap N N) (ops : list op) (mb g s : N) : N * N * N :=
  match ops with
  | [] => (mb, g, s)
  | o :: ops' =>
    let m1 := fst (grow_step u m o) in
    grow_stats u m1 ops' (N.max mb (gB N N m1)) (if growing N N m1 then g + 1 else g)
               (if growing N N m1 && same N N m1 then s + 1 else s)
  end.

(* all three models at once: failure codes 1 = heap-level model, 2 = layer 1, 3 = layer 2 *)
Definition check_all (xe : (config * list op * bool) * list (list N)) : list N :=
  let (x, expected) := xe in
  let '(c, ops, chk) := x in
  check_both xe ++
  (if negb chk || trace_eqb (grow_only x) (map_obs ops expected) then [] else [3]).
