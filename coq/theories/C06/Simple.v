(* C06 - layer 1: the finite-map specification (association list) and a simplified
   bucket-level model of map.go WITHOUT growth: 2^B chains of 8-slot buckets, tophash
   pre-filter, update in place, insertion into the first empty cell of the chain or
   into a freshly chained overflow bucket, deletion by emptying the cell.  Hash and
   key equality are parameters (equality may be non-reflexive: NaN-like keys).
   Executable; no proofs here (Proofs.v). *)
From LLGoV Require Export Lib.Common.
Local Open Scope N_scope.

Section Simple.
Variables (K V : Type) (eqb : K -> K -> bool) (hash : K -> N).
Variable upd : bool.                 (* maptype.NeedKeyUpdate: an overwrite also stores the new key *)

(* ---------- specification: association list ---------- *)
Definition afind (k : K) (l : list (K * V)) : option V :=
  match find (fun kv => eqb k (fst kv)) l with Some kv => Some (snd kv) | None => None end.
Definition aset (k : K) (v : V) (l : list (K * V)) : list (K * V) :=
  match afind k l with
  | Some _ => map (fun kv => if eqb k (fst kv) then (fst kv, v) else kv) l
  | None => l ++ [(k, v)]
  end.
Definition adel (k : K) (l : list (K * V)) : list (K * V) :=
  filter (fun kv => negb (eqb k (fst kv))) l.

(* ---------- bucket model ---------- *)
Inductive cell := Empty | Full (t : N) (k : K) (v : V).

Definition top (k : K) : N :=
  let t := hash k / 72057594037927936 in if t <? 5 then t + 5 else t.

Definition cmatch (k : K) (c : cell) : bool :=
  match c with Full t k' _ => (t =? top k) && eqb k k' | Empty => false end.
Definition cval (c : cell) : option V := match c with Full _ _ v => Some v | Empty => None end.

Fixpoint cfind (k : K) (c : list cell) : option V :=
  match c with
  | [] => None
  | x :: c' => if cmatch k x then cval x else cfind k c'
  end.

(* overwrite the value of the first matching cell (mapassign, key already present) *)
Fixpoint cupd (k : K) (v : V) (c : list cell) : list cell :=
  match c with
  | [] => []
  | x :: c' =>
    if cmatch k x then match x with Full t k' _ => Full t (if upd then k else k') v | Empty => x end :: c'
    else x :: cupd k v c'
  end.

(* first empty cell of the chain, else a new overflow bucket whose slot 0 is used *)
Fixpoint cput (k : K) (v : V) (c : list cell) : list cell :=
  match c with
  | [] => Full (top k) k v :: repeat Empty 7
  | Empty :: c' => Full (top k) k v :: c'
  | x :: c' => x :: cput k v c'
  end.

Fixpoint cdel (k : K) (c : list cell) : list cell :=
  match c with
  | [] => []
  | x :: c' => if cmatch k x then Empty :: c' else x :: cdel k c'
  end.

Definition live (c : list cell) : list (K * V) :=
  flat_map (fun x => match x with Full _ k v => [(k, v)] | Empty => [] end) c.

Fixpoint upd_nth {A} (i : nat) (f : A -> A) (l : list A) : list A :=
  match l, i with
  | [], _ => []
  | x :: l', O => f x :: l'
  | x :: l', S i' => x :: upd_nth i' f l'
  end.

Record smap := mkS { tbl : list (list cell); cnt : N }.

Variable B : N.                       (* fixed number of bucket bits *)
Definition idx (k : K) : nat := N.to_nat (hash k mod 2 ^ B).   (* = hash land (2^B - 1) *)
Definition empty_map : smap := mkS (repeat [] (N.to_nat (2 ^ B))) 0.
Definition slookup (m : smap) (k : K) : option V := cfind k (nth (idx k) (tbl m) []).
Definition sset (m : smap) (k : K) (v : V) : smap :=
  match slookup m k with
  | Some _ => mkS (upd_nth (idx k) (cupd k v) (tbl m)) (cnt m)
  | None => mkS (upd_nth (idx k) (cput k v) (tbl m)) (cnt m + 1)
  end.
Definition sdel (m : smap) (k : K) : smap :=
  match slookup m k with
  | Some _ => mkS (upd_nth (idx k) (cdel k) (tbl m)) (cnt m - 1)
  | None => m
  end.
Definition sclear (m : smap) : smap := empty_map.
(* a range loop over a quiescent map: bucket order, chain order, slot order *)
Definition siter (m : smap) : list (K * V) := flat_map live (tbl m).

(* ---------- histories ---------- *)
Inductive sop := SSet (k : K) (v : V) | SGet (k : K) | SDel (k : K) | SClear | SLen.
Inductive sres := RUnit | RGet (o : option V) | RLen (n : N).

Definition sstep (m : smap) (o : sop) : smap * sres :=
  match o with
  | SSet k v => (sset m k v, RUnit)
  | SGet k => (m, RGet (slookup m k))
  | SDel k => (sdel m k, RUnit)
  | SClear => (sclear m, RUnit)
  | SLen => (m, RLen (cnt m))
  end.
Definition astep (l : list (K * V)) (o : sop) : list (K * V) * sres :=
  match o with
  | SSet k v => (aset k v l, RUnit)
  | SGet k => (l, RGet (afind k l))
  | SDel k => (adel k l, RUnit)
  | SClear => ([], RUnit)
  | SLen => (l, RLen (N.of_nat (length l)))
  end.

Fixpoint srun (m : smap) (ops : list sop) : list sres :=
  match ops with [] => [] | o :: ops' => let (m1, r) := sstep m o in r :: srun m1 ops' end.
Fixpoint arun (l : list (K * V)) (ops : list sop) : list sres :=
  match ops with [] => [] | o :: ops' => let (l1, r) := astep l o in r :: arun l1 ops' end.

End Simple.

Arguments Empty {K V}.
Arguments Full {K V} t k v.
