(* C06 - property theorems only (statements in full; proofs are in Proofs.v).

   Two models are tied to runtime/internal/runtime/map.go by the correspondence harness:
   - Model.v  : heap-level, bucket-exact (tophash codes, overflow links, incremental
                evacuation, iterators).  Agrees with the real code on whole traces incl.
                B, noverflow, flags, nevacuate and iteration order.
   - Simple.v : layer 1, 2^B chains of 8-slot buckets without growth.  Agrees with the
                real code on every API-level result.
   - Grow.v   : layer 2, Simple.v plus growth as map.go does it: hashGrow (doubling and
                same-size), old and current bucket arrays, evacuation of one old bucket into
                its X / Y halves, growWork on assignment and deletion, nevacuate, lookups that
                consult the old bucket while it is not evacuated; abstract in the hash, no
                pointers.  Agrees with the real code on every API-level result.
   The _partial theorems of Section Layer1 are about Simple.v; Section Layer2 proves the
   refinement across growth for Grow.v (what is still not proved: iteration during growth
   and the pointer-level details of Model.v, which are tied by correspondence only); the
   nil-map theorems and the two refutations are about Model.v. *)
From LLGoV Require Import C06.Model C06.Simple C06.SimpleRun C06.Proofs C06.Grow C06.GrowRun C06.GrowProofs C06.Flags C06.FlagsProofs.
Local Open Scope N_scope.

Section Layer1.
Variables (K V : Type) (eqb : K -> K -> bool) (hash : K -> N) (upd : bool) (B : N).
(* key equality is a partial equivalence (k = k may fail: NaN), respected by the hash *)
Hypothesis eqb_sym : forall a b, eqb a b = eqb b a.
Hypothesis eqb_trans : forall a b c, eqb a b = true -> eqb b c = true -> eqb a c = true.
Hypothesis hash_eqb : forall a b, eqb a b = true -> hash a = hash b.

(* every history of insert / update / delete / lookup / clear / len gives, operation by
   operation, the results of the association-list specification *)
Theorem hmap_refines_fmap_partial : forall ops : list (sop K V),
  srun K V eqb hash upd B (empty_map K V B) ops = arun K V eqb [] ops.
Proof. intros. apply (srun_refines K V eqb hash upd B eqb_sym eqb_trans hash_eqb). apply (R_empty K V eqb hash B). Qed.

(* after any history: len = number of live entries, and the live entries have pairwise
   different keys *)
Theorem count_is_live_entries_partial : forall ops : list (sop K V),
  cnt K V (sfinal K V eqb hash upd B ops) = N.of_nat (length (afinal K V eqb ops)) /\
  kuniq K eqb (map fst (afinal K V eqb ops)).
Proof. intros. destruct (R_final K V eqb hash upd B eqb_sym eqb_trans hash_eqb ops) as (_ & _ & H1 & H2). auto. Qed.

(* after any history every chain i holds only cells whose key hashes to i and whose
   tophash is the key's, and no two cells of a chain hold equal keys: a live key is
   stored exactly once, where lookups search for it *)
Theorem live_key_stored_once_partial : forall (ops : list (sop K V)) (i : nat),
  (i < length (tbl K V (sfinal K V eqb hash upd B ops)))%nat ->
  Forall (cok K V hash B i) (nth i (tbl K V (sfinal K V eqb hash upd B ops)) []) /\
  cuniq K V eqb (nth i (tbl K V (sfinal K V eqb hash upd B ops)) []).
Proof. intros ops i Hi. destruct (R_final K V eqb hash upd B eqb_sym eqb_trans hash_eqb ops) as ((_ & H) & _). auto. Qed.

(* a key that is not equal to itself (NaN) is never found and every store of it adds an entry *)
Theorem nan_insert_always_adds_partial : forall (ops : list (sop K V)) k v, eqb k k = false ->
  slookup K V eqb hash B (sfinal K V eqb hash upd B ops) k = None /\
  cnt K V (sset K V eqb hash upd B (sfinal K V eqb hash upd B ops) k v) = cnt K V (sfinal K V eqb hash upd B ops) + 1.
Proof.
  intros ops k v Hn. destruct (R_final K V eqb hash upd B eqb_sym eqb_trans hash_eqb ops) as (HT & _).
  split; [eapply nan_not_found|eapply nan_adds]; eauto.
Qed.

(* a range loop over a quiescent map (no growth in this layer): every yielded entry with
   a reflexive key is the one lookups return, every entry lookups return is yielded, and
   (live_key_stored_once_partial) no key is yielded twice.  Partial: NaN-keyed entries are
   only counted (count_is_live_entries_partial), iteration during growth and under
   mutation is checked on the real code only *)
Theorem iter_quiescent_exactly_once_partial : forall (ops : list (sop K V)) k v,
  let m := sfinal K V eqb hash upd B ops in
  (In (k, v) (siter K V m) -> eqb k k = true -> slookup K V eqb hash B m k = Some v) /\
  (slookup K V eqb hash B m k = Some v -> exists k', In (k', v) (siter K V m) /\ eqb k k' = true).
Proof.
  intros ops k v m. destruct (R_final K V eqb hash upd B eqb_sym eqb_trans hash_eqb ops) as (HT & _).
  split; [eapply siter_sound|eapply siter_complete]; eauto.
Qed.
End Layer1.

Print Assumptions hmap_refines_fmap_partial.
Print Assumptions count_is_live_entries_partial.
Print Assumptions live_key_stored_once_partial.
Print Assumptions nan_insert_always_adds_partial.
Print Assumptions iter_quiescent_exactly_once_partial.

Section Layer2.
Variables (K V : Type) (eqb : K -> K -> bool) (hash : K -> N) (upd : bool).
Hypothesis eqb_sym : forall a b, eqb a b = eqb b a.
Hypothesis eqb_trans : forall a b c, eqb a b = true -> eqb b c = true -> eqb a c = true.
Hypothesis hash_eqb : forall a b, eqb a b = true -> hash a = hash b.

(* The invariant GI (GrowProofs.v) of a layer-2 map m:
   - the current array has 2^B chains; chain i holds only cells whose key hashes to i under B
     and whose tophash is the key's, and no two cells of a chain hold equal keys;
   - while growing, the old array has 2^oldB entries and B = oldB (same-size) or oldB + 1;
   - an old bucket j that is not evacuated holds only keys hashing to j under oldB, pairwise
     different, and its destination chains j (and j + 2^oldB when doubling) of the current
     array are still empty;
   - every old bucket below nevacuate is evacuated.
   So a live key is stored exactly once: in the old bucket its hash selects while that bucket
   is not evacuated, else in the current bucket its hash selects - where lookups search. *)

(* every reachable state satisfies the invariant (any initial B: make(map, hint)) *)
Theorem reachable_invariant : forall b (ops : list (sop K V)),
  GI K V eqb hash (gfinal K V eqb hash upd b ops).
Proof. exact (reachable_GI K V eqb hash upd eqb_sym eqb_trans hash_eqb). Qed.

(* starting a growth (doubling or same-size, whatever triggers it) changes no lookup result
   and keeps the invariant *)
Theorem grow_preserves_abs : forall m : gmap K V, GI K V eqb hash m -> old K V m = [] ->
  GI K V eqb hash (hashGrow K V m) /\
  forall k, glookup K V eqb hash (hashGrow K V m) k = glookup K V eqb hash m k.
Proof. exact (grow_preserves K V eqb hash). Qed.

(* evacuating any old bucket (followed by advanceEvacuationMark, which may end the growth)
   changes no lookup result and keeps the invariant: every live key is still stored exactly once *)
Theorem evacuate_preserves_abs : forall (m : gmap K V) (j : nat), GI K V eqb hash m -> old K V m <> [] ->
  GI K V eqb hash (evacuate K V hash m j) /\
  forall k, glookup K V eqb hash (evacuate K V hash m j) k = glookup K V eqb hash m k.
Proof. exact (evacuate_preserves K V eqb hash hash_eqb). Qed.

Theorem growWork_preserves_abs : forall (m : gmap K V) (k : K), GI K V eqb hash m -> old K V m <> [] ->
  GI K V eqb hash (growWork K V hash m k) /\
  forall k', glookup K V eqb hash (growWork K V hash m k) k' = glookup K V eqb hash m k'.
Proof. exact (growWork_preserves K V eqb hash hash_eqb). Qed.

(* every history of insert / update / delete / lookup / clear / len, from any initial size,
   across any number of doubling and same-size growths with incremental evacuation, gives
   operation by operation the results of the association-list specification *)
Theorem hmap_refines_fmap : forall b (ops : list (sop K V)),
  grun K V eqb hash upd (gempty K V b) ops = arun K V eqb [] ops.
Proof.
  intros. apply (grun_refines K V eqb hash upd eqb_sym eqb_trans hash_eqb). apply (R_fresh K V eqb hash).
Qed.

(* len = number of live entries, live keys pairwise different, across growth *)
Theorem count_is_live_entries : forall b (ops : list (sop K V)),
  gcnt K V (gfinal K V eqb hash upd b ops) = N.of_nat (length (afinal' K V eqb ops)) /\
  kuniq K eqb (map fst (afinal' K V eqb ops)).
Proof.
  intros. destruct (R_gfinal K V eqb hash upd eqb_sym eqb_trans hash_eqb b ops) as (_ & _ & H1 & H2). auto.
Qed.
End Layer2.

Print Assumptions reachable_invariant.
Print Assumptions grow_preserves_abs.
Print Assumptions evacuate_preserves_abs.
Print Assumptions growWork_preserves_abs.
Print Assumptions hmap_refines_fmap.
Print Assumptions count_is_live_entries.

(* the layer-2 refinement for the key equality / hash of the correspondence harness *)
Theorem hmap_refines_fmap_harness_keys : forall upd b (ops : list (sop N N)),
  grun N N keq shash upd (gempty N N b) ops = arun N N keq [] ops.
Proof. intros. apply (hmap_refines_fmap N N keq shash upd keq_sym keq_trans shash_keq). Qed.
Print Assumptions hmap_refines_fmap_harness_keys.

(* non-trivial: 26 keys from B = 0 (three doublings, the last evacuation still in progress at
   the end: B = 3, growing), lookups of keys in evacuated and not yet evacuated buckets, delete *)
Example layer2_nontrivial :
  let ins := map (fun i => SSet N N (N.of_nat i * 4) (N.of_nat i)) (seq 0 26) in
  let ops := ins ++ [SGet N N 8; SDel N N 8; SGet N N 8; SGet N N 100; SGet N N 12; SLen N N] in
  let m := gfinal N N keq shash false 0 ins in
  (gB N N m, growing N N m, skipn 26 (grun N N keq shash false (gempty N N 0) ops))
  = (3, true, [RGet N (Some 2); RUnit N; RGet N None; RGet N (Some 25); RGet N (Some 3); RLen N 25]).
Proof. vm_compute. reflexivity. Qed.

(* the hypotheses are satisfiable: the key equality / hash of the correspondence harness
   (NaN-like keys never equal, a variant bit ignored) *)
Theorem hmap_refines_fmap_harness_keys_partial : forall upd B (ops : list (sop N N)),
  srun N N keq shash upd B (empty_map N N B) ops = arun N N keq [] ops.
Proof. intros. apply (hmap_refines_fmap_partial N N keq shash upd B keq_sym keq_trans shash_keq). Qed.
Print Assumptions hmap_refines_fmap_harness_keys_partial.

Example layer1_nontrivial :
  srun N N keq shash true 1 (empty_map N N 1)
    [SSet N N 5 1; SSet N N (K 0 2 0 7) 2; SSet N N (K 0 2 0 7) 3; SSet N N (K 0 1 0 5) 4; SGet N N 5; SGet N N (K 0 2 0 7);
     SDel N N 5; SGet N N 5; SLen N N]
  = [RUnit N; RUnit N; RUnit N; RUnit N; RGet N (Some 4); RGet N None; RUnit N; RGet N None; RLen N 2].
Proof. reflexivity. Qed.

(* ---------- heap-level model ---------- *)
(* reading a nil map yields zero values, len 0, delete / clear / range do nothing *)
Theorem nil_map_read_zero : forall (T : mtype) fuel m its k,
  step T fuel (mkW m None its) (OGet k) = Ok ([0; 0], mkW m None its) /\
  step T fuel (mkW m None its) (OGet1 k) = Ok ([0], mkW m None its) /\
  step T fuel (mkW m None its) OLen = Ok ([0], mkW m None its) /\
  step T fuel (mkW m None its) (ODel k) = Ok ([], mkW m None its) /\
  step T fuel (mkW m None its) OClear = Ok ([], mkW m None its).
Proof. exact nil_read. Qed.
Print Assumptions nil_map_read_zero.

Theorem nil_map_range_empty : forall (T : mtype) fuel m its,
  exists w, step T fuel (mkW m None its) ODrain = Ok ([], w) /\ wh w = None.
Proof. exact nil_range. Qed.
Print Assumptions nil_map_range_empty.

(* writing to a nil map panics and changes nothing *)
Theorem nil_map_write_panics : forall (T : mtype) fuel m its k v,
  step T fuel (mkW m None its) (OSet k v) = Ok ([PANIC], mkW m None its).
Proof. exact nil_write. Qed.
Print Assumptions nil_map_write_panics.

(* The finite-map property was FALSE of the code as it stood (and of its faithful model):
   1. with the empty memclr stubs of the original stubs.go (model flag c_memclr = false) clear()
      keeps stale overflow links: there is a history on a non-nil map whose API-level results
      differ from the specification (a key stored after the clear is not found after the next
      growth).  Repaired by props/C06/fixes/apply/01: the harness keeps replaying the witness on
      the real code as a regression guard. *)
Theorem hmap_refines_fmap_without_memclr_refuted : exists x : config * list op,
  c_nil (fst x) = false /\ c_memclr (fst x) = false /\ run_history_obs x <> spec_run [] (snd x).
Proof. exact clear_refuted. Qed.
Print Assumptions hmap_refines_fmap_without_memclr_refuted.

(* with memclr implemented (c_memclr = true, the model of the code that exists) the same
   history gives exactly the results of the specification.  Partial: one history, by
   evaluation; the general statement for the heap-level model is not proved *)
Theorem clear_witness_refines_fmap_partial :
  c_memclr (fst (witness_clear true)) = true /\
  run_history_obs (witness_clear true) = spec_run [] (snd (witness_clear true)).
Proof. split; [reflexivity|exact clear_fixed]. Qed.
Print Assumptions clear_witness_refines_fmap_partial.

(* 2. (still true of the code) a range loop that still walks a bucket array older than
      h.oldbuckets yields NaN-keyed entries that clear() removed *)
Theorem iter_yields_only_present_refuted : exists x : config * list op,
  yields_present [] (snd x) (run_history x) = false.
Proof. exact nan_clear_refuted. Qed.
Print Assumptions iter_yields_only_present_refuted.

(* ---------- key-type analysis of ssa/abi/map.go (Flags.v; compared with hashMightPanic /
   IsReflexive / needkeyupdate / MapTypeFlags on generated key types) ---------- *)
(* the HashMightPanic flag is set exactly when an interface type is reachable from the key type
   through array elements (of any length), struct fields and underlying types: exactly then the
   hash of a key can panic on an unhashable dynamic value, and the nil / empty map fast paths of
   mapaccess1 / mapaccess2 / mapdelete must still call the hasher *)
Theorem hash_might_panic_iff_interface_reachable : forall t : kty,
  hash_might_panic t = true <-> reaches_iface t.
Proof. exact hash_might_panic_iff. Qed.
Print Assumptions hash_might_panic_iff_interface_reachable.

(* a key type is reflexive exactly when neither a float / complex nor an interface is reachable *)
Theorem is_reflexive_iff_no_float_no_interface : forall t : kty,
  is_reflexive t = false <-> (reaches_float t \/ reaches_iface t).
Proof. exact is_reflexive_iff. Qed.
Print Assumptions is_reflexive_iff_no_float_no_interface.

(* whenever the hash might panic the key is re-stored on overwrite and the type is not reflexive *)
Theorem hash_might_panic_implies_flags : forall t : kty, hash_might_panic t = true ->
  need_key_update t = true /\ is_reflexive t = false.
Proof. exact hmp_implies. Qed.
Print Assumptions hash_might_panic_implies_flags.

Example flags_nontrivial :
  map key_flags [KArr 2 KIface; KNamed (KArr 2 KIface); KStruct [KBasic BInt; KArr 1 KIface];
                 KArr 2 (KArr 1 KIface); KArr 1 (KStruct [KIface]); KArr 2 (KBasic BFloat); KStruct [KBasic BString; KPtr]]
  = [24; 24; 24; 24; 24; 8; 12].
Proof. reflexivity. Qed.
