(* C06 - model of the key-type analysis of ssa/abi/map.go that fills maptype.Flags:
   hashMightPanic, IsReflexive, needkeyupdate over a syntax of comparable key types
   (the Underlying() of a defined type is taken first, as the Go code does).
   Executable; no proofs here (FlagsProofs.v). *)
From LLGoV Require Export Lib.Common.
Local Open Scope N_scope.

Inductive bkind := BBool | BInt | BFloat | BComplex | BString | BUnsafePtr.

Inductive kty :=
| KBasic (b : bkind)
| KPtr                      (* *T *)
| KChan
| KIface                    (* any interface type, with or without methods *)
| KArr (n : N) (e : kty)    (* [n]e, n may be 0 *)
| KStruct (fs : list kty)   (* field types in order *)
| KNamed (u : kty).         (* a defined type with underlying type u *)

(* hashMightPanic: the hash of a key of this type can panic (unhashable dynamic value) *)
Fixpoint hash_might_panic (t : kty) : bool :=
  match t with
  | KIface => true
  | KArr _ e => hash_might_panic e
  | KStruct fs => (fix any (l : list kty) := match l with [] => false | f :: r => hash_might_panic f || any r end) fs
  | KNamed u => hash_might_panic u
  | _ => false
  end.

(* IsReflexive: x == x for every x of the type *)
Fixpoint is_reflexive (t : kty) : bool :=
  match t with
  | KBasic BFloat | KBasic BComplex => false
  | KBasic _ | KPtr | KChan => true
  | KIface => false
  | KArr _ e => is_reflexive e
  | KStruct fs => (fix all (l : list kty) := match l with [] => true | f :: r => is_reflexive f && all r end) fs
  | KNamed u => is_reflexive u
  end.

(* needkeyupdate: an overwrite must also store the new key (+0/-0, strings, interfaces) *)
Fixpoint need_key_update (t : kty) : bool :=
  match t with
  | KBasic BFloat | KBasic BComplex | KBasic BString => true
  | KBasic _ | KPtr | KChan => false
  | KIface => true
  | KArr _ e => need_key_update e
  | KStruct fs => (fix any (l : list kty) := match l with [] => false | f :: r => need_key_update f || any r end) fs
  | KNamed u => need_key_update u
  end.

(* the three key-dependent bits of MapTypeFlags: 4 reflexive, 8 need key update, 16 hash might panic *)
Definition key_flags (t : kty) : N :=
  (if is_reflexive t then 4 else 0) + (if need_key_update t then 8 else 0) + (if hash_might_panic t then 16 else 0).

(* an interface type is reachable from t through array elements, struct fields and the
   underlying type of defined types *)
Inductive reaches_iface : kty -> Prop :=
| RI_iface : reaches_iface KIface
| RI_arr n e : reaches_iface e -> reaches_iface (KArr n e)
| RI_struct fs f : In f fs -> reaches_iface f -> reaches_iface (KStruct fs)
| RI_named u : reaches_iface u -> reaches_iface (KNamed u).

(* a float or complex component is reachable the same way *)
Inductive reaches_float : kty -> Prop :=
| RF_float : reaches_float (KBasic BFloat)
| RF_complex : reaches_float (KBasic BComplex)
| RF_arr n e : reaches_float e -> reaches_float (KArr n e)
| RF_struct fs f : In f fs -> reaches_float f -> reaches_float (KStruct fs)
| RF_named u : reaches_float u -> reaches_float (KNamed u).
