(* C06 - executable heap-level model of runtime/internal/runtime/map.go (+ the
   iterator protocol of z_map.go).  No proofs in this file.

   Memory is a heap of 8-slot buckets addressed by N (0 = nil); a bucket array
   is a run of consecutive addresses (pointer arithmetic add(buckets, i*size)
   becomes base + i).  memclrNoHeapPointers / memclrHasPointers (stubs.go) clear
   memory; they used to be empty functions, so that a bucket array reused by
   mapclear kept its key/elem data and its overflow links: that behaviour is
   still reachable through the flag [memclr] = false of the map type (it is what
   the refutation in Props.v is about).

   Keys are 64-bit numbers that carry their own hash (the harness installs the
   same hasher in its hand-built maptype):
     bits 56..63  top byte of the hash (tophash)
     bit  55      NaN-like key: never equal to anything, hash drawn from fastrand
     bit  54      variant bit, ignored by equality and hash (like +0 / -0)
     bits 0..53   rest of the hash; the low bits select the bucket
   hash(k, seed) = clear54(k) xor (seed * GOLD mod 2^64 restricted to bits 0..55). *)
From LLGoV Require Export Lib.Common.
From Coq Require Import FMapPositive.
Local Open Scope N_scope.

Definition W64 : N := 18446744073709551616.
Definition W48 : N := 281474976710656.
Definition W32 : N := 4294967296.
Definition W16 : N := 65536.
Definition GOLD : N := 11400714819323198485.           (* 0x9E3779B97F4A7C15 *)
Definition LOW56 : N := 72057594037927935.              (* 2^56 - 1 *)
Definition C0 : N := 33054211828000289.                 (* alg.go c0 / c1 on 64 bit *)
Definition C1 : N := 23344194077549503.

(* tophash codes and flags (map.go) *)
Definition emptyRest := 0.  Definition emptyOne := 1.
Definition evacuatedX := 2. Definition evacuatedY := 3.
Definition evacuatedEmpty := 4. Definition minTopHash := 5.
Definition fIterator := 1. Definition fOldIterator := 2.
Definition fHashWriting := 4. Definition fSameSizeGrow := 8.
Definition noCheck : N := W64 - 1.

Record bucket := mkB { tops : list N; bkeys : list N; bvals : list N; ovf : N }.
Definition zeros8 : list N := [0;0;0;0;0;0;0;0].
Definition zerob := mkB zeros8 zeros8 zeros8 0.

Definition hkey (a : N) : positive := match a with Npos p => p | N0 => 1%positive end.

(* memory: heap, allocation pointer, fastrand state, throw/fatal seen *)
Record mem := mkM { heap : PositiveMap.t bucket; brk : N; rnd : N; bad : bool }.

Definition getb (m : mem) (a : N) : bucket :=
  match PositiveMap.find (hkey a) (heap m) with Some b => b | None => zerob end.
Definition setb (m : mem) (a : N) (b : bucket) : mem :=
  mkM (PositiveMap.add (hkey a) b (heap m)) (brk m) (rnd m) (bad m).
Definition alloc (m : mem) (n : N) : N * mem :=
  (brk m, mkM (heap m) (brk m + n) (rnd m) (bad m)).
Definition set_bad (m : mem) : mem := mkM (heap m) (brk m) (rnd m) true.

(* the harness' deterministic fastrand: 48-bit LCG, upper 32 bits *)
Definition fastrand (m : mem) : N * mem :=
  let s := (rnd m * 25214903917 + 11) mod W48 in
  (s / W16, mkM (heap m) (brk m) s (bad m)).
(* stubs.go fastrand64 *)
Definition fastrand64 (m : mem) : N * mem :=
  let (r, m1) := fastrand m in
  let n := (r + 11562461410679940143) mod W64 in
  let p := n * (N.lxor n 16646288086500911323) in
  (N.lxor (p / W64) (p mod W64), m1).

Definition lget (l : list N) (i : N) : N := nth (N.to_nat i) l 0.
Fixpoint lset_nat (l : list N) (i : nat) (x : N) : list N :=
  match l, i with
  | [], _ => []
  | _ :: t, O => x :: t
  | h :: t, S i' => h :: lset_nat t i' x
  end.
Definition lset (l : list N) (i x : N) : list N := lset_nat l (N.to_nat i) x.

Definition set_top (m : mem) (a i x : N) : mem :=
  let b := getb m a in setb m a (mkB (lset (tops b) i x) (bkeys b) (bvals b) (ovf b)).
Definition set_key (m : mem) (a i x : N) : mem :=
  let b := getb m a in setb m a (mkB (tops b) (lset (bkeys b) i x) (bvals b) (ovf b)).
Definition set_val (m : mem) (a i x : N) : mem :=
  let b := getb m a in setb m a (mkB (tops b) (bkeys b) (lset (bvals b) i x) (ovf b)).
Definition set_ovf (m : mem) (a x : N) : mem :=
  let b := getb m a in setb m a (mkB (tops b) (bkeys b) (bvals b) x).
Definition top_at (m : mem) (a i : N) : N := lget (tops (getb m a)) i.
Definition key_at (m : mem) (a i : N) : N := lget (bkeys (getb m a)) i.
Definition val_at (m : mem) (a i : N) : N := lget (bvals (getb m a)) i.

(* ---------- keys: hash and equality ---------- *)
Definition is_nan (k : N) : bool := N.testbit k 55.
Definition canon (k : N) : N := N.clearbit k 54.
Definition keq (a b : N) : bool := negb (is_nan a) && (canon a =? canon b).
Definition seedmix (seed : N) : N := N.land ((seed * GOLD) mod W64) LOW56.
Definition hashk (k seed : N) (m : mem) : N * mem :=
  if is_nan k then
    let (r, m1) := fastrand m in
    ((C1 * N.lxor (N.lxor C0 seed) r) mod W64, m1)
  else (N.lxor (canon k) (seedmix seed), m).
Definition tophash (hash : N) : N :=
  let t := hash / 72057594037927936 in if t <? minTopHash then t + minTopHash else t.

(* maptype flags that matter *)
(* memclr    : the memclr functions really clear (false = the empty stubs of the original tree)
   ptrbucket : t.Bucket.PtrBytes != 0 (evacuate then wipes an old bucket nobody iterates) *)
(* clearfresh: mapclear gives the map a fresh bucket array while a range loop may be running
   (iterator flags set) instead of wiping and reusing the array; false = always reuse *)
Record mtype := mkT { reflexive : bool; needkeyupdate : bool; memclr : bool; ptrbucket : bool; clearfresh : bool }.

Record hmap := mkH {
  count : N; flags : N; hB : N; noverflow : N; hash0 : N;
  buckets : N; oldbuckets : N; nevacuate : N; nextOverflow : N }.

Definition has (fl bit : N) : bool := negb (N.land fl bit =? 0).
Definition bshift (b : N) : N := 2 ^ b.
Definition bmask (b : N) : N := 2 ^ b - 1.
Definition isEmpty (x : N) : bool := x <=? emptyOne.
Definition evacuated (m : mem) (a : N) : bool :=
  let h := top_at m a 0 in (emptyOne <? h) && (h <? minTopHash).
Definition growing (h : hmap) : bool := negb (oldbuckets h =? 0).
Definition sameSize (h : hmap) : bool := has (flags h) fSameSizeGrow.
Definition noldbuckets (h : hmap) : N := if sameSize h then bshift (hB h) else bshift (hB h - 1).
Definition oldbucketmask (h : hmap) : N := noldbuckets h - 1.
(* loadFactorNum = (bucketCnt*13/16)*loadFactorDen = 12 with integer division *)
Definition overLoadFactor (cnt b : N) : bool := (8 <? cnt) && (12 * (bshift b / 2) <? cnt).
Definition tooManyOverflow (nov b : N) : bool := bshift (N.min b 15) <=? nov.

(* results of loops that may not terminate on a corrupted heap *)
Inductive res (A : Type) := Ok (a : A) | Hang.
Arguments Ok {A} a. Arguments Hang {A}.
Definition bind {A B} (r : res A) (f : A -> res B) : res B :=
  match r with Ok a => f a | Hang => Hang end.

Fixpoint clear_range (n : nat) (m : mem) (a : N) : mem :=
  match n with O => m | S n' => clear_range n' (setb m a zerob) (a + 1) end.

(* makeBucketArray: b, dirtyalloc (0 = allocate); roundupsize is the identity; a reused
   array is wiped when [clr] is set.  Returns (buckets, nextOverflow). *)
Definition makeBucketArray (clr : bool) (m : mem) (b dirty : N) : N * N * mem :=
  let base := bshift b in
  let nb := if 4 <=? b then base + bshift (b - 4) else base in
  let '(arr, m1) := if dirty =? 0 then alloc m nb
                    else (dirty, if clr then clear_range (N.to_nat nb) m dirty else m) in
  if base =? nb then (arr, 0, m1)
  else (arr, arr + base, set_ovf m1 (arr + nb - 1) arr).

Definition makemap (m : mem) (hint : N) : hmap * mem :=
  let (h0, m1) := fastrand m in
  let fix findB (fuel : nat) (b : N) : N :=
    match fuel with O => b | S f => if overLoadFactor hint b then findB f (b + 1) else b end in
  let b := findB 64%nat 0 in
  if b =? 0 then (mkH 0 0 0 0 h0 0 0 0 0, m1)
  else let '(arr, nx, m2) := makeBucketArray false m1 b 0 in (mkH 0 0 b 0 h0 arr 0 0 nx, m2).

(* h.newoverflow(t, b): returns the new bucket *)
Definition newoverflow (h : hmap) (m : mem) (b : N) : N * hmap * mem :=
  let '(o, nx, m1) :=
    if negb (nextOverflow h =? 0) then
      let o := nextOverflow h in
      if ovf (getb m o) =? 0 then (o, o + 1, m) else (o, 0, set_ovf m o 0)
    else let (o, m1) := alloc m 1 in (o, 0, m1) in
  let '(nov, m2) :=
    if hB h <? 16 then ((noverflow h + 1) mod W16, m1)
    else let (r, m2) := fastrand m1 in
         if N.land r (2 ^ (hB h - 15) - 1) =? 0 then ((noverflow h + 1) mod W16, m2) else (noverflow h, m2) in
  (o, mkH (count h) (flags h) (hB h) nov (hash0 h) (buckets h) (oldbuckets h) (nevacuate h) nx,
   set_ovf m2 b o).

(* ---------- lookup (mapaccess1/2/K share this loop) ---------- *)
Inductive scan := SFound (i : N) | SStop | SNext.

Fixpoint scan_slots (tps kys : list N) (i top k : N) : scan :=
  match tps, kys with
  | t :: tps', ky :: kys' =>
    if negb (t =? top) then
      if t =? emptyRest then SStop else scan_slots tps' kys' (i + 1) top k
    else if keq k ky then SFound i else scan_slots tps' kys' (i + 1) top k
  | _, _ => SNext
  end.

(* Some (bucket, slot) or None *)
Fixpoint find_chain (fuel : nat) (m : mem) (b top k : N) : res (option (N * N)) :=
  match fuel with
  | O => Hang
  | S f =>
    if b =? 0 then Ok None else
    let bk := getb m b in
    match scan_slots (tops bk) (bkeys bk) 0 top k with
    | SFound i => Ok (Some (b, i))
    | SStop => Ok None
    | SNext => find_chain f m (ovf bk) top k
    end
  end.

Definition start_bucket (h : hmap) (m : mem) (hash : N) : N :=
  let mk := bmask (hB h) in
  let b := buckets h + N.land hash mk in
  if growing h then
    let mk' := if sameSize h then mk else mk / 2 in
    let oldb := oldbuckets h + N.land hash mk' in
    if evacuated m oldb then b else oldb
  else b.

(* mapaccessK / mapaccess2 on a non-nil map: Some (key, value) *)
Definition mapaccess (fuel : nat) (h : hmap) (m : mem) (k : N) : res (option (N * N) * mem) :=
  if count h =? 0 then Ok (None, m) else
  let (hash, m1) := hashk k (hash0 h) m in
  bind (find_chain fuel m1 (start_bucket h m1 hash) (tophash hash) k) (fun r =>
  match r with
  | Some (b, i) => Ok (Some (key_at m1 b i, val_at m1 b i), m1)
  | None => Ok (None, m1)
  end).

(* ---------- evacuate ---------- *)
Record evacDst := mkD { db : N; di : N }.

Section Evac.
Variable T : mtype.

(* one slot i of old bucket b; x/y destinations threaded *)
Definition evac_slot (h : hmap) (m : mem) (b i : N) (x y : evacDst) : hmap * mem * evacDst * evacDst :=
  let top := top_at m b i in
  if isEmpty top then (h, set_top m b i evacuatedEmpty, x, y) else
  let m0 := if top <? minTopHash then set_bad m else m in
  let k := key_at m0 b i in
  let v := val_at m0 b i in
  let '(useY, top1, m1) :=
    if sameSize h then (0, top, m0) else
    let (hash, m1) := hashk k (hash0 h) m0 in
    if has (flags h) fIterator && negb (reflexive T) && negb (keq k k)
    then (N.land top 1, tophash hash, m1)
    else (if negb (N.land hash (noldbuckets h) =? 0) then 1 else 0, top, m1) in
  let m2 := set_top m1 b i (evacuatedX + useY) in
  let dst := if useY =? 1 then y else x in
  let '(dst1, h1, m3) :=
    if di dst =? 8 then
      let '(o, h1, m3) := newoverflow h m2 (db dst) in (mkD o 0, h1, m3)
    else (dst, h, m2) in
  let m4 := set_top m3 (db dst1) (N.land (di dst1) 7) top1 in
  let m5 := set_key m4 (db dst1) (di dst1) k in
  let m6 := set_val m5 (db dst1) (di dst1) v in
  let dst2 := mkD (db dst1) (di dst1 + 1) in
  if useY =? 1 then (h1, m6, x, dst2) else (h1, m6, dst2, y).

Fixpoint evac_slots (n : nat) (h : hmap) (m : mem) (b i : N) (x y : evacDst) :=
  match n with
  | O => (h, m, x, y)
  | S n' => let '(h1, m1, x1, y1) := evac_slot h m b i x y in evac_slots n' h1 m1 b (i + 1) x1 y1
  end.

Fixpoint evac_chain (fuel : nat) (h : hmap) (m : mem) (b : N) (x y : evacDst) : res (hmap * mem) :=
  match fuel with
  | O => Hang
  | S f =>
    if b =? 0 then Ok (h, m) else
    let '(h1, m1, x1, y1) := evac_slots 8 h m b 0 x y in
    evac_chain f h1 m1 (ovf (getb m1 b)) x1 y1
  end.

Fixpoint advance_loop (fuel : nat) (m : mem) (old nev stop : N) : N :=
  match fuel with
  | O => nev
  | S f => if negb (nev =? stop) && evacuated m (old + nev) then advance_loop f m old (nev + 1) stop else nev
  end.

Definition advanceEvacuationMark (fuel : nat) (h : hmap) (m : mem) (newbit : N) : hmap :=
  let nev := nevacuate h + 1 in
  let stop := N.min (nev + 1024) newbit in
  let nev1 := advance_loop fuel m (oldbuckets h) nev stop in
  if nev1 =? newbit
  then mkH (count h) (N.land (flags h) (N.lxor 255 fSameSizeGrow)) (hB h) (noverflow h) (hash0 h)
           (buckets h) 0 nev1 (nextOverflow h)
  else mkH (count h) (flags h) (hB h) (noverflow h) (hash0 h) (buckets h) (oldbuckets h) nev1 (nextOverflow h).

Definition evacuate (fuel : nat) (h : hmap) (m : mem) (oldbucket : N) : res (hmap * mem) :=
  let b := oldbuckets h + oldbucket in
  let newbit := noldbuckets h in
  bind (if evacuated m b then Ok (h, m)
        else bind (evac_chain fuel h m b (mkD (buckets h + oldbucket) 0) (mkD (buckets h + oldbucket + newbit) 0))
             (fun hm => let (h1, m1) := hm in
              (* unlink the overflow buckets and clear key/elem: tophash is kept *)
              if negb (has (flags h1) fOldIterator) && ptrbucket T && memclr T
              then Ok (h1, setb m1 b (mkB (tops (getb m1 b)) zeros8 zeros8 0))
              else Ok (h1, m1)))
  (fun hm => let (h1, m1) := hm in
     Ok (if oldbucket =? nevacuate h1 then advanceEvacuationMark fuel h1 m1 newbit else h1, m1)).

Definition growWork (fuel : nat) (h : hmap) (m : mem) (bucket : N) : res (hmap * mem) :=
  bind (evacuate fuel h m (N.land bucket (oldbucketmask h))) (fun hm => let (h1, m1) := hm in
  if growing h1 then evacuate fuel h1 m1 (nevacuate h1) else Ok (h1, m1)).

Definition hashGrow (h : hmap) (m : mem) : hmap * mem :=
  let over := overLoadFactor (count h + 1) (hB h) in
  let bigger := if over then 1 else 0 in
  let fl0 := if over then flags h else N.lor (flags h) fSameSizeGrow in
  let '(arr, nx, m1) := makeBucketArray false m (hB h + bigger) 0 in
  let fl1 := N.land fl0 (N.lxor 255 (fIterator + fOldIterator)) in
  let fl2 := if has fl0 fIterator then N.lor fl1 fOldIterator else fl1 in
  (mkH (count h) fl2 (hB h + bigger) 0 (hash0 h) arr (buckets h) 0
       (if nx =? 0 then nextOverflow h else nx), m1).

(* ---------- mapassign ---------- *)
(* scan one bucket for assign: found slot, or continue; tracks first empty slot *)
Fixpoint assign_slots (tps kys : list N) (b i top k : N) (ins : option (N * N))
  : option N * bool * option (N * N) :=          (* found slot, stop, inserti *)
  match tps, kys with
  | t :: tps', ky :: kys' =>
    if negb (t =? top) then
      let ins1 := match ins with None => if isEmpty t then Some (b, i) else None | s => s end in
      if t =? emptyRest then (None, true, ins1) else assign_slots tps' kys' b (i + 1) top k ins1
    else if keq k ky then (Some i, false, ins) else assign_slots tps' kys' b (i + 1) top k ins
  | _, _ => (None, false, ins)
  end.

Inductive asg := AFound (b i : N) | AMissing (last : N) (ins : option (N * N)).

Fixpoint assign_chain (fuel : nat) (m : mem) (b top k : N) (ins : option (N * N)) : res asg :=
  match fuel with
  | O => Hang
  | S f =>
    let bk := getb m b in
    match assign_slots (tops bk) (bkeys bk) b 0 top k ins with
    | (Some i, _, _) => Ok (AFound b i)
    | (None, true, ins1) => Ok (AMissing b ins1)
    | (None, false, ins1) => if ovf bk =? 0 then Ok (AMissing b ins1) else assign_chain f m (ovf bk) top k ins1
    end
  end.

(* the part of mapassign after the label again; [tries] bounds the goto again *)
Fixpoint assign_body (tries : nat) (fuel : nat) (h : hmap) (m : mem) (hash k v : N)
  : res (hmap * mem) :=
  match tries with O => Hang | S tries' =>
  let bucket := N.land hash (bmask (hB h)) in
  bind (if growing h then growWork fuel h m bucket else Ok (h, m)) (fun hm => let (h1, m1) := hm in
  let top := tophash hash in
  bind (assign_chain fuel m1 (buckets h1 + bucket) top k None) (fun a =>
  match a with
  | AFound b i =>
    let m2 := if needkeyupdate T then set_key m1 b i k else m1 in
    Ok (h1, set_val m2 b i v)
  | AMissing last ins =>
    if negb (growing h1) &&
       (overLoadFactor (count h1 + 1) (hB h1) || tooManyOverflow (noverflow h1) (hB h1))
    then let (h2, m2) := hashGrow h1 m1 in assign_body tries' fuel h2 m2 hash k v
    else
      let '(b, i, h2, m2) :=
        match ins with
        | Some (b, i) => (b, i, h1, m1)
        | None => let '(o, h2, m2) := newoverflow h1 m1 last in (o, 0, h2, m2)
        end in
      let m3 := set_top (set_key m2 b i k) b i top in
      Ok (mkH (count h2 + 1) (flags h2) (hB h2) (noverflow h2) (hash0 h2) (buckets h2)
              (oldbuckets h2) (nevacuate h2) (nextOverflow h2), set_val m3 b i v)
  end))
  end.

Definition mapassign (fuel : nat) (h : hmap) (m : mem) (k v : N) : res (hmap * mem) :=
  let (hash, m1) := hashk k (hash0 h) m in
  let '(h1, m2) :=
    if buckets h =? 0 then
      let (a, m2) := alloc m1 1 in
      (mkH (count h) (flags h) (hB h) (noverflow h) (hash0 h) a (oldbuckets h) (nevacuate h) (nextOverflow h), m2)
    else (h, m1) in
  assign_body 6%nat fuel h1 m2 hash k v.

(* ---------- mapdelete ---------- *)
Fixpoint find_prev (fuel : nat) (m : mem) (b c : N) : res N :=
  match fuel with
  | O => Hang
  | S f => if ovf (getb m b) =? c then Ok b else find_prev f m (ovf (getb m b)) c
  end.

(* the emptyRest back-fill loop; (b, i) is the cell just marked emptyOne *)
Fixpoint backfill (fuel : nat) (m : mem) (borig b i : N) : res mem :=
  match fuel with
  | O => Hang
  | S f =>
    let m1 := set_top m b i emptyRest in
    if i =? 0 then
      if b =? borig then Ok m1 else
      bind (find_prev fuel m1 borig b) (fun p =>
      if top_at m1 p 7 =? emptyOne then backfill f m1 borig p 7 else Ok m1)
    else if top_at m1 b (i - 1) =? emptyOne then backfill f m1 borig b (i - 1) else Ok m1
  end.

Definition mapdelete (fuel : nat) (h : hmap) (m : mem) (k : N) : res (hmap * mem) :=
  if count h =? 0 then Ok (h, m) else
  let (hash, m1) := hashk k (hash0 h) m in
  let bucket := N.land hash (bmask (hB h)) in
  bind (if growing h then growWork fuel h m1 bucket else Ok (h, m1)) (fun hm => let (h1, m2) := hm in
  let borig := buckets h1 + bucket in
  bind (find_chain fuel m2 borig (tophash hash) k) (fun r =>
  match r with
  | None => Ok (h1, m2)
  | Some (b, i) =>
    let m3 := set_top (if memclr T then set_val m2 b i 0 else m2) b i emptyOne in
    let last :=
      if i =? 7 then
        let o := ovf (getb m3 b) in (o =? 0) || (top_at m3 o 0 =? emptyRest)
      else top_at m3 b (i + 1) =? emptyRest in
    bind (if last then backfill fuel m3 borig b i else Ok m3) (fun m4 =>
    let c := count h1 - 1 in
    let '(h0, m5) := if c =? 0 then fastrand m4 else (hash0 h1, m4) in
    Ok (mkH c (flags h1) (hB h1) (noverflow h1) h0 (buckets h1) (oldbuckets h1) (nevacuate h1)
            (nextOverflow h1), m5))
  end)).

(* ---------- mapclear ---------- *)
Fixpoint mark_chain (fuel : nat) (m : mem) (b : N) : res mem :=
  match fuel with
  | O => Hang
  | S f =>
    if b =? 0 then Ok m else
    let bk := getb m b in
    mark_chain f (setb m b (mkB zeros8 (bkeys bk) (bvals bk) (ovf bk))) (ovf bk)
  end.

Fixpoint mark_buckets (n : nat) (fuel : nat) (m : mem) (base i : N) : res mem :=
  match n with
  | O => Ok m
  | S n' => bind (mark_chain fuel m (base + i)) (fun m1 => mark_buckets n' fuel m1 base (i + 1))
  end.

Definition mapclear (fuel : nat) (h : hmap) (m : mem) : res (hmap * mem) :=
  if count h =? 0 then Ok (h, m) else
  bind (mark_buckets (N.to_nat (bshift (hB h))) fuel m (buckets h) 0) (fun m1 =>
  bind (if growing h then mark_buckets (N.to_nat (noldbuckets h)) fuel m1 (oldbuckets h) 0 else Ok m1) (fun m2 =>
  let (h0, m3) := fastrand m2 in
  (* the array is wiped and reused unless a range loop may still be walking it *)
  let dirty := if clearfresh T && (has (flags h) fIterator || has (flags h) fOldIterator) then 0 else buckets h in
  let '(arr, nx, m4) := makeBucketArray (memclr T) m3 (hB h) dirty in
  Ok (mkH 0 (N.land (flags h) (N.lxor 255 fSameSizeGrow)) (hB h) 0 h0 arr 0 0 nx, m4))).

(* ---------- iterators ---------- *)
Record hiter := mkI {
  ilive : bool;                 (* it.h != nil *)
  icur : option (N * N);        (* it.key / it.elem *)
  ibuckets : N; ibptr : N; istart : N; ioffset : N; iwrapped : bool;
  iB : N; ii : N; ibucket : N; icheck : N;
  iready : bool }.
Definition dead_iter := mkI false None 0 0 0 0 false 0 0 0 0 true.

Inductive slotres := YSkip | YYield (kv : N * N).

(* the body of the for loop of mapiternext for one slot index i *)
Definition iter_slot (fuel : nat) (h : hmap) (m : mem) (it : hiter) (b i check : N) : res (slotres * mem) :=
  let offi := N.land (i + ioffset it) 7 in
  let t := top_at m b offi in
  if isEmpty t || (t =? evacuatedEmpty) then Ok (YSkip, m) else
  let k := key_at m b offi in
  let e := val_at m b offi in
  let refl := reflexive T || keq k k in
  let '(skip, m1) :=
    if negb (check =? noCheck) && negb (sameSize h) then
      if refl then
        let (hash, m1) := hashk k (hash0 h) m in
        (negb (N.land hash (bmask (iB it)) =? check), m1)
      else (negb (check / 2 ^ (iB it - 1) =? N.land t 1), m)
    else (false, m) in
  if skip then Ok (YSkip, m1) else
  if (negb (t =? evacuatedX) && negb (t =? evacuatedY)) || negb refl then Ok (YYield (k, e), m1)
  else bind (mapaccess fuel h m1 k) (fun r =>
       match r with
       | (Some kv, m2) => Ok (YYield kv, m2)
       | (None, m2) => Ok (YSkip, m2)
       end).

(* one pass of the goto-next loop; fuel bounds bucket switches plus slots *)
Fixpoint iter_loop (fuel : nat) (ffuel : nat) (h : hmap) (m : mem) (it : hiter)
  (b i bucket check : N) (wrapped : bool) : res (hiter * mem) :=
  match fuel with
  | O => Hang
  | S f =>
    if b =? 0 then
      if (bucket =? istart it) && wrapped then
        Ok (mkI (ilive it) None (ibuckets it) (ibptr it) (istart it) (ioffset it) wrapped (iB it)
                (ii it) (ibucket it) (icheck it) (iready it), m)
      else
        let '(b1, check1) :=
          if growing h && (iB it =? hB h) then
            let ob := oldbuckets h + N.land bucket (oldbucketmask h) in
            if negb (evacuated m ob) then (ob, bucket) else (ibuckets it + bucket, noCheck)
          else (ibuckets it + bucket, noCheck) in
        let bucket1 := bucket + 1 in
        let '(bucket2, wrapped1) := if bucket1 =? bshift (iB it) then (0, true) else (bucket1, wrapped) in
        (* a nil array base cannot occur for a live iterator *)
        iter_loop f ffuel h m it b1 0 bucket2 check1 wrapped1
    else if i <? 8 then
      bind (iter_slot ffuel h m it b i check) (fun r =>
      match r with
      | (YSkip, m1) => iter_loop f ffuel h m1 it b (i + 1) bucket check wrapped
      | (YYield kv, m1) =>
        Ok (mkI (ilive it) (Some kv) (ibuckets it) b (istart it) (ioffset it) wrapped (iB it)
                (i + 1) bucket check (iready it), m1)
      end)
    else iter_loop f ffuel h m it (ovf (getb m b)) 0 bucket check wrapped
  end.

Definition mapiternext (fuel : nat) (h : hmap) (m : mem) (it : hiter) : res (hiter * mem) :=
  iter_loop fuel fuel h m it (ibptr it) (ii it) (ibucket it) (icheck it) (iwrapped it).

(* mapiterinit + NewMapIter *)
Definition newmapiter (fuel : nat) (oh : option hmap) (m : mem) : res (hiter * option hmap * mem) :=
  match oh with
  | None => Ok (dead_iter, None, m)
  | Some h =>
    if count h =? 0 then Ok (dead_iter, Some h, m) else
    let (r, m1) := if 28 <? hB h then fastrand64 m else fastrand m in
    let start := N.land r (bmask (hB h)) in
    let off := N.land (r / 2 ^ hB h) 7 in
    let h1 := mkH (count h) (N.lor (flags h) (fIterator + fOldIterator)) (hB h) (noverflow h) (hash0 h)
                  (buckets h) (oldbuckets h) (nevacuate h) (nextOverflow h) in
    let it := mkI true None (buckets h) 0 start off false (hB h) 0 start 0 true in
    bind (mapiternext fuel h1 m1 it) (fun r => let (it1, m2) := r in Ok (it1, Some h1, m2))
  end.

(* z_map.go MapIterNext: (ok, k, v) *)
Definition mapiter_next (fuel : nat) (oh : option hmap) (m : mem) (it : hiter)
  : res (option (N * N) * hiter * mem) :=
  let stop it := mkI (ilive it) None (ibuckets it) (ibptr it) (istart it) (ioffset it) (iwrapped it)
                     (iB it) (ii it) (ibucket it) (icheck it) (iready it) in
  match oh with
  | None => Ok (None, stop it, m)
  | Some h =>
    if negb (ilive it) || (count h =? 0) then Ok (None, stop it, m) else
    bind (if iready it then Ok (it, m)
          else bind (mapiternext fuel h m it) (fun r => let (it1, m1) := r in
               Ok (mkI (ilive it1) (icur it1) (ibuckets it1) (ibptr it1) (istart it1) (ioffset it1)
                       (iwrapped it1) (iB it1) (ii it1) (ibucket it1) (icheck it1) true, m1)))
    (fun r => let (it1, m1) := r in
     match icur it1 with
     | None => Ok (None, it1, m1)
     | Some kv =>
       Ok (Some kv, mkI (ilive it1) (icur it1) (ibuckets it1) (ibptr it1) (istart it1) (ioffset it1)
                        (iwrapped it1) (iB it1) (ii it1) (ibucket it1) (icheck it1) false, m1)
     end)
  end.

End Evac.

(* ---------- histories ---------- *)
Inductive op :=
| OSet (k v : N) | OGet (k : N) | OGet1 (k : N) | ODel (k : N) | OClear | OLen
| OIterNew (s : N) | OIterNext (s : N) | ODrain.

Record world := mkW { wm : mem; wh : option hmap; wits : list hiter }.

Definition internals (w : world) : list N :=
  match wh w with
  | None => [0; 0; 0; 0; 0; 0; if bad (wm w) then 1 else 0]
  | Some h => [hB h; noverflow h; flags h; nevacuate h; if growing h then 1 else 0; count h;
               if bad (wm w) then 1 else 0]
  end.

Definition PANIC : N := 777.
Definition HANG : N := 888.

Fixpoint set_iter (l : list hiter) (s : nat) (it : hiter) : list hiter :=
  match l, s with
  | [], _ => []
  | _ :: t, O => it :: t
  | x :: t, S s' => x :: set_iter t s' it
  end.

Fixpoint drain_loop (n : nat) (T : mtype) (fuel : nat) (oh : option hmap) (m : mem) (it : hiter)
  (acc : list N) : res (list N * mem) :=
  match n with
  | O => Hang
  | S n' =>
    bind (mapiter_next T fuel oh m it) (fun r =>
    match r with
    | (None, _, m1) => Ok (rev acc, m1)
    | (Some (k, v), it1, m1) => drain_loop n' T fuel oh m1 it1 (v :: k :: acc)
    end)
  end.

(* one step: Some (observation, new world) or None after a hang *)
Definition step (T : mtype) (fuel : nat) (w : world) (o : op) : res (list N * world) :=
  let m := wm w in
  match o, wh w with
  | OSet k v, None => Ok ([PANIC], w)
  | OSet k v, Some h =>
    bind (mapassign T fuel h m k v) (fun r => let (h1, m1) := r in Ok ([], mkW m1 (Some h1) (wits w)))
  | OGet k, None => Ok ([0; 0], w)
  | OGet k, Some h =>
    bind (mapaccess fuel h m k) (fun r =>
    match r with
    | (Some (_, v), m1) => Ok ([1; v], mkW m1 (wh w) (wits w))
    | (None, m1) => Ok ([0; 0], mkW m1 (wh w) (wits w))
    end)
  | OGet1 k, None => Ok ([0], w)
  | OGet1 k, Some h =>
    bind (mapaccess fuel h m k) (fun r =>
    match r with
    | (Some (_, v), m1) => Ok ([v], mkW m1 (wh w) (wits w))
    | (None, m1) => Ok ([0], mkW m1 (wh w) (wits w))
    end)
  | ODel k, None => Ok ([], w)
  | ODel k, Some h =>
    bind (mapdelete T fuel h m k) (fun r => let (h1, m1) := r in Ok ([], mkW m1 (Some h1) (wits w)))
  | OClear, None => Ok ([], w)
  | OClear, Some h =>
    bind (mapclear T fuel h m) (fun r => let (h1, m1) := r in Ok ([], mkW m1 (Some h1) (wits w)))
  | OLen, None => Ok ([0], w)
  | OLen, Some h => Ok ([count h], w)
  | OIterNew s, oh =>
    bind (newmapiter T fuel oh m) (fun r => let '(it, oh1, m1) := r in
    Ok ([], mkW m1 oh1 (set_iter (wits w) (N.to_nat s) it)))
  | OIterNext s, oh =>
    bind (mapiter_next T fuel oh m (nth (N.to_nat s) (wits w) dead_iter)) (fun r =>
    let '(kv, it1, m1) := r in
    Ok (match kv with Some (k, v) => [1; k; v] | None => [0; 0; 0] end,
        mkW m1 oh (set_iter (wits w) (N.to_nat s) it1)))
  | ODrain, oh =>
    bind (newmapiter T fuel oh m) (fun r => let '(it, oh1, m1) := r in
    bind (drain_loop (N.to_nat (match oh1 with Some h => count h + 2 | None => 2 end)) T fuel oh1 m1 it []) (fun r2 => let (l, m2) := r2 in
    Ok (l, mkW m2 oh1 (wits w))))
  end.

Fixpoint run_ops (T : mtype) (fuel : nat) (w : world) (ops : list op) : list (list N) :=
  match ops with
  | [] => []
  | o :: ops' =>
    match step T fuel w o with
    | Ok (obs, w1) => (obs ++ internals w1) :: run_ops T fuel w1 ops'
    | Hang => [[HANG]]
    end
  end.

(* configuration of one history *)
Record config := mkC { c_nil : bool; c_hint : N; c_refl : bool; c_upd : bool; c_seed : N;
                       c_memclr : bool; c_ptr : bool; c_fresh : bool }.

Definition init_world (c : config) : world :=
  let m0 := mkM (PositiveMap.empty bucket) 2 (c_seed c) false in
  if c_nil c then mkW m0 None [dead_iter; dead_iter; dead_iter]
  else let (h, m1) := makemap m0 (c_hint c) in mkW m1 (Some h) [dead_iter; dead_iter; dead_iter].

Definition run_history (x : config * list op) : list (list N) :=
  let fuel := N.to_nat 65536 in
  run_ops (mkT (c_refl (fst x)) (c_upd (fst x)) (c_memclr (fst x)) (c_ptr (fst x)) (c_fresh (fst x))) fuel (init_world (fst x)) (snd x).

Definition trace_eqb : list (list N) -> list (list N) -> bool := list_eqb (list_eqb N.eqb).

(* ---------- API-level projection of a trace (used only when the exact traces differ) ---------- *)
Fixpoint pairs_of (l : list N) : list (N * N) :=
  match l with a :: b :: t => (a, b) :: pairs_of t | _ => [] end.
Definition pair_leb (x y : N * N) : bool :=
  (fst x <? fst y) || ((fst x =? fst y) && (snd x <=? snd y)).
Fixpoint ins_pair (x : N * N) (l : list (N * N)) : list (N * N) :=
  match l with
  | [] => [x]
  | y :: t => if pair_leb x y then x :: l else y :: ins_pair x t
  end.
Definition sort_pairs (l : list (N * N)) : list (N * N) := fold_right ins_pair [] l.
Fixpoint flat_pairs (l : list (N * N)) : list N :=
  match l with [] => [] | (a, b) :: t => a :: b :: flat_pairs t end.

Definition obs_of (o : op) (x : list N) : list N :=
  let n := (length x - 7)%nat in
  let obs := firstn n x in
  let cnt := nth (n + 5) x 0 in
  match o with
  | OIterNext _ => [cnt]
  | ODrain => flat_pairs (sort_pairs (pairs_of obs)) ++ [cnt]
  | _ => obs ++ [cnt]
  end.

Fixpoint map_obs (ops : list op) (tr : list (list N)) : list (list N) :=
  match ops, tr with
  | o :: ops', x :: tr' => obs_of o x :: map_obs ops' tr'
  | _, _ => []
  end.

Definition run_history_obs (x : config * list op) : list (list N) := map_obs (snd x) (run_history x).

(* key literal used by the generated case files: top byte, nan/variant flags, unique part, low bits *)
Definition K (t f u l : N) : N := t * 72057594037927936 + f * 18014398509481984 + u * 65536 + l.
