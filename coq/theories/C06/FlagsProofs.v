(* C06 - proofs about the key-type analysis (Flags.v) *)
From LLGoV Require Import C06.Flags.
Local Open Scope N_scope.

(* induction principle for the nested type *)
Section KtyInd.
Variable P : kty -> Prop.
Hypothesis Hb : forall b, P (KBasic b).
Hypothesis Hp : P KPtr.
Hypothesis Hc : P KChan.
Hypothesis Hi : P KIface.
Hypothesis Ha : forall n e, P e -> P (KArr n e).
Hypothesis Hs : forall fs, Forall P fs -> P (KStruct fs).
Hypothesis Hn : forall u, P u -> P (KNamed u).
Fixpoint kty_ind' (t : kty) : P t :=
  match t with
  | KBasic b => Hb b
  | KPtr => Hp
  | KChan => Hc
  | KIface => Hi
  | KArr n e => Ha n e (kty_ind' e)
  | KStruct fs => Hs fs ((fix go (l : list kty) : Forall P l :=
                            match l with [] => Forall_nil P | f :: r => Forall_cons f (kty_ind' f) (go r) end) fs)
  | KNamed u => Hn u (kty_ind' u)
  end.
End KtyInd.

Lemma hmp_struct fs : hash_might_panic (KStruct fs) = existsb hash_might_panic fs.
Proof. simpl. induction fs as [|f r IH]; simpl; auto; try (now rewrite IH). Qed.

Lemma hash_might_panic_iff t : hash_might_panic t = true <-> reaches_iface t.
Proof.
  induction t using kty_ind'.
  - split; [discriminate|inversion 1].
  - split; [discriminate|inversion 1].
  - split; [discriminate|inversion 1].
  - split; [constructor|reflexivity].
  - simpl. rewrite IHt. split; [now constructor|inversion 1; auto].
  - rewrite hmp_struct, existsb_exists. rewrite Forall_forall in H. split.
    + intros (f & Hin & Hf). apply (RI_struct fs f); auto. now apply H.
    + inversion 1; subst. exists f. split; auto. now apply H.
  - simpl. rewrite IHt. split; [now constructor|inversion 1; auto].
Qed.

Lemma refl_struct fs : is_reflexive (KStruct fs) = forallb is_reflexive fs.
Proof. simpl. induction fs as [|f r IH]; simpl; auto; try (now rewrite IH). Qed.

(* a key type is reflexive iff neither a float/complex nor an interface is reachable *)
Lemma is_reflexive_iff t : is_reflexive t = false <-> (reaches_float t \/ reaches_iface t).
Proof.
  induction t using kty_ind'.
  - destruct b; simpl; split;
      solve [discriminate | reflexivity | intros [H|H]; inversion H | intros _; left; constructor].
  - split; [discriminate|intros [H|H]; inversion H].
  - split; [discriminate|intros [H|H]; inversion H].
  - split; [intros _; right; constructor|reflexivity].
  - simpl. rewrite IHt. split.
    + intros [H|H]; [left|right]; now constructor.
    + intros [H|H]; inversion H; auto.
  - rewrite refl_struct. rewrite Forall_forall in H. split.
    + intros Hf. assert (E : exists f, In f fs /\ is_reflexive f = false).
      { clear H. induction fs as [|f r IH]; simpl in *; [discriminate|].
        destruct (is_reflexive f) eqn:Ef; [|exists f; auto].
        destruct (IH Hf) as (g & Hg & Hg2). exists g. auto. }
      destruct E as (f & Hin & Hf2). destruct (proj1 (H f Hin) Hf2) as [R|R]; [left|right]; econstructor; eauto.
    + intros HR. assert (E : exists f, In f fs /\ (reaches_float f \/ reaches_iface f)).
      { destruct HR as [HR|HR]; inversion HR; subst; eauto. }
      destruct E as (f & Hin & Hf2). apply (proj2 (H f Hin)) in Hf2.
      clear H HR. induction fs as [|g r IH]; simpl in *; [tauto|].
      destruct Hin as [->|Hin]; [now rewrite Hf2|]. rewrite (IH Hin). apply andb_false_r.
  - simpl. rewrite IHt. split.
    + intros [H|H]; [left|right]; now constructor.
    + intros [H|H]; inversion H; auto.
Qed.

(* whenever the hash might panic the key must be re-stored on overwrite and is not reflexive *)
Lemma hmp_implies t : hash_might_panic t = true -> need_key_update t = true /\ is_reflexive t = false.
Proof.
  intros H. split.
  - induction t using kty_ind'; simpl in *; try discriminate; auto.
    rewrite Forall_forall in H0. induction fs as [|f r IH]; simpl in *; [discriminate|].
    apply orb_true_iff in H. destruct H as [H|H].
    + rewrite (H0 f); auto.
    + rewrite IH; auto. apply orb_true_r.
  - apply is_reflexive_iff. right. now apply hash_might_panic_iff.
Qed.
