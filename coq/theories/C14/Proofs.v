(* C14 - proofs: the link name determines the entity (string level) *)
From Coq Require Import Ascii String.
From LLGoV Require Import C07.Model C07.PStr C14.Model C14.Bal.
Local Open Scope N_scope.

(* ---------- character classes ---------- *)
Definition nonpath (c : N) : bool := negb (path_char c).
Definition nonident (c : N) : bool := negb (ident_char c).
Definition nondigit (c : N) : bool := negb (is_digit c).
Definition is_slash (c : N) : bool := c =? 47.
Definition is_dot (c : N) : bool := c =? 46.
Definition is_lb (c : N) : bool := c =? c_lb.

Ltac chars := unfold c_dollar, c_hash, c_dot, c_lb, c_rb, c_lp, c_rp, c_star in *.

Lemma free_neg (f : N -> bool) a : forallb f a = true -> free (fun c => negb (f c)) a.
Proof.
  unfold free. intros F. rewrite forallb_forall in *. intros c I. rewrite negb_involutive. auto.
Qed.

Ltac fr := repeat (apply free_app; split); auto; try reflexivity; try (now apply free_neg).

Lemma free_rev D a : free D a -> free D (rev a).
Proof.
  unfold free. rewrite !forallb_forall. intros F c I. apply F. now apply in_rev.
Qed.

Lemma headD_app_ne D a x : headD D a -> a <> [] -> headD D (a ++ x).
Proof. destruct a; cbn; auto. congruence. Qed.

Lemma headD_snoc D a c : headD D a -> D c = true -> headD D (a ++ [c]).
Proof. destruct a; cbn; auto. Qed.

Lemma headD_weaken (D D' : N -> bool) r : (forall c, D c = true -> D' c = true) -> headD D r -> headD D' r.
Proof. destruct r; cbn; auto. Qed.

Lemma wf_ident_free s : wf_ident s = true -> free nonident s.
Proof.
  unfold wf_ident. destruct s as [|c s]; [discriminate|]. rewrite andb_true_iff. intros [_ F].
  now apply free_neg.
Qed.
Lemma wf_ident_head s : wf_ident s = true -> exists c r, s = c :: r /\ ident_char c = true.
Proof.
  unfold wf_ident. destruct s as [|c s]; [discriminate|]. rewrite andb_true_iff. intros [_ F].
  cbn in F. apply andb_true_iff in F as [F _]. eauto.
Qed.

(* identifier followed by a non-identifier character *)
Lemma ident_split a1 a2 r1 r2 :
  wf_ident a1 = true -> wf_ident a2 = true -> headD nonident r1 -> headD nonident r2 ->
  a1 ++ r1 = a2 ++ r2 -> a1 = a2 /\ r1 = r2.
Proof. intros. apply (split_first nonident); auto using wf_ident_free. Qed.

(* ---------- package path: cut at the first dot after the last slash ---------- *)

Lemma last_elem_decomp : forall p ok, last_elem_nodot p ok = true ->
  exists d e, p = d ++ e /\ free is_slash e /\ free is_dot e /\ headD is_slash (rev d)
              /\ (ok = false -> d <> []).
Proof.
  induction p as [|c r IH]; intros ok L; cbn in L.
  - exists [], []. refine (conj _ (conj _ (conj _ (conj _ _)))); try reflexivity; try exact I.
    subst ok. discriminate.
  - destruct (c =? 47) eqn:E47.
    + destruct (IH _ L) as (d & e & -> & Fs & Fd & Hd & _).
      exists (c :: d), e. refine (conj _ (conj Fs (conj Fd (conj _ _)))).
      * reflexivity.
      * cbn. apply headD_snoc; auto.
      * discriminate.
    + destruct (c =? 46) eqn:E46.
      * destruct (IH _ L) as (d & e & -> & Fs & Fd & Hd & Ne).
        exists (c :: d), e. refine (conj _ (conj Fs (conj Fd (conj _ _)))).
        -- reflexivity.
        -- cbn. apply headD_app_ne; auto. intros R. apply (Ne eq_refl).
           apply (f_equal (@rev N)) in R. now rewrite rev_involutive in R.
        -- discriminate.
      * destruct (IH _ L) as (d & e & -> & Fs & Fd & Hd & Ne).
        destruct d as [|d0 d'].
        -- exists [], (c :: e). refine (conj _ (conj _ (conj _ (conj _ _)))).
           ++ reflexivity.
           ++ apply free_cons. split; auto.
           ++ apply free_cons. split; auto.
           ++ exact I.
           ++ intros ->. now apply (Ne eq_refl).
        -- exists (c :: d0 :: d'), e. refine (conj _ (conj Fs (conj Fd (conj _ _)))).
           ++ reflexivity.
           ++ change (rev (c :: d0 :: d')) with (rev (d0 :: d') ++ [c]). apply headD_app_ne; auto.
              intros R. apply (f_equal (@rev N)) in R. rewrite rev_involutive in R. discriminate.
           ++ discriminate.
Qed.

Lemma last_slash_unique d1 d2 b1 b2 :
  free is_slash b1 -> free is_slash b2 -> headD is_slash (rev d1) -> headD is_slash (rev d2) ->
  d1 ++ b1 = d2 ++ b2 -> d1 = d2 /\ b1 = b2.
Proof.
  intros F1 F2 H1 H2 E. apply (f_equal (@rev N)) in E. rewrite !rev_app_distr in E.
  destruct (split_first is_slash (rev b1) (rev b2) (rev d1) (rev d2)) as [A B]; auto using free_rev.
  split.
  - apply (f_equal (@rev N)) in B. now rewrite !rev_involutive in B.
  - apply (f_equal (@rev N)) in A. now rewrite !rev_involutive in A.
Qed.

Lemma wf_path_parts p : wf_path p = true ->
  forallb path_char p = true /\ last_elem_nodot p true = true /\ path_of p = p.
Proof.
  unfold wf_path. rewrite !andb_true_iff. intros [[[_ A] B] C]. repeat split; auto.
  unfold path_of. destruct (strip_prefix s_patch p); [discriminate|reflexivity].
Qed.

(* w: the part of the tail made of path characters; it contains no slash *)
Lemma path_split p1 p2 w1 w2 r1 r2 :
  wf_path p1 = true -> wf_path p2 = true ->
  free nonpath w1 -> free is_slash w1 -> free nonpath w2 -> free is_slash w2 ->
  headD nonpath r1 -> headD nonpath r2 ->
  p1 ++ [c_dot] ++ w1 ++ r1 = p2 ++ [c_dot] ++ w2 ++ r2 ->
  p1 = p2 /\ w1 = w2 /\ r1 = r2.
Proof.
  intros W1 W2 Fp1 Fs1 Fp2 Fs2 H1 H2 E.
  destruct (wf_path_parts _ W1) as (C1 & L1 & _). destruct (wf_path_parts _ W2) as (C2 & L2 & _).
  assert (E' : (p1 ++ [c_dot] ++ w1) ++ r1 = (p2 ++ [c_dot] ++ w2) ++ r2) by (now rewrite <- !app_assoc).
  assert (G1 : free nonpath (p1 ++ [c_dot] ++ w1)).
  { fr. }
  assert (G2 : free nonpath (p2 ++ [c_dot] ++ w2)).
  { fr. }
  destruct (split_first nonpath _ _ _ _ G1 G2 H1 H2 E') as [E1 ->].
  destruct (last_elem_decomp _ _ L1) as (d1 & e1 & -> & Fs1' & Fd1 & Hd1 & _).
  destruct (last_elem_decomp _ _ L2) as (d2 & e2 & -> & Fs2' & Fd2 & Hd2 & _).
  rewrite <- !app_assoc in E1.
  assert (B1 : free is_slash (e1 ++ [c_dot] ++ w1)).
  { fr. }
  assert (B2 : free is_slash (e2 ++ [c_dot] ++ w2)).
  { fr. }
  destruct (last_slash_unique d1 d2 _ _ B1 B2 Hd1 Hd2 E1) as [-> E2].
  assert (K1 : headD is_dot ([c_dot] ++ w1)) by reflexivity.
  assert (K2 : headD is_dot ([c_dot] ++ w2)) by reflexivity.
  destruct (split_first is_dot e1 e2 _ _ Fd1 Fd2 K1 K2 E2) as [-> E3].
  injection E3 as ->. auto.
Qed.

(* ---------- balanced brackets: the closing bracket of a type-argument list is found ---------- *)

Lemma bal_split : forall b1 b2 d r1 r2,
  bal d b1 = true -> bal d b2 = true ->
  b1 ++ [c_rb] ++ r1 = b2 ++ [c_rb] ++ r2 -> b1 = b2 /\ r1 = r2.
Proof.
  induction b1 as [|x b1 IH]; intros [|y b2] d r1 r2 B1 B2 E; cbn in E.
  - injection E as ->. auto.
  - injection E as <- E. cbn in B1, B2. destruct d; [|discriminate]. discriminate.
  - injection E as -> E. cbn in B1, B2. destruct d; [|discriminate]. discriminate.
  - injection E as -> E. cbn in B1, B2.
    destruct (y =? c_lb).
    + destruct (IH _ _ _ _ B1 B2 E) as [-> ->]. auto.
    + destruct (y =? c_rb).
      * destruct d; [discriminate|]. destruct (IH _ _ _ _ B1 B2 E) as [-> ->]. auto.
      * destruct (IH _ _ _ _ B1 B2 E) as [-> ->]. auto.
Qed.

(* brk ta followed by a character that is not an opening bracket *)
Lemma brk_split ta1 ta2 c z1 z2 :
  ok_targs ta1 = true -> ok_targs ta2 = true -> c <> c_lb ->
  brk ta1 ++ [c] ++ z1 = brk ta2 ++ [c] ++ z2 -> ta1 = ta2 /\ z1 = z2.
Proof.
  intros O1 O2 Nc E. destruct ta1 as [b1|], ta2 as [b2|]; cbn in E.
  - injection E as E. rewrite <- !app_assoc in E.
    destruct (bal_split _ _ _ _ _ O1 O2 E) as [-> E2]. injection E2 as ->. auto.
  - injection E as E. congruence.
  - injection E as E. congruence.
  - injection E as ->. auto.
Qed.

Lemma brk_inj ta1 ta2 : brk ta1 = brk ta2 -> ta1 = ta2.
Proof.
  destruct ta1 as [b1|], ta2 as [b2|]; cbn; intros E; try discriminate; auto.
  injection E as E. apply app_inv_tail in E. now subst.
Qed.

Lemma brk_head ta : headD is_lb (brk ta).
Proof. destruct ta; cbn; auto. Qed.

(* ---------- closure indexes ---------- *)

Lemma dec_head n : exists c r, dec n = c :: r /\ is_digit c = true.
Proof.
  pose proof (dec_nonempty n) as NE. pose proof (dec_digits n) as DG.
  destruct (dec n) as [|c r]; [congruence|]. cbn in DG. apply andb_true_iff in DG as [D _]. eauto.
Qed.

Lemma digit_nondigit_excl c : is_digit c = true -> nondigit c = false.
Proof. unfold nondigit. now intros ->. Qed.

Lemma clos_head cl r : headD is_lb r -> headD nondigit (clos_str cl ++ r).
Proof.
  destruct cl as [|i cl]; cbn.
  - destruct r as [|c r]; cbn; auto. unfold is_lb, nondigit. intros E. apply N.eqb_eq in E. now subst.
  - reflexivity.
Qed.

Lemma clos_inj : forall cl1 cl2 r1 r2, headD is_lb r1 -> headD is_lb r2 ->
  clos_str cl1 ++ r1 = clos_str cl2 ++ r2 -> cl1 = cl2 /\ r1 = r2.
Proof.
  induction cl1 as [|i cl1 IH]; intros [|j cl2] r1 r2 H1 H2 E; cbn in E.
  - auto.
  - subst r1. cbn in H1. discriminate.
  - subst r2. cbn in H2. discriminate.
  - injection E as E. rewrite <- !app_assoc in E.
    destruct (dec_split nondigit i j _ _ digit_nondigit_excl (clos_head cl1 r1 H1) (clos_head cl2 r2 H2) E) as [-> E2].
    destruct (IH _ _ _ H1 H2 E2) as [-> ->]. auto.
Qed.

(* ---------- the normal form of a name after the package path ---------- *)

Inductive sfx :=
| SClos (cl : list N) (ta : option str)    (* $i$j... then [targs] *)
| SWk (k : wkind)                         (* $thunk, $bound *)
| SHash (n : N).                          (* #n *)

Definition sfx_str (s : sfx) : str :=
  match s with
  | SClos cl ta => clos_str cl ++ brk ta
  | SWk k => wk_str k
  | SHash n => [c_hash] ++ dec n
  end.
Definition sfx_ok (s : sfx) : bool := match s with SClos _ ta => ok_targs ta | _ => true end.

Lemma wk_str_inj k1 k2 : wk_str k1 = wk_str k2 -> k1 = k2.
Proof. destruct k1, k2; cbn; intros E; try discriminate; auto. Qed.

Lemma clos_not_wk cl ta k : clos_str cl ++ brk ta = wk_str k -> False.
Proof.
  destruct cl as [|i cl]; cbn.
  - destruct ta, k; cbn; discriminate.
  - destruct (dec_head i) as (c & r & -> & D). intros E.
    destruct k; cbn in E; inversion E; subst c; discriminate.
Qed.

Lemma sfx_inj s1 s2 : sfx_str s1 = sfx_str s2 -> s1 = s2.
Proof.
  destruct s1 as [cl1 ta1|k1|n1], s2 as [cl2 ta2|k2|n2]; cbn; intros E.
  - destruct (clos_inj cl1 cl2 _ _ (brk_head ta1) (brk_head ta2) E) as [-> E2].
    apply brk_inj in E2. now subst.
  - exfalso. eapply clos_not_wk; eauto.
  - exfalso. destruct cl1; cbn in E; [destruct ta1; cbn in E|]; discriminate.
  - exfalso. eapply clos_not_wk; eauto.
  - f_equal. now apply wk_str_inj.
  - exfalso. destruct k1; discriminate.
  - exfalso. destruct cl2; cbn in E; [destruct ta2; cbn in E|]; discriminate.
  - exfalso. destruct k2; discriminate.
  - injection E as E. apply dec_inj in E. now subst.
Qed.

Lemma sfx_head s : headD nonident (sfx_str s).
Proof.
  destruct s as [cl ta|k|n]; cbn.
  - destruct cl; cbn; [destruct ta; cbn; auto|reflexivity].
  - destruct k; reflexivity.
  - reflexivity.
Qed.
Lemma sfx_head_nonpath s : headD nonpath (sfx_str s).
Proof.
  destruct s as [cl ta|k|n]; cbn.
  - destruct cl; cbn; [destruct ta; cbn; auto|reflexivity].
  - destruct k; reflexivity.
  - reflexivity.
Qed.

(* a suffix never looks like the rest of a receiver: [targs] then a dot *)
Lemma sfx_not_recv_rest s ta y : sfx_ok s = true -> ok_targs ta = true ->
  sfx_str s = brk ta ++ [c_dot] ++ y -> False.
Proof.
  intros O1 O2 E. destruct s as [cl ta1|k|n]; cbn in E.
  - destruct cl as [|i cl]; cbn in E.
    + destruct ta1 as [b1|], ta as [b|]; cbn in E; try discriminate.
      injection E as E. cbn in O1, O2.
      assert (E' : b1 ++ [c_rb] ++ [] = b ++ [c_rb] ++ [c_dot] ++ y) by (rewrite <- app_assoc in E; exact E).
      destruct (bal_split _ _ _ _ _ O1 O2 E') as [_ X]. discriminate.
    + destruct ta; cbn in E; discriminate.
  - destruct k, ta; cbn in E; discriminate.
  - destruct ta; cbn in E; discriminate.
Qed.

Lemma nonpath_nonident c : nonpath c = true -> nonident c = true.
Proof.
  unfold nonpath, nonident, path_char. rewrite !negb_true_iff. intros H.
  destruct (ident_char c); [discriminate|reflexivity].
Qed.
Lemma slash_nonident c : is_slash c = true -> nonident c = true.
Proof. unfold is_slash. intros E. apply N.eqb_eq in E. now subst. Qed.

Lemma wf_ident_pathfree s : wf_ident s = true -> free nonpath s /\ free is_slash s.
Proof.
  intros W. apply wf_ident_free in W. split.
  - eapply free_weaken; [|exact W]. apply nonpath_nonident.
  - eapply free_weaken; [|exact W]. apply slash_nonident.
Qed.

Lemma wf_path_head q : wf_path q = true -> exists c r, q = c :: r /\ path_char c = true.
Proof.
  unfold wf_path. rewrite !andb_true_iff. intros [[[A B] _] _].
  destruct q as [|c r]; [discriminate|]. cbn in B. apply andb_true_iff in B as [B _]. eauto.
Qed.

(* receiver of a method or wrapper: pointer?, qualifying package path (fixed wrappers for a
   foreign receiver type only), type name, text of the type arguments *)
Definition rcv := (bool * option str * str * option str)%type.
Record shape := Shape { sh_recv : option rcv; sh_name : str; sh_sfx : sfx }.

Definition rcv_str (r : rcv) : str :=
  match r with
  | (ptr, None, t, ta) => recv_str ptr t ta
  | (ptr, Some q, t, ta) => qrecv_str ptr q t ta
  end.
Definition recv_part (r : option rcv) : str :=
  match r with None => [] | Some r => rcv_str r ++ [c_dot] end.
Definition shape_str (s : shape) : str := recv_part (sh_recv s) ++ sh_name s ++ sfx_str (sh_sfx s).
Definition q_ok (q : option str) : bool := match q with None => true | Some q => wf_path q end.
Definition rcv_ok (r : rcv) : bool := match r with (_, q, t, ta) => wf_ident t && ok_targs ta && q_ok q end.
Definition recv_ok (r : option rcv) : bool := match r with None => true | Some r => rcv_ok r end.
Definition shape_ok (s : shape) : bool := recv_ok (sh_recv s) && wf_ident (sh_name s) && sfx_ok (sh_sfx s).

Lemma brk_then_head ta c z : nonident c = true -> headD nonident (brk ta ++ [c] ++ z).
Proof. destruct ta; cbn; auto. Qed.
Lemma brk_rp_head ta z : headD nonpath (brk ta ++ [c_rp] ++ z).
Proof. destruct ta; reflexivity. Qed.

Definition body (q : option str) (t : str) : str :=
  match q with None => t | Some q => q ++ [c_dot] ++ t end.

Lemma body_split q1 t1 R1 q2 t2 R2 :
  q_ok q1 = true -> q_ok q2 = true -> wf_ident t1 = true -> wf_ident t2 = true ->
  headD nonpath R1 -> headD nonpath R2 ->
  body q1 t1 ++ R1 = body q2 t2 ++ R2 -> q1 = q2 /\ t1 = t2 /\ R1 = R2.
Proof.
  intros Q1 Q2 T1 T2 H1 H2 E.
  destruct (wf_ident_pathfree _ T1) as [P1 S1]. destruct (wf_ident_pathfree _ T2) as [P2 S2].
  destruct q1 as [q1|], q2 as [q2|]; cbn [body q_ok] in *.
  - rewrite <- !app_assoc in E.
    destruct (path_split _ _ _ _ _ _ Q1 Q2 P1 S1 P2 S2 H1 H2 E) as (-> & -> & ->). auto.
  - exfalso. destruct (wf_path_parts _ Q1) as (C1 & _ & _).
    assert (G : free nonpath (q1 ++ [c_dot] ++ t1)) by fr.
    destruct (split_first nonpath _ _ _ _ G P2 H1 H2 E) as [E1 _].
    apply wf_ident_free in T2. rewrite <- E1 in T2.
    apply free_app in T2 as [_ T2]. apply free_app in T2 as [T2 _]. discriminate.
  - exfalso. destruct (wf_path_parts _ Q2) as (C2 & _ & _).
    assert (G : free nonpath (q2 ++ [c_dot] ++ t2)) by fr.
    destruct (split_first nonpath _ _ _ _ P1 G H1 H2 E) as [E1 _].
    apply wf_ident_free in T1. rewrite E1 in T1.
    apply free_app in T1 as [_ T1]. apply free_app in T1 as [T1 _]. discriminate.
  - destruct (split_first nonpath _ _ _ _ P1 P2 H1 H2 E) as [-> ->]. auto.
Qed.

(* the parenthesised forms, after the opening parenthesis (and star) *)
Lemma paren_inj q1 t1 ta1 y1 q2 t2 ta2 y2 :
  q_ok q1 = true -> q_ok q2 = true -> wf_ident t1 = true -> wf_ident t2 = true ->
  ok_targs ta1 = true -> ok_targs ta2 = true ->
  body q1 t1 ++ brk ta1 ++ [c_rp] ++ y1 = body q2 t2 ++ brk ta2 ++ [c_rp] ++ y2 ->
  q1 = q2 /\ t1 = t2 /\ ta1 = ta2 /\ y1 = y2.
Proof.
  intros Q1 Q2 T1 T2 O1 O2 E.
  destruct (body_split _ _ _ _ _ _ Q1 Q2 T1 T2 (brk_rp_head ta1 y1) (brk_rp_head ta2 y2) E) as (-> & -> & E2).
  destruct (brk_split ta1 ta2 c_rp _ _ O1 O2 ltac:(discriminate) E2) as [-> ->]. auto.
Qed.

Lemma rcv_str_ptr q t ta : rcv_str (true, q, t, ta) = s_lpstar ++ body q t ++ brk ta ++ [c_rp].
Proof. destruct q; cbn [rcv_str recv_str qrecv_str body]; rewrite <- ?app_assoc; reflexivity. Qed.
Lemma rcv_str_q q t ta : rcv_str (false, Some q, t, ta) = [c_lp] ++ body (Some q) t ++ brk ta ++ [c_rp].
Proof. cbn [rcv_str qrecv_str body]. rewrite <- ?app_assoc. reflexivity. Qed.

Lemma rcv_inj r1 y1 r2 y2 : rcv_ok r1 = true -> rcv_ok r2 = true ->
  rcv_str r1 ++ [c_dot] ++ y1 = rcv_str r2 ++ [c_dot] ++ y2 -> r1 = r2 /\ y1 = y2.
Proof.
  destruct r1 as [[[p1 q1] t1] ta1], r2 as [[[p2 q2] t2] ta2]. unfold rcv_ok. rewrite !andb_true_iff.
  intros [[T1 O1] Q1] [[T2 O2] Q2] E.
  destruct p1, p2.
  - rewrite !rcv_str_ptr in E. rewrite <- !app_assoc in E. apply app_inv_head in E.
    destruct (paren_inj _ _ _ _ _ _ _ _ Q1 Q2 T1 T2 O1 O2 E) as (-> & -> & -> & E2).
    injection E2 as ->. auto.
  - exfalso. rewrite rcv_str_ptr in E. destruct q2 as [q2|].
    + rewrite rcv_str_q in E. cbn [q_ok] in Q2. destruct (wf_path_head _ Q2) as (c & r & -> & C).
      cbn in E. injection E as E _. subst c. discriminate.
    + cbn [rcv_str recv_str] in E. destruct (wf_ident_head _ T2) as (c & r & -> & C).
      cbn in E. injection E as E _. subst c. discriminate.
  - exfalso. rewrite rcv_str_ptr in E. destruct q1 as [q1|].
    + rewrite rcv_str_q in E. cbn [q_ok] in Q1. destruct (wf_path_head _ Q1) as (c & r & -> & C).
      cbn in E. injection E as E _. subst c. discriminate.
    + cbn [rcv_str recv_str] in E. destruct (wf_ident_head _ T1) as (c & r & -> & C).
      cbn in E. injection E as E _. subst c. discriminate.
  - destruct q1 as [q1|], q2 as [q2|].
    + rewrite !rcv_str_q in E. rewrite <- !app_assoc in E. apply app_inv_head in E.
      destruct (paren_inj _ _ _ _ _ _ _ _ Q1 Q2 T1 T2 O1 O2 E) as (-> & -> & -> & E2).
      injection E2 as ->. auto.
    + exfalso. rewrite rcv_str_q in E. cbn [rcv_str recv_str] in E.
      destruct (wf_ident_head _ T2) as (c & r & -> & C). cbn in E. injection E as E _. subst c. discriminate.
    + exfalso. rewrite rcv_str_q in E. cbn [rcv_str recv_str] in E.
      destruct (wf_ident_head _ T1) as (c & r & -> & C). cbn in E. injection E as E _. subst c. discriminate.
    + cbn [rcv_str recv_str] in E. rewrite <- !app_assoc in E.
      destruct (ident_split t1 t2 _ _ T1 T2 (brk_then_head ta1 c_dot _ eq_refl) (brk_then_head ta2 c_dot _ eq_refl) E) as [-> E2].
      destruct (brk_split ta1 ta2 c_dot _ _ O1 O2 ltac:(discriminate) E2) as [-> ->]. auto.
Qed.

(* every receiver form except the bare T[targs] starts with an opening parenthesis *)
Definition bare (r : rcv) : bool := match r with (false, None, _, _) => true | _ => false end.
Lemma rcv_paren r : bare r = false -> exists z, rcv_str r = c_lp :: z.
Proof.
  destruct r as [[[p q] t] ta]. destruct p.
  - intros _. rewrite rcv_str_ptr. eexists. reflexivity.
  - destruct q; [|discriminate]. intros _. rewrite rcv_str_q. eexists. reflexivity.
Qed.

Lemma recv_vs_name r n1 x1 n2 x2 :
  rcv_ok r = true -> wf_ident n2 = true -> sfx_ok x2 = true ->
  rcv_str r ++ [c_dot] ++ n1 ++ sfx_str x1 = n2 ++ sfx_str x2 -> False.
Proof.
  intros R N2 X2 E. destruct (bare r) eqn:B.
  - destruct r as [[[p q] t] ta]. destruct p; [discriminate|]. destruct q; [discriminate|].
    unfold rcv_ok in R. rewrite !andb_true_iff in R. destruct R as [[T O] _].
    cbn [rcv_str recv_str] in E. rewrite <- !app_assoc in E.
    destruct (ident_split _ _ _ _ T N2 (brk_then_head ta c_dot _ eq_refl) (sfx_head x2) E) as [-> E2].
    symmetry in E2. exact (sfx_not_recv_rest x2 ta _ X2 O E2).
  - destruct (rcv_paren _ B) as (z & Z). rewrite Z in E.
    destruct (wf_ident_head _ N2) as (c & r' & -> & C). cbn in E. injection E as E _. subst c. discriminate.
Qed.

Lemma shape_inj s1 s2 : shape_ok s1 = true -> shape_ok s2 = true ->
  shape_str s1 = shape_str s2 -> s1 = s2.
Proof.
  destruct s1 as [r1 n1 x1], s2 as [r2 n2 x2]. unfold shape_ok, shape_str. cbn [sh_recv sh_name sh_sfx].
  rewrite !andb_true_iff. intros [[R1 N1] X1] [[R2 N2] X2] E.
  destruct r1 as [r1|], r2 as [r2|]; cbn [recv_part recv_ok] in *.
  - rewrite <- !app_assoc in E.
    destruct (rcv_inj _ _ _ _ R1 R2 E) as (-> & E2).
    destruct (ident_split _ _ _ _ N1 N2 (sfx_head x1) (sfx_head x2) E2) as [-> E3].
    apply sfx_inj in E3. now subst.
  - exfalso. rewrite <- !app_assoc in E. exact (recv_vs_name _ _ _ _ _ R1 N2 X2 E).
  - exfalso. rewrite <- !app_assoc in E. symmetry in E. exact (recv_vs_name _ _ _ _ _ R2 N1 X1 E).
  - cbn in E. destruct (ident_split _ _ _ _ N1 N2 (sfx_head x1) (sfx_head x2) E) as [-> E3].
    apply sfx_inj in E3. now subst.
Qed.

(* ---------- from entities to shapes ---------- *)

Definition pkg_of (c : core (option str)) : str :=
  match c with
  | EFunc p _ _ _ | EMethod p _ _ _ _ _ | EGlobal p _ | EInit p _ | ERoutine p _ => p
  | EWrap cp _ _ _ _ _ _ => cp
  end.

Definition wrap_q (fixed : bool) (cp rp : str) : option str :=
  if fixed && negb (str_eqb (path_of rp) (path_of cp)) then Some (path_of rp) else None.

Definition shape_of (fixed : bool) (c : core (option str)) : shape :=
  match c with
  | EFunc _ f cl ta => Shape None f (SClos cl ta)
  | EMethod _ ptr t ta m cl => Shape (Some (ptr, None, t, ta)) m (SClos cl (match cl with [] => None | _ => ta end))
  | EWrap cp k rp ptr t ta m => Shape (Some (ptr, wrap_q fixed cp rp, t, ta)) m (SWk k)
  | EGlobal _ v => Shape None v (SClos [] None)
  | EInit _ n => Shape None s_init (SHash n)
  | ERoutine _ n => Shape None s_routine (SClos [n] None)
  end.

Ltac split_ands :=
  repeat match goal with
         | H : _ && _ = true |- _ => apply andb_true_iff in H; destruct H
         end.

Lemma ok_path_wf p : ok_path p = true -> wf_path p = true.
Proof. unfold ok_path. intros H. split_ands. auto. Qed.
Lemma ok_path_of p : ok_path p = true -> path_of p = p.
Proof. intros H. apply ok_path_wf in H. now destruct (wf_path_parts _ H) as (_ & _ & ?). Qed.
Lemma ok_ident_wf s : ok_ident s = true -> wf_ident s = true.
Proof. unfold ok_ident. intros H. split_ands. auto. Qed.

Lemma wf_core_pkg c : wf_core c = true -> ok_path (pkg_of c) = true.
Proof. destruct c; cbn; intros H; split_ands; auto. Qed.

Lemma name_of_shape fixed c : wf_core c = true ->
  name_of fixed c = pkg_of c ++ [c_dot] ++ shape_str (shape_of fixed c).
Proof.
  intros W. pose proof (wf_core_pkg _ W) as P. apply ok_path_of in P.
  destruct c; cbn [name_of pkg_of shape_of] in *; unfold shape_str; cbn [sh_recv sh_name sh_sfx recv_part sfx_str rcv_str];
    rewrite ?P; cbn [app]; rewrite <- ?app_assoc; cbn [app]; rewrite ?app_nil_r; try reflexivity.
  - destruct clos; reflexivity.
  - unfold wrap_recv_str, wrap_q. destruct (fixed && negb (str_eqb (path_of rpkg) (path_of cpkg)));
      cbn [rcv_str]; rewrite <- ?app_assoc; reflexivity.
  - unfold clos_str. cbn [flat_map]. now rewrite app_nil_r.
Qed.

Lemma shape_of_ok fixed c : wf_core c = true -> shape_ok (shape_of fixed c) = true.
Proof.
  destruct c; cbn; intros H; split_ands; unfold shape_ok; cbn;
    rewrite ?andb_true_iff; repeat split; auto using ok_ident_wf.
  - destruct clos; auto.
  - unfold wrap_q. destruct (fixed && _); cbn; auto. rewrite (ok_path_of _ H3). now apply ok_path_wf.
Qed.

(* the tail after the path: path characters without a slash, then a character outside paths *)
Lemma shape_wr s : shape_ok s = true ->
  exists w r, shape_str s = w ++ r /\ free nonpath w /\ free is_slash w /\ headD nonpath r.
Proof.
  destruct s as [r n x]. unfold shape_ok, shape_str. cbn [sh_recv sh_name sh_sfx].
  rewrite !andb_true_iff. intros [[R N1] X].
  destruct (wf_ident_pathfree _ N1) as [Np Ns].
  destruct r as [r|]; cbn [recv_part recv_ok] in *.
  - destruct (bare r) eqn:B.
    + destruct r as [[[p q] t] ta]. destruct p; [discriminate|]. destruct q; [discriminate|].
      unfold rcv_ok in R. rewrite !andb_true_iff in R. destruct R as [[T O] _].
      destruct (wf_ident_pathfree _ T) as [Tp Ts]. cbn [rcv_str recv_str].
      destruct ta as [b|]; cbn [brk].
      * exists t, (([c_lb] ++ b ++ [c_rb]) ++ [c_dot] ++ n ++ sfx_str x).
        repeat split; auto. now rewrite <- !app_assoc.
      * exists (t ++ [c_dot] ++ n), (sfx_str x). repeat split.
        -- now rewrite app_nil_r, <- !app_assoc.
        -- fr.
        -- fr.
        -- apply sfx_head_nonpath.
    + destruct (rcv_paren _ B) as (z & Z). exists [], ((rcv_str r ++ [c_dot]) ++ n ++ sfx_str x).
      repeat split; try reflexivity. rewrite Z. reflexivity.
  - exists n, (sfx_str x). repeat split; auto. apply sfx_head_nonpath.
Qed.

Lemma name_of_inj fixed a b : wf_core a = true -> wf_core b = true ->
  name_of fixed a = name_of fixed b -> pkg_of a = pkg_of b /\ shape_of fixed a = shape_of fixed b.
Proof.
  intros Wa Wb E. rewrite (name_of_shape _ _ Wa), (name_of_shape _ _ Wb) in E.
  pose proof (shape_of_ok fixed _ Wa) as Sa. pose proof (shape_of_ok fixed _ Wb) as Sb.
  destruct (shape_wr _ Sa) as (w1 & r1 & E1 & P1 & S1 & H1).
  destruct (shape_wr _ Sb) as (w2 & r2 & E2 & P2 & S2 & H2).
  pose proof (ok_path_wf _ (wf_core_pkg _ Wa)) as Pa. pose proof (ok_path_wf _ (wf_core_pkg _ Wb)) as Pb.
  rewrite E1, E2 in E.
  destruct (path_split _ _ _ _ _ _ Pa Pb P1 S1 P2 S2 H1 H2 E) as (Ep & Ew & Er).
  split; auto. apply shape_inj; auto. rewrite E1, E2. now subst.
Qed.

Lemma routine_not_ok : ok_ident s_routine = false.
Proof. reflexivity. Qed.

(* before the fix: the receiver package of a wrapper is not in the shape *)
Lemma shape_to_core a b : wf_core a = true -> wf_core b = true ->
  pkg_of a = pkg_of b -> shape_of false a = shape_of false b -> erase a = erase b \/ scope_clash a b.
Proof.
  intros Wa Wb Ep Es.
  destruct a, b; cbn [pkg_of shape_of wrap_q andb] in *; subst; try discriminate; injection Es as Es; subst;
    cbn [wf_core] in *; split_ands;
    try (left; reflexivity);
    try (match goal with H : ok_ident s_routine = true |- _ => rewrite routine_not_ok in H; discriminate end).
  all: try (match goal with H : SClos _ _ = SClos _ _ |- _ => injection H as ? ?; subst end).
  all: try (match goal with H : SWk _ = SWk _ |- _ => injection H as ?; subst end).
  all: try (match goal with H : SHash _ = SHash _ |- _ => injection H as ?; subst end).
  all: try (left; reflexivity).
  all: try (right; cbn; auto; fail).
  all: try discriminate.
Qed.

Definition is_wrap (c : core (option str)) : bool := match c with EWrap _ _ _ _ _ _ _ => true | _ => false end.
Lemma shape_of_nonwrap fixed c : is_wrap c = false -> shape_of fixed c = shape_of false c.
Proof. destruct c; cbn; auto. discriminate. Qed.
Lemma erase_nonwrap c : is_wrap c = false -> erase c = c.
Proof. destruct c; cbn; auto. discriminate. Qed.

(* with the fix: the shape determines the entity *)
Lemma shape_to_core_fixed a b : wf_core a = true -> wf_core b = true ->
  pkg_of a = pkg_of b -> shape_of true a = shape_of true b -> a = b \/ scope_clash a b.
Proof.
  intros Wa Wb Ep Es.
  destruct (is_wrap a) eqn:Ia, (is_wrap b) eqn:Ib.
  - left. destruct a; try discriminate. destruct b; try discriminate.
    cbn [pkg_of shape_of wf_core] in *. subst. split_ands.
    unfold wrap_q in Es. cbn [andb] in Es.
    repeat match goal with H : ok_path _ = true |- _ => rewrite (ok_path_of _ H) in Es; revert H end. intros.
    destruct (str_eqb rpkg cpkg0) eqn:E1, (str_eqb rpkg0 cpkg0) eqn:E2; cbn [negb] in Es; try discriminate.
    + apply str_eqb_eq in E1, E2. subst. injection Es as -> -> -> -> ->. reflexivity.
    + injection Es as -> -> -> -> -> ->. reflexivity.
  - exfalso. destruct a; try discriminate. destruct b; cbn in *; discriminate.
  - exfalso. destruct b; try discriminate. destruct a; cbn in *; discriminate.
  - rewrite (shape_of_nonwrap _ _ Ia), (shape_of_nonwrap _ _ Ib) in Es.
    destruct (shape_to_core a b Wa Wb Ep Es) as [H|H]; auto.
    rewrite (erase_nonwrap _ Ia), (erase_nonwrap _ Ib) in H. auto.
Qed.

(* ---------- the string-level injectivity of name_of ---------- *)

Lemma name_of_injective_unfixed a b : wf_core a = true -> wf_core b = true ->
  name_of false a = name_of false b -> erase a = erase b \/ scope_clash a b.
Proof.
  intros Wa Wb E. destruct (name_of_inj false a b Wa Wb E) as [Ep Es]. now apply shape_to_core.
Qed.

Lemma name_of_injective a b : wf_core a = true -> wf_core b = true ->
  name_of true a = name_of true b -> a = b \/ scope_clash a b.
Proof.
  intros Wa Wb E. destruct (name_of_inj true a b Wa Wb E) as [Ep Es]. now apply shape_to_core_fixed.
Qed.

(* ---------- stubs ---------- *)

Lemma prefix_or_char q : forall p c t x, has_prefix q p = false -> p ++ c :: t = q ++ x -> In c q.
Proof.
  induction q as [|a q IH]; intros p c t x Hp E; cbn in Hp.
  - discriminate.
  - destruct p as [|b p]; cbn in E.
    + injection E as -> _. now left.
    + injection E as <- E. rewrite N.eqb_refl in Hp. cbn in Hp. right. exact (IH _ _ _ _ Hp E).
Qed.

Lemma has_prefix_app q : forall s, has_prefix q s = true -> exists x, s = q ++ x.
Proof.
  induction q as [|a q IH]; intros s H; cbn in H.
  - exists s. reflexivity.
  - destruct s as [|b s]; [discriminate|]. apply andb_true_iff in H as [E H]. apply N.eqb_eq in E. subst b.
    destruct (IH _ H) as (x & ->). exists x. reflexivity.
Qed.

Lemma core_not_stub fixed c x : wf_core c = true -> name_of fixed c = s_stub ++ x -> False.
Proof.
  intros W E. rewrite (name_of_shape _ _ W) in E. pose proof (wf_core_pkg _ W) as P.
  unfold ok_path in P. apply andb_true_iff in P as [P P3]. apply andb_true_iff in P as [P1 P2].
  apply negb_true_iff in P2.
  change s_stub with (s_stub0 ++ [c_dot]) in E. rewrite <- app_assoc in E.
  pose proof (prefix_or_char _ _ _ _ _ P2 E) as I. cbn in I. intuition discriminate.
Qed.

Lemma core_not_llgo fixed c s : wf_core c = true -> has_prefix s_llgo_ s = true -> name_of fixed c = s -> False.
Proof.
  intros W Hs E. rewrite (name_of_shape _ _ W) in E. pose proof (wf_core_pkg _ W) as P.
  unfold ok_path in P. apply andb_true_iff in P as [P P3]. apply negb_true_iff in P3.
  destruct (has_prefix_app _ _ Hs) as (x & ->).
  pose proof (prefix_or_char _ _ _ _ _ P3 E) as I. cbn in I. intuition discriminate.
Qed.

Definition render_ent (e : entity tys) : entity (option str) :=
  match e with ECore c => ECore (render c) | EStubDecl c => EStubDecl (render c) | EStubPtr s => EStubPtr s end.

Definition wf_entity (e : entity (option str)) : bool :=
  match e with
  | ECore c | EStubDecl c => wf_core c
  | EStubPtr s => has_prefix s_llgo_ s     (* abi.FuncName: _llgo_func$hash *)
  end.

(* what equal names guarantee: with the fix the rendered entities are equal; before it they
   are equal up to the receiver package of a wrapper *)
Definition same_core (fixed : bool) (a b : core (option str)) : Prop :=
  (if fixed then a = b else erase a = erase b) \/ scope_clash a b.
Definition same_entity (fixed : bool) (e1 e2 : entity (option str)) : Prop :=
  match e1, e2 with
  | ECore a, ECore b | EStubDecl a, EStubDecl b => same_core fixed a b
  | EStubPtr s1, EStubPtr s2 => s1 = s2
  | _, _ => False
  end.

Lemma name_of_injective_any fixed a b : wf_core a = true -> wf_core b = true ->
  name_of fixed a = name_of fixed b -> same_core fixed a b.
Proof. destruct fixed; [apply name_of_injective|apply name_of_injective_unfixed]. Qed.

Lemma link_name_injective_lemma fixed e1 e2 :
  wf_entity (render_ent e1) = true -> wf_entity (render_ent e2) = true ->
  link_name fixed e1 = link_name fixed e2 -> same_entity fixed (render_ent e1) (render_ent e2).
Proof.
  destruct e1 as [a|a|s1], e2 as [b|b|s2]; cbn [render_ent wf_entity link_name same_entity]; unfold core_name; intros W1 W2 E.
  - now apply name_of_injective_any.
  - exact (core_not_stub _ _ _ W1 E).
  - exact (core_not_stub _ _ _ W1 E).
  - symmetry in E. exact (core_not_stub _ _ _ W2 E).
  - apply app_inv_head in E. now apply name_of_injective_any.
  - apply app_inv_head in E. exact (core_not_llgo _ _ _ W1 W2 E).
  - symmetry in E. exact (core_not_stub _ _ _ W2 E).
  - apply app_inv_head in E. symmetry in E. exact (core_not_llgo _ _ _ W2 W1 E).
  - now apply app_inv_head in E.
Qed.

(* instances (the mergeable definitions): one name, one rendered entity *)
Lemma mergeable_lemma fixed a b :
  is_instance a = true -> is_instance b = true ->
  wf_core (render a) = true -> wf_core (render b) = true ->
  core_name fixed a = core_name fixed b -> render a = render b.
Proof.
  intros Ia Ib Wa Wb E. destruct (name_of_injective_any fixed _ _ Wa Wb E) as [H|H].
  - destruct fixed; auto. destruct a, b; cbn in *; try discriminate; auto.
  - exfalso. destruct a, b; cbn in *; try discriminate; try contradiction.
    + destruct clos; try contradiction. destruct targs; cbn in *; try discriminate; contradiction.
    + destruct clos; try contradiction. destruct targs; cbn in *; try discriminate; contradiction.
Qed.

(* ---------- witnesses: what the guard excludes, and what no guard repairs ---------- *)

Definition p_x : str := Eval vm_compute in lit "x"%string.
Definition p_xa : str := Eval vm_compute in lit "x/a"%string.
Definition p_xb : str := Eval vm_compute in lit "x/b"%string.
Definition p_xab : str := Eval vm_compute in lit "x/a.b"%string.
Definition i_b : str := Eval vm_compute in lit "b"%string.
Definition i_c : str := Eval vm_compute in lit "c"%string.
Definition i_T : str := Eval vm_compute in lit "T"%string.
Definition i_M : str := Eval vm_compute in lit "M"%string.
Definition i_F : str := Eval vm_compute in lit "F"%string.
Definition p_os : str := Eval vm_compute in lit "os"%string.

(* F10: func c of package x/a.b, method c of type b of package x/a *)
Definition w_dot_func : entity tys := ECore (EFunc p_xab i_c [] TsNil).
Definition w_dot_meth : entity tys := ECore (EMethod p_xa false i_b TsNil i_c []).
Lemma pkg_dot_witness fixed :
  w_dot_func <> w_dot_meth /\ link_name fixed w_dot_func = link_name fixed w_dot_meth
  /\ link_name fixed w_dot_func = lit "x/a.b.c"%string
  /\ wf_entity (render_ent w_dot_meth) = true
  /\ wf_path p_xab = false /\ forallb path_char p_xab = true.
Proof. destruct fixed; repeat split; try discriminate; reflexivity. Qed.

(* before the fix: method value wrappers compiled into package x for x/a.T.M and for x/b.T.M,
   both well formed, one name; with the fix: two names *)
Definition w_wrap (rp : str) : entity tys := ECore (EWrap p_x WBound rp false i_T TsNil i_M).
Lemma wrapper_witness :
  w_wrap p_xa <> w_wrap p_xb /\ link_name false (w_wrap p_xa) = link_name false (w_wrap p_xb)
  /\ link_name false (w_wrap p_xa) = lit "x.T.M$bound"%string
  /\ wf_entity (render_ent (w_wrap p_xa)) = true /\ wf_entity (render_ent (w_wrap p_xb)) = true
  /\ link_name true (w_wrap p_xa) = lit "x.(x/a.T).M$bound"%string
  /\ link_name true (w_wrap p_xb) = lit "x.(x/b.T).M$bound"%string
  /\ link_name true (w_wrap p_x) = lit "x.T.M$bound"%string.
Proof. repeat split; try reflexivity. intros E. discriminate. Qed.

(* a user function called _llgo_routine with a closure, and the first goroutine thunk *)
Definition w_rt_func : entity tys := ECore (EFunc p_x s_routine [1] TsNil).
Definition w_rt_thunk : entity tys := ECore (ERoutine p_x 1).
Lemma routine_witness fixed :
  w_rt_func <> w_rt_thunk /\ link_name fixed w_rt_func = link_name fixed w_rt_thunk /\ wf_ident s_routine = true.
Proof. destruct fixed; repeat split; try reflexivity; discriminate. Qed.

(* package __llgo_stub, type T, method M  vs  the closure stub of func M of package T *)
Definition w_stub_meth : entity tys := ECore (EMethod s_stub0 false i_T TsNil i_M []).
Definition w_stub_stub : entity tys := EStubDecl (EFunc i_T i_M [] TsNil).
Lemma stub_witness fixed :
  w_stub_meth <> w_stub_stub /\ link_name fixed w_stub_meth = link_name fixed w_stub_stub /\ wf_path s_stub0 = true.
Proof. destruct fixed; repeat split; try reflexivity; discriminate. Qed.

(* by design: a package below the patch prefix takes the names of the package it patches *)
Lemma patch_witness fixed :
  link_name fixed (ECore (EFunc (s_patch ++ p_os) i_F [] TsNil)) = link_name fixed (ECore (EFunc p_os i_F [] TsNil)).
Proof. destruct fixed; reflexivity. Qed.

(* ---------- the guard on program entities: no hypothesis on the rendered text ---------- *)

Definition wf_prog_core (c : core tys) : bool :=
  match c with
  | EFunc p f cl ta => ok_path p && ok_ident f && nobr_tys ta
  | EMethod p ptr t ta m cl => ok_path p && ok_ident t && ok_ident m && nobr_tys ta
  | EWrap cp k rp ptr t ta m => ok_path cp && ok_path rp && ok_ident t && ok_ident m && nobr_tys ta
  | EGlobal p v => ok_path p && ok_ident v
  | EInit p n => ok_path p
  | ERoutine p n => ok_path p
  end.
Definition wf_prog (e : entity tys) : bool :=
  match e with
  | ECore c | EStubDecl c => wf_prog_core c
  | EStubPtr s => has_prefix s_llgo_ s
  end.

Lemma wf_prog_core_render c : wf_prog_core c = true -> wf_core (render c) = true.
Proof.
  destruct c; cbn; intros H; split_ands; rewrite ?andb_true_iff; repeat split; auto using targs_text_ok.
Qed.
Lemma wf_prog_render e : wf_prog e = true -> wf_entity (render_ent e) = true.
Proof. destruct e; cbn; auto using wf_prog_core_render. Qed.

Lemma link_name_injective_prog fixed e1 e2 :
  wf_prog e1 = true -> wf_prog e2 = true ->
  link_name fixed e1 = link_name fixed e2 -> same_entity fixed (render_ent e1) (render_ent e2).
Proof. intros W1 W2. apply link_name_injective_lemma; now apply wf_prog_render. Qed.

Lemma mergeable_prog fixed a b :
  is_instance a = true -> is_instance b = true -> wf_prog_core a = true -> wf_prog_core b = true ->
  core_name fixed a = core_name fixed b -> render a = render b.
Proof. intros Ia Ib Wa Wb. apply mergeable_lemma; auto using wf_prog_core_render. Qed.

(* with the fix a wrapper's name determines the wrapper, receiver package included *)
Lemma wrapper_determined cp1 k1 rp1 ptr1 t1 ta1 m1 cp2 k2 rp2 ptr2 t2 ta2 m2 :
  wf_prog_core (EWrap cp1 k1 rp1 ptr1 t1 ta1 m1) = true -> wf_prog_core (EWrap cp2 k2 rp2 ptr2 t2 ta2 m2) = true ->
  core_name true (EWrap cp1 k1 rp1 ptr1 t1 ta1 m1) = core_name true (EWrap cp2 k2 rp2 ptr2 t2 ta2 m2) ->
  cp1 = cp2 /\ k1 = k2 /\ rp1 = rp2 /\ ptr1 = ptr2 /\ t1 = t2 /\ targs_text ta1 = targs_text ta2 /\ m1 = m2.
Proof.
  intros W1 W2 E. apply wf_prog_core_render in W1, W2.
  destruct (name_of_injective _ _ W1 W2 E) as [H|H]; [|contradiction].
  cbn in H. injection H as -> -> -> -> -> -> ->. repeat split.
Qed.
