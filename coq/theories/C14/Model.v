(* C14 - executable model of the link-level names llgo gives to program entities.

   Code mirrored (character for character):
     cl/import.go     funcName (receiver search through Parent, $thunk / $bound receiver
                      recovery, Origin name + TypeArgs for instances), context.funcName
                      (choice of the package: origin package for instances, fn.Pkg, else the
                      package being compiled), context.varName (FullName)
     ssa/type.go      FuncName (PathOf(pkg).recv.name, recv = NamedName or its parenthesised pointer form;
                      fixed code: a receiver type of another package is written (rpkg.NamedName))
     ssa/abi/abi.go   FullName, PathOf (patch prefix stripped), NamedName, TypeArgs,
                      typeArgString (reused from C07.Model: targ_str, named_name, path_of)
     go/ssa           Function.Name: F, F$1$2 (anonymous functions, 1-based, nested),
                      init#n, M$thunk, M$bound
     ssa/goroutine.go routineName: Path()._llgo_routine$n, n a per package counter
     ssa/closure_wrap.go closureWrapDecl: __llgo_stub. + name of the wrapped function,
                      closureWrapPtr: __llgo_stub. + abi.FuncName(sig) (a C07 type name)

   Not modelled: linkname/export overrides (prog.Linkname), cgo names, receivers that
   are not (pointers to) named types (types.TypeString fallback of FuncName), the
   init$guard variable, the has-patch init renaming, C callback wrappers (internal/cabi),
   type descriptors (their names are C07.Model.type_name).

   State: every name below is a function of the entity alone, with one exception that is
   part of the entity here: the goroutine thunk index n of routineName is a counter of the
   package being compiled (Package.iRoutine); the symbol is defined and used in that one
   module only.  ssa/type.go llvmNameOf / toNamed also count (name#index), but they name
   LLVM struct types, which are not link-level symbols. *)
From Coq Require Import Ascii String.
From LLGoV Require Import C07.Model.
Local Open Scope N_scope.

(* ---------- literals ---------- *)
Definition c_dollar : N := 36.
Definition c_hash : N := 35.
Definition s_lpstar : str := Eval vm_compute in lit "(*".
Definition s_thunk : str := Eval vm_compute in lit "$thunk".
Definition s_bound : str := Eval vm_compute in lit "$bound".
Definition s_init : str := Eval vm_compute in lit "init".
Definition s_routine : str := Eval vm_compute in lit "_llgo_routine".
Definition s_stub : str := Eval vm_compute in lit "__llgo_stub.".
Definition s_stub0 : str := Eval vm_compute in lit "__llgo_stub".
Definition s_llgo_ : str := Eval vm_compute in lit "_llgo_".

(* ---------- entities ---------- *)

Inductive wkind := WThunk | WBound.

(* A = representation of a type-argument list: C07.Model.tys for program entities,
   option str (the rendered text between the brackets) for the string-level theorems *)
Inductive core (A : Type) :=
| EFunc (pkg name : str) (clos : list N) (targs : A)
      (* package-level function name, or an anonymous function nested in it (clos = the
         1-based indexes from the outside in), possibly an instance of a generic function *)
| EMethod (pkg : str) (ptr : bool) (tname : str) (rtargs : A) (name : str) (clos : list N)
      (* declared method (or promoted-method wrapper) of receiver type tname[rtargs] resp.
         its pointer, declared in pkg, or an anonymous function nested in it *)
| EWrap (cpkg : str) (k : wkind) (rpkg : str) (ptr : bool) (tname : str) (rtargs : A) (name : str)
      (* method expression thunk / method value wrapper, compiled into package cpkg, for the
         method name of the type rpkg.tname[rtargs] resp. its pointer *)
| EGlobal (pkg name : str)
| EInit (pkg : str) (n : N)               (* the n-th declared init function *)
| ERoutine (pkg : str) (n : N).           (* goroutine thunk number n of package pkg *)
Arguments EFunc {A}. Arguments EMethod {A}. Arguments EWrap {A}.
Arguments EGlobal {A}. Arguments EInit {A}. Arguments ERoutine {A}.

Inductive entity (A : Type) :=
| ECore (c : core A)
| EStubDecl (c : core A)                  (* closureWrapDecl of a declared function *)
| EStubPtr (signame : str).               (* closureWrapPtr: signame = abi.FuncName(sig) *)
Arguments ECore {A}. Arguments EStubDecl {A}. Arguments EStubPtr {A}.

(* ---------- rendering ---------- *)

(* abi.TypeArgs without the brackets; None = not an instance *)
Definition targs_text (ts : tys) : option str :=
  match ts with TsNil => None | _ => Some (join_comma (targs_strs ts)) end.

Definition brk (o : option str) : str :=
  match o with None => [] | Some b => [c_lb] ++ b ++ [c_rb] end.

(* go/ssa: parent.Name() + $ + index, repeatedly *)
Definition clos_str (cl : list N) : str := flat_map (fun i => c_dollar :: dec i) cl.

(* ssa.FuncName receiver part: NamedName, resp. open-paren star NamedName close-paren *)
Definition recv_str (ptr : bool) (tname : str) (ta : option str) : str :=
  if ptr then s_lpstar ++ tname ++ brk ta ++ [c_rp] else tname ++ brk ta.

Definition wk_str (k : wkind) : str := match k with WThunk => s_thunk | WBound => s_bound end.

(* the receiver of a wrapper whose type lives in another package q (fixed code):
   open-paren q.NamedName close-paren, resp. open-paren star q.NamedName close-paren *)
Definition qrecv_str (ptr : bool) (q tname : str) (ta : option str) : str :=
  (if ptr then s_lpstar else [c_lp]) ++ q ++ [c_dot] ++ tname ++ brk ta ++ [c_rp].

(* fixed = true: ssa.FuncName after the fix "keep the package of a foreign receiver in the
   name of a thunk / bound wrapper" (PathOf(receiver package) <> PathOf(pkg), org = false);
   fixed = false: the code before it (the receiver is rendered by its bare type name) *)
Definition wrap_recv_str (fixed : bool) (cp rp : str) (ptr : bool) (t : str) (ta : option str) : str :=
  if fixed && negb (str_eqb (path_of rp) (path_of cp)) then qrecv_str ptr (path_of rp) t ta
  else recv_str ptr t ta.

Definition name_of (fixed : bool) (c : core (option str)) : str :=
  match c with
  | EFunc p f cl ta => path_of p ++ [c_dot] ++ f ++ clos_str cl ++ brk ta
  | EMethod p ptr t ta m cl =>
      path_of p ++ [c_dot] ++ recv_str ptr t ta ++ [c_dot] ++ m ++ clos_str cl
      ++ (match cl with [] => [] | _ => brk ta end)
  | EWrap cp k rp ptr t ta m =>
      path_of cp ++ [c_dot] ++ wrap_recv_str fixed cp rp ptr t ta ++ [c_dot] ++ m ++ wk_str k
  | EGlobal p v => path_of p ++ [c_dot] ++ v
  | EInit p n => path_of p ++ [c_dot] ++ s_init ++ [c_hash] ++ dec n
  | ERoutine p n => p ++ [c_dot] ++ s_routine ++ [c_dollar] ++ dec n
  end.

Definition render (c : core tys) : core (option str) :=
  match c with
  | EFunc p f cl ta => EFunc p f cl (targs_text ta)
  | EMethod p ptr t ta m cl => EMethod p ptr t (targs_text ta) m cl
  | EWrap cp k rp ptr t ta m => EWrap cp k rp ptr t (targs_text ta) m
  | EGlobal p v => EGlobal p v
  | EInit p n => EInit p n
  | ERoutine p n => ERoutine p n
  end.

Definition core_name (fixed : bool) (c : core tys) : str := name_of fixed (render c).

Definition link_name (fixed : bool) (e : entity tys) : str :=
  match e with
  | ECore c => core_name fixed c
  | EStubDecl c => s_stub ++ core_name fixed c
  | EStubPtr s => s_stub ++ s
  end.

(* linkage class: NewFuncEx(instantiated) / closureWrap* set linkonce, the rest is external *)
Inductive linkage := External | LinkOnce.
Definition is_instance (c : core tys) : bool :=
  match c with
  | EFunc _ _ _ ta => match ta with TsNil => false | _ => true end
  | EMethod _ _ _ ta _ _ => match ta with TsNil => false | _ => true end
  | _ => false
  end.
Definition linkage_of (e : entity tys) : linkage :=
  match e with
  | ECore c => if is_instance c then LinkOnce else External
  | _ => LinkOnce
  end.

(* ---------- well-formedness (the guard of the injectivity theorem) ---------- *)

Fixpoint has_prefix (p s : str) : bool :=
  match p, s with
  | [], _ => true
  | a :: p', b :: s' => (a =? b) && has_prefix p' s'
  | _ :: _, [] => false
  end.

(* Go identifier (ASCII) that does not start with the compiler's own _llgo_ *)
Definition ok_ident (s : str) : bool := wf_ident s && negb (has_prefix s_llgo_ s).
(* import path: C07 wf_path (no dot in the last element, not below the patch prefix), and
   not starting with the compiler's own prefixes *)
Definition ok_path (p : str) : bool :=
  wf_path p && negb (has_prefix s_stub0 p) && negb (has_prefix s_llgo_ p).

(* square brackets balanced: depth never negative, zero at the end *)
Fixpoint bal (d : nat) (s : str) : bool :=
  match s with
  | [] => Nat.eqb d 0
  | c :: r => if c =? c_lb then bal (S d) r
              else if c =? c_rb then match d with O => false | S d' => bal d' r end
              else bal d r
  end.
Definition ok_targs (o : option str) : bool :=
  match o with None => true | Some b => bal 0 b end.

Definition wf_core (c : core (option str)) : bool :=
  match c with
  | EFunc p f cl ta => ok_path p && ok_ident f && ok_targs ta
  | EMethod p ptr t ta m cl => ok_path p && ok_ident t && ok_ident m && ok_targs ta
  | EWrap cp k rp ptr t ta m => ok_path cp && ok_path rp && ok_ident t && ok_ident m && ok_targs ta
  | EGlobal p v => ok_path p && ok_ident v
  | EInit p n => ok_path p
  | ERoutine p n => ok_path p
  end.

(* what equal names leave open before the fix (fixed = false): the receiver package of a wrapper *)
Definition erase (c : core (option str)) : core (option str) :=
  match c with
  | EWrap cp k _ ptr t ta m => EWrap cp k [] ptr t ta m
  | _ => c
  end.

(* a function and a variable of one package under one identifier: excluded by the
   one-object-per-identifier rule of the Go package scope *)
Definition scope_clash (a b : core (option str)) : Prop :=
  match a, b with
  | EFunc p f [] None, EGlobal q v | EGlobal q v, EFunc p f [] None => p = q /\ f = v
  | _, _ => False
  end.

(* comparison helper for the correspondence *)
Definition core_name_eqb (a b : str) : bool := str_eqb a b.
