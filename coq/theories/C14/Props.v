(* C14 - link names are unique per entity and consistent across packages: the theorems.
   Model: C14.Model (link_name mirrors cl/import.go funcName / varName, ssa/type.go FuncName,
   ssa/abi FullName / PathOf / NamedName / TypeArgs, go/ssa function names, routineName,
   closureWrapDecl / closureWrapPtr).  The boolean argument of link_name / name_of selects the
   code: true = the code that exists (ssa.FuncName keeps the package of a foreign receiver type in
   the name of a thunk / bound wrapper), false = the code before that fix. *)
From Coq Require Import Ascii String.
From LLGoV Require Import C07.Model C14.Model C14.Bal C14.Proofs.
Local Open Scope N_scope.

(* The name is a function of the entity alone: the model has no referring-package argument and
   no package-local state.  Code facts behind this: funcName / FuncName / FullName read only
   the function, its receiver, its Origin and its package; varName reads only the package and
   the variable.  The two places where the compiling package enters are part of the entity:
   thunk / bound wrappers (context.funcName falls back to the package being compiled, field
   cpkg) and goroutine thunks (Package.iRoutine counter, field n); both symbols are defined and
   used inside that one package.  ssa/type.go llvmNameOf / toNamed count too (name#index) but
   name LLVM struct types, not symbols. *)
Theorem link_name_deterministic : forall (fixed : bool) (e1 e2 : entity tys),
  e1 = e2 -> link_name fixed e1 = link_name fixed e2.
Proof. intros fixed e1 e2 ->. reflexivity. Qed.
Print Assumptions link_name_deterministic.

(* String-level injectivity over entities whose type-argument lists are given as rendered text.
   Guard wf_core: package paths satisfy C07 wf_path (path characters, no dot in the last element,
   not below the patch prefix) and do not start with __llgo_stub or _llgo_; identifiers are ASCII
   Go identifiers not starting with _llgo_; the text between the brackets is bracket-balanced.
   Conclusion: the entities are equal, receiver package of a wrapper included, or they are a
   function and a variable of one package under one identifier (excluded by the Go package scope). *)
Theorem name_of_injective_string : forall a b : core (option str),
  wf_core a = true -> wf_core b = true -> name_of true a = name_of true b ->
  a = b \/ scope_clash a b.
Proof. exact name_of_injective. Qed.
Print Assumptions name_of_injective_string.

(* The same for program entities (type arguments as C07 types, closure stubs included).  Guard
   wf_prog: as above, and the names and paths inside the type arguments contain no square
   bracket (Bal.v proves that abi.TypeArgs then renders a bracket-balanced text).
   partial: type arguments are compared through their rendering (render_ent): the theorem does
   not show that abi.typeArgString is injective on types (property C07 lists inputs where it is
   not; generic-local-type-arg-merged is one more); linkname / export overrides, cgo names,
   unnamed receivers, init$guard and C callback wrappers are not in the grammar. *)
Theorem link_name_injective_partial : forall e1 e2 : entity tys,
  wf_prog e1 = true -> wf_prog e2 = true ->
  link_name true e1 = link_name true e2 -> same_entity true (render_ent e1) (render_ent e2).
Proof. exact (link_name_injective_prog true). Qed.
Print Assumptions link_name_injective_partial.

(* The fix in one statement: the name of a thunk / bound wrapper determines the wrapper,
   including the package of its receiver type *)
Theorem wrapper_recv_pkg_determined :
  forall cp1 k1 rp1 ptr1 t1 ta1 m1 cp2 k2 rp2 ptr2 t2 ta2 m2,
  wf_prog_core (EWrap cp1 k1 rp1 ptr1 t1 ta1 m1) = true -> wf_prog_core (EWrap cp2 k2 rp2 ptr2 t2 ta2 m2) = true ->
  core_name true (EWrap cp1 k1 rp1 ptr1 t1 ta1 m1) = core_name true (EWrap cp2 k2 rp2 ptr2 t2 ta2 m2) ->
  cp1 = cp2 /\ k1 = k2 /\ rp1 = rp2 /\ ptr1 = ptr2 /\ t1 = t2 /\ targs_text ta1 = targs_text ta2 /\ m1 = m2.
Proof. exact wrapper_determined. Qed.
Print Assumptions wrapper_recv_pkg_determined.

(* abi.TypeArgs renders bracket-balanced text (used to find the end of a receiver's arguments) *)
Theorem type_args_balanced : forall ts : tys, nobr_tys ts = true -> ok_targs (targs_text ts) = true.
Proof. exact targs_text_ok. Qed.
Print Assumptions type_args_balanced.

(* Mergeable (linkonce) definitions: two instances of generic functions / methods with one
   name have the same origin, nesting and rendered type arguments.
   partial: equal rendered type arguments, not equal bodies (bodies are property C13). *)
Theorem mergeable_defs_equivalent_partial : forall a b : core tys,
  is_instance a = true -> is_instance b = true ->
  wf_prog_core a = true -> wf_prog_core b = true ->
  core_name true a = core_name true b -> render a = render b.
Proof. exact (mergeable_prog true). Qed.
Print Assumptions mergeable_defs_equivalent_partial.

(* Before the fix (fixed = false) the same holds only up to erase, the receiver package of a
   wrapper ... *)
Theorem link_name_injective_unfixed_partial : forall e1 e2 : entity tys,
  wf_prog e1 = true -> wf_prog e2 = true ->
  link_name false e1 = link_name false e2 -> same_entity false (render_ent e1) (render_ent e2).
Proof. exact (link_name_injective_prog false). Qed.
Print Assumptions link_name_injective_unfixed_partial.

(* ... and no better: before the fix the method value wrappers compiled into package x for
   x/a.T.M and for x/b.T.M are both well formed and both called x.T.M$bound (the compiled
   program then calls a's method for b's value); with the fix they are two names *)
Theorem wrapper_recv_pkg_refuted : exists e1 e2 : entity tys,
  e1 <> e2 /\ wf_prog e1 = true /\ wf_prog e2 = true
  /\ link_name false e1 = link_name false e2 /\ link_name false e1 = lit "x.T.M$bound"%string
  /\ link_name true e1 = lit "x.(x/a.T).M$bound"%string
  /\ link_name true e2 = lit "x.(x/b.T).M$bound"%string.
Proof.
  exists (w_wrap p_xa), (w_wrap p_xb). destruct wrapper_witness as (A & B & C & D & E & F & G & _).
  repeat split; auto.
Qed.
Print Assumptions wrapper_recv_pkg_refuted.

(* F10: without the no-dot-in-the-last-path-element guard the statement is false:
   func c of package x/a.b and method c of type b of package x/a are both x/a.b.c *)
Theorem pkg_dot_refuted : exists e1 e2 : entity tys,
  e1 <> e2 /\ link_name true e1 = link_name true e2 /\ link_name true e1 = lit "x/a.b.c"%string
  /\ e1 = ECore (EFunc (lit "x/a.b"%string) (lit "c"%string) [] TsNil)
  /\ e2 = ECore (EMethod (lit "x/a"%string) false (lit "b"%string) TsNil (lit "c"%string) []).
Proof.
  exists w_dot_func, w_dot_meth. destruct (pkg_dot_witness true) as (A & B & C & _).
  repeat split; auto.
Qed.
Print Assumptions pkg_dot_refuted.

(* why identifiers must not start with _llgo_: closure 1 of a function _llgo_routine and the
   first goroutine thunk of the package share x._llgo_routine$1 *)
Theorem routine_closure_refuted : exists e1 e2 : entity tys,
  e1 <> e2 /\ link_name true e1 = link_name true e2 /\ link_name true e1 = lit "x._llgo_routine$1"%string.
Proof.
  exists w_rt_func, w_rt_thunk. destruct (routine_witness true) as (A & B & _). repeat split; auto.
Qed.
Print Assumptions routine_closure_refuted.

(* why paths must not start with __llgo_stub: method M of type T of a package __llgo_stub and
   the closure stub of func M of a package T *)
Theorem stub_prefix_refuted : exists e1 e2 : entity tys,
  e1 <> e2 /\ link_name true e1 = link_name true e2 /\ link_name true e1 = lit "__llgo_stub.T.M"%string.
Proof.
  exists w_stub_meth, w_stub_stub. destruct (stub_witness true) as (A & B & _). repeat split; auto.
Qed.
Print Assumptions stub_prefix_refuted.

(* exception by design (the overlay mechanism): PathOf strips the patch prefix, so the patch
   package and the patched package share their names *)
Theorem patch_prefix_merges : forall f : str,
  link_name true (ECore (EFunc (s_patch ++ lit "os"%string) f [] TsNil))
  = link_name true (ECore (EFunc (lit "os"%string) f [] TsNil)).
Proof. intros f. reflexivity. Qed.
Print Assumptions patch_prefix_merges.

(* the hypotheses are satisfiable by non-trivial entities *)
Definition ex_T : ty := TNamed (Some (lit "x/b"%string)) (lit "T"%string) TsNil ScPkg.
Definition ex_targs : tys := TsCons [] (TBasic 2 false) (TsCons [] (TMap (TBasic 17 false) (TPtr ex_T)) TsNil).
Definition ex_meth : entity tys :=
  ECore (EMethod (lit "github.com/u/p"%string) true (lit "G"%string) ex_targs (lit "Set"%string) [1; 12]).
Example ex_meth_wf : wf_prog ex_meth = true.
Proof. reflexivity. Qed.
Example ex_meth_name :
  link_name true ex_meth = lit "github.com/u/p.(*G[int,map[string]*x/b.T]).Set$1$12[int,map[string]*x/b.T]"%string.
Proof. reflexivity. Qed.
Definition ex_wrap : core tys :=
  EWrap (lit "x"%string) WThunk (lit "github.com/u/p"%string) true (lit "G"%string) ex_targs (lit "Set"%string).
Example ex_wrap_wf : wf_prog_core ex_wrap = true.
Proof. reflexivity. Qed.
Example ex_wrap_name :
  core_name true ex_wrap = lit "x.(*github.com/u/p.G[int,map[string]*x/b.T]).Set$thunk"%string
  /\ core_name false ex_wrap = lit "x.(*G[int,map[string]*x/b.T]).Set$thunk"%string.
Proof. split; reflexivity. Qed.
Example ex_stub_wf :
  wf_prog (EStubDecl (EFunc (lit "x/a"%string) (lit "F"%string) [1] TsNil)) = true
  /\ link_name true (EStubDecl (EFunc (lit "x/a"%string) (lit "F"%string) [1] TsNil)) = lit "__llgo_stub.x/a.F$1"%string.
Proof. split; reflexivity. Qed.
Example ex_instance : is_instance (EFunc (lit "x/a"%string) (lit "Map"%string) [1] ex_targs) = true
  /\ linkage_of (ECore (EFunc (lit "x/a"%string) (lit "Map"%string) [1] ex_targs)) = LinkOnce.
Proof. split; reflexivity. Qed.
