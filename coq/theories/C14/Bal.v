(* C14 - the rendering of type arguments (abi.TypeArgs) is bracket-balanced *)
From LLGoV Require Import C07.Model C07.PStr C14.Model.
Local Open Scope N_scope.

Fixpoint scan (d : nat) (s : str) : option nat :=
  match s with
  | [] => Some d
  | c :: r => if c =? c_lb then scan (S d) r
              else if c =? c_rb then match d with O => None | S d' => scan d' r end
              else scan d r
  end.

Lemma bal_scan : forall s d, bal d s = true <-> scan d s = Some O.
Proof.
  induction s as [|c r IH]; intros d; cbn.
  - destruct d; cbn; split; intros H; try discriminate; auto.
  - destruct (c =? c_lb); [apply IH|]. destruct (c =? c_rb); [|apply IH].
    destruct d; [split; discriminate|apply IH].
Qed.

Lemma scan_app : forall a b d, scan d (a ++ b) = match scan d a with Some d' => scan d' b | None => None end.
Proof.
  induction a as [|c a IH]; intros b d; cbn; auto.
  destruct (c =? c_lb); [apply IH|]. destruct (c =? c_rb); [|apply IH]. destruct d; auto.
Qed.

(* neutral at every depth *)
Definition balanced (s : str) : Prop := forall d, scan d s = Some d.

Lemma balanced_nil : balanced [].
Proof. intros d. reflexivity. Qed.
Lemma balanced_app a b : balanced a -> balanced b -> balanced (a ++ b).
Proof. intros A B d. rewrite scan_app, A. apply B. Qed.
Lemma balanced_brackets b : balanced b -> balanced ([c_lb] ++ b ++ [c_rb]).
Proof. intros B d. cbn. rewrite scan_app, B. reflexivity. Qed.
Lemma balanced_bal s : balanced s -> bal 0 s = true.
Proof. intros B. apply bal_scan. apply B. Qed.

Definition nobr_c (c : N) : bool := negb (c =? c_lb) && negb (c =? c_rb).
Definition nobr (s : str) : bool := forallb nobr_c s.
Lemma nobr_balanced s : nobr s = true -> balanced s.
Proof.
  induction s as [|c r IH]; intros H d; cbn in *; auto.
  apply andb_true_iff in H as [C R]. unfold nobr_c in C. apply andb_true_iff in C as [C1 C2].
  apply negb_true_iff in C1, C2. rewrite C1, C2. now apply IH.
Qed.
Lemma nobr_app a b : nobr (a ++ b) = nobr a && nobr b.
Proof. apply forallb_app. Qed.

Lemma digits_nobr s : forallb is_digit s = true -> nobr s = true.
Proof.
  unfold nobr. rewrite !forallb_forall. intros H c I. specialize (H c I).
  apply is_digit_range in H. unfold nobr_c, c_lb, c_rb.
  destruct (c =? 91) eqn:E1; [apply N.eqb_eq in E1; lia|].
  destruct (c =? 93) eqn:E2; [apply N.eqb_eq in E2; lia|]. reflexivity.
Qed.
Lemma dec_nobr n : nobr (dec n) = true.
Proof. apply digits_nobr, dec_digits. Qed.

Lemma basic_names_nobr : forallb nobr basic_names = true.
Proof. reflexivity. Qed.
Lemma basic_name_nobr k : nobr (basic_name k) = true.
Proof.
  unfold basic_name. destruct (nth_in_or_default (N.to_nat k) basic_names []) as [I|E].
  - pose proof basic_names_nobr as H. rewrite forallb_forall in H. auto.
  - rewrite E. reflexivity.
Qed.

Lemma strip_prefix_suffix : forall a p r, strip_prefix a p = Some r -> exists x, p = x ++ r.
Proof.
  induction a as [|c a IH]; intros p r H; cbn in H.
  - injection H as ->. exists []. reflexivity.
  - destruct p as [|b p]; [discriminate|]. destruct (c =? b); [|discriminate].
    destruct (IH _ _ H) as (x & ->). exists (b :: x). reflexivity.
Qed.
Lemma path_of_nobr p : nobr p = true -> nobr (path_of p) = true.
Proof.
  intros H. unfold path_of. destruct (strip_prefix s_patch p) as [r|] eqn:E; auto.
  destruct (strip_prefix_suffix _ _ _ E) as (x & ->). rewrite nobr_app in H. now apply andb_true_iff in H as [_ H].
Qed.

Lemma ids_str_nobr ids : nobr (ids_str ids) = true.
Proof.
  induction ids as [|i r IH]; [reflexivity|].
  change (ids_str (i :: r)) with (([c_dot] ++ dec i) ++ ids_str r).
  rewrite !nobr_app, dec_nobr, IH. reflexivity.
Qed.
Lemma scope_str_nobr pkg sc : nobr (scope_str pkg sc) = true.
Proof.
  destruct pkg, sc; cbn; auto using ids_str_nobr.
  destruct (p =? 0); [reflexivity|]. change (nobr ([c_dot; c_p] ++ dec p) = true). rewrite nobr_app, dec_nobr. reflexivity.
Qed.
Lemma dir_str_nobr d : nobr (dir_str d) = true.
Proof. destruct d; reflexivity. Qed.

(* the guard: names and paths inside the type arguments carry no square bracket *)
Fixpoint nobr_ty (t : ty) : bool :=
  match t with
  | TNamed pkg name targs _ =>
      nobr name && (match pkg with Some p => nobr p | None => true end) && nobr_tys targs
  | TPtr e | TSlice e | TArray _ e | TChan _ e => nobr_ty e
  | TMap k e => nobr_ty k && nobr_ty e
  | _ => true
  end
with nobr_tys (ts : tys) : bool :=
  match ts with TsNil => true | TsCons _ t r => nobr_ty t && nobr_tys r end.

Lemma join_comma_cons x r : join_comma (x :: r) = match r with [] => x | _ => x ++ [c_comma] ++ join_comma r end.
Proof. destruct r; reflexivity. Qed.

Lemma targ_balanced_all :
  (forall t, nobr_ty t = true -> balanced (targ_str t)) /\
  (forall ts, nobr_tys ts = true -> balanced (join_comma (targs_strs ts))) /\
  (forall fs : fields, True) /\ (forall ms : methods, True).
Proof.
  apply ty_mutind; intros; try exact I.
  - (* TBasic *) cbn. destruct (k =? 18); [apply nobr_balanced; reflexivity|].
    destruct (alias && (k =? 8)); [apply nobr_balanced; reflexivity|].
    destruct (alias && (k =? 5)); [apply nobr_balanced; reflexivity|].
    apply nobr_balanced, basic_name_nobr.
  - (* TNamed *) cbn in H0. apply andb_true_iff in H0 as [H0 Ht]. apply andb_true_iff in H0 as [Hn Hp].
    assert (B : balanced (name ++ (match targs with TsNil => [] | _ => [c_lb] ++ join_comma (targs_strs targs) ++ [c_rb] end)
                           ++ scope_str pkg sc)).
    { apply balanced_app; [now apply nobr_balanced|]. apply balanced_app; [|apply nobr_balanced, scope_str_nobr].
      destruct targs; [apply balanced_nil|]. apply balanced_brackets. now apply H. }
    cbn [targ_str]. destruct pkg as [p|]; [|exact B].
    apply balanced_app; [apply nobr_balanced, path_of_nobr; exact Hp|].
    apply (balanced_app [c_dot]); [apply nobr_balanced; reflexivity|exact B].
  - (* TPtr *) cbn in *. apply (balanced_app [c_star]); [apply nobr_balanced; reflexivity|auto].
  - (* TSlice *) cbn [targ_str]. apply (balanced_app [c_lb; c_rb]); [|cbn in *; auto].
    apply (balanced_brackets []), balanced_nil.
  - (* TArray *) cbn [targ_str]. rewrite app_assoc. rewrite app_assoc. apply balanced_app; [|cbn in *; auto].
    rewrite <- app_assoc. apply balanced_brackets. apply nobr_balanced, dec_nobr.
  - (* TMap *) cbn in H1. apply andb_true_iff in H1 as [Hk He]. cbn [targ_str].
    change s_map with ([109; 97; 112] ++ [c_lb]). rewrite <- app_assoc.
    apply balanced_app; [apply nobr_balanced; reflexivity|].
    rewrite app_assoc. rewrite app_assoc. apply balanced_app; [|auto].
    rewrite <- app_assoc. apply balanced_brackets. auto.
  - (* TChan *) cbn in H0. cbn [targ_str].
    apply balanced_app; [apply nobr_balanced, dir_str_nobr|].
    apply (balanced_app [c_sp]); [apply nobr_balanced; reflexivity|].
    assert (Bp : balanced ([c_lp] ++ targ_str e ++ [c_rp])).
    { apply (balanced_app [c_lp]); [apply nobr_balanced; reflexivity|].
      apply balanced_app; [auto|apply nobr_balanced; reflexivity]. }
    destruct d; auto. destruct e; auto. destruct d; auto.
  - (* TFunc *) apply nobr_balanced. reflexivity.
  - (* TStruct *) apply nobr_balanced. reflexivity.
  - (* TIface *) apply nobr_balanced. reflexivity.
  - (* TsNil *) apply balanced_nil.
  - (* TsCons *) cbn in H1. apply andb_true_iff in H1 as [Ht Hr]. cbn [targs_strs]. rewrite join_comma_cons.
    destruct (targs_strs r) eqn:Er; [auto|].
    apply balanced_app; [auto|]. apply (balanced_app [c_comma]); [apply nobr_balanced; reflexivity|]. auto.
Qed.

Lemma targs_text_ok ts : nobr_tys ts = true -> ok_targs (targs_text ts) = true.
Proof.
  intros H. destruct ts; cbn [targs_text ok_targs]; auto.
  apply balanced_bal. now apply (proj1 (proj2 targ_balanced_all)).
Qed.
