(* C13 - build cache: model of internal/build/{collect,fingerprint,cache}.go.

   Build inputs of one package are a total map kind -> value.  The fingerprint
   of a package is a digest of (the values of the kinds the manifest contains,
   the fingerprints of its direct dependencies) - collect.go collectFingerprint
   / collectDependencyInputs, fingerprint.go manifestBuilder.Fingerprint.  The
   list of kinds the manifest contains ([fp_kinds]) is a parameter: for the real
   tree it is GENERATED on every check run by props/C13/harness/extract (go/ast
   over collect.go, fingerprint.go, build.go, crosscompile.go).

   [compile] turns a package together with the packages it (transitively)
   imports into an artifact (the archive).  The cache maps fingerprint ->
   artifact (cache.go PackagePaths: <root>/<triple>/<pkgpath>/<fingerprint>.a;
   pkg path and triple are manifest fields, so one global map is faithful).
   Main packages are compiled every time and never stored (saveToCache). *)
From LLGoV Require Export Lib.Common.

Inductive kind :=
| KPkgId            (* package path / id *)
| KGoFiles          (* Go files of the package: the list and each file's (path,size,mtime) *)
| KAltGoFiles       (* files of the alt (patch) package *)
| KOtherFiles       (* non-Go files go list reports in the package directory (.s .h ...) *)
| KEmbedFiles       (* files matched by go:embed patterns *)
| KSideCFiles       (* C/C++ files named by the LLGoFiles constant (sub-directories) *)
| KSameStatContent  (* content of a source file whose path, size and mtime are unchanged *)
| KTags             (* -tags *)
| KRewrites         (* -X style string overrides (Config.GlobalRewrites) *)
| KOptLevel         (* -O level *)
| KAbiMode          (* -abi *)
| KEnvListed        (* LLGO_* switches read through isEnvOn/defaultEnv in build.go *)
| KEnvExpand        (* variables / commands expanded inside LLGoFiles and LLGoPackage link specs *)
| KTarget           (* GOOS GOARCH -target triple target-abi *)
| KToolchain        (* CC and its flags, linker, LLVM and Go versions, target extra files *)
| KCompiler         (* llgo version / compiler hash *)
| KDeps.            (* pseudo kind: the fingerprints of the direct dependencies *)

Definition kind_code (k : kind) : N :=
  match k with
  | KPkgId => 0 | KGoFiles => 1 | KAltGoFiles => 2 | KOtherFiles => 3 | KEmbedFiles => 4
  | KSideCFiles => 5 | KSameStatContent => 6 | KTags => 7 | KRewrites => 8 | KOptLevel => 9
  | KAbiMode => 10 | KEnvListed => 11 | KEnvExpand => 12 | KTarget => 13 | KToolchain => 14
  | KCompiler => 15 | KDeps => 16
  end%N.
Definition kind_eqb (a b : kind) : bool := N.eqb (kind_code a) (kind_code b).

Definition all_kinds : list kind :=
  [KPkgId; KGoFiles; KAltGoFiles; KOtherFiles; KEmbedFiles; KSideCFiles; KSameStatContent; KTags;
   KRewrites; KOptLevel; KAbiMode; KEnvListed; KEnvExpand; KTarget; KToolchain; KCompiler; KDeps].

(* everything that can change what the compiled package does (the property text):
   all kinds.  KDeps is handled structurally (see [fp] and [rel_eq] in Proofs.v). *)
Definition relevant_kinds : list kind :=
  [KPkgId; KGoFiles; KAltGoFiles; KOtherFiles; KEmbedFiles; KSideCFiles; KSameStatContent; KTags;
   KRewrites; KOptLevel; KAbiMode; KEnvListed; KEnvExpand; KTarget; KToolchain; KCompiler].

Definition value := N.
Definition inputs := kind -> value.
Definition upd (i : inputs) (k : kind) (v : value) : inputs :=
  fun k' => if kind_eqb k' k then v else i k'.
Definition vals (ks : list kind) (i : inputs) : list value := map i ks.

Definition memk (k : kind) (ks : list kind) : bool := existsb (kind_eqb k) ks.
(* every kind of [need] is in [have] *)
Definition covers (have need : list kind) : bool := forallb (fun k => memk k have) need.
Definition uncovered (have need : list kind) : list kind := filter (fun k => negb (memk k have)) need.

(* ---------- modules: how a dependency enters the manifest of its importers ----------
   collect.go dependencyFingerprint / moduleVersion: a dependency whose module has a version
   is recorded as (id, version) - its sources live in the read-only module cache and cannot
   change under that version; every other dependency (main module, go.work workspace, a
   module replaced by a LOCAL DIRECTORY) can be edited in place and is recorded by its
   content fingerprint. *)
Inductive modst :=
| MMain                      (* main module / workspace module: Module.Version is empty *)
| MReplDir (v : value)       (* required at version v, replaced by a directory (Replace.Version empty) *)
| MReplVer (v w : value)     (* required at v, replaced by another module path at version w *)
| MCache (v : value).        (* module cache, version v *)

Definition immutable (s : modst) : bool :=
  match s with MReplVer _ _ | MCache _ => true | MMain | MReplDir _ => false end.
(* the version under which an immutable module's sources are stored *)
Definition mver (s : modst) : value :=
  match s with MMain => 0%N | MReplDir v => v | MReplVer _ w => w | MCache v => v end.

(* moduleVersion(dep.Module); None = the empty string = use the fingerprint.
   dirrepl_ver = false is the code that exists; true models the tempting simplification
   that returns the required version for a directory replace *)
Definition module_version (dirrepl_ver : bool) (s : modst) : option value :=
  match s with
  | MMain => None
  | MReplDir v => if dirrepl_ver then Some v else None
  | MReplVer _ w => Some w
  | MCache v => Some v
  end.

(* a package with the packages it imports, unfolded *)
Inductive tree := Node (own : inputs) (st : modst) (deps : list tree).
Definition town (t : tree) : inputs := match t with Node o _ _ => o end.
Definition tst (t : tree) : modst := match t with Node _ s _ => s end.

(* a module graph: packages in reverse dependency order - the head may import packages
   of the tail, named by their position in the tail *)
Record pkgdesc := { p_own : inputs; p_deps : list nat; p_cacheable : bool; p_mod : modst }.
Definition module := list pkgdesc.

Definition leaf : tree := Node (fun _ => 0%N) MMain [].

Fixpoint trees (m : module) : list tree :=
  match m with
  | [] => []
  | p :: rest =>
      let ts := trees rest in
      Node (p_own p) (p_mod p) (map (fun d => nth d ts leaf) (p_deps p)) :: ts
  end.

Inductive step :=
| EditPkg (i : nat) (k : kind) (v : value)   (* change one input of one package *)
| EditAll (k : kind) (v : value)             (* change a configuration input (all packages) *)
| Build
| ClearCache.

Definition set_own (p : pkgdesc) (k : kind) (v : value) : pkgdesc :=
  {| p_own := upd (p_own p) k v; p_deps := p_deps p; p_cacheable := p_cacheable p; p_mod := p_mod p |}.

(* the sources of a package in the module cache cannot be edited *)
Fixpoint edit_pkg (m : module) (i : nat) (k : kind) (v : value) : module :=
  match m, i with
  | [], _ => []
  | p :: rest, O => (if immutable (p_mod p) then p else set_own p k v) :: rest
  | p :: rest, S j => p :: edit_pkg rest j k v
  end.
Definition edit_all (m : module) (k : kind) (v : value) : module :=
  map (fun p => set_own p k v) m.

(* an entry of the deps section of a manifest *)
Inductive dentry (key : Type) :=
| DVer (id v : value)        (* id + version *)
| DFp (k : key).             (* id + fingerprint (the id is part of the fingerprinted manifest) *)
Arguments DVer {key} id v.
Arguments DFp {key} k.

Section Cache.
  Variables key artifact : Type.
  Variable key_eqb : key -> key -> bool.
  Variable digest : list value -> list (dentry key) -> key.    (* sha256 of the rendered manifest *)
  Variable compile : tree -> artifact.
  Variable fp_kinds : list kind.                      (* what the manifest contains *)
  Variable ver_of : modst -> option value.            (* moduleVersion *)

  (* collectFingerprint: own manifest fields + (if the deps section is filled) one entry
     per direct import: its version if moduleVersion gives one, else its fingerprint *)
  Fixpoint fp (t : tree) : key :=
    match t with
    | Node o _ ds =>
        digest (vals fp_kinds o)
          (if memk KDeps fp_kinds then
             map (fun d => match d with
                           | Node o' s' _ =>
                               match ver_of s' with
                               | Some v => DVer (o' KPkgId) v
                               | None => DFp (fp d)
                               end
                           end) ds
           else [])
    end.

  Definition dep_entry (d : tree) : dentry key :=
    match ver_of (tst d) with Some v => DVer (town d KPkgId) v | None => DFp (fp d) end.

  Definition cache := list (key * artifact).
  Fixpoint lookup (k : key) (c : cache) : option artifact :=
    match c with
    | [] => None
    | (k', a) :: c' => if key_eqb k k' then Some a else lookup k c'
    end.

  (* buildAllPkgs/buildOne: fingerprint, tryLoadFromCache, else buildPkg + saveToCache *)
  Definition build_one (c : cache) (t : tree) (cacheable : bool) : cache * artifact :=
    if cacheable then
      match lookup (fp t) c with
      | Some a => (c, a)
      | None => let a := compile t in ((fp t, a) :: c, a)
      end
    else (c, compile t).

  Fixpoint build_list (c : cache) (ts : list (tree * bool)) : cache * list artifact :=
    match ts with
    | [] => (c, [])
    | (t, cb) :: rest =>
        let (c1, outs) := build_list c rest in      (* dependencies first *)
        let (c2, a) := build_one c1 t cb in
        (c2, a :: outs)
    end.

  Definition build_cached (c : cache) (m : module) : cache * list artifact :=
    build_list c (combine (trees m) (map p_cacheable m)).
  Definition build_clean (m : module) : list artifact := map compile (trees m).

  (* outputs of the Build steps of a history *)
  Fixpoint run_cached (m : module) (c : cache) (h : list step) : list (list artifact) :=
    match h with
    | [] => []
    | EditPkg i k v :: h' => run_cached (edit_pkg m i k v) c h'
    | EditAll k v :: h' => run_cached (edit_all m k v) c h'
    | ClearCache :: h' => run_cached m [] h'
    | Build :: h' => let (c', out) := build_cached c m in out :: run_cached m c' h'
    end.
  Fixpoint run_clean (m : module) (h : list step) : list (list artifact) :=
    match h with
    | [] => []
    | EditPkg i k v :: h' => run_clean (edit_pkg m i k v) h'
    | EditAll k v :: h' => run_clean (edit_all m k v) h'
    | ClearCache :: h' => run_clean m h'
    | Build :: h' => build_clean m :: run_clean m h'
    end.
End Cache.

(* ---------- a concrete instance: structural digest, most discriminating compiler ----------
   key = artifact = ktree; the digest is the identity on structure (injective), and the
   compiler output records exactly the relevant inputs of the package and of its mutable
   imports, and (id, version) of its immutable imports.
   Used (a) to show the Section hypotheses are satisfiable, (b) by check.py to predict, for
   the generated manifest kinds and moduleVersion policy, which edit histories go stale. *)
Inductive ktree := K (vs : list value) (ks : list ktree).

Fixpoint ktree_eqb (a b : ktree) : bool :=
  match a, b with
  | K v1 k1, K v2 k2 =>
      list_eqb N.eqb v1 v2 &&
      (fix go (l1 l2 : list ktree) : bool :=
         match l1, l2 with
         | [], [] => true
         | x :: xs, y :: ys => ktree_eqb x y && go xs ys
         | _, _ => false
         end) k1 k2
  end.

Definition cdentry (e : dentry ktree) : ktree :=
  match e with DVer id v => K [0; id; v]%N [] | DFp k => K [1]%N [k] end.
Definition cdigest (vs : list value) (es : list (dentry ktree)) : ktree := K vs (map cdentry es).
Fixpoint ccompile (t : tree) : ktree :=
  match t with
  | Node o _ ds =>
      K (vals relevant_kinds o)
        (map (fun d => match d with
                       | Node o' s' _ =>
                           if immutable s' then K [0; o' KPkgId; mver s']%N []
                           else K [1]%N [ccompile d]
                       end) ds)
  end.

Definition crun_cached (pol : bool) (fpk : list kind) (m : module) (h : list step) : list (list ktree) :=
  run_cached ktree ktree ktree_eqb cdigest ccompile fpk (module_version pol) m [] h.
Definition crun_clean (m : module) (h : list step) : list (list ktree) :=
  run_clean ktree ccompile m h.
Definition outs_eqb : list (list ktree) -> list (list ktree) -> bool :=
  list_eqb (list_eqb ktree_eqb).

(* does the history go stale (some Build output differs from the clean build)?
   pol = the dirrepl_ver flag of module_version *)
Definition stale_pol (pol : bool) (fpk : list kind) (mh : module * list step) : bool :=
  negb (outs_eqb (crun_cached pol fpk (fst mh) (snd mh)) (crun_clean (fst mh) (snd mh))).
Definition stale := stale_pol false.

(* fingerprint of the package at position i (concrete instance) *)
Definition cfp (pol : bool) (fpk : list kind) (m : module) (i : nat) : ktree :=
  fp ktree cdigest fpk (module_version pol) (nth i (trees m) leaf).
(* does the edit re-fingerprint the package at position i? *)
Definition refingerprints (pol : bool) (fpk : list kind) (m : module) (e : step) (i : nat) : bool :=
  match e with
  | EditPkg j k v => negb (ktree_eqb (cfp pol fpk m i) (cfp pol fpk (edit_pkg m j k v) i))
  | EditAll k v => negb (ktree_eqb (cfp pol fpk m i) (cfp pol fpk (edit_all m k v) i))
  | _ => false
  end.

(* the module the end-to-end harness generates: main -> a -> b -> c (positions 0..3) *)
Definition base_inputs (id : N) : inputs := fun k => match k with KPkgId => id | _ => 0%N end.
Definition mkpkg (id : N) (deps : list nat) (cb : bool) (s : modst) : pkgdesc :=
  {| p_own := base_inputs id; p_deps := deps; p_cacheable := cb; p_mod := s |}.
Definition e2e_module : module :=
  [ mkpkg 1 [0%nat] false MMain;    (* main imports a *)
    mkpkg 2 [0%nat] true MMain;     (* a imports b *)
    mkpkg 3 [0%nat] true MMain;     (* b imports c *)
    mkpkg 4 [] true MMain ].        (* c *)
(* two modules: app (main -> app/mid) and lib, required at v1 and replaced by a directory *)
Definition e2e_repl_module : module :=
  [ mkpkg 1 [0%nat] false MMain;          (* app: main imports app/mid *)
    mkpkg 2 [0%nat] true MMain;           (* app/mid imports lib *)
    mkpkg 5 [] true (MReplDir 1%N) ].       (* lib => ../lib *)
(* the same with lib replaced by another module path at a version (module cache) *)
Definition e2e_replver_module (w : value) : module :=
  [ mkpkg 1 [0%nat] false MMain;
    mkpkg 2 [0%nat] true MMain;
    mkpkg 5 [] true (MReplVer 1%N w) ].

(* the kinds collect.go / fingerprint.go put into the manifest: fixed = true is the code
   that exists now (embedded files by content, the C files named by LLGoFiles, the flags the
   LLGoFiles prefix expands to, sha256 of every on-disk source file); fixed = false is the
   tree before the four C13 fixes *)
Definition tree_manifest (fixed : bool) : list kind :=
  [KPkgId; KGoFiles; KAltGoFiles; KOtherFiles] ++
  (if fixed then [KEmbedFiles; KSideCFiles; KSameStatContent] else []) ++
  [KTags; KRewrites; KOptLevel; KAbiMode; KEnvListed] ++
  (if fixed then [KEnvExpand] else []) ++
  [KTarget; KToolchain; KCompiler; KDeps].

