(* C13 - lemmas.  See Props.v for the statements that matter. *)
From LLGoV Require Import C13.Model.

(* ---------- kinds ---------- *)
Lemma kind_code_inj a b : kind_code a = kind_code b -> a = b.
Proof. destruct a, b; cbn; intros H; try reflexivity; discriminate H. Qed.

Lemma kind_eqb_eq a b : kind_eqb a b = true <-> a = b.
Proof.
  unfold kind_eqb. rewrite N.eqb_eq. split; [apply kind_code_inj | now intros ->].
Qed.

Lemma kind_eqb_refl a : kind_eqb a a = true.
Proof. now apply kind_eqb_eq. Qed.

Lemma memk_In k ks : memk k ks = true <-> In k ks.
Proof.
  unfold memk. rewrite existsb_exists. split.
  - intros (x & Hx & E). apply kind_eqb_eq in E. now subst.
  - intros H. exists k. split; [assumption | apply kind_eqb_refl].
Qed.

Lemma covers_incl have need :
  covers have need = true <-> (forall k, In k need -> In k have).
Proof.
  unfold covers. rewrite forallb_forall. split; intros H k Hk.
  - apply memk_In. now apply H.
  - apply memk_In. now apply H.
Qed.

Lemma uncovered_spec have need k :
  In k (uncovered have need) <-> In k need /\ ~ In k have.
Proof.
  unfold uncovered. rewrite filter_In. rewrite negb_true_iff.
  split; intros [H1 H2]; split; try assumption.
  - intros Hin. apply memk_In in Hin. congruence.
  - destruct (memk k have) eqn:E; [|reflexivity]. apply memk_In in E. contradiction.
Qed.

Lemma covers_uncovered_nil have need :
  covers have need = true <-> uncovered have need = [].
Proof.
  rewrite covers_incl. split.
  - intros H. destruct (uncovered have need) as [|k l] eqn:E; [reflexivity|].
    assert (Hk : In k (uncovered have need)) by (rewrite E; now left).
    apply uncovered_spec in Hk as [H1 H2]. exfalso. apply H2. now apply H.
  - intros E k Hk. destruct (memk k have) eqn:M; [now apply memk_In|].
    assert (Hu : In k (uncovered have need)).
    { apply uncovered_spec. split; [assumption|]. intros Hin. apply memk_In in Hin. congruence. }
    rewrite E in Hu. destruct Hu.
Qed.

Definition agree (ks : list kind) (i j : inputs) : Prop := forall k, In k ks -> i k = j k.

Lemma vals_agree ks i j : vals ks i = vals ks j <-> agree ks i j.
Proof.
  unfold vals, agree. induction ks as [|k ks IH]; cbn.
  - split; [intros _ k [] | reflexivity].
  - split.
    + intros H. injection H as H1 H2. intros k' [<- | Hk]; [assumption|]. now apply IH.
    + intros H. f_equal; [apply H; now left|]. apply IH. intros k' Hk. apply H. now right.
Qed.

Lemma upd_same i k v : upd i k v k = v.
Proof. unfold upd. now rewrite kind_eqb_refl. Qed.

Lemma upd_other i k v k' : k' <> k -> upd i k v k' = i k'.
Proof.
  unfold upd. intros H. destruct (kind_eqb k' k) eqn:E; [|reflexivity].
  apply kind_eqb_eq in E. contradiction.
Qed.

Lemma vals_upd_notin ks i k v : ~ In k ks -> vals ks (upd i k v) = vals ks i.
Proof.
  intros H. apply vals_agree. intros k' Hk. apply upd_other. intros ->. contradiction.
Qed.

(* ---------- induction on package trees ---------- *)
Section TreeInd.
  Variable P : tree -> Prop.
  Hypothesis HN : forall o s ds, Forall P ds -> P (Node o s ds).
  Fixpoint tree_ind' (t : tree) : P t :=
    match t with
    | Node o s ds =>
        HN o s ds ((fix go (l : list tree) : Forall P l :=
                      match l with
                      | [] => Forall_nil P
                      | x :: xs => Forall_cons x (tree_ind' x) (go xs)
                      end) ds)
    end.
End TreeInd.

(* two packages are indistinguishable for the compiler: same relevant inputs, and, import
   by import, either the same immutable module version (id, version: the sources stored in
   the module cache under a version do not change) or indistinguishable mutable packages *)
Inductive rel_eq (rel : list kind) : tree -> tree -> Prop :=
| RelEq o1 o2 s1 s2 d1 d2 :
    agree rel o1 o2 ->
    Forall2 (fun d d' =>
               (immutable (tst d) = true /\ immutable (tst d') = true /\
                town d KPkgId = town d' KPkgId /\ mver (tst d) = mver (tst d'))
               \/ (immutable (tst d) = false /\ immutable (tst d') = false /\ rel_eq rel d d'))
            d1 d2 ->
    rel_eq rel (Node o1 s1 d1) (Node o2 s2 d2).

Lemma length_trees m : length (trees m) = length m.
Proof. induction m as [|p m IH]; cbn; [reflexivity | now rewrite IH]. Qed.

Lemma map_fst_combine {A B} (xs : list A) (ys : list B) :
  length xs = length ys -> map fst (combine xs ys) = xs.
Proof.
  revert ys. induction xs as [|x xs IH]; intros [|y ys]; cbn; intros H; try reflexivity; try discriminate.
  f_equal. apply IH. now injection H.
Qed.

Lemma module_version_faithful s :
  module_version false s = if immutable s then Some (mver s) else None.
Proof. destruct s; reflexivity. Qed.

Section Sound.
  Variables key artifact : Type.
  Variable key_eqb : key -> key -> bool.
  Variable digest : list value -> list (dentry key) -> key.
  Variable compile : tree -> artifact.
  Variables fp_kinds relevant : list kind.
  Variable ver_of : modst -> option value.

  Hypothesis key_eqb_spec : forall a b, key_eqb a b = true <-> a = b.
  (* sha256 of the rendered manifest has no collisions *)
  Hypothesis digest_inj : forall v1 k1 v2 k2, digest v1 k1 = digest v2 k2 -> v1 = v2 /\ k1 = k2.
  (* the compiler looks at the relevant kinds only (of the package and of the mutable
     packages it imports) and at (id, version) of immutable imports *)
  Hypothesis compile_ext : forall t u, rel_eq relevant t u -> compile t = compile u.

  Notation fp := (fp key digest fp_kinds ver_of).
  Notation dep_entry := (dep_entry key digest fp_kinds ver_of).
  Notation lookup := (lookup key artifact key_eqb).
  Notation build_one := (build_one key artifact key_eqb digest compile fp_kinds ver_of).
  Notation build_list := (build_list key artifact key_eqb digest compile fp_kinds ver_of).
  Notation build_cached := (build_cached key artifact key_eqb digest compile fp_kinds ver_of).
  Notation run_cached := (run_cached key artifact key_eqb digest compile fp_kinds ver_of).

  Lemma fp_unfold o s ds :
    fp (Node o s ds) = digest (vals fp_kinds o) (if memk KDeps fp_kinds then map dep_entry ds else []).
  Proof.
    cbn. destruct (memk KDeps fp_kinds); [|reflexivity]. f_equal.
    apply map_ext. intros [o' s' ds']. reflexivity.
  Qed.

  Section Covered.
    Hypothesis Hcov : covers fp_kinds (KDeps :: relevant) = true.
    (* moduleVersion: the version exactly for the immutable modules *)
    Hypothesis Hpol : forall s, ver_of s = if immutable s then Some (mver s) else None.

    Lemma deps_in : memk KDeps fp_kinds = true.
    Proof. apply memk_In. apply (proj1 (covers_incl _ _) Hcov). now left. Qed.

    Lemma fp_rel_eq : forall t u, fp t = fp u -> rel_eq relevant t u.
    Proof.
      induction t as [o s ds IH] using tree_ind'. intros [o2 s2 d2] H.
      rewrite !fp_unfold, deps_in in H. apply digest_inj in H as [Hv Hd].
      constructor.
      - apply vals_agree in Hv. intros k Hk. apply Hv.
        apply (proj1 (covers_incl _ _) Hcov). now right.
      - revert d2 Hd. induction IH as [|x xs Hx _ IHxs]; intros [|y ys] Hd; cbn in Hd; try discriminate.
        + constructor.
        + injection Hd as H1 H2. constructor; [|now apply IHxs].
          unfold Model.dep_entry in H1. rewrite !Hpol in H1.
          destruct (immutable (tst x)) eqn:Ix, (immutable (tst y)) eqn:Iy; try discriminate H1.
          * left. injection H1 as E1 E2. auto.
          * right. injection H1 as E1. auto.
    Qed.

    (* every cached archive was compiled from a package with that fingerprint *)
    Definition cache_ok (c : cache key artifact) : Prop :=
      forall k a, In (k, a) c -> exists t, k = fp t /\ a = compile t.

    Lemma lookup_In k c a : lookup k c = Some a -> exists k', key_eqb k k' = true /\ In (k', a) c.
    Proof.
      induction c as [|[k' a'] c IH]; cbn; [discriminate|].
      destruct (key_eqb k k') eqn:E.
      - intros H. injection H as <-. exists k'. split; [assumption | now left].
      - intros H. destruct (IH H) as (k2 & H1 & H2). exists k2. split; [assumption | now right].
    Qed.

    Lemma build_one_ok c t cb :
      cache_ok c ->
      cache_ok (fst (build_one c t cb)) /\ snd (build_one c t cb) = compile t.
    Proof.
      intros Hc. unfold Model.build_one. destruct cb; [|now split].
      destruct (lookup (fp t) c) as [a|] eqn:L; cbn.
      - split; [assumption|].
        apply lookup_In in L as (k' & E & Hin). apply key_eqb_spec in E. subst k'.
        destruct (Hc _ _ Hin) as (t' & Hk & Ha). subst a. symmetry.
        apply compile_ext. now apply fp_rel_eq.
      - split; [|reflexivity].
        intros k a [H | H]; [|now apply Hc].
        injection H as <- <-. now exists t.
    Qed.

    Lemma build_list_ok ts c :
      cache_ok c ->
      cache_ok (fst (build_list c ts)) /\ snd (build_list c ts) = map compile (map fst ts).
    Proof.
      intros Hc. induction ts as [|[t cb] ts IH]; cbn; [now split|].
      destruct (build_list c ts) as [c1 outs] eqn:E1. cbn in IH. destruct IH as [IH1 IH2].
      pose proof (build_one_ok c1 t cb IH1) as [B1 B2].
      destruct (build_one c1 t cb) as [c2 a] eqn:E2. cbn in *. split; [assumption|]. now subst.
    Qed.

    Lemma build_cached_ok c m :
      cache_ok c ->
      cache_ok (fst (build_cached c m)) /\ snd (build_cached c m) = build_clean artifact compile m.
    Proof.
      intros Hc. unfold Model.build_cached, build_clean.
      destruct (build_list_ok (combine (trees m) (map p_cacheable m)) c Hc) as [H1 H2].
      split; [assumption|]. rewrite H2. f_equal. apply map_fst_combine.
      now rewrite length_trees, map_length.
    Qed.

    Lemma cache_sound_gen : forall h m c,
      cache_ok c -> run_cached m c h = run_clean artifact compile m h.
    Proof.
      induction h as [|s h IH]; intros m c Hc; cbn; [reflexivity|].
      destruct s as [i k v | k v | | ].
      - now apply IH.
      - now apply IH.
      - destruct (build_cached_ok c m Hc) as [H1 H2].
        destruct (build_cached c m) as [c' out]. cbn in *. subst out. f_equal. now apply IH.
      - apply IH. intros k a [].
    Qed.

    Lemma cache_sound_lemma : forall h m, run_cached m [] h = run_clean artifact compile m h.
    Proof. intros. apply cache_sound_gen. intros k a []. Qed.
  End Covered.

  (* ---------- the converse: an uncovered relevant kind gives a stale history ---------- *)
  Definition one_pkg (i : inputs) : module :=
    [ {| p_own := i; p_deps := []; p_cacheable := true; p_mod := MMain |} ].

  Lemma uncovered_stale_lemma k i v :
    ~ In k fp_kinds ->
    compile (Node (upd i k v) MMain []) <> compile (Node i MMain []) ->
    run_cached (one_pkg i) [] [Build; EditPkg 0 k v; Build]
    <> run_clean artifact compile (one_pkg i) [Build; EditPkg 0 k v; Build].
  Proof.
    intros Hk Hc. cbn.
    assert (E : vals fp_kinds (upd i k v) = vals fp_kinds i) by now apply vals_upd_notin.
    unfold Model.build_cached, Model.build_list, Model.build_one. cbn.
    destruct (memk KDeps fp_kinds); cbn; rewrite E, (proj2 (key_eqb_spec _ _) eq_refl); cbn;
      intros H; injection H as H; apply Hc; now symmetry.
  Qed.

  (* ---------- fingerprints are transitive over the import graph ---------- *)
  (* [sub_pair t t' u u']: u and u' sit at the same position below t and t', and every
     package on the way down is recorded by fingerprint in its importer *)
  Inductive sub_pair : tree -> tree -> tree -> tree -> Prop :=
  | SubHere t t' : sub_pair t t' t t'
  | SubDep o o' s s' ds ds' n d d' u u' :
      nth_error ds n = Some d -> nth_error ds' n = Some d' ->
      ver_of (tst d) = None -> ver_of (tst d') = None ->
      sub_pair d d' u u' -> sub_pair (Node o s ds) (Node o' s' ds') u u'.

  Lemma map_nth_error_eq {A B} (f : A -> B) l l' n x x' :
    map f l = map f l' -> nth_error l n = Some x -> nth_error l' n = Some x' -> f x = f x'.
  Proof.
    intros H H1 H2.
    pose proof (map_nth_error f n l H1) as E1. pose proof (map_nth_error f n l' H2) as E2.
    rewrite H in E1. rewrite E1 in E2. now injection E2.
  Qed.

  Lemma dep_fp_lemma t t' u u' :
    memk KDeps fp_kinds = true ->
    sub_pair t t' u u' -> fp t = fp t' -> fp u = fp u'.
  Proof.
    intros HD S. induction S as [|o o' s s' ds ds' n d d' u u' H1 H2 V1 V2 S IH]; [trivial|].
    rewrite !fp_unfold, HD. intros H. apply digest_inj in H as [_ H]. apply IH.
    pose proof (map_nth_error_eq dep_entry _ _ _ _ _ H H1 H2) as E.
    unfold Model.dep_entry in E. rewrite V1, V2 in E. now injection E.
  Qed.

  (* an edit of a kind the manifest contains changes the package's own fingerprint *)
  Lemma edit_changes_fp o s ds k v :
    In k fp_kinds -> v <> o k -> fp (Node (upd o k v) s ds) <> fp (Node o s ds).
  Proof.
    intros Hk Hv H. rewrite !fp_unfold in H. apply digest_inj in H as [H _].
    apply vals_agree in H. specialize (H k Hk). rewrite upd_same in H. contradiction.
  Qed.

  (* a dependency recorded by version only: editing it leaves the importer's fingerprint alone *)
  Lemma versioned_dep_edit_invisible o s d1 d2 k v w rest :
    ver_of (tst d1) = Some w -> k <> KPkgId ->
    d2 = Node (upd (town d1) k v) (tst d1) (match d1 with Node _ _ x => x end) ->
    fp (Node o s (d2 :: rest)) = fp (Node o s (d1 :: rest)).
  Proof.
    intros Hv Hk ->. rewrite !fp_unfold. f_equal. destruct (memk KDeps fp_kinds); [|reflexivity].
    cbn [map]. f_equal. destruct d1 as [o1 s1 x1]. unfold Model.dep_entry. cbn [tst town] in *.
    rewrite Hv. now rewrite upd_other by (intros E; apply Hk; now rewrite E).
  Qed.
End Sound.

(* ---------- the concrete instance ---------- *)
Lemma ktree_eqb_spec : forall a b, ktree_eqb a b = true <-> a = b.
Proof.
  fix IH 1. intros [v1 k1] [v2 k2]. cbn. rewrite andb_true_iff.
  assert (HK : forall l1 l2,
    (fix go (l1 l2 : list ktree) : bool :=
       match l1, l2 with
       | [], [] => true
       | x :: xs, y :: ys => ktree_eqb x y && go xs ys
       | _, _ => false
       end) l1 l2 = true <-> l1 = l2).
  { clear - IH. induction l1 as [|x xs IHl]; intros [|y ys]; cbn; try (split; [discriminate|discriminate]).
    - split; reflexivity.
    - rewrite andb_true_iff, IH, IHl. split; [intros [-> ->]; reflexivity | intros H; injection H; auto]. }
  rewrite HK. split.
  - intros [Hv ->]. f_equal. apply list_eqb_eq with (e := N.eqb); [apply N.eqb_eq | assumption].
  - intros H. injection H as -> ->. split; [|reflexivity].
    apply list_eqb_refl. apply N.eqb_refl.
Qed.

Lemma cdentry_inj a b : cdentry a = cdentry b -> a = b.
Proof. destruct a, b; cbn; intros H; try discriminate H; injection H; intros; subst; reflexivity. Qed.

Lemma map_inj {A B} (f : A -> B) : (forall a b, f a = f b -> a = b) -> forall l l', map f l = map f l' -> l = l'.
Proof.
  intros Hf. induction l as [|x xs IH]; intros [|y ys]; cbn; intros H; try discriminate; [reflexivity|].
  injection H as H1 H2. f_equal; auto.
Qed.

Lemma cdigest_inj : forall v1 k1 v2 k2, cdigest v1 k1 = cdigest v2 k2 -> v1 = v2 /\ k1 = k2.
Proof.
  unfold cdigest. intros v1 k1 v2 k2 H. injection H as H1 H2. split; [assumption|].
  now apply (map_inj cdentry cdentry_inj).
Qed.

Lemma ccompile_ext : forall t u, rel_eq relevant_kinds t u -> ccompile t = ccompile u.
Proof.
  induction t as [o s ds IH] using tree_ind'. intros u H. inversion H as [o1 o2 s1 s2 d1 d2 Ha Hd]; subst.
  cbn [ccompile]. f_equal.
  - now apply vals_agree.
  - clear H Ha. revert d2 Hd. induction IH as [|x xs Hx _ IHxs]; intros d2 Hd; inversion Hd as [|a b l l' Hab Hl]; subst; cbn [map].
    + reflexivity.
    + f_equal; [|now apply IHxs].
      destruct x as [ox sx dx], b as [oy sy dy]. cbn [tst town] in Hab.
      destruct Hab as [(I1 & I2 & E1 & E2) | (I1 & I2 & R)]; rewrite I1, I2.
      * now rewrite E1, E2.
      * f_equal. f_equal. now apply Hx.
Qed.

Lemma concrete_sound fpk :
  covers fpk (KDeps :: relevant_kinds) = true ->
  forall m h, crun_cached false fpk m h = crun_clean m h.
Proof.
  intros Hc m h. unfold crun_cached, crun_clean.
  apply cache_sound_lemma with (relevant := relevant_kinds);
    auto using ktree_eqb_spec, cdigest_inj, ccompile_ext, module_version_faithful.
Qed.

Lemma outs_eqb_refl x : outs_eqb x x = true.
Proof.
  unfold outs_eqb. apply list_eqb_refl. intros a. apply list_eqb_refl.
  intros k. now apply ktree_eqb_spec.
Qed.

Lemma concrete_not_stale fpk :
  covers fpk (KDeps :: relevant_kinds) = true -> forall mh, stale fpk mh = false.
Proof.
  intros Hc [m h]. unfold stale, stale_pol. cbn [fst snd]. rewrite (concrete_sound fpk Hc). now rewrite outs_eqb_refl.
Qed.

Lemma concrete_uncovered_stale fpk k :
  In k relevant_kinds -> ~ In k fpk ->
  crun_cached false fpk (one_pkg (base_inputs 7)) [Build; EditPkg 0 k 1%N; Build]
  <> crun_clean (one_pkg (base_inputs 7)) [Build; EditPkg 0 k 1%N; Build].
Proof.
  intros Hr Hn. unfold crun_cached, crun_clean.
  apply uncovered_stale_lemma; auto using ktree_eqb_spec.
  cbn [ccompile map]. intros H0.
  assert (H : vals relevant_kinds (upd (base_inputs 7) k 1%N) = vals relevant_kinds (base_inputs 7))
    by exact (f_equal (fun t => match t with K vs _ => vs end) H0).
  apply vals_agree in H. specialize (H k Hr).
  rewrite upd_same in H. destruct k; cbn in H; try discriminate H.
Qed.
