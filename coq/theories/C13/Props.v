(* C13 - property theorems only. *)
From LLGoV Require Import C13.Model C13.Proofs.

(* The build cache never serves stale code, provided the manifest covers every kind of
   input the compiler looks at (and the dependency section):
   for every module, every history of edits / builds / cache clears, each Build that may
   reuse cached archives yields exactly the artifacts of a clean build of the same sources.
   Premises (all explicit, none is an axiom): sha256 of the manifest has no collisions
   ([digest] injective), key comparison is equality, the compiler depends only on the
   [relevant] kinds of a package and of the packages it imports.
   The premise [covers fp_kinds (KDeps :: relevant)] for the real tree is a generated
   obligation: check.py extracts fp_kinds from collect.go/fingerprint.go on every run. *)
Theorem cache_sound :
  forall (key artifact : Type) (key_eqb : key -> key -> bool)
         (digest : list value -> list key -> key) (compile : tree -> artifact)
         (fp_kinds relevant : list kind),
    (forall a b, key_eqb a b = true <-> a = b) ->
    (forall v1 k1 v2 k2, digest v1 k1 = digest v2 k2 -> v1 = v2 /\ k1 = k2) ->
    (forall t u, rel_eq relevant t u -> compile t = compile u) ->
    covers fp_kinds (KDeps :: relevant) = true ->
    forall (h : list step) (m : module),
      run_cached key artifact key_eqb digest compile fp_kinds m [] h
      = run_clean artifact compile m h.
Proof. intros. eapply cache_sound_lemma; eassumption. Qed.
Print Assumptions cache_sound.

(* the same, started from any cache whose entries were produced by earlier builds *)
Theorem cache_sound_any_cache :
  forall (key artifact : Type) (key_eqb : key -> key -> bool)
         (digest : list value -> list key -> key) (compile : tree -> artifact)
         (fp_kinds relevant : list kind),
    (forall a b, key_eqb a b = true <-> a = b) ->
    (forall v1 k1 v2 k2, digest v1 k1 = digest v2 k2 -> v1 = v2 /\ k1 = k2) ->
    (forall t u, rel_eq relevant t u -> compile t = compile u) ->
    covers fp_kinds (KDeps :: relevant) = true ->
    forall (h : list step) (m : module) (c : cache key artifact),
      cache_ok key artifact digest compile fp_kinds c ->
      run_cached key artifact key_eqb digest compile fp_kinds m c h
      = run_clean artifact compile m h.
Proof. intros. eapply cache_sound_gen; eassumption. Qed.
Print Assumptions cache_sound_any_cache.

(* Converse (refutation schema): a kind the manifest does not contain, on which the compiler
   output really depends, gives a history  Build; edit that kind; Build  whose second,
   cache-warm build differs from the clean build. *)
Theorem uncovered_kind_stale :
  forall (key artifact : Type) (key_eqb : key -> key -> bool)
         (digest : list value -> list key -> key) (compile : tree -> artifact)
         (fp_kinds : list kind) (k : kind) (i : inputs) (v : value),
    (forall a b, key_eqb a b = true <-> a = b) ->
    ~ In k fp_kinds ->
    compile (Node (upd i k v) []) <> compile (Node i []) ->
    exists (m : module) (h : list step),
      run_cached key artifact key_eqb digest compile fp_kinds m [] h
      <> run_clean artifact compile m h.
Proof.
  intros. exists (one_pkg i), [Build; EditPkg 0 k v; Build].
  now apply uncovered_stale_lemma.
Qed.
Print Assumptions uncovered_kind_stale.

(* Fingerprints are transitive over the import graph: if two versions of a package have
   the same fingerprint, then so have the versions of every package at the same position
   below them - contrapositive: a changed fingerprint anywhere in the transitive imports
   changes the fingerprint of the importer. *)
Theorem dep_change_propagates :
  forall (key : Type) (digest : list value -> list key -> key) (fp_kinds : list kind),
    (forall v1 k1 v2 k2, digest v1 k1 = digest v2 k2 -> v1 = v2 /\ k1 = k2) ->
    memk KDeps fp_kinds = true ->
    forall t t' u u', sub_pair t t' u u' ->
      fp key digest fp_kinds u <> fp key digest fp_kinds u' ->
      fp key digest fp_kinds t <> fp key digest fp_kinds t'.
Proof.
  intros key digest fpk Hinj HD t t' u u' S Hne E. apply Hne.
  eapply dep_fp_lemma; eassumption.
Qed.
Print Assumptions dep_change_propagates.

(* [covers] fails exactly when [uncovered] names a kind: the generated obligation reports
   the missing kinds *)
Theorem covers_iff_none_uncovered :
  forall have need, covers have need = true <-> uncovered have need = [].
Proof. exact covers_uncovered_nil. Qed.
Print Assumptions covers_iff_none_uncovered.

Theorem uncovered_exact :
  forall have need k, In k (uncovered have need) <-> In k need /\ ~ In k have.
Proof. exact uncovered_spec. Qed.
Print Assumptions uncovered_exact.

(* The premises are satisfiable: the structural digest and the most discriminating compiler
   (its output records all relevant inputs of the package and its imports).  For this
   instance a covering manifest never goes stale, on any module and history ... *)
Theorem concrete_cache_sound :
  forall fpk, covers fpk (KDeps :: relevant_kinds) = true ->
    forall mh, stale fpk mh = false.
Proof. exact concrete_not_stale. Qed.
Print Assumptions concrete_cache_sound.

(* ... and every relevant kind missing from the manifest has a stale history. *)
Theorem concrete_uncovered_kind_stale :
  forall fpk k, In k relevant_kinds -> ~ In k fpk ->
    exists m h, crun_cached fpk m h <> crun_clean m h.
Proof.
  intros fpk k Hr Hn. eexists; eexists. now apply (concrete_uncovered_stale fpk k).
Qed.
Print Assumptions concrete_uncovered_kind_stale.

(* a manifest with every kind covers *)
Example full_manifest_covers : covers all_kinds (KDeps :: relevant_kinds) = true.
Proof. reflexivity. Qed.

(* the manifest of the pinned tree (F9: no embedded files, no LLGoFiles C files, no
   expanded environment, stat-only file digests) on the 4-package module of the harness
   main -> a -> b -> c:  editing the embedded file of package a goes stale, editing the
   Go file of c does not and re-fingerprints a through b. *)
Definition pinned_manifest : list kind :=
  [KPkgId; KGoFiles; KAltGoFiles; KOtherFiles; KTags; KRewrites; KOptLevel; KAbiMode;
   KEnvListed; KTarget; KToolchain; KCompiler; KDeps].

Example pinned_uncovered :
  uncovered pinned_manifest (KDeps :: relevant_kinds)
  = [KEmbedFiles; KSideCFiles; KSameStatContent; KEnvExpand].
Proof. reflexivity. Qed.

Example embed_edit_stale :
  stale pinned_manifest (e2e_module, [Build; EditPkg 1 KEmbedFiles 1%N; Build]) = true.
Proof. reflexivity. Qed.

Example transitive_edit_fresh :
  stale pinned_manifest (e2e_module, [Build; Build; EditPkg 3 KGoFiles 1%N; Build; ClearCache; Build]) = false.
Proof. reflexivity. Qed.

Example transitive_edit_stale_without_deps :
  stale (filter (fun k => negb (kind_eqb k KDeps)) pinned_manifest)
        (e2e_module, [Build; EditPkg 3 KGoFiles 1%N; Build]) = true.
Proof. reflexivity. Qed.

Example transitive_fp_changes :
  let ts := trees e2e_module in
  let ts' := trees (edit_pkg e2e_module 3 KGoFiles 1%N) in
  ktree_eqb (fp ktree cdigest pinned_manifest (nth 1 ts leaf))
            (fp ktree cdigest pinned_manifest (nth 1 ts' leaf)) = false.
Proof. reflexivity. Qed.
