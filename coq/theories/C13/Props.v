(* C13 - property theorems only. *)
From LLGoV Require Import C13.Model C13.Proofs.

(* The build cache never serves stale code, provided the manifest covers every kind of
   input the compiler looks at (and the dependency section):
   for every module, every history of edits / builds / cache clears, each Build that may
   reuse cached archives yields exactly the artifacts of a clean build of the same sources.
   Premises (all explicit, none is an axiom): sha256 of the manifest has no collisions
   ([digest] injective), key comparison is equality, the compiler depends only on the
   [relevant] kinds of a package and of the mutable packages it imports and on (id, version)
   of the immutable ones (module cache), and moduleVersion ([ver_of]) yields a version exactly
   for the immutable modules - a module replaced by a local directory is NOT one of them.
   The premise [covers fp_kinds (KDeps :: relevant)] for the real tree is a generated
   obligation: check.py extracts fp_kinds from collect.go/fingerprint.go on every run. *)
Theorem cache_sound :
  forall (key artifact : Type) (key_eqb : key -> key -> bool)
         (digest : list value -> list (dentry key) -> key) (compile : tree -> artifact)
         (fp_kinds relevant : list kind) (ver_of : modst -> option value),
    (forall a b, key_eqb a b = true <-> a = b) ->
    (forall v1 k1 v2 k2, digest v1 k1 = digest v2 k2 -> v1 = v2 /\ k1 = k2) ->
    (forall t u, rel_eq relevant t u -> compile t = compile u) ->
    covers fp_kinds (KDeps :: relevant) = true ->
    (forall s, ver_of s = if immutable s then Some (mver s) else None) ->
    forall (h : list step) (m : module),
      run_cached key artifact key_eqb digest compile fp_kinds ver_of m [] h
      = run_clean artifact compile m h.
Proof. intros. eapply cache_sound_lemma; eassumption. Qed.
Print Assumptions cache_sound.

(* the same, started from any cache whose entries were produced by earlier builds *)
Theorem cache_sound_any_cache :
  forall (key artifact : Type) (key_eqb : key -> key -> bool)
         (digest : list value -> list (dentry key) -> key) (compile : tree -> artifact)
         (fp_kinds relevant : list kind) (ver_of : modst -> option value),
    (forall a b, key_eqb a b = true <-> a = b) ->
    (forall v1 k1 v2 k2, digest v1 k1 = digest v2 k2 -> v1 = v2 /\ k1 = k2) ->
    (forall t u, rel_eq relevant t u -> compile t = compile u) ->
    covers fp_kinds (KDeps :: relevant) = true ->
    (forall s, ver_of s = if immutable s then Some (mver s) else None) ->
    forall (h : list step) (m : module) (c : cache key artifact),
      cache_ok key artifact digest compile fp_kinds ver_of c ->
      run_cached key artifact key_eqb digest compile fp_kinds ver_of m c h
      = run_clean artifact compile m h.
Proof. intros. eapply cache_sound_gen; eassumption. Qed.
Print Assumptions cache_sound_any_cache.

(* Converse (refutation schema): a kind the manifest does not contain, on which the compiler
   output really depends, gives a history  Build; edit that kind; Build  whose second,
   cache-warm build differs from the clean build. *)
Theorem uncovered_kind_stale :
  forall (key artifact : Type) (key_eqb : key -> key -> bool)
         (digest : list value -> list (dentry key) -> key) (compile : tree -> artifact)
         (fp_kinds : list kind) (ver_of : modst -> option value) (k : kind) (i : inputs) (v : value),
    (forall a b, key_eqb a b = true <-> a = b) ->
    ~ In k fp_kinds ->
    compile (Node (upd i k v) MMain []) <> compile (Node i MMain []) ->
    exists (m : module) (h : list step),
      run_cached key artifact key_eqb digest compile fp_kinds ver_of m [] h
      <> run_clean artifact compile m h.
Proof.
  intros. exists (one_pkg i), [Build; EditPkg 0 k v; Build].
  now apply uncovered_stale_lemma.
Qed.
Print Assumptions uncovered_kind_stale.

(* Fingerprints are transitive over the import graph: if two versions of a package have
   the same fingerprint, then so have the versions of every package at the same position
   below them that is reached through dependencies recorded by fingerprint - contrapositive:
   a changed fingerprint anywhere in the mutable transitive imports changes the fingerprint
   of the importer. *)
Theorem dep_change_propagates :
  forall (key : Type) (digest : list value -> list (dentry key) -> key) (fp_kinds : list kind)
         (ver_of : modst -> option value),
    (forall v1 k1 v2 k2, digest v1 k1 = digest v2 k2 -> v1 = v2 /\ k1 = k2) ->
    memk KDeps fp_kinds = true ->
    forall t t' u u', sub_pair ver_of t t' u u' ->
      fp key digest fp_kinds ver_of u <> fp key digest fp_kinds ver_of u' ->
      fp key digest fp_kinds ver_of t <> fp key digest fp_kinds ver_of t'.
Proof.
  intros key digest fpk ver_of Hinj HD t t' u u' S Hne E. apply Hne.
  eapply dep_fp_lemma; eassumption.
Qed.
Print Assumptions dep_change_propagates.

(* Any edit of a file of a mutable dependency changes the manifest of every transitive
   importer: with the moduleVersion of the tree (module_version false: main module,
   workspace and DIRECTORY-replaced modules have no version), if u' is u with one input of a
   kind the manifest contains changed, and u sits below t through mutable packages only,
   then the fingerprint of t changes - the importer is a cache miss. *)
Theorem mutable_dep_edit_changes_importers :
  forall (key : Type) (digest : list value -> list (dentry key) -> key) (fp_kinds : list kind),
    (forall v1 k1 v2 k2, digest v1 k1 = digest v2 k2 -> v1 = v2 /\ k1 = k2) ->
    memk KDeps fp_kinds = true ->
    forall t t' o s ds k v,
      sub_pair (module_version false) t t' (Node o s ds) (Node (upd o k v) s ds) ->
      In k fp_kinds -> v <> o k ->
      fp key digest fp_kinds (module_version false) t <> fp key digest fp_kinds (module_version false) t'.
Proof.
  intros key digest fpk Hinj HD t t' o s ds k v S Hk Hv.
  eapply dep_change_propagates; try eassumption.
  intros E. eapply edit_changes_fp; try eassumption. symmetry. exact E.
Qed.
Print Assumptions mutable_dep_edit_changes_importers.

(* the positions reached through main-module / directory-replaced packages qualify *)
Theorem mutable_means_fingerprinted :
  forall s, immutable s = false <-> module_version false s = None.
Proof. intros s; destruct s; cbn; split; intros H; try reflexivity; discriminate H. Qed.
Print Assumptions mutable_means_fingerprinted.

(* Converse (refutation schema for the policy): a dependency that moduleVersion records by
   version only can be edited without its importer's fingerprint changing - so a policy that
   gives a version to an editable (directory-replaced) module serves its importers stale. *)
Theorem version_only_dep_edit_invisible :
  forall (key : Type) (digest : list value -> list (dentry key) -> key) (fp_kinds : list kind)
         (ver_of : modst -> option value) o s o1 s1 x1 k v w rest,
    ver_of s1 = Some w -> k <> KPkgId ->
    fp key digest fp_kinds ver_of (Node o s (Node (upd o1 k v) s1 x1 :: rest))
    = fp key digest fp_kinds ver_of (Node o s (Node o1 s1 x1 :: rest)).
Proof.
  intros. eapply versioned_dep_edit_invisible with (d1 := Node o1 s1 x1); try eassumption. reflexivity.
Qed.
Print Assumptions version_only_dep_edit_invisible.

(* on the two-module scenario of the harness (app: main -> app/mid; lib => ../lib): editing a
   Go file of lib re-fingerprints app/mid and nothing is stale; under the simplified
   moduleVersion (version for a directory replace) app/mid keeps its fingerprint and the
   cache-warm build is stale *)
Theorem dir_replace_fresh :
  refingerprints false (tree_manifest true) e2e_repl_module (EditPkg 2 KGoFiles 1%N) 1 = true
  /\ stale_pol false (tree_manifest true) (e2e_repl_module, [Build; EditPkg 2 KGoFiles 1%N; Build]) = false.
Proof. split; reflexivity. Qed.
Print Assumptions dir_replace_fresh.

Theorem dir_replace_by_version_refuted :
  refingerprints true (tree_manifest true) e2e_repl_module (EditPkg 2 KGoFiles 1%N) 1 = false
  /\ stale_pol true (tree_manifest true) (e2e_repl_module, [Build; EditPkg 2 KGoFiles 1%N; Build]) = true.
Proof. split; reflexivity. Qed.
Print Assumptions dir_replace_by_version_refuted.

(* a versioned replace is identified by the version it is replaced with: switching it
   re-fingerprints the importer *)
Example versioned_replace_switch :
  ktree_eqb (cfp false (tree_manifest true) (e2e_replver_module 2%N) 1)
            (cfp false (tree_manifest true) (e2e_replver_module 3%N) 1) = false.
Proof. reflexivity. Qed.

(* [covers] fails exactly when [uncovered] names a kind: the generated obligation reports
   the missing kinds *)
Theorem covers_iff_none_uncovered :
  forall have need, covers have need = true <-> uncovered have need = [].
Proof. exact covers_uncovered_nil. Qed.
Print Assumptions covers_iff_none_uncovered.

Theorem uncovered_exact :
  forall have need k, In k (uncovered have need) <-> In k need /\ ~ In k have.
Proof. exact uncovered_spec. Qed.
Print Assumptions uncovered_exact.

(* The premises are satisfiable: the structural digest and the most discriminating compiler
   (its output records all relevant inputs of the package and its imports).  For this
   instance a covering manifest never goes stale, on any module and history ... *)
Theorem concrete_cache_sound :
  forall fpk, covers fpk (KDeps :: relevant_kinds) = true ->
    forall mh, stale fpk mh = false.
Proof. exact concrete_not_stale. Qed.
Print Assumptions concrete_cache_sound.

(* ... and every relevant kind missing from the manifest has a stale history. *)
Theorem concrete_uncovered_kind_stale :
  forall fpk k, In k relevant_kinds -> ~ In k fpk ->
    exists m h, crun_cached false fpk m h <> crun_clean m h.
Proof.
  intros fpk k Hr Hn. eexists; eexists. now apply (concrete_uncovered_stale fpk k).
Qed.
Print Assumptions concrete_uncovered_kind_stale.

(* a manifest with every kind covers *)
Example full_manifest_covers : covers all_kinds (KDeps :: relevant_kinds) = true.
Proof. reflexivity. Qed.

(* ---------- the manifest of the real tree ----------
   [tree_manifest fixed]: the kinds collect.go / fingerprint.go put into the manifest.
   fixed = true is the code that exists now (after the four C13 fixes: embedded files by
   content, the C files named by LLGoFiles, the flags the LLGoFiles prefix expands to, and a
   sha256 of every on-disk source file next to path/size/mtime); fixed = false is the tree
   before them (F9).  check.py re-derives the list from the sources on every run and Coq
   checks the generated list against [covers].  ([tree_manifest] is defined in Model.v.) *)
(* the fixed manifest covers every relevant kind and the dependency section ... *)
Theorem fixed_manifest_covers : covers (tree_manifest true) (KDeps :: relevant_kinds) = true.
Proof. reflexivity. Qed.
Print Assumptions fixed_manifest_covers.

(* ... so (concrete instance) no module and no history of edits, builds and cache clears
   goes stale with it *)
Theorem fixed_manifest_never_stale : forall mh, stale (tree_manifest true) mh = false.
Proof. exact (concrete_not_stale _ fixed_manifest_covers). Qed.
Print Assumptions fixed_manifest_never_stale.

(* and for every digest / compiler satisfying the premises of cache_sound *)
Theorem fixed_manifest_cache_sound :
  forall (key artifact : Type) (key_eqb : key -> key -> bool)
         (digest : list value -> list (dentry key) -> key) (compile : tree -> artifact),
    (forall a b, key_eqb a b = true <-> a = b) ->
    (forall v1 k1 v2 k2, digest v1 k1 = digest v2 k2 -> v1 = v2 /\ k1 = k2) ->
    (forall t u, rel_eq relevant_kinds t u -> compile t = compile u) ->
    forall (h : list step) (m : module),
      run_cached key artifact key_eqb digest compile (tree_manifest true) (module_version false) m [] h
      = run_clean artifact compile m h.
Proof.
  intros. eapply cache_sound_lemma; try eassumption.
  - exact fixed_manifest_covers.
  - exact module_version_faithful.
Qed.
Print Assumptions fixed_manifest_cache_sound.

(* the tree before the fixes: four relevant kinds were missing, and each had a stale
   history (the four recorded findings; each was confirmed end to end) *)
Theorem prefix_manifest_uncovered :
  uncovered (tree_manifest false) (KDeps :: relevant_kinds)
  = [KEmbedFiles; KSideCFiles; KSameStatContent; KEnvExpand].
Proof. reflexivity. Qed.
Print Assumptions prefix_manifest_uncovered.

Theorem prefix_manifest_stale :
  forall k, In k [KEmbedFiles; KSideCFiles; KSameStatContent; KEnvExpand] ->
    stale (tree_manifest false) (e2e_module, [Build; EditPkg 1 k 1%N; Build]) = true.
Proof. intros k [<-|[<-|[<-|[<-|[]]]]]; reflexivity. Qed.
Print Assumptions prefix_manifest_stale.

(* the same four histories on the harness module main -> a -> b -> c are fresh now *)
Example fixed_histories_fresh :
  forallb (fun k => negb (stale (tree_manifest true) (e2e_module, [Build; EditPkg 1 k 1%N; Build])))
          [KEmbedFiles; KSideCFiles; KSameStatContent; KEnvExpand] = true.
Proof. reflexivity. Qed.

Definition pinned_manifest : list kind := tree_manifest false.

Example embed_edit_stale :
  stale pinned_manifest (e2e_module, [Build; EditPkg 1 KEmbedFiles 1%N; Build]) = true.
Proof. reflexivity. Qed.

Example transitive_edit_fresh :
  stale pinned_manifest (e2e_module, [Build; Build; EditPkg 3 KGoFiles 1%N; Build; ClearCache; Build]) = false.
Proof. reflexivity. Qed.

Example transitive_edit_stale_without_deps :
  stale (filter (fun k => negb (kind_eqb k KDeps)) pinned_manifest)
        (e2e_module, [Build; EditPkg 3 KGoFiles 1%N; Build]) = true.
Proof. reflexivity. Qed.

Example transitive_fp_changes :
  let ts := trees e2e_module in
  let ts' := trees (edit_pkg e2e_module 3 KGoFiles 1%N) in
  ktree_eqb (fp ktree cdigest pinned_manifest (module_version false) (nth 1 ts leaf))
            (fp ktree cdigest pinned_manifest (module_version false) (nth 1 ts' leaf)) = false.
Proof. reflexivity. Qed.
