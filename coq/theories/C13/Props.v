(* C13 - property theorems only. *)
From LLGoV Require Import C13.Model C13.Proofs.

(* The build cache never serves stale code, provided the manifest covers every kind of
   input the compiler looks at (and the dependency section):
   for every module, every history of edits / builds / cache clears, each Build that may
   reuse cached archives yields exactly the artifacts of a clean build of the same sources.
   Premises (all explicit, none is an axiom): sha256 of the manifest has no collisions
   ([digest] injective), key comparison is equality, the compiler depends only on the
   [relevant] kinds of a package and of the packages it imports.
   The premise [covers fp_kinds (KDeps :: relevant)] for the real tree is a generated
   obligation: check.py extracts fp_kinds from collect.go/fingerprint.go on every run. *)
Theorem cache_sound :
  forall (key artifact : Type) (key_eqb : key -> key -> bool)
         (digest : list value -> list key -> key) (compile : tree -> artifact)
         (fp_kinds relevant : list kind),
    (forall a b, key_eqb a b = true <-> a = b) ->
    (forall v1 k1 v2 k2, digest v1 k1 = digest v2 k2 -> v1 = v2 /\ k1 = k2) ->
    (forall t u, rel_eq relevant t u -> compile t = compile u) ->
    covers fp_kinds (KDeps :: relevant) = true ->
    forall (h : list step) (m : module),
      run_cached key artifact key_eqb digest compile fp_kinds m [] h
      = run_clean artifact compile m h.
Proof. intros. eapply cache_sound_lemma; eassumption. Qed.
Print Assumptions cache_sound.

(* the same, started from any cache whose entries were produced by earlier builds *)
Theorem cache_sound_any_cache :
  forall (key artifact : Type) (key_eqb : key -> key -> bool)
         (digest : list value -> list key -> key) (compile : tree -> artifact)
         (fp_kinds relevant : list kind),
    (forall a b, key_eqb a b = true <-> a = b) ->
    (forall v1 k1 v2 k2, digest v1 k1 = digest v2 k2 -> v1 = v2 /\ k1 = k2) ->
    (forall t u, rel_eq relevant t u -> compile t = compile u) ->
    covers fp_kinds (KDeps :: relevant) = true ->
    forall (h : list step) (m : module) (c : cache key artifact),
      cache_ok key artifact digest compile fp_kinds c ->
      run_cached key artifact key_eqb digest compile fp_kinds m c h
      = run_clean artifact compile m h.
Proof. intros. eapply cache_sound_gen; eassumption. Qed.
Print Assumptions cache_sound_any_cache.

(* Converse (refutation schema): a kind the manifest does not contain, on which the compiler
   output really depends, gives a history  Build; edit that kind; Build  whose second,
   cache-warm build differs from the clean build. *)
Theorem uncovered_kind_stale :
  forall (key artifact : Type) (key_eqb : key -> key -> bool)
         (digest : list value -> list key -> key) (compile : tree -> artifact)
         (fp_kinds : list kind) (k : kind) (i : inputs) (v : value),
    (forall a b, key_eqb a b = true <-> a = b) ->
    ~ In k fp_kinds ->
    compile (Node (upd i k v) []) <> compile (Node i []) ->
    exists (m : module) (h : list step),
      run_cached key artifact key_eqb digest compile fp_kinds m [] h
      <> run_clean artifact compile m h.
Proof.
  intros. exists (one_pkg i), [Build; EditPkg 0 k v; Build].
  now apply uncovered_stale_lemma.
Qed.
Print Assumptions uncovered_kind_stale.

(* Fingerprints are transitive over the import graph: if two versions of a package have
   the same fingerprint, then so have the versions of every package at the same position
   below them - contrapositive: a changed fingerprint anywhere in the transitive imports
   changes the fingerprint of the importer. *)
Theorem dep_change_propagates :
  forall (key : Type) (digest : list value -> list key -> key) (fp_kinds : list kind),
    (forall v1 k1 v2 k2, digest v1 k1 = digest v2 k2 -> v1 = v2 /\ k1 = k2) ->
    memk KDeps fp_kinds = true ->
    forall t t' u u', sub_pair t t' u u' ->
      fp key digest fp_kinds u <> fp key digest fp_kinds u' ->
      fp key digest fp_kinds t <> fp key digest fp_kinds t'.
Proof.
  intros key digest fpk Hinj HD t t' u u' S Hne E. apply Hne.
  eapply dep_fp_lemma; eassumption.
Qed.
Print Assumptions dep_change_propagates.

(* [covers] fails exactly when [uncovered] names a kind: the generated obligation reports
   the missing kinds *)
Theorem covers_iff_none_uncovered :
  forall have need, covers have need = true <-> uncovered have need = [].
Proof. exact covers_uncovered_nil. Qed.
Print Assumptions covers_iff_none_uncovered.

Theorem uncovered_exact :
  forall have need k, In k (uncovered have need) <-> In k need /\ ~ In k have.
Proof. exact uncovered_spec. Qed.
Print Assumptions uncovered_exact.

(* The premises are satisfiable: the structural digest and the most discriminating compiler
   (its output records all relevant inputs of the package and its imports).  For this
   instance a covering manifest never goes stale, on any module and history ... *)
Theorem concrete_cache_sound :
  forall fpk, covers fpk (KDeps :: relevant_kinds) = true ->
    forall mh, stale fpk mh = false.
Proof. exact concrete_not_stale. Qed.
Print Assumptions concrete_cache_sound.

(* ... and every relevant kind missing from the manifest has a stale history. *)
Theorem concrete_uncovered_kind_stale :
  forall fpk k, In k relevant_kinds -> ~ In k fpk ->
    exists m h, crun_cached fpk m h <> crun_clean m h.
Proof.
  intros fpk k Hr Hn. eexists; eexists. now apply (concrete_uncovered_stale fpk k).
Qed.
Print Assumptions concrete_uncovered_kind_stale.

(* a manifest with every kind covers *)
Example full_manifest_covers : covers all_kinds (KDeps :: relevant_kinds) = true.
Proof. reflexivity. Qed.

(* ---------- the manifest of the real tree ----------
   [tree_manifest fixed]: the kinds collect.go / fingerprint.go put into the manifest.
   fixed = true is the code that exists now (after the four C13 fixes: embedded files by
   content, the C files named by LLGoFiles, the flags the LLGoFiles prefix expands to, and a
   sha256 of every on-disk source file next to path/size/mtime); fixed = false is the tree
   before them (F9).  check.py re-derives the list from the sources on every run and Coq
   checks the generated list against [covers].  ([tree_manifest] is defined in Model.v.) *)
(* the fixed manifest covers every relevant kind and the dependency section ... *)
Theorem fixed_manifest_covers : covers (tree_manifest true) (KDeps :: relevant_kinds) = true.
Proof. reflexivity. Qed.
Print Assumptions fixed_manifest_covers.

(* ... so (concrete instance) no module and no history of edits, builds and cache clears
   goes stale with it *)
Theorem fixed_manifest_never_stale : forall mh, stale (tree_manifest true) mh = false.
Proof. exact (concrete_not_stale _ fixed_manifest_covers). Qed.
Print Assumptions fixed_manifest_never_stale.

(* and for every digest / compiler satisfying the premises of cache_sound *)
Theorem fixed_manifest_cache_sound :
  forall (key artifact : Type) (key_eqb : key -> key -> bool)
         (digest : list value -> list key -> key) (compile : tree -> artifact),
    (forall a b, key_eqb a b = true <-> a = b) ->
    (forall v1 k1 v2 k2, digest v1 k1 = digest v2 k2 -> v1 = v2 /\ k1 = k2) ->
    (forall t u, rel_eq relevant_kinds t u -> compile t = compile u) ->
    forall (h : list step) (m : module),
      run_cached key artifact key_eqb digest compile (tree_manifest true) m [] h
      = run_clean artifact compile m h.
Proof.
  intros. eapply cache_sound_lemma; try eassumption. exact fixed_manifest_covers.
Qed.
Print Assumptions fixed_manifest_cache_sound.

(* the tree before the fixes: four relevant kinds were missing, and each had a stale
   history (the four recorded findings; each was confirmed end to end) *)
Theorem prefix_manifest_uncovered :
  uncovered (tree_manifest false) (KDeps :: relevant_kinds)
  = [KEmbedFiles; KSideCFiles; KSameStatContent; KEnvExpand].
Proof. reflexivity. Qed.
Print Assumptions prefix_manifest_uncovered.

Theorem prefix_manifest_stale :
  forall k, In k [KEmbedFiles; KSideCFiles; KSameStatContent; KEnvExpand] ->
    stale (tree_manifest false) (e2e_module, [Build; EditPkg 1 k 1%N; Build]) = true.
Proof. intros k [<-|[<-|[<-|[<-|[]]]]]; reflexivity. Qed.
Print Assumptions prefix_manifest_stale.

(* the same four histories on the harness module main -> a -> b -> c are fresh now *)
Example fixed_histories_fresh :
  forallb (fun k => negb (stale (tree_manifest true) (e2e_module, [Build; EditPkg 1 k 1%N; Build])))
          [KEmbedFiles; KSideCFiles; KSameStatContent; KEnvExpand] = true.
Proof. reflexivity. Qed.

Definition pinned_manifest : list kind := tree_manifest false.

Example embed_edit_stale :
  stale pinned_manifest (e2e_module, [Build; EditPkg 1 KEmbedFiles 1%N; Build]) = true.
Proof. reflexivity. Qed.

Example transitive_edit_fresh :
  stale pinned_manifest (e2e_module, [Build; Build; EditPkg 3 KGoFiles 1%N; Build; ClearCache; Build]) = false.
Proof. reflexivity. Qed.

Example transitive_edit_stale_without_deps :
  stale (filter (fun k => negb (kind_eqb k KDeps)) pinned_manifest)
        (e2e_module, [Build; EditPkg 3 KGoFiles 1%N; Build]) = true.
Proof. reflexivity. Qed.

Example transitive_fp_changes :
  let ts := trees e2e_module in
  let ts' := trees (edit_pkg e2e_module 3 KGoFiles 1%N) in
  ktree_eqb (fp ktree cdigest pinned_manifest (nth 1 ts leaf))
            (fp ktree cdigest pinned_manifest (nth 1 ts' leaf)) = false.
Proof. reflexivity. Qed.
