(* C05 - lemmas about the string model (StrModel.v). *)
From LLGoV Require Import C05.Model C05.StrModel C05.Proofs.
Local Open Scope Z_scope.

(* ---------- masks and shifts as arithmetic ---------- *)

Lemma land_disjoint a n c : 0 <= n -> 0 <= c < 2 ^ n -> Z.land (a * 2 ^ n) c = 0.
Proof.
  intros Hn Hc. apply Z.bits_inj'. intros i Hi. rewrite Z.land_spec, Z.bits_0.
  destruct (Z.lt_ge_cases i n).
  - now rewrite Z.mul_pow2_bits_low.
  - destruct (Z.eq_dec c 0) as [->|N]; [now rewrite Z.bits_0, andb_false_r|].
    rewrite (Z.bits_above_log2 c i), andb_false_r; auto; try lia.
    apply Z.log2_lt_pow2; try lia.
    apply Z.lt_le_trans with (2 ^ n); try lia. apply Z.pow_le_mono_r; lia.
Qed.

Lemma lor_shiftl_add a n c : 0 <= n -> 0 <= c < 2 ^ n -> Z.lor (Z.shiftl a n) c = a * 2 ^ n + c.
Proof.
  intros Hn Hc. rewrite Z.shiftl_mul_pow2 by auto.
  pose proof (land_disjoint a n c Hn Hc) as D.
  rewrite (Z.add_nocarry_lxor _ _ D). symmetry. now apply Z.lxor_lor.
Qed.

Lemma lor_const_add k n c : 0 <= n -> 0 <= c < 2 ^ n -> Z.lor (k * 2 ^ n) c = k * 2 ^ n + c.
Proof.
  intros Hn Hc. pose proof (land_disjoint k n c Hn Hc) as D.
  rewrite (Z.add_nocarry_lxor _ _ D). symmetry. now apply Z.lxor_lor.
Qed.

(* finite sweeps over one byte, lifted with forallb_forall *)
Definition bytes256 : list Z := map Z.of_nat (seq 0 256).

Lemma in_bytes256 b : 0 <= b < 256 -> In b bytes256.
Proof.
  intros. unfold bytes256. apply in_map_iff. exists (Z.to_nat b). split; [lia|].
  apply in_seq. lia.
Qed.

Lemma sweep (P : Z -> bool) : forallb P bytes256 = true -> forall b, 0 <= b < 256 -> P b = true.
Proof. intros H b Hb. eapply forallb_forall in H; eauto. now apply in_bytes256. Qed.

Definition mask_ok (b : Z) : bool :=
  (Z.land b maskx =? b mod 64) && (Z.land b mask2 =? b mod 32)
  && (Z.land b mask3 =? b mod 16) && (Z.land b mask4 =? b mod 8).

Lemma masks b : 0 <= b < 256 ->
  Z.land b maskx = b mod 64 /\ Z.land b mask2 = b mod 32 /\ Z.land b mask3 = b mod 16 /\ Z.land b mask4 = b mod 8.
Proof.
  intros Hb. pose proof (sweep mask_ok ltac:(vm_compute; reflexivity) b Hb) as H.
  unfold mask_ok in H. rewrite !andb_true_iff, !Z.eqb_eq in H. tauto.
Qed.

Lemma mod_sub b k q : 0 < k -> q * k <= b < (q + 1) * k -> b mod k = b - q * k.
Proof. intros Hk Hb. symmetry. apply (Z.mod_unique_pos b k q (b - q * k)); lia. Qed.

(* value contributed by a continuation byte *)
Lemma cont_val b : 0 <= b < 256 -> cont b = true -> Z.land b maskx = b - 128 /\ 128 <= b <= 191.
Proof.
  intros Hb Hc. unfold cont, locb, hicb in Hc. apply andb_true_iff in Hc as [H1 H2].
  apply Z.leb_le in H1, H2. destruct (masks b Hb) as (M & _). rewrite M.
  split; [|lia]. apply (mod_sub b 64 2); lia.
Qed.

Lemma cont_iff b : cont b = in_rng 128 191 b.
Proof. reflexivity. Qed.

Definition spec_dec (s : list Z) : Z * Z :=
  match spec_decode s with Some rw => rw | None => (runeError, 1) end.

Definition is_byte (b : Z) : Prop := 0 <= b < 256.

Ltac bool_cases :=
  repeat (match goal with
          | |- context [Z.eqb ?a ?b] => destruct (Z.eqb_spec a b)
          | |- context [Z.leb ?a ?b] => destruct (Z.leb_spec a b)
          | |- context [Z.ltb ?a ?b] => destruct (Z.ltb_spec a b)
          end; cbn [andb orb negb]; try lia).

Lemma dec2 b0 b1 t : is_byte b0 -> is_byte b1 -> 192 <= b0 < 224 ->
  dec_at (b0 :: b1 :: t) = spec_dec (b0 :: b1 :: t).
Proof.
  unfold is_byte. intros H0 H1 L.
  unfold dec_at, spec_dec, spec_decode, t2, t3, in_rng.
  destruct (Z.leb_spec 192 b0); try lia. destruct (Z.ltb_spec b0 224); try lia. cbn [andb].
  destruct (Z.leb_spec 0 b0); try lia. destruct (Z.leb_spec b0 127); try lia. cbn [andb].
  destruct (cont b1) eqn:C.
  - destruct (cont_val b1 H1 C) as (V & R). rewrite V.
    destruct (masks b0 H0) as (_ & M & _). rewrite M, (mod_sub b0 32 6) by lia.
    rewrite lor_shiftl_add by (change (2 ^ 6) with 64; lia). change (2 ^ 6) with 64.
    unfold rune1Max, runeError. bool_cases; try reflexivity; f_equal; lia.
  - rewrite cont_iff in C. unfold in_rng in C. rewrite C.
    bool_cases; reflexivity.
Qed.

Lemma dec3 b0 b1 b2 t : is_byte b0 -> is_byte b1 -> is_byte b2 -> 224 <= b0 < 240 ->
  dec_at (b0 :: b1 :: b2 :: t) = spec_dec (b0 :: b1 :: b2 :: t).
Proof.
  unfold is_byte. intros H0 H1 H2 L.
  unfold dec_at, spec_dec, spec_decode, t2, t3, t4, in_rng.
  destruct (Z.leb_spec 192 b0); try lia. destruct (Z.ltb_spec b0 224); try lia. cbn [andb].
  destruct (Z.leb_spec 224 b0); try lia. destruct (Z.ltb_spec b0 240); try lia. cbn [andb].
  destruct (Z.leb_spec 0 b0); try lia. destruct (Z.leb_spec b0 127); try lia. cbn [andb].
  destruct (Z.leb_spec 194 b0); try lia. destruct (Z.leb_spec b0 223); try lia. cbn [andb].
  destruct (Z.leb_spec b0 239); try lia. cbn [andb].
  destruct (cont b1) eqn:C1; [destruct (cont b2) eqn:C2|]; cbn [andb].
  - destruct (cont_val b1 H1 C1) as (V1 & R1). destruct (cont_val b2 H2 C2) as (V2 & R2).
    rewrite V1, V2.
    destruct (masks b0 H0) as (_ & _ & M & _). rewrite M, (mod_sub b0 16 14) by lia.
    rewrite (Z.shiftl_mul_pow2 (b1 - 128) 6) by lia.
    rewrite lor_shiftl_add by (change (2 ^ 12) with 4096; change (2 ^ 6) with 64; lia).
    change (2 ^ 12) with 4096. change (2 ^ 6) with 64.
    replace ((b0 - 14 * 16) * 4096 + (b1 - 128) * 64) with (((b0 - 224) * 64 + (b1 - 128)) * 2 ^ 6)
      by (change (2 ^ 6) with 64; ring).
    rewrite lor_const_add by (change (2 ^ 6) with 64; lia). change (2 ^ 6) with 64.
    unfold rune2Max, runeError, surrogateMin, surrogateMax.
    bool_cases; try reflexivity; f_equal; lia.
  - rewrite cont_iff in C1, C2. unfold in_rng in C1, C2.
    apply andb_true_iff in C1 as [A1 A2]. apply Z.leb_le in A1, A2.
    apply andb_false_iff in C2.
    bool_cases; try reflexivity; destruct C2 as [C2|C2]; (apply Z.leb_gt in C2; lia).
  - rewrite cont_iff in C1. unfold in_rng in C1. apply andb_false_iff in C1.
    bool_cases; try reflexivity; destruct C1 as [C1|C1]; (apply Z.leb_gt in C1; lia).
Qed.

Lemma dec4 b0 b1 b2 b3 t : is_byte b0 -> is_byte b1 -> is_byte b2 -> is_byte b3 -> 240 <= b0 < 248 ->
  dec_at (b0 :: b1 :: b2 :: b3 :: t) = spec_dec (b0 :: b1 :: b2 :: b3 :: t).
Proof.
  unfold is_byte. intros H0 H1 H2 H3 L.
  unfold dec_at, spec_dec, spec_decode, t2, t3, t4, t5, in_rng.
  destruct (Z.leb_spec 192 b0); try lia. destruct (Z.ltb_spec b0 224); try lia. cbn [andb].
  destruct (Z.leb_spec 224 b0); try lia. destruct (Z.ltb_spec b0 240); try lia. cbn [andb].
  destruct (Z.leb_spec 240 b0); try lia. destruct (Z.ltb_spec b0 248); try lia. cbn [andb].
  destruct (Z.leb_spec 0 b0); try lia. destruct (Z.leb_spec b0 127); try lia. cbn [andb].
  destruct (Z.leb_spec 194 b0); try lia. destruct (Z.leb_spec b0 223); try lia. cbn [andb].
  destruct (Z.leb_spec b0 239); try lia. cbn [andb].
  destruct (cont b1) eqn:C1; [destruct (cont b2) eqn:C2; [destruct (cont b3) eqn:C3|]|]; cbn [andb].
  - destruct (cont_val b1 H1 C1) as (V1 & R1). destruct (cont_val b2 H2 C2) as (V2 & R2).
    destruct (cont_val b3 H3 C3) as (V3 & R3). rewrite V1, V2, V3.
    destruct (masks b0 H0) as (_ & _ & _ & M). rewrite M, (mod_sub b0 8 30) by lia.
    rewrite (Z.shiftl_mul_pow2 (b1 - 128) 12), (Z.shiftl_mul_pow2 (b2 - 128) 6) by lia.
    rewrite lor_shiftl_add by (change (2 ^ 18) with 262144; change (2 ^ 12) with 4096; lia).
    change (2 ^ 18) with 262144. change (2 ^ 12) with 4096. change (2 ^ 6) with 64.
    replace ((b0 - 30 * 8) * 262144 + (b1 - 128) * 4096) with (((b0 - 240) * 64 + (b1 - 128)) * 2 ^ 12)
      by (change (2 ^ 12) with 4096; ring).
    rewrite lor_const_add by (change (2 ^ 12) with 4096; lia). change (2 ^ 12) with 4096.
    replace (((b0 - 240) * 64 + (b1 - 128)) * 4096 + (b2 - 128) * 64)
      with ((((b0 - 240) * 64 + (b1 - 128)) * 64 + (b2 - 128)) * 2 ^ 6) by (change (2 ^ 6) with 64; ring).
    rewrite lor_const_add by (change (2 ^ 6) with 64; lia). change (2 ^ 6) with 64.
    unfold rune3Max, runeError, maxRune.
    bool_cases; try reflexivity; f_equal; lia.
  - rewrite cont_iff in C1, C2, C3. unfold in_rng in C1, C2, C3.
    apply andb_true_iff in C1 as [A1 A2]. apply Z.leb_le in A1, A2.
    apply andb_true_iff in C2 as [A3 A4]. apply Z.leb_le in A3, A4.
    apply andb_false_iff in C3.
    bool_cases; try reflexivity; destruct C3 as [C3|C3]; (apply Z.leb_gt in C3; lia).
  - rewrite cont_iff in C1, C2. unfold in_rng in C1, C2.
    apply andb_true_iff in C1 as [A1 A2]. apply Z.leb_le in A1, A2.
    apply andb_false_iff in C2.
    bool_cases; try reflexivity; destruct C2 as [C2|C2]; (apply Z.leb_gt in C2; lia).
  - rewrite cont_iff in C1. unfold in_rng in C1. apply andb_false_iff in C1.
    bool_cases; try reflexivity; destruct C1 as [C1|C1]; (apply Z.leb_gt in C1; lia).
Qed.

(* decoderune's switch agrees with the table of well-formed sequences on every
   byte string whose first byte is not ASCII (its documented precondition) *)
Lemma dec_at_eq_spec s : Forall is_byte s -> (forall b t, s = b :: t -> 128 <= b) ->
  dec_at s = spec_dec s.
Proof.
  intros HB Hhd.
  destruct s as [|b0 s]; [reflexivity|].
  pose proof (Hhd b0 s eq_refl) as H128.
  inversion HB as [|? ? B0 HB1]; subst.
  assert (Hlow : b0 < 192 \/ 248 <= b0 ->
                 dec_at (b0 :: s) = (runeError, 1) /\ spec_dec (b0 :: s) = (runeError, 1)).
  { intros Hr. unfold dec_at, spec_dec, spec_decode, t2, t3, t4, t5, in_rng.
    split; bool_cases; reflexivity. }
  destruct (Z.lt_ge_cases b0 192) as [|G192]; [destruct Hlow as [-> ->]; auto|].
  destruct (Z.lt_ge_cases b0 248) as [L248|]; [|destruct Hlow as [-> ->]; auto]. clear Hlow.
  destruct s as [|b1 s].
  { unfold dec_at, spec_dec, spec_decode, t2, t3, t4, t5, in_rng. bool_cases; reflexivity. }
  inversion HB1 as [|? ? B1 HB2]; subst.
  destruct (Z.lt_ge_cases b0 224); [apply dec2; auto; lia|].
  destruct s as [|b2 s].
  { unfold dec_at, spec_dec, spec_decode, t2, t3, t4, t5, in_rng. bool_cases; reflexivity. }
  inversion HB2 as [|? ? B2 HB3]; subst.
  destruct (Z.lt_ge_cases b0 240); [apply dec3; auto; lia|].
  destruct s as [|b3 s].
  { unfold dec_at, spec_dec, spec_decode, t2, t3, t4, t5, in_rng. bool_cases; reflexivity. }
  inversion HB3 as [|? ? B3 HB4]; subst.
  apply dec4; auto; lia.
Qed.

(* every prefix that is not a well-formed sequence decodes to (RuneError, width 1) *)
Lemma dec_at_invalid s : Forall is_byte s -> (forall b t, s = b :: t -> 128 <= b) ->
  spec_decode s = None -> dec_at s = (runeError, 1).
Proof. intros HB Hhd N. rewrite dec_at_eq_spec by auto. unfold spec_dec. now rewrite N. Qed.

(* ---------- encoderune ---------- *)

Local Ltac Zify.zify_post_hook ::= Z.div_mod_to_equations.

Lemma land_byte x : Z.land (byte x) maskx = x mod 64.
Proof.
  unfold byte. assert (B : 0 <= x mod 256 < 256) by (apply Z.mod_pos_bound; lia).
  destruct (masks _ B) as (M & _). rewrite M. lia.
Qed.

Lemma shr_div r n : 0 <= n -> Z.shiftr r n = r / 2 ^ n.
Proof. apply Z.shiftr_div_pow2. Qed.

Ltac list_lia := repeat (apply (f_equal2 (@cons Z)); [lia|]); reflexivity.

Lemma encoderune_scalar r : scalar r = true -> encoderune r = spec_encode r.
Proof.
  unfold scalar, maxRune, surrogateMin, surrogateMax. intros S.
  apply andb_true_iff in S as [S S3]. apply andb_true_iff in S as [S1 S2].
  apply Z.leb_le in S1, S2. apply negb_true_iff, andb_false_iff in S3.
  assert (Hs : r < 55296 \/ 57343 < r) by (destruct S3 as [S3|S3]; apply Z.leb_gt in S3; lia).
  unfold encoderune, spec_encode, u32, rune1Max, rune2Max, rune3Max, maxRune, surrogateMin, surrogateMax.
  rewrite Z.mod_small by (change (2 ^ 32) with 4294967296; lia).
  rewrite !land_byte, !shr_div by lia.
  change (2 ^ 6) with 64. change (2 ^ 12) with 4096. change (2 ^ 18) with 262144.
  unfold t2, t3, t4, tx, byte.
  destruct (Z.leb_spec r 127); [destruct (Z.ltb_spec r 128); try lia; list_lia|].
  destruct (Z.ltb_spec r 128); try lia.
  destruct (Z.leb_spec r 2047).
  { destruct (Z.ltb_spec r 2048); try lia.
    change 192 with (3 * 2 ^ 6). change 128 with (2 * 2 ^ 6).
    rewrite !lor_const_add by (change (2 ^ 6) with 64; lia). change (2 ^ 6) with 64.
    list_lia. }
  destruct (Z.ltb_spec r 2048); try lia.
  destruct (Z.ltb_spec 1114111 r); try lia. cbn [orb].
  destruct (Z.leb_spec 55296 r); destruct (Z.leb_spec r 57343); try lia; cbn [andb];
  (destruct (Z.leb_spec r 65535);
   [ destruct (Z.ltb_spec r 65536); try lia;
     change 224 with (14 * 2 ^ 4); change 128 with (2 * 2 ^ 6);
     rewrite !lor_const_add by (change (2 ^ 6) with 64; change (2 ^ 4) with 16; lia);
     change (2 ^ 6) with 64; change (2 ^ 4) with 16; list_lia
   | destruct (Z.ltb_spec r 65536); try lia;
     change 240 with (30 * 2 ^ 3); change 128 with (2 * 2 ^ 6);
     rewrite !lor_const_add by (change (2 ^ 6) with 64; change (2 ^ 3) with 8; lia);
     change (2 ^ 6) with 64; change (2 ^ 3) with 8; list_lia ]).
Qed.

Lemma encoderune_invalid r : - 2 ^ 31 <= r < 2 ^ 31 -> scalar r = false -> encoderune r = [239; 191; 189].
Proof.
  change (2 ^ 31) with 2147483648. intros R S.
  unfold scalar, maxRune, surrogateMin, surrogateMax in S.
  assert (Hs : r < 0 \/ 1114111 < r \/ 55296 <= r <= 57343).
  { destruct (Z.ltb_spec r 0); [lia|]. destruct (Z.ltb_spec 1114111 r); [lia|].
    destruct (Z.ltb_spec r 55296); [exfalso; revert S; bool_cases; discriminate|].
    destruct (Z.ltb_spec 57343 r); [exfalso; revert S; bool_cases; discriminate|]. lia. }
  unfold encoderune, u32, rune1Max, rune2Max, rune3Max, maxRune, surrogateMin, surrogateMax.
  change (2 ^ 32) with 4294967296.
  assert (M : r mod 4294967296 = if r <? 0 then r + 4294967296 else r).
  { destruct (Z.ltb_spec r 0); lia. }
  rewrite M. destruct (Z.ltb_spec r 0).
  - destruct (Z.leb_spec (r + 4294967296) 127); try lia.
    destruct (Z.leb_spec (r + 4294967296) 2047); try lia.
    destruct (Z.ltb_spec 1114111 (r + 4294967296)); try lia. reflexivity.
  - destruct (Z.leb_spec r 127); try lia. destruct (Z.leb_spec r 2047); try lia.
    destruct (Z.ltb_spec 1114111 r); [reflexivity|]. cbn [orb].
    destruct (Z.leb_spec 55296 r); destruct (Z.leb_spec r 57343); try lia. reflexivity.
Qed.

(* ---------- decode after encode ---------- *)

Lemma scalar_range r : scalar r = true -> 0 <= r <= 1114111 /\ (r < 55296 \/ 57343 < r).
Proof.
  unfold scalar, maxRune, surrogateMin, surrogateMax. intros S.
  apply andb_true_iff in S as [S S3]. apply andb_true_iff in S as [S1 S2].
  apply Z.leb_le in S1, S2. apply negb_true_iff, andb_false_iff in S3.
  split; [lia|]. destruct S3 as [S3|S3]; apply Z.leb_gt in S3; lia.
Qed.

Lemma spec_encode_bytes r : scalar r = true -> Forall is_byte (spec_encode r).
Proof.
  intros S. destruct (scalar_range r S) as (R & _). unfold spec_encode, is_byte.
  destruct (Z.ltb_spec r 128); [|destruct (Z.ltb_spec r 2048); [|destruct (Z.ltb_spec r 65536)]];
    repeat constructor; lia.
Qed.

Lemma spec_encode_length r : (1 <= length (spec_encode r) <= 4)%nat.
Proof. unfold spec_encode. repeat (destruct (_ <? _)); cbn; lia. Qed.

Lemma spec_decode_encode r t : scalar r = true ->
  spec_decode (spec_encode r ++ t) = Some (r, Z.of_nat (length (spec_encode r))).
Proof.
  intros S. destruct (scalar_range r S) as (R & Hs). unfold spec_encode.
  destruct (Z.ltb_spec r 128); [|destruct (Z.ltb_spec r 2048); [|destruct (Z.ltb_spec r 65536)]];
    cbn [app length]; unfold spec_decode, in_rng; bool_cases; f_equal; f_equal; lia.
Qed.

Lemma spec_encode_head r t b t' : scalar r = true -> 128 <= r -> spec_encode r ++ t = b :: t' -> 128 <= b.
Proof.
  intros S G. destruct (scalar_range r S) as (R & _). unfold spec_encode.
  destruct (Z.ltb_spec r 128); [exfalso; lia|]. destruct (Z.ltb_spec r 2048); [|destruct (Z.ltb_spec r 65536)];
    cbn [app]; intros E; apply (f_equal (hd 0)) in E; cbn [hd] in E; lia.
Qed.

Lemma dec_at_encode r t : scalar r = true -> 128 <= r -> Forall is_byte t ->
  dec_at (encoderune r ++ t) = (r, Z.of_nat (length (encoderune r))).
Proof.
  intros S G Ht. rewrite encoderune_scalar by auto.
  rewrite dec_at_eq_spec.
  - unfold spec_dec. now rewrite spec_decode_encode.
  - apply Forall_app. split; auto using spec_encode_bytes.
  - intros b t'. now apply spec_encode_head.
Qed.

(* ---------- iteration ---------- *)

Lemma dec_at_width s : 1 <= snd (dec_at s) <= 4 /\ (s <> [] -> snd (dec_at s) <= Z.of_nat (length s)).
Proof.
  unfold dec_at. destruct s as [|b0 [|b1 [|b2 [|b3 t]]]]; cbv zeta;
    repeat match goal with |- context [if ?b then _ else _] => destruct b end;
    cbn [snd length]; (split; [lia|intros N; first [lia | exfalso; apply N; reflexivity]]).
Qed.

(* the same loop on the remaining suffix *)
Fixpoint iter_suf (fuel : nat) (suf : list Z) (k : Z) : list (Z * Z) :=
  match fuel with
  | O => []
  | S f =>
    match suf with
    | [] => []
    | c :: _ =>
      if c <? runeSelf then (k, c) :: iter_suf f (skipn 1 suf) (k + 1)
      else (k, fst (dec_at suf)) :: iter_suf f (skipn (Z.to_nat (snd (dec_at suf))) suf) (k + snd (dec_at suf))
    end
  end.

Lemma skipn_nth_cons {A} (l : list A) n d : (n < length l)%nat -> skipn n l = nth n l d :: skipn (S n) l.
Proof.
  revert n; induction l as [|x l IH]; intros [|n]; cbn [length skipn nth]; intros; try lia; auto.
  apply IH. lia.
Qed.

Lemma iter_from_suf fuel : forall s pos, 0 <= pos ->
  iter_from fuel s pos = iter_suf fuel (skipn (Z.to_nat pos) s) pos.
Proof.
  induction fuel as [|f IH]; intros s pos Hpos; cbn [iter_from iter_suf]; auto.
  destruct (Z.leb_spec (Z.of_nat (length s)) pos) as [Hge|Hlt].
  - rewrite skipn_all2 by lia. reflexivity.
  - rewrite (skipn_nth_cons s (Z.to_nat pos) 0) by lia.
    rewrite <- (skipn_nth_cons s (Z.to_nat pos) 0) by lia.
    destruct (nth (Z.to_nat pos) s 0 <? runeSelf).
    + rewrite IH by lia. rewrite skipn_skipn_add. do 2 f_equal. f_equal. lia.
    + unfold decoderune. destruct (Z.leb_spec (Z.of_nat (length s)) pos); try lia.
      destruct (dec_at (skipn (Z.to_nat pos) s)) as [v w] eqn:E. cbn [fst snd].
      pose proof (dec_at_width (skipn (Z.to_nat pos) s)) as (W & _). rewrite E in W; cbn [snd] in W.
      rewrite IH by lia. rewrite skipn_skipn_add. do 2 f_equal. f_equal. lia.
Qed.

Lemma string_iter_suf s : string_iter s = iter_suf (length s) s 0.
Proof. unfold string_iter. now rewrite iter_from_suf by lia. Qed.

(* runes -> string -> runes *)
Lemma from_runes_bytes rs : Forall (fun r => scalar r = true) rs -> Forall is_byte (string_from_runes rs).
Proof.
  induction 1 as [|r rs S _ IH]; cbn; [constructor|].
  apply Forall_app. split; auto. rewrite encoderune_scalar by auto. now apply spec_encode_bytes.
Qed.

Lemma iter_suf_runes rs : Forall (fun r => scalar r = true) rs ->
  forall fuel k, (length rs <= fuel)%nat -> map snd (iter_suf fuel (string_from_runes rs) k) = rs.
Proof.
  induction 1 as [|r rs S HS IH]; intros fuel k Hf.
  - destruct fuel; reflexivity.
  - destruct fuel as [|f]; [cbn in Hf; lia|]. cbn [length] in Hf.
    change (string_from_runes (r :: rs)) with (encoderune r ++ string_from_runes rs).
    pose proof (from_runes_bytes rs HS) as HB.
    destruct (Z.lt_ge_cases r 128) as [Hlow|Hhigh].
    + assert (E : encoderune r = [r]).
      { rewrite encoderune_scalar by auto. unfold spec_encode. destruct (Z.ltb_spec r 128); auto; lia. }
      rewrite E. cbn [app iter_suf]. unfold runeSelf. destruct (Z.ltb_spec r 128); try lia.
      cbn [map snd skipn]. f_equal. apply IH. lia.
    + pose proof (dec_at_encode r (string_from_runes rs) S Hhigh HB) as D.
      pose proof (spec_encode_length r) as L. rewrite <- encoderune_scalar in L by auto.
      destruct (encoderune r ++ string_from_runes rs) as [|c t] eqn:EQ.
      { destruct (encoderune r); cbn in *; [lia|discriminate]. }
      cbn [iter_suf].
      assert (128 <= c).
      { rewrite encoderune_scalar in EQ by auto. eapply spec_encode_head; eauto. }
      unfold runeSelf. destruct (Z.ltb_spec c 128); try lia.
      rewrite D. cbn [fst snd map]. f_equal.
      rewrite Nat2Z.id. rewrite <- EQ. rewrite skipn_app, skipn_all, Nat.sub_diag. cbn [app skipn].
      apply IH. lia.
Qed.

Lemma from_runes_length rs : (length rs <= length (string_from_runes rs))%nat.
Proof.
  induction rs as [|r rs IH]; [cbn; lia|].
  change (string_from_runes (r :: rs)) with (encoderune r ++ string_from_runes rs).
  rewrite app_length. cbn [length].
  assert (1 <= length (encoderune r))%nat; [|lia].
  unfold encoderune. cbv zeta.
  repeat match goal with |- context [if ?b then _ else _] => destruct b end; cbn [length]; lia.
Qed.

Lemma runes_roundtrip_lemma rs : Forall (fun r => scalar r = true) rs ->
  string_to_runes (string_from_runes rs) = rs.
Proof.
  intros H. unfold string_to_runes. rewrite string_iter_suf. apply iter_suf_runes; auto.
  apply from_runes_length.
Qed.

(* the start indexes of consecutive pieces of widths ws *)
Fixpoint starts (k : Z) (ws : list Z) : list Z :=
  match ws with [] => [] | w :: t => k :: starts (k + w) t end.
Definition zsum (ws : list Z) : Z := fold_right Z.add 0 ws.

Lemma iter_suf_partition fuel : forall suf k, (length suf <= fuel)%nat ->
  exists ws, map fst (iter_suf fuel suf k) = starts k ws
             /\ Forall (fun w => 1 <= w <= 4) ws /\ zsum ws = Z.of_nat (length suf).
Proof.
  induction fuel as [|f IH]; intros suf k Hf.
  - destruct suf; [|cbn in Hf; lia]. exists []. repeat split; auto.
  - destruct suf as [|c t]; [exists []; repeat split; auto|].
    cbn [iter_suf]. destruct (c <? runeSelf).
    + destruct (IH t (k + 1)) as (ws & E & F & Z0); [cbn in Hf; lia|].
      exists (1 :: ws). cbn [skipn map fst starts zsum fold_right]. rewrite E. repeat split; auto.
      * constructor; auto; lia.
      * fold (zsum ws). rewrite Z0. cbn [length]. lia.
    + pose proof (dec_at_width (c :: t)) as (W & WL). specialize (WL ltac:(discriminate)).
      set (w := snd (dec_at (c :: t))) in *.
      destruct (IH (skipn (Z.to_nat w) (c :: t)) (k + w)) as (ws & E & F & Z0).
      { rewrite skipn_length. cbn [length] in *. lia. }
      exists (w :: ws). cbn [map fst starts zsum fold_right]. rewrite E. repeat split; auto.
      fold (zsum ws). rewrite Z0, skipn_length. lia.
Qed.

Lemma iter_partition_lemma s :
  exists ws, map fst (string_iter s) = starts 0 ws
             /\ Forall (fun w => 1 <= w <= 4) ws /\ zsum ws = Z.of_nat (length s).
Proof. rewrite string_iter_suf. apply iter_suf_partition. auto. Qed.

(* ---------- comparison, concatenation, slicing, integer conversion ---------- *)

Lemma eq_loop_iff x : forall y, length x = length y -> (eq_loop x y = true <-> x = y).
Proof.
  induction x as [|a x IH]; intros [|b y] L; cbn in L |- *; try lia; try tauto.
  destruct (Z.eqb_spec a b).
  - subst. rewrite IH by lia. split; [intros ->; auto|intros [= ->]; auto].
  - split; [discriminate|intros [= ? ?]; contradiction].
Qed.

Lemma string_equal_iff x y : string_equal x y = true <-> x = y.
Proof.
  unfold string_equal. destruct (Z.eqb_spec (Z.of_nat (length x)) (Z.of_nat (length y))).
  - apply eq_loop_iff. lia.
  - split; [discriminate|]. intros ->. lia.
Qed.

(* lexicographic order on byte strings *)
Inductive lex_lt : list Z -> list Z -> Prop :=
| lex_nil y ys : lex_lt [] (y :: ys)
| lex_hd x y xs ys : x < y -> lex_lt (x :: xs) (y :: ys)
| lex_tl x xs ys : lex_lt xs ys -> lex_lt (x :: xs) (x :: ys).

Lemma string_less_iff x : forall y, string_less x y = true <-> lex_lt x y.
Proof.
  induction x as [|a x IH]; intros [|b y]; cbn.
  - split; [discriminate|inversion 1].
  - split; [constructor|auto].
  - split; [discriminate|inversion 1].
  - destruct (Z.ltb_spec a b).
    + split; [intros _; now constructor|auto].
    + destruct (Z.ltb_spec b a).
      * split; [discriminate|]. inversion 1; subst; lia.
      * assert (a = b) by lia. subst. rewrite IH. split; [now constructor|].
        inversion 1; subst; auto; lia.
Qed.

Lemma string_cat_app a b : string_cat a b = a ++ b.
Proof.
  unfold string_cat, alloc_u, heap0, memcpy, memmove. cbn [src_read app length].
  rewrite !Nat2Z.id, !firstn_all.
  set (n := Z.of_nat (length a) + Z.of_nat (length b)).
  set (h1 := [[]; repeat 170 (Z.to_nat n)]).
  assert (F1 : fits h1 (mkP 1 0) (Z.of_nat (length a))).
  { unfold fits, h1, blk; cbn. rewrite repeat_length. lia. }
  set (h2 := wr h1 (mkP 1 0) a).
  assert (F2 : fits h2 (advance (mkP 1 0) (Z.of_nat (length a))) (Z.of_nat (length b))).
  { apply fits_wr. unfold fits, h1, blk, advance; cbn. rewrite repeat_length. lia. }
  pose proof (rd_wr_upto h2 _ b 0 F2) as R. cbn [advance pid poff] in R.
  replace n with (0 + Z.of_nat (length a) - 0 + Z.of_nat (length b)) by lia.
  rewrite R by lia. f_equal.
  pose proof (rd_wr_upto h1 (mkP 1 0) a 0 F1) as R1. cbn [pid poff] in R1.
  replace (0 + Z.of_nat (length a) - 0) with (0 - 0 + Z.of_nat (length a)) by lia.
  unfold h2. rewrite R1 by lia. reflexivity.
Qed.

Lemma string_slice_ok s i j : 0 <= i <= j -> j <= Z.of_nat (length s) ->
  string_slice s i j = Some (firstn (Z.to_nat (j - i)) (skipn (Z.to_nat i) s)).
Proof.
  intros Hi Hj. unfold string_slice.
  destruct (Z.ltb_spec i 0); try lia. destruct (Z.ltb_spec j i); try lia.
  destruct (Z.ltb_spec (Z.of_nat (length s)) j); try lia. cbn [orb].
  destruct (Z.ltb_spec i (Z.of_nat (length s))); auto.
  rewrite skipn_all2 by lia. now rewrite firstn_nil.
Qed.

Lemma string_slice_none s i j : ~ (0 <= i <= j /\ j <= Z.of_nat (length s)) -> string_slice s i j = None.
Proof.
  intros N. unfold string_slice.
  destruct (Z.ltb_spec i 0); auto. destruct (Z.ltb_spec j i); auto.
  destruct (Z.ltb_spec (Z.of_nat (length s)) j); auto. lia.
Qed.

Lemma from_int64_spec r :
  string_from_int64 r = if scalar r then spec_encode r else [239; 191; 189].
Proof.
  unfold string_from_int64, string_from_rune.
  destruct (Z.ltb_spec r 0); [|destruct (Z.ltb_spec maxRune r)]; cbn [orb].
  - unfold scalar. destruct (Z.leb_spec 0 r); try lia. reflexivity.
  - unfold scalar. destruct (Z.leb_spec r maxRune); try lia. rewrite andb_false_r. reflexivity.
  - destruct (scalar r) eqn:S; [now apply encoderune_scalar|].
    apply encoderune_invalid; auto. unfold maxRune in *. change (2 ^ 31) with 2147483648. lia.
Qed.

Lemma from_uint64_spec r : 0 <= r ->
  string_from_uint64 r = if scalar r then spec_encode r else [239; 191; 189].
Proof.
  intros Hr. unfold string_from_uint64, string_from_rune.
  destruct (Z.ltb_spec maxRune r).
  - unfold scalar. destruct (Z.leb_spec r maxRune); try lia. rewrite andb_false_r. reflexivity.
  - destruct (scalar r) eqn:S; [now apply encoderune_scalar|].
    apply encoderune_invalid; auto. unfold maxRune in *. change (2 ^ 31) with 2147483648. lia.
Qed.
