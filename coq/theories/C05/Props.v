(* C05 - property theorems only.  Each is closed by [exact <lemma>] and followed
   by Print Assumptions (the driver re-prints them on every run).
   Slices: Model.v (memory = list of byte blocks, slice = pointer/len/cap,
   element size es a parameter).  Strings: StrModel.v (byte lists). *)
From LLGoV Require Import C05.Model C05.StrModel C05.Proofs C05.StrProofs.
Local Open Scope Z_scope.

(* ------------------------------------------------------------------------- *)
(* append.  [slice_append = slice_append_gen true] is the code that exists;
   [slice_append_gen false] is SliceAppend before the two repairs (zero-size
   elements returned unchanged; memcpy instead of memmove).
   For every element size es > 0, every well-formed slice s and every
   source of num elements (bytes in the caller's frame, or memory that may lie
   inside s's own backing array): the result has len(s)+num elements; its
   contents are the old contents of s followed by the source bytes AS THEY
   WERE BEFORE THE CALL (so an aliasing source is handled: the copy is a
   memmove); when the capacity suffices the result has the same data pointer
   and capacity, the heap gets no new block and no byte outside the appended
   range changes; when it does not, the result lives in a block that did not
   exist before (id = length h) with cap >= len; no other existing block is
   modified either way. *)
Theorem append_spec : forall fixed es h s src num h' r ovl,
  0 < es -> 0 <= num -> slen s + num < 2 ^ 63 -> scap s < 2 ^ 63 ->
  wf_slice es h s -> src_ok h src (num * es) ->
  slice_append_gen fixed es h s src num = (h', r, ovl) ->
  slen r = slen s + num
  /\ rd h' (sdata r) (slen r * es) = rd h (sdata s) (slen s * es) ++ src_read h src (num * es)
  /\ wf_slice es h' r
  /\ (slen s + num <= scap s ->
        sdata r = sdata s /\ scap r = scap s /\ length h' = length h
        /\ forall i d, (Z.of_nat i < poff (sdata s) + slen s * es
                        \/ poff (sdata s) + (slen s + num) * es <= Z.of_nat i) ->
             nth i (blk h' (pid (sdata s))) d = nth i (blk h (pid (sdata s))) d)
  /\ (scap s < slen s + num ->
        sdata r = mkP (length h) 0 /\ length h' = S (length h) /\ slen r <= scap r)
  /\ (forall id, (id < length h)%nat -> id <> pid (sdata r) -> blk h' id = blk h id).
Proof. exact append_spec_lemma. Qed.
Print Assumptions append_spec.

(* the hypotheses are satisfiable: the insert idiom append(x[:2], x[1:3]...)
   on an 8-byte block, source overlapping the destination *)
Example append_nontrivial :
  let h := [[]; [1; 2; 3; 0; 0; 0; 0; 0]] in
  let s := mkS (mkP 1 0) 2 8 in
  wf_slice 1 h s /\ src_ok h (SrcPtr (mkP 1 1)) (2 * 1)
  /\ slice_append 1 h s (SrcPtr (mkP 1 1)) 2
     = ([[]; [1; 2; 2; 3; 0; 0; 0; 0]], mkS (mkP 1 0) 4 8, false).
Proof. unfold wf_slice, src_ok, fits. cbn. intuition lia. Qed.

(* element size 0 (the code that exists): the length grows by num, cap >= len,
   the result is well formed, no existing block is touched; when the capacity
   suffices nothing is allocated and pointer and capacity are kept; when it
   does not, the result is not the nil slice *)
Theorem append_zero_size_spec : forall h s src num h' r ovl,
  0 <= num -> wf_slice 0 h s ->
  slice_append 0 h s src num = (h', r, ovl) ->
  slen r = slen s + num
  /\ slen r <= scap r
  /\ wf_slice 0 h' r
  /\ ovl = false
  /\ (forall id, (id < length h)%nat -> blk h' id = blk h id)
  /\ (slen s + num <= scap s -> h' = h /\ sdata r = sdata s /\ scap r = scap s)
  /\ (scap s < slen s + num -> is_nil (sdata r) = false).
Proof. exact append_zero_size_lemma. Qed.
Print Assumptions append_zero_size_spec.

Example append_zero_size_nontrivial :   (* append([]struct{}(nil), struct{}{}) *)
  wf_slice 0 heap0 nils
  /\ slice_append 0 heap0 nils (SrcBytes []) 1 = ([[]; []], mkS (mkP 1 0) 1 1, false).
Proof. unfold wf_slice, fits. cbn. intuition lia. Qed.

(* before the repair (fixed = false) the property failed for element size 0:
   SliceAppend returned its argument unchanged, so the length did not grow
   (finding F2; the harness still replays this witness on the real code) *)
Theorem append_zero_size_unfixed_refuted :
  exists h s src num, wf_slice 0 h s /\ src_ok h src (num * 0) /\ 0 < num /\
    slen (snd (fst (slice_append_gen false 0 h s src num))) <> slen s + num.
Proof. exact append_zero_size_witness. Qed.
Print Assumptions append_zero_size_unfixed_refuted.

Theorem append_zero_size_unfixed_returns_argument : forall h s src num,
  slice_append_gen false 0 h s src num = (h, s, false).
Proof. exact append_zero_size_same. Qed.
Print Assumptions append_zero_size_unfixed_returns_argument.

(* memcpy contract (C: the ranges must not overlap).  The code that exists
   copies with memmove, so there is no contract to break; before the repair the
   contract was kept whenever the slice grew, but there was a well-formed
   in-place append that broke it *)
Theorem append_overlap_no_contract : forall es h s src num,
  snd (slice_append es h s src num) = false.
Proof. exact append_fixed_no_contract. Qed.
Print Assumptions append_overlap_no_contract.

Theorem append_memcpy_contract_when_growing : forall fixed es h s src num,
  0 < es -> wf_slice es h s -> src_ok h src (num * es) -> scap s < slen s + num ->
  snd (slice_append_gen fixed es h s src num) = false.
Proof. exact append_grow_no_overlap. Qed.
Print Assumptions append_memcpy_contract_when_growing.

Theorem append_memcpy_contract_unfixed_refuted :
  exists es h s src num, 0 < es /\ wf_slice es h s /\ src_ok h src (num * es) /\
    slen s + num <= scap s /\ snd (slice_append_gen false es h s src num) = true.
Proof. exact append_overlap_witness. Qed.
Print Assumptions append_memcpy_contract_unfixed_refuted.

(* growth: the new capacity holds the request, for every request below 2^63
   (wrap-around of the 64-bit arithmetic included) *)
Theorem nextslicecap_ge : forall newLen oldCap,
  0 <= oldCap < 2 ^ 63 -> 0 < newLen < 2 ^ 63 -> newLen <= nextslicecap newLen oldCap.
Proof. exact Proofs.nextslicecap_ge. Qed.
Print Assumptions nextslicecap_ge.

(* the 1.25x loop ends within the model's fuel for every request up to 2^62
   (partial: between 2^62 and 2^63 the Go code itself relies on wrap-around) *)
Theorem nextslicecap_fuel_enough_partial : forall newLen oldCap,
  256 <= oldCap < newLen -> newLen <= 2 ^ 62 -> cap_loop cap_fuel oldCap newLen <> None.
Proof. exact cap_fuel_enough_lemma. Qed.
Print Assumptions nextslicecap_fuel_enough_partial.

Example nextslicecap_values :
  nextslicecap 5 4 = 8 /\ nextslicecap 9 4 = 9 /\ nextslicecap 257 256 = 512 /\ nextslicecap 301 300 = 567
  /\ nextslicecap 256 255 = 510.
Proof. repeat split; reflexivity. Qed.

(* copy: min(len(dst), num) elements; afterwards dst holds the source bytes as
   they were before the call, also when the ranges overlap (= copy through a
   temporary); nothing else changes.  es = 0 allowed. *)
Theorem copy_overlap_spec : forall es h dst src num h' n,
  0 <= es -> 0 <= num -> wf_slice es h dst -> src_ok h src (num * es) ->
  slice_copy es h dst src num = (h', n) ->
  n = Z.min (slen dst) num
  /\ rd h' (sdata dst) (n * es) = src_read h src (n * es)
  /\ (forall i d, (Z.of_nat i < poff (sdata dst) \/ poff (sdata dst) + n * es <= Z.of_nat i) ->
        nth i (blk h' (pid (sdata dst))) d = nth i (blk h (pid (sdata dst))) d)
  /\ (forall id, id <> pid (sdata dst) -> blk h' id = blk h id)
  /\ length h' = length h.
Proof. exact copy_spec_lemma. Qed.
Print Assumptions copy_overlap_spec.

Example copy_nontrivial :   (* copy(x[1:], x) on 5 bytes *)
  slice_copy 1 [[]; [1; 2; 3; 4; 5]] (mkS (mkP 1 1) 4 4) (SrcPtr (mkP 1 0)) 5
  = ([[]; [1; 1; 2; 3; 4]], 4).
Proof. reflexivity. Qed.

(* slice expressions s[i:j:k]: in range gives len j-i, cap k-i and the window
   that starts i elements into the operand; out of range panics *)
Theorem reslice_window : forall es h base cap i j k,
  0 <= es -> 0 <= poff base -> 0 <= i <= j -> j <= k <= cap ->
  exists r, new_slice3 base es cap i j k = Ok r /\ slen r = j - i /\ scap r = k - i
    /\ rd h (sdata r) ((k - i) * es) = skipn (Z.to_nat (i * es)) (rd h base (k * es))
    /\ (wf_slice es h (mkS base 0 cap) -> wf_slice es h r).
Proof. exact reslice_ok_lemma. Qed.
Print Assumptions reslice_window.

Theorem reslice_out_of_range_panics : forall es base cap i j k,
  ~ (0 <= i <= j /\ j <= k <= cap) -> exists c x y, new_slice3 base es cap i j k = Panic c x y.
Proof. exact reslice_panic_lemma. Qed.
Print Assumptions reslice_out_of_range_panics.

(* clear zeroes exactly the len elements *)
Theorem clear_spec : forall es h s,
  0 <= es -> slen s < 2 ^ 63 -> wf_slice es h s ->
  let h' := slice_clear es h s in
  rd h' (sdata s) (slen s * es) = repeat 0 (Z.to_nat (slen s * es))
  /\ (forall i d, (Z.of_nat i < poff (sdata s) \/ poff (sdata s) + slen s * es <= Z.of_nat i) ->
        nth i (blk h' (pid (sdata s))) d = nth i (blk h (pid (sdata s))) d)
  /\ (forall id, id <> pid (sdata s) -> blk h' id = blk h id).
Proof. exact clear_spec_lemma. Qed.
Print Assumptions clear_spec.

(* ------------------------------------------------------------------------- *)
(* UTF-8.  decoderune's switch (masks and shifts) computes, on every byte
   string whose first byte is not ASCII, exactly what the table of well-formed
   byte sequences of the Unicode standard (spec_decode: ranges and arithmetic)
   prescribes; anything that is not a well-formed sequence gives (U+FFFD, 1). *)
Theorem decoderune_eq_spec : forall s,
  Forall is_byte s -> (forall b t, s = b :: t -> 128 <= b) ->
  dec_at s = match spec_decode s with Some rw => rw | None => (runeError, 1) end.
Proof. exact dec_at_eq_spec. Qed.
Print Assumptions decoderune_eq_spec.

Theorem invalid_to_runeerror : forall s,
  Forall is_byte s -> (forall b t, s = b :: t -> 128 <= b) ->
  spec_decode s = None -> dec_at s = (runeError, 1).
Proof. exact dec_at_invalid. Qed.
Print Assumptions invalid_to_runeerror.

Example decode_examples :
  dec_at [226; 130; 172] = (8364, 3)            (* euro sign *)
  /\ dec_at [237; 160; 128] = (65533, 1)          (* surrogate *)
  /\ dec_at [224; 128; 128] = (65533, 1)          (* overlong *)
  /\ dec_at [244; 144; 128; 128] = (65533, 1)     (* above U+10FFFF *)
  /\ dec_at [240; 159; 152] = (65533, 1)          (* truncated *)
  /\ spec_decode [237; 160; 128] = None.
Proof. repeat split; reflexivity. Qed.

(* encoderune writes the standard encoding of every scalar value and the
   encoding of U+FFFD for every other int32 *)
Theorem encoderune_eq_spec : forall r, scalar r = true -> encoderune r = spec_encode r.
Proof. exact encoderune_scalar. Qed.
Print Assumptions encoderune_eq_spec.

Theorem encoderune_invalid_is_runeerror : forall r,
  - 2 ^ 31 <= r < 2 ^ 31 -> scalar r = false -> encoderune r = [239; 191; 189].
Proof. exact encoderune_invalid. Qed.
Print Assumptions encoderune_invalid_is_runeerror.

(* decode after encode, for every scalar value, whatever bytes follow *)
Theorem decode_encode : forall r t, scalar r = true -> 128 <= r -> Forall is_byte t ->
  dec_at (encoderune r ++ t) = (r, Z.of_nat (length (encoderune r))).
Proof. exact dec_at_encode. Qed.
Print Assumptions decode_encode.

Theorem spec_decode_encode : forall r t, scalar r = true ->
  spec_decode (spec_encode r ++ t) = Some (r, Z.of_nat (length (spec_encode r))).
Proof. exact StrProofs.spec_decode_encode. Qed.
Print Assumptions spec_decode_encode.

(* []rune(string(rs)) = rs for every list of scalar values; hence
   string([]rune(s)) = s for every s that is the encoding of scalar values *)
Theorem runes_roundtrip : forall rs, Forall (fun r => scalar r = true) rs ->
  string_to_runes (string_from_runes rs) = rs.
Proof. exact runes_roundtrip_lemma. Qed.
Print Assumptions runes_roundtrip.

Theorem runes_roundtrip_valid : forall s rs, Forall (fun r => scalar r = true) rs ->
  s = string_from_runes rs -> string_from_runes (string_to_runes s) = s.
Proof. intros s rs H ->. now rewrite runes_roundtrip_lemma. Qed.
Print Assumptions runes_roundtrip_valid.

Example runes_nontrivial :
  string_to_runes [97; 226; 130; 172; 255; 240; 159; 152; 128; 237; 160; 128]
  = [97; 8364; 65533; 128512; 65533; 65533; 65533].
Proof. reflexivity. Qed.

(* range over a string: for EVERY byte string (valid or not) the indexes are
   the start positions of consecutive pieces of 1..4 bytes that cover the
   string exactly (no byte skipped, none visited twice, no index past the end) *)
Theorem iter_covers_string : forall s,
  exists ws, map fst (string_iter s) = starts 0 ws
             /\ Forall (fun w => 1 <= w <= 4) ws /\ zsum ws = Z.of_nat (length s).
Proof. exact iter_partition_lemma. Qed.
Print Assumptions iter_covers_string.

(* comparison, concatenation, slicing *)
Theorem less_is_lex : forall x y, string_less x y = true <-> lex_lt x y.
Proof. exact string_less_iff. Qed.
Print Assumptions less_is_lex.

Theorem equal_iff : forall x y, string_equal x y = true <-> x = y.
Proof. exact string_equal_iff. Qed.
Print Assumptions equal_iff.

(* StringCat through the memory model (uninitialised block, two memcpy) *)
Theorem cat_is_app : forall a b, string_cat a b = a ++ b.
Proof. exact string_cat_app. Qed.
Print Assumptions cat_is_app.

Theorem string_slice_window : forall s i j, 0 <= i <= j -> j <= Z.of_nat (length s) ->
  string_slice s i j = Some (firstn (Z.to_nat (j - i)) (skipn (Z.to_nat i) s)).
Proof. exact string_slice_ok. Qed.
Print Assumptions string_slice_window.

Theorem string_slice_out_of_range : forall s i j,
  ~ (0 <= i <= j /\ j <= Z.of_nat (length s)) -> string_slice s i j = None.
Proof. exact string_slice_none. Qed.
Print Assumptions string_slice_out_of_range.

(* string(i) for integers: the encoding of i when i is a scalar value, the
   encoding of U+FFFD for every other 64-bit value *)
Theorem fromint_range : forall r,
  string_from_int64 r = if scalar r then spec_encode r else [239; 191; 189].
Proof. exact from_int64_spec. Qed.
Print Assumptions fromint_range.

Theorem fromuint_range : forall r, 0 <= r ->
  string_from_uint64 r = if scalar r then spec_encode r else [239; 191; 189].
Proof. exact from_uint64_spec. Qed.
Print Assumptions fromuint_range.
