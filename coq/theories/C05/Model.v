(* C05 - executable model of runtime/internal/runtime/z_slice.go (no proofs here).

   Memory is a list of blocks of bytes; block 0 is the nil page (empty, never
   written).  A pointer is (block id, byte offset); a slice is (data pointer,
   len, cap) with len and cap counted in elements, exactly the runtime's
   struct Slice.  The element size [es] is a parameter of every operation and
   may be 0.  All integers are Z; the few places where the Go code relies on
   64-bit wrap-around (nextslicecap) use [wrap64] explicitly. *)
From LLGoV Require Export Lib.Common.
Local Open Scope Z_scope.

(* ---------- memory and the clite primitives ---------- *)

Definition heap := list (list Z).
Record ptr := mkP { pid : nat; poff : Z }.
Definition nilp : ptr := mkP 0 0.
Definition heap0 : heap := [[]].

Definition blk (h : heap) (id : nat) : list Z := nth id h [].

(* the n bytes at p (fewer if the block ends before) *)
Definition rd (h : heap) (p : ptr) (n : Z) : list Z :=
  firstn (Z.to_nat n) (skipn (Z.to_nat (poff p)) (blk h (pid p))).

Definition splice (a : list Z) (off : nat) (bs : list Z) : list Z :=
  firstn off a ++ bs ++ skipn (off + length bs) a.

Fixpoint upd {A} (l : list A) (i : nat) (x : A) : list A :=
  match l, i with
  | [], _ => []
  | _ :: t, O => x :: t
  | y :: t, S i' => y :: upd t i' x
  end.

(* store bs at p; a store that does not fit into the block is refused *)
Definition wr (h : heap) (p : ptr) (bs : list Z) : heap :=
  let a := blk h (pid p) in
  if (0 <=? poff p) && (poff p + Z.of_nat (length bs) <=? Z.of_nat (length a))
  then upd h (pid p) (splice a (Z.to_nat (poff p)) bs) else h.

(* AllocZ: a fresh zeroed block at the end of the heap *)
Definition alloc (h : heap) (n : Z) : heap * ptr :=
  (h ++ [repeat 0 (Z.to_nat n)], mkP (length h) 0).

(* c.Advance on unsafe.Pointer: byte offset *)
Definition advance (p : ptr) (k : Z) : ptr := mkP (pid p) (poff p + k).

(* source operand of memcpy / memmove: memory, or bytes outside the modelled
   heap (the values of append(s, v1, v2...) live in the caller's frame) *)
Inductive source := SrcPtr (p : ptr) | SrcBytes (bs : list Z).

Definition src_read (h : heap) (src : source) (n : Z) : list Z :=
  match src with
  | SrcPtr p => rd h p n
  | SrcBytes bs => firstn (Z.to_nat n) bs
  end.

(* memmove: copy through a temporary.  memcpy is given the same result (what
   glibc on x86-64 does), but the C contract requires that the ranges do not
   partially overlap: [overlap] says when a call breaks that contract. *)
Definition memmove (h : heap) (dst : ptr) (src : source) (n : Z) : heap :=
  wr h dst (src_read h src n).
Definition memcpy := memmove.

Definition overlap (dst src : ptr) (n : Z) : bool :=
  (0 <? n) && Nat.eqb (pid dst) (pid src) && negb (poff dst =? poff src)
  && (poff dst <? poff src + n) && (poff src <? poff dst + n).

Definition src_overlap (dst : ptr) (src : source) (n : Z) : bool :=
  match src with SrcPtr p => overlap dst p n | SrcBytes _ => false end.

(* ---------- z_slice.go ---------- *)

Record slice := mkS { sdata : ptr; slen : Z; scap : Z }.
Definition nils : slice := mkS nilp 0 0.

Inductive res (A : Type) := Ok (a : A) | Panic (code x y : Z).
Arguments Ok {A} a.
Arguments Panic {A} code x y.

(* boundsErrorCode values (errors.go, iota order) *)
Definition boundsSlice3Acap := 5.
Definition boundsSlice3B := 6.
Definition boundsSlice3C := 7.

Definition new_slice3 (base : ptr) (es cap i j k : Z) : res slice :=
  if (k <? 0) || (cap <? k) then Panic boundsSlice3Acap k cap
  else if (j <? 0) || (k <? j) then Panic boundsSlice3B j k
  else if (i <? 0) || (j <? i) then Panic boundsSlice3C i j
  else Ok (mkS (if 0 <? k - i then advance base (i * es) else base) (j - i) (k - i)).

Definition wrap64 (z : Z) : Z :=
  let m := z mod 2 ^ 64 in if m <? 2 ^ 63 then m else m - 2 ^ 64.
Definition u64 (z : Z) : Z := z mod 2 ^ 64.

(* the for-loop of nextslicecap: newcap += (newcap + 3*threshold) >> 2 until
   uint(newcap) >= uint(newLen) *)
Fixpoint cap_loop (fuel : nat) (newcap newLen : Z) : option Z :=
  match fuel with
  | O => None
  | S f =>
      let nc := wrap64 (newcap + Z.shiftr (wrap64 (newcap + 768)) 2) in
      if u64 newLen <=? u64 nc then Some nc else cap_loop f nc newLen
  end.

Definition cap_fuel : nat := 256.

Definition nextslicecap_opt (newLen oldCap : Z) : option Z :=
  let doublecap := wrap64 (oldCap + oldCap) in
  if doublecap <? newLen then Some newLen
  else if oldCap <? 256 then Some doublecap
  else match cap_loop cap_fuel oldCap newLen with
       | Some nc => Some (if nc <=? 0 then newLen else nc)
       | None => None
       end.

(* out of fuel cannot happen (Proofs.cap_fuel_enough); the default is never used *)
Definition nextslicecap (newLen oldCap : Z) : Z :=
  match nextslicecap_opt newLen oldCap with Some c => c | None => newLen end.

Definition grow_slice (es : Z) (h : heap) (s : slice) (num : Z) : heap * slice :=
  let oldLen := slen s in
  let newLen := oldLen + num in
  if scap s <? newLen then
    let newCap := nextslicecap newLen (scap s) in
    let '(h1, p) := alloc h (newCap * es) in
    let h2 := if oldLen =? 0 then h1 else memcpy h1 p (SrcPtr (sdata s)) (oldLen * es) in
    (h2, mkS p newLen newCap)
  else (h, mkS (sdata s) newLen (scap s)).

Definition is_nil (p : ptr) : bool := Nat.eqb (pid p) 0.

(* SliceAppend.  Result: heap, slice, and whether a memcpy was called on
   partially overlapping ranges.
   [fixed = true] is the code that exists: zero-size elements only grow len
   (and cap when it does not suffice; a nil slice gets a zero-byte block so
   that the result is not nil), other sizes copy with memmove (no contract).
   [fixed = false] is the code before the two repairs: zero-size elements gave
   the argument back unchanged, and the copy was a memcpy. *)
Definition slice_append_gen (fixed : bool) (es : Z) (h : heap) (s : slice) (src : source) (num : Z)
  : heap * slice * bool :=
  if es =? 0 then
    if fixed then
      let newLen := slen s + num in
      if scap s <? newLen then
        if is_nil (sdata s) then
          let '(h1, p) := alloc h 0 in (h1, mkS p newLen newLen, false)
        else (h, mkS (sdata s) newLen newLen, false)
      else (h, mkS (sdata s) newLen (scap s), false)
    else (h, s, false)
  else
    let oldLen := slen s in
    let '(h1, s1) := grow_slice es h s num in
    let dst := advance (sdata s1) (oldLen * es) in
    let n := num * es in
    (memmove h1 dst src n, s1, if fixed then false else src_overlap dst src n).

Definition slice_append := slice_append_gen true.

Definition slice_copy (es : Z) (h : heap) (dst : slice) (src : source) (num : Z) : heap * Z :=
  let n := if num <? slen dst then num else slen dst in
  if 0 <? n then (memmove h (sdata dst) src (n * es), n) else (h, n).

Definition maxAlloc := 2 ^ 48.

Definition make_slice (es : Z) (h : heap) (len cap : Z) : res (heap * slice) :=
  let mem := es * u64 cap in
  if (2 ^ 64 <=? mem) || (maxAlloc <? mem) || (len <? 0) || (cap <? len) then
    let mem2 := es * u64 len in
    if (2 ^ 64 <=? mem2) || (maxAlloc <? mem2) || (len <? 0) then Panic 100 0 0 else Panic 101 0 0
  else let '(h1, p) := alloc h mem in Ok (h1, mkS p len cap).

Definition slice_clear (es : Z) (h : heap) (s : slice) : heap :=
  wr h (sdata s) (repeat 0 (Z.to_nat (u64 (slen s) * es))).

(* ---------- scripts (what the harness runs) ---------- *)

Inductive op :=
| OMake (d : nat) (len cap : Z)
| OSet (s : nat) (i : Z) (bs : list Z)
| OAppV (d s : nat) (n : Z) (bs : list Z)
| OAppS (d s t : nat)
| OCopy (d t : nat)
| ORes (d s : nat) (i j k : Z)
| OClear (s : nat).

Definition var (vs : list slice) (i : nat) : slice := nth i vs nils.

Definition obs_slice (s : slice) (ovl : bool) : list Z :=
  [0; Z.of_nat (pid (sdata s)); poff (sdata s); slen s; scap s; if ovl then 1 else 0].

Definition step (es : Z) (st : heap * list slice) (o : op) : (heap * list slice) * list Z :=
  let '(h, vs) := st in
  match o with
  | OMake d len cap =>
      match make_slice es h len cap with
      | Ok (h1, s) => ((h1, upd vs d s), obs_slice s false)
      | Panic c x y => (st, [1; c; x; y])
      end
  | OSet s i bs => ((wr h (advance (sdata (var vs s)) (i * es)) bs, vs), [3])
  | OAppV d s n bs =>
      let '(h1, r, ovl) := slice_append es h (var vs s) (SrcBytes bs) n in
      ((h1, upd vs d r), obs_slice r ovl)
  | OAppS d s t =>
      let '(h1, r, ovl) := slice_append es h (var vs s) (SrcPtr (sdata (var vs t))) (slen (var vs t)) in
      ((h1, upd vs d r), obs_slice r ovl)
  | OCopy d t =>
      let '(h1, n) := slice_copy es h (var vs d) (SrcPtr (sdata (var vs t))) (slen (var vs t)) in
      ((h1, vs), [2; n])
  | ORes d s i j k =>
      match new_slice3 (sdata (var vs s)) es (scap (var vs s)) i j k with
      | Ok r => ((h, upd vs d r), obs_slice r false)
      | Panic c x y => (st, [1; c; x; y])
      end
  | OClear s => ((slice_clear es h (var vs s), vs), [3])
  end.

Fixpoint run (es : Z) (st : heap * list slice) (ops : list op) : list (list Z) * heap :=
  match ops with
  | [] => ([], fst st)
  | o :: ops' =>
      let '(st1, ob) := step es st o in
      let '(obs, h) := run es st1 ops' in
      (ob :: obs, h)
  end.

(* observations per operation and the final contents of every block *)
Definition run_script (x : Z * list op) : list (list Z) * list (list Z) :=
  let '(obs, h) := run (fst x) (heap0, repeat nils 4) (snd x) in (obs, tl h).

Definition zl_eqb : list Z -> list Z -> bool := list_eqb Z.eqb.
Definition zll_eqb : list (list Z) -> list (list Z) -> bool := list_eqb zl_eqb.
Definition script_eqb := prod_eqb zll_eqb zll_eqb.

Definition cap_case (x : Z * Z) : Z := nextslicecap (fst x) (snd x).
