(* C05 - executable model of runtime/internal/runtime/utf8.go and z_string.go
   (no proofs here).  Strings are lists of bytes (Z in 0..255); runes are Z
   (int32).  decoderune / encoderune are transcribed with the masks and shifts
   of the source; [spec_decode] / [spec_encode] are an independent arithmetic
   rendering of the Unicode table of well-formed UTF-8 byte sequences. *)
From LLGoV Require Export C05.Model.
Local Open Scope Z_scope.

Definition runeError := 65533.   (* U+FFFD *)
Definition runeSelf := 128.
Definition maxRune := 1114111.   (* U+10FFFF *)
Definition surrogateMin := 55296.
Definition surrogateMax := 57343.

Definition t2 := 192.  Definition t3 := 224.  Definition t4 := 240.  Definition t5 := 248.
Definition tx := 128.
Definition maskx := 63.  Definition mask2 := 31.  Definition mask3 := 15.  Definition mask4 := 7.
Definition rune1Max := 127.  Definition rune2Max := 2047.  Definition rune3Max := 65535.
Definition locb := 128.  Definition hicb := 191.

Definition cont (b : Z) : bool := (locb <=? b) && (b <=? hicb).

(* the switch of decoderune on s = s[k:]; result: rune and width *)
Definition dec_at (s : list Z) : Z * Z :=
  match s with
  | [] => (runeError, 1)
  | b0 :: t =>
    if (t2 <=? b0) && (b0 <? t3) then
      match t with
      | b1 :: _ =>
        if cont b1 then
          let r := Z.lor (Z.shiftl (Z.land b0 mask2) 6) (Z.land b1 maskx) in
          if rune1Max <? r then (r, 2) else (runeError, 1)
        else (runeError, 1)
      | _ => (runeError, 1)
      end
    else if (t3 <=? b0) && (b0 <? t4) then
      match t with
      | b1 :: b2 :: _ =>
        if cont b1 && cont b2 then
          let r := Z.lor (Z.lor (Z.shiftl (Z.land b0 mask3) 12) (Z.shiftl (Z.land b1 maskx) 6))
                         (Z.land b2 maskx) in
          if (rune2Max <? r) && negb ((surrogateMin <=? r) && (r <=? surrogateMax))
          then (r, 3) else (runeError, 1)
        else (runeError, 1)
      | _ => (runeError, 1)
      end
    else if (t4 <=? b0) && (b0 <? t5) then
      match t with
      | b1 :: b2 :: b3 :: _ =>
        if cont b1 && cont b2 && cont b3 then
          let r := Z.lor (Z.lor (Z.lor (Z.shiftl (Z.land b0 mask4) 18) (Z.shiftl (Z.land b1 maskx) 12))
                                (Z.shiftl (Z.land b2 maskx) 6)) (Z.land b3 maskx) in
          if (rune3Max <? r) && (r <=? maxRune) then (r, 4) else (runeError, 1)
        else (runeError, 1)
      | _ => (runeError, 1)
      end
    else (runeError, 1)
  end.

(* decoderune(s, k) = (rune, index after it) *)
Definition decoderune (s : list Z) (k : Z) : Z * Z :=
  if Z.of_nat (length s) <=? k then (runeError, k + 1)
  else let '(r, w) := dec_at (skipn (Z.to_nat k) s) in (r, k + w).

Definition byte (z : Z) : Z := z mod 256.
Definition u32 (z : Z) : Z := z mod 2 ^ 32.

(* encoderune: the bytes written and (their number is) the result *)
Definition encoderune (r : Z) : list Z :=
  let i := u32 r in
  if i <=? rune1Max then [byte r]
  else if i <=? rune2Max then
    [Z.lor t2 (byte (Z.shiftr r 6)); Z.lor tx (Z.land (byte r) maskx)]
  else
    let enc3 (r : Z) :=
      [Z.lor t3 (byte (Z.shiftr r 12)); Z.lor tx (Z.land (byte (Z.shiftr r 6)) maskx);
       Z.lor tx (Z.land (byte r) maskx)] in
    if (maxRune <? i) || ((surrogateMin <=? i) && (i <=? surrogateMax)) then enc3 runeError
    else if i <=? rune3Max then enc3 r
    else
      [Z.lor t4 (byte (Z.shiftr r 18)); Z.lor tx (Z.land (byte (Z.shiftr r 12)) maskx);
       Z.lor tx (Z.land (byte (Z.shiftr r 6)) maskx); Z.lor tx (Z.land (byte r) maskx)].

(* ---------- independent specification (Unicode, well-formed UTF-8) ---------- *)

Definition in_rng (lo hi b : Z) : bool := (lo <=? b) && (b <=? hi).

Definition spec_decode (s : list Z) : option (Z * Z) :=
  match s with
  | [] => None
  | b0 :: t =>
    if in_rng 0 127 b0 then Some (b0, 1)
    else if in_rng 194 223 b0 then
      match t with
      | b1 :: _ => if in_rng 128 191 b1 then Some ((b0 - 192) * 64 + (b1 - 128), 2) else None
      | _ => None
      end
    else if in_rng 224 239 b0 then
      match t with
      | b1 :: b2 :: _ =>
        let lo := if b0 =? 224 then 160 else 128 in
        let hi := if b0 =? 237 then 159 else 191 in
        if in_rng lo hi b1 && in_rng 128 191 b2
        then Some ((b0 - 224) * 4096 + (b1 - 128) * 64 + (b2 - 128), 3) else None
      | _ => None
      end
    else if in_rng 240 244 b0 then
      match t with
      | b1 :: b2 :: b3 :: _ =>
        let lo := if b0 =? 240 then 144 else 128 in
        let hi := if b0 =? 244 then 143 else 191 in
        if in_rng lo hi b1 && in_rng 128 191 b2 && in_rng 128 191 b3
        then Some ((b0 - 240) * 262144 + (b1 - 128) * 4096 + (b2 - 128) * 64 + (b3 - 128), 4) else None
      | _ => None
      end
    else None
  end.

Definition scalar (r : Z) : bool :=
  (0 <=? r) && (r <=? maxRune) && negb ((surrogateMin <=? r) && (r <=? surrogateMax)).

Definition spec_encode (r : Z) : list Z :=
  if r <? 128 then [r]
  else if r <? 2048 then [192 + r / 64; 128 + r mod 64]
  else if r <? 65536 then [224 + r / 4096; 128 + (r / 64) mod 64; 128 + r mod 64]
  else [240 + r / 262144; 128 + (r / 4096) mod 64; 128 + (r / 64) mod 64; 128 + r mod 64].

(* ---------- z_string.go ---------- *)

(* StringIterNext repeated until ok = false: the (index, rune) pairs *)
Fixpoint iter_from (fuel : nat) (s : list Z) (pos : Z) : list (Z * Z) :=
  match fuel with
  | O => []
  | S f =>
    if Z.of_nat (length s) <=? pos then []
    else
      let c := nth (Z.to_nat pos) s 0 in
      if c <? runeSelf then (pos, c) :: iter_from f s (pos + 1)
      else let '(v, p') := decoderune s pos in (pos, v) :: iter_from f s p'
  end.
Definition string_iter (s : list Z) : list (Z * Z) := iter_from (length s) s 0.

Definition string_to_runes (s : list Z) : list Z := map snd (string_iter s).

Definition string_from_runes (rs : list Z) : list Z := flat_map encoderune rs.

(* StringCat on the memory model: AllocU (garbage, here 170), two memcpy *)
Definition alloc_u (h : heap) (n : Z) : heap * ptr :=
  (h ++ [repeat 170 (Z.to_nat n)], mkP (length h) 0).

Definition string_cat (a b : list Z) : list Z :=
  let la := Z.of_nat (length a) in
  let lb := Z.of_nat (length b) in
  let n := la + lb in
  let '(h1, dest) := alloc_u heap0 n in
  let h2 := memcpy h1 dest (SrcBytes a) la in
  let h3 := memcpy h2 (advance dest la) (SrcBytes b) lb in
  rd h3 dest n.

Definition string_slice (s : list Z) (i j : Z) : option (list Z) :=
  let len := Z.of_nat (length s) in
  if (i <? 0) || (j <? i) || (len <? j) then None
  else if i <? len then Some (firstn (Z.to_nat (j - i)) (skipn (Z.to_nat i) s))
  else Some [].

Fixpoint eq_loop (x y : list Z) : bool :=
  match x, y with
  | a :: x', b :: y' => if a =? b then eq_loop x' y' else false
  | _, _ => true
  end.
Definition string_equal (x y : list Z) : bool :=
  if Z.of_nat (length x) =? Z.of_nat (length y) then eq_loop x y else false.

Fixpoint string_less (x y : list Z) : bool :=
  match x, y with
  | a :: x', b :: y' => if a <? b then true else if b <? a then false else string_less x' y'
  | [], _ :: _ => true
  | _, [] => false
  end.

Definition string_from_rune (r : Z) : list Z := encoderune r.
Definition string_from_int64 (r : Z) : list Z :=
  if (r <? 0) || (maxRune <? r) then string_from_rune runeError else string_from_rune r.
(* the argument is the uint64 value *)
Definition string_from_uint64 (r : Z) : list Z :=
  if maxRune <? r then string_from_rune runeError else string_from_rune r.

(* ---------- entry points of the correspondence check ---------- *)

Fixpoint flat2 (l : list (Z * Z)) : list Z :=
  match l with [] => [] | (a, b) :: t => a :: b :: flat2 t end.

Definition str1_model (s : list Z) : list (list Z) :=
  let rs := string_to_runes s in
  [flat2 (map (fun k => decoderune s (Z.of_nat k)) (seq 0 (S (length s))));
   flat2 (string_iter s); rs; string_from_runes rs].

Definition b2z (b : bool) : Z := if b then 1 else 0.

Definition str2_model (x : (list Z * list Z) * (Z * Z)) : list (list Z) :=
  let '((a, b), (i, j)) := x in
  [string_cat a b; [b2z (string_equal a b)]; [b2z (string_less a b)];
   match string_slice a i j with None => [-1] | Some t => Z.of_nat (length t) :: t end].

Definition enc_model (r : Z) : list (list Z) := [encoderune r].
Definition fromint_model (x : Z) : list (list Z) :=
  [string_from_int64 x; string_from_uint64 (u64 x)].
Definition frunes_model (rs : list Z) : list (list Z) := [string_from_runes rs].
