(* C05 - lemmas about the slice model (Model.v). *)
From LLGoV Require Import C05.Model.
Local Open Scope Z_scope.

(* ---------- lists ---------- *)

Lemma length_upd {A} (l : list A) i x : length (upd l i x) = length l.
Proof. revert i; induction l as [|y l IH]; intros [|i]; cbn; auto. Qed.

Lemma nth_upd_same {A} (l : list A) i x d : (i < length l)%nat -> nth i (upd l i x) d = x.
Proof. revert i; induction l as [|y l IH]; intros [|i]; cbn; intros; try lia; auto. apply IH; lia. Qed.

Lemma nth_upd_other {A} (l : list A) i j x d : i <> j -> nth j (upd l i x) d = nth j l d.
Proof.
  revert i j; induction l as [|y l IH]; intros [|i] [|j]; cbn; intros; try congruence; auto.
Qed.

Lemma length_splice a off bs :
  (off + length bs <= length a)%nat -> length (splice a off bs) = length a.
Proof. intros. unfold splice. rewrite !app_length, firstn_length, skipn_length. lia. Qed.

(* reading from o up to the end of a store made at off >= o *)
Lemma read_splice_upto a off bs o :
  (o <= off)%nat -> (off + length bs <= length a)%nat ->
  firstn (off - o + length bs) (skipn o (splice a off bs)) = firstn (off - o) (skipn o a) ++ bs.
Proof.
  intros. unfold splice. rewrite skipn_app, firstn_length.
  replace (o - Nat.min off (length a))%nat with 0%nat by lia. cbn [skipn].
  rewrite skipn_firstn_comm.
  set (p := firstn (off - o) (skipn o a)).
  assert (Hp : length p = (off - o)%nat) by (unfold p; rewrite firstn_length, skipn_length; lia).
  rewrite <- Hp at 1. rewrite firstn_app_2. f_equal.
  rewrite <- (Nat.add_0_r (length bs)), firstn_app_2. cbn. apply app_nil_r.
Qed.

Lemma nth_splice_outside a off bs i d :
  (off + length bs <= length a)%nat -> (i < off \/ off + length bs <= i)%nat ->
  nth i (splice a off bs) d = nth i a d.
Proof.
  intros Hfit Hi. unfold splice.
  assert (Hl : length (firstn off a) = off) by (rewrite firstn_length; lia).
  destruct Hi as [Hi|Hi].
  - rewrite app_nth1 by lia. rewrite <- (firstn_skipn off a) at 2. rewrite app_nth1 by lia. reflexivity.
  - rewrite app_nth2 by lia. rewrite app_nth2 by lia. rewrite Hl.
    rewrite <- (firstn_skipn (off + length bs) a) at 2.
    rewrite app_nth2 by (rewrite firstn_length; lia). rewrite firstn_length. f_equal. lia.
Qed.

Lemma nth_firstn_lt {A} (l : list A) n i d : (i < n)%nat -> nth i (firstn n l) d = nth i l d.
Proof.
  revert n i; induction l as [|x l IH]; intros [|n] [|i]; cbn; intros; try lia; auto. apply IH; lia.
Qed.

Lemma nth_skipn_add {A} (l : list A) n i d : nth i (skipn n l) d = nth (n + i) l d.
Proof.
  revert n; induction l as [|x l IH]; intros [|n]; cbn; auto. destruct i; auto.
Qed.

Lemma read_splice_outside a off bs o n :
  (off + length bs <= length a)%nat -> (o + n <= off \/ off + length bs <= o)%nat ->
  firstn n (skipn o (splice a off bs)) = firstn n (skipn o a).
Proof.
  intros Hfit Ho.
  apply nth_ext with (d := 0) (d' := 0).
  - rewrite !firstn_length, !skipn_length, length_splice; auto.
  - intros i Hi. rewrite firstn_length, skipn_length, length_splice in Hi by auto.
    rewrite !nth_firstn_lt by lia. rewrite !nth_skipn_add. apply nth_splice_outside; auto. lia.
Qed.

(* ---------- memory ---------- *)

Definition fits (h : heap) (p : ptr) (n : Z) : Prop :=
  0 <= poff p /\ poff p + n <= Z.of_nat (length (blk h (pid p))) /\ (pid p < length h)%nat.

Lemma wr_fits_eq h p bs : fits h p (Z.of_nat (length bs)) ->
  wr h p bs = upd h (pid p) (splice (blk h (pid p)) (Z.to_nat (poff p)) bs).
Proof.
  intros (H0 & H1 & H2). unfold wr.
  destruct (Z.leb_spec 0 (poff p)); try lia.
  destruct (Z.leb_spec (poff p + Z.of_nat (length bs)) (Z.of_nat (length (blk h (pid p))))); try lia.
  reflexivity.
Qed.

Lemma length_wr h p bs : length (wr h p bs) = length h.
Proof. unfold wr. destruct (_ && _); auto using length_upd. Qed.

Lemma blk_wr_other h p bs id : id <> pid p -> blk (wr h p bs) id = blk h id.
Proof.
  intros. unfold wr. destruct (_ && _); auto. unfold blk. apply nth_upd_other. congruence.
Qed.

Lemma blk_wr_same h p bs : fits h p (Z.of_nat (length bs)) ->
  blk (wr h p bs) (pid p) = splice (blk h (pid p)) (Z.to_nat (poff p)) bs.
Proof. intros F. rewrite wr_fits_eq by auto. unfold blk at 1. apply nth_upd_same. apply F. Qed.

Lemma length_blk_wr h p bs id : length (blk (wr h p bs) id) = length (blk h id).
Proof.
  unfold wr.
  destruct (Z.leb_spec 0 (poff p)); cbn [andb]; auto.
  destruct (Z.leb_spec (poff p + Z.of_nat (length bs)) (Z.of_nat (length (blk h (pid p))))); auto.
  destruct (Nat.eq_dec id (pid p)) as [->|N].
  - destruct (Nat.lt_ge_cases (pid p) (length h)).
    + unfold blk at 1. rewrite nth_upd_same by auto. apply length_splice. lia.
    + unfold blk. rewrite !nth_overflow; auto. rewrite length_upd; lia.
  - unfold blk. rewrite nth_upd_other; auto.
Qed.

Lemma blk_alloc_old h n id : (id < length h)%nat -> blk (fst (alloc h n)) id = blk h id.
Proof. intros. unfold alloc, blk; cbn. apply app_nth1; auto. Qed.

Lemma blk_alloc_new h n : blk (fst (alloc h n)) (length h) = repeat 0 (Z.to_nat n).
Proof. unfold alloc, blk; cbn. rewrite app_nth2 by lia. rewrite Nat.sub_diag. reflexivity. Qed.

Lemma length_rd h p n : 0 <= n -> fits h p n -> length (rd h p n) = Z.to_nat n.
Proof. intros Hn (H0 & H1 & _). unfold rd. rewrite firstn_length, skipn_length. lia. Qed.

(* ---------- well-formed slices ---------- *)

Definition wf_slice (es : Z) (h : heap) (s : slice) : Prop :=
  0 <= slen s <= scap s /\ fits h (sdata s) (scap s * es).

(* the source operand really has n bytes *)
Definition src_ok (h : heap) (src : source) (n : Z) : Prop :=
  match src with
  | SrcPtr p => fits h p n
  | SrcBytes bs => n <= Z.of_nat (length bs)
  end.

Lemma length_src_read h src n : 0 <= n -> src_ok h src n -> length (src_read h src n) = Z.to_nat n.
Proof.
  intros Hn. destruct src as [p|bs]; cbn; intros Hs.
  - apply length_rd; auto.
  - rewrite firstn_length. lia.
Qed.

Lemma src_read_alloc h src n m : src_ok h src n -> src_read (fst (alloc h m)) src n = src_read h src n.
Proof.
  destruct src as [p|bs]; cbn; auto. intros (_ & _ & Hp). unfold rd.
  change (h ++ [repeat 0 (Z.to_nat m)]) with (fst (alloc h m)). now rewrite blk_alloc_old.
Qed.

(* ---------- nextslicecap ---------- *)

Ltac pows := change (2 ^ 64) with 18446744073709551616 in *;
             change (2 ^ 63) with 9223372036854775808 in *.

Lemma wrap64_small z : 0 <= z < 2 ^ 63 -> wrap64 z = z.
Proof.
  intros. unfold wrap64. rewrite Z.mod_small by (pows; lia).
  destruct (Z.ltb_spec z (2 ^ 63)); lia.
Qed.

Lemma wrap64_range z : - 2 ^ 63 <= wrap64 z < 2 ^ 63.
Proof.
  unfold wrap64. pose proof (Z.mod_pos_bound z (2 ^ 64) ltac:(pows; lia)).
  destruct (Z.ltb_spec (z mod 2 ^ 64) (2 ^ 63)); pows; lia.
Qed.

Lemma u64_small z : 0 <= z < 2 ^ 64 -> u64 z = z.
Proof. intros. unfold u64. apply Z.mod_small; auto. Qed.

Lemma cap_loop_exit fuel c n nc : cap_loop fuel c n = Some nc -> u64 n <= u64 nc.
Proof.
  revert c; induction fuel as [|f IH]; intros c; cbn [cap_loop]; cbv zeta; try discriminate.
  match goal with |- context [if ?b then _ else _] => destruct b eqn:E end.
  - intros [= <-]. now apply Z.leb_le.
  - apply IH.
Qed.

Lemma cap_loop_range fuel c n nc : cap_loop fuel c n = Some nc -> - 2 ^ 63 <= nc < 2 ^ 63.
Proof.
  revert c; induction fuel as [|f IH]; intros c; cbn [cap_loop]; cbv zeta; try discriminate.
  match goal with |- context [if ?b then _ else _] => destruct b eqn:E end.
  - intros [= <-]. apply wrap64_range.
  - apply IH.
Qed.

Lemma nextslicecap_ge newLen oldCap :
  0 <= oldCap < 2 ^ 63 -> 0 < newLen < 2 ^ 63 -> newLen <= nextslicecap newLen oldCap.
Proof.
  intros Hc Hn. unfold nextslicecap, nextslicecap_opt.
  destruct (Z.ltb_spec (wrap64 (oldCap + oldCap)) newLen); try lia.
  destruct (Z.ltb_spec oldCap 256).
  - rewrite wrap64_small in * by (pows; lia). lia.
  - destruct (cap_loop cap_fuel oldCap newLen) as [nc|] eqn:E; try lia.
    pose proof (cap_loop_range _ _ _ _ E) as R. apply cap_loop_exit in E.
    destruct (Z.leb_spec nc 0); try lia.
    rewrite !u64_small in E by (pows; lia). lia.
Qed.

(* ---------- reads after writes ---------- *)

Lemma upd_nth_same {A} (l : list A) i d : upd l i (nth i l d) = l.
Proof. revert i; induction l as [|x l IH]; intros [|i]; cbn; auto. now rewrite IH. Qed.

Lemma splice_nil a off : splice a off [] = a.
Proof. unfold splice. cbn. rewrite Nat.add_0_r. apply firstn_skipn. Qed.

Lemma wr_nil h p : wr h p [] = h.
Proof. unfold wr. destruct (_ && _); auto. rewrite splice_nil. apply upd_nth_same. Qed.

Lemma rd_zero h p : rd h p 0 = [].
Proof. reflexivity. Qed.

Lemma rd_ext h1 h2 p n : blk h1 (pid p) = blk h2 (pid p) -> rd h1 p n = rd h2 p n.
Proof. unfold rd. now intros ->. Qed.

Lemma fits_wr h q bs p n : fits (wr h q bs) p n <-> fits h p n.
Proof. unfold fits. rewrite length_blk_wr, length_wr. tauto. Qed.

Lemma fits_alloc_old h m p n : fits h p n -> fits (fst (alloc h m)) p n.
Proof.
  intros (A & B & C). unfold fits. rewrite blk_alloc_old by auto. repeat split; auto.
  unfold alloc; cbn. rewrite app_length. lia.
Qed.

Lemma rd_wr_upto h p bs o :
  fits h p (Z.of_nat (length bs)) -> 0 <= o <= poff p ->
  rd (wr h p bs) (mkP (pid p) o) (poff p - o + Z.of_nat (length bs))
  = rd h (mkP (pid p) o) (poff p - o) ++ bs.
Proof.
  intros F Ho. unfold rd; cbn [pid poff]. rewrite blk_wr_same by auto.
  destruct F as (F0 & F1 & F2).
  replace (Z.to_nat (poff p - o + Z.of_nat (length bs)))
    with (Z.to_nat (poff p) - Z.to_nat o + length bs)%nat by lia.
  rewrite read_splice_upto by lia. f_equal. f_equal. lia.
Qed.

Lemma src_read_ext h1 h2 src n :
  (forall id, (id < length h1)%nat -> blk h2 id = blk h1 id) ->
  src_ok h1 src n -> src_read h2 src n = src_read h1 src n.
Proof.
  destruct src as [p|bs]; cbn; auto. intros E (_ & _ & Hp). apply rd_ext. now apply E.
Qed.

(* ---------- append ---------- *)

Lemma mul_le_es a b es : 0 < es -> a <= b -> a * es <= b * es.
Proof. intros. nia. Qed.

Theorem append_spec_lemma fixed es h s src num h' r ovl :
  0 < es -> 0 <= num -> slen s + num < 2 ^ 63 -> scap s < 2 ^ 63 ->
  wf_slice es h s -> src_ok h src (num * es) ->
  slice_append_gen fixed es h s src num = (h', r, ovl) ->
  slen r = slen s + num
  /\ rd h' (sdata r) (slen r * es) = rd h (sdata s) (slen s * es) ++ src_read h src (num * es)
  /\ wf_slice es h' r
  /\ (slen s + num <= scap s ->
        sdata r = sdata s /\ scap r = scap s /\ length h' = length h
        /\ forall i d, (Z.of_nat i < poff (sdata s) + slen s * es
                        \/ poff (sdata s) + (slen s + num) * es <= Z.of_nat i) ->
             nth i (blk h' (pid (sdata s))) d = nth i (blk h (pid (sdata s))) d)
  /\ (scap s < slen s + num ->
        sdata r = mkP (length h) 0 /\ length h' = S (length h) /\ slen r <= scap r)
  /\ (forall id, (id < length h)%nat -> id <> pid (sdata r) -> blk h' id = blk h id).
Proof.
  intros Hes Hnum Hbig Hcapb ((Hl0 & Hl1) & F) Hsrc. unfold slice_append_gen.
  destruct (Z.eqb_spec es 0); try lia.
  unfold grow_slice. destruct (Z.ltb_spec (scap s) (slen s + num)) as [Hg|Hg].
  - (* a new backing array *)
    pose proof (nextslicecap_ge (slen s + num) (scap s) ltac:(lia) ltac:(lia)) as Hge.
    set (nc := nextslicecap (slen s + num) (scap s)) in *.
    destruct (alloc h (nc * es)) as [h1 p] eqn:EA.
    assert (Ep : p = mkP (length h) 0) by (unfold alloc in EA; congruence).
    assert (Eh1 : h1 = fst (alloc h (nc * es))) by (rewrite EA; auto).
    set (old := rd h (sdata s) (slen s * es)).
    assert (Lold : length old = Z.to_nat (slen s * es)).
    { apply length_rd; try nia. destruct F as (A & B & C). repeat split; auto. nia. }
    assert (Eold : rd h1 (sdata s) (slen s * es) = old).
    { unfold old. apply rd_ext. rewrite Eh1. apply blk_alloc_old, F. }
    assert (Eh2 : (if slen s =? 0 then h1 else memcpy h1 p (SrcPtr (sdata s)) (slen s * es)) = wr h1 p old).
    { destruct (Z.eqb_spec (slen s) 0) as [Z0|NZ].
      - assert (old = []) as -> by (unfold old; rewrite Z0; reflexivity). now rewrite wr_nil.
      - unfold memcpy, memmove; cbn [src_read]. now rewrite Eold. }
    rewrite Eh2. clear Eh2.
    assert (Bnew : blk h1 (length h) = repeat 0 (Z.to_nat (nc * es))) by (rewrite Eh1; apply blk_alloc_new).
    assert (Lh1 : length h1 = S (length h)) by (rewrite Eh1; unfold alloc; cbn; rewrite app_length; cbn; lia).
    assert (Fp : fits h1 p (Z.of_nat (length old))).
    { rewrite Ep. unfold fits; cbn [pid poff]. rewrite Bnew, repeat_length, Lold. repeat split; try lia. nia. }
    set (h2 := wr h1 p old).
    set (data := src_read h2 src (num * es)).
    assert (Old1 : forall id, (id < length h)%nat -> blk h2 id = blk h id).
    { intros id Hid. unfold h2. rewrite blk_wr_other by (rewrite Ep; cbn; lia). rewrite Eh1. now apply blk_alloc_old. }
    assert (Edata : data = src_read h src (num * es)) by (apply src_read_ext; auto).
    assert (Ldata : length data = Z.to_nat (num * es)) by (rewrite Edata; apply length_src_read; auto; nia).
    assert (Fd : fits h2 (advance p (slen s * es)) (Z.of_nat (length data))).
    { apply fits_wr. rewrite Ep. unfold fits, advance; cbn [pid poff]. rewrite Bnew, repeat_length, Ldata.
      repeat split; try lia; nia. }
    intros [= <- <- <-]. cbn [slen scap sdata]. unfold memmove. fold data.
    split; [reflexivity|]. split.
    { (* contents *)
      pose proof (rd_wr_upto h2 (advance p (slen s * es)) data 0 Fd) as R.
      cbn [advance pid poff] in R. rewrite Ep in R; cbn [pid poff] in R.
      rewrite Ep. replace ((slen s + num) * es) with (0 + slen s * es - 0 + Z.of_nat (length data)) by (rewrite Ldata; nia).
      rewrite R by nia. rewrite Edata. f_equal.
      pose proof (rd_wr_upto h1 p old 0 Fp) as R1. rewrite Ep in R1; cbn [pid poff] in R1.
      unfold h2. rewrite Ep. replace (0 + slen s * es - 0) with (0 - 0 + Z.of_nat (length old)) by (rewrite Lold; nia).
      rewrite R1 by lia. reflexivity. }
    split.
    { unfold wf_slice; cbn [slen scap sdata]. split; [lia|]. apply fits_wr. unfold h2. apply fits_wr. rewrite Ep. unfold fits; cbn [pid poff].
      rewrite Bnew, repeat_length. repeat split; try lia; try nia. }
    split; [intros; lia|]. split.
    { intros _. split; [exact Ep|]. split; [|lia]. unfold h2. rewrite !length_wr. exact Lh1. }
    intros id Hid Hne. rewrite blk_wr_other by (rewrite Ep; cbn; lia). now apply Old1.
  - (* in place *)
    set (data := src_read h src (num * es)).
    assert (Ldata : length data = Z.to_nat (num * es)) by (apply length_src_read; auto; nia).
    destruct F as (F0 & F1 & F2).
    assert (Fd : fits h (advance (sdata s) (slen s * es)) (Z.of_nat (length data))).
    { unfold fits, advance; cbn [pid poff]. rewrite Ldata. repeat split; auto; nia. }
    intros [= <- <- <-]. cbn [slen scap sdata]. unfold memmove. fold data.
    split; [reflexivity|]. split.
    { pose proof (rd_wr_upto h (advance (sdata s) (slen s * es)) data (poff (sdata s)) Fd) as R.
      cbn [advance pid poff] in R.
      replace (mkP (pid (sdata s)) (poff (sdata s))) with (sdata s) in R by (destruct (sdata s); reflexivity).
      replace ((slen s + num) * es) with (poff (sdata s) + slen s * es - poff (sdata s) + Z.of_nat (length data))
        by (rewrite Ldata; nia).
      rewrite R by nia. f_equal. f_equal. lia. }
    split.
    { unfold wf_slice; cbn [slen scap sdata]. split; [lia|]. apply fits_wr. repeat split; auto. }
    split.
    { intros _. repeat split; auto using length_wr. intros i d Hi.
      change (pid (sdata s)) with (pid (advance (sdata s) (slen s * es))) at 1.
      rewrite blk_wr_same by auto. cbn [advance pid poff]. apply nth_splice_outside; rewrite Ldata; nia. }
    split; [intros; lia|].
    intros id Hid Hne. apply blk_wr_other. cbn. auto.
Qed.

(* zero-size elements before the repair: the argument came back unchanged (F2) *)
Lemma append_zero_size_same h s src num : slice_append_gen false 0 h s src num = (h, s, false).
Proof. reflexivity. Qed.

Lemma append_zero_size_witness :
  exists h s src num, wf_slice 0 h s /\ src_ok h src (num * 0) /\ 0 < num /\
    slen (snd (fst (slice_append_gen false 0 h s src num))) <> slen s + num.
Proof.
  exists heap0, nils, (SrcBytes []), 1. unfold wf_slice, fits. cbn. intuition lia.
Qed.

(* zero-size elements, the code that exists: the length grows by num, cap
   follows when needed, no byte of memory changes, a non-empty result is not
   nil, and nothing is allocated when the capacity suffices *)
Lemma append_zero_size_lemma h s src num h' r ovl :
  0 <= num -> wf_slice 0 h s ->
  slice_append_gen true 0 h s src num = (h', r, ovl) ->
  slen r = slen s + num
  /\ slen r <= scap r
  /\ wf_slice 0 h' r
  /\ ovl = false
  /\ (forall id, (id < length h)%nat -> blk h' id = blk h id)
  /\ (slen s + num <= scap s -> h' = h /\ sdata r = sdata s /\ scap r = scap s)
  /\ (scap s < slen s + num -> is_nil (sdata r) = false).
Proof.
  intros Hnum ((L0 & L1) & (F0 & F1 & F2)). unfold slice_append_gen. cbn [Z.eqb].
  destruct (Z.ltb_spec (scap s) (slen s + num)) as [Hg|Hg].
  - destruct (is_nil (sdata s)) eqn:N.
    + cbn [alloc]. intros [= <- <- <-]. cbn [slen scap sdata].
      split; [reflexivity|]. split; [lia|]. split.
      { unfold wf_slice, fits; cbn [slen scap sdata pid poff]. split; [lia|]. split; [lia|]. split.
        - unfold blk. rewrite app_nth2 by lia. rewrite Nat.sub_diag. cbn. lia.
        - rewrite app_length. cbn. lia. }
      split; [reflexivity|]. split.
      { intros id Hid. unfold blk. now rewrite app_nth1. }
      split; [intros; lia|].
      intros _. unfold is_nil; cbn [pid]. destruct (length h) eqn:E; [lia|reflexivity].
    + intros [= <- <- <-]. cbn [slen scap sdata].
      split; [reflexivity|]. split; [lia|]. split.
      { unfold wf_slice, fits; cbn [slen scap sdata]. repeat split; lia. }
      split; [reflexivity|]. split; [auto|]. split; [intros; lia|]. auto.
  - intros [= <- <- <-]. cbn [slen scap sdata].
    split; [reflexivity|]. split; [lia|]. split.
    { unfold wf_slice, fits; cbn [slen scap sdata]. repeat split; lia. }
    split; [reflexivity|]. split; [auto|]. split; [auto|]. intros; lia.
Qed.

(* the memcpy contract before the repair: never broken when the slice grew, but
   broken by in-place appends; with memmove there is no contract to break *)
Lemma append_grow_no_overlap fixed es h s src num :
  0 < es -> wf_slice es h s -> src_ok h src (num * es) -> scap s < slen s + num ->
  snd (slice_append_gen fixed es h s src num) = false.
Proof.
  intros Hes (_ & F) Hs Hg. unfold slice_append_gen. destruct (Z.eqb_spec es 0); try lia.
  unfold grow_slice. destruct (Z.ltb_spec (scap s) (slen s + num)); try lia.
  destruct (alloc h _) as [h1 p] eqn:EA. cbn [snd sdata].
  destruct fixed; auto.
  assert (Ep : p = mkP (length h) 0) by (unfold alloc in EA; congruence). subst p.
  destruct src as [q|bs]; cbn; auto. destruct Hs as (_ & _ & Hq).
  unfold overlap; cbn [pid poff advance].
  destruct (Nat.eqb_spec (length h) (pid q)); try lia; try (now rewrite andb_false_r).
Qed.

Lemma append_overlap_witness :
  exists es h s src num, 0 < es /\ wf_slice es h s /\ src_ok h src (num * es) /\
    slen s + num <= scap s /\ snd (slice_append_gen false es h s src num) = true.
Proof.
  (* insert idiom: append(x[:2], x[1:3]...) on a block of 8 bytes *)
  exists 1, [[]; [1; 2; 3; 0; 0; 0; 0; 0]], (mkS (mkP 1 0) 2 8), (SrcPtr (mkP 1 1)), 2.
  unfold wf_slice, fits, src_ok, fits. cbn. intuition lia.
Qed.

Lemma append_fixed_no_contract es h s src num : snd (slice_append_gen true es h s src num) = false.
Proof.
  unfold slice_append_gen. destruct (es =? 0).
  - destruct (scap s <? slen s + num); [destruct (is_nil (sdata s))|]; reflexivity.
  - destruct (grow_slice es h s num). reflexivity.
Qed.

(* ---------- copy ---------- *)

Lemma src_ok_le h src n m : 0 <= m <= n -> src_ok h src n -> src_ok h src m.
Proof.
  destruct src as [p|bs]; cbn; [|lia]. unfold fits. intros ? (A & B & C). repeat split; auto; lia.
Qed.

Lemma copy_spec_lemma es h dst src num h' n :
  0 <= es -> 0 <= num -> wf_slice es h dst -> src_ok h src (num * es) ->
  slice_copy es h dst src num = (h', n) ->
  n = Z.min (slen dst) num
  /\ rd h' (sdata dst) (n * es) = src_read h src (n * es)
  /\ (forall i d, (Z.of_nat i < poff (sdata dst) \/ poff (sdata dst) + n * es <= Z.of_nat i) ->
        nth i (blk h' (pid (sdata dst))) d = nth i (blk h (pid (sdata dst))) d)
  /\ (forall id, id <> pid (sdata dst) -> blk h' id = blk h id)
  /\ length h' = length h.
Proof.
  intros Hes Hnum ((L0 & L1) & (F0 & F1 & F2)) Hs. unfold slice_copy.
  set (m := if num <? slen dst then num else slen dst).
  assert (Em : m = Z.min (slen dst) num) by (unfold m; destruct (Z.ltb_spec num (slen dst)); lia).
  destruct (Z.ltb_spec 0 m) as [Hp|Hp]; intros [= <- <-].
  - set (data := src_read h src (m * es)).
    assert (Ld : length data = Z.to_nat (m * es)).
    { apply length_src_read; [nia|]. apply src_ok_le with (n := num * es); auto. nia. }
    assert (Fd : fits h (sdata dst) (Z.of_nat (length data))).
    { rewrite Ld. repeat split; auto. nia. }
    unfold memmove. fold data. split; auto. split.
    { pose proof (rd_wr_upto h (sdata dst) data (poff (sdata dst)) Fd ltac:(lia)) as R.
      replace (mkP (pid (sdata dst)) (poff (sdata dst))) with (sdata dst) in R by (destruct (sdata dst); reflexivity).
      replace (m * es) with (poff (sdata dst) - poff (sdata dst) + Z.of_nat (length data)) at 1 by (rewrite Ld; nia).
      rewrite R. rewrite Z.sub_diag. reflexivity. }
    split.
    { intros i d Hi. rewrite blk_wr_same by auto. apply nth_splice_outside; rewrite Ld; nia. }
    split; [intros; now apply blk_wr_other | apply length_wr].
  - split; auto. assert (m * es = 0 \/ m * es < 0) as [->| ] by nia.
    + split; [destruct src; reflexivity|]. auto.
    + split; [|auto]. unfold rd. destruct src; cbn; destruct (m * es); try lia; reflexivity.
Qed.

(* ---------- reslicing ---------- *)

Lemma skipn_skipn_add {A} (l : list A) a b : skipn a (skipn b l) = skipn (b + a) l.
Proof. revert l; induction b as [|b IH]; intros l; cbn; auto. destruct l; cbn; auto. now destruct a. Qed.

Lemma reslice_ok_lemma es h base cap i j k :
  0 <= es -> 0 <= poff base -> 0 <= i <= j -> j <= k <= cap ->
  exists r, new_slice3 base es cap i j k = Ok r /\ slen r = j - i /\ scap r = k - i
    /\ rd h (sdata r) ((k - i) * es) = skipn (Z.to_nat (i * es)) (rd h base (k * es))
    /\ (wf_slice es h (mkS base 0 cap) -> wf_slice es h r).
Proof.
  intros Hes Hoff Hi Hk. unfold new_slice3.
  destruct (Z.ltb_spec k 0); try lia. destruct (Z.ltb_spec cap k); try lia.
  destruct (Z.ltb_spec j 0); try lia. destruct (Z.ltb_spec k j); try lia.
  destruct (Z.ltb_spec i 0); try lia. destruct (Z.ltb_spec j i); try lia. cbn [orb].
  eexists; split; [reflexivity|]. cbn [slen scap sdata]. split; [lia|]. split; [lia|]. split.
  - destruct (Z.ltb_spec 0 (k - i)).
    + unfold rd, advance; cbn [pid poff]. rewrite skipn_firstn_comm, skipn_skipn_add.
      f_equal; [nia|]. f_equal. nia.
    + assert (k = i) as -> by lia. rewrite Z.sub_diag. cbn.
      unfold rd. rewrite skipn_firstn_comm. now rewrite Nat.sub_diag.
  - intros (_ & A & B & C). cbn [sdata scap] in *.
    assert (k * es <= cap * es) by nia. assert (0 <= i * es) by nia. assert (i * es <= k * es) by nia.
    unfold wf_slice; cbn [slen scap sdata]. split; [lia|].
    destruct (Z.ltb_spec 0 (k - i)); unfold fits, advance; cbn [pid poff];
      replace ((k - i) * es) with (k * es - i * es) by ring; repeat split; auto; lia.
Qed.

Lemma reslice_panic_lemma es base cap i j k :
  ~ (0 <= i <= j /\ j <= k <= cap) -> exists c x y, new_slice3 base es cap i j k = Panic c x y.
Proof.
  intros N. unfold new_slice3.
  destruct (Z.ltb_spec k 0); [cbn; eauto|]. destruct (Z.ltb_spec cap k); [cbn; eauto|].
  destruct (Z.ltb_spec j 0); [cbn; eauto|]. destruct (Z.ltb_spec k j); [cbn; eauto|].
  destruct (Z.ltb_spec i 0); [cbn; eauto|]. destruct (Z.ltb_spec j i); [cbn; eauto|]. lia.
Qed.

(* ---------- clear ---------- *)

Lemma clear_spec_lemma es h s :
  0 <= es -> slen s < 2 ^ 63 -> wf_slice es h s ->
  let h' := slice_clear es h s in
  rd h' (sdata s) (slen s * es) = repeat 0 (Z.to_nat (slen s * es))
  /\ (forall i d, (Z.of_nat i < poff (sdata s) \/ poff (sdata s) + slen s * es <= Z.of_nat i) ->
        nth i (blk h' (pid (sdata s))) d = nth i (blk h (pid (sdata s))) d)
  /\ (forall id, id <> pid (sdata s) -> blk h' id = blk h id).
Proof.
  intros Hes Hb ((L0 & L1) & (F0 & F1 & F2)). unfold slice_clear.
  rewrite u64_small by (pows; lia).
  set (z := repeat 0 (Z.to_nat (slen s * es))).
  assert (Lz : length z = Z.to_nat (slen s * es)) by apply repeat_length.
  assert (Fz : fits h (sdata s) (Z.of_nat (length z))) by (rewrite Lz; repeat split; auto; nia).
  cbv zeta. split.
  { pose proof (rd_wr_upto h (sdata s) z (poff (sdata s)) Fz ltac:(lia)) as R.
    replace (mkP (pid (sdata s)) (poff (sdata s))) with (sdata s) in R by (destruct (sdata s); reflexivity).
    replace (slen s * es) with (poff (sdata s) - poff (sdata s) + Z.of_nat (length z)) at 1 by (rewrite Lz; nia).
    rewrite R, Z.sub_diag. reflexivity. }
  split.
  { intros i d Hi. rewrite blk_wr_same by auto. apply nth_splice_outside; rewrite Lz; nia. }
  intros; now apply blk_wr_other.
Qed.

(* ---------- the growth loop always terminates within its fuel ---------- *)

Lemma cap_loop_progress f c n :
  256 <= c < n -> n <= 2 ^ 62 ->
  cap_loop (S f) c n <> None
  \/ exists c1, 5 * c <= 4 * c1 /\ 256 <= c1 < n /\ cap_loop (S f) c n = cap_loop f c1 n.
Proof.
  intros Hc Hn. cbn [cap_loop]. cbv zeta.
  assert (P62 : 2 ^ 62 = 4611686018427387904) by reflexivity.
  rewrite (wrap64_small (c + 768)) by (pows; lia).
  rewrite Z.shiftr_div_pow2 by lia. change (2 ^ 2) with 4.
  pose proof (Z.div_mod (c + 768) 4 ltac:(lia)) as D.
  pose proof (Z.mod_pos_bound (c + 768) 4 ltac:(lia)) as M.
  set (q := (c + 768) / 4) in *.
  rewrite (wrap64_small (c + q)) by (pows; lia).
  rewrite !u64_small by (pows; lia).
  destruct (Z.leb_spec n (c + q)).
  - left. discriminate.
  - right. exists (c + q). repeat split; try lia.
Qed.

Lemma cap_loop_fuel k : forall fuel c n,
  (4 * k <= fuel)%nat -> 256 <= c < n -> n <= 2 ^ 62 -> n <= c * 2 ^ Z.of_nat k ->
  cap_loop fuel c n <> None.
Proof.
  induction k as [|k IH]; intros fuel c n Hf Hc Hn Hk.
  - cbn in Hk. lia.
  - destruct fuel as [|[|[|[|f]]]]; try lia.
    assert (Hk' : n <= (2 * c) * 2 ^ Z.of_nat k).
    { rewrite Nat2Z.inj_succ, Z.pow_succ_r in Hk by lia. lia. }
    destruct (cap_loop_progress (S (S (S f))) c n Hc Hn) as [D|(c1 & G1 & B1 & E1)]; auto.
    rewrite E1.
    destruct (cap_loop_progress (S (S f)) c1 n B1 Hn) as [D|(c2 & G2 & B2 & E2)]; auto.
    rewrite E2.
    destruct (cap_loop_progress (S f) c2 n B2 Hn) as [D|(c3 & G3 & B3 & E3)]; auto.
    rewrite E3.
    destruct (cap_loop_progress f c3 n B3 Hn) as [D|(c4 & G4 & B4 & E4)]; auto.
    rewrite E4. apply IH; try lia.
    assert (2 * c <= c4) by lia.
    assert (0 <= 2 ^ Z.of_nat k) by (apply Z.pow_nonneg; lia). nia.
Qed.

Lemma cap_fuel_enough_lemma newLen oldCap :
  256 <= oldCap < newLen -> newLen <= 2 ^ 62 -> cap_loop cap_fuel oldCap newLen <> None.
Proof.
  intros Hc Hn. apply (cap_loop_fuel 54); auto.
  - unfold cap_fuel. lia.
  - change (2 ^ Z.of_nat 54) with 18014398509481984.
    assert (2 ^ 62 = 4611686018427387904) by reflexivity. lia.
Qed.
