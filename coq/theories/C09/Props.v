(* C09 - property theorems only (amd64 / System V).  Each is closed by lemmas of Proofs.v
   and followed by Print Assumptions (the driver re-prints them on every run). *)
From LLGoV Require Import Lib.Common C09.Model C09.Proofs.
Local Open Scope N_scope.

(* The classification GetTypeInfo computes (kind and coerced Type1/Type2) has exactly the
   psABI classes of the argument, for EVERY C struct of at most 16 bytes that is laid out
   like the flattening of its element types (no tail padding inside nested structs or array
   elements - flat structs and arrays of scalars always are).  Proved by a complete sweep of
   the 9583 flat scalar lists that fit into 16 bytes (enum_complete shows none is missing). *)
Theorem amd64_classify_eq_sysv : forall t,
  forallb wf_scalar (elems t) = true -> flat_equiv t = true -> elems t <> [] -> csize t <= 16 ->
  classes (csize t) (elems t) (gti t) = sysv t.
Proof. intros t W E NE S. exact (proj1 (classify_ok t W E NE S)). Qed.
Print Assumptions amd64_classify_eq_sysv.

(* elementTypesCount (the leaf count GetTypeInfo branches on) is the number of leaves of the
   flattening elementTypes, for every shape: in particular an array - of scalars, of structs,
   of arrays - counts its length times the leaves of its element. *)
Theorem leaf_count_is_flatten_length : forall t, ecount t = N.of_nat (length (elems t)).
Proof. exact ecount_length. Qed.
Print Assumptions leaf_count_is_flatten_length.

Theorem leaf_count_array : forall n e,
  N.of_nat (length (elems (CArr n e))) = n * N.of_nat (length (elems e)).
Proof. intros n e. rewrite <- !ecount_length. reflexivity. Qed.
Print Assumptions leaf_count_array.

(* GetTypeInfo depends on the shape only through its size, its alignment and the flattened
   leaf sequence: nesting (arrays of structs, nested arrays, nested structs) is invisible. *)
Theorem classification_depends_on_leaves_only : forall t u,
  csize t = csize u -> calign t = calign u -> elems t = elems u -> gti t = gti u.
Proof. intros t u S A E. unfold gti. rewrite !ecount_length, S, A, E. reflexivity. Qed.
Print Assumptions classification_depends_on_leaves_only.

Example leaves_only_nontrivial :
  let t := CStruct [CS (SI 8); CArr 1 (CStruct [CS (SI 4); CS (SI 4)])] in
  let u := CStruct [CS (SI 8); CS (SI 4); CS (SI 4)] in
  ecount t = 3 /\ elems t = elems u /\ gti t = TW2 (KScalar (SI 8)) (KInt 64) /\ gti t = gti u /\ covers t = true.
Proof. repeat split. Qed.

(* MEMORY (byval / sret pointer) exactly when the aggregate is larger than two eightbytes;
   any shape, nested or not. *)
Theorem amd64_memory_iff_gt16 : forall t,
  (2 <= length (elems t))%nat -> (gti t = TPtr <-> 16 < csize t) /\ (16 < csize t -> sysv t = [Memory]).
Proof. intros t L. split; [now apply gti_memory|apply sysv_memory]. Qed.
Print Assumptions amd64_memory_iff_gt16.

(* Storing the value as the struct and loading the coerced parts from the same memory (and
   the way back) transports every byte of every field, for every byte image and whatever the
   destination held before; and no coerced part reaches past the value (covers). *)
Theorem coerced_covers_bytes : forall t img base,
  forallb wf_scalar (elems t) = true -> flat_equiv t = true -> elems t <> [] -> csize t <= 16 ->
  length img = N.to_nat (csize t) -> length base = length img ->
  let rs := ranges (csize t) (gti t) in
  covers t = true /\
  forall o s i, In (o, s) (flat 0 t) -> o <= i < o + ssz s ->
    nth (N.to_nat i) (unpack rs (pack rs img) base) 0 = nth (N.to_nat i) img 0.
Proof.
  intros t img base W E NE S LI LB rs.
  pose proof (proj2 (classify_ok t W E NE S)) as C. split; [exact C|].
  intros o s i I R. exact (covers_roundtrip (csize t) (flat 0 t) rs img base C LI LB o s i I R).
Qed.
Print Assumptions coerced_covers_bytes.

(* the hypotheses are met by non-trivial shapes *)
Example classify_nontrivial :
  let t := CStruct [CStruct [CS SF32; CS SF32]; CArr 2 (CS (SI 2)); CS (SI 1)] in
  forallb wf_scalar (elems t) = true /\ flat_equiv t = true /\ csize t = 16 /\
  gti t = TW2 KV2F (KInt 64) /\ sysv t = [Sse; Integer].
Proof. repeat split. Qed.

(* ---- where the unchanged tree violates the property ---- *)

(* Nested tail padding: struct { struct{int32;int8}; int8; int32 } is coerced to {i64, i32}
   and its last field (bytes 12..15) is not transported; with a float as last field even the
   class of the second eightbyte is wrong (SSE instead of INTEGER). *)
Theorem covers_nested_tail_padding_refuted :
  exists t t', forallb wf_scalar (elems t) = true /\ csize t <= 16 /\ flat_equiv t = false /\
    (exists o s, In (o, s) (flat 0 t) /\ leaves_covered t = false) /\
    classes (csize t') (elems t') (gti t') <> sysv t'.
Proof.
  exists w_tail, w_tail_float. destruct tail_witness as [W [S [F [_ [I [L [C V]]]]]]].
  repeat split; auto. - rewrite S. lia. - exists 12, (SI 4). auto. - rewrite C, V. discriminate.
Qed.
Print Assumptions covers_nested_tail_padding_refuted.

(* The psABI passes an argument in registers only if ALL its eightbytes get one; otherwise
   the whole argument goes to memory.  The two coerced parts are handed over one by one:
   with one free integer register struct{int64;int64} is split between r9 and the stack,
   and a <2 x float> part on the stack is not where the callee reads it. *)
Theorem whole_argument_rule_refuted :
  exists t, flat_equiv t = true /\ covers t = true /\
    psabi_in_regs (sysv t) 1 8 = false /\ seq_any_reg (sysv t) 1 8 = true /\ split_mismatch t 5 0 = true.
Proof.
  exists w_two_i64. destruct split_witness as [F [C [_ [P [Q [M _]]]]]]. auto.
Qed.
Print Assumptions whole_argument_rule_refuted.

(* C strings: CStrCopy followed by a strlen-based read gives back the bytes up to the first
   NUL - the whole string when it has none, whatever follows the terminator in memory. *)
Theorem cstr_roundtrip : forall s rest, nul_free s = true -> from_cstr (to_cstr s ++ rest) = s.
Proof. exact from_to_cstr. Qed.
Print Assumptions cstr_roundtrip.

Theorem cstr_roundtrip_embedded_nul : forall a b rest,
  nul_free a = true -> from_cstr (to_cstr (a ++ 0 :: b) ++ rest) = a.
Proof. exact from_to_cstr_nul. Qed.
Print Assumptions cstr_roundtrip_embedded_nul.
