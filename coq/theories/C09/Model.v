(* C09 - values cross the Go/C boundary intact (amd64 / System V).

   Executable model only.
   - C-compatible shapes (scalars, arrays, nested structs) with their natural layout,
     flattened to (offset, scalar) lists;
   - [sysv]: the System V x86-64 psABI classification written from the specification
     (3.2.3: eightbytes, classes INTEGER / SSE / MEMORY / NO_CLASS, merge rule, more than
     two eightbytes -> MEMORY);
   - [gti]: internal/cabi/arch.go TypeInfoAmd64.GetTypeInfo (kinds AttrNone / AttrPointer /
     AttrWidthType / AttrWidthType2 and the coerced Type1 / Type2), which works on the flat
     list of element TYPES only (elementTypes) plus size and alignment of the whole;
   - [ranges]/[pack]/[unpack]: what transformCallInstr / transformFuncBody do with a value:
     store it as the struct, load the coerced parts from the same memory (and back);
   - [split_mismatch]: the psABI rule that an argument whose eightbytes do not ALL get a
     register goes to memory as a whole, against LLVM assigning the coerced parts one by one;
   - C strings: CStrCopy / strlen-based StringFromCStr. *)
From LLGoV Require Import Lib.Common.
Local Open Scope N_scope.

Inductive scalar := SI (w : N) | SF32 | SF64 | SP.        (* intN, float, double, pointer *)
Inductive cty := CS (s : scalar) | CArr (n : N) (e : cty) | CStruct (fs : list cty).

Definition ssz (s : scalar) : N := match s with SI w => w | SF32 => 4 | SF64 => 8 | SP => 8 end.
Definition wf_scalar (s : scalar) : bool :=
  match s with SI w => (w =? 1) || (w =? 2) || (w =? 4) || (w =? 8) | _ => true end.

Definition scalar_eqb (a b : scalar) : bool :=
  match a, b with
  | SI x, SI y => x =? y | SF32, SF32 => true | SF64, SF64 => true | SP, SP => true | _, _ => false
  end.

Definition align_up (x a : N) : N := if a =? 0 then x else ((x + a - 1) / a) * a.

(* ---- natural layout (alignment = size for every scalar on amd64) ---- *)
Definition sa := (N * N)%type.
Fixpoint offs_from (cur : N) (l : list sa) : list N :=
  match l with [] => [] | (s, a) :: r => let o := align_up cur a in o :: offs_from (o + s) r end.
Fixpoint end_from (cur : N) (l : list sa) : N :=
  match l with [] => cur | (s, a) :: r => end_from (align_up cur a + s) r end.
Definition max_align (l : list sa) : N := fold_right (fun x m => N.max (snd x) m) 1 l.

Fixpoint lay (t : cty) : sa :=
  match t with
  | CS s => (ssz s, ssz s)
  | CArr n e => let '(s, a) := lay e in (n * s, a)
  | CStruct fs => let l := map lay fs in let a := max_align l in (align_up (end_from 0 l) a, a)
  end.
Definition csize t := fst (lay t).
Definition calign t := snd (lay t).

(* leaves with their byte offsets, in memory order *)
Fixpoint rep_flat (f : N -> list (N * scalar)) (base stride : N) (n : nat) : list (N * scalar) :=
  match n with O => [] | S k => f base ++ rep_flat f (base + stride) stride k end.

Fixpoint flat (base : N) (t : cty) : list (N * scalar) :=
  match t with
  | CS s => [(base, s)]
  | CArr n e => rep_flat (fun b => flat b e) base (csize e) (N.to_nat n)
  | CStruct fs =>
      (fix go (cur : N) (l : list cty) : list (N * scalar) :=
         match l with
         | [] => []
         | f :: r => let o := align_up cur (calign f) in flat (base + o) f ++ go (o + csize f) r
         end) 0 fs
  end.
Definition elems (t : cty) : list scalar := map snd (flat 0 t).

(* arch.go elementTypesCount: the number of scalar leaves, computed on its own (not as the
   length of elementTypes): an array counts length x the count of its element *)
Fixpoint ecount (t : cty) : N :=
  match t with
  | CS _ => 1
  | CArr n e => n * ecount e
  | CStruct fs => fold_right (fun f x => ecount f + x) 0 fs
  end.

(* the flat struct with the same element types; arch.go cannot tell it from t *)
Definition flat_struct (l : list scalar) : cty := CStruct (map CS l).

Definition pair_eqb (x y : N * scalar) : bool := (fst x =? fst y) && scalar_eqb (snd x) (snd y).
(* t is laid out exactly like the flat struct of its element types (no nested tail padding) *)
Definition flat_equiv (t : cty) : bool :=
  let u := flat_struct (elems t) in
  (csize t =? csize u) && (calign t =? calign u) && list_eqb pair_eqb (flat 0 t) (flat 0 u).

(* ---- System V psABI 3.2.3, from the specification ---- *)
Inductive cls := NoClass | Integer | Sse | Memory.
Definition cls_eqb (a b : cls) : bool :=
  match a, b with NoClass, NoClass | Integer, Integer | Sse, Sse | Memory, Memory => true | _, _ => false end.
Definition scls (s : scalar) : cls := match s with SF32 | SF64 => Sse | _ => Integer end.

(* rule 4: (a) equal -> that class; (b) one NO_CLASS -> the other; (c) one MEMORY -> MEMORY;
   (d) one INTEGER -> INTEGER; (f) otherwise SSE *)
Definition merge (a b : cls) : cls :=
  if cls_eqb a b then a else
  match a, b with
  | NoClass, x | x, NoClass => x
  | Memory, _ | _, Memory => Memory
  | Integer, _ | _, Integer => Integer
  | _, _ => Sse
  end.

Definition eightbyte_class (fl : list (N * scalar)) (j : N) : cls :=
  fold_left (fun c x => if fst x / 8 =? j then merge c (scls (snd x)) else c) fl NoClass.

Definition sysv_core (sz : N) (fl : list (N * scalar)) : list cls :=
  if 16 <? sz then [Memory]                      (* rule 1 / 5(c): more than two eightbytes *)
  else
    let cs := map (eightbyte_class fl) (if sz <=? 8 then [0] else [0; 1]) in
    if existsb (cls_eqb Memory) cs then [Memory] else cs.     (* rule 5(a) *)
Definition sysv (t : cty) : list cls := sysv_core (csize t) (flat 0 t).

(* ---- internal/cabi/arch.go TypeInfoAmd64.GetTypeInfo ---- *)
Inductive coerced := KScalar (s : scalar) | KInt (bits : N) | KV2F.   (* <2 x float> *)
Inductive tinfo :=
| TKeep                         (* AttrNone: fewer than two elements, passed as it is *)
| TPtr                          (* AttrPointer: byval / sret pointer *)
| TW1 (c : coerced)             (* AttrWidthType *)
| TW2 (c1 c2 : coerced).        (* AttrWidthType2 *)

(* the loop that looks for the element where the running offset reaches 8; the running
   offset is recomputed from the element types alone.  No break leaves index = 0. *)
Fixpoint find_index (ts : list scalar) (i offset : N) : N :=
  match ts with
  | [] => 0
  | et :: r =>
      let offset' := align_up (offset + ssz et) (ssz et) in
      if offset' <? 8 then find_index r (i + 1) offset'
      else if 8 <? offset' then i else i + 1
  end.

Definition sub_type (al : N) (subs : list scalar) (left : bool) : coerced :=
  match subs with
  | [s] => KScalar s
  | [SF32; SF32] => KV2F
  | _ => if left then KInt 64
         else let n := fold_left (fun n s => align_up (n + ssz s) (ssz s)) subs 0 in
              KInt (align_up n al * 8)
  end.

(* n is elementTypesCount(typ), ts is elementTypes(typ) *)
Definition gti_core (sz al n : N) (ts : list scalar) : tinfo :=
  if n <? 2 then TKeep
  else if 16 <? sz then TPtr
  else if sz <=? 8 then
    TW1 (match ts with SF32 :: SF32 :: _ => KV2F | _ => KInt (sz * 8) end)
  else
    let general :=
      let idx := N.to_nat (find_index ts 0 0) in
      TW2 (sub_type al (firstn idx ts) true) (sub_type al (skipn idx ts) false) in
    if n =? 2 then
      match ts with
      | a :: b :: _ => if (ssz a =? 8) || (ssz b =? 8) then TW2 (KScalar a) (KScalar b) else general
      | _ => general
      end
    else general.
Definition gti (t : cty) : tinfo := gti_core (csize t) (calign t) (ecount t) (elems t).

(* LLVM facts about the coerced types: bytes touched by a load/store, ABI alignment, alloc size *)
Definition kstore (c : coerced) : N :=
  match c with KScalar s => ssz s | KInt b => (b + 7) / 8 | KV2F => 8 end.
Definition kalign (c : coerced) : N :=
  match c with
  | KScalar s => ssz s
  | KInt b => if b <=? 8 then 1 else if b <=? 16 then 2 else if b <=? 32 then 4 else 8
  | KV2F => 8
  end.
Definition kalloc (c : coerced) : N := align_up (kstore c) (kalign c).
Definition kcls (c : coerced) : cls := match c with KScalar s => scls s | KInt _ => Integer | KV2F => Sse end.

Definition classes (sz : N) (ts : list scalar) (ti : tinfo) : list cls :=
  match ti with
  | TKeep => map scls ts
  | TPtr => [Memory]
  | TW1 c => [kcls c]
  | TW2 c1 c2 => [kcls c1; kcls c2]
  end.

(* byte ranges (offset, length) of the struct image that travel through the coerced parts *)
Definition ranges (sz : N) (ti : tinfo) : list (N * N) :=
  match ti with
  | TKeep | TPtr => [(0, sz)]
  | TW1 c => [(0, kstore c)]
  | TW2 c1 c2 => [(0, kstore c1); (align_up (kalloc c1) (kalign c2), kstore c2)]
  end.

Definition in_range (r : N * N) (o len : N) : bool := (fst r <=? o) && (o + len <=? fst r + snd r).
(* every leaf lies inside one transported range, and no range leaves the struct *)
Definition covers_core (sz : N) (fl : list (N * scalar)) (rs : list (N * N)) : bool :=
  forallb (fun x => existsb (fun r => in_range r (fst x) (ssz (snd x))) rs) fl &&
  forallb (fun r => fst r + snd r <=? sz) rs.
Definition covers (t : cty) : bool := covers_core (csize t) (flat 0 t) (ranges (csize t) (gti t)).
(* the part that decides whether values arrive: leaves covered (over-read is tolerated) *)
Definition leaves_covered (t : cty) : bool :=
  forallb (fun x => existsb (fun r => in_range r (fst x) (ssz (snd x))) (ranges (csize t) (gti t))) (flat 0 t).

(* pack / unpack of a byte image *)
Definition slice (img : list N) (r : N * N) : list N := firstn (N.to_nat (snd r)) (skipn (N.to_nat (fst r)) img).
Definition write (o : N) (bs base : list N) : list N :=
  firstn (N.to_nat o) base ++ bs ++ skipn (N.to_nat o + length bs) base.
Definition pack (rs : list (N * N)) (img : list N) : list (list N) := map (slice img) rs.
Fixpoint unpack (rs : list (N * N)) (parts : list (list N)) (base : list N) : list N :=
  match rs, parts with
  | r :: rs', p :: ps' => unpack rs' ps' (write (fst r) p base)
  | _, _ => base
  end.

(* ---- register assignment: psABI (all or nothing per argument) vs part by part ---- *)
Definition need (c : cls) (cs : list cls) : N := N.of_nat (length (filter (cls_eqb c) cs)).
(* free INTEGER / SSE registers after the preceding scalar arguments *)
Definition psabi_in_regs (cs : list cls) (gi gs : N) : bool :=
  negb (existsb (cls_eqb Memory) cs) && (need Integer cs <=? gi) && (need Sse cs <=? gs).
(* does sequential assignment put at least one part into a register? *)
Fixpoint seq_any_reg (cs : list cls) (gi gs : N) : bool :=
  match cs with
  | [] => false
  | Integer :: r => if 0 <? gi then true else seq_any_reg r gi gs
  | Sse :: r => if 0 <? gs then true else seq_any_reg r gi gs
  | _ :: r => seq_any_reg r gi gs
  end.
(* The callee (C compiler) reads an argument that does not fit the free registers from the
   stack AS A WHOLE (16 contiguous bytes).  The caller hands LLVM the two coerced parts as
   separate scalar arguments, so (a) a part may still get a register, and (b) a <2 x float>
   part that goes to the stack is widened to a 16-byte, 16-aligned vector slot.  Either way
   the callee looks in the wrong place.  Only two-part coercions are affected. *)
Definition is_v2f (c : coerced) : bool := match c with KV2F => true | _ => false end.
Definition split_mismatch (t : cty) (npre_int npre_sse : N) : bool :=
  let gi := 6 - npre_int in let gs := 8 - npre_sse in
  match gti t with
  | TW2 c1 c2 =>
      let cs := [kcls c1; kcls c2] in
      negb (psabi_in_regs cs gi gs) && (seq_any_reg cs gi gs || is_v2f c1 || is_v2f c2)
  | _ => false
  end.

(* what the end-to-end harness can see for one shape: is any leaf lost in every position,
   and the classification *)
Definition cls_code (c : cls) : N := match c with NoClass => 0 | Integer => 1 | Sse => 2 | Memory => 3 end.
Definition e2e_predict (t : cty) (npre_int npre_sse : N) : bool :=     (* true = the value arrives *)
  leaves_covered t && negb (split_mismatch t npre_int npre_sse).

(* rendering of GetTypeInfo's answer for the in-process comparison:
   kind code (0 keep, 2 pointer, 3 width, 4 width2) followed by one code per coerced type:
   i<N> -> N, float -> 1001, double -> 1002, ptr -> 1003, <2 x float> -> 1004 *)
Definition scalar_code (s : scalar) : N :=
  match s with SI w => w * 8 | SF32 => 1001 | SF64 => 1002 | SP => 1003 end.
Definition coerced_code (c : coerced) : N :=
  match c with KScalar s => scalar_code s | KInt b => b | KV2F => 1004 end.
Definition tinfo_code (ti : tinfo) : list N :=
  match ti with
  | TKeep => [0] | TPtr => [2] | TW1 c => [3; coerced_code c] | TW2 a b => [4; coerced_code a; coerced_code b]
  end.

(* ---- C strings ---- *)
(* CStrCopy: the bytes of the Go string followed by NUL *)
Definition to_cstr (s : list N) : list N := s ++ [0].
(* strlen + copy: the bytes up to the first NUL of the memory at p *)
Fixpoint from_cstr (m : list N) : list N :=
  match m with
  | [] => []
  | b :: r => if b =? 0 then [] else b :: from_cstr r
  end.
Definition nul_free (s : list N) : bool := forallb (fun b => negb (b =? 0)) s.

(* ---- enumeration of all flat scalar lists that fit into 16 bytes ---- *)
Definition all_scalars : list scalar := [SI 1; SI 2; SI 4; SI 8; SF32; SF64; SP].
Fixpoint enum (fuel : nat) (cur : N) : list (list scalar) :=
  match fuel with
  | O => [[]]
  | S k =>
      [] :: flat_map (fun s =>
              let e := align_up cur (ssz s) + ssz s in
              if e <=? 16 then map (cons s) (enum k e) else []) all_scalars
  end.

Definition cls_list_eqb := list_eqb cls_eqb.
(* the checks swept over the enumeration *)
Definition check_flat (l : list scalar) : bool :=
  let t := flat_struct l in
  match l with
  | [] => true
  | _ => cls_list_eqb (classes (csize t) (elems t) (gti t)) (sysv t) && covers t
  end.

Definition nlist_eqb : list N -> list N -> bool := list_eqb N.eqb.
