(* C09 - lemmas.  See Props.v for the statements that matter. *)
From LLGoV Require Import Lib.Common C09.Model.
Local Open Scope N_scope.

(* ------------------------------------------------------------------ *)
(* arithmetic of the layout *)

Lemma align_up_ge x a : x <= align_up x a.
Proof.
  unfold align_up. destruct (a =? 0) eqn:E; [lia|]. apply N.eqb_neq in E.
  pose proof (N.div_mod (x + a - 1) a E) as D.
  pose proof (N.mod_upper_bound (x + a - 1) a E) as U.
  rewrite (N.mul_comm a) in D. lia.
Qed.

Lemma end_from_ge cur l : cur <= end_from cur l.
Proof.
  revert cur; induction l as [|[s a] r IH]; intros cur; cbn; [lia|].
  specialize (IH (align_up cur a + s)). pose proof (align_up_ge cur a). lia.
Qed.

Definition sa_of (s : scalar) : sa := (ssz s, ssz s).

Lemma lay_flat_struct l : map lay (map CS l) = map sa_of l.
Proof. rewrite map_map. reflexivity. Qed.

Lemma csize_flat_struct l :
  csize (flat_struct l) = align_up (end_from 0 (map sa_of l)) (max_align (map sa_of l)).
Proof. unfold csize, flat_struct. cbn [lay fst]. now rewrite lay_flat_struct. Qed.

Lemma wf_scalar_in s : wf_scalar s = true -> In s all_scalars.
Proof.
  destruct s as [w| | |]; cbn; intros W; auto 10.
  repeat (apply orb_true_iff in W as [W|W]); apply N.eqb_eq in W; subst w; auto 10.
Qed.

Lemma wf_scalar_pos s : wf_scalar s = true -> 1 <= ssz s.
Proof.
  destruct s as [w| | |]; cbn; intros W; try lia.
  repeat (apply orb_true_iff in W as [W|W]); apply N.eqb_eq in W; subst w; lia.
Qed.

Lemma end_from_length l : Forall (fun s => wf_scalar s = true) l ->
  forall cur, cur + N.of_nat (length l) <= end_from cur (map sa_of l).
Proof.
  induction 1 as [|s r W _ IH]; intros cur; cbn [map end_from length sa_of]; [lia|].
  specialize (IH (align_up cur (ssz s) + ssz s)).
  pose proof (align_up_ge cur (ssz s)). pose proof (wf_scalar_pos s W). lia.
Qed.

(* ------------------------------------------------------------------ *)
(* the enumeration contains every flat list that fits into 16 bytes *)

Lemma enum_nil fuel cur : In [] (enum fuel cur).
Proof. destruct fuel; cbn; auto. Qed.

Lemma enum_complete l : Forall (fun s => wf_scalar s = true) l ->
  forall fuel cur, (length l <= fuel)%nat -> end_from cur (map sa_of l) <= 16 -> In l (enum fuel cur).
Proof.
  induction 1 as [|s r W _ IH]; intros fuel cur L E; [apply enum_nil|].
  destruct fuel as [|k]; [cbn in L; lia|].
  cbn [enum]. right. apply in_flat_map. exists s. split; [now apply wf_scalar_in|].
  cbn [map end_from sa_of] in E.
  pose proof (end_from_ge (align_up cur (ssz s) + ssz s) (map sa_of r)) as G.
  assert (C : align_up cur (ssz s) + ssz s <=? 16 = true) by (apply N.leb_le; lia).
  rewrite C. apply in_map. apply IH; [cbn in L; lia|exact E].
Qed.

Lemma sweep : forallb check_flat (enum 16 0) = true.
Proof. vm_compute. reflexivity. Qed.

Lemma check_flat_all l :
  Forall (fun s => wf_scalar s = true) l -> csize (flat_struct l) <= 16 -> check_flat l = true.
Proof.
  intros W S. pose proof sweep as SW. rewrite forallb_forall in SW. apply SW.
  rewrite csize_flat_struct in S.
  pose proof (align_up_ge (end_from 0 (map sa_of l)) (max_align (map sa_of l))) as G.
  pose proof (end_from_length l W 0) as LN.
  apply enum_complete; auto; lia.
Qed.

(* ------------------------------------------------------------------ *)
(* the leaf count (elementTypesCount) is the length of the flattening (elementTypes) *)

Lemma cty_ind' (P : cty -> Prop) :
  (forall s, P (CS s)) -> (forall n e, P e -> P (CArr n e)) -> (forall fs, Forall P fs -> P (CStruct fs)) ->
  forall t, P t.
Proof.
  intros HS HA HT. fix IH 1. intros [s | n e | fs].
  - apply HS.
  - apply HA. apply IH.
  - apply HT. induction fs as [|f r IHr]; constructor; [apply IH|exact IHr].
Qed.

Lemma rep_flat_length f L : (forall b, length (f b) = L) ->
  forall k base stride, length (rep_flat f base stride k) = (k * L)%nat.
Proof.
  intros H. induction k as [|k IH]; intros base stride; cbn; [reflexivity|].
  rewrite app_length, H, IH. reflexivity.
Qed.

Lemma flat_struct_length_aux (base : N) : forall fs cur,
  Forall (fun f => forall b, N.of_nat (length (flat b f)) = ecount f) fs ->
  N.of_nat (length ((fix go (cur : N) (l : list cty) : list (N * scalar) :=
     match l with
     | [] => []
     | f :: r => let o := align_up cur (calign f) in flat (base + o) f ++ go (o + csize f) r
     end) cur fs)) = fold_right (fun f x => ecount f + x) 0 fs.
Proof.
  induction fs as [|f r IH]; intros cur F; [reflexivity|].
  inversion F as [|? ? Hf Fr]; subst. cbn [fold_right]. rewrite app_length, Nat2N.inj_add, Hf.
  f_equal. apply IH. exact Fr.
Qed.

(* elementTypesCount of an array is its length times the count of its element, of a struct the
   sum over its fields - and that is exactly the number of leaves of the flattening *)
Lemma flat_length : forall t base, N.of_nat (length (flat base t)) = ecount t.
Proof.
  induction t using cty_ind'; intros base.
  - reflexivity.
  - cbn [flat ecount].
    rewrite (rep_flat_length (fun b => flat b t) (N.to_nat (ecount t))).
    + rewrite Nat2N.inj_mul, !N2Nat.id. reflexivity.
    + intros b. rewrite <- (IHt b). now rewrite Nat2N.id.
  - cbn [flat ecount]. apply flat_struct_length_aux. exact H.
Qed.

Lemma ecount_length t : ecount t = N.of_nat (length (elems t)).
Proof. unfold elems. rewrite map_length. symmetry. apply flat_length. Qed.

Lemma ecount_array n e : ecount (CArr n e) = n * ecount e.
Proof. reflexivity. Qed.

(* ------------------------------------------------------------------ *)
(* a struct laid out like its flattening is indistinguishable from it *)

Lemma scalar_eqb_eq a b : scalar_eqb a b = true -> a = b.
Proof. destruct a, b; cbn; try discriminate; auto. intros E. apply N.eqb_eq in E. now subst. Qed.

Lemma pair_eqb_eq x y : pair_eqb x y = true -> x = y.
Proof.
  destruct x as [a b], y as [c d]. unfold pair_eqb. cbn. intros E.
  apply andb_true_iff in E as [E1 E2]. apply N.eqb_eq in E1. apply scalar_eqb_eq in E2. now subst.
Qed.

Lemma flat_equiv_spec t : flat_equiv t = true ->
  let u := flat_struct (elems t) in
  csize t = csize u /\ calign t = calign u /\ flat 0 t = flat 0 u.
Proof.
  unfold flat_equiv. intros E. apply andb_true_iff in E as [E E3]. apply andb_true_iff in E as [E1 E2].
  apply N.eqb_eq in E1, E2. apply (list_eqb_eq pair_eqb pair_eqb_eq) in E3. auto.
Qed.

Lemma flat_equiv_transfer t : flat_equiv t = true ->
  let u := flat_struct (elems t) in
  gti t = gti u /\ sysv t = sysv u /\ covers t = covers u /\ elems t = elems u /\ csize t = csize u.
Proof.
  intros E u. destruct (flat_equiv_spec t E) as [E1 [E2 E3]]. fold u in E1, E2, E3.
  assert (EE : elems t = elems u) by (unfold elems; now rewrite E3).
  assert (EC : ecount t = ecount u) by (rewrite !ecount_length; now rewrite EE).
  unfold gti, sysv, covers, gti. rewrite <- EE, <- EC, <- E1, <- E2, <- E3. auto.
Qed.

Lemma cls_eqb_eq a b : cls_eqb a b = true -> a = b.
Proof. destruct a, b; cbn; try discriminate; auto. Qed.

Lemma classify_ok t :
  forallb wf_scalar (elems t) = true -> flat_equiv t = true -> elems t <> [] -> csize t <= 16 ->
  classes (csize t) (elems t) (gti t) = sysv t /\ covers t = true.
Proof.
  intros W E NE S.
  destruct (flat_equiv_transfer t E) as [G [V [C [EE ES]]]].
  assert (WF : Forall (fun s => wf_scalar s = true) (elems t)) by (apply Forall_forall; rewrite forallb_forall in W; exact W).
  pose proof (check_flat_all (elems t) WF ltac:(rewrite <- ES; exact S)) as CK.
  unfold check_flat in CK. destruct (elems t) as [|s0 r0] eqn:EL; [congruence|].
  rewrite <- EL in *. apply andb_true_iff in CK as [CK1 CK2].
  apply (list_eqb_eq cls_eqb cls_eqb_eq) in CK1.
  set (u := flat_struct (elems t)) in *.
  rewrite G, V, C, ES. split; [|exact CK2].
  replace (elems t) with (elems u) by (symmetry; exact EE). exact CK1.
Qed.

(* ------------------------------------------------------------------ *)
(* MEMORY iff more than 16 bytes *)

Lemma gti_memory t : (2 <= length (elems t))%nat -> (gti t = TPtr <-> 16 < csize t).
Proof.
  unfold gti, gti_core. intros L. rewrite ecount_length.
  assert (N2 : N.of_nat (length (elems t)) <? 2 = false) by (apply N.ltb_ge; lia).
  rewrite N2. destruct (16 <? csize t) eqn:E.
  - apply N.ltb_lt in E. tauto.
  - apply N.ltb_ge in E. split; [|lia].
    destruct (csize t <=? 8); [discriminate|].
    destruct (N.of_nat (length (elems t)) =? 2); [|discriminate].
    destruct (elems t) as [|a [|b r]]; try discriminate.
    destruct ((ssz a =? 8) || (ssz b =? 8)); discriminate.
Qed.

Lemma sysv_memory t : 16 < csize t -> sysv t = [Memory].
Proof. unfold sysv, sysv_core. intros L. apply N.ltb_lt in L. now rewrite L. Qed.

(* ------------------------------------------------------------------ *)
(* byte images through the coerced parts *)

Lemma nth_skipn' {A} n : forall (l : list A) i d, nth i (skipn n l) d = nth (n + i) l d.
Proof.
  induction n as [|n IH]; intros l i d; [reflexivity|].
  destruct l as [|x r]; [cbn; now destruct i|]. cbn. apply IH.
Qed.

Lemma nth_firstn' {A} n : forall (l : list A) i d,
  nth i (firstn n l) d = if (i <? n)%nat then nth i l d else d.
Proof.
  induction n as [|n IH]; intros l i d; [cbn; now destruct i|].
  destruct l as [|x r]; [destruct i as [|i]; [reflexivity|cbn [firstn nth]; destruct (S i <? S n)%nat; reflexivity]|].
  destruct i as [|i]; [reflexivity|]. cbn [firstn nth]. rewrite IH. reflexivity.
Qed.

Lemma write_length o bs base :
  (N.to_nat o + length bs <= length base)%nat -> length (write o bs base) = length base.
Proof.
  intros L. unfold write. rewrite !app_length, firstn_length, skipn_length. lia.
Qed.

Lemma nth_write o bs base i :
  (N.to_nat o + length bs <= length base)%nat ->
  nth i (write o bs base) 0 =
    if (N.to_nat o <=? i)%nat && (i <? N.to_nat o + length bs)%nat then nth (i - N.to_nat o) bs 0 else nth i base 0.
Proof.
  intros L. unfold write. set (k := N.to_nat o) in *.
  destruct (k <=? i)%nat eqn:E1; cbn [andb].
  - apply Nat.leb_le in E1.
    rewrite app_nth2 by (rewrite firstn_length; lia). rewrite firstn_length, Nat.min_l by lia.
    destruct (i <? k + length bs)%nat eqn:E2.
    + apply Nat.ltb_lt in E2. rewrite app_nth1 by lia. reflexivity.
    + apply Nat.ltb_ge in E2. rewrite app_nth2 by lia. rewrite nth_skipn'. f_equal. lia.
  - apply Nat.leb_gt in E1. rewrite app_nth1 by (rewrite firstn_length; lia).
    rewrite nth_firstn'. destruct (i <? k)%nat eqn:E3; [reflexivity|]. apply Nat.ltb_ge in E3. lia.
Qed.

Lemma slice_length img r :
  (N.to_nat (fst r) + N.to_nat (snd r) <= length img)%nat -> length (slice img r) = N.to_nat (snd r).
Proof. intros L. unfold slice. rewrite firstn_length, skipn_length. lia. Qed.

Lemma nth_slice img r j :
  (j < N.to_nat (snd r))%nat -> nth j (slice img r) 0 = nth (N.to_nat (fst r) + j) img 0.
Proof. intros L. unfold slice. rewrite nth_firstn'. apply Nat.ltb_lt in L. rewrite L. apply nth_skipn'. Qed.

Definition in_r (r : N * N) (i : nat) : Prop := (N.to_nat (fst r) <= i < N.to_nat (fst r) + N.to_nat (snd r))%nat.

(* unpack (pack img) agrees with img on every transported byte, whatever was there before *)
Lemma roundtrip_ranges rs img : forall base,
  length base = length img ->
  Forall (fun r => (N.to_nat (fst r) + N.to_nat (snd r) <= length img)%nat) rs ->
  let out := unpack rs (pack rs img) base in
  length out = length img /\
  forall i, (Exists (fun r => in_r r i) rs \/ nth i base 0 = nth i img 0) -> nth i out 0 = nth i img 0.
Proof.
  induction rs as [|r rs IH]; intros base LB F; cbn [pack map unpack].
  - split; [exact LB|]. intros i [H|H]; [inversion H|exact H].
  - inversion F as [|? ? Fr Frs]; subst.
    assert (LS : length (slice img r) = N.to_nat (snd r)) by now apply slice_length.
    assert (LW : length (write (fst r) (slice img r) base) = length img).
    { rewrite write_length; [exact LB|]. rewrite LS, LB. exact Fr. }
    destruct (IH (write (fst r) (slice img r) base) LW Frs) as [L1 A]. fold (pack rs img) in *.
    split; [exact L1|]. intros i H. apply A.
    assert (NW := nth_write (fst r) (slice img r) base i ltac:(rewrite LS, LB; exact Fr)).
    rewrite LS in NW.
    destruct ((N.to_nat (fst r) <=? i)%nat && (i <? N.to_nat (fst r) + N.to_nat (snd r))%nat) eqn:IN.
    + right. rewrite NW. apply andb_true_iff in IN as [I1 I2]. apply Nat.leb_le in I1. apply Nat.ltb_lt in I2.
      rewrite nth_slice by lia. f_equal. lia.
    + destruct H as [H|H].
      * inversion H as [? ? Hr|? ? Hrs]; subst.
        -- exfalso. unfold in_r in Hr. apply andb_false_iff in IN as [I|I];
             [apply Nat.leb_gt in I|apply Nat.ltb_ge in I]; lia.
        -- now left.
      * right. now rewrite NW.
Qed.

(* C strings *)
Lemma from_to_cstr s rest : nul_free s = true -> from_cstr (to_cstr s ++ rest) = s.
Proof.
  unfold to_cstr. induction s as [|b r IH]; cbn; intros NF; [reflexivity|].
  apply andb_true_iff in NF as [B NF]. destruct (b =? 0); [discriminate|]. now rewrite IH.
Qed.

Lemma from_to_cstr_nul a b rest : nul_free a = true -> from_cstr (to_cstr (a ++ 0 :: b) ++ rest) = a.
Proof.
  unfold to_cstr. induction a as [|x r IH]; cbn; intros NF; [reflexivity|].
  apply andb_true_iff in NF as [B NF]. destruct (x =? 0); [discriminate|]. now rewrite IH.
Qed.

(* covers + roundtrip: every byte of every leaf survives pack / unpack *)
Lemma covers_roundtrip sz fl rs img base :
  covers_core sz fl rs = true -> length img = N.to_nat sz -> length base = length img ->
  forall o s i, In (o, s) fl -> o <= i < o + ssz s ->
  nth (N.to_nat i) (unpack rs (pack rs img) base) 0 = nth (N.to_nat i) img 0.
Proof.
  intros C LI LB o s i I R. unfold covers_core in C. apply andb_true_iff in C as [C1 C2].
  rewrite forallb_forall in C1, C2.
  assert (F : Forall (fun r => (N.to_nat (fst r) + N.to_nat (snd r) <= length img)%nat) rs).
  { apply Forall_forall. intros r Ir. specialize (C2 r Ir). apply N.leb_le in C2. rewrite LI. lia. }
  destruct (roundtrip_ranges rs img base LB F) as [_ A]. apply A. left.
  specialize (C1 (o, s) I). apply existsb_exists in C1 as [r [Ir Hr]].
  apply Exists_exists. exists r. split; [exact Ir|].
  unfold in_range in Hr. cbn [fst snd] in Hr. apply andb_true_iff in Hr as [H1 H2].
  apply N.leb_le in H1, H2. unfold in_r. lia.
Qed.

(* witnesses *)
Definition w_tail := CStruct [CStruct [CS (SI 4); CS (SI 1)]; CS (SI 1); CS (SI 4)].
Definition w_tail_float := CStruct [CStruct [CS (SI 4); CS (SI 1)]; CS (SI 1); CS SF32].
Definition w_two_i64 := CStruct [CS (SI 8); CS (SI 8)].
Definition w_three_floats := CStruct [CS SF32; CS SF32; CS SF32].

Lemma tail_witness :
  forallb wf_scalar (elems w_tail) = true /\ csize w_tail = 16 /\ flat_equiv w_tail = false /\
  gti w_tail = TW2 (KInt 64) (KScalar (SI 4)) /\ In (12, SI 4) (flat 0 w_tail) /\ leaves_covered w_tail = false /\
  classes (csize w_tail_float) (elems w_tail_float) (gti w_tail_float) = [Integer; Sse] /\
  sysv w_tail_float = [Integer; Integer].
Proof. repeat split; cbn; auto 10. Qed.

Lemma split_witness :
  flat_equiv w_two_i64 = true /\ covers w_two_i64 = true /\ sysv w_two_i64 = [Integer; Integer] /\
  psabi_in_regs (sysv w_two_i64) (6 - 5) 8 = false /\ seq_any_reg (sysv w_two_i64) (6 - 5) 8 = true /\
  split_mismatch w_two_i64 5 0 = true /\
  flat_equiv w_three_floats = true /\ gti w_three_floats = TW2 KV2F (KScalar SF32) /\
  split_mismatch w_three_floats 0 8 = true.
Proof. repeat split. Qed.
