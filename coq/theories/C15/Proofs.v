(* C15 - proofs about the model in Model.v *)
From Coq Require Import Ascii String Permutation.
From LLGoV Require Import C15.Model.
Local Open Scope N_scope.

(* ================================================================== *)
(* 1. type strings                                                     *)
(* ================================================================== *)

Definition pkg_ok (fx q : bool) (pkg : option pkgid) : bool :=
  match pkg with
  | Some p => if q then str_eqb (targ_pkg fx p) (go_pkg true p) else true
  | None => true
  end.

Definition is_tsnil (ts : tys) : bool := match ts with TsNil => true | _ => false end.
Definition is_fsnil (fs : fields) : bool := match fs with FsNil => true | _ => false end.
Definition is_msnil (ms : methods) : bool := match ms with MsNil => true | _ => false end.
Definition is_nil (s : str) : bool := match s with [] => true | _ => false end.

(* The types on which llgo's string is the one Go documents.  q: inside a type argument list.
   For the code that exists (fx = true) the exclusions are: struct, func and non-empty interface
   literals as type arguments (types.TypeString fallback, not modelled), and packages whose
   type-argument qualifier differs (a non-main package built as command-line-arguments, patched
   runtime packages).  Before the repairs (fx = false) also: defined types whose underlying type
   carries the ExtraStar flag (type P *int), struct tags, chan of a receive-only chan, map keys
   carrying the ExtraStar flag (pointer keys), main-package types as type arguments. *)
Fixpoint wf (fx q : bool) (t : ty) : bool :=
  match t with
  | TBasic _ => true
  | TCut => true
  | TNamed pkg _ targs und => (fx || negb (es fx und)) && pkg_ok fx q pkg && wf_targs fx targs
  | TPtr e => wf fx q e
  | TSlice e => wf fx q e
  | TArray _ e => wf fx q e
  | TMap k e => (fx || negb (es fx k)) && wf fx q k && wf fx q e
  | TChan d e => wf fx q e && (fx || negb (match d with DBoth => is_recv_chan e | _ => false end))
  | TFunc ps rs v => negb q && wf_params fx ps v && wf_list fx rs
  | TStruct fs => negb q && wf_fields fx fs
  | TIface ms => if q then is_msnil ms else wf_methods fx ms
  end
with wf_targs (fx : bool) (ts : tys) : bool :=
  match ts with TsNil => true | TsCons t r => wf fx true t && wf_targs fx r end
with wf_list (fx : bool) (ts : tys) : bool :=
  match ts with TsNil => true | TsCons t r => wf fx false t && wf_list fx r end
with wf_params (fx : bool) (ts : tys) (v : bool) : bool :=
  match ts with
  | TsNil => true
  | TsCons t TsNil => if v then match t with TSlice e => wf fx false e | _ => false end else wf fx false t
  | TsCons t r => wf fx false t && wf_params fx r v
  end
with wf_fields (fx : bool) (fs : fields) : bool :=
  match fs with
  | FsNil => true
  | FsCons _ _ tag t r => (fx || is_nil tag) && wf fx false t && wf_fields fx r
  end
with wf_methods (fx : bool) (ms : methods) : bool :=
  match ms with
  | MsNil => true
  | MsCons _ _ _ sig r =>
      match sig with TFunc ps rs v => wf_params fx ps v && wf_list fx rs | _ => false end && wf_methods fx r
  end.

Lemma str_eqb_true_eq a b : str_eqb a b = true -> a = b.
Proof. apply str_eqb_eq. Qed.

Lemma star_if_false s : star_if false s = s.
Proof. reflexivity. Qed.

(* the tail of a result list *)
Definition llgo_results (fx : bool) (rs : tys) : str :=
  match rs with
  | TsNil => []
  | TsCons r TsNil => [c_sp] ++ star_if (es fx r) (llgo_Str fx r)
  | _ => [c_sp; c_lp] ++ llgo_list fx rs ++ [c_rp]
  end.
Definition go_results (q : bool) (rs : tys) : str :=
  match rs with
  | TsNil => []
  | TsCons r TsNil => [c_sp] ++ go_str q r
  | _ => [c_sp; c_lp] ++ go_list q rs ++ [c_rp]
  end.

Lemma results_eq fx rs :
  llgo_list fx rs = go_list false rs -> llgo_results fx rs = go_results false rs.
Proof.
  destruct rs as [|r [|r2 rs2]]; intros H; cbn [llgo_results go_results]; auto.
  - cbn [llgo_list go_list] in H. now rewrite H.
  - now rewrite H.
Qed.

Definition tail_sp (first nil : bool) : str := if first && nil then [] else [c_sp].

(* the tag part of a field agrees under wf *)
Lemma tag_eq fx tag : (fx || is_nil tag) = true ->
  tag_str fx tag = match tag with [] => [] | _ => [c_sp] ++ go_quote tag end.
Proof. destruct fx, tag; cbn; auto; discriminate. Qed.

(* the element of a channel agrees under wf *)
Lemma chan_eq fx d e s :
  (fx || negb (match d with DBoth => is_recv_chan e | _ => false end)) = true ->
  dir_str d ++ [c_sp] ++ chan_elem fx d e s =
  match d with
  | DBoth => s_chan ++ [c_sp] ++ (if is_recv_chan e then [c_lp] ++ s ++ [c_rp] else s)
  | DSend => s_chansend ++ [c_sp] ++ s
  | DRecv => s_recvchan ++ [c_sp] ++ s
  end.
Proof.
  unfold chan_elem. destruct d; cbn [dir_str]; rewrite ?andb_false_r; try reflexivity.
  destruct fx, (is_recv_chan e); cbn; auto; discriminate.
Qed.

Lemma str_all fx :
  (forall t,
      (wf fx false t = true -> star_if (es fx t) (llgo_Str fx t) = go_str false t) /\
      (wf fx true t = true -> star_if (es fx t) (llgo_targ fx t) = go_str true t)) /\
  (forall ts,
      (wf_list fx ts = true -> llgo_list fx ts = go_list false ts) /\
      (forall v, wf_params fx ts v = true -> llgo_params fx ts v = go_params false ts v) /\
      (wf_targs fx ts = true -> llgo_targs fx ts = go_targs ts)) /\
  (forall fs, wf_fields fx fs = true -> forall first,
      llgo_fields fx fs first = go_fields false fs first ++ tail_sp first (is_fsnil fs)) /\
  (forall ms, wf_methods fx ms = true -> forall first,
      llgo_methods fx ms first = go_methods false ms first ++ tail_sp first (is_msnil ms)).
Proof.
  apply ty_mutind.
  - (* TBasic *) intros k; split; intros _; reflexivity.
  - (* TCut *) split; intros _; reflexivity.
  - (* TNamed *)
    intros pkg name targs [_ [_ IHt]] und _.
    assert (Hes : forall q, wf fx q (TNamed pkg name targs und) = true -> es fx (TNamed pkg name targs und) = false).
    { intros q H. cbn [wf] in H. apply andb_true_iff in H as [H _]. apply andb_true_iff in H as [He _].
      cbn [es]. destruct fx; [reflexivity|]. cbn [orb] in He. now apply negb_true_iff in He. }
    split; intros H; rewrite (Hes _ H); cbn [wf] in H;
      apply andb_true_iff in H as [H Ht]; apply andb_true_iff in H as [He Hp]; specialize (IHt Ht).
    + cbn [star_if llgo_Str go_str].
      destruct pkg as [p|]; destruct targs; cbn [go_pkg];
        rewrite ?IHt; repeat rewrite <- app_assoc; reflexivity.
    + cbn [star_if llgo_targ go_str].
      destruct pkg as [p|]; cbn [pkg_ok] in Hp.
      * apply str_eqb_true_eq in Hp. rewrite Hp.
        destruct targs; rewrite ?IHt; repeat rewrite <- app_assoc; reflexivity.
      * destruct targs; rewrite ?IHt; repeat rewrite <- app_assoc; reflexivity.
  - (* TPtr *)
    intros e [IH1 IH2]. split; intros H; cbn [wf] in H.
    + specialize (IH1 H). cbn [es llgo_Str go_str]. destruct (es fx e); cbn [negb star_if] in *.
      * rewrite <- IH1. reflexivity.
      * rewrite <- IH1. reflexivity.
    + specialize (IH2 H). cbn [es llgo_targ go_str]. destruct (es fx e); cbn [negb star_if] in *.
      * rewrite <- IH2. reflexivity.
      * rewrite <- IH2. reflexivity.
  - (* TSlice *)
    intros e [IH1 IH2]. split; intros H; cbn [wf] in H; cbn [es star_if llgo_Str llgo_targ go_str].
    + now rewrite (IH1 H).
    + now rewrite (IH2 H).
  - (* TArray *)
    intros n e [IH1 IH2]. split; intros H; cbn [wf] in H; cbn [es star_if llgo_Str llgo_targ go_str].
    + now rewrite (IH1 H).
    + now rewrite (IH2 H).
  - (* TMap *)
    intros k [IHk1 IHk2] e [IHe1 IHe2].
    assert (Hk : (fx || negb (es fx k)) = true -> fx && es fx k = es fx k).
    { destruct fx; cbn; [reflexivity|]. intros Hn. apply negb_true_iff in Hn. now rewrite Hn. }
    split; intros H; cbn [wf] in H;
      apply andb_true_iff in H as [H He]; apply andb_true_iff in H as [Hes Hwk];
      cbn [es star_if llgo_Str llgo_targ go_str]; rewrite (Hk Hes).
    + now rewrite (IHk1 Hwk), (IHe1 He).
    + now rewrite (IHk2 Hwk), (IHe2 He).
  - (* TChan *)
    intros d e [IH1 IH2]. split; intros H; cbn [wf] in H;
      apply andb_true_iff in H as [H Hd]; cbn [es star_if llgo_Str llgo_targ go_str].
    + rewrite (chan_eq fx d e _ Hd), (IH1 H). destruct d; reflexivity.
    + rewrite (chan_eq fx d e _ Hd), (IH2 H). destruct d; reflexivity.
  - (* TFunc *)
    intros ps [_ [IHp _]] rs [IHr _] v. split; intros H; cbn [wf] in H;
      apply andb_true_iff in H as [H Hr]; apply andb_true_iff in H as [Hq Hp].
    + cbn [es star_if llgo_Str go_str].
      rewrite (IHp v Hp).
      change (match rs with
              | TsNil => []
              | TsCons r TsNil => [c_sp] ++ star_if (es fx r) (llgo_Str fx r)
              | TsCons r (TsCons _ _) => [c_sp; c_lp] ++ llgo_list fx rs ++ [c_rp]
              end) with (llgo_results fx rs).
      change (match rs with
              | TsNil => []
              | TsCons r TsNil => [c_sp] ++ go_str false r
              | TsCons r (TsCons _ _) => [c_sp; c_lp] ++ go_list false rs ++ [c_rp]
              end) with (go_results false rs).
      now rewrite (results_eq fx rs (IHr Hr)).
    + discriminate.
  - (* TStruct *)
    intros fs IH. split; intros H; cbn [wf] in H;
      apply andb_true_iff in H as [Hq Hf]; [|discriminate].
    cbn [es star_if llgo_Str go_str]. rewrite (IH Hf true).
    destruct fs; cbn [is_fsnil tail_sp andb go_fields].
    + now rewrite app_nil_r.
    + repeat rewrite <- app_assoc. reflexivity.
  - (* TIface *)
    intros ms IH. split; intros H; cbn [wf] in H.
    + cbn [es star_if llgo_Str go_str]. rewrite (IH H true).
      destruct ms; cbn [is_msnil tail_sp andb go_methods].
      * now rewrite app_nil_r.
      * repeat rewrite <- app_assoc. reflexivity.
    + destruct ms; [reflexivity|discriminate].
  - (* TsNil *) repeat split; intros; reflexivity.
  - (* TsCons *)
    intros t [IHt1 IHt2] r [IHr1 [IHr2 IHr3]]. repeat split.
    + intros H. cbn [wf_list] in H. apply andb_true_iff in H as [H H0]. cbn [llgo_list go_list].
      rewrite (IHt1 H). destruct r; [reflexivity|]. now rewrite (IHr1 H0).
    + intros v H. cbn [llgo_params go_params]. destruct r.
      * cbn [wf_params] in H. destruct v.
        -- destruct t; try discriminate.
           assert (W : wf fx false (TSlice t) = true) by exact H.
           specialize (IHt1 W). cbn [es star_if llgo_Str go_str] in IHt1.
           apply app_inv_head in IHt1. now rewrite IHt1.
        -- now rewrite (IHt1 H).
      * cbn [wf_params] in H. apply andb_true_iff in H as [H H0]. rewrite (IHt1 H). now rewrite (IHr2 v H0).
    + intros H. cbn [wf_targs] in H. apply andb_true_iff in H as [H H0]. cbn [llgo_targs go_targs].
      rewrite (IHt2 H). destruct r; [reflexivity|]. now rewrite (IHr3 H0).
  - (* FsNil *) intros _ first. destruct first; reflexivity.
  - (* FsCons *)
    intros name emb tag t [IHt _] r IHr H first. cbn [wf_fields] in H.
    apply andb_true_iff in H as [H Hr]. apply andb_true_iff in H as [Htag Ht].
    cbn [llgo_fields go_fields is_fsnil]. rewrite (IHt Ht), (IHr Hr false), (tag_eq fx tag Htag).
    unfold tail_sp. rewrite andb_false_r. cbn [andb].
    repeat rewrite <- app_assoc. reflexivity.
  - (* MsNil *) intros _ first. destruct first; reflexivity.
  - (* MsCons *)
    intros name exp pn sig [IHs _] r IHr H first. cbn [wf_methods] in H.
    apply andb_true_iff in H as [H Hr].
    destruct sig; try discriminate. apply andb_true_iff in H as [Hp Hrs].
    assert (W : wf fx false (TFunc ps rs variadic) = true).
    { cbn [wf negb andb]. now rewrite Hp, Hrs. }
    specialize (IHs W). cbn [es star_if] in IHs.
    cbn [llgo_methods go_methods is_msnil es star_if]. rewrite IHs, (IHr Hr false).
    unfold tail_sp. rewrite andb_false_r. cbn [andb].
    cbn [go_str]. unfold s_func_o, c_lp. cbn [skipn app].
    repeat (rewrite <- ?app_assoc, <- ?app_comm_cons; cbn [app]). reflexivity.
Qed.

Theorem llgo_str_eq_go fx t : wf fx false t = true -> llgo_str fx t = go_type_string t.
Proof. intros H. exact (proj1 (proj1 (str_all fx) t) H). Qed.

(* --- what the repairs changed: before them (fx = false) llgo's string differs from Go's on the
   shapes below, now (fx = true) these shapes are well-formed and the strings agree --- *)

Definition p_main : pkgid := (lit "verifprog", lit "main").
Definition t_int : ty := TBasic 2.
(* type P *int *)
Definition t_P : ty := TNamed (Some p_main) (lit "P") TsNil (TPtr t_int).

Lemma named_pointer_differs : llgo_str false t_P <> go_type_string t_P.
Proof. vm_compute. discriminate. Qed.

Lemma named_pointer_strings :
  llgo_str false t_P = lit "*main.P" /\ go_type_string t_P = lit "main.P" /\
  llgo_str false (TPtr t_P) = lit "**main.P" /\ go_type_string (TPtr t_P) = lit "*main.P".
Proof. vm_compute. repeat split. Qed.

Definition t_tagged : ty := TStruct (FsCons (lit "A") false (lit "json:""a""") t_int FsNil).
Lemma struct_tag_strings :
  llgo_str false t_tagged = lit "struct { A int }" /\
  go_type_string t_tagged = lit "struct { A int ""json:\""a\"""" }".
Proof. vm_compute. split; reflexivity. Qed.

Definition t_chanchan : ty := TChan DBoth (TChan DRecv t_int).
Lemma chan_parens_strings :
  llgo_str false t_chanchan = lit "chan <-chan int" /\ go_type_string t_chanchan = lit "chan (<-chan int)".
Proof. vm_compute. split; reflexivity. Qed.

Definition t_ptrkey : ty := TMap (TPtr t_int) (TBasic 17).
Lemma pointer_key_strings :
  llgo_str false t_ptrkey = lit "map[int]string" /\ go_type_string t_ptrkey = lit "map[*int]string".
Proof. vm_compute. split; reflexivity. Qed.

Definition t_T : ty := TNamed (Some p_main) (lit "T") TsNil (TStruct FsNil).
Definition t_G_T : ty := TNamed (Some p_main) (lit "G") (TsCons t_T TsNil) (TStruct FsNil).
Lemma typearg_main_strings :
  llgo_str false t_G_T = lit "main.G[verifprog.T]" /\ go_type_string t_G_T = lit "main.G[main.T]".
Proof. vm_compute. split; reflexivity. Qed.

(* one type that combines all five shapes: well-formed for the code that exists *)
Definition t_repaired : ty :=
  TStruct (FsCons (lit "A") false (lit "json:""a""") (TPtr t_P)
          (FsCons (lit "c") false [] t_chanchan
          (FsCons (lit "m") false (lit "k") t_ptrkey
          (FsCons (lit "g") false [] t_G_T FsNil)))).
Lemma repaired_wf : wf true false t_repaired = true /\ wf false false t_repaired = false /\
  llgo_str true t_repaired = go_type_string t_repaired /\ llgo_str false t_repaired <> go_type_string t_repaired.
Proof. repeat split; vm_compute; try reflexivity. discriminate. Qed.

(* ================================================================== *)
(* 2. type flags                                                       *)
(* ================================================================== *)

Lemma tflag_named_eq_go t : llgo_named t = go_named t.
Proof. destruct t; reflexivity. Qed.

(* parity of the number of pointer constructors above the first non-pointer constructor *)
Fixpoint ptr_odd (t : ty) : bool := match t with TPtr e => negb (ptr_odd e) | _ => false end.
Fixpoint ptr_base (t : ty) : ty := match t with TPtr e => ptr_base e | _ => t end.

(* ExtraStar is the parity of the number of pointer constructors, flipped when the base of the
   chain is a defined type whose underlying type carries the flag *)
Lemma es_parity fx t : es fx t = xorb (ptr_odd t) (es fx (ptr_base t)).
Proof.
  induction t; try reflexivity.
  - cbn [es ptr_odd ptr_base]. match goal with |- ?x = xorb false ?x => now destruct x end.
  - cbn [es ptr_odd ptr_base]. rewrite IHt.
    destruct (ptr_odd t), (es fx (ptr_base t)); reflexivity.
Qed.

(* the stored string never starts with the star the flag stands for: a pointer type with the
   flag stores the string of its element *)
Lemma es_ptr_stored fx e : es fx (TPtr e) = true -> llgo_Str fx (TPtr e) = llgo_Str fx e.
Proof. cbn [es llgo_Str]. intros H. apply negb_true_iff in H. now rewrite H. Qed.

(* ================================================================== *)
(* 3. method tables                                                    *)
(* ================================================================== *)

Lemma str_ltb_irrefl a : str_ltb a a = false.
Proof.
  induction a as [|x a IH]; cbn; [reflexivity|].
  rewrite N.ltb_irrefl, N.eqb_refl, IH. reflexivity.
Qed.

Lemma str_ltb_trans a : forall b c, str_ltb a b = true -> str_ltb b c = true -> str_ltb a c = true.
Proof.
  induction a as [|x a IH]; intros [|y b] [|z c]; cbn; try discriminate; auto.
  intros H1 H2.
  apply orb_true_iff in H1. apply orb_true_iff in H2. apply orb_true_iff.
  destruct H1 as [H1|H1], H2 as [H2|H2].
  - left. apply N.ltb_lt in H1, H2. apply N.ltb_lt. lia.
  - apply andb_true_iff in H2 as [E _]. apply N.eqb_eq in E. subst. now left.
  - apply andb_true_iff in H1 as [E _]. apply N.eqb_eq in E. subst. now left.
  - apply andb_true_iff in H1 as [E1 L1]. apply andb_true_iff in H2 as [E2 L2].
    apply N.eqb_eq in E1, E2. subst. right. rewrite N.eqb_refl. cbn. eauto.
Qed.

Lemma str_ltb_total a : forall b, str_ltb a b = false -> str_ltb b a = false -> a = b.
Proof.
  induction a as [|x a IH]; intros [|y b]; cbn; try discriminate; auto.
  intros H1 H2.
  apply orb_false_iff in H1 as [L1 R1]. apply orb_false_iff in H2 as [L2 R2].
  apply N.ltb_ge in L1, L2. assert (x = y) by lia. subst.
  rewrite N.eqb_refl in R1, R2. cbn in R1, R2. f_equal. auto.
Qed.

Lemma str_leb_total a b : str_leb a b = false -> str_leb b a = true.
Proof.
  unfold str_leb. intros H. apply negb_false_iff in H. apply negb_true_iff.
  destruct (str_ltb a b) eqn:E; [|reflexivity].
  pose proof (str_ltb_trans _ _ _ E H) as C. rewrite str_ltb_irrefl in C. discriminate.
Qed.

Lemma str_leb_trans a b c : str_leb a b = true -> str_leb b c = true -> str_leb a c = true.
Proof.
  unfold str_leb. intros H1 H2. apply negb_true_iff in H1, H2. apply negb_true_iff.
  destruct (str_ltb c a) eqn:E; [|reflexivity].
  (* c < a, not b < a, not c < b: then a = b or a < b; ... *)
  destruct (str_ltb a b) eqn:Eab.
  - rewrite (str_ltb_trans _ _ _ E Eab) in H2. discriminate.
  - assert (a = b) by (apply str_ltb_total; auto). subst. congruence.
Qed.

Inductive sorted_by (f : meth -> str) : list meth -> Prop :=
| sb_nil : sorted_by f []
| sb_one x : sorted_by f [x]
| sb_cons x y l : str_leb (f x) (f y) = true -> sorted_by f (y :: l) -> sorted_by f (x :: y :: l).

Lemma insert_sorted m l : sorted_by meth_id l -> sorted_by meth_id (insert_m m l).
Proof.
  induction 1 as [|x|x y l Hxy Hs IH]; cbn [insert_m].
  - constructor.
  - destruct (str_leb (meth_id m) (meth_id x)) eqn:E.
    + constructor; [exact E|constructor].
    + constructor; [now apply str_leb_total|constructor].
  - destruct (str_leb (meth_id m) (meth_id x)) eqn:E.
    + constructor; [exact E|]. now constructor.
    + cbn [insert_m] in IH. destruct (str_leb (meth_id m) (meth_id y)) eqn:E2.
      * constructor; [now apply str_leb_total|]. constructor; [exact E2|exact Hs].
      * constructor; [exact Hxy|exact IH].
Qed.

Lemma method_table_sorted ms : sorted_by meth_id (method_table ms).
Proof.
  induction ms as [|m ms IH]; cbn; [constructor|]. now apply insert_sorted.
Qed.

Lemma insert_perm m l : Permutation (m :: l) (insert_m m l).
Proof.
  induction l as [|x l IH]; cbn [insert_m]; [reflexivity|].
  destruct (str_leb (meth_id m) (meth_id x)); [reflexivity|].
  etransitivity; [apply perm_swap|]. now constructor.
Qed.

Lemma method_table_perm ms : Permutation ms (method_table ms).
Proof.
  induction ms as [|m ms IH]; cbn; [constructor|].
  etransitivity; [|apply insert_perm]. now constructor.
Qed.

Lemma method_table_nodup ms : NoDup (map meth_id ms) -> NoDup (map meth_id (method_table ms)).
Proof.
  intros H. eapply Permutation_NoDup; [|exact H].
  apply Permutation_map, method_table_perm.
Qed.

Lemma xcount_perm l1 l2 : Permutation l1 l2 -> xcount l1 = xcount l2.
Proof.
  unfold xcount. induction 1; cbn; auto.
  - destruct (m_exp x); cbn; auto.
  - destruct (m_exp x), (m_exp y); cbn; auto.
  - congruence.
Qed.

(* the count stored in the descriptor is the number of exported methods of the type *)
Lemma xcount_table ms : xcount (method_table ms) = xcount ms.
Proof. symmetry. apply xcount_perm, method_table_perm. Qed.

(* when every exported Id sorts before every unexported Id, the first Xcount entries of a sorted
   table are exactly its exported entries *)
Definition exp_first (l : list meth) : Prop :=
  forall a b, In a l -> In b l -> m_exp a = true -> m_exp b = false ->
              str_ltb (meth_id a) (meth_id b) = true.

Lemma sorted_head_le x l : sorted_by meth_id (x :: l) ->
  forall y, In y l -> str_leb (meth_id x) (meth_id y) = true.
Proof.
  revert x. induction l as [|z l IH]; intros x Hs y Hin; [destruct Hin|].
  inversion Hs; subst. destruct Hin as [->|Hin]; [assumption|].
  eapply str_leb_trans; [eassumption|]. now apply IH.
Qed.

Lemma sorted_tail x l : sorted_by meth_id (x :: l) -> sorted_by meth_id l.
Proof. inversion 1; subst; [constructor|assumption]. Qed.

Lemma filter_none (l : list meth) : (forall y, In y l -> m_exp y = false) -> filter m_exp l = [].
Proof.
  induction l as [|x l IH]; intros H; [reflexivity|]. cbn.
  rewrite (H x (or_introl eq_refl)). apply IH. intros y Hy. apply H. now right.
Qed.

Lemma prefix_is_filter l :
  sorted_by meth_id l -> exp_first l ->
  firstn (xcount l) l = filter m_exp l.
Proof.
  induction l as [|x l IH]; intros Hs He; [reflexivity|].
  unfold xcount. cbn [filter]. destruct (m_exp x) eqn:Ex.
  - cbn [List.length firstn]. f_equal. apply IH.
    + eapply sorted_tail; eauto.
    + intros a b Ha Hb. apply He; now right.
  - (* x unexported: nothing exported can follow *)
    assert (Hnone : filter m_exp l = []).
    { apply filter_none. intros y Hy.
      destruct (m_exp y) eqn:Ey; [|reflexivity]. exfalso.
      assert (L : str_ltb (meth_id y) (meth_id x) = true).
      { apply He; [now right|now left|assumption|assumption]. }
      pose proof (sorted_head_le x l Hs y Hy) as Hle. unfold str_leb in Hle.
      rewrite L in Hle. discriminate. }
    rewrite Hnone. reflexivity.
Qed.

(* the first Xcount entries are the exported methods whenever exported names start with an ASCII
   upper-case letter and the import paths of the packages of unexported methods start with a byte
   above 'Z' (lower-case letters, underscore, non-ASCII) *)
Definition ascii_upper_names (ms : list meth) : Prop :=
  forall m, In m ms -> m_exp m = true -> exists c r, m_name m = c :: r /\ c <= 90.
Definition paths_above_Z (ms : list meth) : Prop :=
  forall m, In m ms -> m_exp m = false -> exists c r, m_pkg m = c :: r /\ 90 < c.

Lemma exported_prefix_ascii ms :
  ascii_upper_names ms -> paths_above_Z ms -> exported_methods ms = go_exported_methods ms.
Proof.
  intros Hn Hp. unfold exported_methods, go_exported_methods.
  apply prefix_is_filter; [apply method_table_sorted|].
  intros a b Ha Hb Ea Eb.
  assert (Ia : In a ms) by (eapply Permutation_in; [symmetry; apply method_table_perm|exact Ha]).
  assert (Ib : In b ms) by (eapply Permutation_in; [symmetry; apply method_table_perm|exact Hb]).
  destruct (Hn a Ia Ea) as [c [r [Na Lc]]]. destruct (Hp b Ib Eb) as [c' [r' [Nb Lc']]].
  unfold meth_id. rewrite Ea, Eb, Na, Nb. cbn [app str_ltb].
  apply orb_true_iff. left. apply N.ltb_lt. lia.
Qed.

(* without that premise the prefix is wrong: an exported name that starts with a non-ASCII
   upper-case letter sorts after every unexported Id *)
Definition ms_nonascii : list meth :=
  [Meth (lit "Zeta") true []; Meth [195; 132; 114; 103; 101; 114] true []; Meth (lit "alpha") false (lit "verifprog")].

Lemma exported_prefix_nonascii_wrong :
  exported_methods ms_nonascii <> go_exported_methods ms_nonascii /\
  map m_name (exported_methods ms_nonascii) = [lit "Zeta"; lit "alpha"] /\
  map m_name (go_exported_methods ms_nonascii) = [lit "Zeta"; [195; 132; 114; 103; 101; 114]].
Proof. vm_compute. repeat split. discriminate. Qed.

(* ================================================================== *)
(* 4. DeepEqual                                                        *)
(* ================================================================== *)

(* no NaN and no non-nil function value in the value tree itself (what lies behind pointers,
   slices and maps does not matter for reflexivity: identical references are equal) *)
Fixpoint clean (v : val) : bool :=
  match v with
  | VInt _ _ => true
  | VFloat _ f => match f with FNaN => false | FNum _ => true end
  | VFunc _ b => b
  | VPtr _ _ | VSlice _ _ _ _ | VMap _ _ => true
  | VStruct _ fs => (fix all (l : list val) := match l with [] => true | x :: r => clean x && all r end) fs
  | VArray _ fs => (fix all (l : list val) := match l with [] => true | x :: r => clean x && all r end) fs
  | VIface _ None => true
  | VIface _ (Some x) => clean x
  end.
Definition clean_all : list val -> bool :=
  fix all (l : list val) := match l with [] => true | x :: r => clean x && all r end.

Lemma all2_refl (f : list visit -> val -> val -> dres) xs :
  (forall x vs r vs', In x xs -> clean x = true -> f vs x x = Some (r, vs') -> r = true) ->
  forall vs r vs', clean_all xs = true -> all2 f vs xs xs = Some (r, vs') -> r = true.
Proof.
  induction xs as [|x xs IH]; intros Hf vs r vs' Hc H.
  - cbn in H. now inversion H.
  - cbn [all2] in H. cbn [clean_all] in Hc. apply andb_true_iff in Hc as [Hx Hr].
    destruct (f vs x x) as [[b vs1]|] eqn:E; [|discriminate].
    assert (b = true) by (eapply Hf; [now left|exact Hx|exact E]). subst b.
    eapply IH; [|exact Hr|exact H]. intros y vs0 r0 vs0' Hy. apply Hf. now right.
Qed.

Lemma deep_refl fuel h : forall a vs r vs',
  clean a = true -> deep fuel h vs a a = Some (r, vs') -> r = true.
Proof.
  induction fuel as [|fuel IH]; intros a vs r vs' Hc H; [discriminate|].
  cbn [deep] in H. rewrite N.eqb_refl in H. cbn [negb] in H.
  destruct a as [t x|t f|t n|t p|t s o l|t m|t fs|t fs|t [x|]].
  - rewrite Z.eqb_refl in H. now inversion H.
  - destruct f; [|discriminate]. cbn [fl_eqb] in H. rewrite Z.eqb_refl in H. now inversion H.
  - cbn [clean] in Hc. subst n. now inversion H.
  - destruct (p =? 0) eqn:E0; cbn [orb andb] in H; [now inversion H|].
    destruct (visited_mem vs (mk_visit p p t)); [now inversion H|].
    rewrite N.eqb_refl in H. now inversion H.
  - destruct (s =? 0) eqn:E0; cbn [orb andb] in H; [now inversion H|].
    destruct (visited_mem vs (mk_visit (skey s o l) (skey s o l) t)); [now inversion H|].
    rewrite !N.eqb_refl in H. cbn [negb andb] in H. now inversion H.
  - destruct (m =? 0) eqn:E0; cbn [orb andb] in H; [now inversion H|].
    destruct (visited_mem vs (mk_visit m m t)); [now inversion H|].
    destruct (hget h m) as [[v|es|kvs]|]; try discriminate.
    rewrite Nat.eqb_refl, N.eqb_refl in H. cbn [negb] in H. now inversion H.
  - eapply all2_refl; [|exact Hc|exact H]. intros y vs0 r0 vs0' _. apply IH.
  - eapply all2_refl; [|exact Hc|exact H]. intros y vs0 r0 vs0' _. apply IH.
  - exact (IH x vs r vs' Hc H).
  - now inversion H.
Qed.

Lemma deep_equal_refl fuel h a r :
  clean a = true -> deep_equal fuel h a a = Some r -> r = true.
Proof.
  unfold deep_equal. intros Hc H. destruct (deep fuel h [] a a) as [[b vs]|] eqn:E; [|discriminate].
  inversion H; subst. eapply deep_refl; eauto.
Qed.

(* NaN and non-nil functions are the exceptions *)
Lemma deep_equal_nan : deep_equal 5 [] (VFloat 14 FNaN) (VFloat 14 FNaN) = Some false.
Proof. reflexivity. Qed.
Lemma deep_equal_func : deep_equal 5 [] (VFunc 19 false) (VFunc 19 false) = Some false
                        /\ deep_equal 5 [] (VFunc 19 true) (VFunc 19 true) = Some true.
Proof. split; reflexivity. Qed.
(* but a pointer to NaN equals itself, and a second pointer to another NaN does not *)
Lemma deep_equal_ptr_nan :
  let h := [(1, OVal (VFloat 14 FNaN)); (2, OVal (VFloat 14 FNaN))] in
  deep_equal 5 h (VPtr 22 1) (VPtr 22 1) = Some true /\ deep_equal 5 h (VPtr 22 1) (VPtr 22 2) = Some false.
Proof. split; reflexivity. Qed.
(* nil and empty slices / maps are different; two empty ones are equal *)
Lemma deep_equal_nil_empty :
  let h := [(1, OArr []); (2, OArr []); (3, OMap []); (4, OMap [])] in
  deep_equal 5 h (VSlice 23 0 0 0) (VSlice 23 1 0 0) = Some false /\
  deep_equal 5 h (VSlice 23 1 0 0) (VSlice 23 2 0 0) = Some true /\
  deep_equal 5 h (VMap 21 0) (VMap 21 3) = Some false /\
  deep_equal 5 h (VMap 21 3) (VMap 21 4) = Some true.
Proof. repeat split; reflexivity. Qed.
(* cyclic structures terminate through the visited set: two one-element rings *)
Lemma deep_equal_cyclic :
  let h := [(1, OVal (VStruct 25 [VInt 2 7; VPtr 22 1])); (2, OVal (VStruct 25 [VInt 2 7; VPtr 22 2]))] in
  deep_equal 6 h (VPtr 22 1) (VPtr 22 2) = Some true.
Proof. reflexivity. Qed.

(* symmetry of the visited key and of the scalar cases *)
Lemma mk_visit_sym a b t : mk_visit a b t = mk_visit b a t.
Proof.
  unfold mk_visit. destruct (b <? a) eqn:E1, (a <? b) eqn:E2; try reflexivity.
  - apply N.ltb_lt in E1, E2. lia.
  - apply N.ltb_ge in E1, E2. assert (a = b) by lia. now subst.
Qed.

(* --- symmetry, for values and heaps without maps (the map case iterates over the keys of the
   first operand, so the visited sets of the two orders differ; not proved) --- *)
Fixpoint nomap (v : val) : bool :=
  match v with
  | VMap _ _ => false
  | VStruct _ fs => forallb nomap fs
  | VArray _ fs => forallb nomap fs
  | VIface _ (Some x) => nomap x
  | _ => true
  end.
Definition nomap_obj (o : obj) : bool :=
  match o with OVal v => nomap v | OArr es => forallb nomap es | OMap _ => false end.
Definition nomap_heap (h : heap) : bool := forallb (fun p => nomap_obj (snd p)) h.

Lemma nomap_hget h : nomap_heap h = true -> forall p o, hget h p = Some o -> nomap_obj o = true.
Proof.
  induction h as [|[i o'] h IH]; intros Hh p o H; [discriminate|].
  cbn in Hh. apply andb_true_iff in Hh as [H1 H2]. cbn [hget] in H.
  destruct (i =? p); [now inversion H; subst|]. eapply IH; eauto.
Qed.

Lemma forallb_firstn {A} (f : A -> bool) n l : forallb f l = true -> forallb f (firstn n l) = true.
Proof.
  revert l. induction n; intros [|x l]; cbn; auto. intros H. apply andb_true_iff in H as [H1 H2].
  now rewrite H1, IHn.
Qed.
Lemma forallb_skipn {A} (f : A -> bool) n l : forallb f l = true -> forallb f (skipn n l) = true.
Proof.
  revert l. induction n; intros [|x l]; cbn; auto. intros H. apply andb_true_iff in H as [H1 H2]. auto.
Qed.

Lemma fl_eqb_sym a b : fl_eqb a b = fl_eqb b a.
Proof. destruct a, b; cbn; auto. apply Z.eqb_sym. Qed.

Lemma all2_sym (f : list visit -> val -> val -> dres) :
  (forall vs x y, nomap x = true -> nomap y = true -> f vs x y = f vs y x) ->
  forall xs ys vs, forallb nomap xs = true -> forallb nomap ys = true ->
                   all2 f vs xs ys = all2 f vs ys xs.
Proof.
  intros Hf. induction xs as [|x xs IH]; intros [|y ys] vs Hx Hy; cbn [all2]; try reflexivity.
  cbn in Hx, Hy. apply andb_true_iff in Hx as [Hx1 Hx2]. apply andb_true_iff in Hy as [Hy1 Hy2].
  rewrite (Hf vs x y Hx1 Hy1). destruct (f vs y x) as [[[|] vs1]|]; auto.
Qed.

Lemma deep_sym fuel h : nomap_heap h = true -> forall a b vs,
  nomap a = true -> nomap b = true -> deep fuel h vs a b = deep fuel h vs b a.
Proof.
  intros Hh. induction fuel as [|fuel IH]; intros a b vs Ha Hb; [reflexivity|].
  cbn [deep]. rewrite (N.eqb_sym (vtid b) (vtid a)).
  destruct (N.eqb_spec (vtid a) (vtid b)) as [E|E]; cbn [negb]; [|reflexivity].
  destruct a as [t x|t f|t n|t p|t s o l|t m|t fs|t fs|t [x|]];
    destruct b as [t' x'|t' f'|t' n'|t' p'|t' s' o' l'|t' m'|t' fs'|t' fs'|t' [x'|]];
    try reflexivity; try discriminate; cbn [vtid] in E; subst t'.
  - now rewrite Z.eqb_sym.
  - now rewrite fl_eqb_sym.
  - now rewrite andb_comm.
  - rewrite (orb_comm (p' =? 0)), (andb_comm (p' =? 0)), (mk_visit_sym p' p t), (N.eqb_sym p' p).
    destruct ((p =? 0) || (p' =? 0)); [reflexivity|].
    destruct (visited_mem vs (mk_visit p p' t)); [reflexivity|].
    destruct (p =? p'); [reflexivity|].
    destruct (hget h p) as [[x|es|kvs]|] eqn:E1; destruct (hget h p') as [[y|es'|kvs']|] eqn:E2; try reflexivity.
    apply IH.
    + exact (nomap_hget h Hh _ _ E1).
    + exact (nomap_hget h Hh _ _ E2).
  - rewrite (orb_comm (s' =? 0)), (andb_comm (s' =? 0)), (mk_visit_sym (skey s' o' l') (skey s o l) t),
      (N.eqb_sym l' l), (N.eqb_sym s' s), (N.eqb_sym o' o).
    destruct ((s =? 0) || (s' =? 0)); [reflexivity|].
    destruct (visited_mem vs (mk_visit (skey s o l) (skey s' o' l') t)); [reflexivity|].
    destruct (negb (l =? l')); [reflexivity|].
    destruct ((s =? s') && (o =? o')); [reflexivity|].
    destruct (hget h s) as [[x|es|kvs]|] eqn:E1; destruct (hget h s') as [[y|es'|kvs']|] eqn:E2; try reflexivity.
    apply all2_sym; [intros; now apply IH| |].
    + unfold window. apply forallb_firstn, forallb_skipn. exact (nomap_hget h Hh _ _ E1).
    + unfold window. apply forallb_firstn, forallb_skipn. exact (nomap_hget h Hh _ _ E2).
  - apply all2_sym; [intros; now apply IH|exact Ha|exact Hb].
  - apply all2_sym; [intros; now apply IH|exact Ha|exact Hb].
  - apply IH; [exact Ha|exact Hb].
Qed.

Lemma deep_equal_sym_nomap fuel h a b :
  nomap_heap h = true -> nomap a = true -> nomap b = true ->
  deep_equal fuel h a b = deep_equal fuel h b a.
Proof. intros. unfold deep_equal. now rewrite (deep_sym fuel h H a b [] H0 H1). Qed.

(* ---------- packaged statements used by Props.v ---------- *)
Lemma named_pointer_refuted : exists t, llgo_str false t <> go_type_string t /\ llgo_str false t = lit "*main.P".
Proof. exists t_P. split; [exact named_pointer_differs|exact (proj1 named_pointer_strings)]. Qed.

Lemma method_table_facts ms :
  sorted_by meth_id (method_table ms) /\ Permutation ms (method_table ms) /\
  (NoDup (map meth_id ms) -> NoDup (map meth_id (method_table ms))) /\
  xcount (method_table ms) = xcount ms.
Proof.
  repeat split.
  - exact (method_table_sorted ms).
  - exact (method_table_perm ms).
  - exact (method_table_nodup ms).
  - exact (xcount_table ms).
Qed.

Lemma exported_prefix_refuted : exists ms, exported_methods ms <> go_exported_methods ms.
Proof. exists ms_nonascii. exact (proj1 exported_prefix_nonascii_wrong). Qed.

Lemma deep_equal_nan_func :
  deep_equal 5 [] (VFloat 14 FNaN) (VFloat 14 FNaN) = Some false /\
  deep_equal 5 [] (VFunc 19 false) (VFunc 19 false) = Some false.
Proof. split; [exact deep_equal_nan|exact (proj1 deep_equal_func)]. Qed.

(* the code that exists: a defined type never carries ExtraStar (type P *int stores main.P) *)
Lemma es_named_fixed pkg name targs und : es true (TNamed pkg name targs und) = false.
Proof. reflexivity. Qed.

(* ================================================================== *)
(* 5. reflect.Value: integer get / set / convert / overflow             *)
(* ================================================================== *)
From LLGoV Require Import Lib.BV.
Local Open Scope Z_scope.

Ltac norm_pow :=
  repeat match goal with
         | |- context [2 ^ ?n] => let v := eval vm_compute in (2 ^ n) in change (2 ^ n) with v
         | H : context [2 ^ ?n] |- _ => let v := eval vm_compute in (2 ^ n) in change (2 ^ n) with v in H
         end.
Ltac euclid := Z.to_euclidean_division_equations; lia.

Lemma kbits_wf k : wf_w (kbits k).
Proof. unfold wf_w. destruct k; cbn; auto. Qed.

(* truncating to w bits after truncating to 64 *)
Lemma wrap_wrap64 w x : wf_w w -> wrap w (wrap 64 x) = wrap w x.
Proof. intros Hw. unfold wrap. widths Hw; norm_pow; euclid. Qed.

(* the signed reading of the w-bit pattern of a number that fits w bits signed *)
Lemma sgn_wrap_id w x : wf_w w -> - 2 ^ (w - 1) <= x < 2 ^ (w - 1) -> sgn w (wrap w x) = x.
Proof.
  intros Hw H. unfold sgn, wrap. widths Hw; cbn [Z.sub Z.add Z.opp Z.pos_sub Z.succ_double Z.pred_double Z.double Pos.pred_double] in *;
    norm_pow; repeat match goal with |- context [?a <? ?b] => destruct (Z.ltb_spec a b) end; euclid.
Qed.

Lemma sgn_wrap_range w x : wf_w w -> - 2 ^ (w - 1) <= sgn w (wrap w x) < 2 ^ (w - 1).
Proof. intros Hw. apply sgn_range; [exact Hw|]. apply wrap_range. widths Hw; lia. Qed.

Lemma pow_le_63 w : wf_w w -> 2 ^ (w - 1) <= 2 ^ 63.
Proof. intros Hw. widths Hw; norm_pow; lia. Qed.
Lemma pow_le_64 w : wf_w w -> 2 ^ w <= 2 ^ 64.
Proof. intros Hw. widths Hw; norm_pow; lia. Qed.

Lemma wf64 : wf_w 64. Proof. unfold wf_w. auto. Qed.

(* a value of kind k fits the 64-bit reading of its own signedness *)
Lemma krange_signed k x : ksigned k = true -> krange k x -> - 2 ^ 63 <= x < 2 ^ 63.
Proof.
  unfold krange. intros ->. intros H. pose proof (pow_le_63 (kbits k) (kbits_wf k)).
  change (64 - 1) with 63 in *. lia.
Qed.
Lemma krange_unsigned k x : ksigned k = false -> krange k x -> 0 <= x < 2 ^ 64.
Proof. unfold krange. intros ->. intros H. pose proof (pow_le_64 (kbits k) (kbits_wf k)). lia. Qed.

(* reading back the Value that holds x gives x, in both storage forms *)
Lemma read_ival_of k indir x : krange k x -> value_read (ival_of k indir x) = x.
Proof.
  intros H. unfold value_read, ival_of, value_int, value_uint. cbn [iv_kind iv_indir iv_word].
  destruct (ksigned k) eqn:S.
  - destruct indir.
    + apply sgn_wrap_id; [apply kbits_wf|]. unfold krange in H. now rewrite S in H.
    + apply sgn_wrap_id; [apply wf64|]. exact (krange_signed k x S H).
  - destruct indir.
    + apply wrap_small. unfold krange in H. now rewrite S in H.
    + apply wrap_small. exact (krange_unsigned k x S H).
Qed.

(* the word cvtInt / cvtUint hand to makeInt is the 64-bit pattern of the source value *)
Lemma cvt_bits k indir x : krange k x ->
  (if ksigned k then wrap 64 (value_int (ival_of k indir x)) else value_uint (ival_of k indir x)) = wrap 64 x.
Proof.
  intros H. pose proof (read_ival_of k indir x H) as R. unfold value_read in R.
  cbn [iv_kind ival_of] in R. destruct (ksigned k) eqn:S.
  - now rewrite R.
  - rewrite R. symmetry. apply wrap_small. exact (krange_unsigned k x S H).
Qed.

(* makeInt narrows to the target kind: the word it stores is the 64-bit pattern of T(x) *)
Lemma narrow_bits_spec k x : narrow_bits k (wrap 64 x) = wrap 64 (go_conv k x).
Proof.
  unfold go_conv. destruct k; cbn [narrow_bits ksigned kbits];
    rewrite ?wrap_wrap64 by (unfold wf_w; auto); try reflexivity; symmetry;
    first [ apply wrap_wrap
          | apply wrap_sgn; [apply wf64|apply wrap_range; lia]
          | apply wrap_small;
            match goal with |- in_range _ (wrap ?w ?y) => pose proof (wrap_range w y ltac:(lia)) end;
            unfold in_range in *; norm_pow; lia ].
Qed.

Lemma go_conv_range k x : krange k (go_conv k x).
Proof.
  unfold krange, go_conv. destruct (ksigned k).
  - apply sgn_wrap_range, kbits_wf.
  - apply wrap_range. pose proof (kbits_wf k) as Hw. widths Hw; lia.
Qed.

(* Value.Convert between integer kinds: the result holds Go's T(x) *)
Lemma convert_int_value src dst indir x : krange src x ->
  convert_int true (ival_of src indir x) dst = ival_of dst false (go_conv dst x).
Proof.
  intros H. unfold convert_int, cvt_int, cvt_uint, make_int. cbn [iv_kind ival_of].
  pose proof (cvt_bits src indir x H) as B. cbn [ival_of] in B.
  destruct (ksigned src); rewrite B, narrow_bits_spec; reflexivity.
Qed.

Lemma convert_int_go src dst indir x : krange src x ->
  conv_read true src dst indir x = go_conv dst x.
Proof.
  intros H. unfold conv_read. rewrite (convert_int_value src dst indir x H).
  apply read_ival_of, go_conv_range.
Qed.

(* before the repair makeInt kept the whole word: int(-1) -> uint8 read back as 2^64-1,
   int(128) -> int8 as 128 *)
Lemma convert_int_unfixed_wrong :
  conv_read false KInt KUint8 false (-1) = 18446744073709551615 /\ go_conv KUint8 (-1) = 255 /\
  conv_read false KInt KInt8 true 128 = 128 /\ go_conv KInt8 128 = -128.
Proof. vm_compute. repeat split. Qed.

(* SetInt / SetUint then Int / Uint: the value narrowed to the kind *)
Lemma set_get k x : set_read k x = Some (go_conv k x).
Proof.
  unfold set_read, set_int, set_uint, go_conv, value_read, value_int, value_uint, ival_of.
  destruct (ksigned k) eqn:S; cbn [iv_indir iv_kind iv_word]; rewrite S; reflexivity.
Qed.

Lemma go_conv_id k x : krange k x -> go_conv k x = x.
Proof.
  unfold krange, go_conv. destruct (ksigned k); intros H.
  - apply sgn_wrap_id; [apply kbits_wf|exact H].
  - apply wrap_small. exact H.
Qed.

(* the shift pair of OverflowInt / OverflowUint computes the narrowed value *)
Lemma shifts_i64 w x : wf_w w -> - 2 ^ 63 <= x < 2 ^ 63 ->
  shr_i64 (shl_i64 x (64 - w)) (64 - w) = sgn w (wrap w x).
Proof.
  intros Hw H. unfold shr_i64, shl_i64, sgn, wrap.
  widths Hw; cbn [Z.sub Z.add Z.opp Z.pos_sub Z.succ_double Z.pred_double Z.double Pos.pred_double] in *; norm_pow;
    repeat match goal with |- context [?a <? ?b] => destruct (Z.ltb_spec a b) end; euclid.
Qed.
Lemma shifts_u64 w x : wf_w w -> 0 <= x < 2 ^ 64 ->
  shr_u64 (shl_u64 x (64 - w)) (64 - w) = wrap w x.
Proof.
  intros Hw H. unfold shr_u64, shl_u64, wrap.
  widths Hw; cbn [Z.sub Z.add Z.opp Z.pos_sub Z.succ_double Z.pred_double Z.double Pos.pred_double] in *; norm_pow; euclid.
Qed.

(* OverflowInt(x) for an int64 x, OverflowUint(x) for a uint64 x: true exactly when x is not a
   value of the kind *)
Lemma overflow_spec k x :
  (if ksigned k then - 2 ^ 63 <= x < 2 ^ 63 else 0 <= x < 2 ^ 64) ->
  overflow k x = true <-> ~ krange k x.
Proof.
  intros H. unfold overflow, overflow_int, overflow_uint. destruct (ksigned k) eqn:S.
  - rewrite (shifts_i64 (kbits k) x (kbits_wf k) H). rewrite negb_true_iff, Z.eqb_neq. split.
    + intros Hne Hr. apply Hne. symmetry. apply sgn_wrap_id; [apply kbits_wf|].
      unfold krange in Hr. now rewrite S in Hr.
    + intros Hn E. apply Hn. unfold krange. rewrite S. rewrite E. apply sgn_wrap_range, kbits_wf.
  - rewrite (shifts_u64 (kbits k) x (kbits_wf k) H). rewrite negb_true_iff, Z.eqb_neq. split.
    + intros Hne Hr. apply Hne. symmetry. apply wrap_small. unfold krange in Hr. now rewrite S in Hr.
    + intros Hn E. apply Hn. unfold krange. rewrite S. rewrite E. apply wrap_range.
      pose proof (kbits_wf k) as Hw. widths Hw; lia.
Qed.

(* ---------- floats ---------- *)
Section FloatProofs.
  Variables (f32 f64 : Type) (widen : f32 -> f64) (narrow : f64 -> f32) (of_int : Z -> f64) (to_int : f64 -> Z).
  (* the laws of IEEE-754 rounding that the statements need *)
  Hypothesis narrow_widen : forall x, narrow (widen x) = x.
  Hypothesis int53_exact : forall n, Z.abs n <= 2 ^ 53 -> to_int (of_int n) = n.
  Hypothesis int24_exact : forall n, Z.abs n <= 2 ^ 24 -> widen (narrow (of_int n)) = of_int n.

  Lemma widen_injective x y : widen x = widen y -> x = y.
  Proof. intros E. rewrite <- (narrow_widen x), <- (narrow_widen y). now rewrite E. Qed.

  Notation cvtF := (cvt_float f32 f64 widen narrow).
  Notation valF := (value_float f32 f64 widen).

  (* float32 -> float64 -> float32 and the identity conversions return the operand *)
  Lemma float_widen_narrow v : cvtF (cvtF v KFloat64) (fkind_of f32 f64 v) = v.
  Proof. destruct v; cbn; [now rewrite narrow_widen|reflexivity]. Qed.
  Lemma float_same_kind v : cvtF v (fkind_of f32 f64 v) = v.
  Proof. destruct v; reflexivity. Qed.
  (* widening keeps the value and loses nothing *)
  Lemma float_widen_value v : valF (cvtF v KFloat64) = valF v.
  Proof. destruct v; reflexivity. Qed.
  Lemma float_widen_injective x y : cvtF (F32 f32 f64 x) KFloat64 = cvtF (F32 f32 f64 y) KFloat64 -> x = y.
  Proof. cbn. intros E. inversion E. now apply widen_injective. Qed.

  (* integer -> float -> integer is Go's integer conversion as long as the float is exact *)
  Lemma int_float64_int src dst indir x : krange src x -> Z.abs x <= 2 ^ 53 ->
    value_read (cvt_float_int f32 f64 widen to_int true
                  (cvt_int_float f32 f64 narrow of_int (ival_of src indir x) KFloat64) dst) = go_conv dst x.
  Proof.
    intros H Hx. unfold cvt_int_float, cvt_float_int, make_float, value_float, make_int.
    rewrite (read_ival_of src indir x H), (int53_exact x Hx), narrow_bits_spec.
    exact (read_ival_of dst false (go_conv dst x) (go_conv_range dst x)).
  Qed.
  Lemma int_float32_int src dst indir x : krange src x -> Z.abs x <= 2 ^ 24 ->
    value_read (cvt_float_int f32 f64 widen to_int true
                  (cvt_int_float f32 f64 narrow of_int (ival_of src indir x) KFloat32) dst) = go_conv dst x.
  Proof.
    intros H Hx. unfold cvt_int_float, cvt_float_int, make_float, value_float, make_int.
    rewrite (read_ival_of src indir x H), (int24_exact x Hx), (int53_exact x), narrow_bits_spec.
    - exact (read_ival_of dst false (go_conv dst x) (go_conv_range dst x)).
    - assert (2 ^ 24 <= 2 ^ 53) by (norm_pow; lia). lia.
  Qed.
End FloatProofs.

Lemma set_get_both k x : set_read k x = Some (go_conv k x) /\ (krange k x -> set_read k x = Some x).
Proof. split; [exact (set_get k x)|]. intros H. rewrite set_get. now rewrite (go_conv_id k x H). Qed.

Lemma int_float_int_both :
  forall (f32 f64 : Type) (widen : f32 -> f64) (narrow : f64 -> f32) (of_int : Z -> f64) (to_int : f64 -> Z),
  (forall n, Z.abs n <= 2 ^ 53 -> to_int (of_int n) = n) ->
  (forall n, Z.abs n <= 2 ^ 24 -> widen (narrow (of_int n)) = of_int n) ->
  forall src dst indir x, krange src x ->
  (Z.abs x <= 2 ^ 53 ->
   value_read (cvt_float_int f32 f64 widen to_int true
                 (cvt_int_float f32 f64 narrow of_int (ival_of src indir x) KFloat64) dst) = go_conv dst x) /\
  (Z.abs x <= 2 ^ 24 ->
   value_read (cvt_float_int f32 f64 widen to_int true
                 (cvt_int_float f32 f64 narrow of_int (ival_of src indir x) KFloat32) dst) = go_conv dst x).
Proof.
  intros f32 f64 widen narrow of_int to_int H53 H24 src dst indir x H. split; intros Hx.
  - exact (int_float64_int f32 f64 widen narrow of_int to_int H53 src dst indir x H Hx).
  - exact (int_float32_int f32 f64 widen narrow of_int to_int H53 H24 src dst indir x H Hx).
Qed.

(* ================================================================== *)
(* 6. FieldByName: the breadth-first search against the path rule       *)
(* ================================================================== *)
Local Open Scope N_scope.

(* all lists over an alphabet of length <= k *)
Fixpoint lists_upto {A} (alpha : list A) (k : nat) : list (list A) :=
  match k with
  | O => [[]]
  | S k' => [] :: flat_map (fun l => map (fun a => a :: l) alpha) (lists_upto alpha k')
  end.

(* the struct types of the swept domain: up to k embedded fields (value or pointer does not matter
   to the search) whose targets are taken from [targets] (repetitions allowed: two edges to one
   type are the compressed form of a diamond), and a field named X (name 1) absent, first or last *)
Definition emb_field (t : N) : sfield := SField (100 + t) (Some t).
Definition x_field : sfield := SField 1 None.
Definition type_options (targets : list N) (k : nat) (xfirst : bool) : list (list sfield) :=
  flat_map (fun es => let fs := map emb_field es in
                      if xfirst then [fs; x_field :: fs; fs ++ [x_field]] else [fs; fs ++ [x_field]])
           (lists_upto targets k).

Fixpoint forall_graphs (opts : list (list sfield)) (n : nat) (acc : sgraph) (P : sgraph -> bool) : bool :=
  match n with
  | O => P acc
  | S n' => forallb (fun o => forall_graphs opts n' (o :: acc) P) opts
  end.

Lemma forall_graphs_spec opts P : forall n acc, forall_graphs opts n acc P = true ->
  forall l, List.length l = n -> Forall (fun o => In o opts) l -> P (rev l ++ acc) = true.
Proof.
  induction n as [|n IH]; intros acc H l Hl Hin.
  - destruct l; [exact H|discriminate].
  - destruct l as [|o l]; [discriminate|]. inversion Hin; subst. cbn [forall_graphs] in H.
    rewrite forallb_forall in H. specialize (H o H2).
    cbn [rev]. rewrite <- app_assoc. cbn [app]. apply (IH (o :: acc) H l); [now inversion Hl|assumption].
Qed.

Definition res_eqb (a b : option (list N)) : bool := option_eqb (list_eqb N.eqb) a b.
Lemma res_eqb_eq a b : res_eqb a b = true -> a = b.
Proof.
  destruct a, b; cbn; try discriminate; auto. intros H. f_equal.
  apply (list_eqb_eq N.eqb); [|exact H]. intros x y E. now apply N.eqb_eq.
Qed.

(* the names searched for: X and the name of every embedded field *)
Definition search_names (n : nat) : list N := 1 :: map (fun t => 100 + N.of_nat t) (seq 0 n).
Definition agree (n : nat) (g : sgraph) : bool :=
  forallb (fun nm => res_eqb (field_by_name true g 0 nm) (go_field_by_name_func g 0 (N.eqb nm))) (search_names n).

(* domain A: 3 struct types, each with up to 2 embedded fields over all 3 types, X absent/first/last;
   domain B: 4 struct types, embedded fields over types 1..3 (type 0 is the root), X absent/last *)
Definition opts_A := type_options [0; 1; 2] 2 true.
Definition opts_B := type_options [1; 2; 3] 2 false.
Lemma sweep_A : forall_graphs opts_A 3 [] (agree 3) = true.
Proof. vm_compute. reflexivity. Qed.
Lemma sweep_B : forall_graphs opts_B 4 [] (agree 4) = true.
Proof. vm_compute. reflexivity. Qed.

Lemma agree_in_domain opts n (H : forall_graphs opts n [] (agree n) = true) :
  forall g, List.length g = n -> Forall (fun o => In o opts) g ->
  forall nm, In nm (search_names n) -> field_by_name true g 0 nm = go_field_by_name_func g 0 (N.eqb nm).
Proof.
  intros g Hl Hin nm Hnm.
  pose proof (forall_graphs_spec opts (agree n) n [] H (rev g)) as A.
  rewrite rev_length, rev_involutive, app_nil_r in A.
  specialize (A Hl). assert (Hr : Forall (fun o => In o opts) (rev g)).
  { apply Forall_forall. intros o Ho. rewrite <- in_rev in Ho. rewrite Forall_forall in Hin. auto. }
  specialize (A Hr). unfold agree in A. rewrite forallb_forall in A. apply res_eqb_eq, A, Hnm.
Qed.

Lemma fbn_domain_A : forall g, List.length g = 3%nat -> Forall (fun o => In o opts_A) g ->
  forall nm, In nm (search_names 3) -> field_by_name true g 0 nm = go_field_by_name_func g 0 (N.eqb nm).
Proof. exact (agree_in_domain opts_A 3 sweep_A). Qed.
Lemma fbn_domain_B : forall g, List.length g = 4%nat -> Forall (fun o => In o opts_B) g ->
  forall nm, In nm (search_names 4) -> field_by_name true g 0 nm = go_field_by_name_func g 0 (N.eqb nm).
Proof. exact (agree_in_domain opts_B 4 sweep_B). Qed.

(* without handing the multiplicity down (prop = false) the search finds a field that two paths
   reach: S embeds C twice (the compressed diamond), C embeds D, D has X *)
Definition g_diamond_below : sgraph :=
  [[emb_field 1; emb_field 1]; [emb_field 2]; [x_field]].
Lemma fbn_no_propagation_wrong :
  In [emb_field 1; emb_field 1] opts_A /\
  field_by_name false g_diamond_below 0 1 = Some [0; 0; 0] /\
  field_by_name true g_diamond_below 0 1 = None /\
  go_field_by_name_func g_diamond_below 0 (N.eqb 1) = None.
Proof.
  split; [vm_compute; repeat (try (left; reflexivity); right)|vm_compute; repeat split].
Qed.
