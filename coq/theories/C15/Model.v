(* C15 - executable model of the type strings, type flags and method tables that
   llgo stores in its type descriptors (ssa/abi/type.go: Builder.Str, realStr,
   namedStr, reflectTypeArgString, reflectTypeArgBaseString, reflectTypeArgPkgPath,
   structStr, interfaceStr, funcStr, TFlag; runtime/abi/type.go: Type.String,
   UncommonType.ExportedMethods; ssa/abitype.go: abiUncommonType over
   types.NewMethodSet), next to an independent rendering of the documented
   reflect.Type.String rules of Go, and a model of reflect.DeepEqual
   (runtime/internal/lib/reflect/deepequal.go) over an abstract value tree.
   Strings are byte lists. *)
From Coq Require Import Ascii String.
From LLGoV Require Export Lib.Common.
From LLGoV Require Import Lib.BV.
Local Open Scope N_scope.

Definition lit (s : string) : str :=
  List.map (fun a => N.of_nat (nat_of_ascii a)) (list_ascii_of_string s).

(* ---------- the type grammar ---------- *)

Inductive dir := DBoth | DSend | DRecv.

(* a package: import path and package name (the clause after the keyword package) *)
Definition pkgid := (str * str)%type.

Inductive ty :=
| TBasic (k : N)                       (* go/types BasicKind 1..18; byte/rune are kinds 8 and 5 *)
| TCut                                 (* stands for an underlying type that is not expanded again
                                          (recursive declarations); never a pointer type *)
| TNamed (pkg : option pkgid) (name : str) (targs : tys) (und : ty)
| TPtr (e : ty)
| TSlice (e : ty)
| TArray (n : N) (e : ty)
| TMap (k e : ty)
| TChan (d : dir) (e : ty)
| TFunc (ps rs : tys) (variadic : bool)
| TStruct (fs : fields)
| TIface (ms : methods)                (* explicit+embedded methods in go/types order *)
with tys :=
| TsNil
| TsCons (t : ty) (r : tys)
with fields :=
| FsNil
| FsCons (name : str) (emb : bool) (tag : str) (t : ty) (r : fields)
with methods :=
| MsNil
| MsCons (name : str) (exp : bool) (pkgname : option str) (sig : ty) (r : methods).

Scheme ty_mind := Induction for ty Sort Prop
  with tys_mind := Induction for tys Sort Prop
  with fields_mind := Induction for fields Sort Prop
  with methods_mind := Induction for methods Sort Prop.
Combined Scheme ty_mutind from ty_mind, tys_mind, fields_mind, methods_mind.

(* ---------- decimal rendering ---------- *)

Fixpoint uint_bytes (u : Decimal.uint) : str :=
  match u with
  | Decimal.Nil => []
  | Decimal.D0 r => 48 :: uint_bytes r | Decimal.D1 r => 49 :: uint_bytes r
  | Decimal.D2 r => 50 :: uint_bytes r | Decimal.D3 r => 51 :: uint_bytes r
  | Decimal.D4 r => 52 :: uint_bytes r | Decimal.D5 r => 53 :: uint_bytes r
  | Decimal.D6 r => 54 :: uint_bytes r | Decimal.D7 r => 55 :: uint_bytes r
  | Decimal.D8 r => 56 :: uint_bytes r | Decimal.D9 r => 57 :: uint_bytes r
  end.
Definition dec (n : N) : str := uint_bytes (N.to_uint n).

(* ---------- literals ---------- *)

Definition s_struct_o : str := Eval vm_compute in lit "struct {".
Definition s_iface_o : str := Eval vm_compute in lit "interface {".
Definition s_func_o : str := Eval vm_compute in lit "func(".
Definition s_map_o : str := Eval vm_compute in lit "map[".
Definition s_chan : str := Eval vm_compute in lit "chan".
Definition s_chansend : str := Eval vm_compute in lit "chan<-".
Definition s_recvchan : str := Eval vm_compute in lit "<-chan".
Definition s_dots : str := Eval vm_compute in lit "...".
Definition s_commasp : str := Eval vm_compute in lit ", ".
Definition s_unsafe_pointer : str := Eval vm_compute in lit "unsafe.Pointer".
Definition s_cla : str := Eval vm_compute in lit "command-line-arguments".
Definition s_main : str := Eval vm_compute in lit "main".
Definition s_patch : str := Eval vm_compute in lit "github.com/goplus/llgo/runtime/internal/lib/".
Definition s_fallback : str := Eval vm_compute in lit "<types.TypeString>".
Definition c_sp : N := 32.
Definition c_dot : N := 46.
Definition c_star : N := 42.
Definition c_lb : N := 91.
Definition c_rb : N := 93.
Definition c_comma : N := 44.
Definition c_semi : N := 59.
Definition c_lp : N := 40.
Definition c_rp : N := 41.
Definition c_rbrace : N := 125.
Definition c_dq : N := 34.
Definition c_bs : N := 92.

Definition basic_names : list str := Eval vm_compute in
  List.map lit ["invalid"; "bool"; "int"; "int8"; "int16"; "int32"; "int64"; "uint"; "uint8";
            "uint16"; "uint32"; "uint64"; "uintptr"; "float32"; "float64"; "complex64";
            "complex128"; "string"; "unsafe.Pointer"]%string.
(* Str of a basic type: Basic.String() with byte, rune and unsafe.Pointer spelled out *)
Definition basic_str (k : N) : str := nth (N.to_nat k) basic_names [].

Fixpoint strip_prefix (p s : str) : option str :=
  match p, s with
  | [], _ => Some s
  | a :: p', b :: s' => if a =? b then strip_prefix p' s' else None
  | _ :: _, [] => None
  end.
(* abi.PathOf *)
Definition path_of (p : str) : str :=
  match strip_prefix s_patch p with Some r => r | None => p end.

Definition dir_str (d : dir) : str :=
  match d with DBoth => s_chan | DSend => s_chansend | DRecv => s_recvchan end.

Definition star_if (b : bool) (s : str) : str := if b then c_star :: s else s.

(* ================= llgo: ssa/abi/type.go ================= *)

(* Every function below takes [fx : bool]: true is the code that exists (after the repairs of the
   ExtraStar flag of defined pointer types, the struct tags, the parentheses of chan (<-chan T),
   the star of pointer map keys and the qualifier of package main in type argument lists);
   false is the code before those repairs, kept for the theorems that show what failed. *)

(* strconv.Quote restricted to the bytes a struct tag is made of here: printable ASCII and
   bytes of (valid, printable) multi-byte UTF-8 are kept, the quote and the backslash are escaped,
   tab/newline/carriage return use their letter escapes *)
Definition hexdig (n : N) : N := if n <? 10 then 48 + n else 87 + n.
Definition quote_byte (c : N) : str :=
  if c =? c_dq then [c_bs; c_dq]
  else if c =? c_bs then [c_bs; c_bs]
  else if c =? 9 then [c_bs; 116]
  else if c =? 10 then [c_bs; 110]
  else if c =? 13 then [c_bs; 114]
  else if (c <? 32) || (c =? 127) then [c_bs; 120; hexdig (c / 16); hexdig (c mod 16)]
  else [c].
Definition go_quote (s : str) : str := [c_dq] ++ flat_map quote_byte s ++ [c_dq].

Definition is_recv_chan (t : ty) : bool := match t with TChan DRecv _ => true | _ => false end.

(* Builder.TFlag(t) & TFlagExtraStar (fx: extraStar, which does not look through defined types) *)
Fixpoint es (fx : bool) (t : ty) : bool :=
  match t with
  | TPtr e => negb (es fx e)
  | TNamed _ _ _ und => if fx then false else es fx und
  | _ => false
  end.

(* reflectTypeArgPkgPath *)
Definition targ_pkg (fx : bool) (p : pkgid) : str :=
  if fx && str_eqb (snd p) s_main then s_main
  else if str_eqb (fst p) s_cla && negb (str_eqb (snd p) []) then snd p else path_of (fst p).

Definition is_slice (t : ty) : bool := match t with TSlice _ => true | _ => false end.
Definition slice_elem (t : ty) : ty := match t with TSlice e => e | _ => t end.

Fixpoint tys_len (ts : tys) : nat := match ts with TsNil => O | TsCons _ r => S (tys_len r) end.

(* chanElemStr *)
Definition chan_elem (fx : bool) (d : dir) (e : ty) (s : str) : str :=
  if fx && match d with DBoth => is_recv_chan e | _ => false end then [c_lp] ++ s ++ [c_rp] else s.
(* structStr: the tag *)
Definition tag_str (fx : bool) (tag : str) : str :=
  if fx then match tag with [] => [] | _ => [c_sp] ++ go_quote tag end else [].

(* Builder.Str; [star_if (es fx x)] is realStr (the star is added back when the ExtraStar flag is
   set, exactly as runtime/abi Type.String does) *)
Fixpoint llgo_Str (fx : bool) (t : ty) : str :=
  match t with
  | TBasic k => basic_str k
  | TCut => []
  | TNamed pkg name targs _ =>
      let nm := name ++ match targs with TsNil => [] | _ => [c_lb] ++ llgo_targs fx targs ++ [c_rb] end in
      match pkg with Some p => snd p ++ [c_dot] ++ nm | None => nm end
  | TPtr e => if es fx e then [c_star; c_star] ++ llgo_Str fx e else llgo_Str fx e
  | TSlice e => [c_lb; c_rb] ++ star_if (es fx e) (llgo_Str fx e)
  | TArray n e => [c_lb] ++ dec n ++ [c_rb] ++ star_if (es fx e) (llgo_Str fx e)
  | TMap k e => s_map_o ++ star_if (fx && es fx k) (llgo_Str fx k) ++ [c_rb] ++ star_if (es fx e) (llgo_Str fx e)
  | TChan d e => dir_str d ++ [c_sp] ++ chan_elem fx d e (star_if (es fx e) (llgo_Str fx e))
  | TFunc ps rs v => s_func_o ++ llgo_params fx ps v ++ [c_rp] ++
      match rs with
      | TsNil => []
      | TsCons r TsNil => [c_sp] ++ star_if (es fx r) (llgo_Str fx r)
      | _ => [c_sp; c_lp] ++ llgo_list fx rs ++ [c_rp]
      end
  | TStruct fs => s_struct_o ++ llgo_fields fx fs true ++ [c_rbrace]
  | TIface ms => s_iface_o ++ llgo_methods fx ms true ++ [c_rbrace]
  end
(* parameters: the last one of a variadic signature is printed as ...Elem *)
with llgo_params (fx : bool) (ts : tys) (variadic : bool) : str :=
  match ts with
  | TsNil => []
  | TsCons t TsNil =>
      if variadic then s_dots ++ match t with
                                 | TSlice e => star_if (es fx e) (llgo_Str fx e)
                                 | _ => []
                                 end
      else star_if (es fx t) (llgo_Str fx t)
  | TsCons t r => star_if (es fx t) (llgo_Str fx t) ++ s_commasp ++ llgo_params fx r variadic
  end
with llgo_list (fx : bool) (ts : tys) : str :=
  match ts with
  | TsNil => []
  | TsCons t TsNil => star_if (es fx t) (llgo_Str fx t)
  | TsCons t r => star_if (es fx t) (llgo_Str fx t) ++ s_commasp ++ llgo_list fx r
  end
(* structStr *)
with llgo_fields (fx : bool) (fs : fields) (first : bool) : str :=
  match fs with
  | FsNil => if first then [] else [c_sp]
  | FsCons name emb tag t r =>
      (if first then [] else [c_semi]) ++ [c_sp] ++ (if emb then [] else name ++ [c_sp]) ++
      star_if (es fx t) (llgo_Str fx t) ++ tag_str fx tag ++ llgo_fields fx r false
  end
(* interfaceStr: realStr(sig)[4:] *)
with llgo_methods (fx : bool) (ms : methods) (first : bool) : str :=
  match ms with
  | MsNil => if first then [] else [c_sp]
  | MsCons name exp pn sig r =>
      (if first then [] else [c_semi]) ++ [c_sp] ++
      (if exp then name else match pn with Some p => p ++ [c_dot] ++ name | None => name end) ++
      skipn 4 (star_if (es fx sig) (llgo_Str fx sig)) ++ llgo_methods fx r false
  end
(* namedStr's type argument list: reflectTypeArgString, joined by a comma *)
with llgo_targs (fx : bool) (ts : tys) : str :=
  match ts with
  | TsNil => []
  | TsCons t TsNil => star_if (es fx t) (llgo_targ fx t)
  | TsCons t r => star_if (es fx t) (llgo_targ fx t) ++ [c_comma] ++ llgo_targs fx r
  end
(* reflectTypeArgBaseString *)
with llgo_targ (fx : bool) (t : ty) : str :=
  match t with
  | TBasic k => basic_str k
  | TCut => []
  | TNamed pkg name targs _ =>
      let nm := name ++ match targs with TsNil => [] | _ => [c_lb] ++ llgo_targs fx targs ++ [c_rb] end in
      match pkg with Some p => targ_pkg fx p ++ [c_dot] ++ nm | None => nm end
  | TIface ms => s_iface_o ++ llgo_methods fx ms true ++ [c_rbrace]
  | TPtr e => if es fx e then [c_star; c_star] ++ llgo_targ fx e else llgo_targ fx e
  | TSlice e => [c_lb; c_rb] ++ star_if (es fx e) (llgo_targ fx e)
  | TArray n e => [c_lb] ++ dec n ++ [c_rb] ++ star_if (es fx e) (llgo_targ fx e)
  | TMap k e => s_map_o ++ star_if (fx && es fx k) (llgo_targ fx k) ++ [c_rb] ++ star_if (es fx e) (llgo_targ fx e)
  | TChan d e => dir_str d ++ [c_sp] ++ chan_elem fx d e (star_if (es fx e) (llgo_targ fx e))
  | TFunc _ _ _ | TStruct _ => s_fallback     (* types.TypeString fallback: not modelled *)
  end.

(* what reflect.Type.String returns under llgo: runtime/abi Type.String over (Str_, TFlag) *)
Definition llgo_str (fx : bool) (t : ty) : str := star_if (es fx t) (llgo_Str fx t).

(* the TFlag bits that do not depend on the memory layout *)
Definition is_variadic (t : ty) : bool := match t with TFunc _ _ v => v | _ => false end.
Definition llgo_named (t : ty) : bool :=
  match t with TBasic _ => true | TNamed _ _ _ _ => true | _ => false end.
Fixpoint llgo_variadic (t : ty) : bool :=
  match t with TFunc _ _ v => v | TNamed _ _ _ und => llgo_variadic und | _ => false end.
(* bit values of runtime/abi: ExtraStar 2, Named 4, Variadic 16 *)
Definition llgo_tflag (fx : bool) (t : ty) : N :=
  (if es fx t then 2 else 0) + (if llgo_named t then 4 else 0) + (if llgo_variadic t then 16 else 0).

(* ================= Go: the documented reflect.Type.String ================= *)

(* the package qualifier: the package name at top level, the import path (main for the main
   package) inside a type argument list *)
Definition go_pkg (in_targ : bool) (p : pkgid) : str :=
  if in_targ then (if str_eqb (snd p) s_main then s_main else fst p) else snd p.

Fixpoint go_str (q : bool) (t : ty) : str :=
  match t with
  | TBasic k => basic_str k
  | TCut => []
  | TNamed pkg name targs _ =>
      match pkg with Some p => go_pkg q p ++ [c_dot] | None => [] end ++ name ++
      match targs with TsNil => [] | _ => [c_lb] ++ go_targs targs ++ [c_rb] end
  | TPtr e => [c_star] ++ go_str q e
  | TSlice e => [c_lb; c_rb] ++ go_str q e
  | TArray n e => [c_lb] ++ dec n ++ [c_rb] ++ go_str q e
  | TMap k e => s_map_o ++ go_str q k ++ [c_rb] ++ go_str q e
  | TChan d e =>
      match d with
      | DBoth => s_chan ++ [c_sp] ++
                 (if is_recv_chan e then [c_lp] ++ go_str q e ++ [c_rp] else go_str q e)
      | DSend => s_chansend ++ [c_sp] ++ go_str q e
      | DRecv => s_recvchan ++ [c_sp] ++ go_str q e
      end
  | TFunc ps rs v => s_func_o ++ go_params q ps v ++ [c_rp] ++
      match rs with
      | TsNil => []
      | TsCons r TsNil => [c_sp] ++ go_str q r
      | _ => [c_sp; c_lp] ++ go_list q rs ++ [c_rp]
      end
  | TStruct fs => match fs with
                  | FsNil => s_struct_o ++ [c_rbrace]
                  | _ => s_struct_o ++ go_fields q fs true ++ [c_sp; c_rbrace]
                  end
  | TIface ms => match ms with
                 | MsNil => s_iface_o ++ [c_rbrace]
                 | _ => s_iface_o ++ go_methods q ms true ++ [c_sp; c_rbrace]
                 end
  end
with go_params (q : bool) (ts : tys) (variadic : bool) : str :=
  match ts with
  | TsNil => []
  | TsCons t TsNil =>
      if variadic then s_dots ++ match t with TSlice e => go_str q e | _ => [] end
      else go_str q t
  | TsCons t r => go_str q t ++ s_commasp ++ go_params q r variadic
  end
with go_list (q : bool) (ts : tys) : str :=
  match ts with
  | TsNil => []
  | TsCons t TsNil => go_str q t
  | TsCons t r => go_str q t ++ s_commasp ++ go_list q r
  end
with go_fields (q : bool) (fs : fields) (first : bool) : str :=
  match fs with
  | FsNil => []
  | FsCons name emb tag t r =>
      (if first then [] else [c_semi]) ++ [c_sp] ++ (if emb then [] else name ++ [c_sp]) ++
      go_str q t ++ (match tag with [] => [] | _ => [c_sp] ++ go_quote tag end) ++ go_fields q r false
  end
with go_methods (q : bool) (ms : methods) (first : bool) : str :=
  match ms with
  | MsNil => []
  | MsCons name exp pn sig r =>
      (if first then [] else [c_semi]) ++ [c_sp] ++
      (if exp then name else match pn with Some p => p ++ [c_dot] ++ name | None => name end) ++
      match sig with
      | TFunc ps rs v => [c_lp] ++ go_params q ps v ++ [c_rp] ++
          match rs with
          | TsNil => []
          | TsCons r0 TsNil => [c_sp] ++ go_str q r0
          | _ => [c_sp; c_lp] ++ go_list q rs ++ [c_rp]
          end
      | _ => []
      end ++ go_methods q r false
  end
with go_targs (ts : tys) : str :=
  match ts with
  | TsNil => []
  | TsCons t TsNil => go_str true t
  | TsCons t r => go_str true t ++ [c_comma] ++ go_targs r
  end.

Definition go_type_string (t : ty) : str := go_str false t.

(* Go: a type has a name iff it is predeclared or defined *)
Definition go_named (t : ty) : bool :=
  match t with TBasic _ => true | TNamed _ _ _ _ => true | _ => false end.

(* ================= method tables ================= *)

(* a method as the table sees it: name, exported?, package path of an unexported name *)
Record meth := Meth { m_name : str; m_exp : bool; m_pkg : str }.

(* types.Id *)
Definition meth_id (m : meth) : str :=
  if m_exp m then m_name m else m_pkg m ++ [c_dot] ++ m_name m.

Fixpoint str_ltb (a b : str) : bool :=
  match a, b with
  | _, [] => false
  | [], _ :: _ => true
  | x :: a', y :: b' => (x <? y) || ((x =? y) && str_ltb a' b')
  end.
Definition str_leb (a b : str) : bool := negb (str_ltb b a).

Fixpoint insert_m (m : meth) (l : list meth) : list meth :=
  match l with
  | [] => [m]
  | x :: r => if str_leb (meth_id m) (meth_id x) then m :: l else x :: insert_m m r
  end.
(* types.NewMethodSet: the methods ordered by ascending Id *)
Definition method_table (ms : list meth) : list meth := fold_right insert_m [] ms.
(* abiUncommonType: Xcount *)
Definition xcount (ms : list meth) : nat := List.length (filter m_exp ms).
(* runtime/abi UncommonType.ExportedMethods: the first Xcount entries *)
Definition exported_methods (ms : list meth) : list meth :=
  firstn (xcount (method_table ms)) (method_table ms).
(* Go: the exported methods, sorted by name *)
Definition go_exported_methods (ms : list meth) : list meth :=
  filter m_exp (method_table ms).

Definition meth_eqb (a b : meth) : bool :=
  str_eqb (m_name a) (m_name b) && Bool.eqb (m_exp a) (m_exp b) && str_eqb (m_pkg a) (m_pkg b).

(* ================= reflect.DeepEqual ================= *)

(* The nil flag of VFunc is true for a nil function value. *)
(* values: pointers, maps and slices carry the identity of their referent (0 = nil);
   the referent is looked up in a heap.  Floats are abstracted to a tag: FNum x, or NaN. *)
Inductive fl := FNum (x : Z) | FNaN.

Inductive val :=
| VInt (tid : N) (x : Z)               (* every scalar that compares with == and is not a float *)
| VFloat (tid : N) (f : fl)
| VFunc (tid : N) (nil : bool)
| VPtr (tid : N) (id : N)              (* id 0: nil *)
| VSlice (tid : N) (id : N) (off len : N)   (* backing array id (0: nil slice), window *)
| VMap (tid : N) (id : N)
| VStruct (tid : N) (fs : list val)
| VArray (tid : N) (es : list val)
| VIface (tid : N) (v : option val).

Definition vtid (v : val) : N :=
  match v with
  | VInt t _ | VFloat t _ | VFunc t _ | VPtr t _ | VSlice t _ _ _ | VMap t _
  | VStruct t _ | VArray t _ | VIface t _ => t
  end.

Inductive obj :=
| OVal (v : val)                       (* target of a pointer *)
| OArr (es : list val)                 (* backing array of slices *)
| OMap (kvs : list (val * val)).       (* keys are scalars (VInt / VFloat) *)

Definition heap := list (N * obj).
Fixpoint hget (h : heap) (id : N) : option obj :=
  match h with
  | [] => None
  | (i, o) :: r => if i =? id then Some o else hget r id
  end.

Definition fl_eqb (a b : fl) : bool :=
  match a, b with FNum x, FNum y => Z.eqb x y | _, _ => false end.

(* key equality as the map lookup does it (NaN never found) *)
Definition key_eqb (a b : val) : bool :=
  match a, b with
  | VInt t x, VInt u y => (t =? u) && Z.eqb x y
  | VFloat t x, VFloat u y => (t =? u) && fl_eqb x y
  | _, _ => false
  end.
Fixpoint mget (kvs : list (val * val)) (k : val) : option val :=
  match kvs with
  | [] => None
  | (k', v) :: r => if key_eqb k' k then Some v else mget r k
  end.

Definition visit := (N * N * N)%type.       (* (id1, id2, type) *)
Definition visit_eqb (a b : visit) : bool :=
  match a, b with (a1, a2, a3), (b1, b2, b3) => (a1 =? b1) && (a2 =? b2) && (a3 =? b3) end.
Definition visited_mem (vs : list visit) (x : visit) : bool := existsb (visit_eqb x) vs.
(* deepValueEqual orders the two addresses before recording the pair *)
Definition mk_visit (a b t : N) : visit := if b <? a then (b, a, t) else (a, b, t).

(* identity of a slice window: backing array, offset and length *)
Definition skey (s o l : N) : N := (s * 65536 + o) * 65536 + l.

Definition window (l : list val) (off len : N) : list val :=
  firstn (N.to_nat len) (skipn (N.to_nat off) l).

Definition dres := option (bool * list visit).

(* element-wise conjunction that stops at the first false / failure, threading the visited set *)
Fixpoint all2 (f : list visit -> val -> val -> dres) (vs : list visit) (xs ys : list val) : dres :=
  match xs, ys with
  | [], [] => Some (true, vs)
  | x :: xs', y :: ys' =>
      match f vs x y with
      | Some (true, vs') => all2 f vs' xs' ys'
      | r => r
      end
  | _, _ => Some (false, vs)
  end.

(* for every key of the first map: present in the second, values deeply equal *)
Fixpoint each_key (f : list visit -> val -> val -> dres) (k2 : list (val * val))
         (vs : list visit) (kvs : list (val * val)) : dres :=
  match kvs with
  | [] => Some (true, vs)
  | (k, v1) :: r =>
      match mget k2 k with
      | None => Some (false, vs)
      | Some v2 => match f vs v1 v2 with
                   | Some (true, vs') => each_key f k2 vs' r
                   | x => x
                   end
      end
  end.

(* deepValueEqual with explicit fuel; None = out of fuel or dangling reference.
   The visited set is threaded through the traversal (it is a Go map shared by the recursion). *)
Fixpoint deep (fuel : nat) (h : heap) (vs : list visit) (a b : val) : dres :=
  match fuel with
  | O => None
  | S fuel' =>
    if negb (vtid a =? vtid b) then Some (false, vs) else
    match a, b with
    | VInt _ x, VInt _ y => Some (Z.eqb x y, vs)
    | VFloat _ x, VFloat _ y => Some (fl_eqb x y, vs)
    | VFunc _ n1, VFunc _ n2 => Some (n1 && n2, vs)
    | VStruct _ xs, VStruct _ ys => all2 (deep fuel' h) vs xs ys
    | VArray _ xs, VArray _ ys => all2 (deep fuel' h) vs xs ys
    | VIface _ None, VIface _ None => Some (true, vs)
    | VIface _ (Some x), VIface _ (Some y) => deep fuel' h vs x y
    | VIface _ _, VIface _ _ => Some (false, vs)
    | VPtr t p1, VPtr _ p2 =>
        if (p1 =? 0) || (p2 =? 0) then Some ((p1 =? 0) && (p2 =? 0), vs)   (* hard: no nil operand *)
        else if visited_mem vs (mk_visit p1 p2 t) then Some (true, vs)
        else let vs' := mk_visit p1 p2 t :: vs in
             if p1 =? p2 then Some (true, vs')
             else match hget h p1, hget h p2 with
                  | Some (OVal x), Some (OVal y) => deep fuel' h vs' x y
                  | _, _ => None
                  end
    | VSlice t s1 o1 l1, VSlice _ s2 o2 l2 =>
        if (s1 =? 0) || (s2 =? 0) then
          Some ((s1 =? 0) && (s2 =? 0), vs)
        else if visited_mem vs (mk_visit (skey s1 o1 l1) (skey s2 o2 l2) t) then Some (true, vs)
        else let vs' := mk_visit (skey s1 o1 l1) (skey s2 o2 l2) t :: vs in
             if negb (l1 =? l2) then Some (false, vs')
             else if (s1 =? s2) && (o1 =? o2) then Some (true, vs')
             else match hget h s1, hget h s2 with
                  | Some (OArr xs), Some (OArr ys) => all2 (deep fuel' h) vs' (window xs o1 l1) (window ys o2 l2)
                  | _, _ => None
                  end
    | VMap t m1, VMap _ m2 =>
        if (m1 =? 0) || (m2 =? 0) then Some ((m1 =? 0) && (m2 =? 0), vs)
        else if visited_mem vs (mk_visit m1 m2 t) then Some (true, vs)
        else let vs' := mk_visit m1 m2 t :: vs in
             match hget h m1, hget h m2 with
             | Some (OMap k1), Some (OMap k2) =>
                 if negb (Nat.eqb (List.length k1) (List.length k2)) then Some (false, vs')
                 else if m1 =? m2 then Some (true, vs')
                 else each_key (deep fuel' h) k2 vs' k1
             | _, _ => None
             end
    | _, _ => Some (false, vs)
    end
  end.

Definition deep_equal (fuel : nat) (h : heap) (a b : val) : option bool :=
  match deep fuel h [] a b with Some (r, _) => Some r | None => None end.

(* ---------- boolean equalities for the correspondence ---------- *)
Definition tflag_eqb : N -> N -> bool := N.eqb.

(* ================= reflect: FieldByName over embedded structs ================= *)
(* runtime/internal/lib/reflect/type.go structType.FieldByNameFunc: breadth-first search, one
   depth level at a time, over the graph of embedded struct types.  A struct type is a list of
   fields; an embedded field of struct type T or *T carries the id of T. *)
Record sfield := SField { sf_name : N; sf_emb : option N }.
Definition sgraph := list (list sfield).          (* struct type id = position *)
Definition sfields (g : sgraph) (t : N) : list sfield := nth (N.to_nat t) g [].

Definition cnt_get (c : list (N * N)) (t : N) : N :=
  match find (fun p => fst p =? t) c with Some p => snd p | None => 0 end.
Fixpoint cnt_set (c : list (N * N)) (t v : N) : list (N * N) :=
  match c with
  | [] => [(t, v)]
  | (t', v') :: r => if t' =? t then (t, v) :: r else (t', v') :: cnt_set r t v
  end.
Definition mem_N (x : N) (l : list N) : bool := existsb (N.eqb x) l.

(* the state of the scan of one depth level *)
Record fstate := FState {
  fs_ok : bool;                      (* a match was seen at this level *)
  fs_res : list N;                   (* its index path *)
  fs_next : list (N * list N);       (* queue for the next level: type, index path *)
  fs_ncnt : list (N * N);            (* nextCount *)
  fs_amb : bool                      (* the early return: annihilated *)
}.

(* the loop over the fields of one struct t reached with index path idx and multiplicity ct;
   prop: the multiplicity of t is handed down to the structs it embeds (the code that exists) *)
Fixpoint scan_fields (prop : bool) (mtch : N -> bool) (ct : N) (idx : list N) (i : N)
         (fs : list sfield) (st : fstate) : fstate :=
  match fs with
  | [] => st
  | f :: r =>
      if fs_amb st then st else
      let st' :=
        if mtch (sf_name f) then
          if (1 <? ct) || fs_ok st then FState (fs_ok st) (fs_res st) (fs_next st) (fs_ncnt st) true
          else FState true (idx ++ [i]) (fs_next st) (fs_ncnt st) false
        else match sf_emb f with
             | None => st
             | Some s =>
                 if fs_ok st then st
                 else if 0 <? cnt_get (fs_ncnt st) s
                      then FState (fs_ok st) (fs_res st) (fs_next st) (cnt_set (fs_ncnt st) s 2) false
                      else FState (fs_ok st) (fs_res st) (fs_next st ++ [(s, idx ++ [i])])
                                  (cnt_set (fs_ncnt st) s (if prop && (1 <? ct) then 2 else 1)) false
             end in
      scan_fields prop mtch ct idx (i + 1) r st'
  end.

(* the loop over the work queue of one level *)
Fixpoint scan_level (prop : bool) (g : sgraph) (mtch : N -> bool) (count : list (N * N))
         (cur : list (N * list N)) (visited : list N) (st : fstate) : fstate * list N :=
  match cur with
  | [] => (st, visited)
  | (t, idx) :: r =>
      if fs_amb st then (st, visited)
      else if mem_N t visited then scan_level prop g mtch count r visited st
      else scan_level prop g mtch count r (t :: visited)
                      (scan_fields prop mtch (cnt_get count t) idx 0 (sfields g t) st)
  end.

(* the outer loop; fuel bounds the number of levels (one per struct type suffices) *)
Fixpoint fbn_levels (prop : bool) (fuel : nat) (g : sgraph) (mtch : N -> bool)
         (next : list (N * list N)) (ncnt : list (N * N)) (visited : list N) : option (list N) :=
  match fuel with
  | O => None
  | S fuel' =>
      match next with
      | [] => None
      | _ =>
          let '(st, visited') := scan_level prop g mtch ncnt next visited (FState false [] [] [] false) in
          if fs_amb st then None
          else if fs_ok st then Some (fs_res st)
          else fbn_levels prop fuel' g mtch (fs_next st) (fs_ncnt st) visited'
      end
  end.

(* FieldByNameFunc on the struct type root: the index path of the field, or not found *)
Definition field_by_name_func (prop : bool) (g : sgraph) (root : N) (mtch : N -> bool) : option (list N) :=
  fbn_levels prop (S (List.length g)) g mtch [(root, [])] [] [].
Definition field_by_name (prop : bool) (g : sgraph) (root : N) (name : N) : option (list N) :=
  field_by_name_func prop g root (N.eqb name).

(* Go (spec, Selectors): the field at the shallowest depth; found iff exactly one PATH of embedded
   fields reaches a field of that name at that depth *)
Definition step_paths (g : sgraph) (ps : list (N * list N)) : list (N * list N) :=
  flat_map (fun p =>
    let fix go (i : N) (fs : list sfield) :=
      match fs with
      | [] => []
      | f :: r => match sf_emb f with
                  | Some s => (s, snd p ++ [i]) :: go (i + 1) r
                  | None => go (i + 1) r
                  end
      end in go 0 (sfields g (fst p))) ps.
Definition matches_of (g : sgraph) (mtch : N -> bool) (ps : list (N * list N)) : list (list N) :=
  flat_map (fun p =>
    let fix go (i : N) (fs : list sfield) :=
      match fs with
      | [] => []
      | f :: r => if mtch (sf_name f) then (snd p ++ [i]) :: go (i + 1) r else go (i + 1) r
      end in go 0 (sfields g (fst p))) ps.
Fixpoint spec_levels (fuel : nat) (g : sgraph) (mtch : N -> bool) (ps : list (N * list N)) : option (list N) :=
  match fuel with
  | O => None
  | S fuel' =>
      match matches_of g mtch ps with
      | [] => spec_levels fuel' g mtch (step_paths g ps)
      | [m] => Some m
      | _ => None
      end
  end.
(* a shallowest match, if any, lies above depth (number of struct types) *)
Definition go_field_by_name_func (g : sgraph) (root : N) (mtch : N -> bool) : option (list N) :=
  spec_levels (S (List.length g)) g mtch [(root, [])].

(* ================= reflect.Value: integer and float kinds ================= *)
(* runtime/internal/lib/reflect/value.go: Value.Int, Value.Uint, Value.SetInt, Value.SetUint,
   makeInt, cvtInt, cvtUint, cvtFloat, cvtIntFloat, cvtFloatInt, makeFloat, Value.Float;
   value_go123.go: OverflowInt, OverflowUint.  64-bit target (is64bit). *)
Local Open Scope Z_scope.

Inductive ikind := KInt8 | KInt16 | KInt32 | KInt64 | KInt
                 | KUint8 | KUint16 | KUint32 | KUint64 | KUint | KUintptr.

Definition kbits (k : ikind) : Z :=
  match k with
  | KInt8 | KUint8 => 8 | KInt16 | KUint16 => 16 | KInt32 | KUint32 => 32
  | KInt64 | KInt | KUint64 | KUint | KUintptr => 64
  end.
Definition ksigned (k : ikind) : bool :=
  match k with KInt8 | KInt16 | KInt32 | KInt64 | KInt => true | _ => false end.

(* a Value of an integer kind: either the number itself sits in the pointer word (sign- or
   zero-extended to 64 bits: what the compiler puts into an interface, what makeInt returns), or
   the Value is indirect (flagIndir: addressable variables, New(t).Elem()) and the word is the
   content of the memory cell of the kind's width *)
Record ival := IVal { iv_kind : ikind; iv_indir : bool; iv_word : Z }.

(* the Value that holds the Go value x of kind k *)
Definition ival_of (k : ikind) (indir : bool) (x : Z) : ival :=
  IVal k indir (if indir then wrap (kbits k) x else wrap 64 x).

(* the values of kind k *)
Definition krange (k : ikind) (x : Z) : Prop :=
  if ksigned k then - 2 ^ (kbits k - 1) <= x < 2 ^ (kbits k - 1) else 0 <= x < 2 ^ kbits k.
Definition krangeb (k : ikind) (x : Z) : bool :=
  if ksigned k then (- 2 ^ (kbits k - 1) <=? x) && (x <? 2 ^ (kbits k - 1))
  else (0 <=? x) && (x <? 2 ^ kbits k).

(* Value.Int: the intN cell p points to, sign-extended, when indirect; int64(uintptr(p)) otherwise *)
Definition value_int (v : ival) : Z :=
  if iv_indir v then sgn (kbits (iv_kind v)) (iv_word v) else sgn 64 (iv_word v).
(* Value.Uint: the uintN cell p points to, zero-extended, when indirect; uint64(uintptr(p)) otherwise *)
Definition value_uint (v : ival) : Z := iv_word v.
(* the accessor that applies to the kind *)
Definition value_read (v : ival) : Z := if ksigned (iv_kind v) then value_int v else value_uint v.

(* Value.SetInt / SetUint: mustBeAssignable (only indirect values are); the cell receives intN(x) *)
Definition set_int (v : ival) (x : Z) : option ival :=
  if iv_indir v then Some (IVal (iv_kind v) true (wrap (kbits (iv_kind v)) x)) else None.
Definition set_uint (v : ival) (x : Z) : option ival :=
  if iv_indir v then Some (IVal (iv_kind v) true (wrap (kbits (iv_kind v)) x)) else None.

(* int64 << n and int64 >> n; uint64 << n and uint64 >> n *)
Definition shl_i64 (x n : Z) : Z := sgn 64 (wrap 64 (x * 2 ^ n)).
Definition shr_i64 (x n : Z) : Z := x / 2 ^ n.
Definition shl_u64 (x n : Z) : Z := wrap 64 (x * 2 ^ n).
Definition shr_u64 (x n : Z) : Z := x / 2 ^ n.
(* OverflowInt: bitSize := size*8; trunc := (x << (64 - bitSize)) >> (64 - bitSize); x != trunc *)
Definition overflow_int (k : ikind) (x : Z) : bool :=
  let n := 64 - kbits k in negb (x =? shr_i64 (shl_i64 x n) n).
Definition overflow_uint (k : ikind) (x : Z) : bool :=
  let n := 64 - kbits k in negb (x =? shr_u64 (shl_u64 x n) n).

(* makeInt(f, bits, t): fx = true narrows the bits to the target kind first (the code that
   exists); fx = false is the code before the repair, which kept the whole word *)
Definition narrow_bits (k : ikind) (bits : Z) : Z :=
  match k with
  | KInt8 => wrap 64 (sgn 8 (wrap 8 bits))
  | KInt16 => wrap 64 (sgn 16 (wrap 16 bits))
  | KInt32 => wrap 64 (sgn 32 (wrap 32 bits))
  | KUint8 => wrap 8 bits
  | KUint16 => wrap 16 bits
  | KUint32 => wrap 32 bits
  | _ => bits
  end.
Definition make_int (fx : bool) (bits : Z) (k : ikind) : ival :=
  IVal k false (if fx then narrow_bits k bits else bits).
(* cvtInt: makeInt(uint64(v.Int())); cvtUint: makeInt(v.Uint()) *)
Definition cvt_int (fx : bool) (v : ival) (k : ikind) : ival := make_int fx (wrap 64 (value_int v)) k.
Definition cvt_uint (fx : bool) (v : ival) (k : ikind) : ival := make_int fx (value_uint v) k.
(* convertOp for integer source and destination kinds *)
Definition convert_int (fx : bool) (v : ival) (k : ikind) : ival :=
  if ksigned (iv_kind v) then cvt_int fx v k else cvt_uint fx v k.

(* Go: the conversion T(x) of an integer x to the integer type of kind dst *)
Definition go_conv (dst : ikind) (x : Z) : Z :=
  if ksigned dst then sgn (kbits dst) (wrap (kbits dst) x) else wrap (kbits dst) x.

(* observables of the end-to-end table: Convert then the accessor; SetInt/SetUint then the accessor *)
Definition conv_read (fx : bool) (src dst : ikind) (indir : bool) (x : Z) : Z :=
  value_read (convert_int fx (ival_of src indir x) dst).
Definition set_read (k : ikind) (x : Z) : option Z :=
  match (if ksigned k then set_int else set_uint) (ival_of k true 0) x with
  | Some v => Some (value_read v)
  | None => None
  end.
Definition overflow (k : ikind) (x : Z) : bool :=
  if ksigned k then overflow_int k x else overflow_uint k x.

(* ---------- floats: float32 and float64 are abstract; rounding is a parameter ---------- *)
Section Floats.
  Variables (f32 f64 : Type).
  Variable widen : f32 -> f64.            (* float64(x), exact *)
  Variable narrow : f64 -> f32.           (* float32(x), rounds *)
  Variable of_int : Z -> f64.             (* float64(n), rounds above 2^53 *)
  Variable to_int : f64 -> Z.             (* int64(f): truncation towards zero *)

  Inductive fval := F32 (x : f32) | F64 (x : f64).
  Inductive fkind := KFloat32 | KFloat64.
  Definition fkind_of (v : fval) : fkind := match v with F32 _ => KFloat32 | F64 _ => KFloat64 end.

  (* Value.Float *)
  Definition value_float (v : fval) : f64 := match v with F32 x => widen x | F64 x => x end.
  (* makeFloat(f, v, t) *)
  Definition make_float (v : f64) (k : fkind) : fval :=
    match k with KFloat32 => F32 (narrow v) | KFloat64 => F64 v end.
  (* cvtFloat: float32 -> float32 keeps the bits (no round trip through float64) *)
  Definition cvt_float (v : fval) (k : fkind) : fval :=
    match v, k with
    | F32 x, KFloat32 => F32 x
    | _, _ => make_float (value_float v) k
    end.
  (* cvtIntFloat / cvtUintFloat: makeFloat(float64(v.Int())) *)
  Definition cvt_int_float (v : ival) (k : fkind) : fval := make_float (of_int (value_read v)) k.
  (* cvtFloatInt: makeInt(uint64(int64(v.Float()))) *)
  Definition cvt_float_int (fx : bool) (v : fval) (k : ikind) : ival :=
    make_int fx (wrap 64 (to_int (value_float v))) k.
End Floats.

Definition ikind_eqb (a b : ikind) : bool :=
  match a, b with
  | KInt8, KInt8 | KInt16, KInt16 | KInt32, KInt32 | KInt64, KInt64 | KInt, KInt
  | KUint8, KUint8 | KUint16, KUint16 | KUint32, KUint32 | KUint64, KUint64 | KUint, KUint
  | KUintptr, KUintptr => true
  | _, _ => false
  end.
