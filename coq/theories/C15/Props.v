(* C15 - property theorems only.  Each is closed by [exact <lemma>] and followed by
   Print Assumptions (the driver re-prints them on every run). *)
From Coq Require Import Ascii String Permutation.
From LLGoV Require Import C15.Model C15.Proofs.
Local Open Scope N_scope.

(* On every well-formed type, the string reflect.Type.String returns under llgo (the string the
   compiler stores, with the star the ExtraStar flag stands for put back by the run time) is the
   string Go documents: package NAME qualification, struct tags quoted, embedded fields, variadic
   ...T, interface {}, func with and without results, chan directions including chan (<-chan T),
   map (pointer keys included), array, defined pointer types, generic instances with import-path
   qualified type arguments (main for package main).  fx = true is the code that exists; the same
   statement holds for the code before the repairs (fx = false) on its smaller well-formed set.
   [wf true false] excludes struct/func/non-empty interface literals as type arguments (the
   types.TypeString fallback is not modelled). *)
Theorem str_eq_go_partial : forall fx t, wf fx false t = true -> llgo_str fx t = go_type_string t.
Proof. exact llgo_str_eq_go. Qed.
Print Assumptions str_eq_go_partial.

Example str_eq_go_nontrivial :
  let emb := TNamed (Some (lit "verifprog/sub/inner", lit "pkgb")) (lit "Item") TsNil
                    (TStruct (FsCons (lit "ID") false [] (TBasic 2) FsNil)) in
  let t := TStruct (FsCons (lit "A") false (lit "json:""a""") (TPtr (TPtr (TBasic 2)))
                   (FsCons (lit "Item") true [] (TPtr emb)
                   (FsCons (lit "f") false [] (TFunc (TsCons (TBasic 2) (TsCons (TSlice (TBasic 17)) TsNil))
                                                      (TsCons (TBasic 2) (TsCons (TChan DBoth (TChan DRecv emb)) TsNil)) true)
                   (FsCons (lit "g") false []
                      (TNamed (Some (lit "verifprog/sub/inner", lit "pkgb")) (lit "Pair")
                              (TsCons (TBasic 17) (TsCons (TSlice (TPtr t_P)) TsNil)) TCut)
                   (FsCons (lit "i") false []
                      (TIface (MsCons (lit "M") true None (TFunc (TsCons (TMap (TPtr (TBasic 8)) t_P) TsNil) TsNil false)
                              (MsCons (lit "x") false (Some (lit "main")) (TFunc TsNil (TsCons (TBasic 1) TsNil) false) MsNil)))
                      FsNil))))) in
  wf true false t = true /\
  go_type_string t = lit "struct { A **int ""json:\""a\""""; *pkgb.Item; f func(int, ...string) (int, chan (<-chan pkgb.Item)); g pkgb.Pair[string,[]*main.P]; i interface { M(map[*uint8]main.P); main.x() bool } }".
Proof. split; vm_compute; reflexivity. Qed.

(* The five shapes the repairs concern are well-formed now and were refuted before: *)
Theorem str_repaired_shapes :
  wf true false t_repaired = true /\ wf false false t_repaired = false /\
  llgo_str true t_repaired = go_type_string t_repaired /\ llgo_str false t_repaired <> go_type_string t_repaired.
Proof. exact repaired_wf. Qed.
Print Assumptions str_repaired_shapes.

(* before the repair, type P *int printed *main.P, and **main.P for *P *)
Theorem str_named_pointer_unfixed_refuted :
  exists t, llgo_str false t <> go_type_string t /\ llgo_str false t = lit "*main.P".
Proof. exact named_pointer_refuted. Qed.
Print Assumptions str_named_pointer_unfixed_refuted.

(* before the repair, struct tags were not part of llgo's string *)
Theorem str_struct_tag_unfixed_refuted :
  llgo_str false t_tagged = lit "struct { A int }" /\
  go_type_string t_tagged = lit "struct { A int ""json:\""a\"""" }".
Proof. exact struct_tag_strings. Qed.
Print Assumptions str_struct_tag_unfixed_refuted.

(* before the repair, chan (<-chan int) lost its parentheses *)
Theorem str_chan_parens_unfixed_refuted :
  llgo_str false t_chanchan = lit "chan <-chan int" /\ go_type_string t_chanchan = lit "chan (<-chan int)".
Proof. exact chan_parens_strings. Qed.
Print Assumptions str_chan_parens_unfixed_refuted.

(* before the repair, map[*int]string printed as map[int]string *)
Theorem str_pointer_key_unfixed_refuted :
  llgo_str false t_ptrkey = lit "map[int]string" /\ go_type_string t_ptrkey = lit "map[*int]string".
Proof. exact pointer_key_strings. Qed.
Print Assumptions str_pointer_key_unfixed_refuted.

(* before the repair, a type of package main as type argument was qualified with the module path *)
Theorem str_typearg_main_unfixed_refuted :
  llgo_str false t_G_T = lit "main.G[verifprog.T]" /\ go_type_string t_G_T = lit "main.G[main.T]".
Proof. exact typearg_main_strings. Qed.
Print Assumptions str_typearg_main_unfixed_refuted.

(* flags: Named is Go's definition; ExtraStar is the parity of the pointer chain *)
Theorem tflag_named_agrees : forall t, llgo_named t = go_named t.
Proof. exact tflag_named_eq_go. Qed.
Print Assumptions tflag_named_agrees.

Theorem tflag_extrastar_parity : forall fx t, es fx t = xorb (ptr_odd t) (es fx (ptr_base t)).
Proof. exact es_parity. Qed.
Print Assumptions tflag_extrastar_parity.

(* a defined type never carries ExtraStar (so the flag is computed without looking through
   declarations, and type N *N terminates) *)
Theorem tflag_named_no_extrastar : forall pkg name targs und, es true (TNamed pkg name targs und) = false.
Proof. exact es_named_fixed. Qed.
Print Assumptions tflag_named_no_extrastar.

(* method tables: sorted by Id, a permutation of the method set (so duplicate-free when the
   Ids are), with the exported count of the set *)
Theorem method_table_sorted_complete : forall ms,
  sorted_by meth_id (method_table ms) /\ Permutation ms (method_table ms) /\
  (NoDup (map meth_id ms) -> NoDup (map meth_id (method_table ms))) /\
  xcount (method_table ms) = xcount ms.
Proof. exact method_table_facts. Qed.
Print Assumptions method_table_sorted_complete.

(* what reflect exposes (the first Xcount entries) is Go's list of exported methods when exported
   names are ASCII and package paths start above 'Z' ... *)
Theorem exported_methods_partial : forall ms,
  ascii_upper_names ms -> paths_above_Z ms -> exported_methods ms = go_exported_methods ms.
Proof. exact exported_prefix_ascii. Qed.
Print Assumptions exported_methods_partial.

(* ... and is wrong otherwise *)
Theorem exported_methods_refuted : exists ms, exported_methods ms <> go_exported_methods ms.
Proof. exact exported_prefix_refuted. Qed.
Print Assumptions exported_methods_refuted.

(* DeepEqual: reflexive except for NaN and non-nil functions inside the value itself *)
Theorem deep_equal_reflexive_except_nan_func : forall fuel h a r,
  clean a = true -> deep_equal fuel h a a = Some r -> r = true.
Proof. exact deep_equal_refl. Qed.
Print Assumptions deep_equal_reflexive_except_nan_func.

Theorem deep_equal_nan_func_not_reflexive :
  deep_equal 5 [] (VFloat 14 FNaN) (VFloat 14 FNaN) = Some false /\
  deep_equal 5 [] (VFunc 19 false) (VFunc 19 false) = Some false.
Proof. exact deep_equal_nan_func. Qed.
Print Assumptions deep_equal_nan_func_not_reflexive.

(* symmetric on values and heaps without maps *)
Theorem deep_equal_symmetric_partial : forall fuel h a b,
  nomap_heap h = true -> nomap a = true -> nomap b = true ->
  deep_equal fuel h a b = deep_equal fuel h b a.
Proof. exact deep_equal_sym_nomap. Qed.
Print Assumptions deep_equal_symmetric_partial.

Example deep_equal_examples :
  (let h := [(1, OArr []); (2, OArr []); (3, OMap []); (4, OMap [])] in
   deep_equal 5 h (VSlice 23 0 0 0) (VSlice 23 1 0 0) = Some false /\
   deep_equal 5 h (VSlice 23 1 0 0) (VSlice 23 2 0 0) = Some true /\
   deep_equal 5 h (VMap 21 0) (VMap 21 3) = Some false /\
   deep_equal 5 h (VMap 21 3) (VMap 21 4) = Some true) /\
  (let h := [(1, OVal (VStruct 25 [VInt 2 7; VPtr 22 1])); (2, OVal (VStruct 25 [VInt 2 7; VPtr 22 2]))] in
   deep_equal 6 h (VPtr 22 1) (VPtr 22 2) = Some true).
Proof. split; [exact deep_equal_nil_empty|exact deep_equal_cyclic]. Qed.

(* ---------- reflect.Value get / set / convert for the scalar kinds ---------- *)
From LLGoV Require Import Lib.BV.
Local Open Scope Z_scope.

(* Value.Convert between any two integer kinds, from either storage form of the operand, yields
   Go's conversion T(x): the operand is extended according to the SOURCE kind (it is read with
   Int or Uint), wrapped to the width of the target kind and read back with the target's sign. *)
Theorem convert_int_matches_go : forall src dst indir x,
  krange src x -> conv_read true src dst indir x = go_conv dst x.
Proof. exact convert_int_go. Qed.
Print Assumptions convert_int_matches_go.

(* ... and the resulting Value is the canonical direct Value of T(x) *)
Theorem convert_int_result : forall src dst indir x,
  krange src x -> convert_int true (ival_of src indir x) dst = ival_of dst false (go_conv dst x).
Proof. exact convert_int_value. Qed.
Print Assumptions convert_int_result.

Example convert_int_nontrivial :
  krange KInt (-1) /\ conv_read true KInt KUint8 false (-1) = 255 /\
  conv_read true KInt8 KUint32 true (-128) = 4294967168 /\ conv_read true KUint64 KInt16 false (2 ^ 63 + 32768) = -32768.
Proof. repeat split; vm_compute; congruence. Qed.

(* the makeInt before the repair (fx = false) kept the whole word *)
Theorem convert_int_unfixed_refuted :
  conv_read false KInt KUint8 false (-1) = 18446744073709551615 /\ go_conv KUint8 (-1) = 255 /\
  conv_read false KInt KInt8 true 128 = 128 /\ go_conv KInt8 128 = -128.
Proof. exact convert_int_unfixed_wrong. Qed.
Print Assumptions convert_int_unfixed_refuted.

(* SetInt(x) / SetUint(x) followed by Int() / Uint() returns x narrowed to the kind's width,
   which is x itself when x is a value of the kind *)
Theorem set_get_roundtrip : forall k x,
  set_read k x = Some (go_conv k x) /\ (krange k x -> set_read k x = Some x).
Proof. exact set_get_both. Qed.
Print Assumptions set_get_roundtrip.

(* OverflowInt / OverflowUint (argument an int64 resp. uint64) *)
Theorem overflow_iff_not_representable : forall k x,
  (if ksigned k then - 2 ^ 63 <= x < 2 ^ 63 else 0 <= x < 2 ^ 64) ->
  overflow k x = true <-> ~ krange k x.
Proof. exact overflow_spec. Qed.
Print Assumptions overflow_iff_not_representable.

(* floats: with rounding abstract (narrowing after widening is the identity; integers up to 2^53
   resp. 2^24 are exact) float32 -> float64 -> float32 and the same-kind conversions return the
   operand, widening is injective, and int -> float -> int is Go's integer conversion *)
Theorem float_convert_roundtrip :
  forall (f32 f64 : Type) (widen : f32 -> f64) (narrow : f64 -> f32),
  (forall x, narrow (widen x) = x) ->
  forall v, cvt_float f32 f64 widen narrow (cvt_float f32 f64 widen narrow v KFloat64) (fkind_of f32 f64 v) = v.
Proof. exact float_widen_narrow. Qed.
Print Assumptions float_convert_roundtrip.

Theorem float_widen_is_injective :
  forall (f32 f64 : Type) (widen : f32 -> f64) (narrow : f64 -> f32),
  (forall x, narrow (widen x) = x) ->
  forall x y, cvt_float f32 f64 widen narrow (F32 f32 f64 x) KFloat64 = cvt_float f32 f64 widen narrow (F32 f32 f64 y) KFloat64 -> x = y.
Proof. exact float_widen_injective. Qed.
Print Assumptions float_widen_is_injective.

Theorem int_float_int_exact_partial :
  forall (f32 f64 : Type) (widen : f32 -> f64) (narrow : f64 -> f32) (of_int : Z -> f64) (to_int : f64 -> Z),
  (forall n, Z.abs n <= 2 ^ 53 -> to_int (of_int n) = n) ->
  (forall n, Z.abs n <= 2 ^ 24 -> widen (narrow (of_int n)) = of_int n) ->
  forall src dst indir x, krange src x ->
  (Z.abs x <= 2 ^ 53 ->
   value_read (cvt_float_int f32 f64 widen to_int true
                 (cvt_int_float f32 f64 narrow of_int (ival_of src indir x) KFloat64) dst) = go_conv dst x) /\
  (Z.abs x <= 2 ^ 24 ->
   value_read (cvt_float_int f32 f64 widen to_int true
                 (cvt_int_float f32 f64 narrow of_int (ival_of src indir x) KFloat32) dst) = go_conv dst x).
Proof. exact int_float_int_both. Qed.
Print Assumptions int_float_int_exact_partial.

(* ---------- FieldByName over embedded structs ---------- *)
Local Open Scope N_scope.

(* The breadth-first search of FieldByNameFunc (work queue per depth level, count / nextCount
   multiplicities handed down to embedded structs, annihilation at equal depth, visited set) returns
   what the Go rule over PATHS prescribes: the field at the shallowest depth, found iff exactly
   one path of embedded fields reaches a field of that name at that depth.  Swept completely over
   every embedding graph of 3 struct types (up to 2 embedded fields each, over all three types,
   X absent / first / last) and of 4 struct types (embedded fields over types 1..3, X absent / last),
   for the name X and the name of every embedded field; repeated edges stand for diamonds, edges
   back to a type for pointer cycles. *)
Theorem field_by_name_eq_go_bounded :
  (forall g, List.length g = 3%nat -> Forall (fun o => In o opts_A) g ->
     forall nm, In nm (search_names 3) -> field_by_name true g 0 nm = go_field_by_name_func g 0 (N.eqb nm)) /\
  (forall g, List.length g = 4%nat -> Forall (fun o => In o opts_B) g ->
     forall nm, In nm (search_names 4) -> field_by_name true g 0 nm = go_field_by_name_func g 0 (N.eqb nm)).
Proof. exact (conj fbn_domain_A fbn_domain_B). Qed.
Print Assumptions field_by_name_eq_go_bounded.

(* the multiplicity of a doubly reachable struct must be handed down: without it (prop = false) a
   field two levels below the join of a diamond is reported although two paths reach it *)
Theorem field_by_name_no_propagation_refuted :
  In [emb_field 1; emb_field 1] opts_A /\
  field_by_name false g_diamond_below 0 1 = Some [0; 0; 0] /\
  field_by_name true g_diamond_below 0 1 = None /\
  go_field_by_name_func g_diamond_below 0 (N.eqb 1) = None.
Proof. exact fbn_no_propagation_wrong. Qed.
Print Assumptions field_by_name_no_propagation_refuted.
