(* C03 - property theorems only. *)
From LLGoV Require Import C03.Model C03.Proofs.
Local Open Scope Z_scope.

(* The emitted bounds check panics with IndexRange exactly when the index is
   out of range, and never otherwise: for slices, strings and pointers to arrays,
   every index type and every index bit pattern, on 32- and 64-bit int
   (panic iff out of range = raised, and raised only then). *)
Theorem index_panics_iff_fixed : forall k ti pw p c len i,
  wf_ity ti -> wf_pw pw -> 0 <= kind_len k len < 2 ^ (pw - 1) -> in_range (bits ti) i ->
  exec (recipe_index true k ti pw) (index_args k p c len i)
  = if idx_ok (kind_len k len) (val ti i) then Ret 0 else Panic IndexRange.
Proof. exact index_check_exact_fixed. Qed.
Print Assumptions index_panics_iff_fixed.

(* the same for the lowering that converts the index to int first, as long as
   that conversion does not narrow *)
Theorem index_panics_iff_not_wider : forall k ti pw p c len i,
  wf_ity ti -> wf_pw pw -> bits ti <= pw ->
  0 <= kind_len k len < 2 ^ (pw - 1) -> in_range (bits ti) i ->
  exec (recipe_index false k ti pw) (index_args k p c len i)
  = if idx_ok (kind_len k len) (val ti i) then Ret 0 else Panic IndexRange.
Proof. exact index_check_exact_narrow. Qed.
Print Assumptions index_panics_iff_not_wider.

Example index_nontrivial :
  exec (recipe_index true KSlice I8 64) (index_args KSlice 0 0 10 255) = Panic IndexRange
  /\ exec (recipe_index true KString U16 32) (index_args KString 0 0 10 9) = Ret 0
  /\ exec (recipe_index true (KArrPtr 10) I64 32) (index_args (KArrPtr 10) 0 0 0 (2 ^ 32 + 1)) = Panic IndexRange.
Proof. repeat split; reflexivity. Qed.

(* finding F8: converting a 64-bit index to a 32-bit int before the compare
   lets an out-of-range index through *)
Theorem index_truncated_refuted :
  exec (recipe_index false KSlice I64 32) (index_args KSlice 4096 16 10 (2 ^ 32 + 1)) = Ret 0
  /\ idx_ok 10 (val I64 (2 ^ 32 + 1)) = false.
Proof. exact index_truncated_refuted_pinned. Qed.
Print Assumptions index_truncated_refuted.

(* nil dereference is recoverable as many times as it happens in one thread when
   the signal stays deliverable after the handler was left by a non-local jump:
   the handler is installed with SA_NODEFER (what the tree does on Linux since
   66e5301) or the mask is saved by sigsetjmp and restored by siglongjmp *)
Theorem fault_recoverable_repeatedly : forall nodefer savemask n,
  recoverable_config nodefer savemask = true ->
  dead (faults nodefer savemask n sig_init) = false
  /\ recovered (faults nodefer savemask n sig_init) = n.
Proof. exact faults_recoverable. Qed.
Print Assumptions fault_recoverable_repeatedly.

Example fault_recoverable_nontrivial :
  recoverable_config true false = true /\ recovered (faults true false 5 sig_init) = 5%nat.
Proof. split; reflexivity. Qed.

(* finding F15 (repaired): with default flags and sigsetjmp(jb, 0), as the pinned
   tree had it, the second fault in one thread finds SIGSEGV blocked and kills
   the process *)
Theorem fault_recoverable_repeatedly_refuted :
  dead (faults false false 2 sig_init) = true /\ recovered (faults false false 2 sig_init) = 1%nat.
Proof. exact faults_nomask_second_dies. Qed.
Print Assumptions fault_recoverable_repeatedly_refuted.

(* Bounds of slice expressions and make sizes of a type wider than int (64-bit
   on a 32-bit target): after narrowing, a value is a valid bound (0 <= v <=
   limit, limit < 2^31) exactly when it was one before, and then it is
   unchanged - so the runtime check that follows gives Go's verdict. *)
Theorem fit_int_preserves_bound_verdict : forall tn pw n limit,
  wf_ity tn -> wf_pw pw -> in_range (bits tn) n -> 0 <= limit < 2 ^ (pw - 1) ->
  exists r, exec (recipe_fit true tn pw) [n] = Ret r
            /\ bound_ok limit (sgn pw r) = bound_ok limit (val tn n)
            /\ (bound_ok limit (val tn n) = true -> sgn pw r = val tn n).
Proof. exact fit_fixed_exact. Qed.
Print Assumptions fit_int_preserves_bound_verdict.

(* the pinned lowering (plain truncation): a[0:int64(1)<<32+1] passes as a[0:1] *)
Theorem fit_int_truncation_refuted :
  exec (recipe_fit false I64 32) [2 ^ 32 + 1] = Ret 1
  /\ bound_ok 10 (val I64 (2 ^ 32 + 1)) = false /\ bound_ok 10 (sgn 32 1) = true.
Proof. exact fit_truncation_refuted. Qed.
Print Assumptions fit_int_truncation_refuted.

(* ---- type assertions (C03.Assert) ---- *)
From LLGoV Require Import C03.Assert C03.AssertProofs.
Local Open Scope nat_scope.

(* x.(T) and v, ok := x.(T), for every static interface type of x, every
   dynamic type (none: nil interface, compile-time or reflect-made descriptor)
   and every asserted type: the emitted test (non-nil test on identical
   interface types, runtime Implements, pointer equality of descriptors, or
   MatchesClosure for func types) holds exactly when Go's rule holds, so the
   plain form panics iff the assertion fails (raised, and raised only then)
   and the comma-ok form never panics. *)
Theorem type_assertion_outcome_exact : forall siid sreq tg tx commaok,
  wf_case siid sreq tg tx ->
  assert_outcome true siid tg tx commaok =
  if spec_holds tg tx then AOk else if commaok then ANotOk else APanic.
Proof. exact outcome_exact. Qed.
Print Assumptions type_assertion_outcome_exact.

Example type_assertion_nontrivial :
  wf_case 0 [] (TConc d_func_int) (Some d_made) /\ wf_case 1 [1] (TIface 1 [1]) None
  /\ assert_outcome true 1 (TIface 1 [1]) None false = APanic.
Proof.
  unfold wf_case, well_typed, wf_desc, uniq, d_func_int, d_made; cbn.
  repeat split; try reflexivity; try discriminate; try (intros; discriminate); eauto;
  intros; congruence.
Qed.

(* finding: the pinned MatchesClosure compared signatures whenever descriptors
   differed - any(F(f)).(func(int)) succeeded *)
Theorem func_type_assertion_pinned_refuted :
  wf_desc d_func_int /\ wf_desc d_F /\ uniq d_func_int d_F
  /\ assert_outcome false 0 (TConc d_func_int) (Some d_F) false = AOk
  /\ spec_holds (TConc d_func_int) (Some d_F) = false
  /\ assert_outcome true 0 (TConc d_func_int) (Some d_F) false = APanic.
Proof. exact closure_match_pinned_refuted. Qed.
Print Assumptions func_type_assertion_pinned_refuted.
