(* C03 - run-time panics: the compiler-emitted bounds checks (mirror of
   ssa/datastruct.go checkIndex / checkRange) as LLIR recipes, Go's index rule,
   and the signal-mask state machine behind nil-dereference recovery. *)
From LLGoV Require Export C02.Model.
Local Open Scope Z_scope.

(* what is indexed: the environment layout of the check prefix is
   slice [ptr; len; cap; i], string [ptr; len; i], pointer to array [ptr; i] *)
Inductive ckind := KSlice | KString | KArrPtr (n : Z).

Definition len_operand (k : ckind) : operand :=
  match k with KSlice | KString => Val 1 | KArrPtr n => Cst n end.
Definition idx_slot (k : ckind) : nat :=
  match k with KSlice => 3%nat | KString => 2%nat | KArrPtr _ => 1%nat end.
Definition is_const_len (k : ckind) : bool :=
  match k with KArrPtr _ => true | _ => false end.

(* Go: the index x is in range if 0 <= x < len(a), else a run-time panic *)
Definition idx_ok (len x : Z) : bool := (0 <=? x) && (x <? len).

(* checkIndex for a non-constant index.  pw = width of int on the target.
   fixed = false: the pinned tree (index converted to int width first, also
   when that narrows it); fixed = true: an index wider than int is compared in
   its own width against the zero-extended length, then narrowed. *)
Definition recipe_index (fixed : bool) (k : ckind) (ti : ity) (pw : Z) : func :=
  let I := Val (idx_slot k) in
  let n0 := S (idx_slot k) in
  let L := len_operand k in
  if fixed && (pw <? bits ti) then
    let w := bits ti in
    let zl := if is_const_len k then [] else [ICast ZExt pw w L] in
    let L' := if is_const_len k then L else Val n0 in
    let n1 := if is_const_len k then n0 else S n0 in
    let chk := if sg ti
               then [ICmp Pslt w I (Cst 0); ICmp Puge w I L'; IBin Or 1 (Val (S n1)) (Val n1); IAssert IndexRange (Val (S (S n1)))]
               else [ICmp Puge w I L'; IAssert IndexRange (Val n1)] in
    {| nparams := n0; body := zl ++ chk ++ [ICast Trunc w pw I]; ret := Cst 0; retw := 1 |}
  else
    let conv := if bits ti =? pw then [] else [cast_instr ti {| bits := pw; sg := sg ti |} I] in
    let I' := if bits ti =? pw then I else Val n0 in
    let n1 := if bits ti =? pw then n0 else S n0 in
    let chk := if sg ti
               then [ICmp Pslt pw I' (Cst 0); ICmp Puge pw I' L; IBin Or 1 (Val (S n1)) (Val n1); IAssert IndexRange (Val (S (S n1)))]
               else [ICmp Puge pw I' L; IAssert IndexRange (Val n1)] in
    {| nparams := n0; body := conv ++ chk; ret := Cst 0; retw := 1 |}.

(* the argument list for a check: other slots are arbitrary *)
Definition index_args (k : ckind) (p c len i : Z) : list Z :=
  match k with
  | KSlice => [p; len; c; i]
  | KString => [p; len; i]
  | KArrPtr _ => [p; i]
  end.
Definition kind_len (k : ckind) (len : Z) : Z :=
  match k with KArrPtr n => n | _ => len end.

Inductive ikey := KIdx (k : ckind) (ti : ity) (pw : Z).
Definition recipe_of_idx (fixed : bool) (key : ikey) : func :=
  match key with KIdx k ti pw => recipe_index fixed k ti pw end.

(* boundary search used by the driver when an IR function does not match *)
Definition idx_pool (w : Z) : list Z :=
  map (wrap w) [0; 1; 2; 9; 10; 11; 127; 128; 255; 256; 2 ^ 31 - 1; 2 ^ 31; 2 ^ 31 + 1; 2 ^ 32 - 1; 2 ^ 32; 2 ^ 32 + 1; 2 ^ 32 + 9;
                2 ^ 32 + 10; 2 ^ 33; 2 ^ 63 - 1; 2 ^ 63; 2 ^ 63 + 5; 2 ^ 64 - 1; 2 ^ 64 - 10; 2 ^ w - 1; 2 ^ (w - 1)].
Definition disagree_idx (f : func) (k : ckind) (ti : ity) : list (Z * Z) :=
  filter (fun li => match exec f (index_args k 4096 (fst li + 3) (fst li) (snd li)) with
                    | Ret _ => negb (idx_ok (kind_len k (fst li)) (val ti (snd li)))
                    | Panic IndexRange => idx_ok (kind_len k (fst li)) (val ti (snd li))
                    | _ => true
                    end)
         (list_prod [0; 1; 10; 255; 1000] (idx_pool (bits ti))).

(* ---------- nil dereference: the signal path as a state machine ---------- *)
(* A fault is delivered to the handler only if SIGSEGV is not blocked; handler
   entry blocks it unless the handler was installed with SA_NODEFER; leaving
   the handler by a non-local jump restores the mask saved at sigsetjmp time
   only when the jump buffer was saved WITH the mask, otherwise the mask of the
   handler stays in force. *)
Record sigst := { blocked : bool; recovered : nat; dead : bool }.
Definition sig_init := {| blocked := false; recovered := 0; dead := false |}.

(* one nil dereference inside a function with a deferred recover;
   nodefer: the sa_flags the runtime installs the handler with contain SA_NODEFER,
   savemask: second argument of the sigsetjmp the compiler emits *)
Definition fault (nodefer savemask : bool) (s : sigst) : sigst :=
  if dead s then s
  else if blocked s then {| blocked := true; recovered := recovered s; dead := true |}   (* default action: killed *)
  else (* handler runs, panics, siglongjmp to the frame saved by sigsetjmp(jb, savemask) *)
    {| blocked := negb nodefer && negb savemask; recovered := S (recovered s); dead := false |}.

Fixpoint faults (nodefer savemask : bool) (n : nat) (s : sigst) : sigst :=
  match n with O => s | S n' => faults nodefer savemask n' (fault nodefer savemask s) end.

(* the configuration of the tree, as extracted by the check (obligation
   gen_signal_config_recoverable): handler flags and sigsetjmp argument *)
Definition recoverable_config (nodefer savemask : bool) : bool := nodefer || savemask.

(* ---------- FitIntSize: bounds of slice expressions and make ---------- *)
(* A bound of an integer type wider than int is narrowed before the runtime
   check (NewSlice3 / StringSlice / MakeSlice).  fixed = false: plain
   truncation (pinned tree); fixed = true: a value that does not survive the
   round trip is replaced by -1, which every runtime check rejects. *)
Definition recipe_fit (fixed : bool) (tn : ity) (pw : Z) : func :=
  if bits tn =? pw then {| nparams := 1; body := []; ret := Val 0; retw := pw |}
  else if bits tn <? pw then
    {| nparams := 1; body := [cast_instr tn {| bits := pw; sg := true |} (Val 0)]; ret := Val 1; retw := pw |}
  else if fixed then
    {| nparams := 1;
       body := [ICast Trunc (bits tn) pw (Val 0);
                ICast SExt pw (bits tn) (Val 1);
                ICmp Peq (bits tn) (Val 2) (Val 0);
                ISelect pw (Val 3) (Val 1) (Cst (-1))];
       ret := Val 4; retw := pw |}
  else
    {| nparams := 1; body := [ICast Trunc (bits tn) pw (Val 0)]; ret := Val 1; retw := pw |}.

(* the runtime checks compare the narrowed values as signed ints against
   lengths/capacities below 2^(pw-1): what matters is that a value is a valid
   bound (0 <= v <= limit) after narrowing iff it was one before, and unchanged *)
Definition bound_ok (limit v : Z) : bool := (0 <=? v) && (v <=? limit).
