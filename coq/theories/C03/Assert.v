(* C03 - type assertions x.(T): mirror of ssa/interface.go TypeAssert (which
   test is emitted for which static/asserted type pair) and of the runtime
   tests it calls (z_face.go Implements, MatchesClosure), against Go's rule:
   the assertion holds iff x is non-nil and its dynamic type is identical to
   T (concrete T) or implements T (interface T). *)
From Coq Require Import List Arith Bool.
Import ListNotations.

(* Go types as far as assertions can tell them apart *)
Inductive gty := GNamed (n : nat) | GFunc (s : nat) | GOther (k : nat).
Definition gty_eqb (a b : gty) : bool :=
  match a, b with
  | GNamed x, GNamed y | GFunc x, GFunc y | GOther x, GOther y => Nat.eqb x y
  | _, _ => false
  end.

(* a type descriptor: tid = identity of the descriptor (its address),
   under_sig = signature of the underlying func type (closure descriptors),
   tmeths = method set, made = built at run time (reflect.FuncOf) *)
Record tdesc := { tid : nat; ty : gty; under_sig : option nat; tmeths : list nat; made : bool }.
Definition named (d : tdesc) : bool := match ty d with GNamed _ => true | _ => false end.

Inductive target := TConc (t : tdesc) | TIface (iid : nat) (req : list nat).

Definition has (ms : list nat) (m : nat) : bool := existsb (Nat.eqb m) ms.
Definition implements (req ms : list nat) : bool := forallb (has ms) req.

(* runtime MatchesClosure(T, V), V non-nil; fixed = false is the pinned version
   that compared signatures whenever the descriptors differed *)
Definition matches_closure (fixed : bool) (t v : tdesc) : bool :=
  if Nat.eqb (tid t) (tid v) then true
  else match under_sig v with
       | None => false
       | Some sv =>
           if fixed && (named t || named v) then false
           else match under_sig t with Some st => Nat.eqb st sv | None => false end
       end.

(* which test TypeAssert emits *)
Inductive tkind := KNonNil | KImplements | KClosure | KEq.
Definition test_kind (siid : nat) (tg : target) : tkind :=
  match tg with
  | TIface iid _ => if Nat.eqb siid iid then KNonNil else KImplements
  | TConc t => match under_sig t with Some _ => KClosure | None => KEq end
  end.

(* its value for the dynamic type tx of x (None: nil interface) *)
Definition lowered_test (fixed : bool) (siid : nat) (tg : target) (tx : option tdesc) : bool :=
  match tx with
  | None => false
  | Some v =>
      match tg with
      | TIface iid req => match test_kind siid tg with KNonNil => true | _ => implements req (tmeths v) end
      | TConc t => match test_kind siid tg with KClosure => matches_closure fixed t v | _ => Nat.eqb (tid t) (tid v) end
      end
  end.

Inductive aout := APanic | AOk | ANotOk.
Definition aout_eqb (a b : aout) : bool :=
  match a, b with APanic, APanic | AOk, AOk | ANotOk, ANotOk => true | _, _ => false end.

Definition assert_outcome (fixed : bool) (siid : nat) (tg : target) (tx : option tdesc) (commaok : bool) : aout :=
  if lowered_test fixed siid tg tx then AOk else if commaok then ANotOk else APanic.

(* Go's rule *)
Definition spec_holds (tg : target) (tx : option tdesc) : bool :=
  match tx with
  | None => false
  | Some v => match tg with
              | TConc t => gty_eqb (ty t) (ty v)
              | TIface _ req => implements req (tmeths v)
              end
  end.

(* well-formedness of what the compiler and reflect produce *)
Definition wf_desc (d : tdesc) : Prop :=
  match ty d with
  | GFunc s => under_sig d = Some s
  | GOther _ => under_sig d = None
  | GNamed _ => True
  end /\ (made d = true -> exists s, ty d = GFunc s).
(* compile-time descriptors are unique per type; a run-time one is a different object *)
Definition uniq (t v : tdesc) : Prop :=
  made t = false /\
  (made v = false -> (tid t = tid v <-> ty t = ty v)) /\
  (made v = true -> tid t <> tid v).
(* x has static interface type (siid, sreq): its dynamic type implements it;
   interface identities determine the method list *)
Definition well_typed (siid : nat) (sreq : list nat) (tg : target) (tx : option tdesc) : Prop :=
  (forall v, tx = Some v -> implements sreq (tmeths v) = true) /\
  (forall iid req, tg = TIface iid req -> siid = iid -> sreq = req).

(* harness cases: ((static iface id, target), (dynamic descriptor, comma-ok)) *)
Definition run_case (c : (nat * target) * (option tdesc * bool)) : aout :=
  assert_outcome true (fst (fst c)) (snd (fst c)) (fst (snd c)) (snd (snd c)).
Definition kind_code (k : tkind) : nat := match k with KNonNil => 0 | KImplements => 1 | KClosure => 2 | KEq => 3 end.
Definition kind_case (c : nat * target) : nat := kind_code (test_kind (fst c) (snd c)).
