(* C03 - proofs about the type-assertion model. *)
From LLGoV Require Import C03.Assert.
From Coq Require Import List Arith Bool Lia.
Import ListNotations.

Lemma gty_eqb_eq a b : gty_eqb a b = true <-> a = b.
Proof.
  destruct a, b; cbn; rewrite ?Nat.eqb_eq; split; intros H; try discriminate; try congruence;
  inversion H; reflexivity.
Qed.

Lemma gty_eqb_neq a b : gty_eqb a b = false <-> a <> b.
Proof.
  split; intros H.
  - intros E. apply gty_eqb_eq in E. congruence.
  - destruct (gty_eqb a b) eqn:E; [apply gty_eqb_eq in E; contradiction | reflexivity].
Qed.

(* concrete target: the emitted test (pointer equality, or MatchesClosure for
   func types) decides type identity *)
Lemma concrete_exact siid t v :
  wf_desc t -> wf_desc v -> uniq t v ->
  lowered_test true siid (TConc t) (Some v) = gty_eqb (ty t) (ty v).
Proof.
  intros [Wt _] [Wv Mv] (Ht & Hc & Hr).
  unfold lowered_test, test_kind.
  destruct (made v) eqn:Emv.
  - (* run-time descriptor: an unnamed func type *)
    destruct (Mv eq_refl) as [sv Tv]. specialize (Hr eq_refl).
    rewrite Tv in Wv. unfold matches_closure.
    destruct (Nat.eqb_spec (tid t) (tid v)) as [E|_]; [contradiction|].
    destruct (under_sig t) as [st|] eqn:Est.
    + rewrite Wv. unfold named. rewrite Tv.
      destruct (ty t) as [n|s|k] eqn:Tt; cbn.
      * reflexivity.
      * inversion Wt. reflexivity.
      * discriminate Wt.
    + rewrite Tv. destruct (ty t) as [n|s|k] eqn:Tt; cbn; try reflexivity.
      discriminate Wt.
  - specialize (Hc eq_refl).
    assert (Heq : Nat.eqb (tid t) (tid v) = gty_eqb (ty t) (ty v)).
    { destruct (Nat.eqb_spec (tid t) (tid v)) as [E|N].
      - symmetry. apply gty_eqb_eq. apply Hc. exact E.
      - symmetry. apply gty_eqb_neq. intros E. apply N. apply Hc. exact E. }
    destruct (under_sig t) as [st|] eqn:Est; [|exact Heq].
    unfold matches_closure. rewrite Heq.
    destruct (gty_eqb (ty t) (ty v)) eqn:Eg; [reflexivity|].
    destruct (under_sig v) as [sv|] eqn:Esv; [|reflexivity].
    unfold named.
    destruct (ty t) as [n|s|k] eqn:Tt; cbn; try reflexivity.
    + destruct (ty v) as [n'|s'|k'] eqn:Tv; cbn; try reflexivity.
      * inversion Wt; inversion Wv; subst. rewrite Est. exact Eg.
      * discriminate Wv.
    + discriminate Wt.
Qed.

(* interface target: non-nil test on identical interface types, Implements otherwise *)
Lemma iface_exact fixed siid sreq iid req tx :
  well_typed siid sreq (TIface iid req) tx ->
  lowered_test fixed siid (TIface iid req) tx = spec_holds (TIface iid req) tx.
Proof.
  intros [Hdyn Hid]. unfold lowered_test, spec_holds, test_kind.
  destruct tx as [v|]; [|reflexivity].
  destruct (Nat.eqb_spec siid iid) as [E|_]; [|reflexivity].
  rewrite <- (Hid iid req eq_refl E). symmetry. apply Hdyn. reflexivity.
Qed.

Definition wf_case (siid : nat) (sreq : list nat) (tg : target) (tx : option tdesc) : Prop :=
  well_typed siid sreq tg tx /\
  match tg, tx with
  | TConc t, Some v => wf_desc t /\ wf_desc v /\ uniq t v
  | _, _ => True
  end.

Lemma lowered_exact siid sreq tg tx :
  wf_case siid sreq tg tx -> lowered_test true siid tg tx = spec_holds tg tx.
Proof.
  intros [Hw Hc]. destruct tg as [t|iid req].
  - destruct tx as [v|]; [|reflexivity].
    destruct Hc as (Wt & Wv & U). rewrite (concrete_exact siid t v Wt Wv U). reflexivity.
  - eapply iface_exact. exact Hw.
Qed.

Lemma outcome_exact siid sreq tg tx commaok :
  wf_case siid sreq tg tx ->
  assert_outcome true siid tg tx commaok =
  if spec_holds tg tx then AOk else if commaok then ANotOk else APanic.
Proof. intros H. unfold assert_outcome. rewrite (lowered_exact _ _ _ _ H). reflexivity. Qed.

(* pinned MatchesClosure: a value of a defined func type passes for the unnamed one *)
Definition d_func_int := {| tid := 7; ty := GFunc 0; under_sig := Some 0; tmeths := []; made := false |}.
Definition d_F := {| tid := 8; ty := GNamed 8; under_sig := Some 0; tmeths := []; made := false |}.

Lemma closure_match_pinned_refuted :
  wf_desc d_func_int /\ wf_desc d_F /\ uniq d_func_int d_F
  /\ assert_outcome false 0 (TConc d_func_int) (Some d_F) false = AOk
  /\ spec_holds (TConc d_func_int) (Some d_F) = false
  /\ assert_outcome true 0 (TConc d_func_int) (Some d_F) false = APanic.
Proof.
  unfold wf_desc, uniq, d_func_int, d_F; cbn.
  repeat split; try reflexivity; try discriminate; try (intros; discriminate).
Qed.

(* a run-time built descriptor of the same unnamed func type still matches *)
Definition d_made := {| tid := 99; ty := GFunc 0; under_sig := Some 0; tmeths := []; made := true |}.
Lemma made_descriptor_matches :
  wf_desc d_made /\ uniq d_func_int d_made
  /\ assert_outcome true 0 (TConc d_func_int) (Some d_made) false = AOk.
Proof.
  unfold wf_desc, uniq, d_func_int, d_made; cbn.
  repeat split; try reflexivity; try discriminate; try (intros; discriminate); eauto.
Qed.
