From LLGoV Require Import C03.Model C02.Proofs.
From Coq Require Import ZifyBool.
Local Open Scope Z_scope.
Ltac Zify.zify_post_hook ::= Z.div_mod_to_equations.

Definition wf_pw (pw : Z) : Prop := pw = 32 \/ pw = 64.

Definition expected (k : ckind) (ti : ity) (len i : Z) : outcome :=
  if idx_ok (kind_len k len) (val ti i) then Ret 0 else Panic IndexRange.

Ltac hyp_lor :=
  repeat match goal with
  | H : context [Z.lor ?a ?b] |- _ => lit a; lit b; let v := eval vm_compute in (Z.lor a b) in change (Z.lor a b) with v in H
  end.
Ltac ifin :=
  cbn [val sg bits kind_len] in *; unfold idx_ok, sgn, wrap in *; const_wrap; const_pow_hyps;
  repeat match goal with
   | H : context [if ?a <? ?b then _ else _] |- _ => destruct (a <? b) eqn:?
   | |- context [if ?a <? ?b then _ else _] => destruct (a <? b) eqn:?
  end;
  hyp_b2z; hyp_lor;
  repeat match goal with
   | |- context [if ?c then _ else _] => destruct c eqn:?
  end;
  try reflexivity; try (exfalso; lia).

(* the check is exact whenever the index type is not wider than int (pinned
   lowering), for every indexable kind *)
Lemma index_check_exact_narrow k ti pw p c len i :
  wf_ity ti -> wf_pw pw -> bits ti <= pw ->
  0 <= kind_len k len < 2 ^ (pw - 1) -> in_range (bits ti) i ->
  exec (recipe_index false k ti pw) (index_args k p c len i) = expected k ti len i.
Proof.
  intros Hti Hpw Hle Hlen Hi. destruct ti as [w s]. unfold wf_ity in Hti. cbn [bits sg] in *.
  unfold in_range, expected in *.
  destruct Hpw as [-> | ->]; widths Hti; try lia; destruct s; destruct k;
  cbn [kind_len] in *;
  (match goal with |- exec ?f _ = _ => let f' := eval vm_compute in f in change f with f' end);
  cbn [index_args]; stepper; ifin.
Qed.

(* with the wide-index lowering the check is exact for EVERY index type *)
Lemma index_check_exact_fixed k ti pw p c len i :
  wf_ity ti -> wf_pw pw ->
  0 <= kind_len k len < 2 ^ (pw - 1) -> in_range (bits ti) i ->
  exec (recipe_index true k ti pw) (index_args k p c len i) = expected k ti len i.
Proof.
  intros Hti Hpw Hlen Hi. destruct ti as [w s]. unfold wf_ity in Hti. cbn [bits sg] in *.
  unfold in_range, expected in *.
  destruct Hpw as [-> | ->]; widths Hti; destruct s; destruct k;
  cbn [kind_len] in *;
  (match goal with |- exec ?f _ = _ => let f' := eval vm_compute in f in change f with f' end);
  cbn [index_args]; stepper; ifin.
Qed.

(* the pinned lowering narrows a 64-bit index to a 32-bit int BEFORE comparing *)
Lemma index_truncated_refuted_pinned :
  exec (recipe_index false KSlice I64 32) (index_args KSlice 4096 16 10 (2 ^ 32 + 1)) = Ret 0
  /\ idx_ok 10 (val I64 (2 ^ 32 + 1)) = false.
Proof. split; reflexivity. Qed.

(* signal path *)
Lemma faults_recoverable nodefer savemask n :
  recoverable_config nodefer savemask = true ->
  dead (faults nodefer savemask n sig_init) = false
  /\ recovered (faults nodefer savemask n sig_init) = n.
Proof.
  intros Hc.
  assert (Hb : negb nodefer && negb savemask = false).
  { unfold recoverable_config in Hc. destruct nodefer, savemask; try reflexivity; discriminate. }
  assert (G : forall m s, dead s = false -> blocked s = false ->
            dead (faults nodefer savemask m s) = false /\ blocked (faults nodefer savemask m s) = false
            /\ recovered (faults nodefer savemask m s) = (m + recovered s)%nat).
  { induction m as [|m IH]; intros s Hd Hbl; [cbn; repeat split; auto|].
    cbn [faults].
    assert (E : fault nodefer savemask s = {| blocked := false; recovered := S (recovered s); dead := false |}).
    { unfold fault. rewrite Hd, Hbl, Hb. reflexivity. }
    rewrite E.
    destruct (IH {| blocked := false; recovered := S (recovered s); dead := false |} eq_refl eq_refl) as (A & B & C).
    cbn [recovered] in C.
    repeat split; auto. lia. }
  destruct (G n sig_init) as (A & _ & C); auto. rewrite A, C. cbn. split; [reflexivity|lia].
Qed.

Lemma faults_nomask_second_dies : dead (faults false false 2 sig_init) = true
                                  /\ recovered (faults false false 2 sig_init) = 1%nat.
Proof. split; reflexivity. Qed.

(* ---------- FitIntSize ---------- *)
Lemma fit_fixed_exact tn pw n limit :
  wf_ity tn -> wf_pw pw -> in_range (bits tn) n -> 0 <= limit < 2 ^ (pw - 1) ->
  exists r, exec (recipe_fit true tn pw) [n] = Ret r
            /\ bound_ok limit (sgn pw r) = bound_ok limit (val tn n)
            /\ (bound_ok limit (val tn n) = true -> sgn pw r = val tn n).
Proof.
  intros Htn Hpw Hn Hl. destruct tn as [w s]. unfold wf_ity in Htn. cbn [bits sg] in *.
  unfold in_range, bound_ok in *.
  destruct Hpw as [-> | ->]; widths Htn; destruct s;
  (match goal with |- exists r, exec ?f _ = _ /\ _ => let f' := eval vm_compute in f in change f with f' end);
  cbn [exec nparams body ret retw length Nat.eqb map run step get nth_error eval_cast eval_pred app b2z];
  const_wrap;
  try (match goal with |- context [b2z ?c =? 0] => destruct c eqn:? end);
  cbn [b2z]; try change (1 =? 0) with false; try change (0 =? 0) with true; cbv iota;
  eexists; (split; [reflexivity|]); cbn [val sg bits];
  unfold sgn, wrap in *; const_wrap; const_pow_hyps;
  repeat match goal with
   | H : context [if ?a <? ?b then _ else _] |- _ => destruct (a <? b) eqn:?
   | |- context [if ?a <? ?b then _ else _] => destruct (a <? b) eqn:?
  end; split; try lia; intros; lia.
Qed.

(* plain truncation lets an out-of-range bound wrap into range *)
Lemma fit_truncation_refuted :
  exec (recipe_fit false I64 32) [2 ^ 32 + 1] = Ret 1
  /\ bound_ok 10 (val I64 (2 ^ 32 + 1)) = false /\ bound_ok 10 (sgn 32 1) = true.
Proof. repeat split; reflexivity. Qed.
