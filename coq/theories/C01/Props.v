(* C01 - property theorems only (the part of "compiled programs behave as Go
   specifies" that is a statement about llgo's own control-flow bookkeeping;
   operators, bounds checks and defer are C02, C03 and C04). *)
From LLGoV Require Import C01.Model C01.Proofs.
From Coq Require Import Permutation.

(* An order accepted by the validator compiles every block of the function
   exactly once and starts with the entry block.  The check runs the validator
   on the order the real cl/blocks.Infos returns for every generated function
   and for random CFGs. *)
Theorem order_valid_is_permutation : forall g o,
  order_valid g o = true ->
  Permutation o (seq 0 (length g)) /\ (0 < length g -> hd_error o = Some 0).
Proof. exact order_valid_sound. Qed.
Print Assumptions order_valid_is_permutation.

Theorem order_valid_each_block_once : forall g o i,
  order_valid g o = true -> i < length g -> count_occ Nat.eq_dec o i = 1.
Proof. exact order_valid_once. Qed.
Print Assumptions order_valid_each_block_once.

Example order_valid_nontrivial :
  order_valid [[1; 2]; [3]; [3]; [1]] [0; 2; 1; 3] = true
  /\ order_valid [[1; 2]; [3]; [3]; [1]] [0; 2; 2; 3] = false.
Proof. split; reflexivity. Qed.

(* The loop marks the check demands of Infos (a block is "in a loop" iff the
   specification says so) mean exactly: the block lies on a cycle of the CFG -
   for paths of any length. *)
Theorem inloop_iff_cycle : forall g i,
  wf_cfg g -> i < length g ->
  (nth i (inloop_spec g) false = true <-> path g i i).
Proof. exact inloop_spec_iff_cycle. Qed.
Print Assumptions inloop_iff_cycle.

Example inloop_nontrivial :
  inloop_spec [[1]; [2; 4]; [3]; [1]; []] = [false; true; true; true; false].
Proof. reflexivity. Qed.
