(* C01 - the control-flow side of the compiler: cl compiles the blocks of a
   function in the order computed by cl/blocks.Infos and classifies each block
   as lying in a loop or not.  This file holds (1) the validator that decides
   whether an order is one in which every block is compiled exactly once,
   starting with the entry block, and (2) the specification of loop membership
   (a block is in a loop iff it reaches itself through at least one edge),
   as executable functions over a CFG given by successor lists. *)
From LLGoV Require Export Lib.Common.
From Coq Require Import Lia.

Definition cfg := list (list nat).          (* successors of block i *)

Definition succs (g : cfg) (i : nat) : list nat := nth i g [].

Fixpoint memb (x : nat) (l : list nat) : bool :=
  match l with [] => false | y :: l' => Nat.eqb x y || memb x l' end.

(* ---------- order validator ---------- *)
Fixpoint nodupb (l : list nat) : bool :=
  match l with [] => true | x :: l' => negb (memb x l') && nodupb l' end.

Definition order_valid (g : cfg) (order : list nat) : bool :=
  Nat.eqb (length order) (length g)
  && forallb (fun i => Nat.ltb i (length g)) order
  && nodupb order
  && match order with 0 :: _ => true | [] => Nat.eqb (length g) 0 | _ => false end.

(* ---------- loop membership specification ---------- *)
Fixpoint add_all (xs acc : list nat) : list nat :=
  match xs with
  | [] => acc
  | x :: xs' => if memb x acc then add_all xs' acc else add_all xs' (x :: acc)
  end.

(* one round: add the successors of everything reached so far *)
Definition expand (g : cfg) (s : list nat) : list nat :=
  fold_left (fun acc x => add_all (succs g x) acc) s s.

Fixpoint iterate {A} (n : nat) (f : A -> A) (x : A) : A :=
  match n with O => x | S n' => iterate n' f (f x) end.

(* blocks reachable from i through at least one edge *)
Definition reach_from (g : cfg) (i : nat) : list nat :=
  iterate (length g) (expand g) (add_all (succs g i) []).

Definition inloop_spec (g : cfg) : list bool :=
  map (fun i => memb i (reach_from g i)) (seq 0 (length g)).

(* ---------- what the harness sends: (cfg, (order, inloop marks)) ---------- *)
Definition infos_ok (c : cfg * (list nat * list bool)) : bool :=
  order_valid (fst c) (fst (snd c))
  && list_eqb Bool.eqb (snd (snd c)) (inloop_spec (fst c)).

(* positions, for the topological-order metric *)
Fixpoint pos_of (x : nat) (l : list nat) : nat :=
  match l with [] => 0 | y :: l' => if Nat.eqb x y then 0 else S (pos_of x l') end.

(* edges u -> v between blocks outside every loop must go forward *)
Definition acyclic_edges_forward (g : cfg) (order : list nat) : bool :=
  let marks := inloop_spec g in
  forallb (fun u => forallb (fun v => nth u marks false || nth v marks false
                                      || Nat.ltb (pos_of u order) (pos_of v order)) (succs g u))
          (seq 0 (length g)).
