From LLGoV Require Import C01.Model.
From Coq Require Import Lia Permutation.

(* ---------- order validator ---------- *)

Lemma memb_In x l : memb x l = true <-> In x l.
Proof.
  induction l as [|y l IH]; cbn; [split; [discriminate|tauto]|].
  rewrite Bool.orb_true_iff, Nat.eqb_eq, IH. split; intros [H|H]; auto.
Qed.

Lemma nodupb_NoDup l : nodupb l = true -> NoDup l.
Proof.
  induction l as [|x l IH]; cbn; [constructor|].
  intros H. apply andb_true_iff in H as [H1 H2]. constructor; [|auto].
  intros Hin. apply memb_In in Hin. rewrite Hin in H1. discriminate.
Qed.

Lemma order_valid_sound g o :
  order_valid g o = true ->
  Permutation o (seq 0 (length g)) /\ (0 < length g -> hd_error o = Some 0).
Proof.
  unfold order_valid. intros H.
  apply andb_true_iff in H as [H H4]. apply andb_true_iff in H as [H H3].
  apply andb_true_iff in H as [H1 H2]. apply Nat.eqb_eq in H1.
  split.
  - apply NoDup_Permutation_bis.
    + now apply nodupb_NoDup.
    + rewrite seq_length. lia.
    + intros x Hx. apply in_seq. rewrite forallb_forall in H2.
      specialize (H2 x Hx). apply Nat.ltb_lt in H2. lia.
  - intros Hn. destruct o as [|[|k] o]; cbn in *; try reflexivity; try discriminate.
    apply Nat.eqb_eq in H4. lia.
Qed.

(* every block is compiled exactly once *)
Lemma order_valid_once g o i :
  order_valid g o = true -> i < length g -> count_occ Nat.eq_dec o i = 1.
Proof.
  intros H Hi. destruct (order_valid_sound g o H) as [P _].
  rewrite (Permutation_count_occ Nat.eq_dec) in P. rewrite P.
  assert (ND : NoDup (seq 0 (length g))) by apply seq_NoDup.
  rewrite (NoDup_count_occ' Nat.eq_dec) in ND. apply ND. apply in_seq. lia.
Qed.

(* ---------- loop membership = reachability through at least one edge ---------- *)

Inductive path (g : cfg) : nat -> nat -> Prop :=
| path_edge i j : In j (succs g i) -> path g i j
| path_step i k j : In k (succs g i) -> path g k j -> path g i j.

(* paths of at most n+1 edges *)
Inductive path_le (g : cfg) : nat -> nat -> nat -> Prop :=
| ple_edge n i j : In j (succs g i) -> path_le g n i j
| ple_step n i k j : path_le g n i k -> In j (succs g k) -> path_le g (S n) i j.

Lemma path_snoc g i k j : path g i k -> In j (succs g k) -> path g i j.
Proof.
  induction 1 as [i k H|i m k H Hp IH]; intros Hj.
  - eapply path_step; [exact H|]. now apply path_edge.
  - eapply path_step; [exact H|]. now apply IH.
Qed.

Lemma path_le_path g n i j : path_le g n i j -> path g i j.
Proof. induction 1; [now apply path_edge | eapply path_snoc; eauto]. Qed.

Lemma add_all_In xs : forall acc x, In x (add_all xs acc) <-> In x xs \/ In x acc.
Proof.
  induction xs as [|y xs IH]; intros acc x; cbn; [tauto|].
  destruct (memb y acc) eqn:E; rewrite IH.
  - apply memb_In in E. split; [tauto|]. intros [[<-|H]|H]; auto.
  - cbn. tauto.
Qed.

Lemma expand_In g s x :
  In x (expand g s) <-> In x s \/ exists y, In y s /\ In x (succs g y).
Proof.
  unfold expand.
  assert (G : forall l acc, In x (fold_left (fun a y => add_all (succs g y) a) l acc)
                            <-> In x acc \/ exists y, In y l /\ In x (succs g y)).
  { induction l as [|y l IH]; intros acc; cbn.
    - split; [auto|]. intros [H|(y & [] & _)]. exact H.
    - rewrite IH, add_all_In. split.
      + intros [[H|H]|(z & Hz & Hx)]; [right; exists y; auto | auto | right; exists z; auto].
      + intros [H|(z & [<-|Hz] & Hx)]; [auto | auto | right; exists z; auto]. }
  apply G.
Qed.

Lemma iterate_sound g i : forall k s,
  (forall x, In x s -> path g i x) ->
  forall x, In x (iterate k (expand g) s) -> path g i x.
Proof.
  induction k as [|k IH]; intros s Hs x; cbn; [apply Hs|].
  apply IH. intros y Hy. apply expand_In in Hy as [Hy|(z & Hz & Hy)]; [now apply Hs|].
  eapply path_snoc; [apply Hs; exact Hz | exact Hy].
Qed.

Lemma reach_sound g i x : memb x (reach_from g i) = true -> path g i x.
Proof.
  intros H. apply memb_In in H. unfold reach_from in H.
  eapply iterate_sound; [|exact H].
  intros y Hy. apply add_all_In in Hy as [Hy|[]]. now apply path_edge.
Qed.

Lemma iterate_mono g : forall k s x, In x s -> In x (iterate k (expand g) s).
Proof.
  induction k as [|k IH]; intros s x H; cbn; [exact H|].
  apply IH. apply expand_In. now left.
Qed.

Lemma iterate_comm g : forall m t,
  iterate m (expand g) (expand g t) = expand g (iterate m (expand g) t).
Proof. induction m as [|m IHm]; intros t; cbn; [reflexivity|]. now rewrite IHm. Qed.

Lemma iterate_complete g i : forall k s,
  (forall x, In x (succs g i) -> In x s) ->
  forall x, path_le g k i x -> In x (iterate k (expand g) s).
Proof.
  induction k as [|k IH]; intros s Hs x Hp.
  - inversion Hp as [n a b Hab|]; subst. cbn. apply Hs. exact Hab.
  - inversion Hp as [n a b Hab|n a m b Hpm Hmb]; subst.
    + apply iterate_mono. apply Hs. exact Hab.
    + cbn. rewrite iterate_comm. apply expand_In. right. exists m. split; [|exact Hmb].
      apply IH; assumption.
Qed.

Lemma reach_complete_bounded g i x :
  path_le g (length g) i x -> memb x (reach_from g i) = true.
Proof.
  intros H. apply memb_In. unfold reach_from. apply (iterate_complete g i); [|exact H].
  intros y Hy. apply add_all_In. now left.
Qed.

Lemma inloop_spec_nth g i :
  i < length g -> nth i (inloop_spec g) false = memb i (reach_from g i).
Proof.
  intros H. unfold inloop_spec.
  rewrite (nth_indep _ false (memb (length g) (reach_from g (length g)))) by (rewrite map_length, seq_length; exact H).
  rewrite (map_nth (fun i => memb i (reach_from g i)) (seq 0 (length g)) (length g) i).
  now rewrite seq_nth.
Qed.

(* ---------- completeness for paths of any length (closure argument) ---------- *)

Definition wf_cfg (g : cfg) : Prop := forall i x, In x (succs g i) -> x < length g.
Definition closed (g : cfg) (s : list nat) : Prop := forall y x, In y s -> In x (succs g y) -> In x s.

Lemma add_all_NoDup xs : forall acc, NoDup acc -> NoDup (add_all xs acc).
Proof.
  induction xs as [|y xs IH]; intros acc H; cbn; [exact H|].
  destruct (memb y acc) eqn:E; apply IH; [exact H|].
  constructor; [|exact H]. intros Hin. apply memb_In in Hin. congruence.
Qed.

Lemma fold_add_NoDup g l : forall acc, NoDup acc ->
  NoDup (fold_left (fun a y => add_all (succs g y) a) l acc).
Proof.
  induction l as [|y l IH]; intros acc H; cbn; [exact H|]. apply IH. now apply add_all_NoDup.
Qed.

Lemma expand_NoDup g s : NoDup s -> NoDup (expand g s).
Proof. intros H. unfold expand. now apply fold_add_NoDup. Qed.

Lemma iterate_NoDup g : forall k s, NoDup s -> NoDup (iterate k (expand g) s).
Proof. induction k as [|k IH]; intros s H; cbn; [exact H|]. apply IH. now apply expand_NoDup. Qed.

Lemma expand_bounded g s : wf_cfg g -> (forall x, In x s -> x < length g) ->
  forall x, In x (expand g s) -> x < length g.
Proof.
  intros W H x Hx. apply expand_In in Hx as [Hx|(y & Hy & Hx)]; [now apply H|]. eapply W; eauto.
Qed.

Lemma iterate_bounded g : wf_cfg g -> forall k s, (forall x, In x s -> x < length g) ->
  forall x, In x (iterate k (expand g) s) -> x < length g.
Proof.
  intros W. induction k as [|k IH]; intros s H x Hx; cbn in Hx; [now apply H|].
  eapply IH; [|exact Hx]. now apply expand_bounded.
Qed.

Lemma bounded_NoDup_length (n : nat) (s : list nat) :
  NoDup s -> (forall x, In x s -> x < n) -> length s <= n.
Proof.
  intros ND H. rewrite <- (seq_length n 0). apply NoDup_incl_length; [exact ND|].
  intros x Hx. apply in_seq. specialize (H x Hx). lia.
Qed.

Lemma closed_expand_same g s : closed g s -> forall x, In x (expand g s) <-> In x s.
Proof.
  intros C x. rewrite expand_In. split; [|auto]. intros [H|(y & Hy & Hx)]; [exact H|]. eapply C; eauto.
Qed.

Lemma closed_expand g s : closed g s -> closed g (expand g s).
Proof.
  intros C y x Hy Hx. apply (closed_expand_same g s C) in Hy. apply (closed_expand_same g s C). eapply C; eauto.
Qed.

Lemma same_length_closed g s :
  NoDup s -> length (expand g s) = length s -> closed g s.
Proof.
  intros ND L y x Hy Hx.
  assert (I1 : incl s (expand g s)) by (intros z Hz; apply expand_In; now left).
  assert (I2 : incl (expand g s) s).
  { apply NoDup_length_incl; [exact ND | lia | exact I1]. }
  apply I2. apply expand_In. right. exists y. auto.
Qed.

Lemma closure_within g (W : wf_cfg g) s0 :
  NoDup s0 -> (forall x, In x s0 -> x < length g) ->
  forall k, closed g (iterate k (expand g) s0) \/ k + 1 <= length (iterate k (expand g) s0) \/ s0 = [].
Proof.
  intros ND B. induction k as [|k IH].
  - cbn. destruct s0; [right; right; reflexivity|]. right. left. cbn. lia.
  - assert (E : iterate (S k) (expand g) s0 = expand g (iterate k (expand g) s0)).
    { cbn. apply iterate_comm. }
    rewrite E. destruct IH as [C|[L|Z]].
    + left. now apply closed_expand.
    + set (s := iterate k (expand g) s0) in *.
      assert (NDs : NoDup s) by (now apply iterate_NoDup).
      assert (GE : length s <= length (expand g s)).
      { apply NoDup_incl_length; [exact NDs|]. intros z Hz. apply expand_In. now left. }
      destruct (Nat.eq_dec (length (expand g s)) (length s)) as [Eq|Ne].
      * left. apply closed_expand. now apply same_length_closed.
      * right. left. lia.
    + right. right. exact Z.
Qed.

Lemma closed_path g s i x : closed g s -> In i s -> path g i x -> In x s.
Proof.
  intros C Hi P. induction P as [i j H|i k j H P IH]; [eapply C; eauto|].
  apply IH. eapply C; eauto.
Qed.

Lemma reach_complete g i x : wf_cfg g -> path g i x -> memb x (reach_from g i) = true.
Proof.
  intros W P. apply memb_In. unfold reach_from.
  set (s0 := add_all (succs g i) []).
  assert (ND : NoDup s0) by (apply add_all_NoDup; constructor).
  assert (B : forall y, In y s0 -> y < length g).
  { intros y Hy. apply add_all_In in Hy as [Hy|[]]. eapply W; eauto. }
  assert (S0 : forall y, In y (succs g i) -> In y s0) by (intros y Hy; apply add_all_In; now left).
  destruct (closure_within g W s0 ND B (length g)) as [C|[L|Z]].
  - inversion P as [a b Hab|a k b Hak Pkb]; subst.
    + apply iterate_mono. now apply S0.
    + apply (closed_path g _ k x C); [apply iterate_mono; now apply S0 | exact Pkb].
  - exfalso.
    assert (length (iterate (length g) (expand g) s0) <= length g).
    { apply bounded_NoDup_length; [now apply iterate_NoDup | now apply iterate_bounded]. }
    lia.
  - exfalso. inversion P as [a b Hab|a k b Hak Pkb]; subst.
    + specialize (S0 x Hab). rewrite Z in S0. destruct S0.
    + specialize (S0 k Hak). rewrite Z in S0. destruct S0.
Qed.

(* loop membership as the specification computes it is exactly "lies on a cycle" *)
Lemma inloop_spec_iff_cycle g i : wf_cfg g -> i < length g ->
  (nth i (inloop_spec g) false = true <-> path g i i).
Proof.
  intros W Hi. rewrite inloop_spec_nth by exact Hi. split; [apply reach_sound | now apply reach_complete].
Qed.
