(* C18 - property theorems only.  Model: C18.Model (internal/targets loader.go,
   config.go as they are).  resolve true = Loader.Load. *)
From LLGoV Require Import C18.Model C18.Proofs.
From Coq Require Import Permutation.
Local Open Scope string_scope.
Local Open Scope list_scope.

(* resolve true = Loader.Load as it is now (with the chain of descriptions being
   resolved, fix: report inheritance cycles); resolve false = the loader before
   that fix, kept for the refutation at the end. *)

(* Any description whose inheritance is acyclic and complete (Lin d n l holds
   exactly then, with l = concat (map lin parents) ++ [n]) resolves, for every
   fuel above the length of l, to the fold of the raw descriptions along l. *)
Theorem resolve_eq_linearised : forall d n l fuel,
  Lin d n l -> (fuel > List.length l)%nat -> resolve true fuel d n = Ok n (fold_spec d l).
Proof. exact resolve_fixed_lin. Qed.
Print Assumptions resolve_eq_linearised.

Theorem lin_function_sound : forall d fuel n l, lin fuel d n = Some l -> Lin d n l.
Proof. exact lin_Lin. Qed.
Print Assumptions lin_function_sound.

(* ... in which every list setting is the concatenation of the lists along the
   linearisation (ancestors in inheritance order, own list last), *)
Theorem list_setting_is_concatenation : forall d l k, In (k, KList) table ->
  get (fold_spec d l) k KList
  = VList (List.concat (map (fun n => list_of (get (raw_cfg d n) k KList)) l)).
Proof. exact spec_list. Qed.
Print Assumptions list_setting_is_concatenation.

(* every string setting is the value of the nearest description (last in the
   linearisation) that defines it, i.e. gives a non-empty value, *)
Theorem scalar_setting_is_nearest_definition : forall d l k, In (k, KStr) table ->
  get (fold_spec d l) k KStr
  = VStr (nearest (map (fun n => str_of (get (raw_cfg d n) k KStr)) l)).
Proof. exact spec_str. Qed.
Print Assumptions scalar_setting_is_nearest_definition.

(* and the boolean setting is true exactly when some description of the
   linearisation sets it (mergeConfig can switch it on, never off). *)
Theorem bool_setting_is_any_definition : forall d l k, In (k, KBool) table ->
  get (fold_spec d l) k KBool
  = VBool (existsb (fun n => bool_of (get (raw_cfg d n) k KBool)) l).
Proof. exact spec_bool. Qed.
Print Assumptions bool_setting_is_any_definition.

(* more fuel never changes an answer *)
Theorem resolve_fuel_monotone : forall d n fuel fuel',
  (fuel <= fuel')%nat -> resolve true fuel d n <> OutOfFuel -> resolve true fuel' d n = resolve true fuel d n.
Proof. intros d n. exact (loadv_mono d [] n). Qed.
Print Assumptions resolve_fuel_monotone.

(* the answer does not depend on the order in which the descriptions are
   stored or enumerated *)
Theorem resolve_order_independent : forall d d' fuel n,
  Permutation d d' -> NoDup (map fst d) -> resolve true fuel d n = resolve true fuel d' n.
Proof. intros d d' fuel n HP ND. apply loadv_ext. now apply lookup_perm. Qed.
Print Assumptions resolve_order_independent.

(* A Loader that serves a sequence of requests answers each of them as a fresh
   Loader would: whatever it has cached (as long as the cache holds only what the
   directory holds - in particular never an entry for a missing description),
   the answers are a function of the directory and the requested name alone. *)
Theorem load_is_history_independent : forall fuel d upd cache ops,
  (forall c n, consistent c d -> consistent (upd c n) d) -> consistent cache d ->
  run_ops fuel d upd cache ops = map (resolve true fuel d) ops.
Proof. intros fuel d upd cache ops Hupd Hc. exact (run_ops_pure fuel d upd Hupd ops cache Hc). Qed.
Print Assumptions load_is_history_independent.

Example history_independent_instance : forall fuel d ops,
  run_ops fuel d (cache_requested d) [] ops = map (resolve true fuel d) ops.
Proof.
  intros. apply load_is_history_independent; [apply cache_requested_consistent | intros n r H; discriminate].
Qed.

(* a successful resolution implies an acyclic, complete inheritance below n *)
Theorem ok_only_if_acyclic_and_complete : forall d fuel n n' c,
  resolve true fuel d n = Ok n' c -> n' = n /\ (exists l, Lin d n l) /\ ~ Anc d n n.
Proof.
  intros d fuel n n' c E. split; [exact (loadv_ok_name _ _ _ _ _ _ E)|].
  destruct (loadv_ok_lin _ _ _ _ _ _ E) as [l HL]. split; [eauto | exact (Lin_acyclic _ _ _ HL)].
Qed.
Print Assumptions ok_only_if_acyclic_and_complete.

(* an error names a description reached from n that does not exist, or one
   that lies on an inheritance cycle *)
Theorem error_names_missing_ancestor : forall d fuel n m,
  resolve true fuel d n = ErrMissing m -> lookup d m = None /\ (m = n \/ Anc d n m).
Proof. intros d fuel n. exact (proj1 (loadv_err_sound d fuel [] n ltac:(intros v []))). Qed.
Print Assumptions error_names_missing_ancestor.

Theorem error_names_cyclic_ancestor : forall d fuel n m,
  resolve true fuel d n = ErrCycle m -> Anc d m m /\ (m = n \/ Anc d n m).
Proof. intros d fuel n. exact (proj2 (loadv_err_sound d fuel [] n ltac:(intros v []))). Qed.
Print Assumptions error_names_cyclic_ancestor.

(* Resolution ALWAYS ends - for every description set, cyclic or not - as soon
   as the fuel exceeds the number of descriptions: never a hang, never a crash. *)
Theorem resolution_always_terminates : forall d fuel n,
  (fuel > List.length d)%nat -> resolve true fuel d n <> OutOfFuel.
Proof. exact resolve_fixed_terminates. Qed.
Print Assumptions resolution_always_terminates.

(* a missing parent (anywhere below n) ends with an error *)
Theorem missing_parent_is_an_error : forall d n m fuel,
  (m = n \/ Anc d n m) -> lookup d m = None -> (fuel > List.length d)%nat ->
  exists e, resolve true fuel d n = e /\
    ((exists m', e = ErrMissing m' /\ lookup d m' = None) \/ (exists m', e = ErrCycle m' /\ Anc d m' m')).
Proof. exact resolve_fixed_missing_error. Qed.
Print Assumptions missing_parent_is_an_error.

(* a cyclic request ends with an error: a cycle error naming a description on a
   cycle, or - when a missing description is met first - a missing-file error *)
Theorem cyclic_request_is_an_error : forall d n fuel,
  Anc d n n -> (fuel > List.length d)%nat ->
  (exists m, resolve true fuel d n = ErrCycle m /\ Anc d m m) \/
  (exists m, resolve true fuel d n = ErrMissing m /\ lookup d m = None).
Proof. exact resolve_fixed_cyclic_error. Qed.
Print Assumptions cyclic_request_is_an_error.

Example cycle_witnesses_now_errors :
  resolve true 3 db_self name_a = ErrCycle name_a /\ resolve true 3 db_two name_a = ErrCycle name_a.
Proof. split; vm_compute; reflexivity. Qed.

(* Before the fix (finding F12, repaired): on a cyclic request whose
   descriptions all exist the recursion did not end, whatever the fuel - in Go
   the goroutine stack overflowed. *)
Theorem unfixed_cyclic_complete_request_never_ends : forall d n,
  Anc d n n -> (forall m, Anc d n m -> lookup d m <> None) ->
  forall fuel, resolve false fuel d n = OutOfFuel.
Proof. exact cyclic_closed_loops. Qed.
Print Assumptions unfixed_cyclic_complete_request_never_ends.

Theorem unfixed_cycle_refuted :
  (forall fuel, resolve false fuel db_self name_a = OutOfFuel) /\
  (forall fuel, resolve false fuel db_two name_a = OutOfFuel).
Proof. split; [exact self_cycle_loops | exact two_cycle_loops]. Qed.
Print Assumptions unfixed_cycle_refuted.

(* ---------- the hypotheses are satisfiable: a diamond ---------- *)
Definition ex_db : db := [
  (bs "base", Raw [] [("cpu", VStr (bs "m0")); ("cflags", VList [bs "-b"]); ("goos", VStr (bs "linux"))]);
  (bs "l", Raw [bs "base"] [("cpu", VStr (bs "m4")); ("cflags", VList [bs "-l"])]);
  (bs "r", Raw [bs "base"] [("cflags", VList [bs "-r"]); ("rp2040-boot-patch", VBool true)]);
  (bs "top", Raw [bs "l"; bs "r"] [("cflags", VList [bs "-t"]); ("cpu", VStr [])])].

Example ex_lin : lin 5 ex_db (bs "top") = Some [bs "base"; bs "l"; bs "base"; bs "r"; bs "top"].
Proof. vm_compute. reflexivity. Qed.

Example ex_resolve :
  match resolve true 6 ex_db (bs "top") with
  | Ok _ c => get c "cpu" KStr = VStr (bs "m0")   (* base again through r, after l: the last definition in lin wins *)
              /\ get c "cflags" KList = VList [bs "-b"; bs "-l"; bs "-b"; bs "-r"; bs "-t"]
              /\ get c "goos" KStr = VStr (bs "linux")
              /\ get c "rp2040-boot-patch" KBool = VBool true
  | _ => False
  end.
Proof. vm_compute. repeat split; reflexivity. Qed.

Example ex_ranked : ranked ex_db (fun n => if str_eqb n (bs "top") then 2 else if str_eqb n (bs "base") then 0 else 1)%nat.
Proof.
  intros n r p Hlk Hp. unfold ex_db in Hlk. cbn [lookup] in Hlk.
  destruct (str_eqb n (bs "base")) eqn:E1.
  { inversion Hlk; subst r. destruct Hp. }
  destruct (str_eqb n (bs "l")) eqn:E2.
  { apply str_eqb_eq in E2. subst n. inversion Hlk; subst r. destruct Hp as [<-|[]]. vm_compute. lia. }
  destruct (str_eqb n (bs "r")) eqn:E3.
  { apply str_eqb_eq in E3. subst n. inversion Hlk; subst r. destruct Hp as [<-|[]]. vm_compute. lia. }
  destruct (str_eqb n (bs "top")) eqn:E4; [|discriminate].
  apply str_eqb_eq in E4. subst n. inversion Hlk; subst r.
  destruct Hp as [<-|[<-|[]]]; vm_compute; lia.
Qed.
