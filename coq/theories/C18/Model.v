(* C18 - executable model of internal/targets (loader.go, config.go): raw target
   descriptions, the field-by-field merge and the recursive inheritance
   resolution, written the way the Go code is written.  No proofs here.

   Field names are the JSON keys (Coq strings); data (target names, scalar
   values, list elements) are byte lists. *)
From LLGoV Require Export Lib.Common.
From Coq Require Export String.
Local Open Scope string_scope.
Local Open Scope list_scope.

(* byte list of a Coq string literal (the case files written by the check use
   it for printable data: string literals parse much faster than number lists) *)
Definition bs (s : string) : str :=
  map (fun a => N.of_nat (Ascii.nat_of_ascii a)) (list_ascii_of_string s).

(* ---------- Config: field kinds and values ---------- *)

Inductive kind := KStr | KBool | KList.

Inductive value :=
| VStr (s : str)
| VBool (b : bool)
| VList (l : list str).

Definition zero (k : kind) : value :=
  match k with KStr => VStr [] | KBool => VBool false | KList => VList [] end.

(* a value read as kind k: the Go struct field has a fixed type, anything else
   is the zero value *)
Definition coerce (k : kind) (v : value) : value :=
  match k, v with
  | KStr, VStr _ | KBool, VBool _ | KList, VList _ => v
  | _, _ => zero k
  end.

(* The table mirrors mergeConfig field by field (JSON key of the struct field,
   how mergeConfig treats it):
     KStr  : if src.F != empty { dst.F = src.F }
     KBool : if src.F { dst.F = src.F }
     KList : if len(src.F) > 0 { dst.F = append(dst.F, src.F...) }
   Order = order of the fields in type Config.  Name (json:-) is not merged;
   it is the name the description was requested under. *)
Definition table : list (string * kind) := [
  ("llvm-target", KStr); ("cpu", KStr); ("features", KStr);
  ("build-tags", KList); ("goos", KStr); ("goarch", KStr);
  ("libc", KStr); ("rtlib", KStr); ("linker", KStr); ("linkerscript", KStr);
  ("cflags", KList); ("ldflags", KList); ("extra-files", KList);
  ("code-model", KStr); ("target-abi", KStr); ("relocation-model", KStr);
  ("binary-format", KStr); ("uf2-family-id", KStr);
  ("flash-method", KStr); ("flash-command", KStr); ("flash-1200-bps-reset", KStr);
  ("serial", KStr); ("serial-port", KList);
  ("msd-volume-name", KList); ("msd-firmware-name", KStr);
  ("rp2040-boot-patch", KBool);
  ("emulator", KStr); ("gdb", KList);
  ("openocd-interface", KStr); ("openocd-transport", KStr); ("openocd-target", KStr)
].

(* Go field name of every JSON key (only used to compare the table with the one
   extracted from config.go / loader.go by go/ast on every run) *)
Definition go_names : list (string * string) := [
  ("llvm-target", "LLVMTarget"); ("cpu", "CPU"); ("features", "Features");
  ("build-tags", "BuildTags"); ("goos", "GOOS"); ("goarch", "GOARCH");
  ("libc", "Libc"); ("rtlib", "RTLib"); ("linker", "Linker"); ("linkerscript", "LinkerScript");
  ("cflags", "CFlags"); ("ldflags", "LDFlags"); ("extra-files", "ExtraFiles");
  ("code-model", "CodeModel"); ("target-abi", "TargetABI"); ("relocation-model", "RelocationModel");
  ("binary-format", "BinaryFormat"); ("uf2-family-id", "UF2FamilyID");
  ("flash-method", "FlashMethod"); ("flash-command", "FlashCommand");
  ("flash-1200-bps-reset", "Flash1200BpsReset");
  ("serial", "Serial"); ("serial-port", "SerialPort");
  ("msd-volume-name", "MSDVolumeName"); ("msd-firmware-name", "MSDFirmwareName");
  ("rp2040-boot-patch", "RP2040BootPatch");
  ("emulator", "Emulator"); ("gdb", "GDB");
  ("openocd-interface", "OpenOCDInterface"); ("openocd-transport", "OpenOCDTransport");
  ("openocd-target", "OpenOCDTarget")
].

(* a configuration: association list JSON key -> value.  Raw descriptions may
   list any keys in any order (unknown keys are ignored, as encoding/json
   does); resolved configurations are normalised to the table order. *)
Definition cfg := list (string * value).

Fixpoint assoc (c : cfg) (k : string) : option value :=
  match c with
  | [] => None
  | (k', v) :: c' => if String.eqb k k' then Some v else assoc c' k
  end.

Definition get (c : cfg) (k : string) (kd : kind) : value :=
  match assoc c k with Some v => coerce kd v | None => zero kd end.

Definition nonempty {A} (l : list A) : bool := match l with [] => false | _ => true end.

(* one field of mergeConfig: d = dst.F, s = src.F *)
Definition mv (kd : kind) (d s : value) : value :=
  match kd, d, s with
  | KStr, VStr a, VStr b => VStr (if nonempty b then b else a)
  | KBool, VBool a, VBool b => VBool (if b then b else a)
  | KList, VList a, VList b => VList (if nonempty b then a ++ b else a)
  | _, _, _ => zero kd
  end.

Definition merge (dst src : cfg) : cfg :=
  map (fun e => (fst e, mv (snd e) (get dst (fst e) (snd e)) (get src (fst e) (snd e)))) table.

(* what json.Unmarshal leaves in the Config part of a RawConfig *)
Definition norm (c : cfg) : cfg :=
  map (fun e => (fst e, get c (fst e) (snd e))) table.

Definition empty_cfg : cfg := norm [].

(* ---------- raw descriptions and the loader ---------- *)

Record raw := Raw { inherits : list str; fields : cfg }.

(* the targets directory: name -> description (one file per name) *)
Definition db := list (str * raw).

Fixpoint lookup (d : db) (n : str) : option raw :=
  match d with
  | [] => None
  | (n', r) :: d' => if str_eqb n n' then Some r else lookup d' n
  end.

Inductive res :=
| Ok (name : str) (c : cfg)
| ErrMissing (n : str)     (* LoadRaw failed: no such file *)
| ErrCycle (n : str)       (* n is already being resolved (fixed loader only) *)
| OutOfFuel.               (* the recursion did not end within the fuel *)

(* the loop of resolveInheritance over the parents; ld = Loader.Load *)
Fixpoint merge_parents (ld : str -> res) (ps : list str) (acc : cfg) : res + cfg :=
  match ps with
  | [] => inr acc
  | p :: ps' =>
    match ld p with
    | Ok _ c => merge_parents ld ps' (merge acc c)
    | e => inl e
    end
  end.

(* Loader.Load = LoadRaw + resolveInheritance.  As in the Go code there is no
   visiting set: a cyclic inherits chain recurses for ever (here: until the
   fuel is gone). *)
Fixpoint load (fuel : nat) (d : db) (n : str) : res :=
  match fuel with
  | O => OutOfFuel
  | S f =>
    match lookup d n with
    | None => ErrMissing n
    | Some r =>
      match inherits r with
      | [] => Ok n (norm (fields r))                 (* return &raw.Config *)
      | ps =>
        match merge_parents (load f d) ps empty_cfg with
        | inl e => e
        | inr acc => Ok n (merge acc (fields r))
        end
      end
    end
  end.

(* The loader after the fix (fix: report inheritance cycles): load(name, visiting)
   first looks for name in the chain of descriptions being resolved, then reads
   the file, then resolves the parents with name appended to the chain. *)
Definition visited (vis : list str) (n : str) : bool := existsb (str_eqb n) vis.

Fixpoint loadv (fuel : nat) (d : db) (vis : list str) (n : str) : res :=
  match fuel with
  | O => OutOfFuel
  | S f =>
    if visited vis n then ErrCycle n
    else
    match lookup d n with
    | None => ErrMissing n
    | Some r =>
      match inherits r with
      | [] => Ok n (norm (fields r))
      | ps =>
        match merge_parents (loadv f d (n :: vis)) ps empty_cfg with
        | inl e => e
        | inr acc => Ok n (merge acc (fields r))
        end
      end
    end
  end.

(* Resolver.Resolve adds only a check that Name is not empty; Name is the
   requested name, and an empty name reads the file .json.
   fixed = true: the loader with the visiting chain (the code as it is now);
   fixed = false: the loader before the fix, kept for the refutation theorems. *)
Definition resolve (fixed : bool) (fuel : nat) (d : db) (n : str) : res :=
  if fixed then loadv fuel d [] n else load fuel d n.

(* A Loader that is used for several requests keeps a cache of the descriptions
   it has read; LoadRaw looks there first.  cache ++ d is that lookup order.
   upd says which entries a request adds to the cache. *)
Fixpoint run_ops (fuel : nat) (d : db) (upd : db -> str -> db) (cache : db) (ops : list str) : list res :=
  match ops with
  | [] => []
  | n :: ops' => loadv fuel (cache ++ d) [] n :: run_ops fuel d upd (upd cache n) ops'
  end.

(* the requested description is remembered when it exists (LoadRaw: l.cache[name] = &config) *)
Definition cache_requested (d : db) (cache : db) (n : str) : db :=
  match lookup (cache ++ d) n with
  | Some r => (n, r) :: cache
  | None => cache
  end.

(* ---------- the specification side: linearisation ---------- *)

(* lin n = concat (map lin parents) ++ [n], as a relation: Lin d n l holds
   exactly when every description reachable from n exists and the inheritance
   below n is acyclic (the derivation is a finite tree) *)
Inductive Lin (d : db) : str -> list str -> Prop :=
| Lin_node n r l : lookup d n = Some r -> Lins d (inherits r) l -> Lin d n (l ++ [n])
with Lins (d : db) : list str -> list str -> Prop :=
| Lins_nil : Lins d [] []
| Lins_cons p ps l1 l2 : Lin d p l1 -> Lins d ps l2 -> Lins d (p :: ps) (l1 ++ l2).

(* the same as a function; fuel only makes it total *)
Fixpoint lin_parents (ln : str -> option (list str)) (ps : list str) : option (list str) :=
  match ps with
  | [] => Some []
  | p :: ps' =>
    match ln p, lin_parents ln ps' with
    | Some a, Some b => Some (a ++ b)
    | _, _ => None
    end
  end.

Fixpoint lin (fuel : nat) (d : db) (n : str) : option (list str) :=
  match fuel with
  | O => None
  | S f =>
    match lookup d n with
    | None => None
    | Some r =>
      match lin_parents (lin f d) (inherits r) with
      | Some l => Some (l ++ [n])
      | None => None
      end
    end
  end.

(* n is a proper ancestor-or-self reachable through inherits *)
Inductive Anc (d : db) : str -> str -> Prop :=
| Anc_step n r p : lookup d n = Some r -> In p (inherits r) -> Anc d n p
| Anc_trans n m p : Anc d n m -> Anc d m p -> Anc d n p.

Definition raw_cfg (d : db) (n : str) : cfg :=
  match lookup d n with Some r => fields r | None => [] end.

(* the configuration the property text describes: fold the descriptions of the
   linearisation, nearest last *)
Definition fold_spec (d : db) (l : list str) : cfg :=
  fold_left merge (map (raw_cfg d) l) empty_cfg.

(* ---------- boolean equalities for the correspondence ---------- *)

Definition value_eqb (a b : value) : bool :=
  match a, b with
  | VStr x, VStr y => str_eqb x y
  | VBool x, VBool y => Bool.eqb x y
  | VList x, VList y => strs_eqb x y
  | _, _ => false
  end.

Definition cfg_eqb (a b : cfg) : bool :=
  list_eqb (fun x y => String.eqb (fst x) (fst y) && value_eqb (snd x) (snd y)) a b.

(* observed results are compared up to the projection the harness can see:
   the resolved configuration normalised to the table *)
Definition res_eqb (a b : res) : bool :=
  match a, b with
  | Ok n c, Ok n' c' => str_eqb n n' && cfg_eqb (norm c) (norm c')
  | ErrMissing n, ErrMissing n' => str_eqb n n'
  | ErrCycle n, ErrCycle n' => str_eqb n n'
  | OutOfFuel, OutOfFuel => true
  | _, _ => false
  end.

Definition kind_eqb (a b : kind) : bool :=
  match a, b with KStr, KStr | KBool, KBool | KList, KList => true | _, _ => false end.

(* comparison of the field table with the one extracted from the Go source:
   entries are (JSON key, Go field name, kind) *)
Definition table3 : list (string * string * kind) :=
  map (fun e => (fst e, match List.find (fun g => String.eqb (fst g) (fst e)) go_names with
                        | Some g => snd g | None => "" end, snd e)) table.

Definition entry_eqb (a b : string * string * kind) : bool :=
  String.eqb (fst (fst a)) (fst (fst b)) && String.eqb (snd (fst a)) (snd (fst b))
  && kind_eqb (snd a) (snd b).

Definition table_matches (gen : list (string * string * kind)) : bool :=
  Nat.eqb (List.length gen) (List.length table3)
  && forallb (fun e => existsb (entry_eqb e) table3) gen
  && forallb (fun e => existsb (entry_eqb e) gen) table3.

(* ---------- monomorphic constructors for the case files ----------
   (terms without implicit arguments elaborate an order of magnitude faster
   than list/pair notations) *)
Definition kk (i : nat) : string := fst (nth i table (EmptyString, KStr)).   (* i-th key of the table *)
Definition snil : list str := [].
Definition sl (s : string) (r : list str) : list str := bs s :: r.
Definition sn (s : str) (r : list str) : list str := s :: r.
Definition fnil : cfg := [].
Definition fs (k s : string) (r : cfg) : cfg := (k, VStr (bs s)) :: r.
Definition fsn (k : string) (s : str) (r : cfg) : cfg := (k, VStr s) :: r.
Definition fb (k : string) (b : bool) (r : cfg) : cfg := (k, VBool b) :: r.
Definition fl (k : string) (l : list str) (r : cfg) : cfg := (k, VList l) :: r.
Definition dnil : db := [].
Definition dn (name : string) (inh : list str) (f : cfg) (r : db) : db := (bs name, Raw inh f) :: r.
Definition rnil : list res := [].
Definition rok (name : string) (c : cfg) (r : list res) : list res := Ok (bs name) c :: r.
Definition rmiss (name : string) (r : list res) : list res := ErrMissing (bs name) :: r.
Definition rcyc (name : string) (r : list res) : list res := ErrCycle (bs name) :: r.
Definition rloop (r : list res) : list res := OutOfFuel :: r.
Definition mkcase (d : db) (qs : list str) (rs : list res) : (db * list str) * list res := ((d, qs), rs).
Arguments sl _%string _.
Arguments fs _%string _%string _.
Arguments fsn _%string _ _.
Arguments fb _%string _ _.
Arguments fl _%string _ _.
Arguments dn _%string _ _ _.
Arguments rok _%string _ _.
Arguments rmiss _%string _.
Arguments rcyc _%string _.
