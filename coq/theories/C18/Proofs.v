(* C18 - lemmas about the model of internal/targets *)
From LLGoV Require Import C18.Model.
From Coq Require Import Permutation.
Local Open Scope string_scope.
Local Open Scope list_scope.

(* ---------- values of a kind, one field of the merge ---------- *)

Definition has_kind (kd : kind) (v : value) : Prop :=
  match kd, v with
  | KStr, VStr _ | KBool, VBool _ | KList, VList _ => True
  | _, _ => False
  end.

Lemma zero_kind kd : has_kind kd (zero kd).
Proof. destruct kd; exact I. Qed.

Lemma coerce_kind kd v : has_kind kd (coerce kd v).
Proof. destruct kd, v; exact I. Qed.

Lemma coerce_id kd v : has_kind kd v -> coerce kd v = v.
Proof. destruct kd, v; cbn; intuition. Qed.

Lemma get_kind c k kd : has_kind kd (get c k kd).
Proof. unfold get. destruct (assoc c k); [apply coerce_kind | apply zero_kind]. Qed.

Lemma mv_kind kd a b : has_kind kd (mv kd a b).
Proof. destruct kd, a, b; exact I. Qed.

Lemma mv_assoc kd x y z : has_kind kd x -> has_kind kd y -> has_kind kd z ->
  mv kd (mv kd x y) z = mv kd x (mv kd y z).
Proof.
  destruct kd, x, y, z; cbn; try tauto; intros _ _ _.
  - destruct s1, s0; reflexivity.
  - destruct b1, b0; reflexivity.
  - destruct l1, l0; cbn; rewrite ?app_nil_r, <- ?app_assoc; reflexivity.
Qed.

Lemma mv_zero_l kd v : has_kind kd v -> mv kd (zero kd) v = v.
Proof. destruct kd, v; cbn; try tauto; intros _. - now destruct s. - now destruct b. - now destruct l. Qed.

Lemma mv_zero_r kd v : has_kind kd v -> mv kd v (zero kd) = v.
Proof. destruct kd, v; cbn; tauto. Qed.

(* ---------- the table: every key occurs once ---------- *)

Definition first_entry (k : string) := find (fun e : string * kind => String.eqb k (fst e)) table.

Lemma table_first : forall e, In e table -> first_entry (fst e) = Some e.
Proof.
  assert (H : forallb (fun e => match first_entry (fst e) with
                                | Some e' => String.eqb (fst e) (fst e') && kind_eqb (snd e) (snd e')
                                | None => false end) table = true) by (vm_compute; reflexivity).
  intros e He. rewrite forallb_forall in H. specialize (H e He).
  destruct (first_entry (fst e)) as [e'|] eqn:E; [|discriminate].
  apply andb_true_iff in H as [H1 H2]. apply String.eqb_eq in H1.
  destruct e as [k kd], e' as [k' kd']; cbn in *. subst k'.
  destruct kd, kd'; try discriminate; reflexivity.
Qed.

Lemma assoc_map (F : string * kind -> value) (T : list (string * kind)) k :
  assoc (map (fun e => (fst e, F e)) T) k =
  match find (fun e => String.eqb k (fst e)) T with Some e => Some (F e) | None => None end.
Proof.
  induction T as [|e T IH]; cbn; [reflexivity|].
  destruct (String.eqb k (fst e)); [reflexivity | exact IH].
Qed.

Lemma get_map F e : In e table ->
  get (map (fun e => (fst e, F e)) table) (fst e) (snd e) = coerce (snd e) (F e).
Proof.
  intros He. unfold get. rewrite assoc_map. fold (first_entry (fst e)).
  now rewrite (table_first e He).
Qed.

Lemma get_merge a b e : In e table ->
  get (merge a b) (fst e) (snd e) = mv (snd e) (get a (fst e) (snd e)) (get b (fst e) (snd e)).
Proof.
  intros He. unfold merge. rewrite (get_map _ e He). apply coerce_id, mv_kind.
Qed.

Lemma get_norm c e : In e table -> get (norm c) (fst e) (snd e) = get c (fst e) (snd e).
Proof.
  intros He. unfold norm. rewrite (get_map _ e He). apply coerce_id, get_kind.
Qed.

Lemma get_empty k kd : get empty_cfg k kd = zero kd.
Proof.
  unfold empty_cfg, norm, get. rewrite assoc_map.
  destruct (find _ table) as [e|]; [|reflexivity].
  cbn. destruct kd, (snd e); reflexivity.
Qed.

(* ---------- merge is a monoid action on normalised configurations ---------- *)

Lemma merge_assoc a b c : merge (merge a b) c = merge a (merge b c).
Proof.
  unfold merge at 1 3. apply map_ext_in. intros e He. f_equal.
  rewrite !(get_merge _ _ e He). apply mv_assoc; apply get_kind.
Qed.

Lemma merge_empty_l c : merge empty_cfg c = norm c.
Proof.
  unfold merge, norm. apply map_ext_in. intros e He. f_equal.
  rewrite get_empty. apply mv_zero_l, get_kind.
Qed.

Lemma merge_empty_r c : merge c empty_cfg = norm c.
Proof.
  unfold merge, norm. apply map_ext_in. intros e He. f_equal.
  rewrite get_empty. apply mv_zero_r, get_kind.
Qed.

Lemma merge_norm_l a b : merge (norm a) b = merge a b.
Proof.
  unfold merge. apply map_ext_in. intros e He. f_equal. now rewrite (get_norm _ e He).
Qed.

Lemma merge_norm_r a b : merge a (norm b) = merge a b.
Proof.
  unfold merge. apply map_ext_in. intros e He. f_equal. now rewrite (get_norm _ e He).
Qed.

Lemma fold_merge_assoc cs : forall a b,
  merge a (fold_left merge cs b) = fold_left merge cs (merge a b).
Proof.
  induction cs as [|c cs IH]; intros a b; cbn [fold_left]; [reflexivity|].
  rewrite IH. now rewrite merge_assoc.
Qed.

(* merging a folded non-empty chain into acc = continuing the fold from acc *)
Lemma merge_fold_spec d l acc : l <> [] ->
  merge acc (fold_spec d l) = fold_left merge (map (raw_cfg d) l) acc.
Proof.
  intros Hl. unfold fold_spec. rewrite fold_merge_assoc, merge_empty_r.
  destruct l as [|n l]; [congruence|]. cbn [map fold_left]. now rewrite merge_norm_l.
Qed.

(* ---------- resolution = fold over the linearisation ---------- *)

Scheme Lin_ind2 := Induction for Lin Sort Prop
  with Lins_ind2 := Induction for Lins Sort Prop.
Combined Scheme Lin_Lins_ind from Lin_ind2, Lins_ind2.

Lemma Lin_nonempty d n l : Lin d n l -> l <> [].
Proof. intros H; inversion H; subst. now destruct l0. Qed.

Lemma load_lin d :
  (forall n l, Lin d n l -> forall fuel, (fuel > List.length l)%nat ->
      load fuel d n = Ok n (fold_spec d l)) /\
  (forall ps l, Lins d ps l -> forall fuel, (fuel > List.length l)%nat -> forall acc,
      merge_parents (load fuel d) ps acc = inr (fold_left merge (map (raw_cfg d) l) acc)).
Proof.
  apply Lin_Lins_ind.
  - intros n r l Hlk HL IH fuel Hf.
    destruct fuel as [|f]; [inversion Hf|]. cbn [load]. rewrite Hlk.
    rewrite app_length in Hf; cbn in Hf.
    assert (Hspec : fold_spec d (l ++ [n]) = merge (fold_left merge (map (raw_cfg d) l) empty_cfg) (fields r)).
    { unfold fold_spec. rewrite map_app, fold_left_app. cbn [map fold_left].
      replace (raw_cfg d n) with (fields r) by (unfold raw_cfg; now rewrite Hlk). reflexivity. }
    destruct (inherits r) as [|p ps] eqn:Ei.
    + inversion HL; subst. cbn [map fold_left] in Hspec. rewrite Hspec. now rewrite merge_empty_l.
    + rewrite (IH f ltac:(lia) empty_cfg). now rewrite Hspec.
  - intros fuel _ acc. reflexivity.
  - intros p ps l1 l2 H1 IH1 H2 IH2 fuel Hf acc.
    rewrite app_length in Hf. cbn [merge_parents].
    rewrite (IH1 fuel ltac:(lia)).
    rewrite (IH2 fuel ltac:(lia)).
    rewrite map_app, fold_left_app.
    now rewrite (merge_fold_spec d l1 acc (Lin_nonempty _ _ _ H1)).
Qed.

Lemma resolve_lin d n l fuel : Lin d n l -> (fuel > List.length l)%nat ->
  resolve false fuel d n = Ok n (fold_spec d l).
Proof. intros H Hf. exact (proj1 (load_lin d) n l H fuel Hf). Qed.

(* the functional linearisation agrees with the relation *)
Lemma lin_Lin d : forall fuel n l, lin fuel d n = Some l -> Lin d n l.
Proof.
  induction fuel as [|f IH]; intros n l; cbn; [discriminate|].
  destruct (lookup d n) as [r|] eqn:Hlk; [|discriminate].
  destruct (lin_parents (lin f d) (inherits r)) as [lp|] eqn:Ep; [|discriminate].
  intros E; inversion E; subst; clear E.
  apply Lin_node with r; [exact Hlk|].
  revert lp Ep. induction (inherits r) as [|p ps IHp]; intros lp; cbn.
  - intros E; inversion E. constructor.
  - destruct (lin f d p) as [a|] eqn:Ea; [|discriminate].
    destruct (lin_parents (lin f d) ps) as [b|] eqn:Eb; [|discriminate].
    intros E; inversion E; subst. constructor; auto.
Qed.

(* ---------- what a field of the folded configuration is ---------- *)

Lemma get_fold cs e : In e table -> forall acc,
  get (fold_left merge cs acc) (fst e) (snd e) =
  fold_left (mv (snd e)) (map (fun c => get c (fst e) (snd e)) cs) (get acc (fst e) (snd e)).
Proof.
  intros He. induction cs as [|c cs IH]; intros acc; cbn [fold_left map]; [reflexivity|].
  rewrite IH. rewrite (get_merge _ _ e He). reflexivity.
Qed.

Definition str_of (v : value) : str := match v with VStr s => s | _ => [] end.
Definition bool_of (v : value) : bool := match v with VBool b => b | _ => false end.
Definition list_of (v : value) : list str := match v with VList l => l | _ => [] end.

(* the value of the nearest (= last in the linearisation) description that
   defines the setting; empty when none does *)
Definition nearest (vs : list str) : str :=
  match find nonempty (rev vs) with Some v => v | None => [] end.

Lemma fold_mv_list vs : forall a,
  Forall (has_kind KList) vs ->
  fold_left (mv KList) vs (VList a) = VList (a ++ List.concat (map list_of vs)).
Proof.
  induction vs as [|v vs IH]; intros a Hk; cbn; [now rewrite app_nil_r|].
  inversion Hk as [|? ? Hv Hvs]; subst. destruct v; cbn in Hv; try tauto.
  cbn [mv]. replace (if nonempty l then a ++ l else a) with (a ++ l)
    by (destruct l; cbn; now rewrite ?app_nil_r).
  rewrite (IH _ Hvs). cbn. now rewrite app_assoc.
Qed.

Lemma nearest_snoc vs v : nearest (vs ++ [v]) = if nonempty v then v else nearest vs.
Proof. unfold nearest. rewrite rev_app_distr. cbn. now destruct (nonempty v). Qed.

Lemma fold_mv_str vs : forall a,
  Forall (has_kind KStr) vs ->
  fold_left (mv KStr) vs (VStr a) =
  VStr (match find nonempty (rev (map str_of vs)) with Some v => v | None => a end).
Proof.
  induction vs as [|v vs IH] using rev_ind; intros a Hk; cbn; [reflexivity|].
  apply Forall_app in Hk as [Hvs Hv]. inversion Hv as [|? ? Hv' _]; subst.
  destruct v; cbn in Hv'; try tauto.
  rewrite fold_left_app. cbn [fold_left]. rewrite (IH a Hvs).
  rewrite map_app, rev_app_distr. cbn. destruct s; reflexivity.
Qed.

Lemma fold_mv_bool vs : forall a,
  Forall (has_kind KBool) vs ->
  fold_left (mv KBool) vs (VBool a) = VBool (a || existsb bool_of vs).
Proof.
  induction vs as [|v vs IH]; intros a Hk; cbn; [now rewrite orb_false_r|].
  inversion Hk as [|? ? Hv Hvs]; subst. destruct v; cbn in Hv; try tauto.
  cbn [mv]. rewrite (IH _ Hvs). cbn. destruct b, a; reflexivity.
Qed.

Lemma gets_kind d k kd l : Forall (has_kind kd) (map (fun c => get c k kd) (map (raw_cfg d) l)).
Proof. apply Forall_forall. intros v Hv. apply in_map_iff in Hv as [c [<- _]]. apply get_kind. Qed.

Lemma spec_list d l k : In (k, KList) table ->
  get (fold_spec d l) k KList = VList (List.concat (map (fun n => list_of (get (raw_cfg d n) k KList)) l)).
Proof.
  intros He. unfold fold_spec. rewrite (get_fold _ (k, KList) He). cbn [fst snd].
  rewrite get_empty. cbn [zero]. rewrite fold_mv_list by apply gets_kind.
  cbn. now rewrite !map_map.
Qed.

Lemma spec_str d l k : In (k, KStr) table ->
  get (fold_spec d l) k KStr = VStr (nearest (map (fun n => str_of (get (raw_cfg d n) k KStr)) l)).
Proof.
  intros He. unfold fold_spec. rewrite (get_fold _ (k, KStr) He). cbn [fst snd].
  rewrite get_empty. cbn [zero]. rewrite fold_mv_str by apply gets_kind.
  unfold nearest. now rewrite !map_map.
Qed.

Lemma spec_bool d l k : In (k, KBool) table ->
  get (fold_spec d l) k KBool = VBool (existsb (fun n => bool_of (get (raw_cfg d n) k KBool)) l).
Proof.
  intros He. unfold fold_spec. rewrite (get_fold _ (k, KBool) He). cbn [fst snd].
  rewrite get_empty. cbn [zero]. rewrite fold_mv_bool by apply gets_kind.
  cbn. f_equal. induction l as [|n l IH]; cbn; [reflexivity|]. now rewrite IH.
Qed.

(* ---------- fuel ---------- *)

Lemma merge_parents_mono (ld ld' : str -> res) :
  (forall p, ld p <> OutOfFuel -> ld' p = ld p) ->
  forall ps acc, merge_parents ld ps acc <> inl OutOfFuel ->
                 merge_parents ld' ps acc = merge_parents ld ps acc.
Proof.
  intros H. induction ps as [|p ps IH]; intros acc; cbn; [reflexivity|].
  destruct (ld p) as [n c| m | m |] eqn:E; intros Hne.
  - rewrite (H p) by (rewrite E; discriminate). rewrite E. now apply IH.
  - rewrite (H p) by (rewrite E; discriminate). now rewrite E.
  - rewrite (H p) by (rewrite E; discriminate). now rewrite E.
  - congruence.
Qed.

Lemma load_S d : forall fuel n, load fuel d n <> OutOfFuel -> load (S fuel) d n = load fuel d n.
Proof.
  induction fuel as [|f IH]; intros n; [cbn; congruence|].
  remember (S f) as sf. cbn [load]. subst sf. cbn [load].
  destruct (lookup d n) as [r|]; [|reflexivity].
  destruct (inherits r) as [|p ps]; [reflexivity|].
  intros Hne.
  rewrite (merge_parents_mono (load f d) (load (S f) d) IH).
  - reflexivity.
  - intros E. rewrite E in Hne. congruence.
Qed.

Lemma load_mono d n fuel fuel' : (fuel <= fuel')%nat -> load fuel d n <> OutOfFuel ->
  load fuel' d n = load fuel d n.
Proof.
  induction 1 as [|m Hle IH]; intros Hne; [reflexivity|].
  rewrite load_S; [now apply IH|]. rewrite IH; auto.
Qed.

(* ---------- the result depends on the description set only through lookup ---------- *)

Lemma merge_parents_ext (ld ld' : str -> res) : (forall p, ld p = ld' p) ->
  forall ps acc, merge_parents ld ps acc = merge_parents ld' ps acc.
Proof.
  intros H. induction ps as [|p ps IH]; intros acc; cbn; [reflexivity|].
  rewrite H. destruct (ld' p); auto.
Qed.

Lemma load_ext d d' : (forall n, lookup d n = lookup d' n) ->
  forall fuel n, load fuel d n = load fuel d' n.
Proof.
  intros H. induction fuel as [|f IH]; intros n; cbn [load]; [reflexivity|].
  rewrite H. destruct (lookup d' n) as [r|]; [|reflexivity].
  destruct (inherits r) as [|p ps]; [reflexivity|].
  now rewrite (merge_parents_ext _ _ IH).
Qed.

Lemma str_eqb_refl a : str_eqb a a = true.
Proof. apply list_eqb_refl. apply N.eqb_refl. Qed.

Lemma lookup_notin d n : ~ In n (map fst d) -> lookup d n = None.
Proof.
  induction d as [|[m r] d IH]; cbn; [reflexivity|]. intros H.
  destruct (str_eqb n m) eqn:E.
  - apply str_eqb_eq in E. subst. tauto.
  - apply IH. tauto.
Qed.

Lemma lookup_perm d d' : Permutation d d' -> NoDup (map fst d) ->
  forall n, lookup d n = lookup d' n.
Proof.
  induction 1 as [| [m r] d d' HP IH | [m1 r1] [m2 r2] d | d1 d2 d3 H1 IH1 H2 IH2]; intros ND n.
  - reflexivity.
  - cbn. inversion ND; subst. destruct (str_eqb n m); auto.
  - cbn. destruct (str_eqb n m2) eqn:E2, (str_eqb n m1) eqn:E1; try reflexivity.
    apply str_eqb_eq in E1, E2. subst. cbn in ND. inversion ND as [|? ? Hn _]; subst.
    exfalso. apply Hn. now left.
  - rewrite IH1 by exact ND. apply IH2.
    eapply Permutation_NoDup; [|exact ND]. now apply Permutation_map.
Qed.

Lemma load_perm d d' fuel n : Permutation d d' -> NoDup (map fst d) ->
  load fuel d n = load fuel d' n.
Proof. intros HP ND. apply load_ext. now apply lookup_perm. Qed.

(* ---------- errors ---------- *)

(* an error names a description that does not exist and that was reached
   from the request *)
Lemma merge_parents_err (ld : str -> res) ps : forall acc e,
  merge_parents ld ps acc = inl e -> exists p, In p ps /\ ld p = e /\ (forall n c, e <> Ok n c).
Proof.
  induction ps as [|p ps IH]; intros acc e; cbn; [discriminate|].
  destruct (ld p) as [n c| m | m |] eqn:E.
  - intros H. destruct (IH _ _ H) as [q [Hq Hr]]. exists q. split; [now right | exact Hr].
  - intros H; inversion H; subst. exists p. repeat split; auto; discriminate.
  - intros H; inversion H; subst. exists p. repeat split; auto; discriminate.
  - intros H; inversion H; subst. exists p. repeat split; auto; discriminate.
Qed.

Lemma load_err_sound d : forall fuel n m, load fuel d n = ErrMissing m ->
  lookup d m = None /\ (m = n \/ Anc d n m).
Proof.
  induction fuel as [|f IH]; intros n m; cbn [load]; [discriminate|].
  destruct (lookup d n) as [r|] eqn:Hlk.
  - destruct (inherits r) as [|p ps] eqn:Ei; [discriminate|].
    destruct (merge_parents (load f d) (p :: ps) empty_cfg) as [e|acc] eqn:Em; [|discriminate].
    intros ->. apply merge_parents_err in Em as [q [Hq [Hl _]]].
    destruct (IH _ _ Hl) as [Hn Hr]. split; [exact Hn|]. right.
    assert (Hs : Anc d n q) by (apply Anc_step with r; [exact Hlk | now rewrite Ei]).
    destruct Hr as [-> | Hr]; [exact Hs | now apply Anc_trans with q].
  - intros E; inversion E; subst. auto.
Qed.

Lemma merge_parents_ok (ld : str -> res) ps : forall acc acc',
  merge_parents ld ps acc = inr acc' -> forall p, In p ps -> exists n c, ld p = Ok n c.
Proof.
  induction ps as [|p ps IH]; intros acc acc'; cbn; [intros _ q []|].
  destruct (ld p) as [n c| m | m |] eqn:E; try discriminate.
  intros H q [<- | Hq]; [eauto | eapply IH; eauto].
Qed.

Lemma load_ok_lin d : forall fuel n n' c, load fuel d n = Ok n' c -> exists l, Lin d n l.
Proof.
  induction fuel as [|f IH]; intros n n' c; cbn [load]; [discriminate|].
  destruct (lookup d n) as [r|] eqn:Hlk; [|discriminate].
  assert (HL : (forall p, In p (inherits r) -> exists l, Lin d p l) -> exists l, Lin d n l).
  { intros Hp. assert (exists lp, Lins d (inherits r) lp) as [lp Hlp].
    { clear Hlk. induction (inherits r) as [|p ps IHp]; [exists []; constructor|].
      destruct (Hp p (or_introl eq_refl)) as [l1 H1].
      destruct IHp as [l2 H2]; [intros q Hq; apply Hp; now right|].
      exists (l1 ++ l2). now constructor. }
    exists (lp ++ [n]). now apply Lin_node with r. }
  destruct (inherits r) as [|p ps] eqn:Ei.
  - intros _. apply HL. intros q [].
  - destruct (merge_parents (load f d) (p :: ps) empty_cfg) as [e|acc] eqn:Em.
    + intros ->. apply merge_parents_err in Em as [q [_ [_ Hno]]]. exfalso. eapply Hno; reflexivity.
    + intros _. apply HL. intros q Hq.
      destruct (merge_parents_ok _ _ _ _ Em q Hq) as [n1 [c1 E1]]. eapply IH; eauto.
Qed.

Lemma load_ok_name d : forall fuel n n' c, load fuel d n = Ok n' c -> n' = n.
Proof.
  destruct fuel as [|f]; intros n n' c; cbn [load]; [discriminate|].
  destruct (lookup d n) as [r|]; [|discriminate].
  destruct (inherits r) as [|p ps]; [now intros E; inversion E|].
  destruct (merge_parents _ _ _) as [e|acc] eqn:Em.
  - intros ->. apply merge_parents_err in Em as [q [_ [_ Hno]]]. exfalso. eapply Hno; reflexivity.
  - now intros E; inversion E.
Qed.

(* Lin below n: every ancestor has a strictly shorter linearisation *)
Lemma Lins_in d ps l : Lins d ps l -> forall p, In p ps -> exists l', Lin d p l' /\ (List.length l' <= List.length l)%nat.
Proof.
  induction 1 as [|p ps l1 l2 H1 H2 IH]; intros q; [intros []|].
  intros [<- | Hq].
  - exists l1. split; [exact H1 | rewrite app_length; lia].
  - destruct (IH q Hq) as [l' [Hl Hlen]]. exists l'. split; [exact Hl | rewrite app_length; lia].
Qed.

Lemma Lin_anc d : forall n p, Anc d n p -> forall l, Lin d n l ->
  exists l', Lin d p l' /\ (List.length l' < List.length l)%nat.
Proof.
  induction 1 as [n r p Hlk Hp | n m p _ IH1 _ IH2]; intros l HL.
  - inversion HL as [n0 r0 l0 Hlk0 HLs]; subst. rewrite Hlk in Hlk0. inversion Hlk0; subst.
    destruct (Lins_in _ _ _ HLs p Hp) as [l' [Hl Hlen]].
    exists l'. split; [exact Hl | rewrite app_length; cbn; lia].
  - destruct (IH1 l HL) as [l1 [H1 Hlen1]]. destruct (IH2 l1 H1) as [l2 [H2 Hlen2]].
    exists l2. split; [exact H2 | lia].
Qed.

Lemma Lin_acyclic d n l : Lin d n l -> ~ Anc d n n.
Proof.
  remember (List.length l) as k eqn:Ek. revert n l Ek.
  induction k as [k IH] using lt_wf_ind. intros n l -> HL HA.
  destruct (Lin_anc d n n HA l HL) as [l' [HL' Hlen]].
  exact (IH (List.length l') Hlen n l' eq_refl HL' HA).
Qed.

Lemma Lin_lookup d n l : Lin d n l -> lookup d n <> None.
Proof. intros H; inversion H; subst. congruence. Qed.

(* the loader before the fix never reports a cycle *)
Lemma load_no_cycle d : forall fuel n m, load fuel d n <> ErrCycle m.
Proof.
  induction fuel as [|f IH]; intros n m; cbn [load]; [discriminate|].
  destruct (lookup d n) as [r|]; [|discriminate].
  destruct (inherits r) as [|p ps]; [discriminate|].
  destruct (merge_parents (load f d) (p :: ps) empty_cfg) as [e|acc] eqn:Em; [|discriminate].
  intros ->. apply merge_parents_err in Em as [q [_ [Hq _]]]. exact (IH _ _ Hq).
Qed.

(* a cyclic request never produces a configuration *)
Lemma cyclic_never_ok d n : Anc d n n -> forall fuel n' c, load fuel d n <> Ok n' c.
Proof.
  intros HA fuel n' c E. destruct (load_ok_lin _ _ _ _ _ E) as [l HL].
  exact (Lin_acyclic _ _ _ HL HA).
Qed.

(* ... and when every description it reaches exists it never produces an error either *)
Lemma cyclic_closed_loops d n :
  Anc d n n -> (forall m, Anc d n m -> lookup d m <> None) ->
  forall fuel, load fuel d n = OutOfFuel.
Proof.
  intros HA Hclosed fuel. destruct (load fuel d n) as [n' c | m | m |] eqn:E.
  - exfalso. exact (cyclic_never_ok d n HA fuel n' c E).
  - exfalso. destruct (load_err_sound _ _ _ _ E) as [Hn [-> | Hr]].
    + exact (Hclosed n HA Hn).
    + exact (Hclosed m Hr Hn).
  - exfalso. exact (load_no_cycle _ _ _ _ E).
  - reflexivity.
Qed.

(* acyclic (ranked) description sets: resolution always ends *)
Definition ranked (d : db) (rk : str -> nat) : Prop :=
  forall n r p, lookup d n = Some r -> In p (inherits r) -> (rk p < rk n)%nat.

Lemma merge_parents_fuel (ld : str -> res) ps : forall acc,
  (forall p, In p ps -> ld p <> OutOfFuel) -> merge_parents ld ps acc <> inl OutOfFuel.
Proof.
  induction ps as [|p ps IH]; intros acc H; cbn; [discriminate|].
  destruct (ld p) as [n c| m | m |] eqn:E.
  - apply IH. intros q Hq. apply H. now right.
  - discriminate.
  - discriminate.
  - exfalso. apply (H p); auto. now left.
Qed.

Lemma ranked_terminates d rk : ranked d rk ->
  forall fuel n, (fuel > rk n)%nat -> load fuel d n <> OutOfFuel.
Proof.
  intros HR. induction fuel as [|f IH]; intros n Hf; [inversion Hf|]. cbn [load].
  destruct (lookup d n) as [r|] eqn:Hlk; [|discriminate].
  destruct (inherits r) as [|p ps] eqn:Ei; [discriminate|].
  destruct (merge_parents (load f d) (p :: ps) empty_cfg) as [e|acc] eqn:Em; [|discriminate].
  intros ->. revert Em. apply merge_parents_fuel. intros q Hq. apply IH.
  specialize (HR n r q Hlk). rewrite Ei in HR. specialize (HR Hq). lia.
Qed.

Lemma Lin_anc_exists d n l m : Lin d n l -> Anc d n m -> lookup d m <> None.
Proof.
  intros HL HA. destruct (Lin_anc d n m HA l HL) as [l' [HL' _]]. exact (Lin_lookup _ _ _ HL').
Qed.

Lemma missing_errors d rk n m fuel : ranked d rk -> (m = n \/ Anc d n m) -> lookup d m = None ->
  (fuel > rk n)%nat -> exists m', load fuel d n = ErrMissing m' /\ lookup d m' = None.
Proof.
  intros HR Hm Hn Hf. destruct (load fuel d n) as [n' c | m' | m' |] eqn:E.
  - exfalso. destruct (load_ok_lin _ _ _ _ _ E) as [l HL]. destruct Hm as [-> | HA].
    + exact (Lin_lookup _ _ _ HL Hn).
    + exact (Lin_anc_exists _ _ _ _ HL HA Hn).
  - exists m'. split; [reflexivity|]. exact (proj1 (load_err_sound _ _ _ _ E)).
  - exfalso. exact (load_no_cycle _ _ _ _ E).
  - exfalso. exact (ranked_terminates d rk HR fuel n Hf E).
Qed.

(* ---------- the witnesses ---------- *)

Definition name_a : str := [97%N].
Definition name_b : str := [98%N].
Definition db_self : db := [(name_a, Raw [name_a] [("cpu", VStr [120%N])])].
Definition db_two : db := [(name_a, Raw [name_b] [("cpu", VStr [120%N])]);
                           (name_b, Raw [name_a] [("cflags", VList [[45%N; 103%N]])])].

Lemma self_cycle_loops : forall fuel, load fuel db_self name_a = OutOfFuel.
Proof.
  apply cyclic_closed_loops.
  - apply Anc_step with (Raw [name_a] [("cpu", VStr [120%N])]); [reflexivity | now left].
  - assert (forall x y, Anc db_self x y -> x = name_a -> y = name_a) as H.
    { induction 1 as [n r p Hlk Hp | n m p _ IH1 _ IH2]; intros ->.
      - cbn in Hlk. inversion Hlk; subst. cbn in Hp. destruct Hp as [<- | []]. reflexivity.
      - apply IH2, IH1. reflexivity. }
    intros m Hm. rewrite (H _ _ Hm eq_refl). discriminate.
Qed.

Lemma two_cycle_loops : forall fuel, load fuel db_two name_a = OutOfFuel.
Proof.
  assert (forall fuel, load fuel db_two name_a = OutOfFuel /\ load fuel db_two name_b = OutOfFuel) as H.
  { induction fuel as [|f [IHa IHb]]; [split; reflexivity|].
    split; cbn [load lookup db_two]; cbn; [now rewrite IHb | now rewrite IHa]. }
  intros fuel. apply H.
Qed.

(* ====================================================================== *)
(* the loader with the visiting chain (after the fix)                      *)
(* ====================================================================== *)

Lemma visited_true vis n : visited vis n = true -> In n vis.
Proof.
  unfold visited. intros H. apply existsb_exists in H as [x [Hx E]].
  apply str_eqb_eq in E. now subst.
Qed.

Lemma visited_false vis n : ~ In n vis -> visited vis n = false.
Proof.
  intros H. destruct (visited vis n) eqn:E; [|reflexivity]. now apply visited_true in E.
Qed.

Lemma Lin_members d :
  (forall n l, Lin d n l -> forall x, In x l -> x = n \/ Anc d n x) /\
  (forall ps l, Lins d ps l -> forall x, In x l -> exists p, In p ps /\ (x = p \/ Anc d p x)).
Proof.
  apply Lin_Lins_ind.
  - intros n r l Hlk HL IH x Hx. apply in_app_or in Hx as [Hx | [<- | []]]; [|now left].
    right. destruct (IH x Hx) as [p [Hp [-> | HA]]].
    + now apply Anc_step with r.
    + apply Anc_trans with p; [now apply Anc_step with r | exact HA].
  - intros x [].
  - intros p ps l1 l2 H1 IH1 H2 IH2 x Hx. apply in_app_or in Hx as [Hx | Hx].
    + exists p. split; [now left | now apply IH1].
    + destruct (IH2 x Hx) as [q [Hq Hr]]. exists q. split; [now right | exact Hr].
Qed.

Lemma loadv_lin d :
  (forall n l, Lin d n l -> forall fuel vis, (fuel > List.length l)%nat ->
      (forall v, In v vis -> ~ In v l) ->
      loadv fuel d vis n = Ok n (fold_spec d l)) /\
  (forall ps l, Lins d ps l -> forall fuel vis, (fuel > List.length l)%nat ->
      (forall v, In v vis -> ~ In v l) -> forall acc,
      merge_parents (loadv fuel d vis) ps acc = inr (fold_left merge (map (raw_cfg d) l) acc)).
Proof.
  apply Lin_Lins_ind.
  - intros n r l Hlk HL IH fuel vis Hf Hvis.
    destruct fuel as [|f]; [inversion Hf|]. cbn [loadv].
    rewrite visited_false by (intros Hin; apply (Hvis n Hin); apply in_or_app; right; now left).
    rewrite Hlk. rewrite app_length in Hf; cbn in Hf.
    assert (Hspec : fold_spec d (l ++ [n]) = merge (fold_left merge (map (raw_cfg d) l) empty_cfg) (fields r)).
    { unfold fold_spec. rewrite map_app, fold_left_app. cbn [map fold_left].
      replace (raw_cfg d n) with (fields r) by (unfold raw_cfg; now rewrite Hlk). reflexivity. }
    destruct (inherits r) as [|p ps] eqn:Ei.
    + inversion HL; subst. cbn [map fold_left] in Hspec. rewrite Hspec. now rewrite merge_empty_l.
    + rewrite (IH f (n :: vis) ltac:(lia)); [now rewrite Hspec|].
      intros v [<- | Hv] Hin.
      * (* n in the linearisation of its own parents: a cycle *)
        assert (HLn : Lin d n (l ++ [n])) by (apply Lin_node with r; [exact Hlk | now rewrite Ei]).
        apply (Lin_acyclic _ _ _ HLn).
        destruct (proj2 (Lin_members d) _ _ HL n Hin) as [q [Hq [-> | HA]]].
        -- apply Anc_step with r; [exact Hlk | now rewrite Ei].
        -- apply Anc_trans with q; [apply Anc_step with r; [exact Hlk | now rewrite Ei] | exact HA].
      * apply (Hvis v Hv). apply in_or_app. now left.
  - intros fuel vis _ _ acc. reflexivity.
  - intros p ps l1 l2 H1 IH1 H2 IH2 fuel vis Hf Hvis acc.
    rewrite app_length in Hf. cbn [merge_parents].
    rewrite (IH1 fuel vis ltac:(lia)) by (intros v Hv Hin; apply (Hvis v Hv); apply in_or_app; now left).
    rewrite (IH2 fuel vis ltac:(lia)) by (intros v Hv Hin; apply (Hvis v Hv); apply in_or_app; now right).
    rewrite map_app, fold_left_app.
    now rewrite (merge_fold_spec d l1 acc (Lin_nonempty _ _ _ H1)).
Qed.

Lemma resolve_fixed_lin d n l fuel : Lin d n l -> (fuel > List.length l)%nat ->
  resolve true fuel d n = Ok n (fold_spec d l).
Proof. intros H Hf. apply (proj1 (loadv_lin d) n l H fuel [] Hf). intros v []. Qed.

Lemma loadv_S d : forall fuel vis n, loadv fuel d vis n <> OutOfFuel -> loadv (S fuel) d vis n = loadv fuel d vis n.
Proof.
  induction fuel as [|f IH]; intros vis n; [cbn; congruence|].
  remember (S f) as sf. cbn [loadv]. subst sf. cbn [loadv].
  destruct (visited vis n); [reflexivity|].
  destruct (lookup d n) as [r|]; [|reflexivity].
  destruct (inherits r) as [|p ps]; [reflexivity|].
  intros Hne.
  rewrite (merge_parents_mono (loadv f d (n :: vis)) (loadv (S f) d (n :: vis)) (IH (n :: vis))).
  - reflexivity.
  - intros E. rewrite E in Hne. congruence.
Qed.

Lemma loadv_mono d vis n fuel fuel' : (fuel <= fuel')%nat -> loadv fuel d vis n <> OutOfFuel ->
  loadv fuel' d vis n = loadv fuel d vis n.
Proof.
  induction 1 as [|m Hle IH]; intros Hne; [reflexivity|].
  rewrite loadv_S; [now apply IH|]. rewrite IH; auto.
Qed.

Lemma loadv_ext d d' : (forall n, lookup d n = lookup d' n) ->
  forall fuel vis n, loadv fuel d vis n = loadv fuel d' vis n.
Proof.
  intros H. induction fuel as [|f IH]; intros vis n; cbn [loadv]; [reflexivity|].
  destruct (visited vis n); [reflexivity|].
  rewrite H. destruct (lookup d' n) as [r|]; [|reflexivity].
  destruct (inherits r) as [|p ps]; [reflexivity|].
  now rewrite (merge_parents_ext _ _ (IH (n :: vis))).
Qed.

(* errors of the fixed loader: vis is a chain of descriptions that all reach n *)
Lemma loadv_err_sound d : forall fuel vis n, (forall v, In v vis -> Anc d v n) ->
  (forall m, loadv fuel d vis n = ErrMissing m -> lookup d m = None /\ (m = n \/ Anc d n m)) /\
  (forall m, loadv fuel d vis n = ErrCycle m -> Anc d m m /\ (m = n \/ Anc d n m)).
Proof.
  induction fuel as [|f IH]; intros vis n Hvis; cbn [loadv]; [split; discriminate|].
  destruct (visited vis n) eqn:Ev.
  { split; [discriminate|]. intros m E; inversion E; subst. split; [|now left].
    apply Hvis. now apply visited_true. }
  destruct (lookup d n) as [r|] eqn:Hlk; [|split; [intros m E; inversion E; subst; auto | discriminate]].
  destruct (inherits r) as [|p ps] eqn:Ei; [split; discriminate|].
  assert (Hchain : forall q, In q (p :: ps) -> forall v, In v (n :: vis) -> Anc d v q).
  { intros q Hq v [<- | Hv].
    - apply Anc_step with r; [exact Hlk | now rewrite Ei].
    - apply Anc_trans with n; [now apply Hvis | apply Anc_step with r; [exact Hlk | now rewrite Ei]]. }
  destruct (merge_parents (loadv f d (n :: vis)) (p :: ps) empty_cfg) as [e|acc] eqn:Em; [|split; discriminate].
  apply merge_parents_err in Em as [q [Hq [Hl _]]].
  assert (Hs : Anc d n q) by (apply Anc_step with r; [exact Hlk | now rewrite Ei]).
  destruct (IH (n :: vis) q (Hchain q Hq)) as [IHm IHc].
  split; intros m ->.
  - destruct (IHm m Hl) as [Hn Hr]. split; [exact Hn|]. right.
    destruct Hr as [-> | Hr]; [exact Hs | now apply Anc_trans with q].
  - destruct (IHc m Hl) as [Hn Hr]. split; [exact Hn|]. right.
    destruct Hr as [-> | Hr]; [exact Hs | now apply Anc_trans with q].
Qed.

Lemma loadv_ok_lin d : forall fuel vis n n' c, loadv fuel d vis n = Ok n' c -> exists l, Lin d n l.
Proof.
  induction fuel as [|f IH]; intros vis n n' c; cbn [loadv]; [discriminate|].
  destruct (visited vis n); [discriminate|].
  destruct (lookup d n) as [r|] eqn:Hlk; [|discriminate].
  assert (HL : (forall p, In p (inherits r) -> exists l, Lin d p l) -> exists l, Lin d n l).
  { intros Hp. assert (exists lp, Lins d (inherits r) lp) as [lp Hlp].
    { clear Hlk. induction (inherits r) as [|p ps IHp]; [exists []; constructor|].
      destruct (Hp p (or_introl eq_refl)) as [l1 H1].
      destruct IHp as [l2 H2]; [intros q Hq; apply Hp; now right|].
      exists (l1 ++ l2). now constructor. }
    exists (lp ++ [n]). now apply Lin_node with r. }
  destruct (inherits r) as [|p ps] eqn:Ei.
  - intros _. apply HL. intros q [].
  - destruct (merge_parents (loadv f d (n :: vis)) (p :: ps) empty_cfg) as [e|acc] eqn:Em.
    + intros ->. apply merge_parents_err in Em as [q [_ [_ Hno]]]. exfalso. eapply Hno; reflexivity.
    + intros _. apply HL. intros q Hq.
      destruct (merge_parents_ok _ _ _ _ Em q Hq) as [n1 [c1 E1]]. eapply IH; eauto.
Qed.

Lemma loadv_ok_name d : forall fuel vis n n' c, loadv fuel d vis n = Ok n' c -> n' = n.
Proof.
  destruct fuel as [|f]; intros vis n n' c; cbn [loadv]; [discriminate|].
  destruct (visited vis n); [discriminate|].
  destruct (lookup d n) as [r|]; [|discriminate].
  destruct (inherits r) as [|p ps]; [now intros E; inversion E|].
  destruct (merge_parents _ _ _) as [e|acc] eqn:Em.
  - intros ->. apply merge_parents_err in Em as [q [_ [_ Hno]]]. exfalso. eapply Hno; reflexivity.
  - now intros E; inversion E.
Qed.

Lemma lookup_in d n r : lookup d n = Some r -> In n (map fst d).
Proof.
  induction d as [|[m r'] d IH]; cbn; [discriminate|].
  destruct (str_eqb n m) eqn:E; [apply str_eqb_eq in E; now left | intros H; right; now apply IH].
Qed.

(* the fixed loader always ends: the chain cannot be longer than the description set *)
Lemma loadv_terminates d : forall fuel vis n,
  NoDup vis -> incl vis (map fst d) -> (fuel + List.length vis > List.length d)%nat ->
  loadv fuel d vis n <> OutOfFuel.
Proof.
  induction fuel as [|f IH]; intros vis n ND Hincl Hf.
  - exfalso. pose proof (NoDup_incl_length ND Hincl) as Hlen. rewrite map_length in Hlen. cbn in Hf. lia.
  - cbn [loadv]. destruct (visited vis n) eqn:Ev; [discriminate|].
    destruct (lookup d n) as [r|] eqn:Hlk; [|discriminate].
    destruct (inherits r) as [|p ps] eqn:Ei; [discriminate|].
    destruct (merge_parents (loadv f d (n :: vis)) (p :: ps) empty_cfg) as [e|acc] eqn:Em; [|discriminate].
    intros ->. revert Em. apply merge_parents_fuel. intros q Hq. apply IH.
    + constructor; [|exact ND]. intros Hin. assert (visited vis n = true); [|congruence].
      unfold visited. apply existsb_exists. exists n. split; [exact Hin | apply str_eqb_refl].
    + intros x [<- | Hx]; [now apply lookup_in with r | now apply Hincl].
    + cbn [List.length]. lia.
Qed.

Lemma resolve_fixed_terminates d fuel n : (fuel > List.length d)%nat -> resolve true fuel d n <> OutOfFuel.
Proof.
  intros Hf. apply loadv_terminates; [constructor | intros x [] | cbn; lia].
Qed.

(* cyclic or incomplete requests end with an error *)
Lemma resolve_fixed_cyclic_error d n fuel : Anc d n n -> (fuel > List.length d)%nat ->
  (exists m, resolve true fuel d n = ErrCycle m /\ Anc d m m) \/
  (exists m, resolve true fuel d n = ErrMissing m /\ lookup d m = None).
Proof.
  intros HA Hf. pose proof (resolve_fixed_terminates d fuel n Hf) as Ht. unfold resolve in *.
  destruct (loadv_err_sound d fuel [] n ltac:(intros v [])) as [Hm Hc].
  destruct (loadv fuel d [] n) as [n' c | m | m |] eqn:E.
  - exfalso. destruct (loadv_ok_lin _ _ _ _ _ _ E) as [l HL]. exact (Lin_acyclic _ _ _ HL HA).
  - right. exists m. split; [reflexivity | exact (proj1 (Hm m eq_refl))].
  - left. exists m. split; [reflexivity | exact (proj1 (Hc m eq_refl))].
  - congruence.
Qed.

Lemma resolve_fixed_missing_error d n m fuel : (m = n \/ Anc d n m) -> lookup d m = None ->
  (fuel > List.length d)%nat ->
  exists e, resolve true fuel d n = e /\ ((exists m', e = ErrMissing m' /\ lookup d m' = None) \/
                                         (exists m', e = ErrCycle m' /\ Anc d m' m')).
Proof.
  intros Hm Hn Hf. pose proof (resolve_fixed_terminates d fuel n Hf) as Ht. unfold resolve in *.
  destruct (loadv_err_sound d fuel [] n ltac:(intros v [])) as [Hmm Hc].
  destruct (loadv fuel d [] n) as [n' c | m' | m' |] eqn:E.
  - exfalso. destruct (loadv_ok_lin _ _ _ _ _ _ E) as [l HL]. destruct Hm as [-> | HA].
    + exact (Lin_lookup _ _ _ HL Hn).
    + exact (Lin_anc_exists _ _ _ _ HL HA Hn).
  - eexists. split; [reflexivity|]. left. exists m'. split; [reflexivity | exact (proj1 (Hmm m' eq_refl))].
  - eexists. split; [reflexivity|]. right. exists m'. split; [reflexivity | exact (proj1 (Hc m' eq_refl))].
  - congruence.
Qed.

(* ---------- one loader, many requests: the cache does not show ---------- *)

Definition consistent (cache d : db) : Prop := forall n r, lookup cache n = Some r -> lookup d n = Some r.

Lemma lookup_app a b n : lookup (a ++ b) n = match lookup a n with Some r => Some r | None => lookup b n end.
Proof.
  induction a as [|[m r] a IH]; cbn; [reflexivity|]. destruct (str_eqb n m); [reflexivity | exact IH].
Qed.

Lemma consistent_lookup cache d : consistent cache d -> forall n, lookup (cache ++ d) n = lookup d n.
Proof.
  intros H n. rewrite lookup_app. destruct (lookup cache n) as [r|] eqn:E; [symmetry; now apply H | reflexivity].
Qed.

Lemma run_ops_pure fuel d upd : (forall c n, consistent c d -> consistent (upd c n) d) ->
  forall ops cache, consistent cache d -> run_ops fuel d upd cache ops = map (resolve true fuel d) ops.
Proof.
  intros Hupd. induction ops as [|n ops IH]; intros cache Hc; cbn [run_ops map]; [reflexivity|].
  rewrite (IH _ (Hupd _ n Hc)). f_equal. unfold resolve. apply loadv_ext. now apply consistent_lookup.
Qed.

Lemma cache_requested_consistent d c n : consistent c d -> consistent (cache_requested d c n) d.
Proof.
  intros Hc. unfold cache_requested. rewrite (consistent_lookup _ _ Hc).
  destruct (lookup d n) as [r|] eqn:E; [|exact Hc].
  intros m r'. cbn [lookup]. destruct (str_eqb m n) eqn:Em; [|apply Hc].
  apply str_eqb_eq in Em. subst. intros H; inversion H; subst. exact E.
Qed.
