(* C11 - proofs about the models of sema_llgo.go (C11/Model.v): the semaphore count invariant over all
   schedules, one-step facts about NotifyAll / a woken waiter, and the witnesses of the recorded defects. *)
From LLGoV Require Import Lib.Common C11.Model.
Local Open Scope N_scope.

(* ================= Q1.v ================= *)

Lemma Forall_upd {A} (P : A -> Prop) l i x : Forall P l -> P x -> Forall P (upd l i x).
Proof. intros H Hx. revert i. induction H; destruct i; cbn; auto. Qed.

Lemma Forall_nth_error {A} (P : A -> Prop) l i x : Forall P l -> nth_error l i = Some x -> P x.
Proof. intros H E. rewrite Forall_forall in H. apply H. eapply nth_error_In; eauto. Qed.

(* a thread that is about to CompareAndSwap has loaded a non-zero value *)
Definition lv_ok (th : sthread) : Prop :=
  match s_pc th with QA1 | QA3 => s_lv th <> 0 | _ => True end.

Definition sinv (v0 : N) (s : sstate) : Prop :=
  s_val s < 4294967296 /\
  s_val s + s_acq s + 4294967296 * s_wraps s = v0 + s_rel s /\
  Forall lv_ok (s_ths s).

Lemma s_step_inv s t c s' :
  s_step s (t, c) = Some s' ->
  exists th o rest, nth_error (s_ths s) t = Some th /\ sprog th = o :: rest /\
    (s' = mkSSt (s_val s) (s_waiters s) (s_mu s) (remove_nat t (s_waitq s)) (s_ths s) (s_acq s) (s_rel s) (s_wraps s)
     \/ s' = s_exec s t c th o rest).
Proof.
  unfold s_step. destruct (nth_error (s_ths s) t) as [th|] eqn:E; [|discriminate].
  destruct (sprog th) as [|o rest] eqn:Ep; [discriminate|].
  destruct (s_parked s t).
  - intros [= <-]. exists th, o, rest. auto.
  - destruct (s_enabled s t th); [|discriminate]. intros [= <-]. exists th, o, rest. auto.
Qed.

Lemma wrap_succ x : x < 4294967296 ->
  wrap (x + 1) + 4294967296 * (if x + 1 =? 4294967296 then 1 else 0) = x + 1 /\ wrap (x + 1) < 4294967296.
Proof.
  intros H. unfold wrap. destruct (N.eqb_spec (x + 1) 4294967296) as [E|E].
  - rewrite E. rewrite N.mod_same by lia. lia.
  - rewrite N.mod_small by lia. lia.
Qed.

Lemma sinv_exec v0 s t c th o rest :
  sinv v0 s -> nth_error (s_ths s) t = Some th -> sinv v0 (s_exec s t c th o rest).
Proof.
  intros (Hv & Hc & HF) Et.
  pose proof (Forall_nth_error _ _ _ _ HF Et) as Hlv. unfold lv_ok in Hlv.
  unfold s_exec.
  destruct o, (s_pc th) eqn:Epc; try (split; [|split]; assumption);
    unfold s_set, s_park, sinv; cbn [s_val s_acq s_rel s_wraps s_ths].
  - (* acquire, first Load *)
    refine (conj Hv (conj Hc _)). apply Forall_upd; auto.
    destruct (N.eqb_spec (s_val s) 0); unfold lv_ok; cbn; auto.
  - (* fast-path CAS *)
    destruct (N.eqb_spec (s_val s) (s_lv th)) as [E|E]; cbn [s_val s_acq s_rel s_wraps s_ths].
    + unfold dec32. destruct (N.eqb_spec (s_lv th) 0); [contradiction|].
      split; [lia|]. split; [lia|]. apply Forall_upd; auto; try exact I.
    + refine (conj Hv (conj Hc _)). apply Forall_upd; auto; try exact I.
  - refine (conj Hv (conj Hc _)). apply Forall_upd; auto; try exact I.
  - refine (conj Hv (conj Hc _)). apply Forall_upd; auto; try exact I.
  - (* Load under the mutex *)
    destruct (N.eqb_spec (s_val s) 0); cbn [s_val s_acq s_rel s_wraps s_ths];
      refine (conj Hv (conj Hc _)); apply Forall_upd; auto; unfold lv_ok; cbn; auto.
  - (* CAS under the mutex *)
    destruct (N.eqb_spec (s_val s) (s_lv th)) as [E|E]; cbn [s_val s_acq s_rel s_wraps s_ths].
    + unfold dec32. destruct (N.eqb_spec (s_lv th) 0); [contradiction|].
      split; [lia|]. split; [lia|]. apply Forall_upd; auto; try exact I.
    + refine (conj Hv (conj Hc _)). apply Forall_upd; auto; try exact I.
  - refine (conj Hv (conj Hc _)). apply Forall_upd; auto; try exact I.
  - (* release: AddUint32 *)
    destruct (wrap_succ (s_val s) Hv) as [W1 W2].
    split; [exact W2|]. split.
    + destruct (N.eqb_spec (s_val s + 1) 4294967296); lia.
    + apply Forall_upd; auto; try exact I.
  - refine (conj Hv (conj Hc _)). apply Forall_upd; auto; try exact I.
  - destruct (s_waiters s =? 0); cbn [s_val s_acq s_rel s_wraps s_ths];
      refine (conj Hv (conj Hc _)); apply Forall_upd; auto; try exact I.
  - refine (conj Hv (conj Hc _)). apply Forall_upd; auto; try exact I.
Qed.

Lemma sinv_run v0 sc : forall s, sinv v0 s -> sinv v0 (s_run sc s).
Proof.
  induction sc as [|[t c] sc IH]; intros s H; cbn [s_run]; auto.
  destruct (s_step s (t, c)) as [s'|] eqn:E; auto. apply IH.
  apply s_step_inv in E as (th & o & rest & Et & Ep & [->| ->]).
  - exact H.
  - eapply sinv_exec; eauto.
Qed.

Lemma sinv_init v0 progs : v0 < 4294967296 -> sinv v0 (s_init v0 progs).
Proof.
  intros H. unfold sinv, s_init; cbn. split; [auto|]. split; [lia|].
  apply Forall_forall. intros th Hin. apply in_map_iff in Hin as (p & <- & _). exact I.
Qed.

Lemma sema_count v0 progs sc : v0 < 4294967296 ->
  let s := s_run sc (s_init v0 progs) in
  s_val s + s_acq s + 4294967296 * s_wraps s = v0 + s_rel s /\ s_val s < 4294967296.
Proof. intros H s. destruct (sinv_run v0 sc _ (sinv_init v0 progs H)) as (A & B & _). auto. Qed.

Lemma sema_count_nowrap v0 progs sc :
  let s := s_run sc (s_init v0 progs) in
  v0 + s_rel s < 4294967296 ->
  s_val s + s_acq s = v0 + s_rel s /\ s_acq s <= v0 + s_rel s.
Proof.
  intros s H. assert (v0 < 4294967296) as Hv by lia.
  destruct (sema_count v0 progs sc Hv) as [A B]. fold s in A, B.
  assert (s_wraps s = 0) by nia. rewrite H0 in A. lia.
Qed.

(* ================= Q2.v ================= *)

Definition n_quiescent (s : nstate) : Prop :=
  forall t th, nth_error (n_ths s) t = Some th -> n_enabled s t th = false.
Definition s_quiescent (s : sstate) : Prop :=
  forall t th, nth_error (s_ths s) t = Some th -> s_enabled s t th = false.

(* ---------- semaAcquire goes to sleep only after reading 0 under the mutex ---------- *)
Lemma mem_remove_nat t x q : mem_nat t (remove_nat x q) = true -> mem_nat t q = true.
Proof.
  unfold mem_nat. induction q as [|y q IH]; cbn; auto.
  destruct (Nat.eqb y x); cbn.
  - intros ->. now rewrite orb_true_r.
  - destruct (Nat.eqb t y); cbn; auto.
Qed.

Lemma sema_parks_on_zero s t c s' :
  s_step s (t, c) = Some s' -> s_parked s t = false -> s_parked s' t = true ->
  s_val s = 0.
Proof.
  unfold s_step. destruct (nth_error (s_ths s) t) as [th|] eqn:E; [|discriminate].
  destruct (sprog th) as [|o rest] eqn:Ep; [discriminate|].
  intros H Hp. rewrite Hp in H.
  unfold s_enabled in H. rewrite Ep, Hp in H. cbn [negb andb] in H.
  destruct o, (s_pc th) eqn:Epc; cbn in H;
    try (destruct (free (s_mu s)); [|discriminate]);
    injection H as <-; unfold s_exec; rewrite Epc; unfold s_parked, s_set, s_park; cbn [s_waitq];
    repeat match goal with |- context [if ?b then _ else _] => destruct b eqn:? end;
    cbn [s_waitq]; unfold s_parked in Hp; try congruence.
  all: try (intros Hq; apply mem_remove_nat in Hq; congruence).
  (* the only step that joins the wait queue: Load under the mutex returned 0 *)
  all: intros _; now apply N.eqb_eq.
Qed.

(* ---------- notifyListWait returns only when its ticket has been notified ---------- *)
Definition rets_ok (th : nthread) : Prop :=
  Forall (fun p => less32 (fst p) (snd p) = true) (n_rets th).

Lemma n_step_inv s t c s' :
  n_step s (t, c) = Some s' ->
  exists th o rest, nth_error (n_ths s) t = Some th /\ nprog th = o :: rest /\
    (n_ths s' = n_ths s \/ s' = n_exec s t c th o rest).
Proof.
  unfold n_step. destruct (nth_error (n_ths s) t) as [th|] eqn:E; [|discriminate].
  destruct (nprog th) as [|o rest] eqn:Ep; [discriminate|].
  destruct (n_parked s t).
  - intros [= <-]. exists th, o, rest. auto.
  - destruct (n_enabled s t th); [|discriminate]. intros [= <-]. exists th, o, rest. auto.
Qed.

Lemma rets_exec s t c th o rest :
  Forall rets_ok (n_ths s) -> nth_error (n_ths s) t = Some th ->
  Forall rets_ok (n_ths (n_exec s t c th o rest)).
Proof.
  intros HF Et. pose proof (Forall_nth_error _ _ _ _ HF Et) as Hth. unfold rets_ok in Hth.
  unfold n_exec.
  destruct o, (n_pc th) eqn:Epc; try exact HF; unfold n_set; cbn [n_ths];
    repeat match goal with |- context [if ?b then _ else _] => destruct b eqn:? end;
    cbn [n_ths]; try (apply Forall_upd; auto; exact Hth).
  (* the wait returns: the loop condition was false, i.e. less32 ticket notify *)
  apply Forall_upd; auto. unfold rets_ok, nfin_wait; cbn [n_rets].
  apply Forall_app. split; auto. constructor; auto. cbn.
  now apply negb_false_iff.
Qed.

Lemma rets_run sc : forall s, Forall rets_ok (n_ths s) -> Forall rets_ok (n_ths (n_run sc s)).
Proof.
  induction sc as [|[t c] sc IH]; intros s H; cbn [n_run]; auto.
  destruct (n_step s (t, c)) as [s'|] eqn:E; auto. apply IH.
  apply n_step_inv in E as (th & o & rest & Et & Ep & [->| ->]); auto.
  now apply rets_exec.
Qed.

Lemma wait_returns_notified v0 progs sc t th tk nt :
  nth_error (n_ths (n_run sc (n_init v0 progs))) t = Some th ->
  In (tk, nt) (n_rets th) -> less32 tk nt = true.
Proof.
  intros Et Hin.
  assert (H : Forall rets_ok (n_ths (n_run sc (n_init v0 progs)))).
  { apply rets_run. apply Forall_forall. intros x Hx. apply in_map_iff in Hx as (p & <- & _). constructor. }
  pose proof (Forall_nth_error _ _ _ _ H Et) as Hth. unfold rets_ok in Hth.
  rewrite Forall_forall in Hth. exact (Hth _ Hin).
Qed.

(* ---------- one-step facts about the notifiers and a woken waiter (any state) ---------- *)
Lemma notifier_bcast_empties s t c th o rest :
  nth_error (n_ths s) t = Some th -> nprog th = o :: rest ->
  (o = NAll /\ n_pc th = MA3) \/ (o = NOne /\ n_pc th = MA4) ->
  n_parked s t = false ->
  exists s', n_step s (t, c) = Some s' /\ n_waitq s' = [] /\ n_mu s' = None.
Proof.
  intros Et Ep H Epk. unfold n_step. rewrite Et, Ep, Epk.
  unfold n_enabled. rewrite Ep, Epk.
  destruct H as [(-> & Epc)|(-> & Epc)]; rewrite Epc; cbn; (eexists; split; [reflexivity|]);
    unfold n_exec; rewrite Epc; cbn; auto.
Qed.

Lemma length_upd {A} (l : list A) i x : length (upd l i x) = length l.
Proof. revert i; induction l; destruct i; cbn; auto. Qed.

Lemma nth_error_upd_same {A} (l : list A) i x : (i < length l)%nat -> nth_error (upd l i x) i = Some x.
Proof. revert i; induction l; destruct i; cbn; intros; try lia; auto. apply IHl. lia. Qed.

(* a woken waiter that gets the mutex returns iff its ticket is below l.notify;
   otherwise it parks again *)
Lemma woken_waiter_returns s t c c' th rest :
  nth_error (n_ths s) t = Some th -> nprog th = NWait :: rest -> n_pc th = MW ->
  n_parked s t = false -> n_mu s = None ->
  exists s1 s2 th2, n_step s (t, c) = Some s1 /\ n_step s1 (t, c') = Some s2 /\
    nth_error (n_ths s2) t = Some th2 /\
    (if less32 (n_ticket th) (n_notify s)
     then nprog th2 = rest /\ n_done th2 = S (n_done th)
     else n_parked s2 t = true /\ n_pc th2 = MW).
Proof.
  intros Et Ep Epc Epk Emu.
  assert (Hlt : (t < length (n_ths s))%nat) by (apply nth_error_Some; congruence).
  set (s1 := n_set s t (ngoto th MC) (Some t)).
  assert (S1 : n_step s (t, c) = Some s1).
  { unfold n_step. rewrite Et, Ep, Epk. unfold n_enabled. rewrite Ep, Epk, Epc, Emu. cbn [negb andb free].
    unfold n_exec. now rewrite Epc. }
  assert (E1 : nth_error (n_ths s1) t = Some (ngoto th MC)) by (apply nth_error_upd_same; auto).
  assert (P1 : n_parked s1 t = false) by exact Epk.
  assert (S2 : n_step s1 (t, c') = Some (n_exec s1 t c' (ngoto th MC) NWait rest)).
  { unfold n_step. rewrite E1. cbn [nprog ngoto]. rewrite Ep, P1.
    unfold n_enabled. cbn [nprog ngoto n_pc]. rewrite Ep, P1. reflexivity. }
  assert (HX : n_exec s1 t c' (ngoto th MC) NWait rest =
               if negb (less32 (n_ticket th) (n_notify s))
               then mkNSt (n_wait s) (n_notify s) None (n_waitq s ++ [t]) (upd (n_ths s1) t (ngoto (ngoto th MC) MW)) (n_wrapped s)
               else n_set s1 t (nfin_wait (ngoto th MC) rest (n_notify s)) None) by reflexivity.
  rewrite HX in S2. clear HX.
  destruct (less32 (n_ticket th) (n_notify s)) eqn:E; cbn [negb] in S2.
  - exists s1. eexists. eexists. split; [exact S1|]. split; [exact S2|]. cbn [n_ths n_set]. split.
    + apply nth_error_upd_same. unfold s1. cbn [n_ths n_set]. rewrite length_upd. auto.
    + cbn. auto.
  - exists s1. eexists. eexists. split; [exact S1|]. split; [exact S2|]. cbn [n_ths]. split.
    + apply nth_error_upd_same. unfold s1. cbn [n_ths n_set]. rewrite length_upd. auto.
    + split; [|reflexivity]. unfold n_parked. cbn [n_waitq].
      unfold mem_nat. rewrite existsb_app. cbn. rewrite Nat.eqb_refl. now rewrite orb_true_r.
Qed.

(* the former witnesses, now harmless *)
Lemma former_f7_schedule_parks_both :
  let s := n_run [(0,0);(0,0);(0,0);(0,0);(1,0);(1,0);(1,0);(1,0)]%nat (n_init 0 [[NWait]; [NWait]]) in
  n_waitq s = [0; 1]%nat /\ map n_done (n_ths s) = [0; 0]%nat.
Proof. vm_compute. auto. Qed.

Lemma former_sema_schedule_completes :
  let s := s_run [(0,0);(1,0);(0,0);(0,0);(1,0);(1,0);(0,0);(0,0);(1,0);(1,0);(0,0);(0,0);(0,0)]%nat
                 (s_init 1 [[SAcq]; [SRel; SAcq]]) in
  map s_done (s_ths s) = [1; 2]%nat /\ s_val s = 0 /\ s_waitq s = [].
Proof. vm_compute. auto. Qed.

(* ---------- the table of sync/atomic lowerings ---------- *)
Lemma lowering_all_seq_cst o w : snd (atomic_lowering o w) = OSeqCst.
Proof. reflexivity. Qed.

Lemma api_keys_complete o w : api_has o w = true -> In (o, w) api_keys.
Proof. destruct o, w; cbn; intros H; try discriminate; tauto. Qed.

(* what lowering_ok accepts: at least one atomic instruction, each of them the
   table's instruction (or, for And/Or, its compare-exchange expansion) on the right
   width (for pointers possibly the pointer-sized integer) with only seq_cst orderings *)
Lemma lowering_ok_sound pw o w ins : lowering_ok pw (o, w, ins) = true ->
  ins <> [] /\
  forall i w' ords, In (i, w', ords) ins ->
    (i = fst (atomic_lowering o w) \/ expanded_form (fst (atomic_lowering o w)) = Some i) /\
    (w' = w \/ (w = WPtr /\ w' = pw)) /\ ords <> [] /\ forall x, In x ords -> x = OSeqCst.
Proof.
  unfold lowering_ok. destruct (atomic_lowering o w) as [i0 ord0] eqn:E.
  assert (ord0 = OSeqCst) as -> by (now inversion E).
  destruct ins as [|x ins]; [discriminate|]. intros H. split; [discriminate|].
  intros i w' ords Hin. rewrite forallb_forall in H. specialize (H _ Hin). cbn beta iota in H.
  apply andb_true_iff in H as [H H3]. apply andb_true_iff in H as [H1 H2].
  repeat split.
  - cbn [fst]. unfold instr_ok in H1. apply orb_true_iff in H1 as [H1|H1].
    + left. destruct i, i0; cbn in H1; congruence.
    + right. destruct (expanded_form i0) as [j|]; [|discriminate]. f_equal.
      destruct i, j; cbn in H1; congruence.
  - unfold width_ok in H2. apply orb_true_iff in H2 as [H2|H2].
    + left. destruct w', w; cbn in H2; congruence.
    + right. destruct w; try discriminate. split; auto. destruct w', pw; cbn in H2; congruence.
  - destruct ords; discriminate.
  - destruct ords as [|y ords]; [discriminate|]. rewrite forallb_forall in H3.
    intros z Hz. specialize (H3 _ Hz). destruct z; cbn in H3; congruence.
Qed.


(* ---------- atomic.Value: the type word is published only after the data word ---------- *)
Definition vop_ok (o : vop) : Prop := match o with VStore d => d <> 0 | VLoad => True end.
Definition vres_ok (r : vres) : Prop := match r with VRVal d => d <> 0 | _ => True end.

(* what a thread needs of the data word D, depending on where it is *)
Definition vth_ok (D : Prop) (th : vthread) : Prop :=
  (v_pc th = VSt2 \/ v_pc th = VLd2 -> D) /\ Forall vop_ok (vprog th) /\ Forall vres_ok (vout th).

Definition vinv (s : vstate) : Prop :=
  (v_typ s = TSet -> v_data s <> 0) /\ Forall (vth_ok (v_data s <> 0)) (v_ths s).

Lemma vth_ok_weaken (D D' : Prop) th : (D -> D') -> vth_ok D th -> vth_ok D' th.
Proof. intros H (A & B & C). repeat split; auto. Qed.

Lemma vinv_exec s t th o rest :
  vinv s -> nth_error (v_ths s) t = Some th -> vprog th = o :: rest -> vinv (v_exec false s t th o rest).
Proof.
  intros (HT & HF) Et Ep.
  pose proof (Forall_nth_error _ _ _ _ HF Et) as (Hpc & Hops & Hout).
  rewrite Ep in Hops. inversion Hops as [|? ? Ho Hrest]; subst.
  assert (Hfin : forall D r, vres_ok r -> vth_ok D (vfin th rest r)).
  { intros D r Hr. unfold vth_ok, vfin; cbn. repeat split; auto.
    - intros [H|H]; discriminate.
    - apply Forall_app. split; auto. }
  assert (Hgoto : forall (D : Prop) p, (p = VSt2 \/ p = VLd2 -> D) -> vth_ok D (vgoto th p)).
  { intros D p Hp. unfold vth_ok, vgoto; cbn. rewrite Ep. repeat split; auto. }
  unfold v_exec. destruct o as [d|], (v_pc th) eqn:Epc; try (split; assumption); cbn [vop_ok] in Ho.
  - (* Store: LoadPointer(typ) *)
    split; [exact HT|]. cbn [v_ths v_data]. apply Forall_upd; auto. apply Hgoto.
    destruct (v_typ s); intros [H|H]; discriminate.
  - (* CAS *)
    destruct (v_typ s) eqn:Ety; (split; [cbn; try discriminate; auto|]); cbn [v_ths v_data];
      apply Forall_upd; auto; apply Hgoto; intros [H|H]; discriminate.
  - (* first store: the data word, non-zero *)
    split; [intros _; exact Ho|]. cbn [v_ths v_data]. apply Forall_upd.
    + revert HF. apply Forall_impl. intros a. apply vth_ok_weaken. auto.
    + apply Hgoto. auto.
  - (* second store: the type word; the data word has been written *)
    split; [intros _; apply Hpc; auto|]. cbn [v_ths v_data]. apply Forall_upd; auto. apply Hfin. exact I.
  - (* later Store overwrites the data word with a non-zero pointer *)
    split; [intros _; exact Ho|]. cbn [v_ths v_data]. apply Forall_upd.
    + revert HF. apply Forall_impl. intros a. apply vth_ok_weaken. auto.
    + apply Hfin. exact I.
  - (* Load: LoadPointer(typ) *)
    destruct (v_typ s) eqn:Ety; (split; [exact HT|]); cbn [v_ths v_data]; apply Forall_upd; auto;
      try (apply Hfin; exact I); try (apply Hgoto; intros _; apply HT; reflexivity).
  - (* Load: LoadPointer(data) *)
    split; [exact HT|]. cbn [v_ths v_data]. apply Forall_upd; auto. apply Hfin. cbn. apply Hpc. auto.
Qed.

Lemma vinv_run sc : forall s, vinv s -> vinv (v_run false sc s).
Proof.
  induction sc as [|t sc IH]; intros s H; cbn [v_run]; auto.
  unfold v_step. destruct (nth_error (v_ths s) t) as [th|] eqn:Et; auto.
  destruct (vprog th) as [|o rest] eqn:Ep; auto. apply IH. eapply vinv_exec; eauto.
Qed.

Lemma vinv_init progs : Forall (Forall vop_ok) progs -> vinv (v_init progs).
Proof.
  intros H. split; [discriminate|]. cbn. rewrite Forall_map. revert H. apply Forall_impl.
  intros p Hp. unfold vth_ok; cbn. repeat split; auto. intros [E|E]; discriminate.
Qed.

(* under every schedule: once the type word is set the data word is set, and no Load ever
   returned a non-nil type with a nil data word *)
Lemma value_published progs sc : Forall (Forall vop_ok) progs ->
  let s := v_run false sc (v_init progs) in
  (v_typ s = TSet -> v_data s <> 0) /\
  forall t th d, nth_error (v_ths s) t = Some th -> In (VRVal d) (vout th) -> d <> 0.
Proof.
  intros H s. destruct (vinv_run sc _ (vinv_init progs H)) as [HT HF]. fold s in HT, HF.
  split; auto. intros t th d Et Hin.
  pose proof (Forall_nth_error _ _ _ _ HF Et) as (_ & _ & Hout).
  rewrite Forall_forall in Hout. exact (Hout _ Hin).
Qed.

(* with the two publishing stores the other way round a Load sees the type and no data *)
Lemma value_reordered_ex :
  exists progs sc, Forall (Forall vop_ok) progs /\
    let s := v_run true sc (v_init progs) in
    exists th, nth_error (v_ths s) 0 = Some th /\ vout th = [VRVal 0].
Proof.
  exists [[VLoad]; [VStore 2]], [1;1;1;0;0;1]%nat. split.
  - repeat constructor; cbn; discriminate.
  - vm_compute. eexists; split; reflexivity.
Qed.
