(* C11 - executable models of runtime/internal/lib/runtime/sema_llgo.go as
   interleaving semantics.  No proofs here.
     machine S: semaAcquire / semaRelease on one address
     machine N: notifyListAdd+notifyListWait / NotifyOne / NotifyAll on one list
   Granularity (the same as the harness scheduler props/C10/harness/vsched): a thread
   yields immediately before every atomic operation (latomic.Load/Add/CAS/Store),
   before every Mutex.Lock (enabled only while the mutex is free), before re-locking
   after Cond.Wait (parked until woken), and before Cond.Signal / Cond.Broadcast.
   Unlock does not yield.  One step = from one yield point to the next.  The lock of
   the global map (semaMu / notifyMu, taken and released inside getSemaState /
   getNotifyState without a yield in between) is always free at a yield point, so it
   is a step without effect (pc *G).  A schedule is a list of (thread, choice):
   choice selects the waiter a Signal wakes (index mod number of waiters, in Wait
   order); a step of a parked thread is a spurious wake-up.
   Counters are uint32: wrap-around mod 2^32 is explicit ([wrap]). *)
From LLGoV Require Import Lib.Common.
Local Open Scope N_scope.

Definition wrap (x : N) : N := x mod 4294967296.
(* x - 1 on uint32 *)
Definition dec32 (x : N) : N := if x =? 0 then 4294967295 else x - 1.

(* Go's wrap-aware ticket order (runtime/sema.go less): a is before b, i.e. int32(a-b) < 0 *)
Definition less32 (a b : N) : bool := 2147483648 <=? wrap (a + 4294967296 - b).

Fixpoint upd {A} (l : list A) (i : nat) (x : A) : list A :=
  match l, i with
  | [], _ => []
  | _ :: t, O => x :: t
  | h :: t, S i' => h :: upd t i' x
  end.

Fixpoint remove_nat (t : nat) (l : list nat) : list nat :=
  match l with
  | [] => []
  | x :: l' => if Nat.eqb x t then l' else x :: remove_nat t l'
  end.

Definition mem_nat (t : nat) (l : list nat) : bool := existsb (Nat.eqb t) l.

Definition free (mu : option nat) : bool := match mu with None => true | Some _ => false end.

Fixpoint mask_from {T} (f : nat -> T -> bool) (i : nat) (l : list T) : N :=
  match l with
  | [] => 0
  | th :: l' => (if f i th then 1 else 0) + 2 * mask_from f (S i) l'
  end.

(* ===================================================================== *)
(* machine S: the semaphore                                              *)
(* ===================================================================== *)
Inductive sop := SAcq | SRel.

Inductive spc :=
| QStart     (* at the first atomic of the operation: Load (acquire) / Add (release) *)
| QA1        (* fast path, at the CAS; lv holds the loaded value (non-zero) *)
| QG         (* at semaMu.Lock inside getSemaState *)
| QL         (* at st.mu.Lock *)
| QA2        (* holding st.mu, at the Load *)
| QA3        (* holding st.mu, at the CAS *)
| QW         (* in cond.Wait (parked while in the wait queue), then at the re-lock *)
| QRS.       (* release: holding st.mu, at cond.Signal *)

Record sthread := mkSTh { sprog : list sop; s_pc : spc; s_lv : N; s_done : nat }.

Record sstate := mkSSt {
  s_val : N; s_waiters : N; s_mu : option nat; s_waitq : list nat;
  s_ths : list sthread;
  s_acq : N; s_rel : N; s_wraps : N   (* ghost: completed acquires, started releases, overflows of the counter *)
}.

Definition sfin (th : sthread) (rest : list sop) : sthread := mkSTh rest QStart 0 (S (s_done th)).
Definition sgoto (th : sthread) (p : spc) (lv : N) : sthread := mkSTh (sprog th) p lv (s_done th).

Definition s_parked (s : sstate) (t : nat) : bool := mem_nat t (s_waitq s).

Definition s_enabled (s : sstate) (t : nat) (th : sthread) : bool :=
  match sprog th with
  | [] => false
  | _ => negb (s_parked s t) &&
         match s_pc th with QL | QW => free (s_mu s) | _ => true end
  end.

Definition s_set (s : sstate) (t : nat) (th : sthread) : sstate :=
  mkSSt (s_val s) (s_waiters s) (s_mu s) (s_waitq s) (upd (s_ths s) t th) (s_acq s) (s_rel s) (s_wraps s).

(* waiters++; cond.Wait(&mu): release the mutex and join the wait queue *)
Definition s_park (s : sstate) (t : nat) (th : sthread) : sstate :=
  mkSSt (s_val s) (wrap (s_waiters s + 1)) None (s_waitq s ++ [t]) (upd (s_ths s) t (sgoto th QW 0))
        (s_acq s) (s_rel s) (s_wraps s).

Definition s_exec (s : sstate) (t : nat) (choice : nat) (th : sthread) (o : sop) (rest : list sop) : sstate :=
  match o, s_pc th with
  | SAcq, QStart =>
      let v := s_val s in
      s_set s t (if v =? 0 then sgoto th QG 0 else sgoto th QA1 v)
  | SAcq, QA1 =>
      if s_val s =? s_lv th then
        mkSSt (dec32 (s_lv th)) (s_waiters s) (s_mu s) (s_waitq s) (upd (s_ths s) t (sfin th rest))
              (s_acq s + 1) (s_rel s) (s_wraps s)
      else s_set s t (sgoto th QG 0)
  | _, QG => s_set s t (sgoto th QL 0)
  | SAcq, QL =>
      mkSSt (s_val s) (s_waiters s) (Some t) (s_waitq s) (upd (s_ths s) t (sgoto th QA2 0))
            (s_acq s) (s_rel s) (s_wraps s)
  | SAcq, QA2 =>
      let v := s_val s in
      if v =? 0 then s_park s t th else s_set s t (sgoto th QA3 v)
  | SAcq, QA3 =>
      if s_val s =? s_lv th then
        mkSSt (dec32 (s_lv th)) (s_waiters s) None (s_waitq s) (upd (s_ths s) t (sfin th rest))
              (s_acq s + 1) (s_rel s) (s_wraps s)
      else s_set s t (sgoto th QA2 0)    (* lost the race: continue, re-read the count *)
  | SAcq, QW =>     (* woken: re-lock, waiters-- *)
      mkSSt (s_val s) (dec32 (s_waiters s)) (Some t) (s_waitq s) (upd (s_ths s) t (sgoto th QA2 0))
            (s_acq s) (s_rel s) (s_wraps s)
  | SRel, QStart =>
      mkSSt (wrap (s_val s + 1)) (s_waiters s) (s_mu s) (s_waitq s) (upd (s_ths s) t (sgoto th QG 0))
            (s_acq s) (s_rel s + 1) (if s_val s + 1 =? 4294967296 then s_wraps s + 1 else s_wraps s)
  | SRel, QL =>
      if s_waiters s =? 0 then
        mkSSt (s_val s) (s_waiters s) None (s_waitq s) (upd (s_ths s) t (sfin th rest))
              (s_acq s) (s_rel s) (s_wraps s)
      else
        mkSSt (s_val s) (s_waiters s) (Some t) (s_waitq s) (upd (s_ths s) t (sgoto th QRS 0))
              (s_acq s) (s_rel s) (s_wraps s)
  | SRel, QRS =>
      let q := s_waitq s in
      let q' := match q with
                | [] => []
                | _ => remove_nat (nth (choice mod length q) q O) q
                end in
      mkSSt (s_val s) (s_waiters s) None q' (upd (s_ths s) t (sfin th rest))
            (s_acq s) (s_rel s) (s_wraps s)
  | _, _ => s
  end.

Definition s_step (s : sstate) (tc : nat * nat) : option sstate :=
  let (t, choice) := tc in
  match nth_error (s_ths s) t with
  | None => None
  | Some th =>
      match sprog th with
      | [] => None
      | o :: rest =>
          if s_parked s t then
            Some (mkSSt (s_val s) (s_waiters s) (s_mu s) (remove_nat t (s_waitq s)) (s_ths s)
                        (s_acq s) (s_rel s) (s_wraps s))
          else if s_enabled s t th then Some (s_exec s t choice th o rest)
          else None
      end
  end.

Definition sschedule := list (nat * nat).

Fixpoint s_run (sc : sschedule) (s : sstate) : sstate :=
  match sc with
  | [] => s
  | x :: sc' => match s_step s x with Some s' => s_run sc' s' | None => s_run sc' s end
  end.

Definition s_init (v : N) (progs : list (list sop)) : sstate :=
  mkSSt v 0 None [] (map (fun p => mkSTh p QStart 0 0) progs) 0 0 0.

Definition s_obs1 (s : sstate) : N * N :=
  (mask_from (s_enabled s) 0 (s_ths s),
   mask_from (fun t th => match sprog th with [] => false | _ => s_parked s t end) 0 (s_ths s)).

Fixpoint s_trace (sc : sschedule) (s : sstate) : list (N * N) * sstate :=
  match sc with
  | [] => ([s_obs1 s], s)
  | x :: sc' =>
      match s_step s x with
      | Some s' => let (l, sf) := s_trace sc' s' in (s_obs1 s :: l, sf)
      | None => ([s_obs1 s], s)
      end
  end.

Definition sobservation : Type := list (N * N) * list nat * (N * N).

Definition s_observe (x : N * list (list sop) * sschedule) : sobservation :=
  let '(v, progs, sc) := x in
  let (tr, sf) := s_trace sc (s_init v progs) in
  (tr, map s_done (s_ths sf), (s_val sf, s_waiters sf)).

Definition sobs_eqb (a b : sobservation) : bool :=
  let '(t1, d1, (v1, w1)) := a in
  let '(t2, d2, (v2, w2)) := b in
  list_eqb (prod_eqb N.eqb N.eqb) t1 t2 && list_eqb Nat.eqb d1 d2 && N.eqb v1 v2 && N.eqb w1 w2.

(* ===================================================================== *)
(* machine N: the notify list behind sync.Cond                           *)
(* ===================================================================== *)
Inductive nop := NWait | NOne | NAll.

Inductive npc :=
| MStart    (* NWait: at the AddUint32 of notifyListAdd; NOne/NAll: at notifyMu.Lock *)
| MG        (* NWait: at notifyMu.Lock inside getNotifyState *)
| ML        (* at st.mu.Lock *)
| MC        (* NWait: holding st.mu, at Load(notify) *)
| MW        (* NWait: in cond.Wait, then at the re-lock *)
| MA1       (* NAll: holding st.mu, at Load(wait).  NOne: at Load(notify) *)
| MA2       (* NAll: at Store(notify).              NOne: at Load(wait) *)
| MA3       (* NAll: at Broadcast.                  NOne: at Add(notify) *)
| MA4.      (* NOne: at Broadcast *)

Record nthread := mkNTh {
  nprog : list nop; n_pc : npc; n_ticket : N; n_l1 : N; n_l2 : N;
  n_done : nat; n_tickets : list N;
  n_rets : list (N * N)   (* ghost: (ticket, l.notify) at the return of each completed notifyListWait *) }.

Record nstate := mkNSt {
  n_wait : N; n_notify : N; n_mu : option nat; n_waitq : list nat;
  n_ths : list nthread;
  n_wrapped : bool   (* ghost: a ticket counter has wrapped around *)
}.

Definition nfin (th : nthread) (rest : list nop) : nthread :=
  mkNTh rest MStart 0 0 0 (S (n_done th)) (n_tickets th) (n_rets th).
Definition nfin_wait (th : nthread) (rest : list nop) (notify : N) : nthread :=
  mkNTh rest MStart 0 0 0 (S (n_done th)) (n_tickets th) (n_rets th ++ [(n_ticket th, notify)]).
Definition ngoto (th : nthread) (p : npc) : nthread :=
  mkNTh (nprog th) p (n_ticket th) (n_l1 th) (n_l2 th) (n_done th) (n_tickets th) (n_rets th).
Definition nloc (th : nthread) (p : npc) (a b : N) : nthread :=
  mkNTh (nprog th) p (n_ticket th) a b (n_done th) (n_tickets th) (n_rets th).

Definition n_parked (s : nstate) (t : nat) : bool := mem_nat t (n_waitq s).

Definition n_enabled (s : nstate) (t : nat) (th : nthread) : bool :=
  match nprog th with
  | [] => false
  | _ => negb (n_parked s t) &&
         match n_pc th with ML | MW => free (n_mu s) | _ => true end
  end.

Definition n_set (s : nstate) (t : nat) (th : nthread) (mu : option nat) : nstate :=
  mkNSt (n_wait s) (n_notify s) mu (n_waitq s) (upd (n_ths s) t th) (n_wrapped s).

Definition n_exec (s : nstate) (t : nat) (choice : nat) (th : nthread) (o : nop) (rest : list nop) : nstate :=
  match o, n_pc th with
  (* t := AddUint32(&l.wait, 1) - 1 *)
  | NWait, MStart =>
      mkNSt (wrap (n_wait s + 1)) (n_notify s) (n_mu s) (n_waitq s)
            (upd (n_ths s) t (mkNTh (nprog th) MG (n_wait s) 0 0 (n_done th) (n_tickets th ++ [n_wait s]) (n_rets th)))
            (n_wrapped s || (n_wait s + 1 =? 4294967296))
  | NWait, MG => n_set s t (ngoto th ML) (n_mu s)
  | NWait, ML => n_set s t (ngoto th MC) (Some t)
  (* for int32(t - Load(notify)) >= 0 { Wait }: wait while the ticket is not below notify *)
  | NWait, MC =>
      if negb (less32 (n_ticket th) (n_notify s)) then
        mkNSt (n_wait s) (n_notify s) None (n_waitq s ++ [t]) (upd (n_ths s) t (ngoto th MW)) (n_wrapped s)
      else n_set s t (nfin_wait th rest (n_notify s)) None
  | NWait, MW => n_set s t (ngoto th MC) (Some t)
  (* NotifyAll: Store(&l.notify, Load(&l.wait)); Broadcast *)
  | NAll, MStart => n_set s t (ngoto th ML) (n_mu s)
  | NAll, ML => n_set s t (ngoto th MA1) (Some t)
  | NAll, MA1 => n_set s t (nloc th MA2 (n_wait s) 0) (n_mu s)
  | NAll, MA2 =>
      mkNSt (n_wait s) (n_l1 th) (n_mu s) (n_waitq s) (upd (n_ths s) t (ngoto th MA3)) (n_wrapped s)
  | NAll, MA3 =>
      mkNSt (n_wait s) (n_notify s) None [] (upd (n_ths s) t (nfin th rest)) (n_wrapped s)
  (* NotifyOne: if Load(notify) != Load(wait) { Add(notify, 1); Broadcast } *)
  | NOne, MStart => n_set s t (ngoto th ML) (n_mu s)
  | NOne, ML => n_set s t (ngoto th MA1) (Some t)
  | NOne, MA1 => n_set s t (nloc th MA2 (n_notify s) 0) (n_mu s)
  | NOne, MA2 =>
      if n_l1 th =? n_wait s then n_set s t (nfin th rest) None
      else n_set s t (ngoto th MA3) (n_mu s)
  | NOne, MA3 =>
      mkNSt (n_wait s) (wrap (n_notify s + 1)) (n_mu s) (n_waitq s) (upd (n_ths s) t (ngoto th MA4))
            (n_wrapped s || (n_notify s + 1 =? 4294967296))
  | NOne, MA4 =>
      mkNSt (n_wait s) (n_notify s) None [] (upd (n_ths s) t (nfin th rest)) (n_wrapped s)
  | _, _ => s
  end.

Definition n_step (s : nstate) (tc : nat * nat) : option nstate :=
  let (t, choice) := tc in
  match nth_error (n_ths s) t with
  | None => None
  | Some th =>
      match nprog th with
      | [] => None
      | o :: rest =>
          if n_parked s t then
            Some (mkNSt (n_wait s) (n_notify s) (n_mu s) (remove_nat t (n_waitq s)) (n_ths s) (n_wrapped s))
          else if n_enabled s t th then Some (n_exec s t choice th o rest)
          else None
      end
  end.

Fixpoint n_run (sc : sschedule) (s : nstate) : nstate :=
  match sc with
  | [] => s
  | x :: sc' => match n_step s x with Some s' => n_run sc' s' | None => n_run sc' s end
  end.

(* v0: initial value of both counters (0 for a fresh sync.Cond) *)
Definition n_init (v0 : N) (progs : list (list nop)) : nstate :=
  mkNSt v0 v0 None [] (map (fun p => mkNTh p MStart 0 0 0 0 [] []) progs) false.

Definition n_obs1 (s : nstate) : N * N :=
  (mask_from (n_enabled s) 0 (n_ths s),
   mask_from (fun t th => match nprog th with [] => false | _ => n_parked s t end) 0 (n_ths s)).

Fixpoint n_trace (sc : sschedule) (s : nstate) : list (N * N) * nstate :=
  match sc with
  | [] => ([n_obs1 s], s)
  | x :: sc' =>
      match n_step s x with
      | Some s' => let (l, sf) := n_trace sc' s' in (n_obs1 s :: l, sf)
      | None => ([n_obs1 s], s)
      end
  end.

Definition nobservation : Type := list (N * N) * list nat * list (list N) * (N * N).

Definition n_observe (x : N * list (list nop) * sschedule) : nobservation :=
  let '(v, progs, sc) := x in
  let (tr, sf) := n_trace sc (n_init v progs) in
  (tr, map n_done (n_ths sf), map n_tickets (n_ths sf), (n_wait sf, n_notify sf)).

Definition nobs_eqb (a b : nobservation) : bool :=
  let '(t1, d1, k1, (v1, w1)) := a in
  let '(t2, d2, k2, (v2, w2)) := b in
  list_eqb (prod_eqb N.eqb N.eqb) t1 t2 && list_eqb Nat.eqb d1 d2
  && list_eqb (list_eqb N.eqb) k1 k2 && N.eqb v1 v2 && N.eqb w1 w2.

(* ===================================================================== *)
(* lowering of sync/atomic: which LLVM instruction, with which ordering   *)
(* ===================================================================== *)
(* T2 obligation: props/C11/check.py lets the working tree's cl+ssa emit the IR of a
   generated package that calls every sync/atomic function (and of package sync/atomic
   itself for the typed methods), extracts every load atomic / store atomic / atomicrmw /
   cmpxchg instruction syntactically and evaluates [lowering_ok] on it inside Coq. *)
Inductive aop := ALoad | AStore | AAdd | ASwap | ACas | AAnd | AOr.
Inductive awidth := W32 | W64 | WPtr.          (* i32, i64, ptr operand *)
Inductive ainstr := ILoadAtomic | IStoreAtomic | IRmwAdd | IRmwXchg | IRmwAnd | IRmwOr | ICmpXchg.
Inductive aord := ONotAtomic | OUnordered | OMonotonic | OAcquire | ORelease | OAcqRel | OSeqCst.

(* every operation is the single LLVM instruction of that name.  Every ordering (both
   orderings of cmpxchg) is seq_cst: Go's sync/atomic operations appear in one total
   order. *)
Definition atomic_lowering (o : aop) (w : awidth) : ainstr * aord :=
  (match o with
   | ALoad => ILoadAtomic | AStore => IStoreAtomic | AAdd => IRmwAdd | ASwap => IRmwXchg
   | ACas => ICmpXchg | AAnd => IRmwAnd | AOr => IRmwOr
   end, OSeqCst).

(* In the IR printed for a main package atomicrmw and / or arrive already expanded into
   the equivalent compare-exchange loop (load; and/or; cmpxchg seq_cst seq_cst; retry)
   - the form LLVM's AtomicExpand pass gives them; package sync/atomic itself shows the
   single instruction.  Both forms are accepted for And/Or. *)
Definition expanded_form (i : ainstr) : option ainstr :=
  match i with IRmwAnd | IRmwOr => Some ICmpXchg | _ => None end.

(* the operations Go's API has: no Add/And/Or on unsafe.Pointer *)
Definition api_has (o : aop) (w : awidth) : bool :=
  match o, w with
  | (AAdd | AAnd | AOr), WPtr => false
  | _, _ => true
  end.

Definition all_aops : list aop := [ALoad; AStore; AAdd; ASwap; ACas; AAnd; AOr].
Definition all_awidths : list awidth := [W32; W64; WPtr].
Definition api_keys : list (aop * awidth) :=
  filter (fun k => api_has (fst k) (snd k))
         (flat_map (fun o => map (fun w => (o, w)) all_awidths) all_aops).

Definition aop_eqb (a b : aop) : bool :=
  match a, b with
  | ALoad, ALoad | AStore, AStore | AAdd, AAdd | ASwap, ASwap | ACas, ACas | AAnd, AAnd | AOr, AOr => true
  | _, _ => false
  end.
Definition awidth_eqb (a b : awidth) : bool :=
  match a, b with W32, W32 | W64, W64 | WPtr, WPtr => true | _, _ => false end.
Definition ainstr_eqb (a b : ainstr) : bool :=
  match a, b with
  | ILoadAtomic, ILoadAtomic | IStoreAtomic, IStoreAtomic | IRmwAdd, IRmwAdd | IRmwXchg, IRmwXchg
  | IRmwAnd, IRmwAnd | IRmwOr, IRmwOr | ICmpXchg, ICmpXchg => true
  | _, _ => false
  end.
Definition aord_eqb (a b : aord) : bool :=
  match a, b with
  | ONotAtomic, ONotAtomic | OUnordered, OUnordered | OMonotonic, OMonotonic | OAcquire, OAcquire
  | ORelease, ORelease | OAcqRel, OAcqRel | OSeqCst, OSeqCst => true
  | _, _ => false
  end.

(* one Go function: its operation and operand width, and the atomic instructions
   found in its IR: (instruction, operand width, orderings written on it) *)
Definition observed_fn : Type := aop * awidth * list (ainstr * awidth * list aord).

(* pw: the integer width of a pointer on the target.  cmpxchg and atomicrmw on an
   unsafe.Pointer may be emitted on the pointer-sized integer (ptrtoint/inttoptr around
   it), so for a WPtr operation an operand of width pw is accepted as well. *)
Definition width_ok (pw w' w : awidth) : bool :=
  awidth_eqb w' w || match w with WPtr => awidth_eqb w' pw | _ => false end.

Definition instr_ok (i i0 : ainstr) : bool :=
  ainstr_eqb i i0 || match expanded_form i0 with Some j => ainstr_eqb i j | None => false end.

Definition lowering_ok (pw : awidth) (e : observed_fn) : bool :=
  let '(o, w, ins) := e in
  let (i0, ord0) := atomic_lowering o w in
  match ins with
  | [] => false                                   (* the atomic instruction is gone *)
  | _ => forallb (fun x : ainstr * awidth * list aord =>
                    let '(i, w', ords) := x in
                    instr_ok i i0 && width_ok pw w' w &&
                    match ords with [] => false | _ => forallb (aord_eqb ord0) ords end) ins
  end.

Fixpoint bad_lowerings (pw : awidth) (n : N) (l : list observed_fn) : list N :=
  match l with
  | [] => []
  | e :: l' => if lowering_ok pw e then bad_lowerings pw (N.succ n) l' else n :: bad_lowerings pw (N.succ n) l'
  end.

(* keys of the API that no generated function exercised *)
Definition missing_keys (l : list observed_fn) : list (aop * awidth) :=
  filter (fun k => negb (existsb (fun e : observed_fn =>
                                    aop_eqb (fst (fst e)) (fst k) && awidth_eqb (snd (fst e)) (snd k)) l))
         api_keys.

(* ===================================================================== *)
(* machine V: atomic.Value (runtime/internal/lib/sync/atomic/value.go)    *)
(* ===================================================================== *)
(* Store / Load on one Value; every pointer atomic (LoadPointer, CompareAndSwapPointer,
   StorePointer) is one step.  The type word is nil, the marker firstStoreInProgress, or
   the type of the stored values (one type: stores of differently typed values panic and
   are not modelled); the data word is 0 (nil) or the stored pointer (a non-zero number).
   [ro] = true is the variant with the two publishing stores of the first Store in the
   wrong order (type before data); the code is [ro] = false. *)
Inductive tword := TNil | TProg | TSet.
Inductive vop := VStore (d : N) | VLoad.
Inductive vpc :=
| VStart     (* at LoadPointer(&vp.typ) *)
| VCas       (* Store: at CompareAndSwapPointer(&vp.typ, nil, &firstStoreInProgress) *)
| VSt1       (* first Store, CAS won: at the first StorePointer *)
| VSt2       (* at the second StorePointer *)
| VOver      (* later Store: at StorePointer(&vp.data) *)
| VLd2.      (* Load: at LoadPointer(&vp.data) *)
Inductive vres := VRStore | VRNil | VRVal (d : N).   (* VRVal 0: non-nil type word, nil data word *)

Record vthread := mkVT { vprog : list vop; v_pc : vpc; vout : list vres }.
Record vstate := mkVS { v_typ : tword; v_data : N; v_ths : list vthread }.

Definition vfin (th : vthread) (rest : list vop) (r : vres) : vthread := mkVT rest VStart (vout th ++ [r]).
Definition vgoto (th : vthread) (p : vpc) : vthread := mkVT (vprog th) p (vout th).

Definition v_exec (ro : bool) (s : vstate) (t : nat) (th : vthread) (o : vop) (rest : list vop) : vstate :=
  let upd_th x := upd (v_ths s) t x in
  match o, v_pc th with
  | VStore d, VStart =>
      mkVS (v_typ s) (v_data s)
           (upd_th (vgoto th (match v_typ s with TNil => VCas | TProg => VStart | TSet => VOver end)))
  | VStore d, VCas =>
      match v_typ s with
      | TNil => mkVS TProg (v_data s) (upd_th (vgoto th VSt1))
      | _ => mkVS (v_typ s) (v_data s) (upd_th (vgoto th VStart))
      end
  | VStore d, VSt1 =>
      if ro then mkVS TSet (v_data s) (upd_th (vgoto th VSt2))
      else mkVS (v_typ s) d (upd_th (vgoto th VSt2))
  | VStore d, VSt2 =>
      if ro then mkVS (v_typ s) d (upd_th (vfin th rest VRStore))
      else mkVS TSet (v_data s) (upd_th (vfin th rest VRStore))
  | VStore d, VOver => mkVS (v_typ s) d (upd_th (vfin th rest VRStore))
  | VLoad, VStart =>
      match v_typ s with
      | TSet => mkVS (v_typ s) (v_data s) (upd_th (vgoto th VLd2))
      | _ => mkVS (v_typ s) (v_data s) (upd_th (vfin th rest VRNil))
      end
  | VLoad, VLd2 => mkVS (v_typ s) (v_data s) (upd_th (vfin th rest (VRVal (v_data s))))
  | _, _ => s
  end.

Definition v_step (ro : bool) (s : vstate) (t : nat) : option vstate :=
  match nth_error (v_ths s) t with
  | None => None
  | Some th => match vprog th with [] => None | o :: rest => Some (v_exec ro s t th o rest) end
  end.

Fixpoint v_run (ro : bool) (sc : list nat) (s : vstate) : vstate :=
  match sc with
  | [] => s
  | t :: sc' => match v_step ro s t with Some s' => v_run ro sc' s' | None => v_run ro sc' s end
  end.

Definition v_init (progs : list (list vop)) : vstate :=
  mkVS TNil 0 (map (fun p => mkVT p VStart []) progs).

Definition v_obs1 (s : vstate) : N :=
  mask_from (fun _ th => match vprog th with [] => false | _ => true end) 0 (v_ths s).

Fixpoint v_trace (sc : list nat) (s : vstate) : list N * vstate :=
  match sc with
  | [] => ([v_obs1 s], s)
  | t :: sc' =>
      match v_step false s t with
      | Some s' => let (l, sf) := v_trace sc' s' in (v_obs1 s :: l, sf)
      | None => ([v_obs1 s], s)
      end
  end.

Definition vobservation : Type := list N * list (list vres) * (N * N).

Definition v_observe (x : list (list vop) * list nat) : vobservation :=
  let (progs, sc) := x in
  let (tr, sf) := v_trace sc (v_init progs) in
  (tr, map vout (v_ths sf), (match v_typ sf with TNil => 0 | TProg => 1 | TSet => 2 end, v_data sf)).

Definition vres_eqb (a b : vres) : bool :=
  match a, b with
  | VRStore, VRStore | VRNil, VRNil => true
  | VRVal x, VRVal y => N.eqb x y
  | _, _ => false
  end.

Definition vobs_eqb (a b : vobservation) : bool :=
  let '(t1, r1, (a1, b1)) := a in
  let '(t2, r2, (a2, b2)) := b in
  list_eqb N.eqb t1 t2 && list_eqb (list_eqb vres_eqb) r1 r2 && N.eqb a1 a2 && N.eqb b1 b2.
