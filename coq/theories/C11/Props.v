(* C11 - property theorems only.  Models: C11/Model.v, interleaving semantics of
   sema_llgo.go at the granularity "one step = from one atomic operation / Lock /
   Wait-return / Signal / Broadcast to the next":
     machine S  semaAcquire / semaRelease on one address   ([s_run sc (s_init v0 progs)])
     machine N  notifyListAdd+Wait / NotifyOne / NotifyAll ([n_run sc (n_init v0 progs)])
   A schedule is any list of (thread, choice); a step of a parked thread is a spurious
   wake-up; counters wrap mod 2^32 explicitly.  The count theorems hold for ALL
   schedules and any number of threads (by invariant).  Two statements of the property
   that used to be false of the code (F7: notifyListWait returned without a notify;
   semaAcquire slept on a positive count after a lost CAS race) are repaired in the
   modelled code; their former witness schedules are kept as Examples. *)
From LLGoV Require Import Lib.Common C11.Model C11.Proofs.
Local Open Scope N_scope.

(* the semaphore count: value + completed acquires (+ 2^32 per overflow of the
   uint32 counter) = initial value + releases, in every reachable state *)
Theorem sema_count_invariant : forall v0 progs sc, v0 < 4294967296 ->
  let s := s_run sc (s_init v0 progs) in
  s_val s + s_acq s + 4294967296 * s_wraps s = v0 + s_rel s /\ s_val s < 4294967296.
Proof. exact sema_count. Qed.
Print Assumptions sema_count_invariant.

(* without overflow: #completed acquires <= initial + #releases; the value is the
   difference (never "negative").  With v0 = 1 and every release preceded by an acquire
   of the same thread this is mutual exclusion: acquires - releases <= 1. *)
Theorem sema_acquires_bounded : forall v0 progs sc,
  let s := s_run sc (s_init v0 progs) in
  v0 + s_rel s < 4294967296 ->
  s_val s + s_acq s = v0 + s_rel s /\ s_acq s <= v0 + s_rel s.
Proof. exact sema_count_nowrap. Qed.
Print Assumptions sema_acquires_bounded.

Example sema_nontrivial :
  let s := s_run [(0,0);(1,0);(0,0);(1,0);(1,0);(1,0);(1,0);(1,0);(0,0);(0,0);(0,0)]%nat
                 (s_init 1 [[SAcq; SRel]; [SAcq]]) in
  (s_val s, s_acq s, s_rel s, s_waiters s) = (1, 1, 1, 1).
Proof. reflexivity. Qed.

(* semaAcquire goes to sleep only after reading the count as 0 while holding the
   state mutex (the former defect - sleeping after a lost CompareAndSwap race with the
   count still positive - is repaired): in EVERY state, a step that puts the thread
   into the wait queue saw s_val = 0.  Partial: the global no-lost-wake-up statement
   over schedules (no state with positive count, a parked acquirer and nobody
   runnable) is checked by the harness oracle on the real code, not proved. *)
Theorem sema_parks_only_on_zero_partial : forall s t c s',
  s_step s (t, c) = Some s' -> s_parked s t = false -> s_parked s' t = true ->
  s_val s = 0.
Proof. exact sema_parks_on_zero. Qed.
Print Assumptions sema_parks_only_on_zero_partial.

Example former_lost_wakeup_schedule_now_completes :
  let s := s_run [(0,0);(1,0);(0,0);(0,0);(1,0);(1,0);(0,0);(0,0);(1,0);(1,0);(0,0);(0,0);(0,0)]%nat
                 (s_init 1 [[SAcq]; [SRel; SAcq]]) in
  map s_done (s_ths s) = [1; 2]%nat /\ s_val s = 0 /\ s_waitq s = [].
Proof. exact former_sema_schedule_completes. Qed.

(* F7 repaired - Cond.Wait returns only after a Signal/Broadcast: under every
   schedule, every completed notifyListWait returned with its ticket below l.notify
   in Go's wrap-aware order (n_rets records (ticket, l.notify at return)); l.notify
   only moves by NotifyOne (+1, when it differs from l.wait) and NotifyAll (:= l.wait) *)
Theorem notify_wait_returns_only_after_notify : forall v0 progs sc t th tk nt,
  nth_error (n_ths (n_run sc (n_init v0 progs))) t = Some th ->
  In (tk, nt) (n_rets th) -> less32 tk nt = true.
Proof. exact wait_returns_notified. Qed.
Print Assumptions notify_wait_returns_only_after_notify.

Example former_f7_schedule_now_waits :
  let s := n_run [(0,0);(0,0);(0,0);(0,0);(1,0);(1,0);(1,0);(1,0)]%nat (n_init 0 [[NWait]; [NWait]]) in
  n_waitq s = [0; 1]%nat /\ map n_done (n_ths s) = [0; 0]%nat.
Proof. exact former_f7_schedule_parks_both. Qed.

Example notify_nontrivial :
  let s := n_run [(0,0);(0,0);(0,0);(0,0);(1,0);(1,0);(1,0);(1,0);(1,0);(1,0);(0,0);(0,0)]%nat
                 (n_init 4294967295 [[NWait]; [NOne]]) in
  map n_rets (n_ths s) = [[(4294967295, 0)]; []] /\ n_wrapped s = true.
Proof. vm_compute. auto. Qed.

(* NotifyAll / NotifyOne release the waiters - partial: one-step facts that hold in
   EVERY state.  (1) the Broadcast step of NotifyAll and of NotifyOne empties the wait
   queue and frees the mutex; (2) a woken waiter that gets the mutex completes its call
   after two own steps iff its ticket is below l.notify, otherwise it parks again.
   Not proved: the global statement over schedules (needs the mutex-ownership
   invariant); it is covered by the harness oracles notify-lost-wakeup and
   notify-all-left-earlier-waiter-blocked on the real code. *)
Theorem notifier_wakes_every_waiter_partial : forall s t c th o rest,
  nth_error (n_ths s) t = Some th -> nprog th = o :: rest ->
  (o = NAll /\ n_pc th = MA3) \/ (o = NOne /\ n_pc th = MA4) ->
  n_parked s t = false ->
  exists s', n_step s (t, c) = Some s' /\ n_waitq s' = [] /\ n_mu s' = None.
Proof. exact notifier_bcast_empties. Qed.
Print Assumptions notifier_wakes_every_waiter_partial.

Theorem notify_woken_waiter_returns_partial : forall s t c c' th rest,
  nth_error (n_ths s) t = Some th -> nprog th = NWait :: rest -> n_pc th = MW ->
  n_parked s t = false -> n_mu s = None ->
  exists s1 s2 th2, n_step s (t, c) = Some s1 /\ n_step s1 (t, c') = Some s2 /\
    nth_error (n_ths s2) t = Some th2 /\
    (if less32 (n_ticket th) (n_notify s)
     then nprog th2 = rest /\ n_done th2 = S (n_done th)
     else n_parked s2 t = true /\ n_pc th2 = MW).
Proof. exact woken_waiter_returns. Qed.
Print Assumptions notify_woken_waiter_returns_partial.

(* sync/atomic: every operation of every width is lowered to an LLVM atomic
   instruction with seq_cst ordering (one total order of all atomic operations); the
   table covers every operation x width of Go's API.  props/C11/check.py compares
   the table with the IR the working tree's cl+ssa emit for every sync/atomic function
   and typed method ([lowering_ok], evaluated inside Coq); [lowering_ok_meaning] says
   what an accepted function body contains.  The indivisibility of the instructions
   themselves is LLVM's and the CPU's (assumed). *)
Theorem atomics_table_seq_cst : forall o w, snd (atomic_lowering o w) = OSeqCst.
Proof. exact lowering_all_seq_cst. Qed.
Print Assumptions atomics_table_seq_cst.

Theorem atomics_table_covers_api : forall o w, api_has o w = true -> In (o, w) api_keys.
Proof. exact api_keys_complete. Qed.
Print Assumptions atomics_table_covers_api.

Theorem lowering_ok_meaning : forall pw o w ins, lowering_ok pw (o, w, ins) = true ->
  ins <> [] /\
  forall i w' ords, In (i, w', ords) ins ->
    (i = fst (atomic_lowering o w) \/ expanded_form (fst (atomic_lowering o w)) = Some i) /\
    (w' = w \/ (w = WPtr /\ w' = pw)) /\ ords <> [] /\ forall x, In x ords -> x = OSeqCst.
Proof. exact lowering_ok_sound. Qed.
Print Assumptions lowering_ok_meaning.

Example lowering_rejects_acquire_load :
  lowering_ok W64 (ALoad, W32, [(ILoadAtomic, W32, [OAcquire])]) = false /\
  lowering_ok W64 (AStore, W64, [(IStoreAtomic, W64, [ORelease])]) = false /\
  lowering_ok W64 (ACas, WPtr, [(ICmpXchg, W64, [OSeqCst; OMonotonic])]) = false /\
  lowering_ok W64 (ALoad, W32, []) = false /\
  lowering_ok W64 (ALoad, W32, [(ILoadAtomic, W64, [OSeqCst])]) = false /\
  lowering_ok W64 (AAnd, W32, [(ICmpXchg, W32, [OSeqCst; OSeqCst])]) = true /\
  lowering_ok W64 (AAnd, W32, [(IRmwAnd, W32, [OSeqCst])]) = true /\
  lowering_ok W64 (ACas, WPtr, [(ICmpXchg, W64, [OSeqCst; OSeqCst])]) = true.
Proof. repeat split. Qed.

(* atomic.Value (machine V, every pointer atomic one step): under every schedule and for
   any number of storers and loaders - all stored pointers non-nil, as Store demands -
   the type word is published only after the data word: once the type word is set the
   data word is non-nil, and no Load has ever returned a non-nil type word with a nil data
   word.  (Stores of differently typed values panic and are not modelled; Swap and
   CompareAndSwap share the first-store protocol and are not modelled either.) *)
Theorem value_type_published_after_data : forall progs sc, Forall (Forall vop_ok) progs ->
  let s := v_run false sc (v_init progs) in
  (v_typ s = TSet -> v_data s <> 0) /\
  forall t th d, nth_error (v_ths s) t = Some th -> In (VRVal d) (vout th) -> d <> 0.
Proof. exact value_published. Qed.
Print Assumptions value_type_published_after_data.

(* with the two publishing stores of the first Store the other way round (type word
   first) the statement is false: Store || Load, schedule 1,1,1,0,0,1 *)
Theorem value_reordered_stores_refuted :
  exists progs sc, Forall (Forall vop_ok) progs /\
    let s := v_run true sc (v_init progs) in
    exists th, nth_error (v_ths s) 0 = Some th /\ vout th = [VRVal 0].
Proof. exact value_reordered_ex. Qed.
Print Assumptions value_reordered_stores_refuted.

Example value_nontrivial :
  let s := v_run false [1;1;0;1;2;1;0;2;2;0]%nat (v_init [[VLoad; VLoad]; [VStore 3]; [VStore 5; VLoad]]) in
  (v_typ s, v_data s) = (TSet, 5).
Proof. vm_compute. reflexivity. Qed.
