(* C11 - property theorems only.  Models: C11/Model.v, interleaving semantics of
   sema_llgo.go at the granularity "one step = from one atomic operation / Lock /
   Wait-return / Signal / Broadcast to the next":
     machine S  semaAcquire / semaRelease on one address   ([s_run sc (s_init v0 progs)])
     machine N  notifyListAdd+Wait / NotifyOne / NotifyAll ([n_run sc (n_init v0 progs)])
   A schedule is any list of (thread, choice); a step of a parked thread is a spurious
   wake-up; counters wrap mod 2^32 explicitly.  The count theorems hold for ALL
   schedules and any number of threads (by invariant).  Two statements of the property
   are false of the code: explicit schedules, replayed on the real sema_llgo.go by
   props/C11/check.py on every run. *)
From LLGoV Require Import Lib.Common C11.Model C11.Proofs.
Local Open Scope N_scope.

(* the semaphore count: value + completed acquires (+ 2^32 per overflow of the
   uint32 counter) = initial value + releases, in every reachable state *)
Theorem sema_count_invariant : forall v0 progs sc, v0 < 4294967296 ->
  let s := s_run sc (s_init v0 progs) in
  s_val s + s_acq s + 4294967296 * s_wraps s = v0 + s_rel s /\ s_val s < 4294967296.
Proof. exact sema_count. Qed.
Print Assumptions sema_count_invariant.

(* without overflow: #completed acquires <= initial + #releases; the value is the
   difference (never "negative").  With v0 = 1 and every release preceded by an acquire
   of the same thread this is mutual exclusion: acquires - releases <= 1. *)
Theorem sema_acquires_bounded : forall v0 progs sc,
  let s := s_run sc (s_init v0 progs) in
  v0 + s_rel s < 4294967296 ->
  s_val s + s_acq s = v0 + s_rel s /\ s_acq s <= v0 + s_rel s.
Proof. exact sema_count_nowrap. Qed.
Print Assumptions sema_acquires_bounded.

Example sema_nontrivial :
  let s := s_run [(0,0);(1,0);(0,0);(1,0);(1,0);(1,0);(1,0);(1,0);(0,0);(0,0);(0,0)]%nat
                 (s_init 1 [[SAcq; SRel]; [SAcq]]) in
  (s_val s, s_acq s, s_rel s, s_waiters s) = (1, 1, 1, 1).
Proof. reflexivity. Qed.

(* no lost wake-up is FALSE of semaAcquire: after losing a CompareAndSwap race it
   goes to sleep without re-reading the count.  Final state: nobody can run, thread
   0 is parked inside semaAcquire, the count is 1. *)
Theorem sema_no_lost_wakeup_refuted :
  exists v0 progs sc, let s := s_run sc (s_init v0 progs) in
    (forall t th, nth_error (s_ths s) t = Some th -> s_enabled s t th = false) /\
    s_val s = 1 /\ s_parked s 0 = true /\
    exists th, nth_error (s_ths s) 0 = Some th /\ sprog th = [SAcq] /\ s_pc th = QW.
Proof.
  exists 1, [[SAcq]; [SRel; SAcq]],
    [(0,0);(1,0);(0,0);(0,0);(1,0);(1,0);(0,0);(0,0);(1,0);(1,0);(0,0)]%nat.
  exact sema_parks_positive.
Qed.
Print Assumptions sema_no_lost_wakeup_refuted.

(* F7: Cond.Wait returns only after a Signal/Broadcast - FALSE of notifyListWait.
   Two waiters, no notifier in any program, no wrap-around: the second waiter
   (ticket 1) has completed its wait while l.notify = 0 (less32 1 0 = false). *)
Theorem notify_wait_returns_only_after_notify_refuted :
  exists sc, let s := n_run sc (n_init 0 [[NWait]; [NWait]]) in
    n_notify s = 0 /\ n_wrapped s = false /\
    exists th, nth_error (n_ths s) 1 = Some th /\ nprog th = [] /\ n_done th = 1%nat /\
               n_tickets th = [1] /\ less32 1 (n_notify s) = false.
Proof. exists [(0,0);(0,0);(0,0);(0,0);(1,0);(1,0);(1,0);(1,0)]%nat. exact f7_wait_returns. Qed.
Print Assumptions notify_wait_returns_only_after_notify_refuted.

(* NotifyAll releases every earlier waiter - partial: two one-step facts that hold in
   EVERY state (reachable or not).  (1) the Broadcast step of NotifyAll empties the
   wait queue and frees the mutex; (2) a woken waiter that gets the mutex completes
   its call after two own steps unless l.notify equals its ticket (the code's
   criterion), in which case it parks again.  Not proved: the global statement over
   schedules (needs the mutex-ownership invariant); the quantified property is
   covered by the harness oracle notify-lost-wakeup on the real code. *)
Theorem notify_all_wakes_every_waiter_partial : forall s t c th rest,
  nth_error (n_ths s) t = Some th -> nprog th = NAll :: rest -> n_pc th = MA3 ->
  n_parked s t = false ->
  exists s', n_step s (t, c) = Some s' /\ n_waitq s' = [] /\ n_mu s' = None.
Proof. exact notify_all_bcast_empties. Qed.
Print Assumptions notify_all_wakes_every_waiter_partial.

Theorem notify_woken_waiter_returns_partial : forall s t c c' th rest,
  nth_error (n_ths s) t = Some th -> nprog th = NWait :: rest -> n_pc th = MW ->
  n_parked s t = false -> n_mu s = None ->
  exists s1 s2 th2, n_step s (t, c) = Some s1 /\ n_step s1 (t, c') = Some s2 /\
    nth_error (n_ths s2) t = Some th2 /\
    (if n_notify s =? n_ticket th
     then n_parked s2 t = true /\ n_pc th2 = MW
     else nprog th2 = rest /\ n_done th2 = S (n_done th)).
Proof. exact woken_waiter_returns. Qed.
Print Assumptions notify_woken_waiter_returns_partial.
