(* C12 - lemmas.  Main result: on a topologically numbered (acyclic) import graph
   the guarded init functions produce exactly the de-duplicated post-order of the
   graph; everything else is derived from that. *)
From LLGoV Require Import C12.Model.
From Coq Require Import Arith Lia.

(* ---------- booleans ---------- *)

Lemma event_eqb_eq a b : event_eqb a b = true <-> a = b.
Proof.
  destruct a, b; cbn; rewrite ?Nat.eqb_eq; split; intros H; try discriminate; try congruence.
Qed.

Lemma memE_In x l : memE x l = true <-> In x l.
Proof.
  unfold memE. rewrite existsb_exists. split.
  - intros [y [Hy E]]. apply event_eqb_eq in E. now subst.
  - intros H. exists x. split; [assumption|]. now apply event_eqb_eq.
Qed.

Lemma memE_false x l : memE x l = false <-> ~ In x l.
Proof. rewrite <- memE_In. destruct (memE x l); split; congruence. Qed.

Lemma memN_In x l : memN x l = true <-> In x l.
Proof.
  unfold memN. rewrite existsb_exists. split.
  - intros [y [Hy E]]. apply Nat.eqb_eq in E. now subst.
  - intros H. exists x. split; [assumption|]. apply Nat.eqb_refl.
Qed.

Lemma memN_cons x p l : memN x (p :: l) = Nat.eqb x p || memN x l.
Proof. reflexivity. Qed.

Definition event_eq_dec (a b : event) : {a = b} + {a <> b}.
Proof. decide equality; apply Nat.eq_dec. Defined.

(* ---------- add_new ---------- *)

Lemma add_new_app acc l1 l2 : add_new acc (l1 ++ l2) = add_new (add_new acc l1) l2.
Proof.
  revert acc. induction l1 as [|x l1 IH]; intros acc; cbn; [reflexivity|].
  destruct (memE x acc); apply IH.
Qed.

Lemma add_new_incl acc l : (forall x, In x l -> In x acc) -> add_new acc l = acc.
Proof.
  induction l as [|x l IH]; intros H; cbn; [reflexivity|].
  assert (E : memE x acc = true) by (apply memE_In, H; now left).
  rewrite E. apply IH. intros y Hy. apply H. now right.
Qed.

Lemma add_new_In acc l x : In x (add_new acc l) <-> In x acc \/ In x l.
Proof.
  revert acc. induction l as [|y l IH]; intros acc; cbn.
  - tauto.
  - destruct (memE y acc) eqn:E.
    + rewrite IH. apply memE_In in E. split; [tauto|]. intros [H|[H|H]]; subst; tauto.
    + rewrite IH, in_app_iff. cbn. tauto.
Qed.

Lemma add_new_single acc x : ~ In x acc -> add_new acc [x] = acc ++ [x].
Proof. intros H. cbn. apply memE_false in H. now rewrite H. Qed.

Lemma add_new_prefix acc l : exists t, add_new acc l = acc ++ t.
Proof.
  revert acc. induction l as [|y l IH]; intros acc; cbn.
  - exists []. now rewrite app_nil_r.
  - destruct (memE y acc); [apply IH|].
    destruct (IH (acc ++ [y])) as [t Ht]. exists (y :: t). rewrite Ht, <- app_assoc. reflexivity.
Qed.

Lemma add_new_NoDup acc l : NoDup acc -> NoDup (add_new acc l).
Proof.
  revert acc. induction l as [|y l IH]; intros acc H; cbn; [assumption|].
  destruct (memE y acc) eqn:E; [now apply IH|].
  apply IH. apply memE_false in E.
  apply NoDup_app_remove_l with (l := []) || idtac.
  clear IH. induction acc as [|a acc IHa]; cbn.
  - constructor; [intros []|constructor].
  - inversion H; subst. constructor.
    + rewrite in_app_iff. cbn. intros [H0|[H0|[]]]; [tauto|]. subst. apply E. now left.
    + apply IHa; [assumption|]. intros H0. apply E. now right.
Qed.

(* ---------- well-formedness ---------- *)

Lemma wf_from_nth k g i pk : wf_from k g = true -> nth_error g i = Some pk -> wf_pkg (k + i) pk = true.
Proof.
  revert k i. induction g as [|a g IH]; intros k i W E; [destruct i; discriminate|].
  cbn in W. apply andb_true_iff in W as [W1 W2]. destruct i; cbn in E.
  - inversion E; subst. now rewrite Nat.add_0_r.
  - replace (k + S i) with (S k + i) by lia. now apply IH.
Qed.

Lemma wf_nth g p pk : wf g = true -> nth_error g p = Some pk -> wf_pkg p pk = true.
Proof. intros W E. exact (wf_from_nth 0 g p pk W E). Qed.

Lemma eff_In g l q : In q (eff g l) -> In q l.
Proof. unfold eff. rewrite filter_In. tauto. Qed.

Lemma wf_imps g p pk q : wf g = true -> nth_error g p = Some pk -> In q (pk_imps pk) -> q < p.
Proof.
  intros W E H. pose proof (wf_nth g p pk W E) as Wp. unfold wf_pkg in Wp.
  apply andb_true_iff in Wp as [W1 _]. rewrite forallb_forall in W1.
  apply Nat.ltb_lt. now apply W1.
Qed.

Lemma wf_orig g p pk oi q : wf g = true -> nth_error g p = Some pk -> pk_kind pk = KPatched oi -> In q oi -> q < p.
Proof.
  intros W E K H. pose proof (wf_nth g p pk W E) as Wp. unfold wf_pkg in Wp.
  apply andb_true_iff in Wp as [_ W2]. rewrite K, forallb_forall in W2.
  apply Nat.ltb_lt. now apply W2.
Qed.

Lemma children_lt g p q : wf g = true -> In q (children g p) -> q < p.
Proof.
  intros W. unfold children. destruct (nth_error g p) as [pk|] eqn:E; [|intros []].
  destruct (pk_kind pk) eqn:K; rewrite ?in_app_iff; intros H.
  - eapply wf_imps; eauto using eff_In.
  - destruct H as [H|H]; [eapply wf_orig|eapply wf_imps]; eauto using eff_In.
  - eapply wf_imps; eauto using eff_In.
Qed.

(* ---------- post-order: fuel independence and unfolding ---------- *)

Lemma flat_map_ext_in' {A B} (f h : A -> list B) l : (forall a, In a l -> f a = h a) -> flat_map f l = flat_map h l.
Proof.
  induction l as [|a l IH]; intros H; cbn; [reflexivity|].
  rewrite H by now left. f_equal. apply IH. intros b Hb. apply H. now right.
Qed.

Lemma po_fuel g : wf g = true -> forall f1 f2 p, p < f1 -> p < f2 -> po g f1 p = po g f2 p.
Proof.
  intros W. induction f1 as [|n1 IH]; intros f2 p H1 H2; [lia|].
  destruct f2 as [|n2]; [lia|]. cbn.
  destruct (nth_error g p) as [pk|] eqn:E; [|reflexivity].
  assert (HI : forall l, (forall q, In q l -> q < p) -> flat_map (po g n1) (eff g l) = flat_map (po g n2) (eff g l)).
  { intros l Hl. apply flat_map_ext_in'. intros q Hq. apply eff_In in Hq. apply Hl in Hq. apply IH; lia. }
  destruct (pk_kind pk) eqn:K.
  - rewrite HI; [reflexivity|]. intros q Hq. eapply wf_imps; eauto.
  - rewrite (HI orig_imps), (HI (pk_imps pk)); [reflexivity| |].
    + intros q Hq. eapply wf_imps; eauto.
    + intros q Hq. eapply wf_orig; eauto.
  - rewrite HI; [reflexivity|]. intros q Hq. eapply wf_imps; eauto.
Qed.

Definition pre_of (g : prog) (p : pkgid) (pk : pkg) : list event :=
  match pk_kind pk with
  | KPatched oi => flat_map (postorder g) (eff g oi) ++ [EOrig p]
  | _ => []
  end.

Lemma postorder_unfold g p pk : wf g = true -> nth_error g p = Some pk ->
  postorder g p = pre_of g p pk ++ flat_map (postorder g) (eff g (pk_imps pk)) ++ [EMain p].
Proof.
  intros W E. unfold postorder at 1. cbn [po]. rewrite E.
  assert (HI : forall l, (forall q, In q l -> q < p) -> flat_map (po g p) (eff g l) = flat_map (postorder g) (eff g l)).
  { intros l Hl. apply flat_map_ext_in'. intros q Hq. apply eff_In in Hq. apply Hl in Hq.
    unfold postorder. apply po_fuel; auto. }
  unfold pre_of. destruct (pk_kind pk) eqn:K.
  - rewrite HI; [reflexivity|]. intros q Hq. eapply wf_imps; eauto.
  - rewrite (HI orig_imps), (HI (pk_imps pk)).
    + now rewrite <- app_assoc.
    + intros q Hq. eapply wf_imps; eauto.
    + intros q Hq. eapply wf_orig; eauto.
  - rewrite HI; [reflexivity|]. intros q Hq. eapply wf_imps; eauto.
Qed.

Lemma postorder_none g p : nth_error g p = None -> postorder g p = [].
Proof. intros E. unfold postorder. cbn. now rewrite E. Qed.

Lemma postorder_bound g : wf g = true -> forall p e, In e (postorder g p) -> ev_pkg e <= p.
Proof.
  intros W p. induction p as [p IH] using lt_wf_ind. intros e H.
  destruct (nth_error g p) as [pk|] eqn:E; [|rewrite postorder_none in H by assumption; destruct H].
  rewrite (postorder_unfold g p pk W E) in H.
  assert (HF : forall l, (forall q, In q l -> q < p) -> In e (flat_map (postorder g) (eff g l)) -> ev_pkg e <= p).
  { intros l Hl Hin. apply in_flat_map in Hin as [q [Hq He]]. apply eff_In, Hl in Hq.
    specialize (IH q Hq e He). lia. }
  rewrite !in_app_iff in H. destruct H as [H|[H|H]].
  - unfold pre_of in H. destruct (pk_kind pk) eqn:K; try destruct H.
    rewrite in_app_iff in H. destruct H as [H|[H|[]]].
    + eapply HF; [|exact H]. intros q Hq. eapply wf_orig; eauto.
    + subst. cbn. lia.
  - eapply HF; [|exact H]. intros q Hq. eapply wf_imps; eauto.
  - destruct H as [H|[]]. subst. cbn. lia.
Qed.

(* ---------- the invariant ---------- *)

Definition inv (g : prog) (b : nat) (s : state) : Prop :=
  forall x, x < b ->
    (memN x (guards s) = true <-> In (EMain x) (trace s)) /\
    (In (EMain x) (trace s) -> incl (postorder g x) (trace s)) /\
    (In (EOrig x) (trace s) -> In (EMain x) (trace s)).

Lemma inv_weaken g b b' s : b' <= b -> inv g b s -> inv g b' s.
Proof. intros H I x Hx. apply I. lia. Qed.

Lemma inv_guard g b s p : b <= p -> inv g b s -> inv g b {| guards := p :: guards s; trace := trace s |}.
Proof.
  intros Hp I x Hx. destruct (I x Hx) as [I1 [I2 I3]]. cbn [guards trace].
  rewrite memN_cons. assert (Nat.eqb x p = false) as -> by (apply Nat.eqb_neq; lia). cbn. tauto.
Qed.

Lemma inv_extend g b s e : b <= ev_pkg e -> inv g b s -> inv g b {| guards := guards s; trace := trace s ++ [e] |}.
Proof.
  intros He I x Hx. destruct (I x Hx) as [I1 [I2 I3]]. cbn [guards trace].
  assert (N1 : e <> EMain x) by (intros ->; cbn in He; lia).
  assert (N2 : e <> EOrig x) by (intros ->; cbn in He; lia).
  rewrite !in_app_iff. cbn. split; [|split].
  - rewrite I1. split; [tauto|]. intros [H|[H|[]]]; [assumption|congruence].
  - intros [H|[H|[]]]; [|congruence]. intros y Hy. apply in_app_iff. left. now apply I2.
  - intros [H|[H|[]]]; [|congruence]. left. now apply I3.
Qed.

(* what a call of FInit q has to achieve *)
Definition init_ok (g : prog) (q : pkgid) : Prop :=
  forall fuel s b, 2 * q + 1 < fuel -> q < b -> inv g b s ->
    let s' := run g fuel (FInit q) s in
    trace s' = add_new (trace s) (postorder g q) /\ inv g b s' /\
    (forall x, q < x -> memN x (guards s') = memN x (guards s)).

Lemma fold_spec g p : (forall q, q < p -> init_ok g q) ->
  forall l n s, (forall q, In q l -> q < p) -> 2 * p <= n -> inv g p s ->
    let s' := fold_left (fun s c => run g n c s) (map FInit l) s in
    trace s' = add_new (trace s) (flat_map (postorder g) l) /\ inv g p s' /\
    (forall x, p <= x -> memN x (guards s') = memN x (guards s)).
Proof.
  intros IH l. induction l as [|q l IHl]; intros n s Hl Hn I; cbn.
  - split; [reflexivity|]. split; [assumption|reflexivity].
  - assert (Hq : q < p) by (apply Hl; now left).
    destruct (IH q Hq n s p) as [T1 [I1 F1]]; [lia|assumption|assumption|].
    destruct (IHl n (run g n (FInit q) s)) as [T2 [I2 F2]]; [intros r Hr; apply Hl; now right|assumption|assumption|].
    split; [|split].
    + rewrite T2, T1, add_new_app. reflexivity.
    + assumption.
    + intros x Hx. rewrite F2 by assumption. apply F1. lia.
Qed.

Lemma not_in_children_events g (W : wf g = true) p l e :
  (forall q, In q l -> q < p) -> p <= ev_pkg e -> ~ In e (flat_map (postorder g) l).
Proof.
  intros Hl He H. apply in_flat_map in H as [q [Hq Hin]].
  apply Hl in Hq. pose proof (postorder_bound g W q e Hin). lia.
Qed.

Lemma finish g (W : wf g = true) p pk b s s2 L :
  nth_error g p = Some pk -> p < b -> inv g b s -> memN p (guards s) = false ->
  inv g p s2 ->
  (forall x, p <= x -> memN x (guards s2) = Nat.eqb x p || memN x (guards s)) ->
  trace s2 = add_new (trace s) L ->
  L ++ [EMain p] = postorder g p ->
  ~ In (EMain p) L ->
  let s3 := {| guards := guards s2; trace := trace s2 ++ [EMain p] |} in
  trace s3 = add_new (trace s) (postorder g p) /\ inv g b s3 /\
  (forall x, p < x -> memN x (guards s3) = memN x (guards s)).
Proof.
  intros E Hb I G I2 F T HL NL s3.
  assert (NT : ~ In (EMain p) (trace s)).
  { intros H. destruct (I p Hb) as [I1 _]. apply I1 in H. congruence. }
  assert (N2 : ~ In (EMain p) (trace s2)).
  { rewrite T, add_new_In. tauto. }
  assert (T3 : trace s3 = add_new (trace s) (postorder g p)).
  { cbn [s3 trace]. rewrite <- HL, add_new_app, <- T. symmetry. now apply add_new_single. }
  split; [exact T3|]. split.
  - intros x Hx. destruct (Nat.lt_trichotomy x p) as [Hlt|[Heq|Hgt]].
    + (* below p: from the inner invariant *)
      apply (inv_extend g p s2 (EMain p)); [cbn; lia|assumption|assumption].
    + subst x. cbn [s3 guards]. rewrite F by lia. rewrite Nat.eqb_refl. cbn [orb].
      rewrite T3. split; [|split].
      * split; [intros _|reflexivity]. apply add_new_In. right. rewrite <- HL. apply in_app_iff. right. now left.
      * intros _ y Hy. apply add_new_In. now right.
      * intros _. apply add_new_In. right. rewrite <- HL. apply in_app_iff. right. now left.
    + (* between p and b: nothing changed *)
      destruct (I x Hx) as [I1' [I2' I3']]. cbn [s3 guards]. rewrite F by lia.
      assert (Nat.eqb x p = false) as -> by (apply Nat.eqb_neq; lia). cbn [orb].
      rewrite T3.
      assert (Hnew : forall e, ev_pkg e = x -> In e (add_new (trace s) (postorder g p)) <-> In e (trace s)).
      { intros e He. rewrite add_new_In. split; [|tauto]. intros [H|H]; [assumption|].
        pose proof (postorder_bound g W p e H). lia. }
      rewrite (Hnew (EMain x)), (Hnew (EOrig x)) by reflexivity. split; [exact I1'|]. split; [|exact I3'].
      intros H y Hy. apply add_new_In. left. now apply I2'.
  - intros x Hx. cbn [s3 guards]. rewrite F by lia.
    assert (Nat.eqb x p = false) as -> by (apply Nat.eqb_neq; lia). reflexivity.
Qed.

Lemma run_old_unfold g n (p : pkgid) pk oi s : nth_error g p = Some pk -> pk_kind pk = KPatched oi ->
  memN p (guards s) = true ->
  run g (S n) (FOld p) s =
  let s2 := fold_left (fun s c => run g n c s) (map FInit (eff g oi)) {| guards := p :: guards s; trace := trace s |} in
  {| guards := guards s2; trace := trace s2 ++ [EOrig p] |}.
Proof.
  intros E K G. cbn [run compile]. rewrite E, K. cbn [sk_ret_when sk_calls sk_body pkg_of]. rewrite G. reflexivity.
Qed.

Lemma run_init_ok g : wf g = true -> forall p, init_ok g p.
Proof.
  intros W p. induction p as [p IH] using lt_wf_ind.
  intros fuel s b Hf Hb I. destruct fuel as [|n]; [lia|]. cbn [run compile].
  destruct (nth_error g p) as [pk|] eqn:E.
  2:{ rewrite (postorder_none g p E). cbn. split; [reflexivity|]. split; [assumption|reflexivity]. }
  assert (Himps : forall q, In q (eff g (pk_imps pk)) -> q < p).
  { intros q Hq. eapply wf_imps; eauto using eff_In. }
  (* the guard test *)
  assert (Hret : memN p (guards s) = true ->
           trace s = add_new (trace s) (postorder g p)).
  { intros G. symmetry. apply add_new_incl. destruct (I p Hb) as [I1 [I2 _]]. apply I2, I1, G. }
  destruct (pk_kind pk) eqn:K; cbn [sk_ret_when sk_calls sk_body pkg_of].
  - (* normal *)
    destruct (memN p (guards s)) eqn:G; cbn [Bool.eqb].
    { split; [now apply Hret|]. split; [assumption|reflexivity]. }
    set (s1 := {| guards := p :: guards s; trace := trace s |}).
    destruct (fold_spec g p IH (eff g (pk_imps pk)) n s1) as [T2 [I2 F2]]; [assumption|lia| |].
    { apply inv_guard; [lia|]. eapply inv_weaken; [|exact I]. lia. }
    eapply finish; eauto.
    + rewrite (postorder_unfold g p pk W E). unfold pre_of. rewrite K. reflexivity.
    + apply (not_in_children_events g W p); [assumption|cbn; lia].
  - (* patched: the renamed original runs first *)
    destruct (memN p (guards s)) eqn:G; cbn [Bool.eqb].
    { split; [now apply Hret|]. split; [assumption|reflexivity]. }
    assert (Horig : forall q, In q (eff g orig_imps) -> q < p).
    { intros q Hq. eapply wf_orig; eauto using eff_In. }
    cbn [map fold_left].
    destruct n as [|n']; [lia|].
    assert (G1 : memN p (guards {| guards := @cons pkgid p (guards s); trace := trace s |}) = true)
      by (cbn [guards]; rewrite memN_cons, Nat.eqb_refl; reflexivity).
    rewrite (run_old_unfold g n' p pk orig_imps _ E K G1). cbv zeta. cbn [guards trace].
    set (s1' := {| guards := @cons pkgid p (@cons pkgid p (guards s)); trace := trace s |}).
    assert (I1 : inv g p s1').
    { apply (inv_guard g p {| guards := p :: guards s; trace := trace s |}); [lia|].
      apply inv_guard; [lia|]. eapply inv_weaken; [|exact I]. lia. }
    destruct (fold_spec g p IH (eff g orig_imps) n' s1') as [T2 [I2 F2]]; [assumption|lia|assumption|].
    set (s2 := fold_left (fun s c => run g n' c s) (map FInit (eff g orig_imps)) s1') in *.
    set (so := {| guards := guards s2; trace := trace s2 ++ [EOrig p] |}).
    assert (NO : ~ In (EOrig p) (trace s2)).
    { rewrite T2, add_new_In. intros [H|H].
      - destruct (I p Hb) as [I1' [_ I3']]. cbn [s1' trace] in H. apply I3', I1' in H. congruence.
      - revert H. apply (not_in_children_events g W p); [assumption|cbn; lia]. }
    assert (Io : inv g p so) by (apply inv_extend; [cbn; lia|assumption]).
    destruct (fold_spec g p IH (eff g (pk_imps pk)) (S n') so) as [T3 [I3 F3]]; [assumption|lia|assumption|].
    eapply finish with (L := flat_map (postorder g) (eff g orig_imps) ++ [EOrig p] ++ flat_map (postorder g) (eff g (pk_imps pk))); eauto.
    all: fold s1'; fold s2; fold so.
    + intros x Hx. rewrite F3 by assumption. cbn [so guards]. rewrite F2 by assumption.
      cbn [s1' guards]. rewrite !memN_cons. destruct (Nat.eqb x p); reflexivity.
    + etransitivity; [exact T3|]. cbn [so trace]. rewrite T2. cbn [s1' trace].
      rewrite !add_new_app. f_equal. symmetry. apply add_new_single.
      change (trace s) with (trace s1'). rewrite <- T2. exact NO.
    + rewrite (postorder_unfold g p pk W E). unfold pre_of. rewrite K. now rewrite <- !app_assoc.
    + rewrite !in_app_iff. intros [H|[H|H]].
      * revert H. apply (not_in_children_events g W p); [assumption|cbn; lia].
      * destruct H as [H|[]]. discriminate.
      * revert H. apply (not_in_children_events g W p); [assumption|cbn; lia].
  - (* patched, original init not compiled *)
    destruct (memN p (guards s)) eqn:G; cbn [Bool.eqb].
    { split; [now apply Hret|]. split; [assumption|reflexivity]. }
    set (s1 := {| guards := p :: guards s; trace := trace s |}).
    destruct (fold_spec g p IH (eff g (pk_imps pk)) n s1) as [T2 [I2 F2]]; [assumption|lia| |].
    { apply inv_guard; [lia|]. eapply inv_weaken; [|exact I]. lia. }
    eapply finish; eauto.
    + rewrite (postorder_unfold g p pk W E). unfold pre_of. rewrite K. reflexivity.
    + apply (not_in_children_events g W p); [assumption|cbn; lia].
Qed.

(* ---------- whole programs ---------- *)

Lemma inv_st0 g b : inv g b st0.
Proof. intros x _. cbn. split; [split; [discriminate|intros []]|]. split; intros []. Qed.

Lemma exec_from_spec g (W : wf g = true) roots : forall s,
  Forall (fun r => r < length g) roots -> inv g (length g) s ->
  let s' := exec_from g roots s in
  trace s' = add_new (trace s) (flat_map (postorder g) roots) /\ inv g (length g) s'.
Proof.
  induction roots as [|r roots IH]; intros s HR I.
  - cbn. split; [reflexivity|assumption].
  - inversion HR as [|? ? Hr HR']; subst.
    destruct (run_init_ok g W r (fuel_of g) s (length g)) as [T1 [I1 _]]; [unfold fuel_of; lia|assumption|assumption|].
    destruct (IH (run g (fuel_of g) (FInit r) s) HR' I1) as [T2 I2].
    change (exec_from g (r :: roots) s) with (exec_from g roots (run g (fuel_of g) (FInit r) s)).
    cbv zeta. split; [|exact I2]. rewrite T2, T1. cbn [flat_map]. rewrite add_new_app. reflexivity.
Qed.

Lemma exec_is_postorder g roots : wf g = true -> Forall (fun r => r < length g) roots ->
  exec g roots = dedup (flat_map (postorder g) roots).
Proof.
  intros W HR. unfold exec, dedup.
  destruct (exec_from_spec g W roots st0 HR (inv_st0 g _)) as [T _]. exact T.
Qed.

Lemma exec_NoDup g roots : wf g = true -> Forall (fun r => r < length g) roots -> NoDup (exec g roots).
Proof. intros W HR. rewrite exec_is_postorder by assumption. apply add_new_NoDup. constructor. Qed.

Lemma exec_In g roots e : wf g = true -> Forall (fun r => r < length g) roots ->
  (In e (exec g roots) <-> exists r, In r roots /\ In e (postorder g r)).
Proof.
  intros W HR. rewrite exec_is_postorder by assumption. unfold dedup. rewrite add_new_In, in_flat_map.
  split; [intros [[]|H]; exact H|intros H; now right].
Qed.

(* ---------- membership in the post-order is reachability ---------- *)

Definition patched (g : prog) (p : pkgid) : Prop :=
  exists pk oi, nth_error g p = Some pk /\ pk_kind pk = KPatched oi.

Definition valid_ev (g : prog) (e : event) : Prop :=
  match e with EMain _ => True | EOrig p => patched g p end.

Lemma children_In g p pk q : nth_error g p = Some pk ->
  (In q (children g p) <->
   In q (eff g (pk_imps pk)) \/ exists oi, pk_kind pk = KPatched oi /\ In q (eff g oi)).
Proof.
  intros E. unfold children. rewrite E. destruct (pk_kind pk) eqn:K; rewrite ?in_app_iff.
  - split; [tauto|]. intros [H|[oi [H _]]]; [assumption|discriminate].
  - split.
    + intros [H|H]; [right; eauto|now left].
    + intros [H|[oi [H1 H2]]]; [now right|]. inversion H1; subst. now left.
  - split; [tauto|]. intros [H|[oi [H _]]]; [assumption|discriminate].
Qed.

Lemma postorder_In g (W : wf g = true) : forall p e,
  In e (postorder g p) <->
  (nth_error g p <> None /\ e = EMain p) \/ (e = EOrig p /\ patched g p) \/
  exists q, In q (children g p) /\ In e (postorder g q).
Proof.
  intros p e. destruct (nth_error g p) as [pk|] eqn:E.
  2:{ rewrite postorder_none by assumption. split; [intros []|].
      intros [[H _]|[[_ [pk [oi [H _]]]]|[q [H _]]]]; [congruence|congruence|].
      unfold children in H. rewrite E in H. destruct H. }
  rewrite (postorder_unfold g p pk W E), !in_app_iff. unfold pre_of.
  split.
  - intros [H|[H|[H|[]]]].
    + destruct (pk_kind pk) eqn:K; try destruct H. apply in_app_iff in H as [H|[H|[]]].
      * apply in_flat_map in H as [q [Hq He]]. right. right. exists q. split; [|assumption].
        apply (children_In g p pk q E). right. eauto.
      * subst. right. left. split; [reflexivity|]. exists pk, orig_imps. auto.
    + apply in_flat_map in H as [q [Hq He]]. right. right. exists q. split; [|assumption].
      apply (children_In g p pk q E). now left.
    + subst. left. split; [congruence|reflexivity].
  - intros [[_ H]|[[H [pk' [oi [E' K]]]]|[q [Hq He]]]].
    + subst. right. right. now left.
    + subst. rewrite E in E'. inversion E'; subst pk'. rewrite K. left. apply in_app_iff. right. now left.
    + apply (children_In g p pk q E) in Hq as [Hq|[oi [K Hq]]].
      * right. left. apply in_flat_map. eauto.
      * left. rewrite K. apply in_app_iff. left. apply in_flat_map. eauto.
Qed.

Lemma reach_lt g p r : reach g p r -> r < length g.
Proof. induction 1; assumption. Qed.

Lemma postorder_reach g (W : wf g = true) : forall p e,
  In e (postorder g p) <-> reach g p (ev_pkg e) /\ valid_ev g e.
Proof.
  intros p. induction p as [p IH] using lt_wf_ind. intros e.
  rewrite (postorder_In g W p e). split.
  - intros [[H1 H2]|[[H1 H2]|[q [Hq He]]]].
    + subst. cbn. split; [|exact I]. apply reach_refl. apply nth_error_Some. exact H1.
    + subst. cbn. split; [|exact H2]. apply reach_refl. destruct H2 as [pk [oi [E _]]].
      apply nth_error_Some. congruence.
    + apply IH in He; [|eapply children_lt; eauto]. destruct He as [R V].
      split; [|exact V]. eapply reach_step; eauto.
  - intros [R V]. remember (ev_pkg e) as r eqn:Er. destruct R as [p Hp|p q r Hq R].
    + destruct e as [x|x]; cbn in Er; subst x.
      * left. split; [|reflexivity]. now apply nth_error_Some.
      * right. left. split; [reflexivity|exact V].
    + right. right. exists q. split; [assumption|]. apply IH; [eapply children_lt; eauto|].
      subst r. split; assumption.
Qed.

(* ---------- exactly once ---------- *)

Lemma count_one l (e : event) : NoDup l -> In e l -> count_occ event_eq_dec l e = 1.
Proof.
  intros N H. pose proof (proj1 (NoDup_count_occ event_eq_dec l) N e) as H1.
  pose proof (proj1 (count_occ_In event_eq_dec l e) H) as H2. lia.
Qed.

Lemma exactly_once g roots r p : wf g = true -> Forall (fun r => r < length g) roots ->
  In r roots -> reach g r p -> count_occ event_eq_dec (exec g roots) (EMain p) = 1.
Proof.
  intros W HR Hr R. apply count_one; [now apply exec_NoDup|].
  apply exec_In; try assumption. exists r. split; [assumption|].
  apply postorder_reach; [assumption|]. cbn. split; [assumption|exact I].
Qed.

Lemma only_reachable g roots p : wf g = true -> Forall (fun r => r < length g) roots ->
  In (EMain p) (exec g roots) -> exists r, In r roots /\ reach g r p.
Proof.
  intros W HR H. apply exec_In in H; try assumption. destruct H as [r [Hr H]].
  exists r. split; [assumption|]. apply postorder_reach in H; [|assumption]. apply H.
Qed.

(* ---------- order ---------- *)

(* every occurrence of b is preceded by an occurrence of a *)
Definition prec (a b : event) (l : list event) : Prop :=
  forall l1 l2, l = l1 ++ b :: l2 -> In a l1.

Lemma app_split {A} (l m l1 l2 : list A) b : l ++ m = l1 ++ b :: l2 ->
  (exists k, l = l1 ++ b :: k /\ l2 = k ++ m) \/ (exists k, l1 = l ++ k /\ m = k ++ b :: l2).
Proof.
  revert l1. induction l as [|x l IH]; intros l1 H; cbn in H.
  - right. exists l1. auto.
  - destruct l1 as [|y l1]; cbn in H; inversion H; subst.
    + left. exists l. auto.
    + destruct (IH l1 H2) as [[k [H3 H4]]|[k [H3 H4]]].
      * left. exists k. subst. auto.
      * right. exists k. subst. auto.
Qed.

Lemma prec_nil a b : prec a b [].
Proof. intros l1 l2 H. destruct l1; discriminate. Qed.

Lemma prec_single a b x : x <> b -> prec a b [x].
Proof.
  intros N l1 l2 H. destruct l1 as [|y l1]; cbn in H; inversion H; subst; [congruence|].
  destruct l1; discriminate.
Qed.

Lemma prec_app a b l m : prec a b l -> In a l \/ prec a b m -> prec a b (l ++ m).
Proof.
  intros Pl Pm l1 l2 H. apply app_split in H as [[k [H1 H2]]|[k [H1 H2]]].
  - eapply Pl; eauto.
  - subst l1. apply in_app_iff. destruct Pm as [Pm|Pm]; [now left|]. right. eapply Pm; eauto.
Qed.

Lemma prec_flat_map {A} a b (f : A -> list event) l :
  (forall x, In x l -> prec a b (f x)) -> prec a b (flat_map f l).
Proof.
  induction l as [|x l IH]; intros H; cbn; [apply prec_nil|].
  apply prec_app; [apply H; now left|]. right. apply IH. intros y Hy. apply H. now right.
Qed.

Lemma prec_hit a b l : In a l -> prec a b l -> prec a b (l ++ [b]).
Proof.
  intros Ha P. apply prec_app; [assumption|now left].
Qed.

Lemma prec_add_new a b : forall l acc, prec a b acc ->
  (forall l1 l2, l = l1 ++ b :: l2 -> In a l1 \/ In a acc) -> prec a b (add_new acc l).
Proof.
  induction l as [|x l IH]; intros acc Pa H; cbn; [assumption|].
  destruct (memE x acc) eqn:E.
  - apply IH; [assumption|]. intros l1 l2 Hl. destruct (H (x :: l1) l2) as [H1|H1]; [cbn; now f_equal| |now right].
    destruct H1 as [H1|H1]; [|now left]. subst. right. now apply memE_In.
  - apply IH.
    + destruct (event_eq_dec x b) as [->|N].
      * apply prec_app; [assumption|]. left. destruct (H [] l eq_refl) as [[]|H1]. exact H1.
      * apply prec_app; [assumption|]. right. now apply prec_single.
    + intros l1 l2 Hl. destruct (H (x :: l1) l2) as [H1|H1]; [cbn; now f_equal| |].
      * destruct H1 as [H1|H1]; [|now left]. subst. right. apply in_app_iff. right. now left.
      * right. apply in_app_iff. now left.
Qed.

Lemma prec_dedup a b l : prec a b l -> prec a b (dedup l).
Proof.
  intros P. apply prec_add_new; [apply prec_nil|]. intros l1 l2 H. left. eapply P; eauto.
Qed.

Definition before (a b : event) (l : list event) : Prop :=
  exists l1 l2 l3, l = l1 ++ a :: l2 ++ b :: l3.

Lemma prec_before a b l : prec a b l -> In b l -> before a b l.
Proof.
  intros P H. apply in_split in H as [l1 [l3 H]]. pose proof (P l1 l3 H) as Ha.
  apply in_split in Ha as [k1 [k2 Ha]]. exists k1, k2, l3. subst. now rewrite <- app_assoc.
Qed.

Lemma In_postorder_self g p pk : wf g = true -> nth_error g p = Some pk -> In (EMain p) (postorder g p).
Proof. intros W E. rewrite (postorder_unfold g p pk W E), !in_app_iff. right. right. now left. Qed.

(* node-local precedence facts, lifted to every post-order by induction *)
Lemma prec_lift g (W : wf g = true) a b :
  (forall r pk, nth_error g r = Some pk ->
     (forall q, q < r -> prec a b (postorder g q)) -> prec a b (postorder g r)) ->
  forall r, prec a b (postorder g r).
Proof.
  intros H r. induction r as [r IH] using lt_wf_ind.
  destruct (nth_error g r) as [pk|] eqn:E; [eauto|].
  rewrite postorder_none by assumption. apply prec_nil.
Qed.

Lemma prec_children g (W : wf g = true) a b r l :
  (forall q, q < r -> prec a b (postorder g q)) -> (forall q, In q l -> q < r) ->
  prec a b (flat_map (postorder g) l).
Proof. intros IH Hl. apply prec_flat_map. intros q Hq. apply IH, Hl, Hq. Qed.

Lemma child_in_flat g (W : wf g = true) q l : In q l -> q < length g -> In (EMain q) (flat_map (postorder g) l).
Proof.
  intros Hq Hlen. apply in_flat_map. exists q. split; [assumption|].
  destruct (nth_error g q) as [pk|] eqn:E; [eapply In_postorder_self; eauto|].
  apply nth_error_None in E. lia.
Qed.

Lemma eff_lt g q l : In q (eff g l) -> q < length g.
Proof.
  unfold eff. rewrite filter_In. intros [_ H]. unfold skipped in H.
  destruct (nth_error g q) eqn:E; [|discriminate]. apply nth_error_Some. congruence.
Qed.

(* an imported package is complete before the importer's body *)
Lemma prec_import g (W : wf g = true) p pk q : nth_error g p = Some pk -> In q (eff g (pk_imps pk)) ->
  forall r, prec (EMain q) (EMain p) (postorder g r).
Proof.
  intros E Hq. apply prec_lift; [assumption|]. intros r pk' E' IH.
  rewrite (postorder_unfold g r pk' W E').
  assert (Pc : prec (EMain q) (EMain p) (flat_map (postorder g) (eff g (pk_imps pk')))).
  { apply (prec_children g W _ _ r); [assumption|]. intros x Hx. eapply wf_imps; eauto using eff_In. }
  assert (Pp : prec (EMain q) (EMain p) (pre_of g r pk')).
  { unfold pre_of. destruct (pk_kind pk') eqn:K; try apply prec_nil.
    apply prec_app; [|right; apply prec_single; discriminate].
    apply (prec_children g W _ _ r); [assumption|]. intros x Hx. eapply wf_orig; eauto using eff_In. }
  destruct (Nat.eq_dec r p) as [->|N].
  - rewrite E in E'. inversion E'; subst pk'. rewrite app_assoc. apply prec_hit.
    + apply in_app_iff. right. apply child_in_flat; eauto using eff_lt.
    + apply prec_app; [assumption|now right].
  - apply prec_app; [assumption|]. right. apply prec_app; [assumption|]. right. apply prec_single. congruence.
Qed.

(* patched packages: imports of the original before the original body *)
Lemma prec_orig_import g (W : wf g = true) p pk oi q : nth_error g p = Some pk -> pk_kind pk = KPatched oi ->
  In q (eff g oi) -> forall r, prec (EMain q) (EOrig p) (postorder g r).
Proof.
  intros E K Hq. apply prec_lift; [assumption|]. intros r pk' E' IH.
  rewrite (postorder_unfold g r pk' W E').
  assert (Pc : prec (EMain q) (EOrig p) (flat_map (postorder g) (eff g (pk_imps pk')))).
  { apply (prec_children g W _ _ r); [assumption|]. intros x Hx. eapply wf_imps; eauto using eff_In. }
  apply prec_app.
  2:{ right. apply prec_app; [assumption|]. right. apply prec_single. discriminate. }
  unfold pre_of. destruct (pk_kind pk') eqn:K'; try apply prec_nil.
  assert (Po : prec (EMain q) (EOrig p) (flat_map (postorder g) (eff g orig_imps))).
  { apply (prec_children g W _ _ r); [assumption|]. intros x Hx. eapply wf_orig; eauto using eff_In. }
  destruct (Nat.eq_dec r p) as [->|N].
  - rewrite E in E'. inversion E'; subst pk'. rewrite K in K'. inversion K'; subst orig_imps.
    apply prec_hit; [|assumption]. apply child_in_flat; eauto using eff_lt.
  - apply prec_app; [assumption|]. right. apply prec_single. congruence.
Qed.

(* patched packages: the original body before the replacement body *)
Lemma prec_orig_main g (W : wf g = true) p pk oi : nth_error g p = Some pk -> pk_kind pk = KPatched oi ->
  forall r, prec (EOrig p) (EMain p) (postorder g r).
Proof.
  intros E K. apply prec_lift; [assumption|]. intros r pk' E' IH.
  rewrite (postorder_unfold g r pk' W E').
  assert (Pc : prec (EOrig p) (EMain p) (flat_map (postorder g) (eff g (pk_imps pk')))).
  { apply (prec_children g W _ _ r); [assumption|]. intros x Hx. eapply wf_imps; eauto using eff_In. }
  assert (Pp : prec (EOrig p) (EMain p) (pre_of g r pk')).
  { unfold pre_of. destruct (pk_kind pk') eqn:K'; try apply prec_nil.
    apply prec_app; [|right; apply prec_single; discriminate].
    apply (prec_children g W _ _ r); [assumption|]. intros x Hx. eapply wf_orig; eauto using eff_In. }
  destruct (Nat.eq_dec r p) as [->|N].
  - rewrite E in E'. inversion E'; subst pk'. rewrite app_assoc. apply prec_hit.
    + apply in_app_iff. left. unfold pre_of. rewrite K. apply in_app_iff. right. now left.
    + apply prec_app; [assumption|now right].
  - apply prec_app; [assumption|]. right. apply prec_app; [assumption|]. right. apply prec_single. congruence.
Qed.

Lemma before_exec g roots a b : wf g = true -> Forall (fun r => r < length g) roots ->
  (forall r, prec a b (postorder g r)) -> In b (exec g roots) -> before a b (exec g roots).
Proof.
  intros W HR P Hb. apply prec_before; [|assumption].
  rewrite exec_is_postorder by assumption. apply prec_dedup, prec_flat_map. intros r _. apply P.
Qed.

Lemma deps_first g roots r p pk q : wf g = true -> Forall (fun r => r < length g) roots ->
  In r roots -> reach g r p -> nth_error g p = Some pk -> In q (eff g (pk_imps pk)) ->
  before (EMain q) (EMain p) (exec g roots).
Proof.
  intros W HR Hr R E Hq. apply before_exec; try assumption.
  - eapply prec_import; eauto.
  - apply exec_In; try assumption. exists r. split; [assumption|].
    apply postorder_reach; [assumption|]. cbn. split; [assumption|exact I].
Qed.

Lemma patched_chain g roots r p pk oi : wf g = true -> Forall (fun r => r < length g) roots ->
  In r roots -> reach g r p -> nth_error g p = Some pk -> pk_kind pk = KPatched oi ->
  count_occ event_eq_dec (exec g roots) (EOrig p) = 1 /\
  count_occ event_eq_dec (exec g roots) (EMain p) = 1 /\
  before (EOrig p) (EMain p) (exec g roots) /\
  (forall q, In q (eff g oi) -> before (EMain q) (EOrig p) (exec g roots)) /\
  (forall q, In q (eff g (pk_imps pk)) -> before (EMain q) (EMain p) (exec g roots)).
Proof.
  intros W HR Hr R E K.
  assert (HM : In (EMain p) (exec g roots)).
  { apply exec_In; try assumption. exists r. split; [assumption|].
    apply postorder_reach; [assumption|]. cbn. split; [assumption|exact I]. }
  assert (HO : In (EOrig p) (exec g roots)).
  { apply exec_In; try assumption. exists r. split; [assumption|].
    apply postorder_reach; [assumption|]. cbn. split; [assumption|]. exists pk, oi. auto. }
  split; [apply count_one; [now apply exec_NoDup|assumption]|].
  split; [apply count_one; [now apply exec_NoDup|assumption]|].
  split; [apply before_exec; try assumption; eapply prec_orig_main; eauto|].
  split.
  - intros q Hq. apply before_exec; try assumption. eapply prec_orig_import; eauto.
  - intros q Hq. apply before_exec; try assumption. eapply prec_import; eauto.
Qed.

Lemma noold_never_runs_original g roots p pk : wf g = true -> Forall (fun r => r < length g) roots ->
  nth_error g p = Some pk -> pk_kind pk <> KPatched (match pk_kind pk with KPatched oi => oi | _ => [] end) ->
  ~ In (EOrig p) (exec g roots).
Proof.
  intros W HR E K H. apply exec_In in H; try assumption. destruct H as [r [_ H]].
  apply postorder_reach in H; [|assumption]. destruct H as [_ [pk' [oi [E' K']]]].
  rewrite E in E'. inversion E'; subst pk'. rewrite K' in K. now apply K.
Qed.

(* ---------- the entry function ---------- *)

Lemma run_trace_prefix g : forall fuel f s, exists t, trace (run g fuel f s) = trace s ++ t.
Proof.
  induction fuel as [|n IH]; intros f s; cbn.
  - exists []. now rewrite app_nil_r.
  - destruct (compile g f) as [sk|]; [|exists []; now rewrite app_nil_r].
    destruct (Bool.eqb _ _); [exists []; now rewrite app_nil_r|]. cbn [trace].
    assert (HF : forall l s0, exists t, trace (fold_left (fun s c => run g n c s) l s0) = trace s0 ++ t).
    { induction l as [|c l IHl]; intros s0; cbn; [exists []; now rewrite app_nil_r|].
      destruct (IHl (run g n c s0)) as [t2 H2]. destruct (IH c s0) as [t1 H1].
      exists (t1 ++ t2). rewrite H2, H1. now rewrite app_assoc. }
    destruct (HF (sk_calls sk) {| guards := pkg_of f :: guards s; trace := trace s |}) as [t Ht].
    exists (t ++ [sk_body sk]). rewrite Ht. cbn [trace]. now rewrite app_assoc.
Qed.

Lemma skipn_app_exact {A} (l t : list A) : skipn (length l) (l ++ t) = t.
Proof. induction l; cbn; auto. Qed.

Definition roots_of (std_rt : option pkgid) (main : pkgid) : list pkgid :=
  match std_rt with Some r => [r; main] | None => [main] end.

Definition entry_prefix (py rt abi : bool) : list tev :=
  (if py then [VTop TPyInit] else []) ++ (if rt then [VTop TRtInit] else []) ++ (if abi then [VTop TAbiInit] else []).

Lemma run_top_init g std_rt p s out : exists t,
  trace (run g (fuel_of g) (FInit p) s) = trace s ++ t /\
  run_top g std_rt (TInit p) (s, out) = (run g (fuel_of g) (FInit p) s, out ++ map VPkg t).
Proof.
  destruct (run_trace_prefix g (fuel_of g) (FInit p) s) as [t Ht]. exists t. split; [assumption|].
  unfold run_top. cbv zeta. rewrite Ht, skipn_app_exact. reflexivity.
Qed.

Lemma run_top_std g r s out : exists t,
  trace (run g (fuel_of g) (FInit r) s) = trace s ++ t /\
  run_top g (Some r) TStdRuntime (s, out) = (run g (fuel_of g) (FInit r) s, out ++ map VPkg t).
Proof.
  destruct (run_trace_prefix g (fuel_of g) (FInit r) s) as [t Ht]. exists t. split; [assumption|].
  unfold run_top. cbv zeta. rewrite Ht, skipn_app_exact. reflexivity.
Qed.

Lemma entry_tail g std_rt main out :
  snd (fold_left (fun st t => run_top g std_rt t st) [TStdRuntime; TInit main; TMain] (st0, out)) =
  out ++ map VPkg (exec g (roots_of std_rt main)) ++ [VTop TMain].
Proof.
  unfold exec, exec_from, roots_of. destruct std_rt as [r|]; cbn [fold_left].
  - destruct (run_top_std g r st0 out) as [t1 [H1 E1]]. rewrite E1.
    destruct (run_top_init g (Some r) main (run g (fuel_of g) (FInit r) st0) (out ++ map VPkg t1)) as [t2 [H2 E2]]. rewrite E2.
    cbn [run_top snd]. rewrite H2, H1. cbn [trace st0 app]. rewrite map_app, <- !app_assoc. reflexivity.
  - change (run_top g None TStdRuntime (st0, out)) with (st0, out).
    destruct (run_top_init g None main st0 out) as [t2 [H2 E2]]. rewrite E2.
    cbn [run_top snd]. rewrite H2. cbn [trace st0 app]. rewrite <- !app_assoc. reflexivity.
Qed.

Lemma fold_cons_top g std_rt t l s out : (t = TPyInit \/ t = TRtInit \/ t = TAbiInit) ->
  fold_left (fun st t => run_top g std_rt t st) (t :: l) (s, out) =
  fold_left (fun st t => run_top g std_rt t st) l (s, out ++ [VTop t]).
Proof. intros [H|[H|H]]; subst t; reflexivity. Qed.

Lemma entry_shape g std_rt py rt abi main :
  run_entry g std_rt py rt abi main =
  entry_prefix py rt abi ++ map VPkg (exec g (roots_of std_rt main)) ++ [VTop TMain].
Proof.
  unfold run_entry, entry_code, entry_prefix.
  destruct py, rt, abi; cbn [app]; rewrite ?fold_cons_top by tauto; rewrite entry_tail; reflexivity.
Qed.

(* ---------- order inside one package: what the selection rule guarantees ---------- *)

Lemma pick_ready done pending v r : pick done pending = Some (v, r) ->
  exists ds, In (v, ds) pending /\ forall d, In d ds -> In d done.
Proof.
  revert v r. induction pending as [|[w ds] pending IH]; intros v r H; cbn in H; [discriminate|].
  destruct (forallb (fun d => memN d done) ds) eqn:F.
  - inversion H; subst. exists ds. split; [now left|]. intros d Hd.
    rewrite forallb_forall in F. apply memN_In, F, Hd.
  - destruct (pick done pending) as [[w' r']|] eqn:P; [|discriminate]. inversion H; subst.
    destruct (IH v r' eq_refl) as [ds' [H1 H2]]. exists ds'. split; [now right|assumption].
Qed.

Lemma pick_rest done pending v r x : pick done pending = Some (v, r) -> In x r -> In x pending.
Proof.
  revert v r. induction pending as [|[w ds] pending IH]; intros v r H Hx; cbn in H; [discriminate|].
  destruct (forallb (fun d => memN d done) ds).
  - inversion H; subst. now right.
  - destruct (pick done pending) as [[w' r']|] eqn:P; [|discriminate]. inversion H; subst.
    destruct Hx as [Hx|Hx]; [now left|right; eapply IH; eauto].
Qed.

(* every variable in the computed order has all its dependencies earlier in the
   order (or among those already done) *)
Lemma var_order_deps : forall fuel done pending l1 v l2,
  var_order fuel done pending = l1 ++ v :: l2 ->
  exists ds, In (v, ds) pending /\ forall d, In d ds -> In d done \/ In d l1.
Proof.
  induction fuel as [|n IH]; intros done pending l1 v l2 H; cbn in H; [destruct l1; discriminate|].
  destruct (pick done pending) as [[w r]|] eqn:P; [|destruct l1; discriminate].
  destruct l1 as [|x l1]; cbn in H; inversion H; subst.
  - destruct (pick_ready _ _ _ _ P) as [ds [H1 H2]]. exists ds. split; [assumption|]. intros d Hd. left. auto.
  - destruct (IH _ _ _ _ _ H2) as [ds [H3 H4]]. exists ds. split; [eapply pick_rest; eauto|].
    intros d Hd. destruct (H4 d Hd) as [[H5|H5]|H5]; [subst; right; now left|now left|right; now right].
Qed.

Lemma original_only_if_chained g roots p pk : wf g = true -> Forall (fun r => r < length g) roots ->
  nth_error g p = Some pk -> (pk_kind pk = KNormal \/ pk_kind pk = KPatchedNoOld) ->
  ~ In (EOrig p) (exec g roots).
Proof.
  intros W HR E K. eapply noold_never_runs_original; eauto.
  destruct K as [K|K]; rewrite K; discriminate.
Qed.


(* the first root (the std runtime, called by the entry function before main.init) has
   run completely before anything that is not below it *)
Lemma first_root_prefix g r roots : wf g = true -> r < length g -> Forall (fun r => r < length g) roots ->
  exists t, exec g (r :: roots) = exec g [r] ++ t /\ In (EMain r) (exec g [r]).
Proof.
  intros W Hr HR.
  assert (H1 : Forall (fun r => r < length g) [r]) by (constructor; auto).
  assert (H2 : Forall (fun r => r < length g) (r :: roots)) by (constructor; auto).
  rewrite !exec_is_postorder by assumption. unfold dedup. cbn [flat_map]. rewrite app_nil_r, add_new_app.
  destruct (add_new_prefix (add_new [] (postorder g r)) (flat_map (postorder g) roots)) as [t Ht].
  exists t. split; [exact Ht|]. apply add_new_In. right.
  destruct (nth_error g r) as [pk|] eqn:E; [eapply In_postorder_self; eauto|].
  apply nth_error_None in E. lia.
Qed.
