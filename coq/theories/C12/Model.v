(* C12 - package initialisation order.  Executable model only (no proofs).

   What is modelled (llgo, cl/compile.go compileFuncDecl/compileBlock, cl/instr.go
   funcKind/pkgNoInit, internal/build/main_module.go defineEntryFunction):

   - every package p has a synthetic function p.init of the shape go/ssa gives it
     and llgo lowers instruction by instruction:
         if init$guard then return; init$guard := true;
         call q.init for each import q in source order; body (variable
         initialisers in go/types InitOrder, then the declared init functions)
   - a call to q.init is dropped at the call site when q is a package of kind
     noinit/decl/link (LLGoPackage, pkgNoInit): [pk_skip]
   - a package overlaid by llgo (cl.Patches) is compiled twice into one module:
     the replacement first (state pkgInPatch): its init keeps the name p.init and,
     right after the guard store, calls the renamed original p.init$hasPatch;
     then the original (state pkgHasPatch): renamed, the two successors of its
     guard test swapped, so that it runs exactly when the guard is already set.
     When the replacement carries llgo:skipall or skips init (pkgFNoOldInit) the
     original init is not compiled and not called: [KPatchedNoOld]
   - the entry function: Py_Initialize?, runtime/internal/runtime.init?, the type
     table initialiser?, the (weak) std runtime.init, main.init, main.main.

   Packages are numbered so that every import refers to a smaller number (a
   topological numbering: [wf]); the last package is main. *)
From LLGoV Require Export Lib.Common.

Definition pkgid := nat.

Inductive kind :=
| KNormal
| KPatched (orig_imps : list pkgid)   (* replacement + original init chained *)
| KPatchedNoOld.                      (* replacement only (skipall / skip init) *)

Record pkg := { pk_imps : list pkgid;   (* imports of the compiled (replacement) source, source order *)
                pk_kind : kind;
                pk_skip : bool }.       (* callers drop the call to this package's init *)

Definition prog := list pkg.

Inductive fname := FInit (p : pkgid) | FOld (p : pkgid).
Definition pkg_of (f : fname) : pkgid := match f with FInit p => p | FOld p => p end.

Inductive event := EMain (p : pkgid) | EOrig (p : pkgid).
Definition ev_pkg (e : event) : pkgid := match e with EMain p => p | EOrig p => p end.

Definition event_eqb (a b : event) : bool :=
  match a, b with
  | EMain p, EMain q => Nat.eqb p q
  | EOrig p, EOrig q => Nat.eqb p q
  | _, _ => false
  end.

Definition fname_eqb (a b : fname) : bool :=
  match a, b with
  | FInit p, FInit q => Nat.eqb p q
  | FOld p, FOld q => Nat.eqb p q
  | _, _ => false
  end.

Definition memN (x : nat) (l : list nat) : bool := existsb (Nat.eqb x) l.
Definition memE (x : event) (l : list event) : bool := existsb (event_eqb x) l.

(* ---------- what the compiler emits for an init function: its skeleton ---------- *)

Record skel := { sk_ret_when : bool;       (* the guard value on which the function returns at once *)
                 sk_calls : list fname;    (* init calls in order, right after the guard store *)
                 sk_body : event }.

Definition skipped (g : prog) (q : pkgid) : bool :=
  match nth_error g q with Some pk => pk_skip pk | None => true end.

(* imports whose init call is really emitted *)
Definition eff (g : prog) (l : list pkgid) : list pkgid :=
  filter (fun q => negb (skipped g q)) l.

Definition compile (g : prog) (f : fname) : option skel :=
  match f with
  | FInit p =>
      match nth_error g p with
      | Some pk =>
          match pk_kind pk with
          | KPatched _ => Some {| sk_ret_when := true;
                                  sk_calls := FOld p :: map FInit (eff g (pk_imps pk));
                                  sk_body := EMain p |}
          | _ => Some {| sk_ret_when := true;
                         sk_calls := map FInit (eff g (pk_imps pk));
                         sk_body := EMain p |}
          end
      | None => None
      end
  | FOld p =>
      match nth_error g p with
      | Some pk =>
          match pk_kind pk with
          | KPatched oi => Some {| sk_ret_when := false;
                                   sk_calls := map FInit (eff g oi);
                                   sk_body := EOrig p |}
          | _ => None
          end
      | None => None
      end
  end.

(* ---------- execution ---------- *)

Record state := { guards : list pkgid;     (* packages whose init$guard is true *)
                  trace : list event }.

Definition st0 : state := {| guards := []; trace := [] |}.

(* fuel: 2*p+2 suffices for FInit p on a well-formed program (Proofs.v);
   out of fuel leaves the state unchanged *)
Fixpoint run (g : prog) (fuel : nat) (f : fname) (s : state) : state :=
  match fuel with
  | O => s
  | S n =>
      match compile g f with
      | None => s
      | Some sk =>
          if Bool.eqb (memN (pkg_of f) (guards s)) (sk_ret_when sk) then s
          else
            let s1 := {| guards := pkg_of f :: guards s; trace := trace s |} in
            let s2 := fold_left (fun s c => run g n c s) (sk_calls sk) s1 in
            {| guards := guards s2; trace := trace s2 ++ [sk_body sk] |}
      end
  end.

Definition fuel_of (g : prog) : nat := 2 * length g + 2.

(* init of the given root packages one after the other (the entry function calls
   the std runtime's init, if linked, and then main.init) *)
Definition exec_from (g : prog) (roots : list pkgid) (s : state) : state :=
  fold_left (fun s r => run g (fuel_of g) (FInit r) s) roots s.
Definition exec (g : prog) (roots : list pkgid) : list event := trace (exec_from g roots st0).

(* ---------- specification side: post-order of the import graph ---------- *)

(* unfolding of the import DAG below p into its post-order (with repetitions);
   fuel p+1 suffices *)
Fixpoint po (g : prog) (fuel : nat) (p : pkgid) : list event :=
  match fuel with
  | O => []
  | S n =>
      match nth_error g p with
      | Some pk =>
          match pk_kind pk with
          | KPatched oi =>
              flat_map (po g n) (eff g oi) ++ [EOrig p] ++ flat_map (po g n) (eff g (pk_imps pk)) ++ [EMain p]
          | _ => flat_map (po g n) (eff g (pk_imps pk)) ++ [EMain p]
          end
      | None => []
      end
  end.

Definition postorder (g : prog) (p : pkgid) : list event := po g (S p) p.

(* keep the first occurrence of every event *)
Fixpoint add_new (acc l : list event) : list event :=
  match l with
  | [] => acc
  | x :: r => if memE x acc then add_new acc r else add_new (acc ++ [x]) r
  end.
Definition dedup (l : list event) : list event := add_new [] l.

(* every import refers to an earlier package *)
Definition wf_pkg (p : pkgid) (pk : pkg) : bool :=
  forallb (fun q => Nat.ltb q p) (pk_imps pk) &&
  match pk_kind pk with KPatched oi => forallb (fun q => Nat.ltb q p) oi | _ => true end.

Fixpoint wf_from (p : pkgid) (g : prog) : bool :=
  match g with [] => true | pk :: r => wf_pkg p pk && wf_from (S p) r end.
Definition wf (g : prog) : bool := wf_from 0 g.

(* edges whose init call is emitted *)
Definition children (g : prog) (p : pkgid) : list pkgid :=
  match nth_error g p with
  | Some pk => match pk_kind pk with
               | KPatched oi => eff g oi ++ eff g (pk_imps pk)
               | _ => eff g (pk_imps pk)
               end
  | None => []
  end.

Inductive reach (g : prog) : pkgid -> pkgid -> Prop :=
| reach_refl : forall p, p < length g -> reach g p p
| reach_step : forall p q r, In q (children g p) -> reach g q r -> reach g p r.

(* ---------- the entry function ---------- *)

Inductive top :=
| TPyInit | TRtInit | TAbiInit   (* Py_Initialize, runtime/internal/runtime.init, init$abitypes *)
| TStdRuntime                    (* call of the weak symbol runtime.init *)
| TInit (p : pkgid)              (* call of main's init *)
| TMain.                         (* main.main *)

Definition entry_code (py rt abi : bool) (main : pkgid) : list top :=
  (if py then [TPyInit] else []) ++ (if rt then [TRtInit] else []) ++
  (if abi then [TAbiInit] else []) ++ [TStdRuntime; TInit main; TMain].

Inductive tev := VTop (t : top) | VPkg (e : event).

(* std_rt: the std runtime package if it is part of the program (then the
   strong definition of runtime.init replaces the weak stub) *)
Definition run_top (g : prog) (std_rt : option pkgid) (t : top) (st : state * list tev)
  : state * list tev :=
  let '(s, out) := st in
  let call p := let s' := run g (fuel_of g) (FInit p) s in
                (s', out ++ map VPkg (skipn (length (trace s)) (trace s'))) in
  match t with
  | TStdRuntime => match std_rt with Some r => call r | None => (s, out) end
  | TInit p => call p
  | _ => (s, out ++ [VTop t])
  end.

Definition run_entry (g : prog) (std_rt : option pkgid) (py rt abi : bool) (main : pkgid) : list tev :=
  snd (fold_left (fun st t => run_top g std_rt t st) (entry_code py rt abi main) (st0, [])).

(* what a package body observes of the state the std runtime's init establishes:
   true when the runtime package r has run its body before package p starts.
   [before_b a b l]: a occurs in l and b does not occur before it *)
Fixpoint before_b (a b : event) (l : list event) : bool :=
  match l with
  | [] => false
  | x :: r => if event_eqb x a then true else if event_eqb x b then false else before_b a b r
  end.
Definition rt_ready (g : prog) (r main : pkgid) (obs : list pkgid) : list bool :=
  let tr := exec g [r; main] in map (fun p => before_b (EMain r) (EMain p) tr) obs.

(* ---------- order inside one package (Go spec, Package initialization) ---------- *)

(* variables are numbered in declaration order (files in the order presented to
   the compiler); deps: for each variable the variables of the same package its
   initialiser refers to, directly or through functions.  Repeatedly the earliest
   variable in declaration order that is ready is initialised. *)
Record pbody := { pb_deps : list (list nat); pb_ninits : nat }.

Fixpoint pick (done : list nat) (pending : list (nat * list nat)) : option (nat * list (nat * list nat)) :=
  match pending with
  | [] => None
  | (v, ds) :: r =>
      if forallb (fun d => memN d done) ds then Some (v, r)
      else match pick done r with
           | Some (w, r') => Some (w, (v, ds) :: r')
           | None => None
           end
  end.

Fixpoint var_order (fuel : nat) (done : list nat) (pending : list (nat * list nat)) : list nat :=
  match fuel with
  | O => []
  | S n => match pick done pending with
           | Some (v, r) => v :: var_order n (v :: done) r
           | None => []
           end
  end.

Definition body_order (b : pbody) : list nat :=
  let n := length (pb_deps b) in
  var_order n [] (combine (seq 0 n) (pb_deps b)) ++ seq n (pb_ninits b).

(* the printed trace of a program: (package, label) pairs; original bodies of
   patched std packages print nothing *)
Definition expand (bodies : list pbody) (tr : list event) : list (nat * nat) :=
  flat_map (fun e => match e with
                     | EMain p => match nth_error bodies p with
                                  | Some b => map (pair p) (body_order b)
                                  | None => []
                                  end
                     | EOrig _ => []
                     end) tr.

Definition predict (g : prog) (roots : list pkgid) (bodies : list pbody) : list (nat * nat) :=
  expand bodies (exec g roots).

(* ---------- the reference toolchain's package order (Go spec since 1.21) ---------- *)

(* sorted: all package ids sorted by import path.  In each step the first
   package in the list that is not initialised and whose imports all are is
   initialised.  The reference toolchain runs this over init TASKS: a package
   has one iff it has initialisation work of its own ([work]) or imports a
   package that has one; a package without task (functions, types, constants
   only, all the way down) does not take part, which can let an importer of
   such a package run earlier than the rule applied to all packages would.
   (llgo does not implement this order; it is used to validate the reference
   trace only.) *)
Fixpoint tasks_aux (work acc : list bool) (i : nat) (rest : prog) : list bool :=
  match rest with
  | [] => acc
  | pk :: r => tasks_aux work (acc ++ [nth i work false || existsb (fun q => nth q acc false) (pk_imps pk)]) (S i) r
  end.
Definition tasks (g : prog) (work : list bool) : list bool := tasks_aux work [] 0 g.

Fixpoint pick_pkg (g : prog) (t : list bool) (done : list pkgid) (l : list pkgid) : option (pkgid * list pkgid) :=
  match l with
  | [] => None
  | p :: r =>
      if forallb (fun q => negb (nth q t false) || memN q done) (match nth_error g p with Some pk => pk_imps pk | None => [] end)
      then Some (p, r)
      else match pick_pkg g t done r with
           | Some (w, r') => Some (w, p :: r')
           | None => None
           end
  end.

Fixpoint go121_order (g : prog) (t : list bool) (fuel : nat) (done : list pkgid) (l : list pkgid) : list pkgid :=
  match fuel with
  | O => []
  | S n => match pick_pkg g t done l with
           | Some (p, r) => p :: go121_order g t n (p :: done) r
           | None => []
           end
  end.

Definition predict_go (g : prog) (work : list bool) (sorted : list pkgid) (bodies : list pbody) : list (nat * nat) :=
  let t := tasks g work in
  let l := filter (fun p => nth p t false) sorted in
  expand bodies (map EMain (go121_order g t (length l) [] l)).

(* ---------- comparison helpers for the harness ---------- *)

Definition skel_eqb (a b : skel) : bool :=
  Bool.eqb (sk_ret_when a) (sk_ret_when b) && list_eqb fname_eqb (sk_calls a) (sk_calls b)
  && event_eqb (sk_body a) (sk_body b).

Definition pairs_eqb : list (nat * nat) -> list (nat * nat) -> bool :=
  list_eqb (fun a b => Nat.eqb (fst a) (fst b) && Nat.eqb (snd a) (snd b)).

Definition top_eqb (a b : top) : bool :=
  match a, b with
  | TPyInit, TPyInit | TRtInit, TRtInit | TAbiInit, TAbiInit | TStdRuntime, TStdRuntime | TMain, TMain => true
  | TInit p, TInit q => Nat.eqb p q
  | _, _ => false
  end.
