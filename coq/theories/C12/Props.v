(* C12 - property theorems only.  [exec g roots] is the trace of body events
   produced by running the compiled init functions (guard test, guard store,
   calls of the imports' init in order, body) of the root packages one after the
   other on a topologically numbered import graph g ([wf g = true]: every import
   refers to an earlier package, which is what acyclicity gives). *)
From LLGoV Require Import C12.Model C12.Proofs.

(* the trace is the depth-first post-order of the import graph in import order,
   first occurrences only *)
Theorem init_is_postorder : forall g roots,
  wf g = true -> Forall (fun r => r < length g) roots ->
  exec g roots = dedup (flat_map (postorder g) roots).
Proof. exact exec_is_postorder. Qed.
Print Assumptions init_is_postorder.

(* every package reachable from a root (through imports whose init call is
   emitted) runs its body exactly once; nothing else runs *)
Theorem init_exactly_once : forall g roots r p,
  wf g = true -> Forall (fun r => r < length g) roots ->
  In r roots -> reach g r p ->
  count_occ event_eq_dec (exec g roots) (EMain p) = 1.
Proof. exact exactly_once. Qed.
Print Assumptions init_exactly_once.

Theorem init_only_reachable : forall g roots p,
  wf g = true -> Forall (fun r => r < length g) roots ->
  In (EMain p) (exec g roots) -> exists r, In r roots /\ reach g r p.
Proof. exact only_reachable. Qed.
Print Assumptions init_only_reachable.

(* for every import edge p -> q of a reachable package p, the body of q is
   complete before the body of p starts (bodies are atomic events of the trace;
   [expand] replaces each by its lines in order) *)
Theorem init_deps_first : forall g roots r p pk q,
  wf g = true -> Forall (fun r => r < length g) roots ->
  In r roots -> reach g r p -> nth_error g p = Some pk -> In q (eff g (pk_imps pk)) ->
  exists l1 l2 l3, exec g roots = l1 ++ EMain q :: l2 ++ EMain p :: l3.
Proof. exact deps_first. Qed.
Print Assumptions init_deps_first.

(* a package overlaid by llgo whose original init is chained (init$hasPatch):
   original body and replacement body run once each, the original first, each
   after the packages its own source imports *)
Theorem patched_chain_once_each : forall g roots r p pk oi,
  wf g = true -> Forall (fun r => r < length g) roots ->
  In r roots -> reach g r p -> nth_error g p = Some pk -> pk_kind pk = KPatched oi ->
  count_occ event_eq_dec (exec g roots) (EOrig p) = 1 /\
  count_occ event_eq_dec (exec g roots) (EMain p) = 1 /\
  before (EOrig p) (EMain p) (exec g roots) /\
  (forall q, In q (eff g oi) -> before (EMain q) (EOrig p) (exec g roots)) /\
  (forall q, In q (eff g (pk_imps pk)) -> before (EMain q) (EMain p) (exec g roots)).
Proof. exact patched_chain. Qed.
Print Assumptions patched_chain_once_each.

(* with llgo:skipall / skipped init (pkgFNoOldInit), and for ordinary packages,
   no original body ever runs *)
Theorem patched_noold_original_never_runs : forall g roots p pk,
  wf g = true -> Forall (fun r => r < length g) roots ->
  nth_error g p = Some pk -> (pk_kind pk = KNormal \/ pk_kind pk = KPatchedNoOld) ->
  ~ In (EOrig p) (exec g roots).
Proof. exact original_only_if_chained. Qed.
Print Assumptions patched_noold_original_never_runs.

(* the entry function: interpreter/runtime/type-table initialisers, then every
   package body (std runtime's tree first when it is linked, then main's), then
   main.main - for every graph, also ill-formed ones *)
Theorem entry_order : forall g std_rt py rt abi main,
  run_entry g std_rt py rt abi main =
  entry_prefix py rt abi ++ map VPkg (exec g (roots_of std_rt main)) ++ [VTop TMain].
Proof. exact entry_shape. Qed.
Print Assumptions entry_order.

(* the std runtime package is a root of its own (importers drop the call of its
   init; the entry function calls it before main.init): its whole tree has run
   before any other package body - what package-level initialisers and init
   functions rely on when they read state of package runtime *)
Theorem entry_runtime_first : forall g r roots,
  wf g = true -> r < length g -> Forall (fun r => r < length g) roots ->
  exists t, exec g (r :: roots) = exec g [r] ++ t /\ In (EMain r) (exec g [r]).
Proof. exact first_root_prefix. Qed.
Print Assumptions entry_runtime_first.

(* order of variables inside a package (Go spec rule, upstream go/types in the
   implementation): a variable is initialised only after the variables its
   initialiser depends on.  Partial: completeness (every variable of an acyclic
   dependency relation is eventually initialised) is not proved; it is observed
   end to end. *)
Theorem var_order_respects_deps_partial : forall fuel done pending l1 v l2,
  var_order fuel done pending = l1 ++ v :: l2 ->
  exists ds, In (v, ds) pending /\ forall d, In d ds -> In d done \/ In d l1.
Proof. exact var_order_deps. Qed.
Print Assumptions var_order_respects_deps_partial.

(* the hypotheses are satisfiable by a non-trivial program: a diamond with a
   chained overlay package, a skipped (noinit) package and a replaced one *)
Definition ex_g : prog :=
  [ {| pk_imps := []; pk_kind := KNormal; pk_skip := false |};          (* 0 leaf *)
    {| pk_imps := []; pk_kind := KNormal; pk_skip := true |};           (* 1 unsafe-like: call dropped *)
    {| pk_imps := [0]; pk_kind := KPatched [1; 0]; pk_skip := false |}; (* 2 chained overlay *)
    {| pk_imps := [2; 0]; pk_kind := KPatchedNoOld; pk_skip := false |};(* 3 replaced *)
    {| pk_imps := [1; 3; 2]; pk_kind := KNormal; pk_skip := false |};   (* 4 *)
    {| pk_imps := [4; 0; 3]; pk_kind := KNormal; pk_skip := false |} ]. (* 5 main *)

Example ex_wf : wf ex_g = true /\ Forall (fun r => r < length ex_g) [5].
Proof. split; [reflexivity|]. repeat constructor. Qed.

Example ex_trace : exec ex_g [5] = [EMain 0; EOrig 2; EMain 2; EMain 3; EMain 4; EMain 5].
Proof. reflexivity. Qed.

Example ex_reach : reach ex_g 5 2.
Proof.
  apply reach_step with (q := 4); [cbn; tauto|].
  apply reach_step with (q := 2); [cbn; tauto|]. apply reach_refl. cbn. repeat constructor.
Qed.

Example ex_entry : run_entry ex_g None false true false 5 =
  [VTop TRtInit; VPkg (EMain 0); VPkg (EOrig 2); VPkg (EMain 2); VPkg (EMain 3); VPkg (EMain 4); VPkg (EMain 5); VTop TMain].
Proof. reflexivity. Qed.
