(* Shared helpers: boolean equalities used by the correspondence evaluation
   (cases.v files written by the harness) and a few list lemmas. *)
From Coq Require Export List NArith ZArith Bool Lia.
Export ListNotations.

Fixpoint list_eqb {A} (e : A -> A -> bool) (xs ys : list A) : bool :=
  match xs, ys with
  | [], [] => true
  | x :: xs', y :: ys' => e x y && list_eqb e xs' ys'
  | _, _ => false
  end.

Definition option_eqb {A} (e : A -> A -> bool) (x y : option A) : bool :=
  match x, y with
  | None, None => true
  | Some a, Some b => e a b
  | _, _ => false
  end.

Definition prod_eqb {A B} (ea : A -> A -> bool) (eb : B -> B -> bool)
  (x y : A * B) : bool := ea (fst x) (fst y) && eb (snd x) (snd y).

Definition str := list N.            (* bytes or code points, by context *)
Definition str_eqb : str -> str -> bool := list_eqb N.eqb.
Definition strs_eqb : list str -> list str -> bool := list_eqb str_eqb.

(* indexes (from 0) of the cases on which [f] and the observed output differ *)
Fixpoint mismatches_from {I O} (e : O -> O -> bool) (f : I -> O)
  (n : N) (cs : list (I * O)) : list N :=
  match cs with
  | [] => []
  | (i, o) :: cs' =>
      if e (f i) o then mismatches_from e f (N.succ n) cs'
      else n :: mismatches_from e f (N.succ n) cs'
  end.
Definition mismatches {I O} e f cs := @mismatches_from I O e f 0%N cs.

Lemma list_eqb_refl {A} (e : A -> A -> bool) :
  (forall a, e a a = true) -> forall xs, list_eqb e xs xs = true.
Proof. intros H; induction xs as [|x xs IH]; cbn; [reflexivity|]. now rewrite H, IH. Qed.

Lemma list_eqb_eq {A} (e : A -> A -> bool) :
  (forall a b, e a b = true -> a = b) ->
  forall xs ys, list_eqb e xs ys = true -> xs = ys.
Proof.
  intros H; induction xs as [|x xs IH]; destruct ys as [|y ys]; cbn; try discriminate; auto.
  intros E. apply andb_true_iff in E as [E1 E2]. f_equal; auto.
Qed.

Lemma str_eqb_eq a b : str_eqb a b = true -> a = b.
Proof. apply list_eqb_eq. intros x y E. now apply N.eqb_eq. Qed.
