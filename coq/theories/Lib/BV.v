(* Fixed-width integers as Z bit patterns with explicit wrap-around. *)
From Coq Require Export ZArith Bool Lia List.
From Coq Require Import ZifyBool.
Export ListNotations.
Local Open Scope Z_scope.

Definition modulus (w : Z) : Z := 2 ^ w.
Definition wrap (w z : Z) : Z := z mod 2 ^ w.
(* signed reading of a bit pattern 0 <= z < 2^w *)
Definition sgn (w z : Z) : Z := if z <? 2 ^ (w - 1) then z else z - 2 ^ w.
Definition in_range (w z : Z) : Prop := 0 <= z < 2 ^ w.
Definition in_rangeb (w z : Z) : bool := (0 <=? z) && (z <? 2 ^ w).

Definition wf_w (w : Z) : Prop := w = 8 \/ w = 16 \/ w = 32 \/ w = 64.

Ltac widths H := destruct H as [->|[->|[->| ->]]].

Lemma wrap_range w z : 0 <= w -> in_range w (wrap w z).
Proof. intros H. unfold in_range, wrap. apply Z.mod_pos_bound. apply Z.pow_pos_nonneg; lia. Qed.

Lemma wrap_small w z : in_range w z -> wrap w z = z.
Proof. unfold in_range, wrap. intros H. now apply Z.mod_small. Qed.

Lemma sgn_mod w z : wf_w w -> in_range w z -> (sgn w z) mod 2 ^ w = z.
Proof.
  intros Hw H. unfold sgn, in_range in *. widths Hw; cbn in *;
  destruct (z <? _) eqn:E;
  try (apply Z.mod_small; lia);
  match goal with |- (z - ?M) mod ?M = z =>
    replace (z - M) with (z + (-1) * M) by lia; rewrite Z.mod_add by lia; apply Z.mod_small; lia end.
Qed.

Lemma sgn_range w z : wf_w w -> in_range w z -> - 2 ^ (w - 1) <= sgn w z < 2 ^ (w - 1).
Proof. intros Hw H. unfold sgn, in_range in *. widths Hw; cbn in *; destruct (z <? _) eqn:E; lia. Qed.

Lemma wrap_sgn w z : wf_w w -> in_range w z -> wrap w (sgn w z) = z.
Proof. intros. unfold wrap. now apply sgn_mod. Qed.

(* two integers congruent modulo 2^w have the same wrap *)
Lemma wrap_congr w a b k : 0 <= w -> a = b + k * 2 ^ w -> wrap w a = wrap w b.
Proof. intros Hw ->. unfold wrap. apply Z.mod_add. apply Z.pow_nonzero; lia. Qed.

Lemma wrap_add_congr w a a' b b' :
  wrap w a = wrap w a' -> wrap w b = wrap w b' -> wrap w (a + b) = wrap w (a' + b').
Proof. unfold wrap. intros H1 H2. rewrite Zplus_mod, H1, H2, <- Zplus_mod. reflexivity. Qed.

Lemma wrap_sub_congr w a a' b b' :
  wrap w a = wrap w a' -> wrap w b = wrap w b' -> wrap w (a - b) = wrap w (a' - b').
Proof. unfold wrap. intros H1 H2. rewrite Zminus_mod, H1, H2, <- Zminus_mod. reflexivity. Qed.

Lemma wrap_mul_congr w a a' b b' :
  wrap w a = wrap w a' -> wrap w b = wrap w b' -> wrap w (a * b) = wrap w (a' * b').
Proof. unfold wrap. intros H1 H2. rewrite Zmult_mod, H1, H2, <- Zmult_mod. reflexivity. Qed.

Lemma wrap_wrap w z : wrap w (wrap w z) = wrap w z.
Proof. unfold wrap. apply Zmod_mod. Qed.

(* bit-level facts *)
Lemma wrap_testbit w z n : 0 <= n < w -> Z.testbit (wrap w z) n = Z.testbit z n.
Proof. intros H. unfold wrap. apply Z.mod_pow2_bits_low. lia. Qed.

Lemma wrap_testbit_high w z n : 0 <= w <= n -> Z.testbit (wrap w z) n = false.
Proof. intros H. unfold wrap. apply Z.mod_pow2_bits_high. lia. Qed.

Lemma wrap_bitwise (f : Z -> Z -> Z) (fb : bool -> bool -> bool) w a b :
  0 <= w -> fb false false = false ->
  (forall x y n, 0 <= n -> Z.testbit (f x y) n = fb (Z.testbit x n) (Z.testbit y n)) ->
  wrap w (f a b) = f (wrap w a) (wrap w b).
Proof.
  intros Hw Hff Hf. apply Z.bits_inj'. intros n Hn.
  destruct (Z_lt_ge_dec n w) as [L|G].
  - rewrite wrap_testbit, Hf, Hf, !wrap_testbit by lia. reflexivity.
  - rewrite wrap_testbit_high, Hf, !wrap_testbit_high by lia. now rewrite Hff.
Qed.

Lemma wrap_land w a b : 0 <= w -> wrap w (Z.land a b) = Z.land (wrap w a) (wrap w b).
Proof. intros. apply (wrap_bitwise Z.land andb); auto. intros; apply Z.land_spec. Qed.
Lemma wrap_lor w a b : 0 <= w -> wrap w (Z.lor a b) = Z.lor (wrap w a) (wrap w b).
Proof. intros. apply (wrap_bitwise Z.lor orb); auto. intros; apply Z.lor_spec. Qed.
Lemma wrap_lxor w a b : 0 <= w -> wrap w (Z.lxor a b) = Z.lxor (wrap w a) (wrap w b).
Proof. intros. apply (wrap_bitwise Z.lxor xorb); auto. intros; apply Z.lxor_spec. Qed.
Lemma wrap_ldiff w a b : 0 <= w -> wrap w (Z.ldiff a b) = Z.ldiff (wrap w a) (wrap w b).
Proof.
  intros. apply (wrap_bitwise Z.ldiff (fun x y => x && negb y)); auto.
  intros; apply Z.ldiff_spec.
Qed.

Lemma land_range w a b : 0 <= w -> in_range w a -> in_range w b -> in_range w (Z.land a b).
Proof.
  intros Hw Ha Hb. rewrite <- (wrap_small w a Ha), <- (wrap_small w b Hb), <- wrap_land by lia.
  now apply wrap_range.
Qed.
Lemma lor_range w a b : 0 <= w -> in_range w a -> in_range w b -> in_range w (Z.lor a b).
Proof.
  intros Hw Ha Hb. rewrite <- (wrap_small w a Ha), <- (wrap_small w b Hb), <- wrap_lor by lia.
  now apply wrap_range.
Qed.
Lemma lxor_range w a b : 0 <= w -> in_range w a -> in_range w b -> in_range w (Z.lxor a b).
Proof.
  intros Hw Ha Hb. rewrite <- (wrap_small w a Ha), <- (wrap_small w b Hb), <- wrap_lxor by lia.
  now apply wrap_range.
Qed.
