(* Straight-line fragment of LLVM IR as llgo emits it for scalar integer code:
   our own model of the LangRef semantics (poison for oversize shifts, undefined
   behaviour for division by zero / signed overflow of sdiv), validated against
   real executions by the end-to-end correspondence.  Values are bit patterns
   0 <= z < 2^w. *)
From LLGoV Require Export Lib.BV.
Local Open Scope Z_scope.

Inductive operand := Val (n : nat) | Cst (z : Z).   (* %n (parameters first) / constant *)

Inductive binop := Add | Sub | Mul | SDiv | UDiv | SRem | URem | And | Or | Xor | Shl | LShr | AShr.
Inductive pred := Peq | Pne | Pslt | Psle | Psgt | Psge | Pult | Pule | Pugt | Puge.
Inductive castop := Trunc | ZExt | SExt.
Inductive akind := DivZero | NegShift | IndexRange | SliceRange | NilDeref | OtherAssert.

Inductive instr :=
| IBin (op : binop) (w : Z) (a b : operand)
| IBinF (op : binop) (fl : N) (w : Z) (a b : operand)   (* with flags: 1 = nsw, 2 = nuw, 4 = exact *)
| ICmp (p : pred) (w : Z) (a b : operand)
| ISelect (w : Z) (c a b : operand)
| ICast (op : castop) (wfrom wto : Z) (a : operand)
| IAssert (k : akind) (c : operand).          (* call void @Assert...(i1 c): panics when c is true *)

Record func := { nparams : nat; body : list instr; ret : operand; retw : Z }.

Inductive outcome := Ret (z : Z) | Panic (k : akind) | UB | PoisonRet | Malformed.

(* a value is Some bit pattern or None = poison *)
Definition env := list (option Z).

Definition get (e : env) (o : operand) (w : Z) : option (option Z) :=
  match o with
  | Cst z => Some (Some (wrap w z))
  | Val n => nth_error e n
  end.

Inductive res := RVal (v : option Z) | RUB.

Definition eval_bin (op : binop) (w a b : Z) : res :=
  match op with
  | Add => RVal (Some (wrap w (a + b)))
  | Sub => RVal (Some (wrap w (a - b)))
  | Mul => RVal (Some (wrap w (a * b)))
  | UDiv => if b =? 0 then RUB else RVal (Some (a / b))
  | URem => if b =? 0 then RUB else RVal (Some (a mod b))
  | SDiv => if b =? 0 then RUB
            else if (sgn w a =? - 2 ^ (w - 1)) && (sgn w b =? -1) then RUB
            else RVal (Some (wrap w (Z.quot (sgn w a) (sgn w b))))
  | SRem => if b =? 0 then RUB
            else if (sgn w a =? - 2 ^ (w - 1)) && (sgn w b =? -1) then RUB
            else RVal (Some (wrap w (Z.rem (sgn w a) (sgn w b))))
  | And => RVal (Some (Z.land a b))
  | Or => RVal (Some (Z.lor a b))
  | Xor => RVal (Some (Z.lxor a b))
  | Shl => if b <? w then RVal (Some (wrap w (a * 2 ^ b))) else RVal None
  | LShr => if b <? w then RVal (Some (a / 2 ^ b)) else RVal None
  | AShr => if b <? w then RVal (Some (wrap w (sgn w a / 2 ^ b))) else RVal None
  end.

(* LangRef: with nsw / nuw the result is poison when signed / unsigned overflow
   occurs, with exact when the division or right shift is not exact *)
Definition fits_s (w v : Z) : bool := (- 2 ^ (w - 1) <=? v) && (v <? 2 ^ (w - 1)).
Definition fits_u (w v : Z) : bool := (0 <=? v) && (v <? 2 ^ w).
Definition flag_poison (op : binop) (fl : N) (w a b : Z) : bool :=
  (N.testbit fl 0 &&
   match op with
   | Add => negb (fits_s w (sgn w a + sgn w b))
   | Sub => negb (fits_s w (sgn w a - sgn w b))
   | Mul => negb (fits_s w (sgn w a * sgn w b))
   | Shl => negb (fits_s w (sgn w a * 2 ^ b))
   | _ => false
   end)
  || (N.testbit fl 1 &&
   match op with
   | Add => negb (fits_u w (a + b))
   | Sub => negb (fits_u w (a - b))
   | Mul => negb (fits_u w (a * b))
   | Shl => negb (fits_u w (a * 2 ^ b))
   | _ => false
   end)
  || (N.testbit fl 2 &&
   match op with
   | UDiv => negb (a mod b =? 0)
   | SDiv => negb (Z.rem (sgn w a) (sgn w b) =? 0)
   | LShr => negb (a mod 2 ^ b =? 0)
   | AShr => negb (sgn w a mod 2 ^ b =? 0)
   | _ => false
   end).

Definition eval_pred (p : pred) (w a b : Z) : bool :=
  match p with
  | Peq => a =? b | Pne => negb (a =? b)
  | Pult => a <? b | Pule => a <=? b | Pugt => b <? a | Puge => b <=? a
  | Pslt => sgn w a <? sgn w b | Psle => sgn w a <=? sgn w b
  | Psgt => sgn w b <? sgn w a | Psge => sgn w b <=? sgn w a
  end.

Definition eval_cast (op : castop) (wf wt a : Z) : Z :=
  match op with
  | Trunc => wrap wt a
  | ZExt => a
  | SExt => wrap wt (sgn wf a)
  end.

Definition b2z (b : bool) : Z := if b then 1 else 0.

(* one instruction: extends the environment, or stops *)
Inductive step_res := SNext (e : env) | SStop (o : outcome).

Definition step (e : env) (i : instr) : step_res :=
  match i with
  | IBin op w a b =>
    match get e a w, get e b w with
    | Some (Some x), Some (Some y) =>
      match eval_bin op w x y with
      | RVal v => SNext (e ++ [v])
      | RUB => SStop UB
      end
    | Some _, Some _ => SNext (e ++ [None])          (* poison operand *)
    | _, _ => SStop Malformed
    end
  | IBinF op fl w a b =>
    match get e a w, get e b w with
    | Some (Some x), Some (Some y) =>
      match eval_bin op w x y with
      | RVal (Some v) => SNext (e ++ [if flag_poison op fl w x y then None else Some v])
      | RVal None => SNext (e ++ [None])
      | RUB => SStop UB
      end
    | Some _, Some _ => SNext (e ++ [None])
    | _, _ => SStop Malformed
    end
  | ICmp p w a b =>
    match get e a w, get e b w with
    | Some (Some x), Some (Some y) => SNext (e ++ [Some (b2z (eval_pred p w x y))])
    | Some _, Some _ => SNext (e ++ [None])
    | _, _ => SStop Malformed
    end
  | ISelect w c a b =>
    match get e c 1, get e a w, get e b w with
    | Some (Some cv), Some x, Some y => SNext (e ++ [if cv =? 0 then y else x])
    | Some None, Some _, Some _ => SNext (e ++ [None])
    | _, _, _ => SStop Malformed
    end
  | ICast op wf wt a =>
    match get e a wf with
    | Some (Some x) => SNext (e ++ [Some (eval_cast op wf wt x)])
    | Some None => SNext (e ++ [None])
    | None => SStop Malformed
    end
  | IAssert k c =>
    match get e c 1 with
    | Some (Some cv) => if cv =? 0 then SNext e else SStop (Panic k)
    | Some None => SStop UB                          (* branching on poison *)
    | None => SStop Malformed
    end
  end.

Fixpoint run (e : env) (is : list instr) (r : operand) (rw : Z) : outcome :=
  match is with
  | [] => match get e r rw with
          | Some (Some v) => Ret v
          | Some None => PoisonRet
          | None => Malformed
          end
  | i :: is' => match step e i with
                | SNext e' => run e' is' r rw
                | SStop o => o
                end
  end.

Definition exec (f : func) (args : list Z) : outcome :=
  if Nat.eqb (length args) (nparams f)
  then run (map Some args) (body f) (ret f) (retw f)
  else Malformed.

(* decidable equality of IR, used by the generated obligations *)
Definition operand_eqb (a b : operand) : bool :=
  match a, b with
  | Val n, Val m => Nat.eqb n m
  | Cst x, Cst y => x =? y
  | _, _ => false
  end.
Definition binop_eqb (a b : binop) : bool :=
  match a, b with
  | Add, Add | Sub, Sub | Mul, Mul | SDiv, SDiv | UDiv, UDiv | SRem, SRem | URem, URem
  | And, And | Or, Or | Xor, Xor | Shl, Shl | LShr, LShr | AShr, AShr => true
  | _, _ => false
  end.
Definition pred_eqb (a b : pred) : bool :=
  match a, b with
  | Peq, Peq | Pne, Pne | Pslt, Pslt | Psle, Psle | Psgt, Psgt | Psge, Psge
  | Pult, Pult | Pule, Pule | Pugt, Pugt | Puge, Puge => true
  | _, _ => false
  end.
Definition castop_eqb (a b : castop) : bool :=
  match a, b with Trunc, Trunc | ZExt, ZExt | SExt, SExt => true | _, _ => false end.
Definition akind_eqb (a b : akind) : bool :=
  match a, b with
  | DivZero, DivZero | NegShift, NegShift | IndexRange, IndexRange | SliceRange, SliceRange
  | NilDeref, NilDeref | OtherAssert, OtherAssert => true
  | _, _ => false
  end.
(* constants are compared modulo the width (the printer shows i8 255 as -1) *)
Definition opw_eqb (w : Z) (a b : operand) : bool :=
  match a, b with
  | Val n, Val m => Nat.eqb n m
  | Cst x, Cst y => wrap w x =? wrap w y
  | _, _ => false
  end.
Definition instr_eqb (a b : instr) : bool :=
  match a, b with
  | IBin o w x y, IBin o' w' x' y' => binop_eqb o o' && (w =? w') && opw_eqb w x x' && opw_eqb w y y'
  | IBinF o fl w x y, IBinF o' fl' w' x' y' =>
      binop_eqb o o' && N.eqb fl fl' && (w =? w') && opw_eqb w x x' && opw_eqb w y y'
  | ICmp p w x y, ICmp p' w' x' y' => pred_eqb p p' && (w =? w') && opw_eqb w x x' && opw_eqb w y y'
  | ISelect w c x y, ISelect w' c' x' y' => (w =? w') && opw_eqb 1 c c' && opw_eqb w x x' && opw_eqb w y y'
  | ICast o f t x, ICast o' f' t' x' => castop_eqb o o' && (f =? f') && (t =? t') && opw_eqb f x x'
  | IAssert k c, IAssert k' c' => akind_eqb k k' && opw_eqb 1 c c'
  | _, _ => false
  end.
Fixpoint instrs_eqb (a b : list instr) : bool :=
  match a, b with
  | [], [] => true
  | x :: a', y :: b' => instr_eqb x y && instrs_eqb a' b'
  | _, _ => false
  end.
Definition func_eqb (f g : func) : bool :=
  Nat.eqb (nparams f) (nparams g) && instrs_eqb (body f) (body g)
  && opw_eqb (retw f) (ret f) (ret g) && (retw f =? retw g).
