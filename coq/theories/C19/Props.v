(* C19 - property theorems only.  The CPython C API enters as an arbitrary
   implementation [A : ops obj] with a denotation [den : obj -> pyval] that
   satisfies the documented contracts; these contracts are the premises written
   out in each statement (no axioms).  [py_val_gen] / [py_list_gen] /
   [py_call] / [run_bodies] / [load_mod_syms] are what llgo emits (Model.v,
   compared with the emitted IR and with a live CPython on every run). *)
From LLGoV Require Import C19.Model C19.Proofs.
From LLGoV Require C12.Model.
Local Open Scope Z_scope.

(* integers of every width and signedness, whole range: Python sees the Go
   value; reading it back and truncating to the width restores the pattern *)
Theorem int_roundtrip_signed : forall obj (A : ops obj) (den : obj -> pyval),
  (forall b, in_range 64 b -> den (o_ll A b) = PLong (sgn 64 b)) ->
  (forall o z, den o = PLong z -> - 2 ^ 63 <= z < 2 ^ 63 -> o_as_ll A o = Some (wrap 64 z)) ->
  forall w bits, wf_w w -> in_range w bits ->
    den (py_val_gen A (VInt w true bits)) = PLong (sgn w bits) /\
    exists r, o_as_ll A (py_val_gen A (VInt w true bits)) = Some r /\ wrap w r = bits.
Proof. intros obj A den H1 H2 w bits. exact (int_signed obj A den H1 H2 w bits). Qed.
Print Assumptions int_roundtrip_signed.

Theorem int_roundtrip_unsigned : forall obj (A : ops obj) (den : obj -> pyval),
  (forall b, in_range 64 b -> den (o_ull A b) = PLong b) ->
  (forall o z, den o = PLong z -> in_range 64 z -> o_as_ull A o = Some z) ->
  forall w bits, wf_w w -> in_range w bits ->
    den (py_val_gen A (VInt w false bits)) = PLong bits /\
    o_as_ull A (py_val_gen A (VInt w false bits)) = Some bits.
Proof. intros obj A den H1 H2 w bits. exact (int_unsigned obj A den H1 H2 w bits). Qed.
Print Assumptions int_roundtrip_unsigned.

(* the lowering that exists (fixed = true) is the extended one for every
   conversion, first of its type in the build or not *)
Theorem int_roundtrip_signed_every_conversion : forall obj (A : ops obj) (den : obj -> pyval),
  (forall b, in_range 64 b -> den (o_ll A b) = PLong (sgn 64 b)) ->
  (forall o z, den o = PLong z -> - 2 ^ 63 <= z < 2 ^ 63 -> o_as_ll A o = Some (wrap 64 z)) ->
  forall first w bits, wf_w w -> in_range w bits ->
    den (py_val_of true first A (VInt w true bits)) = PLong (sgn w bits) /\
    exists r, o_as_ll A (py_val_of true first A (VInt w true bits)) = Some r /\ wrap w r = bits.
Proof. intros obj A den H1 H2 first w bits. exact (int_signed_fixed obj A den H1 H2 first w bits). Qed.
Print Assumptions int_roundtrip_signed_every_conversion.

(* before the fix (fixed = false; val_step_of false is still matched against the
   IR so that a tree without the fix is classified): a conversion that is not the
   first of its narrow type passed the value without extension and lost the sign *)
Theorem narrow_int_unextended_refuted : forall obj (A : ops obj) (den : obj -> pyval),
  (forall b, in_range 64 b -> den (o_ll A b) = PLong (sgn 64 b)) ->
  exists bits, in_range 8 bits /\ den (py_val_of false false A (VInt 8 true bits)) <> PLong (sgn 8 bits).
Proof. intros obj A den H. exact (narrow_unextended_loses_sign obj A den H). Qed.
Print Assumptions narrow_int_unextended_refuted.

(* float32 -> double is exact for every bit pattern: same real number, same
   infinity, NaN to NaN *)
Theorem float32_widening_exact : forall b, in_range 32 b ->
  fval_same (f64_decode (f32_widen b)) (f32_decode b).
Proof. exact f32_widen_exact. Qed.
Print Assumptions float32_widening_exact.

Theorem float_values_preserved : forall obj (A : ops obj) (den : obj -> pyval),
  (forall b, den (o_float A b) = PFloat b) ->
  (forall o b, den o = PFloat b -> o_as_double A o = Some b) ->
  forall b32 b64,
    den (py_val_gen A (VF32 b32)) = PFloat (f32_widen b32) /\
    den (py_val_gen A (VF64 b64)) = PFloat b64 /\
    o_as_double A (py_val_gen A (VF64 b64)) = Some b64.
Proof. intros obj A den H1 H2. exact (float_values obj A den H1 H2). Qed.
Print Assumptions float_values_preserved.

(* strings carry an explicit length (NUL bytes survive); byte slices and byte
   arrays arrive as bytearray / bytes with the same bytes; bool as bool *)
Theorem string_bytes_preserved : forall obj (A : ops obj) (den : obj -> pyval) (utf8_ok : bytes -> Prop),
  (forall s, utf8_ok s -> den (o_unicode A s) = PStr s) ->
  (forall s, den (o_bytearray A s) = PByteArray s) ->
  (forall s, den (o_bytes A s) = PBytes s) ->
  forall s, (utf8_ok s -> den (py_val_gen A (VStr s)) = PStr s) /\
            den (py_val_gen A (VSlice s)) = PByteArray s /\ den (py_val_gen A (VArr s)) = PBytes s.
Proof.
  intros obj A den ok H1 H2 H3 s. split; [exact (string_bytes obj A den ok H1 s)|exact (byte_slices obj A den H2 H3 s)].
Qed.
Print Assumptions string_bytes_preserved.

Theorem bool_preserved : forall obj (A : ops obj) (den : obj -> pyval),
  (forall v, den (o_bool A v) = PBool (negb (v =? 0))) ->
  forall b, den (py_val_gen A (VBool b)) = PBool b.
Proof. intros obj A den H. exact (bool_values obj A den H). Qed.
Print Assumptions bool_preserved.

(* py.List / py.Tuple: element i of the Python object is the conversion of
   argument i *)
Theorem list_tuple_index_order : forall obj (A : ops obj) (den : obj -> pyval),
  (forall n, 0 <= n -> den (o_list_new A n) = PList (repeat PNull (Z.to_nat n))) ->
  (forall l xs i x, den l = PList xs -> 0 <= i < Z.of_nat (length xs) ->
     den (o_list_set A l i x) = PList (upd xs (Z.to_nat i) (den x))) ->
  (forall n, 0 <= n -> den (o_tuple_new A n) = PTuple (repeat PNull (Z.to_nat n))) ->
  (forall l xs i x, den l = PTuple xs -> 0 <= i < Z.of_nat (length xs) ->
     den (o_tuple_set A l i x) = PTuple (upd xs (Z.to_nat i) (den x))) ->
  forall vs,
    den (py_list_gen A vs) = PList (map (fun v => den (py_val_gen A v)) vs) /\
    den (py_tuple_gen A vs) = PTuple (map (fun v => den (py_val_gen A v)) vs).
Proof. intros obj A den H1 H2 H3 H4. exact (list_index_order obj A den H1 H2 H3 H4). Qed.
Print Assumptions list_tuple_index_order.

(* calls: the callee receives exactly the arguments, in order; the variadic entry
   point gets the NULL sentinel right after the last one.  Holds for prototypes
   with a fixed parameter list and for the __llgo_va_list convention. *)
Theorem call_args_in_order : forall obj nparams variadic valist (f : obj) fixed var,
  (variadic = false -> length fixed = nparams /\ var = []) ->
  (variadic = true -> valist = true /\ (1 <= nparams)%nat) ->
  delivered (py_call nparams variadic (AObj f) (lower_args variadic valist fixed var)) = map AObj (fixed ++ var).
Proof. intros obj. exact (@go_call_delivers obj). Qed.
Print Assumptions call_args_in_order.

Theorem call_sentinel_after_last : forall obj nparams variadic (f : obj) args,
  (2 <= nparams)%nat \/ (variadic = true /\ (1 <= nparams)%nat) ->
  py_call nparams variadic f args = CallObjArgs f (map Some args ++ [None]).
Proof. intros obj. exact (@call_sentinel obj). Qed.
Print Assumptions call_sentinel_after_last.

(* a prototype with an ordinary variadic parameter (as lib/py/math.Hypot has):
   the callee does not receive the arguments *)
Theorem call_args_plain_variadic_refuted :
  exists (fixed var : list Z),
    delivered (py_call 1 true (AObj 0) (lower_args true false fixed var)) <> map AObj (fixed ++ var).
Proof. exact plain_variadic_not_delivered. Qed.
Print Assumptions call_args_plain_variadic_refuted.

(* module variables: whatever the order in which package bodies run, a module is
   imported at most once, exactly once if one of its binding packages runs *)
Theorem module_imported_once : forall m bs,
  (count_occ pev_eq_dec (run_bodies [] bs) (EvImport m) <= 1)%nat /\
  (In (BBind m) bs -> count_occ pev_eq_dec (run_bodies [] bs) (EvImport m) = 1%nat).
Proof. exact module_once. Qed.
Print Assumptions module_imported_once.

(* ... and before its first use, for every well-formed import graph and every
   order of root init calls (C12's execution of the init functions), provided a
   package that uses a module imports a binding package of it - which the Go
   type checker enforces, the functions being declared there *)
Theorem module_imported_once_before_use : forall g roots roles,
  C12.Model.wf g = true -> Forall (fun r => (r < length g)%nat) roots ->
  (forall u pk ms m, nth_error g u = Some pk -> nth u roles BPlain = BUse ms -> In m ms ->
      exists b, In b (C12.Model.eff g (C12.Model.pk_imps pk)) /\ nth b roles BPlain = BBind m) ->
  forall e1 m e2, init_events g roots roles = e1 ++ EvUse m :: e2 ->
    In (EvImport m) e1 /\ count_occ pev_eq_dec (init_events g roots roles) (EvImport m) = 1%nat.
Proof. exact module_once_before_use. Qed.
Print Assumptions module_imported_once_before_use.

(* symbol loading: every symbol is loaded from its own module ... *)
Theorem modsyms_every_symbol_loaded : forall names n, In n names ->
  exists syms, In (mod_of n, syms) (load_mod_syms names) /\ In n syms.
Proof. exact all_loaded. Qed.
Print Assumptions modsyms_every_symbol_loaded.

(* ... but a module can be loaded more than once: the sorted names of one module
   need not be contiguous (a.az < a.b.y < a.x) *)
Theorem modsyms_grouping_contiguous_refuted :
  exists names, NoDup names /\ ~ NoDup (map fst (load_mod_syms names)).
Proof. exact grouping_not_contiguous. Qed.
Print Assumptions modsyms_grouping_contiguous_refuted.

(* the contracts are satisfiable: the concrete reading of CPython used for the
   end-to-end comparison meets every premise above *)
Example c_ops_meets_contracts :
  (forall b, in_range 64 b -> o_ll c_ops b = PLong (sgn 64 b)) /\
  (forall b, in_range 64 b -> o_ull c_ops b = PLong b) /\
  (forall z, - 2 ^ 63 <= z < 2 ^ 63 -> o_as_ll c_ops (PLong z) = Some (wrap 64 z)) /\
  (forall z, in_range 64 z -> o_as_ull c_ops (PLong z) = Some z) /\
  (forall l xs i x, l = PList xs -> 0 <= i < Z.of_nat (length xs) ->
     o_list_set c_ops l i x = PList (upd xs (Z.to_nat i) x)).
Proof.
  repeat split; intros.
  - cbn. assert ((- 9223372036854775808 <=? z) && (z <? 9223372036854775808) = true) as ->; [|reflexivity].
    apply andb_true_iff. split; [apply Z.leb_le|apply Z.ltb_lt]; lia.
  - unfold in_range in *. cbn in *. assert ((0 <=? z) && (z <? 18446744073709551616) = true) as ->; [|reflexivity].
    apply andb_true_iff. split; [apply Z.leb_le|apply Z.ltb_lt]; lia.
  - subst. reflexivity.
Qed.

Example roundtrip_nontrivial :
  py_list [VInt 8 true 255; VInt 16 false 65535; VBool true; VF32 1069547520; VStr [97; 0; 98]] =
  PList [PLong (-1); PLong 65535; PBool true; PFloat 4609434218613702656; PStr [97; 0; 98]].
Proof. reflexivity. Qed.
