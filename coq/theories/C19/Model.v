(* C19 - Go values and calls crossing into Python.  Executable model only.

   What is modelled (llgo ssa/python.go, cl/compile.go compileBlock pyModInit,
   ssa/package.go AfterInit):
   - PyVal: the conversion llgo emits for one Go value handed to py.List/py.Tuple
     (llgo.pyList / llgo.pyTuple): which CPython constructor is called and which
     LLVM conversion is applied to each argument first ([val_step], compared
     with the emitted IR), and its meaning ([py_val_gen]) over an abstract
     implementation of the C API ([ops]); [c_ops] is the concrete reading of the
     CPython documentation used for the end-to-end comparison
   - PyList/PyTuple: New(n) followed by SetItem(i, PyVal arg_i) for i = 0..n-1
   - pyCall: PyObject_CallNoArgs / CallOneArg / CallFunctionObjArgs(.., NULL)
     chosen by the DECLARED parameter count and variadic flag of the Go prototype
   - module variables: one global per module; the init of a binding package
     (LLGoPackage = py.<module>) ends with if var == nil then var := Import(path)
   - pyLoadModSyms: the names of all Python symbols a package uses are sorted
     and cut into runs of equal module prefix; one llgoLoadPyModSyms call per run,
     each listing ALL symbols of that module. *)
From LLGoV Require Export Lib.Common Lib.BV.
From LLGoV Require C12.Model.
Local Open Scope Z_scope.

(* ---------- Go side ---------- *)

Inductive gty :=
| TBool | TInt (w : Z) (signed : bool) | TF32 | TF64 | TStr | TSlice | TArr (n : Z)
| TC64 | TC128 | TObj | TPtr.

Inductive api := ABool | ALL | AULL | AFloat | AUnicode | AByteArray | ABytes | AComplex.
Inductive conv := CId | CSExt (f t : Z) | CZExt (f t : Z) | CFPExt | CPtrToInt.

(* constructor called (None: the value already is an object) and conversion of
   each C argument, as emitted by Builder.PyVal *)
Definition val_step (t : gty) : option api * list conv :=
  match t with
  | TBool => (Some ABool, [CSExt 1 32])
  | TInt w true => (Some ALL, [if w <? 64 then CSExt w 64 else CId])
  | TInt w false => (Some AULL, [if w <? 64 then CZExt w 64 else CId])
  | TF32 => (Some AFloat, [CFPExt])
  | TF64 => (Some AFloat, [CId])
  | TStr => (Some AUnicode, [CId; CId])
  | TSlice => (Some AByteArray, [CId; CId])
  | TArr _ => (Some ABytes, [CId; CId])
  | TC64 => (Some AComplex, [CFPExt; CFPExt])
  | TC128 => (Some AComplex, [CId; CId])
  | TObj => (None, [])
  | TPtr => (Some AULL, [CPtrToInt])
  end.

(* before the fix "PyVal: do not widen the shared type descriptor": Builder.PyVal
   wrote the widened LLVM type back into the shared descriptor of the Go type
   (v.ll = typ on a *aType), so only the first conversion of int8/16/32,
   uint8/16/32 in a build was extended; later ones passed the narrow value as it
   was (upper bits unspecified); the i32 target of the bool conversion was widened
   the same way by the first int32 *)
Definition val_step_old (first : bool) (t : gty) : option api * list conv :=
  if first then val_step t else
  match t with
  | TInt w true => (Some ALL, [CId])
  | TInt w false => (Some AULL, [CId])
  | TBool => (Some ABool, [CSExt 1 64])
  | _ => val_step t
  end.

(* fixed = true: the code that exists; fixed = false: the lowering before the fix
   (first: is this the first conversion of the Go type in the build) *)
Definition val_step_of (fixed first : bool) (t : gty) : option api * list conv :=
  if fixed then val_step t else val_step_old first t.

Definition api_eqb (a b : api) : bool :=
  match a, b with
  | ABool, ABool | ALL, ALL | AULL, AULL | AFloat, AFloat | AUnicode, AUnicode
  | AByteArray, AByteArray | ABytes, ABytes | AComplex, AComplex => true
  | _, _ => false
  end.
Definition conv_eqb (a b : conv) : bool :=
  match a, b with
  | CId, CId | CFPExt, CFPExt | CPtrToInt, CPtrToInt => true
  | CSExt f t, CSExt f' t' | CZExt f t, CZExt f' t' => (f =? f') && (t =? t')
  | _, _ => false
  end.
Definition step_eqb (a b : option api * list conv) : bool :=
  option_eqb api_eqb (fst a) (fst b) && list_eqb conv_eqb (snd a) (snd b).

(* sign extension of a bit pattern 0 <= b < 2^f to t bits *)
Definition sext (f t b : Z) : Z := wrap t (sgn f b).

(* IEEE-754 binary32 -> binary64 (fpext), on bit patterns; exact.  NaN keeps
   sign and payload and is made quiet *)
Definition f32_widen (b : Z) : Z :=
  let s := b / 2 ^ 31 in let e := (b / 2 ^ 23) mod 2 ^ 8 in let f := b mod 2 ^ 23 in
  if e =? 255 then
    s * 2 ^ 63 + 2047 * 2 ^ 52 + (if f =? 0 then 0 else f * 2 ^ 29 + (if f <? 2 ^ 22 then 2 ^ 51 else 0))
  else if e =? 0 then
    (if f =? 0 then s * 2 ^ 63
     else let k := Z.log2 f in s * 2 ^ 63 + (k - 149 + 1023) * 2 ^ 52 + (f * 2 ^ (52 - k) - 2 ^ 52))
  else s * 2 ^ 63 + (e - 127 + 1023) * 2 ^ 52 + f * 2 ^ 29.

(* decoded value of a bit pattern: sign, and m * 2^e for finite numbers *)
Inductive fval := FFin (neg : bool) (m e : Z) | FInf (neg : bool) | FNaN.
Definition f_decode (ebits fbits : Z) (b : Z) : fval :=
  let s := b / 2 ^ (ebits + fbits) in
  let e := (b / 2 ^ fbits) mod 2 ^ ebits in
  let f := b mod 2 ^ fbits in
  let bias := 2 ^ (ebits - 1) - 1 in
  if e =? 2 ^ ebits - 1 then (if f =? 0 then FInf (s =? 1) else FNaN)
  else if e =? 0 then FFin (s =? 1) f (1 - bias - fbits)
  else FFin (s =? 1) (2 ^ fbits + f) (e - bias - fbits).
Definition f32_decode := f_decode 8 23.
Definition f64_decode := f_decode 11 52.

(* same real number *)
Definition fval_same (a b : fval) : Prop :=
  match a, b with
  | FFin s1 m1 e1, FFin s2 m2 e2 =>
      s1 = s2 /\ m1 * 2 ^ (e1 - Z.min e1 e2) = m2 * 2 ^ (e2 - Z.min e1 e2)
  | FInf s1, FInf s2 => s1 = s2
  | FNaN, FNaN => True
  | _, _ => False
  end.

Definition bytes := list Z.

Inductive goval (obj : Type) :=
| VBool (b : bool)
| VInt (w : Z) (signed : bool) (bits : Z)      (* 0 <= bits < 2^w *)
| VF32 (bits : Z) | VF64 (bits : Z)
| VStr (s : bytes) | VSlice (s : bytes) | VArr (s : bytes)
| VC64 (re im : Z) | VC128 (re im : Z)
| VObj (o : obj)
| VPtr (addr : Z).
Arguments VBool {obj}. Arguments VInt {obj}. Arguments VF32 {obj}. Arguments VF64 {obj}.
Arguments VStr {obj}. Arguments VSlice {obj}. Arguments VArr {obj}. Arguments VC64 {obj}.
Arguments VC128 {obj}. Arguments VObj {obj}. Arguments VPtr {obj}.

Definition ty_of {obj} (v : goval obj) : gty :=
  match v with
  | VBool _ => TBool | VInt w s _ => TInt w s | VF32 _ => TF32 | VF64 _ => TF64
  | VStr _ => TStr | VSlice _ => TSlice | VArr s => TArr (Z.of_nat (length s))
  | VC64 _ _ => TC64 | VC128 _ _ => TC128 | VObj _ => TObj | VPtr _ => TPtr
  end.

(* ---------- the C API, abstractly ---------- *)

Record ops (obj : Type) := {
  o_bool : Z -> obj;            (* PyBool_FromLong(int) *)
  o_ll : Z -> obj;              (* PyLong_FromLongLong, argument as 64-bit pattern *)
  o_ull : Z -> obj;             (* PyLong_FromUnsignedLongLong *)
  o_float : Z -> obj;           (* PyFloat_FromDouble, IEEE bits *)
  o_unicode : bytes -> obj;     (* PyUnicode_FromStringAndSize(data, len): the len bytes *)
  o_bytearray : bytes -> obj;   (* PyByteArray_FromStringAndSize *)
  o_bytes : bytes -> obj;       (* PyBytes_FromStringAndSize *)
  o_complex : Z -> Z -> obj;    (* PyComplex_FromDoubles *)
  o_list_new : Z -> obj;
  o_list_set : obj -> Z -> obj -> obj;   (* the list after PyList_SetItem(l, i, x) *)
  o_tuple_new : Z -> obj;
  o_tuple_set : obj -> Z -> obj -> obj;
  o_as_ll : obj -> option Z;    (* PyLong_AsLongLong: 64-bit pattern, None = OverflowError/TypeError *)
  o_as_ull : obj -> option Z;   (* PyLong_AsUnsignedLongLong *)
  o_as_double : obj -> option Z (* PyFloat_AsDouble *)
}.
Arguments o_bool {obj}. Arguments o_ll {obj}. Arguments o_ull {obj}. Arguments o_float {obj}.
Arguments o_unicode {obj}. Arguments o_bytearray {obj}. Arguments o_bytes {obj}. Arguments o_complex {obj}.
Arguments o_list_new {obj}. Arguments o_list_set {obj}. Arguments o_tuple_new {obj}. Arguments o_tuple_set {obj}.
Arguments o_as_ll {obj}. Arguments o_as_ull {obj}. Arguments o_as_double {obj}.

(* Builder.PyVal *)
Definition py_val_gen {obj} (A : ops obj) (v : goval obj) : obj :=
  match v with
  | VBool b => o_bool A (sgn 32 (sext 1 32 (if b then 1 else 0)))
  | VInt w true bits => o_ll A (if w <? 64 then sext w 64 bits else bits)
  | VInt w false bits => o_ull A bits           (* zext keeps the pattern *)
  | VF32 b => o_float A (f32_widen b)
  | VF64 b => o_float A b
  | VStr s => o_unicode A s
  | VSlice s => o_bytearray A s
  | VArr s => o_bytes A s
  | VC64 re im => o_complex A (f32_widen re) (f32_widen im)
  | VC128 re im => o_complex A re im
  | VObj o => o
  | VPtr a => o_ull A a
  end.

(* meaning of the lowering selected by [val_step_of]: without the extension the
   64-bit argument carries the narrow pattern (upper bits zero, as observed) *)
Definition py_val_of {obj} (fixed first : bool) (A : ops obj) (v : goval obj) : obj :=
  if fixed || first then py_val_gen A v else
  match v with
  | VInt w true bits => o_ll A bits
  | _ => py_val_gen A v
  end.

(* Builder.PyList / PyTuple: New(n); SetItem(i, PyVal arg_i) in argument order *)
Fixpoint set_items {obj} (set : obj -> Z -> obj -> obj) (l : obj) (i : Z) (xs : list obj) : obj :=
  match xs with
  | [] => l
  | x :: r => set_items set (set l i x) (i + 1) r
  end.
Definition py_list_gen {obj} (A : ops obj) (vs : list (goval obj)) : obj :=
  set_items (o_list_set A) (o_list_new A (Z.of_nat (length vs))) 0 (map (py_val_gen A) vs).
Definition py_tuple_gen {obj} (A : ops obj) (vs : list (goval obj)) : obj :=
  set_items (o_tuple_set A) (o_tuple_new A (Z.of_nat (length vs))) 0 (map (py_val_gen A) vs).

(* the emitted sequence for PyList: (index of SetItem, index of the Go argument) *)
Definition list_plan (n : nat) : Z * list (Z * Z) :=
  (Z.of_nat n, map (fun i => (Z.of_nat i, Z.of_nat i)) (seq 0 n)).

Definition plan_eqb (a b : Z * list (Z * Z)) : bool :=
  (fst a =? fst b) && list_eqb (fun x y => (fst x =? fst y) && (snd x =? snd y)) (snd a) (snd b).

(* ---------- calls ---------- *)

Inductive ccall (obj : Type) :=
| CallNoArgs (f : obj)
| CallOneArg (f a : obj)
| CallObjArgs (f : obj) (args : list (option obj)).   (* None = NULL *)
Arguments CallNoArgs {obj}. Arguments CallOneArg {obj}. Arguments CallObjArgs {obj}.

(* a compiled argument: an object, or (for a Go prototype declared with an
   ordinary variadic parameter instead of the __llgo_va_list convention) the Go
   slice header itself, which the emitted call passes by value *)
Inductive carg (obj : Type) := AObj (o : obj) | AGoSlice (elems : list obj).
Arguments AObj {obj}. Arguments AGoSlice {obj}.

(* cl compileValues/compileVArg: only a last parameter named __llgo_va_list is
   expanded into its elements *)
Definition lower_args {obj} (variadic valist : bool) (fixed var : list obj) : list (carg obj) :=
  map AObj fixed ++ (if variadic then (if valist then map AObj var else [AGoSlice var]) else []).

(* Builder.pyCall: nparams = declared parameter count of the Go prototype *)
Definition py_call {obj} (nparams : nat) (variadic : bool) (f : obj) (args : list obj) : ccall obj :=
  match nparams, variadic with
  | O, _ => CallNoArgs f
  | S O, false => match args with a :: _ => CallOneArg f a | [] => CallNoArgs f end
  | _, _ => CallObjArgs f (map Some args ++ [None])
  end.

(* what the callee receives (documentation of the three entry points:
   CallFunctionObjArgs reads arguments up to the first NULL) *)
Fixpoint upto_null {obj} (l : list (option obj)) : list obj :=
  match l with Some x :: r => x :: upto_null r | _ => [] end.
Definition delivered {obj} (c : ccall obj) : list obj :=
  match c with
  | CallNoArgs _ => []
  | CallOneArg _ a => [a]
  | CallObjArgs _ l => upto_null l
  end.

Definition argcode (a : carg Z) : Z := match a with AObj k => k | AGoSlice _ => -1 end.
Definition call_shape (nparams : nat) (variadic valist : bool) (fixed var : list Z) : ccall Z :=
  py_call nparams variadic 0 (map argcode (lower_args variadic valist fixed var)).

Definition ccall_eqb (a b : ccall Z) : bool :=
  match a, b with
  | CallNoArgs f, CallNoArgs g => f =? g
  | CallOneArg f x, CallOneArg g y => (f =? g) && (x =? y)
  | CallObjArgs f l, CallObjArgs g m => (f =? g) && list_eqb (option_eqb Z.eqb) l m
  | _, _ => false
  end.

(* ---------- concrete reading of CPython (for the end-to-end comparison) ---------- *)

Inductive pyval :=
| PNull | PBool (b : bool) | PLong (z : Z) | PFloat (bits : Z) | PStr (s : bytes)
| PByteArray (s : bytes) | PBytes (s : bytes) | PComplex (re im : Z)
| PList (l : list pyval) | PTuple (l : list pyval).

Fixpoint upd {A} (l : list A) (i : nat) (x : A) : list A :=
  match l, i with
  | [], _ => []
  | _ :: r, O => x :: r
  | a :: r, S j => a :: upd r j x
  end.

Definition c_ops : ops pyval := {|
  o_bool := fun v => PBool (negb (v =? 0));
  o_ll := fun b => PLong (sgn 64 b);
  o_ull := fun b => PLong b;
  o_float := PFloat;
  o_unicode := PStr; o_bytearray := PByteArray; o_bytes := PBytes; o_complex := PComplex;
  o_list_new := fun n => PList (repeat PNull (Z.to_nat n));
  o_list_set := fun l i x => match l with PList xs => PList (upd xs (Z.to_nat i) x) | _ => l end;
  o_tuple_new := fun n => PTuple (repeat PNull (Z.to_nat n));
  o_tuple_set := fun l i x => match l with PTuple xs => PTuple (upd xs (Z.to_nat i) x) | _ => l end;
  o_as_ll := fun o => match o with
                      | PLong z => if (- 2 ^ 63 <=? z) && (z <? 2 ^ 63) then Some (wrap 64 z) else None
                      | _ => None end;
  o_as_ull := fun o => match o with
                       | PLong z => if (0 <=? z) && (z <? 2 ^ 64) then Some z else None
                       | _ => None end;
  o_as_double := fun o => match o with PFloat b => Some b | _ => None end
|}.

Definition py_val : goval pyval -> pyval := py_val_gen c_ops.
Definition py_list : list (goval pyval) -> pyval := py_list_gen c_ops.
Definition py_tuple : list (goval pyval) -> pyval := py_tuple_gen c_ops.

(* all NaNs are one value for the comparison with CPython (payload and sign of a
   NaN are not specified across fpext) *)
Definition is_nan64 (b : Z) : bool := ((b / 2 ^ 52) mod 2 ^ 11 =? 2047) && negb (b mod 2 ^ 52 =? 0).
Definition fbits_eqb (x y : Z) : bool := (x =? y) || (is_nan64 x && is_nan64 y).

Fixpoint pyval_eqb (a b : pyval) : bool :=
  let fix all2 (l m : list pyval) : bool :=
    match l, m with [], [] => true | x :: l', y :: m' => pyval_eqb x y && all2 l' m' | _, _ => false end in
  match a, b with
  | PNull, PNull => true
  | PBool x, PBool y => Bool.eqb x y
  | PLong x, PLong y => x =? y
  | PFloat x, PFloat y => fbits_eqb x y
  | PStr x, PStr y | PByteArray x, PByteArray y | PBytes x, PBytes y => list_eqb Z.eqb x y
  | PComplex a1 a2, PComplex b1 b2 => fbits_eqb a1 b1 && fbits_eqb a2 b2
  | PList l, PList m | PTuple l, PTuple m => all2 l m
  | _, _ => false
  end.

(* ---------- module variables ---------- *)

(* what a package body does with Python modules, in order *)
Inductive prole :=
| BBind (m : Z)            (* binding package of module m: if var(m) == nil then var(m) := Import(m) *)
| BUse (ms : list Z)       (* a package calling functions of modules ms *)
| BPlain.

Inductive pev := EvImport (m : Z) | EvUse (m : Z).

Definition memZ (x : Z) (l : list Z) : bool := existsb (Z.eqb x) l.

Fixpoint run_bodies (imported : list Z) (bs : list prole) : list pev :=
  match bs with
  | [] => []
  | BBind m :: r => if memZ m imported then run_bodies imported r
                    else EvImport m :: run_bodies (m :: imported) r
  | BUse ms :: r => map EvUse ms ++ run_bodies imported r
  | BPlain :: r => run_bodies imported r
  end.

Definition pev_eqb (a b : pev) : bool :=
  match a, b with
  | EvImport x, EvImport y | EvUse x, EvUse y => x =? y
  | _, _ => false
  end.

(* events of a whole program: package bodies in the order C12's model runs them *)
Definition roles_of (roles : list prole) (tr : list C12.Model.event) : list prole :=
  flat_map (fun e => match e with C12.Model.EMain p => [nth p roles BPlain] | C12.Model.EOrig _ => [] end) tr.
Definition init_events (g : C12.Model.prog) (roots : list nat) (roles : list prole) : list pev :=
  run_bodies [] (roles_of roles (C12.Model.exec g roots)).

(* ---------- pyLoadModSyms ---------- *)

Definition name := list Z.    (* bytes of module.path.symbol *)

(* bytes before the last '.' *)
Fixpoint mod_of_aux (acc cur : name) (s : name) : name :=
  match s with
  | [] => acc
  | c :: r => if c =? 46 then mod_of_aux (acc ++ cur) [c] r
              else mod_of_aux acc (cur ++ [c]) r
  end.
Definition mod_of (s : name) : name := mod_of_aux [] [] s.

Fixpoint name_leb (a b : name) : bool :=
  match a, b with
  | [], _ => true
  | _ :: _, [] => false
  | x :: a', y :: b' => if x <? y then true else if y <? x then false else name_leb a' b'
  end.
Fixpoint insert_name (x : name) (l : list name) : list name :=
  match l with
  | [] => [x]
  | y :: r => if name_leb x y then x :: l else y :: insert_name x r
  end.
Definition sort_names (l : list name) : list name := fold_right insert_name [] l.

Definition name_eqb : name -> name -> bool := list_eqb Z.eqb.

(* module of each run of the sorted names *)
Fixpoint runs (last : option name) (l : list name) : list name :=
  match l with
  | [] => []
  | n :: r => let m := mod_of n in
              if option_eqb name_eqb last (Some m) then runs last r else m :: runs (Some m) r
  end.

(* the emitted calls: (module, all symbols of that module in sorted order) *)
Definition load_mod_syms (names : list name) : list (name * list name) :=
  let s := sort_names names in
  map (fun m => (m, filter (fun n => name_eqb (mod_of n) m) s)) (runs None s).

Definition loads_eqb : list (name * list name) -> list (name * list name) -> bool :=
  list_eqb (fun a b => name_eqb (fst a) (fst b) && list_eqb name_eqb (snd a) (snd b)).
